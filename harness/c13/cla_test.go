//go:build verif

package c13

import (
	"fmt"
	"strconv"
	"strings"
	"testing"

	corev3 "github.com/envoyproxy/go-control-plane/envoy/config/core/v3"
	endpoint "github.com/envoyproxy/go-control-plane/envoy/config/endpoint/v3"

	meshconfig "istio.io/api/mesh/v1alpha1"
	networking "istio.io/api/networking/v1alpha3"
	"istio.io/istio/pilot/pkg/features"
	"istio.io/istio/pilot/pkg/model"
	"istio.io/istio/pilot/pkg/serviceregistry/util/xdsfake"
	"istio.io/istio/pilot/pkg/xds/endpoints"
	"istio.io/istio/pkg/cluster"
	"istio.io/istio/pkg/config"
	"istio.io/istio/pkg/config/constants"
	"istio.io/istio/pkg/config/host"
	"istio.io/istio/pkg/config/labels"
	"istio.io/istio/pkg/config/mesh/meshwatcher"
	"istio.io/istio/pkg/config/protocol"
	"istio.io/istio/pkg/config/schema/gvk"
	"istio.io/istio/pkg/kube"
	"istio.io/istio/pkg/kube/krt"
	"istio.io/istio/pkg/network"
	"istio.io/istio/pkg/test"
	"verif/harness/vlib"
)

// ---------------------------------------------------------------- worlds (one PushContext per gateway set)

type GW struct{ Net, Cluster, Addr, Port int }

func (g GW) real() model.NetworkGateway {
	return model.NetworkGateway{Network: network.ID(istr("n", g.Net)), Cluster: cluster.ID(istr("c", g.Cluster)),
		Addr: "172.16.0." + strconv.Itoa(g.Addr), Port: uint32(g.Port)}
}
func gwOf(g model.NetworkGateway) GW {
	return GW{unstr("n", string(g.Network)), unstr("c", string(g.Cluster)), unstr("172.16.0.", g.Addr), int(g.Port)}
}
func gGW(g GW) string {
	return vlib.App("Build_gw", vlib.NI(g.Net), vlib.NI(g.Cluster), vlib.NI(g.Addr), vlib.NI(g.Port))
}

var worldGWs = [][]GW{
	{},
	{{2, 2, 1, 15443}},
	{{2, 2, 2, 15443}, {2, 2, 1, 15443}, {3, 3, 3, 15443}},
	{{1, 1, 1, 15443}, {2, 2, 2, 15443}, {2, 2, 3, 0}},
	{{2, 2, 1, 15443}, {2, 3, 2, 15443}, {2, 3, 3, 15444}},
}

type sd struct {
	services []*model.Service
	gws      []model.NetworkGateway
	model.NetworkGatewaysHandler
}

func (l *sd) Services() []*model.Service          { return l.services }
func (l *sd) GetService(host.Name) *model.Service { return nil }
func (l *sd) GetProxyServiceTargets(*model.Proxy) []model.ServiceTarget {
	return nil
}
func (l *sd) GetProxyWorkloadLabels(*model.Proxy) labels.Instance { return nil }
func (l *sd) GetIstioServiceAccounts(*model.Service) []string    { return nil }
func (l *sd) NetworkGateways() []model.NetworkGateway            { return l.gws }
func (l *sd) MCSServices() []model.MCSServiceInfo                { return nil }

const (
	hostGlobal = "svc.ns1.svc.cluster.local"
	hostLocal  = "local.ns1.svc.cluster.local"
)

type world struct {
	push  *model.PushContext
	gws   []GW // as the real NetworkManager orders them
	scale uint32
}

func buildWorld(t *testing.T, gws []GW) world {
	env := model.NewEnvironment()
	configStore := model.NewFakeStore()
	env.ConfigStore = configStore
	env.Watcher = meshwatcher.NewTestWatcher(&meshconfig.MeshConfig{
		RootNamespace: "istio-system",
		ServiceSettings: []*meshconfig.MeshConfig_ServiceSettings{{
			Settings: &meshconfig.MeshConfig_ServiceSettings_Settings{ClusterLocal: true},
			Hosts:    []string{hostLocal},
		}},
	})
	env.NetworksWatcher = meshwatcher.NewFixedNetworksWatcher(nil)
	s := &sd{}
	for _, g := range gws {
		s.gws = append(s.gws, g.real())
	}
	env.ServiceDiscovery = s
	if err := env.InitNetworksManager(xdsfake.NewFakeXDS()); err != nil {
		t.Fatal(err)
	}
	env.VirtualServiceController = model.NewVirtualServiceController(configStore,
		model.VSControllerOptions{KrtDebugger: krt.GlobalDebugHandler}, env.Watcher)
	stop := test.NewStop(t)
	go configStore.Run(stop)
	go env.VirtualServiceController.Run(stop)
	kube.WaitForCacheSync("c13", stop, configStore.HasSynced)
	kube.WaitForCacheSync("c13", stop, env.VirtualServiceController.HasSynced)
	env.Init()
	push := model.NewPushContext()
	push.InitContext(env, nil, nil)
	env.SetPushContext(push)
	w := world{push: push, scale: push.NetworkManager().GetLBWeightScaleFactor()}
	for _, g := range push.NetworkManager().AllGateways() {
		w.gws = append(w.gws, gwOf(g))
	}
	if len(w.gws) != len(gws) {
		t.Fatalf("world gateways: got %d want %d", len(w.gws), len(gws))
	}
	return w
}

// ---------------------------------------------------------------- abstract CLA input

type Subset struct {
	Name   int
	Labels []lab
	OD     int // 0 none, 1 outlier detection with minHealthPercent = 0, 2 with minHealthPercent > 0
}
type DRule struct {
	Subsets []Subset
	OD      int
}
type Shard struct {
	K   SKey
	Eps []EP
}
type ClaIn struct {
	Found, DNS                             bool
	Ports                                  [][2]int // number, name
	Port                                   int
	Inference                              bool
	ClusterLocal, NodeLocal, Persistent    bool
	DefaultUnh                             bool
	Subset                                 int
	DR                                     *DRule
	PNet, PCluster, PNode                  int
	View                                   []int
	HasView                                bool
	World                                  int
	InIndex                                bool
	Shards                                 []Shard
	// locality load balancing (ClaLb cases): proxy locality/labels and the DestinationRule's localityLbSetting
	PLoc    int
	PLabels []lab
	LB      *LBIn
}

type PrioLabel struct {
	Key      int
	Override int // 0 = none, else "=v<Override>"
}
type LBIn struct {
	Failover [][2]int // from region -> to region
	Prio     []PrioLabel
}

func gLB(ci ClaIn) string {
	has := ci.LB != nil
	var fo [][2]int
	var pr []PrioLabel
	if has {
		fo, pr = ci.LB.Failover, ci.LB.Prio
	}
	return vlib.App("Build_lb_in", vlib.B(has), vlib.NI(ci.PLoc), gLabs(ci.PLabels),
		vlib.ListOf(fo, func(f [2]int) string { return vlib.Pair(vlib.NI(f[0]), vlib.NI(f[1])) }),
		vlib.ListOf(pr, func(p PrioLabel) string { return vlib.Pair(vlib.NI(p.Key), vlib.Opt(p.Override != 0, vlib.NI(p.Override))) }))
}

func gOD(od int) string {
	switch od {
	case 1:
		return "(Some false)"
	case 2:
		return "(Some true)"
	}
	return "None"
}
func realOD(od int) *networking.OutlierDetection {
	switch od {
	case 1:
		return &networking.OutlierDetection{}
	case 2:
		return &networking.OutlierDetection{MinHealthPercent: 30}
	}
	return nil
}
func realLabels(ls []lab) map[string]string {
	if len(ls) == 0 {
		return nil
	}
	m := map[string]string{}
	for _, l := range ls {
		m["k"+strconv.Itoa(l.K)] = "v" + strconv.Itoa(l.V)
	}
	return m
}

func gClaIn(ci ClaIn, w world, shardsInOrder []Shard) string {
	dr := "None"
	if ci.DR != nil {
		dr = "(Some " + vlib.App("Build_drule", vlib.ListOf(ci.DR.Subsets, func(s Subset) string {
			return vlib.App("Build_subset", vlib.NI(s.Name), gLabs(s.Labels), gOD(s.OD))
		}), gOD(ci.DR.OD)) + ")"
	}
	view := "None"
	if ci.HasView {
		view = "(Some " + vlib.ListOf(ci.View, vlib.NI) + ")"
	}
	shards := "None"
	if ci.InIndex {
		shards = "(Some " + vlib.ListOf(shardsInOrder, func(s Shard) string { return vlib.Pair(gSKey(s.K), gEPs(s.Eps)) }) + ")"
	}
	return vlib.App("Build_cla_in", vlib.B(ci.Found), vlib.B(ci.DNS),
		vlib.ListOf(ci.Ports, func(p [2]int) string { return vlib.Pair(vlib.NI(p[0]), vlib.NI(p[1])) }),
		vlib.NI(ci.Port), vlib.B(ci.Inference), vlib.B(ci.ClusterLocal), vlib.B(ci.NodeLocal), vlib.B(ci.Persistent),
		vlib.B(ci.DefaultUnh), vlib.NI(ci.Subset), dr, vlib.NI(ci.PNet), vlib.NI(ci.PCluster), vlib.NI(ci.PNode), view,
		vlib.ListOf(w.gws, gGW), vlib.N(uint64(w.scale)), shards)
}

type memberObs struct {
	GW     bool
	Addr   int
	DNS    bool
	Port   int
	Weight uint32
	Health int
}

func gMember(m memberObs) string {
	return vlib.App("Build_member", vlib.B(m.GW), vlib.NI(m.Addr), vlib.B(m.DNS), vlib.NI(m.Port), vlib.N(uint64(m.Weight)), vlib.NI(m.Health))
}

// runCla drives the real builder; returns the observed groups as a Gallina term and counters.
func runCla(ci ClaIn, w world, withPrio bool) (obs string, served int, shardsInOrder []Shard) {
	features.DefaultSendUnhealthyEndpoints.Store(ci.DefaultUnh)
	defer features.DefaultSendUnhealthyEndpoints.Store(true)
	hostname := hostGlobal
	if ci.ClusterLocal {
		hostname = hostLocal
	}
	var svc *model.Service
	if ci.Found {
		svc = &model.Service{
			Hostname:   host.Name(hostname),
			Resolution: model.ClientSideLB,
			Attributes: model.ServiceAttributes{Name: strings.SplitN(hostname, ".", 2)[0], Namespace: "ns1", Labels: map[string]string{}},
		}
		svc.Attributes.NodeLocal = ci.NodeLocal
		if ci.DNS {
			svc.Resolution = model.DNSLB
		}
		for _, p := range ci.Ports {
			svc.Ports = append(svc.Ports, &model.Port{Name: istr("p", p[1]), Port: p[0], Protocol: protocol.HTTP})
		}
		if ci.Persistent {
			svc.Attributes.Labels[features.PersistentSessionLabel] = "true"
		}
		if ci.Inference {
			svc.Attributes.Labels[constants.InternalServiceSemantics] = constants.ServiceSemanticsInferencePool
		}
	}
	var dr *model.ConsolidatedDestRule
	if ci.DR != nil {
		spec := &networking.DestinationRule{Host: hostname}
		if ci.DR.OD != 0 {
			spec.TrafficPolicy = &networking.TrafficPolicy{OutlierDetection: realOD(ci.DR.OD)}
		}
		if ci.LB != nil {
			if spec.TrafficPolicy == nil {
				spec.TrafficPolicy = &networking.TrafficPolicy{}
			}
			ll := &networking.LocalityLoadBalancerSetting{}
			for _, f := range ci.LB.Failover {
				ll.Failover = append(ll.Failover, &networking.LocalityLoadBalancerSetting_Failover{From: "r" + strconv.Itoa(f[0]), To: "r" + strconv.Itoa(f[1])})
			}
			for _, p := range ci.LB.Prio {
				l := "k" + strconv.Itoa(p.Key)
				if p.Override != 0 {
					l += "=v" + strconv.Itoa(p.Override)
				}
				ll.FailoverPriority = append(ll.FailoverPriority, l)
			}
			spec.TrafficPolicy.LoadBalancer = &networking.LoadBalancerSettings{LocalityLbSetting: ll}
		}
		for _, s := range ci.DR.Subsets {
			ss := &networking.Subset{Name: "sub" + strconv.Itoa(s.Name), Labels: realLabels(s.Labels)}
			if s.OD != 0 {
				ss.TrafficPolicy = &networking.TrafficPolicy{OutlierDetection: realOD(s.OD)}
			}
			spec.Subsets = append(spec.Subsets, ss)
		}
		cfg := config.Config{Meta: config.Meta{GroupVersionKind: gvk.DestinationRule, Name: "dr", Namespace: "ns1"}, Spec: spec}
		dr = model.ConvertConsolidatedDestRule(&cfg, nil)
	}
	idx := model.NewEndpointIndex(model.DisabledCache{})
	if ci.InIndex {
		for _, sh := range ci.Shards {
			var eps []*model.IstioEndpoint
			for _, e := range sh.Eps {
				eps = append(eps, e.real())
			}
			idx.UpdateServiceEndpoints(sh.K.real(), hostname, "ns1", eps, false)
		}
		if es, ok := idx.ShardsForService(hostname, "ns1"); ok {
			es.RLock()
			for _, k := range es.Keys() {
				s := Shard{K: skeyOf(k)}
				for _, ie := range es.Shards[k] {
					s.Eps = append(s.Eps, abstract(ie))
				}
				shardsInOrder = append(shardsInOrder, s)
			}
			es.RUnlock()
		}
	}
	proxy := &model.Proxy{
		Type: model.SidecarProxy, ID: "app.ns1", ConfigNamespace: "ns1", DNSDomain: "ns1.svc.cluster.local",
		Metadata: &model.NodeMetadata{Namespace: "ns1", Network: network.ID(istr("n", ci.PNet)), ClusterID: cluster.ID(istr("c", ci.PCluster)),
			NodeName: istr("node", ci.PNode)},
	}
	if ci.HasView {
		for _, n := range ci.View {
			proxy.Metadata.RequestedNetworkView = append(proxy.Metadata.RequestedNetworkView, "n"+strconv.Itoa(n))
		}
	}
	proxy.Locality = &corev3.Locality{}
	if ci.PLoc != 0 {
		proxy.Locality = &corev3.Locality{Region: "r" + strconv.Itoa(ci.PLoc/100), Zone: "z" + strconv.Itoa((ci.PLoc/10)%10), SubZone: "s" + strconv.Itoa(ci.PLoc%10)}
	}
	proxy.Labels = realLabels(ci.PLabels)
	proxy.SetSidecarScope(w.push)
	subsetName := istr("sub", ci.Subset)
	cn := model.BuildSubsetKey(model.TrafficDirectionOutbound, subsetName, host.Name(hostname), ci.Port)
	b := endpoints.NewCDSEndpointBuilder(proxy, w.push, cn, model.TrafficDirectionOutbound, subsetName, host.Name(hostname), ci.Port, svc, dr)
	cla := b.BuildClusterLoadAssignment(idx)
	if cla.ClusterName != cn {
		panic("cluster name changed")
	}
	var groups []string
	for _, l := range cla.Endpoints {
		loc := 0
		if l.Locality != nil && l.Locality.Region != "" {
			loc = unstr("r", l.Locality.Region)*100 + unstr("z", l.Locality.Zone)*10 + unstr("s", l.Locality.SubZone)
		}
		wt := "None"
		if l.LoadBalancingWeight != nil {
			wt = "(Some " + vlib.N(uint64(l.LoadBalancingWeight.Value)) + ")"
		}
		var ms []memberObs
		for _, le := range l.LbEndpoints {
			ms = append(ms, observeMember(le))
			served++
		}
		if withPrio {
			groups = append(groups, vlib.Pair(vlib.Pair(vlib.Pair(vlib.NI(loc), vlib.NI(int(l.Priority))), wt), vlib.ListOf(ms, gMember)))
		} else {
			if l.Priority != 0 {
				panic("priority set without locality load balancing")
			}
			groups = append(groups, vlib.Pair(vlib.Pair(vlib.NI(loc), wt), vlib.ListOf(ms, gMember)))
		}
	}
	return vlib.List(groups), served, shardsInOrder
}

func observeMember(le *endpoint.LbEndpoint) memberObs {
	sa := le.GetEndpoint().GetAddress().GetSocketAddress()
	if sa == nil {
		panic(fmt.Sprintf("unexpected endpoint address kind: %v", le.GetEndpoint().GetAddress()))
	}
	m := memberObs{Port: int(sa.GetPortValue()), Weight: le.GetLoadBalancingWeight().GetValue(), Health: int(le.HealthStatus)}
	if strings.HasPrefix(sa.Address, "172.16.0.") {
		m.GW = true
		m.Addr = unstr("172.16.0.", sa.Address)
	} else {
		m.Addr, m.DNS = addrOf(sa.Address)
	}
	return m
}

// ---------------------------------------------------------------- generator

func genClaIn(r *vlib.Rand, nWorlds int) ClaIn {
	ci := ClaIn{Found: !r.Chance(3), DNS: r.Chance(4), Ports: [][2]int{{80, 1}, {81, 2}}, Port: 80, Inference: r.Chance(6),
		ClusterLocal: r.Chance(15), NodeLocal: r.Chance(10), Persistent: r.Chance(25), DefaultUnh: !r.Chance(35),
		PNet: r.Intn(4), PCluster: 1 + r.Intn(3), PNode: 1 + r.Intn(2), InIndex: !r.Chance(4)}
	if r.Chance(8) {
		ci.PCluster = 0
	}
	switch r.Intn(10) {
	case 0:
		ci.Port = 81
	case 1:
		ci.Port = 82 // not a port of the service
	}
	if r.Chance(10) { // two ports with the same number: the first wins
		ci.Ports = [][2]int{{80, 2}, {80, 1}, {81, 2}}
	}
	if r.Chance(20) {
		ci.HasView = true
		for n := 1; n <= 3; n++ {
			if r.Chance(50) {
				ci.View = append(ci.View, n)
			}
		}
		ci.HasView = len(ci.View) > 0 // an empty RequestedNetworkView means "all networks"
	}
	ci.World = r.Intn(nWorlds)
	if r.Chance(35) {
		ci.World = 0
	}
	if r.Chance(70) {
		d := &DRule{OD: r.Intn(3)}
		if r.Chance(50) {
			d.OD = 0
		}
		for s := 1; s <= 2; s++ {
			if r.Chance(80) {
				sub := Subset{Name: s}
				if r.Chance(85) {
					sub.Labels = []lab{{1, 1 + r.Intn(2)}}
					if r.Chance(25) {
						sub.Labels = append(sub.Labels, lab{2, 1})
					}
				}
				if r.Chance(30) {
					sub.OD = 1 + r.Intn(2)
				}
				d.Subsets = append(d.Subsets, sub)
			}
		}
		ci.DR = d
	}
	if r.Chance(65) {
		ci.Subset = 1 + r.Intn(2)
		if r.Chance(5) {
			ci.Subset = 3 // not declared
		}
	}
	heavy := r.Chance(12)
	addr := 0
	nsh := 1 + r.Intn(3)
	used := map[SKey]bool{}
	for s := 0; s < nsh; s++ {
		k := SKey{1 + r.Intn(2), 1 + r.Intn(3)}
		if used[k] {
			continue
		}
		used[k] = true
		sh := Shard{K: k}
		for n := 1 + r.Intn(4); n > 0; n-- {
			addr++
			e := EP{Wl: 1 + r.Intn(2), Addr: addr, Port: 1, EPort: 8080 + r.Intn(2), Health: hHealthy, Weight: uint32(r.Intn(4)),
				Net: r.Intn(4), Cluster: k.Cluster, Loc: vlib.Pick(r, locTable), TLS: !r.Chance(25), Node: 1 + r.Intn(2), SA: r.Intn(3)}
			if r.Chance(20) {
				e.Port = 2
			}
			if r.Chance(35) {
				e.Health = r.Intn(4)
			}
			if r.Chance(60) {
				e.Labels = append(e.Labels, lab{1, 1 + r.Intn(2)})
			}
			if r.Chance(30) {
				e.Labels = append(e.Labels, lab{2, 1 + r.Intn(2)})
			}
			if r.Chance(25) {
				e.Disc = 1 + r.Intn(2)
			}
			if r.Chance(6) {
				e.Cluster = 1 + r.Intn(3) // endpoint cluster differs from the registry's
			}
			if r.Chance(4) {
				e.DNS = true
			}
			if r.Chance(4) {
				e.Addr = 0
				addr--
			}
			if heavy && r.Chance(70) {
				e.Weight = uint32(1<<31) + uint32(r.Intn(1<<30))
				if r.Chance(30) {
					e.Weight = 4294967295
				}
			}
			sh.Eps = append(sh.Eps, e)
		}
		ci.Shards = append(ci.Shards, sh)
	}
	return ci
}

const findingEmptyAddr = "empty-addresses-endpoint-panics-eds"

// malformed stream: an endpoint without any address (IstioEndpoint.Addresses empty).  No in-tree
// registry builds one (kube, ServiceEntry/WorkloadEntry and memory registries always set exactly one
// address, possibly ""), but XDSUpdater.EDSUpdate accepts it and the index stores it.
func runMalformed(w world, multiNetworkRemote bool) (panicked bool, msg string, served int) {
	hostname := hostGlobal
	svc := &model.Service{Hostname: host.Name(hostname), Resolution: model.ClientSideLB,
		Attributes: model.ServiceAttributes{Name: "svc", Namespace: "ns1", Labels: map[string]string{}},
		Ports:      model.PortList{{Name: "p1", Port: 80, Protocol: protocol.HTTP}}}
	good := EP{Wl: 1, Addr: 1, Port: 1, EPort: 8080, Net: 1, Cluster: 1, Loc: 111, TLS: true}.real()
	bad := EP{Wl: 1, Addr: 2, Port: 1, EPort: 8080, Net: 1, Cluster: 1, Loc: 111, TLS: true}.real()
	bad.Addresses = nil
	if multiNetworkRemote {
		bad.Network = "n2"
	}
	idx := model.NewEndpointIndex(model.DisabledCache{})
	idx.UpdateServiceEndpoints(SKey{1, 1}.real(), hostname, "ns1", []*model.IstioEndpoint{good, bad}, false)
	proxy := &model.Proxy{Type: model.SidecarProxy, ID: "app.ns1", ConfigNamespace: "ns1", DNSDomain: "ns1.svc.cluster.local",
		Metadata: &model.NodeMetadata{Namespace: "ns1", Network: "n1", ClusterID: "c1"}}
	proxy.SetSidecarScope(w.push)
	cn := model.BuildSubsetKey(model.TrafficDirectionOutbound, "", host.Name(hostname), 80)
	b := endpoints.NewCDSEndpointBuilder(proxy, w.push, cn, model.TrafficDirectionOutbound, "", host.Name(hostname), 80, svc, nil)
	panicked, msg = vlib.Recover(func() {
		cla := b.BuildClusterLoadAssignment(idx)
		for _, l := range cla.Endpoints {
			served += len(l.LbEndpoints)
		}
	})
	return
}

func genMalformed(c *vlib.Collector, worlds []world, id *int) {
	for i, wi := range []int{0, 1} {
		*id++
		if !c.Wanted(*id) {
			continue
		}
		pan, msg, served := runMalformed(worlds[wi], i == 1)
		c.Tag("malformed-empty-addresses")
		c.Extra[fmt.Sprintf("malformed_empty_addresses_world%d", wi)] = map[string]any{"panicked": pan, "message": msg, "served": served}
		if pan {
			c.Violate(vlib.Violation{ID: *id, Kind: "panic", Finding: findingEmptyAddr,
				Detail: "BuildClusterLoadAssignment on a stored endpoint with empty Addresses: " + msg,
				Case:   map[string]any{"world": wi, "endpoint": "Addresses=nil, ServicePortName=p1, EndpointPort=8080"}})
		}
	}
}

func genCla(t *testing.T, c *vlib.Collector, seed uint64, id *int) {
	var worlds []world
	for _, g := range worldGWs {
		worlds = append(worlds, buildWorld(t, g))
	}
	genMalformed(c, worlds, id)
	root := vlib.NewRand(seed ^ 0xc13c)
	n := vlib.Scale(550, 20000)
	emitAny := func(ci ClaIn, lbCase bool, extra ...string) {
		*id++
		if !c.Wanted(*id) {
			return
		}
		w := worlds[ci.World]
		var obs string
		var served int
		var shards []Shard
		if pan, msg := vlib.Recover(func() { obs, served, shards = runCla(ci, w, ci.LB != nil || lbCase) }); pan {
			c.Violate(vlib.Violation{ID: *id, Kind: "panic", Detail: msg, Case: ci})
			return
		}
		total, sum := 0, uint64(0)
		for _, s := range ci.Shards {
			total += len(s.Eps)
			for _, e := range s.Eps {
				wt := uint64(e.Weight)
				if wt == 0 {
					wt = 1
				}
				sc := uint64(w.scale) // 0 when no gateway is configured (weights are not scaled then)
				if sc == 0 {
					sc = 1
				}
				sum += wt * sc
			}
		}
		tags := append([]string{"cla", fmt.Sprintf("cla-world=%d", ci.World)}, extra...)
		if served == 0 {
			tags = append(tags, "cla-empty")
		}
		if ci.Subset != 0 {
			tags = append(tags, "cla-subset")
		}
		if ci.HasView {
			tags = append(tags, "cla-network-view")
		}
		if ci.ClusterLocal {
			tags = append(tags, "cla-cluster-local")
		}
		if ci.NodeLocal {
			tags = append(tags, "cla-node-local")
		}
		if !ci.DefaultUnh {
			tags = append(tags, "cla-default-unhealthy-off")
		}
		if sum >= 1<<32 {
			tags = append(tags, "cla-weight-sum-over-2^32")
		}
		if lbCase {
			tags[0] = "clalb"
			if ci.LB == nil {
				tags = append(tags, "clalb-no-setting")
			} else {
				if len(ci.LB.Prio) > 0 {
					tags = append(tags, "clalb-failover-priority")
					if len(ci.PLabels) == 0 {
						tags = append(tags, "clalb-proxy-without-labels")
					}
				}
				if len(ci.LB.Failover) > 0 {
					tags = append(tags, "clalb-failover")
				}
			}
			if strings.Contains(obs, ", 1%N)") || strings.Contains(obs, ", 2%N)") {
				tags = append(tags, "clalb-more-than-one-priority")
			}
			c.Add(vlib.Case{ID: *id, Term: vlib.App("ClaLb", vlib.NI(*id), gClaIn(ci, w, shards), gLB(ci), obs), Tags: tags,
				Trivial: !(served > 0 && ci.LB != nil), Sample: map[string]any{"kind": "clalb", "input": ci, "observed": obs}})
			return
		}
		c.Add(vlib.Case{ID: *id, Term: vlib.App("Cla", vlib.NI(*id), gClaIn(ci, w, shards), obs), Tags: tags,
			Trivial: !(served > 0 && served < total), Sample: map[string]any{"kind": "cla", "input": ci, "observed": obs}})
	}
	emit := func(ci ClaIn, extra ...string) { emitAny(ci, false, extra...) }
	// former K12 (fixed in /repo c539934): two endpoints of weight 2^31 on a remote network behind one gateway;
	// locality and gateway weights must saturate exactly like the single-network path
	k12 := ClaIn{Found: true, Ports: [][2]int{{80, 1}}, Port: 80, DefaultUnh: true, PNet: 1, PCluster: 1, PNode: 1, World: 1, InIndex: true,
		Shards: []Shard{{K: SKey{1, 2}, Eps: []EP{
			{Wl: 1, Addr: 1, Port: 1, EPort: 8080, Weight: 1 << 31, Net: 2, Cluster: 2, Loc: 111, TLS: true, Node: 1},
			{Wl: 1, Addr: 2, Port: 1, EPort: 8080, Weight: 1 << 31, Net: 2, Cluster: 2, Loc: 111, TLS: true, Node: 1}}}}}
	emit(k12, "scenario=k12-gateway")
	k12b := k12
	k12b.PNet = 2 // same network: both endpoints stay direct members, locality weight is re-summed by refreshWeight
	emit(k12b, "scenario=k12-direct")
	k12c := k12
	k12c.World = 0 // single network: generate's saturating sum is what is sent
	emit(k12c, "scenario=k12-single-network")
	for i := 0; i < n; i++ {
		r := root.Sub()
		emit(genClaIn(r, len(worlds)))
	}
	// locality load balancing: the same inputs with a proxy locality/labels and a localityLbSetting
	// (failover, failoverPriority) in the DestinationRule; ApplyToLoadAssignment runs on the real path
	fpw := k12c
	fpw.DR = &DRule{OD: 1}
	fpw.LB = &LBIn{Prio: []PrioLabel{{Key: 1}}}
	fpw.PLabels = []lab{{1, 1}}
	fpw.PLoc = 111
	emitAny(fpw, true, "scenario=failover-priority-heavy-weights")
	nlb := vlib.Scale(300, 10000)
	for i := 0; i < nlb; i++ {
		r := root.Sub()
		ci := genClaIn(r, len(worlds))
		ci.Found, ci.DNS, ci.InIndex, ci.Port = true, false, true, 80
		ci.PLoc = vlib.Pick(r, locTable)
		for k := 1; k <= 2; k++ {
			if r.Chance(70) {
				ci.PLabels = append(ci.PLabels, lab{k, 1 + r.Intn(2)})
			}
		}
		if r.Chance(85) {
			if ci.DR == nil {
				ci.DR = &DRule{}
			}
			if r.Chance(75) {
				ci.DR.OD = 1 + r.Intn(2) // outlier detection enables failover
			}
			lb := &LBIn{}
			if r.Chance(55) {
				for n := 1 + r.Intn(2); n > 0; n-- {
					lb.Failover = append(lb.Failover, [2]int{1 + r.Intn(2), 1 + r.Intn(2)})
				}
			}
			if r.Chance(60) {
				keys := []int{1, 2, 3}
				if r.Bool() {
					keys = []int{2, 1}
				}
				for _, k := range keys[:1+r.Intn(len(keys))] {
					pl := PrioLabel{Key: k}
					if r.Chance(25) {
						pl.Override = 1 + r.Intn(2)
					}
					lb.Prio = append(lb.Prio, pl)
				}
			}
			ci.LB = lb
		}
		emitAny(ci, true)
	}
}
