//go:build verif

// Package c13: correspondence harness for property C13 (endpoints served = registries' latest
// healthy members).  Drives the real model.EndpointIndex (sequentially and under schedules imposed
// through the verifGate points) and the real endpoints.EndpointBuilder.BuildClusterLoadAssignment.
package c13

import (
	"fmt"
	"sort"
	"strconv"
	"strings"
	"testing"
	"time"

	"istio.io/istio/pilot/pkg/model"
	"istio.io/istio/pilot/pkg/serviceregistry/provider"
	"istio.io/istio/pkg/cluster"
	"istio.io/istio/pkg/network"
	"istio.io/istio/pkg/util/sets"
	"verif/harness/vlib"
)

// ---------------------------------------------------------------- abstract endpoint <-> real endpoint

const (
	hHealthy = iota
	hUnHealthy
	hDraining
	hTerminating
)

var healthNames = []string{"Healthy", "UnHealthy", "Draining", "Terminating"}
var healthReal = []model.HealthStatus{model.Healthy, model.UnHealthy, model.Draining, model.Terminating}
var discNames = []string{"DiscNone", "DiscAlways", "DiscSameCluster"}

type lab struct{ K, V int }

// EP mirrors the Coq record ep.
type EP struct {
	Wl, Addr int
	DNS      bool
	Port     int // service port name
	EPort    int
	SA       int
	Health   int
	SendUnh  bool
	Weight   uint32
	Labels   []lab
	Net      int
	Cluster  int
	Loc      int
	TLS      bool
	Disc     int
	Node     int
}

const epNamespace = "ns1"

func istr(prefix string, n int) string {
	if n == 0 {
		return ""
	}
	return prefix + strconv.Itoa(n)
}
func unstr(prefix, s string) int {
	if s == "" {
		return 0
	}
	n, err := strconv.Atoi(strings.TrimPrefix(s, prefix))
	if err != nil {
		panic("cannot un-intern " + s)
	}
	return n
}
func addrStr(a int, dns bool) string {
	if a == 0 {
		return ""
	}
	if dns {
		return "h" + strconv.Itoa(a) + ".example.com"
	}
	return fmt.Sprintf("10.%d.%d.%d", a/62500, (a/250)%250, a%250+1)
}
func addrOf(s string) (int, bool) {
	if s == "" {
		return 0, false
	}
	if strings.HasPrefix(s, "h") {
		return unstr("h", strings.TrimSuffix(s, ".example.com")), true
	}
	var x, y, z int
	if _, err := fmt.Sscanf(s, "10.%d.%d.%d", &x, &y, &z); err != nil {
		panic("cannot un-intern address " + s)
	}
	return x*62500 + y*250 + z - 1, false
}
// locality labels: l = 100*region + 10*zone + subzone (digits 1..9), 0 = no label; the string order
// of the labels is the numeric order of the codes.
func locStr(l int) string {
	if l == 0 {
		return ""
	}
	return fmt.Sprintf("r%d/z%d/s%d", l/100, (l/10)%10, l%10)
}
func locOf(s string) int {
	if s == "" {
		return 0
	}
	var r, z, sz int
	if _, err := fmt.Sscanf(s, "r%d/z%d/s%d", &r, &z, &sz); err != nil {
		panic("cannot un-intern locality " + s)
	}
	return r*100 + z*10 + sz
}

var locTable = []int{0, 111, 112, 121, 211, 222}

func (e EP) real() *model.IstioEndpoint {
	ie := &model.IstioEndpoint{
		Addresses:              []string{addrStr(e.Addr, e.DNS)},
		ServicePortName:        istr("p", e.Port),
		ServiceAccount:         istr("sa", e.SA),
		Network:                network.ID(istr("n", e.Net)),
		Locality:               model.Locality{Label: locStr(e.Loc), ClusterID: cluster.ID(istr("c", e.Cluster))},
		EndpointPort:           uint32(e.EPort),
		LbWeight:               e.Weight,
		Namespace:              epNamespace,
		WorkloadName:           istr("w", e.Wl),
		HealthStatus:           healthReal[e.Health],
		SendUnhealthyEndpoints: e.SendUnh,
		NodeName:               istr("node", e.Node),
	}
	if e.TLS {
		ie.TLSMode = model.IstioMutualTLSModeLabel
	}
	if len(e.Labels) > 0 {
		ie.Labels = map[string]string{}
		for _, l := range e.Labels {
			ie.Labels["k"+strconv.Itoa(l.K)] = "v" + strconv.Itoa(l.V)
		}
	}
	switch e.Disc {
	case 1:
		ie.DiscoverabilityPolicy = model.AlwaysDiscoverable
	case 2:
		ie.DiscoverabilityPolicy = model.DiscoverableFromSameCluster
	}
	return ie
}

// abstract reads an IstioEndpoint found in the real index back into the abstract form.
func abstract(ie *model.IstioEndpoint) EP {
	e := EP{
		Port: unstr("p", ie.ServicePortName), EPort: int(ie.EndpointPort), SA: unstr("sa", ie.ServiceAccount),
		SendUnh: ie.SendUnhealthyEndpoints, Weight: ie.LbWeight, Net: unstr("n", string(ie.Network)),
		Cluster: unstr("c", string(ie.Locality.ClusterID)), Loc: locOf(ie.Locality.Label),
		TLS: ie.TLSMode == model.IstioMutualTLSModeLabel, Node: unstr("node", ie.NodeName), Wl: unstr("w", ie.WorkloadName),
	}
	if len(ie.Addresses) != 1 {
		panic("unexpected address count")
	}
	e.Addr, e.DNS = addrOf(ie.Addresses[0])
	for i, h := range healthReal {
		if h == ie.HealthStatus {
			e.Health = i
		}
	}
	for k, v := range ie.Labels {
		e.Labels = append(e.Labels, lab{unstr("k", k), unstr("v", v)})
	}
	sort.Slice(e.Labels, func(i, j int) bool { return e.Labels[i].K < e.Labels[j].K })
	if ie.DiscoverabilityPolicy != nil {
		switch ie.DiscoverabilityPolicy.String() {
		case "AlwaysDiscoverable":
			e.Disc = 1
		case "DiscoverableFromSameCluster":
			e.Disc = 2
		default:
			panic("unknown discoverability policy")
		}
	}
	return e
}

func gLabs(ls []lab) string {
	return vlib.ListOf(ls, func(l lab) string { return vlib.Pair(vlib.NI(l.K), vlib.NI(l.V)) })
}
func gEP(e EP) string {
	return vlib.App("Build_ep", vlib.NI(e.Wl), vlib.NI(e.Addr), vlib.B(e.DNS), vlib.NI(e.Port), vlib.NI(e.EPort), vlib.NI(e.SA),
		healthNames[e.Health], vlib.B(e.SendUnh), vlib.N(uint64(e.Weight)), gLabs(e.Labels), vlib.NI(e.Net), vlib.NI(e.Cluster),
		vlib.NI(e.Loc), vlib.B(e.TLS), discNames[e.Disc], vlib.NI(e.Node))
}
func gEPs(es []EP) string { return vlib.ListOf(es, gEP) }

// ---------------------------------------------------------------- index operations

type SKey struct{ Prov, Cluster int }

func (k SKey) real() model.ShardKey {
	return model.ShardKey{Provider: provider.ID("P" + strconv.Itoa(k.Prov)), Cluster: cluster.ID("c" + strconv.Itoa(k.Cluster))}
}
func skeyOf(k model.ShardKey) SKey {
	return SKey{unstr("P", string(k.Provider)), unstr("c", string(k.Cluster))}
}
func gSKey(k SKey) string { return vlib.Pair(vlib.NI(k.Prov), vlib.NI(k.Cluster)) }

type SvcKey struct{ Svc, Ns int }

func svcName(s int) string { return "s" + strconv.Itoa(s) }
func nsName(n int) string  { return "ns" + strconv.Itoa(n) }
func gSvcKey(k SvcKey) string {
	return vlib.Pair(vlib.NI(k.Svc), vlib.NI(k.Ns))
}

const (
	opUpdate = iota
	opDelSvc
	opDelShard
	opPrune
)

type Op struct {
	Kind     int
	K        SKey
	Svc, Ns  int
	Eps      []EP
	Preserve bool
	Keep     []SvcKey
}

func gOp(o Op) string {
	switch o.Kind {
	case opUpdate:
		return vlib.App("Update", gSKey(o.K), vlib.NI(o.Svc), vlib.NI(o.Ns), gEPs(o.Eps))
	case opDelSvc:
		return vlib.App("DelSvc", gSKey(o.K), vlib.NI(o.Svc), vlib.NI(o.Ns), vlib.B(o.Preserve))
	case opDelShard:
		return vlib.App("DelShard", gSKey(o.K))
	}
	return vlib.App("Prune", gSKey(o.K), vlib.ListOf(o.Keep, gSvcKey))
}
func gOps(os []Op) string { return vlib.ListOf(os, gOp) }

func (o Op) String() string {
	switch o.Kind {
	case opUpdate:
		return fmt.Sprintf("Update(P%d/c%d,s%d,ns%d,%d eps)", o.K.Prov, o.K.Cluster, o.Svc, o.Ns, len(o.Eps))
	case opDelSvc:
		return fmt.Sprintf("DeleteServiceShard(P%d/c%d,s%d,ns%d,preserve=%v)", o.K.Prov, o.K.Cluster, o.Svc, o.Ns, o.Preserve)
	case opDelShard:
		return fmt.Sprintf("DeleteShard(P%d/c%d)", o.K.Prov, o.K.Cluster)
	}
	return fmt.Sprintf("PruneShard(P%d/c%d,keep=%v)", o.K.Prov, o.K.Cluster, o.Keep)
}

// result: -1 = no result, else model.PushType
func apply(idx *model.EndpointIndex, o Op) int {
	switch o.Kind {
	case opUpdate:
		var eps []*model.IstioEndpoint
		for _, e := range o.Eps {
			eps = append(eps, e.real())
		}
		return int(idx.UpdateServiceEndpoints(o.K.real(), svcName(o.Svc), nsName(o.Ns), eps, true))
	case opDelSvc:
		idx.DeleteServiceShard(o.K.real(), svcName(o.Svc), nsName(o.Ns), o.Preserve)
	case opDelShard:
		idx.DeleteShard(o.K.real())
	case opPrune:
		keep := map[string]sets.String{}
		for _, k := range o.Keep {
			if keep[svcName(k.Svc)] == nil {
				keep[svcName(k.Svc)] = sets.String{}
			}
			keep[svcName(k.Svc)].Insert(nsName(k.Ns))
		}
		idx.PruneShard(o.K.real(), keep)
	}
	return -1
}

var pushNames = []string{"NoPush", "IncrementalPush", "FullPush"}

func gRes(r int) string {
	if r < 0 {
		return "None"
	}
	return "(Some " + pushNames[r] + ")"
}
func gResList(rs []int) string { return vlib.ListOf(rs, gRes) }

// observe renders Shardz() canonically (sorted) as the Coq obs_state; the second result reports an
// empty per-service namespace map left behind in shardsBySvc (never expected).
func observe(idx *model.EndpointIndex) (string, bool) {
	z := idx.Shardz()
	type ent struct {
		sk SvcKey
		s  string
	}
	var ents []ent
	emptySvc := false
	for svc, byNs := range z {
		if len(byNs) == 0 {
			emptySvc = true
		}
		for ns, sh := range byNs {
			sk := SvcKey{unstr("s", svc), unstr("ns", ns)}
			keys := sh.Keys()
			var shards []string
			for _, k := range keys {
				var eps []EP
				for _, ie := range sh.Shards[k] {
					eps = append(eps, abstract(ie))
				}
				shards = append(shards, vlib.Pair(gSKey(skeyOf(k)), gEPs(eps)))
			}
			var sas []int
			for sa := range sh.ServiceAccounts {
				sas = append(sas, unstr("sa", sa))
			}
			sort.Ints(sas)
			ents = append(ents, ent{sk, vlib.Pair(vlib.Pair(gSvcKey(sk), vlib.List(shards)), vlib.ListOf(sas, vlib.NI))})
		}
	}
	sort.Slice(ents, func(i, j int) bool {
		if ents[i].sk.Svc != ents[j].sk.Svc {
			return ents[i].sk.Svc < ents[j].sk.Svc
		}
		return ents[i].sk.Ns < ents[j].sk.Ns
	})
	out := make([]string, len(ents))
	for i, e := range ents {
		out[i] = e.s
	}
	return vlib.List(out), emptySvc
}

// ---------------------------------------------------------------- generators (index)

type idxGen struct {
	r              *vlib.Rand
	nSvc, nNs, nSK int
}

func (g *idxGen) skey() SKey {
	i := g.r.Intn(g.nSK)
	return SKey{1 + i%2, 1 + i/2}
}
func (g *idxGen) ep() EP {
	r := g.r
	e := EP{Wl: 1 + r.Intn(2), Addr: 1 + r.Intn(5), Port: 1 + r.Intn(2), EPort: 8080, Health: hHealthy, Weight: uint32(r.Intn(3)),
		Cluster: 1, Loc: 111 + r.Intn(2), TLS: r.Bool()}
	if r.Chance(50) {
		e.SA = 1 + r.Intn(3)
	}
	if r.Chance(35) {
		e.Health = r.Intn(4)
	}
	if r.Chance(25) {
		e.SendUnh = true
	}
	if r.Chance(30) {
		e.Labels = []lab{{1, 1 + r.Intn(2)}}
	}
	return e
}
func (g *idxGen) eps(prev []EP) []EP {
	r := g.r
	if r.Chance(15) {
		return nil
	}
	var out []EP
	// mutate the previous report of this registry half of the time (health flips, SA changes, removals)
	if len(prev) > 0 && r.Chance(60) {
		for _, e := range prev {
			switch r.Intn(6) {
			case 0: // removed
				continue
			case 1:
				e.Health = r.Intn(4)
			case 2:
				e.SA = r.Intn(4)
			case 3:
				e.Weight = uint32(r.Intn(3))
			}
			out = append(out, e)
		}
		if r.Chance(40) {
			out = append(out, g.ep())
		}
		if r.Chance(20) && len(out) > 1 {
			out[0], out[len(out)-1] = out[len(out)-1], out[0]
		}
		if len(out) == 0 && r.Chance(50) {
			out = append(out, g.ep())
		}
		return out
	}
	n := 1 + r.Intn(3)
	for i := 0; i < n; i++ {
		out = append(out, g.ep())
	}
	if r.Chance(10) { // duplicate key inside one report
		d := out[0]
		d.Health = r.Intn(4)
		out = append(out, d)
	}
	return out
}

type cellKey struct {
	k  SKey
	sk SvcKey
}

func (g *idxGen) op(last map[cellKey][]EP) Op {
	r := g.r
	k := g.skey()
	sk := SvcKey{1 + r.Intn(g.nSvc), 1 + r.Intn(g.nNs)}
	switch x := r.Intn(100); {
	case x < 62:
		eps := g.eps(last[cellKey{k, sk}])
		last[cellKey{k, sk}] = eps
		return Op{Kind: opUpdate, K: k, Svc: sk.Svc, Ns: sk.Ns, Eps: eps}
	case x < 82:
		return Op{Kind: opDelSvc, K: k, Svc: sk.Svc, Ns: sk.Ns, Preserve: r.Chance(35)}
	case x < 91:
		return Op{Kind: opDelShard, K: k}
	}
	var keep []SvcKey
	for s := 1; s <= g.nSvc; s++ {
		for n := 1; n <= g.nNs; n++ {
			if r.Chance(50) {
				keep = append(keep, SvcKey{s, n})
			}
		}
	}
	return Op{Kind: opPrune, K: k, Keep: keep}
}

func opTags(ops []Op) []string {
	seen := map[string]bool{}
	for _, o := range ops {
		switch o.Kind {
		case opUpdate:
			if len(o.Eps) == 0 {
				seen["op=update-empty"] = true
			} else {
				seen["op=update"] = true
			}
		case opDelSvc:
			seen["op=delsvc-preserve="+vlib.B(o.Preserve)] = true
		case opDelShard:
			seen["op=delshard"] = true
		case opPrune:
			seen["op=prune"] = true
		}
	}
	var out []string
	for t := range seen {
		out = append(out, t)
	}
	sort.Strings(out)
	return out
}

// ---------------------------------------------------------------- schedules through the gates

// chooser picks the next thread among the live ones (indices into live).
type chooser func(live []int) int

type concResult struct {
	sched    []int
	res      []int
	choices  []int // for exhaustive enumeration: number of live threads at each point
	deadlock string
}

// runConcurrent runs ops as concurrent calls on idx; exactly one goroutine runs between two
// scheduling points, every other one is parked at a gate (where it holds no lock) or not started.
func runConcurrent(idx *model.EndpointIndex, ops []Op, choose chooser) concResult {
	n := len(ops)
	type evt struct {
		done bool
		res  int
	}
	events := make([]chan evt, n)
	resume := make([]chan struct{}, n)
	for i := range ops {
		events[i] = make(chan evt, 1)
		resume[i] = make(chan struct{})
	}
	current := -1 // the only goroutine allowed to run; written by the scheduler while all others are parked
	model.VerifSetGate(func(point string) {
		me := current
		events[me] <- evt{}
		<-resume[me]
	})
	defer model.VerifSetGate(nil)
	started := make([]bool, n)
	finished := make([]bool, n)
	out := concResult{res: make([]int, n)}
	for {
		var live []int
		for i := 0; i < n; i++ {
			if !finished[i] {
				live = append(live, i)
			}
		}
		if len(live) == 0 {
			return out
		}
		out.choices = append(out.choices, len(live))
		i := live[choose(live)]
		out.sched = append(out.sched, i)
		current = i
		if !started[i] {
			started[i] = true
			go func(i int) {
				r := apply(idx, ops[i])
				events[i] <- evt{done: true, res: r}
			}(i)
		} else {
			resume[i] <- struct{}{}
		}
		select {
		case e := <-events[i]:
			if e.done {
				finished[i] = true
				out.res[i] = e.res
			}
		case <-time.After(20 * time.Second): // watchdog only: a step blocked on a lock nobody will release
			out.deadlock = fmt.Sprintf("thread %d (%v) made no progress after schedule %v", i, ops[i], out.sched)
			return out
		}
	}
}

func gNats(xs []int) string { return vlib.ListOf(xs, vlib.Nat) }

// ---------------------------------------------------------------- TestGen

func TestGen(t *testing.T) {
	c := vlib.NewCollector("C13", "V.C13.Run")
	c.Rule = "Seq: random sequences (6-40 ops) of UpdateServiceEndpoints/DeleteServiceShard/DeleteShard/PruneShard over 2-3 services x 1-2 namespaces x 2-4 registries " +
		"on the real EndpointIndex, push types and Shardz() compared with the model, final content with the last-report spec; non-trivial = contains an unlinking delete and an update. " +
		"Conc: 2-3 concurrent calls after a sequential prefix, every interleaving of their critical sections (2 calls: exhaustive; 3 calls: sampled) imposed on the real code through verifGate; " +
		"oracle = final content equals that of some sequential order; non-trivial = at least one call has more than one critical section. " +
		"Cla: generated shards/subsets/ports/proxies/gateways through the real BuildClusterLoadAssignment, oracle = membership predicate + locality weight = saturating sum; " +
		"non-trivial = at least one endpoint filtered out and one served."
	seed := vlib.Seed()
	id := 0
	genSeq(c, seed, &id)
	genConc(c, seed, &id)
	genCla(t, c, seed, &id)
	if err := c.Flush(); err != nil {
		t.Fatal(err)
	}
}

func genSeq(c *vlib.Collector, seed uint64, id *int) {
	root := vlib.NewRand(seed ^ 0xc13a)
	n := vlib.Scale(120, 4000)
	for i := 0; i < n; i++ {
		*id++
		r := root.Sub()
		if !c.Wanted(*id) {
			continue
		}
		g := &idxGen{r: r, nSvc: 1 + r.Intn(3), nNs: 1 + r.Intn(3), nSK: 2 + r.Intn(3)}
		nops := 6 + r.Intn(35)
		last := map[cellKey][]EP{}
		var ops []Op
		for j := 0; j < nops; j++ {
			ops = append(ops, g.op(last))
		}
		idx := model.NewEndpointIndex(model.DisabledCache{})
		var res []int
		var obs string
		var emptySvc bool
		if pan, msg := vlib.Recover(func() {
			for _, o := range ops {
				res = append(res, apply(idx, o))
			}
			obs, emptySvc = observe(idx)
		}); pan {
			c.Violate(vlib.Violation{ID: *id, Kind: "panic", Detail: msg, Case: fmt.Sprint(ops)})
			continue
		}
		if emptySvc {
			c.Violate(vlib.Violation{ID: *id, Kind: "oracle", Detail: "shardsBySvc keeps a service entry with no namespace", Case: fmt.Sprint(ops)})
		}
		tags := append([]string{"seq"}, opTags(ops)...)
		unl, upd := false, false
		for k, o := range ops {
			if o.Kind == opUpdate && len(o.Eps) > 0 {
				upd = true
				tags = append(tags, "push="+pushNames[res[k]])
			}
			if o.Kind == opDelShard || o.Kind == opPrune || (o.Kind == opDelSvc && !o.Preserve) {
				unl = true
			}
		}
		c.Add(vlib.Case{ID: *id, Term: vlib.App("Seq", vlib.NI(*id), gOps(ops), gResList(res), obs), Tags: dedup(tags),
			Sample: map[string]any{"kind": "seq", "ops": fmt.Sprint(ops), "results": res}, Trivial: !(unl && upd)})
	}
}

func dedup(xs []string) []string {
	seen := map[string]bool{}
	var out []string
	for _, x := range xs {
		if !seen[x] {
			seen[x] = true
			out = append(out, x)
		}
	}
	return out
}

const findingK1 = "K1-update-lands-on-unlinked-shardset"

// isK1 recognises the shape of the known finding: a non-empty update overlapping an unlinking
// delete that concerns the same service.
func isK1(ops []Op) bool {
	for i, u := range ops {
		if u.Kind != opUpdate || len(u.Eps) == 0 {
			continue
		}
		for j, d := range ops {
			if i == j {
				continue
			}
			switch d.Kind {
			case opDelShard, opPrune:
				return true
			case opDelSvc:
				if !d.Preserve && d.Svc == u.Svc && d.Ns == u.Ns {
					return true
				}
			}
		}
	}
	return false
}

func genConc(c *vlib.Collector, seed uint64, id *int) {
	root := vlib.NewRand(seed ^ 0xc13b)
	emit := func(prefix, ops []Op, choose func() chooser, exhaustive bool, extra ...string) {
		// stateless enumeration of schedules: each run replays a choice prefix, then takes choice 0
		var stack []int
		for run := 0; ; run++ {
			*id++
			pos := 0
			var ch chooser
			if exhaustive {
				ch = func(live []int) int {
					v := 0
					if pos < len(stack) {
						v = stack[pos]
					}
					pos++
					return v
				}
			} else {
				ch = choose()
			}
			var cr concResult
			var obs string
			if c.Wanted(*id) || exhaustive {
				idx := model.NewEndpointIndex(model.DisabledCache{})
				for _, o := range prefix {
					apply(idx, o)
				}
				pan, msg := vlib.Recover(func() {
					cr = runConcurrent(idx, ops, ch)
					obs, _ = observe(idx)
				})
				if pan || cr.deadlock != "" {
					c.Violate(vlib.Violation{ID: *id, Kind: "panic", Detail: msg + cr.deadlock, Case: fmt.Sprint(prefix, ops, cr.sched)})
					return
				}
				multi := len(cr.sched) > len(ops)
				tags := append([]string{"conc", fmt.Sprintf("conc-threads=%d", len(ops)), fmt.Sprintf("conc-steps=%d", len(cr.sched))}, extra...)
				if isK1(ops) {
					tags = append(tags, "conc-overlaps-unlinking-delete")
					c.FindingOf[*id] = findingK1
				}
				c.Add(vlib.Case{ID: *id, Term: vlib.App("Conc", vlib.NI(*id), gOps(prefix), gOps(ops), gNats(cr.sched), gResList(cr.res), obs),
					Tags: tags, Trivial: !multi,
					Sample: map[string]any{"kind": "conc", "prefix": fmt.Sprint(prefix), "calls": fmt.Sprint(ops), "schedule": cr.sched, "results": cr.res}})
			}
			if !exhaustive {
				return
			}
			// next choice vector
			stack = append(stack[:0:0], stack...)
			for len(stack) < len(cr.choices) {
				stack = append(stack, 0)
			}
			k := len(cr.choices) - 1
			for k >= 0 && stack[k]+1 >= cr.choices[k] {
				k--
			}
			if k < 0 {
				return
			}
			stack = append(stack[:k:k], stack[k]+1)
		}
	}
	mk := func(wl, addr, sa int) EP {
		return EP{Wl: wl, Addr: addr, Port: 1, EPort: 8080, SA: sa, Cluster: 1, Loc: 111}
	}
	A, B := SKey{1, 1}, SKey{1, 2}
	// the K1 scenario and its neighbours, every schedule
	k1prefix := []Op{{Kind: opUpdate, K: A, Svc: 1, Ns: 1, Eps: []EP{mk(1, 1, 1)}}}
	updB := Op{Kind: opUpdate, K: B, Svc: 1, Ns: 1, Eps: []EP{mk(2, 2, 1)}}
	emit(k1prefix, []Op{updB, {Kind: opDelSvc, K: A, Svc: 1, Ns: 1, Preserve: false}}, nil, true, "scenario=k1-delsvc")
	emit(k1prefix, []Op{updB, {Kind: opDelShard, K: A}}, nil, true, "scenario=k1-delshard")
	emit(k1prefix, []Op{updB, {Kind: opPrune, K: A}}, nil, true, "scenario=k1-prune")
	emit(k1prefix, []Op{updB, {Kind: opDelSvc, K: A, Svc: 1, Ns: 1, Preserve: true}}, nil, true, "scenario=preserve")
	emit(k1prefix, []Op{updB, {Kind: opUpdate, K: A, Svc: 1, Ns: 1}}, nil, true, "scenario=empty-update")
	emit(nil, []Op{updB, {Kind: opUpdate, K: A, Svc: 1, Ns: 1, Eps: []EP{mk(1, 1, 2)}}}, nil, true, "scenario=two-creators")
	emit(k1prefix, []Op{updB, {Kind: opUpdate, K: A, Svc: 1, Ns: 1, Eps: []EP{mk(1, 1, 2)}}}, nil, true, "scenario=two-updates")
	// random pairs (exhaustive schedules) and triples (sampled schedules)
	pairs := vlib.Scale(25, 400)
	for i := 0; i < pairs; i++ {
		r := root.Sub()
		g := &idxGen{r: r, nSvc: 1 + r.Intn(2), nNs: 1, nSK: 2 + r.Intn(2)}
		last := map[cellKey][]EP{}
		var prefix, ops []Op
		for j := r.Intn(4); j > 0; j-- {
			prefix = append(prefix, g.op(last))
		}
		ops = append(ops, g.op(last), g.op(last))
		emit(prefix, ops, nil, true, "scenario=random-pair")
	}
	triples := vlib.Scale(60, 3000)
	for i := 0; i < triples; i++ {
		r := root.Sub()
		g := &idxGen{r: r, nSvc: 1 + r.Intn(2), nNs: 1, nSK: 3}
		last := map[cellKey][]EP{}
		var prefix, ops []Op
		for j := r.Intn(4); j > 0; j-- {
			prefix = append(prefix, g.op(last))
		}
		ops = append(ops, g.op(last), g.op(last), g.op(last))
		emit(prefix, ops, func() chooser { return func(live []int) int { return r.Intn(len(live)) } }, false, "scenario=random-triple")
	}
}
