//go:build verif

// LISTENER family of C10: the real virtualInbound listener (BuildListeners) of a server workload under a generated
// policy set; for every probed destination port - service target ports, non-service ports with port-level
// entries, an unmentioned port and the catch-all - the filter chains that serve the port are collected
// (filter_chain_match.destination_port, transport_protocol, require_client_certificate) and must enforce the
// effective mode of that port.
package c10

import (
	"fmt"
	"sort"
	"testing"

	listener "github.com/envoyproxy/go-control-plane/envoy/config/listener/v3"
	tlsv3 "github.com/envoyproxy/go-control-plane/envoy/extensions/transport_sockets/tls/v3"

	meshconfig "istio.io/api/mesh/v1alpha1"
	networkingapi "istio.io/api/networking/v1alpha3"
	"istio.io/istio/pilot/pkg/model"
	"istio.io/istio/pilot/pkg/networking/core"
	"istio.io/istio/pkg/config"
	"istio.io/istio/pkg/config/mesh"
	"istio.io/istio/pkg/config/schema/gvk"
	"verif/harness/vlib"
)

const (
	lHTTPPort = 8080 // service target port, HTTP
	lTCPPort  = 9090 // service target port, TCP
)

type lProbe struct {
	Port      uint32
	Proto     string
	Dedicated bool // the port has filter chains of its own (otherwise the catch-all passthrough chains serve it)
	Chains    string
	N         int
}

func chainObs(fc *listener.FilterChain) (string, error) {
	m := fc.GetFilterChainMatch()
	http := false
	for _, f := range fc.Filters {
		if f.Name == "envoy.filters.network.http_connection_manager" {
			http = true
		}
	}
	sock := "None"
	if ts := fc.GetTransportSocket(); ts != nil {
		ctx := &tlsv3.DownstreamTlsContext{}
		if err := ts.GetTypedConfig().UnmarshalTo(ctx); err != nil {
			return "", err
		}
		sock = "(Some " + vlib.B(ctx.GetRequireClientCertificate().GetValue()) + ")"
	}
	return vlib.Pair(vlib.App("mk_chain", vlib.B(m.GetTransportProtocol() == "tls"), vlib.B(http),
		vlib.B(len(m.GetApplicationProtocols()) > 0), vlib.B(fc.GetTransportSocket() != nil)), sock), nil
}

// observeListener builds the virtualInbound listener of the workload of w and groups its chains by destination port
// (0 = no destination port match = catch-all passthrough).
func observeListener(ft failer, w world) (map[uint32][]string, error) {
	wlNs := nsName(w.WlNs)
	se := config.Config{
		Meta: config.Meta{GroupVersionKind: gvk.ServiceEntry, Name: "app", Namespace: wlNs},
		Spec: &networkingapi.ServiceEntry{
			Hosts: []string{"app.example.internal"}, Location: networkingapi.ServiceEntry_MESH_INTERNAL,
			Resolution: networkingapi.ServiceEntry_STATIC,
			Ports: []*networkingapi.ServicePort{
				{Number: 80, Name: "http", Protocol: "HTTP", TargetPort: lHTTPPort},
				{Number: 9000, Name: "tcp", Protocol: "TCP", TargetPort: lTCPPort},
			},
			Endpoints: []*networkingapi.WorkloadEntry{{Address: "10.10.0.1", Labels: labelMap(w.Labels)}},
		},
	}
	cfgs := []config.Config{se}
	for _, p := range w.All {
		c := p.cfg()
		c.ResourceVersion = ""
		cfgs = append(cfgs, c)
	}
	mc := mesh.DefaultMeshConfig()
	mc.RootNamespace = nsName(w.Root)
	var _ *meshconfig.MeshConfig = mc
	cg := core.NewConfigGenTest(ft, core.TestOptions{Configs: cfgs, MeshConfig: mc})
	server := cg.SetupProxy(&model.Proxy{
		ConfigNamespace: wlNs, Labels: labelMap(w.Labels), IPAddresses: []string{"10.10.0.1"},
		Metadata: &model.NodeMetadata{Namespace: wlNs, Labels: labelMap(w.Labels)},
	})
	groups := map[uint32][]string{}
	found := false
	for _, l := range cg.Listeners(server) {
		if l.Name != model.VirtualInboundListenerName {
			continue
		}
		found = true
		for _, fc := range l.FilterChains {
			if fc.Name == model.VirtualInboundBlackholeFilterChainName {
				continue
			}
			o, err := chainObs(fc)
			if err != nil {
				return nil, err
			}
			p := fc.GetFilterChainMatch().GetDestinationPort().GetValue()
			groups[p] = append(groups[p], o)
		}
	}
	if !found {
		return nil, fmt.Errorf("no virtualInbound listener")
	}
	if len(groups[0]) == 0 {
		return nil, fmt.Errorf("no catch-all passthrough chains")
	}
	return groups, nil
}

func (g *gen) listenerCase(t *testing.T, w world, extraTags ...string) {
	id, ok := g.next()
	if !ok {
		return
	}
	var groups map[uint32][]string
	var err error
	failure := ""
	func() {
		defer func() {
			if r := recover(); r != nil {
				if f, isF := r.(hFailure); isF {
					failure = f.msg
					return
				}
				failure = fmt.Sprint(r)
			}
		}()
		groups, err = observeListener(failer{t}, w)
	}()
	if failure == "" && err != nil {
		failure = err.Error()
	}
	if failure != "" {
		g.c.Violate(vlib.Violation{ID: id, Kind: "oracle", Detail: "listener build: " + failure, Case: w})
		return
	}
	// probed ports: both service target ports, every port named by any policy, one unmentioned port, the catch-all (0)
	ports := map[uint32]bool{lHTTPPort: true, lTCPPort: true, 7777: true, 0: true}
	for _, p := range w.All {
		for _, pm := range p.Ports {
			ports[pm.Port] = true
		}
	}
	for p := range groups { // and whatever port the listener has chains for
		ports[p] = true
	}
	var sorted []uint32
	for p := range ports {
		sorted = append(sorted, p)
	}
	sort.Slice(sorted, func(i, j int) bool { return sorted[i] < sorted[j] })
	var probes []lProbe
	var terms []string
	tags := append([]string{"listener"}, extraTags...)
	for _, p := range sorted {
		proto := "LAuto"
		switch p {
		case lHTTPPort:
			proto = "LHTTP"
		case lTCPPort:
			proto = "LTCP"
		}
		chains, dedicated := groups[p], true
		if len(chains) == 0 || p == 0 {
			chains, dedicated = groups[0], p == 0
		}
		pr := lProbe{Port: p, Proto: proto, Dedicated: dedicated && p != 0, Chains: vlib.List(chains), N: len(chains)}
		probes = append(probes, pr)
		terms = append(terms, vlib.App("LProbe", vlib.N(uint64(p)), proto, vlib.B(pr.Dedicated), pr.Chains))
		if pr.Dedicated && proto == "LAuto" {
			tags = append(tags, "listener-dedicated-passthrough-port")
		}
	}
	l := classify(w)
	tags = append(tags, levelTags(l)...)
	g.c.Add(vlib.Case{ID: id, Term: vlib.App("Listener", vlib.NI(id), vlib.NI(w.Root), gPAs(w.All), vlib.NI(w.WlNs), gLabels(w.Labels),
		vlib.List([]string{vlib.N(lHTTPPort), vlib.N(lTCPPort)}), vlib.List(terms)),
		Tags: tags, Trivial: l.mesh == nil && l.ns == nil && l.wl == nil,
		Sample: map[string]any{"kind": "listener", "world": w, "probes": probes}})
}

func (g *gen) listeners(t *testing.T, r *vlib.Rand) {
	// structured: every (workload mode incl. inherited, port mode) pair on a non-service port (80), on a service port and both
	lbl := [][2]int{{0, 0}}
	for wm := 0; wm < 4; wm++ {
		for pm := 0; pm < 4; pm++ {
			for _, parent := range []int{-1, mStrict, mDisable} {
				w := world{Root: 0, WlNs: 1, Labels: lbl}
				w.All = append(w.All, PA{Name: 1, Ns: 1, Time: 300, Sel: 2, Labels: lbl, Mtls: wm,
					Ports: []portMode{{80, pm}, {lHTTPPort, (pm + 1) % 4}}})
				if parent >= 0 {
					w.All = append(w.All, PA{Name: 2, Ns: 1, Time: 200, Sel: 0, Mtls: parent})
				}
				g.listenerCase(t, w, "listener-product")
			}
		}
	}
	n := vlib.Scale(80, 1500)
	for i := 0; i < n; i++ {
		rr := r.Sub()
		g.listenerCase(t, genWorld(rr, false), "listener-random")
	}
}
