//go:build verif

// Correspondence harness for C10: effective mTLS mode follows PeerAuthentication precedence and is enforced.
// Drives the REAL resolvers of /repo and prints what they returned as Gallina terms for coq/C10/Run.v.
package c10

import (
	"fmt"
	"sort"
	"strconv"
	"strings"
	"time"

	metav1 "k8s.io/apimachinery/pkg/apis/meta/v1"

	meshconfig "istio.io/api/mesh/v1alpha1"
	"istio.io/api/security/v1beta1"
	typev1beta1 "istio.io/api/type/v1beta1"
	securityclient "istio.io/client-go/pkg/apis/security/v1"
	"istio.io/istio/pilot/pkg/model"
	"istio.io/istio/pilot/pkg/networking"
	"istio.io/istio/pilot/pkg/networking/core"
	"istio.io/istio/pilot/pkg/serviceregistry/ambient"
	"istio.io/istio/pkg/config"
	"istio.io/istio/pkg/config/mesh/meshwatcher"
	"istio.io/istio/pkg/config/schema/collection"
	"istio.io/istio/pkg/config/schema/collections"
	"istio.io/istio/pkg/config/schema/gvk"
	"istio.io/istio/pkg/workloadapi/security"
	"verif/harness/vlib"
)

// ---------------------------------------------------------------- abstract inputs

const (
	mUnset = iota
	mDisable
	mPermissive
	mStrict
)

var modeNames = []string{"MUnset", "MDisable", "MPermissive", "MStrict"}

type portMode struct {
	Port uint32
	Mode int
}

// PA is the abstract PeerAuthentication; Variant bits choose among concrete spellings that the
// model identifies (nil *MutualTLS vs Mode: UNSET, nil vs empty maps, ...).
type PA struct {
	Name, Ns int
	Time     int64
	Sel      int      // 0 nil, 1 empty selector, 2 labels
	Labels   [][2]int // sorted by key, unique keys
	Mtls     int
	Ports    []portMode // sorted by port, unique
	Variant  int
}

func nsName(i int) string   { return "ns" + strconv.Itoa(i) }
func paName(i int) string   { return fmt.Sprintf("p%03d", i) }
func lblKey(i int) string   { return "k" + strconv.Itoa(i) }
func lblVal(i int) string   { return "v" + strconv.Itoa(i) }
func labelMap(ls [][2]int) map[string]string {
	m := map[string]string{}
	for _, kv := range ls {
		m[lblKey(kv[0])] = lblVal(kv[1])
	}
	return m
}

func apiMode(m int) v1beta1.PeerAuthentication_MutualTLS_Mode {
	switch m {
	case mDisable:
		return v1beta1.PeerAuthentication_MutualTLS_DISABLE
	case mPermissive:
		return v1beta1.PeerAuthentication_MutualTLS_PERMISSIVE
	case mStrict:
		return v1beta1.PeerAuthentication_MutualTLS_STRICT
	}
	return v1beta1.PeerAuthentication_MutualTLS_UNSET
}

func mtlsOf(m int, nilForUnset bool) *v1beta1.PeerAuthentication_MutualTLS {
	if m == mUnset && nilForUnset {
		return nil
	}
	return &v1beta1.PeerAuthentication_MutualTLS{Mode: apiMode(m)}
}

func (p PA) spec() *v1beta1.PeerAuthentication {
	s := &v1beta1.PeerAuthentication{Mtls: mtlsOf(p.Mtls, p.Variant&1 == 1)}
	switch p.Sel {
	case 1:
		if p.Variant&2 == 2 {
			s.Selector = &typev1beta1.WorkloadSelector{MatchLabels: map[string]string{}}
		} else {
			s.Selector = &typev1beta1.WorkloadSelector{}
		}
	case 2:
		s.Selector = &typev1beta1.WorkloadSelector{MatchLabels: labelMap(p.Labels)}
	}
	if len(p.Ports) > 0 {
		s.PortLevelMtls = map[uint32]*v1beta1.PeerAuthentication_MutualTLS{}
		for i, pm := range p.Ports {
			s.PortLevelMtls[pm.Port] = mtlsOf(pm.Mode, (p.Variant>>2+i)&1 == 1)
		}
	} else if p.Variant&4 == 4 {
		s.PortLevelMtls = map[uint32]*v1beta1.PeerAuthentication_MutualTLS{}
	}
	return s
}

func (p PA) cfg() config.Config {
	return config.Config{
		Meta: config.Meta{
			GroupVersionKind:  gvk.PeerAuthentication,
			Name:              paName(p.Name),
			Namespace:         nsName(p.Ns),
			CreationTimestamp: time.Unix(p.Time, 0).UTC(),
			UID:               fmt.Sprintf("uid-%d-%d", p.Ns, p.Name),
			ResourceVersion:   "1",
		},
		Spec: p.spec(),
	}
}

func (p PA) k8s() *securityclient.PeerAuthentication {
	return &securityclient.PeerAuthentication{
		ObjectMeta: metav1.ObjectMeta{
			Name: paName(p.Name), Namespace: nsName(p.Ns),
			CreationTimestamp: metav1.NewTime(time.Unix(p.Time, 0).UTC()),
		},
		Spec: *p.spec(), // nolint: govet
	}
}

// ---------------------------------------------------------------- Gallina printers

func gLabels(ls [][2]int) string {
	return vlib.ListOf(ls, func(kv [2]int) string { return vlib.Pair(vlib.NI(kv[0]), vlib.NI(kv[1])) })
}
func gPorts(ps []portMode) string {
	return vlib.ListOf(ps, func(pm portMode) string { return vlib.Pair(vlib.N(uint64(pm.Port)), modeNames[pm.Mode]) })
}
func gPA(p PA) string {
	sel := "SelNil"
	switch p.Sel {
	case 1:
		sel = "(SelLabels [])"
	case 2:
		sel = "(SelLabels " + gLabels(p.Labels) + ")"
	}
	return vlib.Rec("pa_name", vlib.NI(p.Name), "pa_ns", vlib.NI(p.Ns), "pa_time", vlib.Z(p.Time), "pa_sel", sel,
		"pa_mtls", modeNames[p.Mtls], "pa_ports", gPorts(p.Ports))
}
func gPAs(ps []PA) string { return vlib.ListOf(ps, gPA) }
func gOptPA(p *PA) string {
	if p == nil {
		return "None"
	}
	return "(Some " + gPA(*p) + ")"
}
func gNs(xs []int) string { return vlib.ListOf(xs, func(i int) string { return vlib.NI(i) }) }
func gU32s(xs []uint32) string {
	return vlib.ListOf(xs, func(i uint32) string { return vlib.N(uint64(i)) })
}

func modelMode(m model.MutualTLSMode) int {
	switch m {
	case model.MTLSDisable:
		return mDisable
	case model.MTLSPermissive:
		return mPermissive
	case model.MTLSStrict:
		return mStrict
	}
	return mUnset
}

func toModelMode(m int) model.MutualTLSMode {
	switch m {
	case mDisable:
		return model.MTLSDisable
	case mPermissive:
		return model.MTLSPermissive
	case mStrict:
		return model.MTLSStrict
	}
	return model.MTLSUnknown
}

// ---------------------------------------------------------------- fake config store

type fakeStore struct{ cfgs []config.Config }

func (f *fakeStore) Schemas() collection.Schemas { return collections.Pilot }
func (f *fakeStore) Get(typ config.GroupVersionKind, name, namespace string) *config.Config {
	for i := range f.cfgs {
		if f.cfgs[i].GroupVersionKind == typ && f.cfgs[i].Name == name && f.cfgs[i].Namespace == namespace {
			return &f.cfgs[i]
		}
	}
	return nil
}

func (f *fakeStore) List(typ config.GroupVersionKind, namespace string) []config.Config {
	var out []config.Config
	for _, c := range f.cfgs {
		if c.GroupVersionKind == typ && (namespace == "" || c.Namespace == namespace) {
			out = append(out, c)
		}
	}
	return out
}
func (f *fakeStore) Create(config.Config) (string, error)       { return "", fmt.Errorf("read-only") }
func (f *fakeStore) Update(config.Config) (string, error)       { return "", fmt.Errorf("read-only") }
func (f *fakeStore) UpdateStatus(config.Config) (string, error) { return "", fmt.Errorf("read-only") }
func (f *fakeStore) Delete(config.GroupVersionKind, string, string, *string) error {
	return fmt.Errorf("read-only")
}

// ---------------------------------------------------------------- generators

var portPool = []uint32{80, 443, 8080, 9090} // ascending: PA.Ports is kept sorted by port
var probePorts = []uint32{80, 8080, 9090, 7777}

type world struct {
	Root   int
	All    []PA
	WlNs   int
	Labels [][2]int
}

func genLabels(r *vlib.Rand, n int) [][2]int {
	var out [][2]int
	for k := 0; k < 3 && len(out) < n; k++ {
		if r.Chance(60) {
			out = append(out, [2]int{k, r.Intn(3)})
		}
	}
	return out
}

func genPorts(r *vlib.Rand) []portMode {
	var out []portMode
	n := []int{0, 0, 1, 1, 2, 3}[r.Intn(6)]
	for _, p := range portPool {
		if len(out) < n && r.Chance(60) {
			out = append(out, portMode{p, r.Intn(4)})
		}
	}
	return out
}

// genWorld builds a policy set around one workload.  uniqueTimes avoids creation-time ties (needed where
// the real code iterates krt collections in map order).
func genWorld(r *vlib.Rand, uniqueTimes bool) world {
	w := world{Root: r.Intn(2), WlNs: 1 + r.Intn(2)} // namespaces ns0..ns3; root is ns0 or ns1
	if r.Chance(8) {
		w.WlNs = w.Root // workload in the root namespace
	}
	w.Labels = genLabels(r, 3)
	n := []int{0, 1, 2, 3, 3, 4, 5, 6, 7}[r.Intn(9)]
	other := 3
	usedNames := map[[2]int]bool{}
	usedTimes := map[int64]bool{}
	for i := 0; i < n; i++ {
		p := PA{Variant: r.Intn(64)}
		switch x := r.Intn(10); {
		case x < 5:
			p.Ns = w.WlNs
		case x < 8:
			p.Ns = w.Root
		default:
			p.Ns = other
		}
		for {
			p.Name = r.Intn(12)
			if !usedNames[[2]int{p.Ns, p.Name}] {
				usedNames[[2]int{p.Ns, p.Name}] = true
				break
			}
		}
		for {
			p.Time = int64(100 * (1 + r.Intn(4)))
			if uniqueTimes {
				p.Time = int64(100 + r.Intn(4000))
			}
			if !uniqueTimes || !usedTimes[p.Time] {
				usedTimes[p.Time] = true
				break
			}
		}
		switch x := r.Intn(10); {
		case x < 3:
			p.Sel = 0
		case x < 4:
			p.Sel = 1
		default:
			p.Sel = 2
			// mostly a subset of the workload's labels (so that it selects it), sometimes not
			if len(w.Labels) > 0 && r.Chance(75) {
				for _, kv := range w.Labels {
					if r.Chance(60) {
						p.Labels = append(p.Labels, kv)
					}
				}
				if len(p.Labels) == 0 {
					p.Labels = append(p.Labels, w.Labels[0])
				}
			} else {
				p.Labels = [][2]int{{r.Intn(3), r.Intn(3)}}
			}
		}
		p.Mtls = r.Intn(4)
		p.Ports = genPorts(r)
		w.All = append(w.All, p)
	}
	return w
}

func sortByKey(ps []PA) []PA {
	out := append([]PA{}, ps...)
	sort.Slice(out, func(i, j int) bool {
		if out[i].Ns != out[j].Ns {
			return out[i].Ns < out[j].Ns
		}
		return out[i].Name < out[j].Name
	})
	return out
}

func shuffle[T any](r *vlib.Rand, xs []T) []T {
	out := append([]T{}, xs...)
	for i := len(out) - 1; i > 0; i-- {
		j := r.Intn(i + 1)
		out[i], out[j] = out[j], out[i]
	}
	return out
}

// ---------------------------------------------------------------- running the real code

func parseNs(s string) int   { n, _ := strconv.Atoi(strings.TrimPrefix(s, "ns")); return n }
func parseName(s string) int { n, _ := strconv.Atoi(strings.TrimPrefix(s, "p")); return n }

type sidecarEnv struct {
	push *model.PushContext
	ap   *model.AuthenticationPolicies
}

func buildSidecarEnv(r *vlib.Rand, w world) sidecarEnv {
	store := &fakeStore{}
	for _, p := range shuffle(r, w.All) {
		store.cfgs = append(store.cfgs, p.cfg())
	}
	mc := &meshconfig.MeshConfig{RootNamespace: nsName(w.Root)}
	env := &model.Environment{ConfigStore: store, Watcher: meshwatcher.NewTestWatcher(mc)}
	ap := model.VerifInitAuthenticationPolicies(env)
	push := model.NewPushContext()
	push.AuthnPolicies = ap
	push.Mesh = mc
	return sidecarEnv{push: push, ap: ap}
}

func proxyFor(w world) *model.Proxy {
	return &model.Proxy{
		Type: model.SidecarProxy, ID: "wl." + nsName(w.WlNs), ConfigNamespace: nsName(w.WlNs),
		Labels:   labelMap(w.Labels),
		Metadata: &model.NodeMetadata{Namespace: nsName(w.WlNs), Labels: labelMap(w.Labels)},
	}
}

func lprotoName(p networking.ListenerProtocol) string {
	switch p {
	case networking.ListenerProtocolHTTP:
		return "LHTTP"
	case networking.ListenerProtocolAuto:
		return "LAuto"
	}
	return "LTCP"
}

func gChains(os []core.VerifChainOpt) string {
	return vlib.ListOf(os, func(o core.VerifChainOpt) string {
		sock := "None"
		if o.HasSocket {
			sock = "(Some " + vlib.B(o.RequireClientCert) + ")"
		}
		return vlib.Pair(vlib.App("mk_chain", vlib.B(o.TransportProtocol == "tls"), vlib.B(o.Protocol == networking.ListenerProtocolHTTP),
			vlib.B(o.ALPNs > 0), vlib.B(o.TLS)), sock)
	})
}

// gAuthz prints a security.Authorization produced by the converter; anything outside the shape the model
// knows (other match fields, ALLOW action, other scopes) is reported as an error.
func gAuthz(z *security.Authorization) (string, error) {
	if z.Action != security.Action_DENY || z.Scope != security.Scope_WORKLOAD_SELECTOR || z.DryRun {
		return "", fmt.Errorf("unexpected action/scope/dry-run in %v", z)
	}
	if !strings.HasPrefix(z.Name, "converted_peer_authentication_") {
		return "", fmt.Errorf("unexpected policy name %q", z.Name)
	}
	var groups []string
	for _, g := range z.Groups {
		var rules []string
		for _, rl := range g.Rules {
			var ms []string
			for _, m := range rl.Matches {
				if len(m.Namespaces)+len(m.NotNamespaces)+len(m.ServiceAccounts)+len(m.NotServiceAccounts)+len(m.Principals)+
					len(m.SourceIps)+len(m.NotSourceIps)+len(m.DestinationIps)+len(m.NotDestinationIps) > 0 {
					return "", fmt.Errorf("unexpected match fields in %v", m)
				}
				np := false
				switch len(m.NotPrincipals) {
				case 0:
				case 1:
					if _, ok := m.NotPrincipals[0].MatchType.(*security.StringMatch_Presence); !ok {
						return "", fmt.Errorf("unexpected not_principals %v", m.NotPrincipals)
					}
					np = true
				default:
					return "", fmt.Errorf("unexpected not_principals %v", m.NotPrincipals)
				}
				ms = append(ms, vlib.Rec("am_not_principal_presence", vlib.B(np), "am_dports", gU32s(m.DestinationPorts),
					"am_not_dports", gU32s(m.NotDestinationPorts)))
			}
			rules = append(rules, vlib.List(ms))
		}
		groups = append(groups, vlib.List(rules))
	}
	return vlib.Rec("az_ns", vlib.NI(parseNs(z.Namespace)), "az_name", vlib.NI(parseName(strings.TrimPrefix(z.Name, "converted_peer_authentication_"))),
		"az_groups", vlib.List(groups)), nil
}

// gKeys turns the attached key strings into the model's akeys.
func gKeys(root int, keys []string) (string, error) {
	static := false
	pol := "None"
	npol := 0
	for _, k := range keys {
		parts := strings.SplitN(k, "/", 2)
		if len(parts) != 2 {
			return "", fmt.Errorf("bad key %q", k)
		}
		switch {
		case parts[1] == ambient.VerifStaticStrictPolicyName():
			if parts[0] != nsName(root) {
				return "", fmt.Errorf("static policy in namespace %q", parts[0])
			}
			static = true
		case strings.HasPrefix(parts[1], "converted_peer_authentication_"):
			npol++
			pol = "(Some " + vlib.Pair(vlib.NI(parseNs(parts[0])), vlib.NI(parseName(strings.TrimPrefix(parts[1], "converted_peer_authentication_")))) + ")"
		default:
			return "", fmt.Errorf("unexpected key %q", k)
		}
	}
	if npol > 1 {
		return "", fmt.Errorf("more than one converted policy attached: %v", keys)
	}
	return vlib.Rec("k_static", vlib.B(static), "k_policy", pol), nil
}

// ---------------------------------------------------------------- reference classification (for tags / findings only)

type levels struct{ mesh, ns, wl *PA }

func older(a, b PA) bool {
	if a.Time != b.Time {
		return a.Time < b.Time
	}
	if a.Name != b.Name {
		return a.Name < b.Name
	}
	return a.Ns < b.Ns
}

func subset(sel, labels [][2]int) bool {
	for _, kv := range sel {
		found := false
		for _, l := range labels {
			if l == kv {
				found = true
			}
		}
		if !found {
			return false
		}
	}
	return true
}

func classify(w world) levels {
	var l levels
	upd := func(cur **PA, p PA) {
		if *cur == nil || older(p, **cur) {
			q := p
			*cur = &q
		}
	}
	for _, p := range w.All {
		nsLevel := p.Sel != 2 || len(p.Labels) == 0
		switch {
		case nsLevel && p.Ns == w.Root:
			upd(&l.mesh, p)
		case nsLevel && p.Ns == w.WlNs:
			upd(&l.ns, p)
		case !nsLevel && p.Ns == w.WlNs && p.Ns != w.Root && subset(p.Labels, w.Labels):
			upd(&l.wl, p)
		}
	}
	return l
}

func hasPort(p *PA, f func(int) bool) bool {
	for _, pm := range p.Ports {
		if f(pm.Mode) {
			return true
		}
	}
	return false
}

func levelTags(l levels) []string {
	t := []string{}
	name := func(p *PA) string {
		if p == nil {
			return "none"
		}
		return modeNames[p.Mtls]
	}
	t = append(t, "mesh="+name(l.mesh), "ns="+name(l.ns), "wl="+name(l.wl))
	if l.wl != nil && len(l.wl.Ports) > 0 {
		t = append(t, "wl-ports")
		if hasPort(l.wl, func(m int) bool { return m == mUnset }) {
			t = append(t, "wl-port-unset")
		}
	}
	return t
}
