//go:build verif

package c10

import (
	"fmt"
	"sort"
	"testing"

	securityclient "istio.io/client-go/pkg/apis/security/v1"
	"istio.io/istio/pilot/pkg/model"
	"istio.io/istio/pilot/pkg/networking"
	"istio.io/istio/pilot/pkg/networking/core"
	"istio.io/istio/pilot/pkg/security/authn"
	"istio.io/istio/pilot/pkg/serviceregistry/ambient"
	"istio.io/istio/pilot/pkg/xds/endpoints"
	"istio.io/istio/pkg/config"
	"istio.io/istio/pkg/workloadapi/security"
	"verif/harness/vlib"
)

type gen struct {
	c  *vlib.Collector
	id int
}

func (g *gen) next() (int, bool) {
	g.id++
	return g.id, g.c.Wanted(g.id)
}

// ---------------------------------------------------------------- sidecar pipeline

func (g *gen) pipeline(r *vlib.Rand, w world, svcNss []int, extraTags ...string) {
	id, ok := g.next()
	chainIDs := make([]int, len(probePorts))
	chainWanted := false
	for i := range probePorts {
		chainIDs[i], _ = g.next()
		chainWanted = chainWanted || g.c.Wanted(chainIDs[i])
	}
	if !ok && !chainWanted {
		return
	}
	var term string
	var tags []string
	pan, msg := vlib.Recover(func() {
		se := buildSidecarEnv(r, w)
		proxy := proxyFor(w)
		matcher := model.PolicyMatcherForProxy(proxy)
		var svc *model.Service
		for _, n := range svcNss {
			s := &model.Service{Attributes: model.ServiceAttributes{Name: "svc", Namespace: nsName(n)}}
			matcher = matcher.WithService(s)
			svc = s
		}
		cfgs := se.ap.GetPeerAuthenticationsForWorkload(matcher)
		oConfigs := vlib.ListOf(cfgs, func(c *config.Config) string {
			return vlib.Pair(vlib.NI(parseNs(c.Namespace)), vlib.NI(parseName(c.Name)))
		})
		// NewPolicyApplier takes at most one service; with several namespaces requested the composition is
		// driven directly over the matcher's config list (same code path: newPolicyApplier -> Compose).
		var applier authn.PolicyApplier
		if len(svcNss) <= 1 {
			applier = authn.NewPolicyApplier(se.push, proxy, svc)
		}
		mg := authn.ComposePeerAuthentication(nsName(w.Root), cfgs)
		modeFor := func(p uint32) model.MutualTLSMode {
			if applier != nil {
				return applier.GetMutualTLSModeForPort(p)
			}
			if m, f := mg.PerPort[p]; f {
				return m
			}
			return mg.Mode
		}
		var oModes, oClient []string
		for i, p := range probePorts {
			m := modeFor(p)
			oModes = append(oModes, vlib.Pair(vlib.N(uint64(p)), modeNames[modelMode(m)]))
			ep := &model.IstioEndpoint{Namespace: nsName(w.WlNs), Labels: labelMap(w.Labels), TLSMode: model.IstioMutualTLSModeLabel, EndpointPort: p}
			en := endpoints.VerifCheckMtlsEnabled(se.push, se.ap, int(p), nil, "", ep, false)
			oClient = append(oClient, vlib.Pair(vlib.N(uint64(p)), vlib.B(en)))
			// the inbound chains generated for this port under the mode the applier resolved
			if applier != nil && g.c.Wanted(chainIDs[i]) {
				lp := []networking.ListenerProtocol{networking.ListenerProtocolHTTP, networking.ListenerProtocolTCP, networking.ListenerProtocolAuto}[(i+id)%3]
				settings := applier.InboundMTLSSettings(p, proxy, nil, authn.NoOverride)
				obs := core.VerifFilterChainMatchOptions(settings, lp)
				g.c.Add(vlib.Case{ID: chainIDs[i], Term: vlib.App("Chains", vlib.NI(chainIDs[i]), modeNames[modelMode(m)], lprotoName(lp), gChains(obs)),
					Tags:   []string{"chains", "chains:" + modeNames[modelMode(m)] + "/" + lprotoName(lp)},
					Sample: map[string]any{"kind": "chains-for-port", "world": w, "port": p, "proto": lprotoName(lp), "observed": obs}})
				if settings.Mode != m {
					g.c.Violate(vlib.Violation{ID: chainIDs[i], Kind: "oracle", Detail: fmt.Sprintf("InboundMTLSSettings mode %v != GetMutualTLSModeForPort %v", settings.Mode, m)})
				}
			}
		}
		var perPort []portMode
		for p, m := range mg.PerPort {
			perPort = append(perPort, portMode{p, modelMode(m)})
		}
		sort.Slice(perPort, func(i, j int) bool { return perPort[i].Port < perPort[j].Port })
		nsMode := se.ap.GetNamespaceMutualTLSMode(nsName(w.WlNs))
		global := se.ap.GetGlobalMutualTLSMode()
		infer := se.push.BestEffortInferServiceMTLSMode(se.ap, nil,
			&model.Service{Attributes: model.ServiceAttributes{Name: "svc", Namespace: nsName(w.WlNs)}, Resolution: model.ClientSideLB},
			&model.Port{Port: 80})
		term = vlib.App("Pipeline", vlib.NI(id), vlib.NI(w.Root), gPAs(w.All), vlib.NI(w.WlNs), gLabels(w.Labels), gNs(svcNss),
			gU32s(probePorts), oConfigs, vlib.List(oModes), gPorts(perPort), vlib.List(oClient),
			modeNames[modelMode(nsMode)], modeNames[modelMode(global)], modeNames[modelMode(infer)])
		tags = append(tags, "cfgs="+fmt.Sprint(len(cfgs)))
	})
	if !ok {
		return
	}
	if pan {
		g.c.Violate(vlib.Violation{ID: id, Kind: "panic", Detail: msg, Case: w})
		return
	}
	l := classify(w)
	tags = append(append(append(tags, "pipeline"), levelTags(l)...), extraTags...)
	if w.WlNs == w.Root {
		tags = append(tags, "workload-in-root-ns")
	}
	if len(svcNss) > 0 {
		tags = append(tags, "with-service")
	}
	g.c.Add(vlib.Case{ID: id, Term: term, Tags: tags, Trivial: l.mesh == nil && l.ns == nil && l.wl == nil,
		Sample: map[string]any{"kind": "pipeline", "world": w, "svc_namespaces": svcNss}})
}

// ---------------------------------------------------------------- direct ComposePeerAuthentication

func (g *gen) compose(r *vlib.Rand, w world) {
	id, ok := g.next()
	if !ok {
		return
	}
	l := shuffle(r, w.All)
	var cfgs []*config.Config
	for _, p := range l {
		c := p.cfg()
		cfgs = append(cfgs, &c)
	}
	var mg authn.MergedPeerAuthentication
	if pan, msg := vlib.Recover(func() { mg = authn.ComposePeerAuthentication(nsName(w.Root), cfgs) }); pan {
		g.c.Violate(vlib.Violation{ID: id, Kind: "panic", Detail: msg, Case: w})
		return
	}
	var perPort []portMode
	for p, m := range mg.PerPort {
		perPort = append(perPort, portMode{p, modelMode(m)})
	}
	sort.Slice(perPort, func(i, j int) bool { return perPort[i].Port < perPort[j].Port })
	g.c.Add(vlib.Case{ID: id, Term: vlib.App("Compose", vlib.NI(id), vlib.NI(w.Root), gPAs(l), modeNames[modelMode(mg.Mode)], gPorts(perPort)),
		Tags: []string{"compose", "compose-n=" + fmt.Sprint(len(l))}, Trivial: len(l) == 0,
		Sample: map[string]any{"kind": "compose", "root": w.Root, "list": l}})
}

// ---------------------------------------------------------------- chains, exhaustive

func (g *gen) chainsExhaustive() {
	node := &model.Proxy{Type: model.SidecarProxy, ID: "wl.ns1", ConfigNamespace: "ns1", Metadata: &model.NodeMetadata{Namespace: "ns1"}}
	se := buildSidecarEnv(vlib.NewRand(1), world{Root: 0, WlNs: 1})
	applier := authn.NewPolicyApplier(se.push, node, nil)
	for m := 0; m < 4; m++ {
		for _, lp := range []networking.ListenerProtocol{networking.ListenerProtocolHTTP, networking.ListenerProtocolTCP, networking.ListenerProtocolAuto} {
			id, ok := g.next()
			if !ok {
				continue
			}
			var obs []core.VerifChainOpt
			pan, msg := vlib.Recover(func() {
				var settings authn.MTLSSettings
				if m == mUnset {
					// MTLSUnknown cannot be requested through the applier (it means "no override"); this is the
					// value a nil authn builder falls back to being treated like (default arm of the switch)
					settings = authn.MTLSSettings{Port: 80, Mode: model.MTLSUnknown}
				} else {
					settings = applier.InboundMTLSSettings(80, node, nil, toModelMode(m))
				}
				obs = core.VerifFilterChainMatchOptions(settings, lp)
			})
			if pan {
				g.c.Violate(vlib.Violation{ID: id, Kind: "panic", Detail: msg})
				continue
			}
			g.c.Add(vlib.Case{ID: id, Term: vlib.App("Chains", vlib.NI(id), modeNames[m], lprotoName(lp), gChains(obs)),
				Tags:   []string{"chains", "chains-exhaustive", "chains:" + modeNames[m] + "/" + lprotoName(lp)},
				Sample: map[string]any{"kind": "chains", "mode": modeNames[m], "proto": lprotoName(lp), "observed": obs}})
		}
	}
}

// ---------------------------------------------------------------- ambient

func optK8s(p *PA) *securityclient.PeerAuthentication {
	if p == nil {
		return nil
	}
	return p.k8s()
}

// convertDirect runs convertPeerAuthentication on (cfg, nsCfg, rootCfg).
func (g *gen) convertDirect(root int, cfg PA, nsc, rootc *PA, finding string, tags ...string) {
	id, ok := g.next()
	if !ok {
		return
	}
	var z *security.Authorization
	if pan, msg := vlib.Recover(func() {
		z = ambient.VerifConvertPeerAuthentication(nsName(root), cfg.k8s(), optK8s(nsc), optK8s(rootc))
	}); pan {
		g.c.Violate(vlib.Violation{ID: id, Kind: "panic", Detail: msg, Case: cfg})
		return
	}
	o := "None"
	if z != nil {
		s, err := gAuthz(z)
		if err != nil {
			g.c.Violate(vlib.Violation{ID: id, Kind: "oracle", Detail: err.Error(), Case: cfg})
			return
		}
		o = "(Some " + s + ")"
	}
	if finding != "" {
		g.c.FindingOf[id] = finding
	}
	tags = append(tags, "convert", "convert:wl="+modeNames[cfg.Mtls])
	if z == nil {
		tags = append(tags, "convert:nil")
	}
	g.c.Add(vlib.Case{ID: id, Term: vlib.App("Convert", vlib.NI(id), vlib.NI(root), gPA(cfg), gOptPA(nsc), gOptPA(rootc), o),
		Tags: tags, Trivial: len(cfg.Ports) == 0,
		Sample: map[string]any{"kind": "convert", "root": root, "cfg": cfg, "ns": nsc, "mesh": rootc, "nil": z == nil}})
}

func (g *gen) keysDirect(r *vlib.Rand, w world) {
	id, ok := g.next()
	if !ok {
		return
	}
	l := shuffle(r, w.All)
	var ks []*securityclient.PeerAuthentication
	for _, p := range l {
		ks = append(ks, p.k8s())
	}
	var keys []string
	if pan, msg := vlib.Recover(func() { keys = ambient.VerifConvertedSelectorPeerAuthentications(nsName(w.Root), ks) }); pan {
		g.c.Violate(vlib.Violation{ID: id, Kind: "panic", Detail: msg, Case: w})
		return
	}
	o, err := gKeys(w.Root, keys)
	if err != nil {
		g.c.Violate(vlib.Violation{ID: id, Kind: "oracle", Detail: err.Error(), Case: w})
		return
	}
	g.c.Add(vlib.Case{ID: id, Term: vlib.App("Keys", vlib.NI(id), vlib.NI(w.Root), gPAs(l), o),
		Tags: []string{"keys", "keys-n=" + fmt.Sprint(len(keys))}, Trivial: len(l) == 0,
		Sample: map[string]any{"kind": "keys", "root": w.Root, "list": l, "keys": keys}})
}

// ambientObs is what the real ambient code produced for one world.
type ambientObs struct {
	attached     []string
	oKeys        string
	staticExists bool
	oPols        []string
	nconv        int
	relevant     string // the part the oracle looks at: attached keys, static policy, the referenced converted policy
}

// observeAmbient runs PolicyCollections + buildWorkloadPolicies over static krt collections (w.All sorted by key).
func observeAmbient(w world) (o ambientObs, kind, detail string) {
	var pas []*securityclient.PeerAuthentication
	for _, p := range w.All {
		pas = append(pas, p.k8s())
	}
	var pols []*security.Authorization
	if pan, msg := vlib.Recover(func() {
		o.attached, pols = ambient.VerifAmbientPeerAuth(nsName(w.Root), pas, nsName(w.WlNs), labelMap(w.Labels))
	}); pan {
		return o, "panic", msg
	}
	var conv []*security.Authorization
	for _, p := range pols {
		if p.Name == ambient.VerifStaticStrictPolicyName() {
			o.staticExists = true
			// the static policy must be the unconditional "deny unauthenticated" policy
			if p.Action != security.Action_DENY || len(p.Groups) != 1 || len(p.Groups[0].Rules) != 1 || len(p.Groups[0].Rules[0].Matches) != 1 ||
				len(p.Groups[0].Rules[0].Matches[0].NotPrincipals) != 1 || len(p.Groups[0].Rules[0].Matches[0].DestinationPorts) != 0 ||
				len(p.Groups[0].Rules[0].Matches[0].NotDestinationPorts) != 0 || p.Namespace != nsName(w.Root) {
				return o, "oracle", fmt.Sprintf("static strict policy has unexpected shape: %v", p)
			}
			continue
		}
		conv = append(conv, p)
	}
	sort.Slice(conv, func(i, j int) bool {
		if conv[i].Namespace != conv[j].Namespace {
			return conv[i].Namespace < conv[j].Namespace
		}
		return conv[i].Name < conv[j].Name
	})
	o.nconv = len(conv)
	referenced := ""
	for _, p := range conv {
		s, err := gAuthz(p)
		if err != nil {
			return o, "oracle", err.Error()
		}
		o.oPols = append(o.oPols, s)
		for _, k := range o.attached {
			if k == p.Namespace+"/"+p.Name {
				referenced = s
			}
		}
	}
	var err error
	if o.oKeys, err = gKeys(w.Root, o.attached); err != nil {
		return o, "oracle", err.Error()
	}
	o.relevant = o.oKeys + "|" + vlib.B(o.staticExists) + "|" + referenced
	return o, "", ""
}

// respell rewrites every "selector: {}" of the root / workload namespace into "no selector".
func respell(w world) (world, bool) {
	out := w
	out.All = append([]PA{}, w.All...)
	changed := false
	for i := range out.All {
		if out.All[i].Sel == 1 && (out.All[i].Ns == w.Root || out.All[i].Ns == w.WlNs) {
			out.All[i].Sel = 0
			changed = true
		}
	}
	return out, changed
}

// ambientE2E emits one Ambient case.  A world that spells a namespace-/mesh-level policy "selector: {}" is run a
// second time with that policy respelled to "no selector" (same meaning for the sidecar path and for the
// specification): the K9 tag is given exactly when the respelling changes what the oracle looks at, and the
// respelled twin is emitted as a case of its own, so a failure that is not due to the spelling is never masked.
func (g *gen) ambientE2E(w world, extraTags ...string) {
	w.All = sortByKey(w.All)
	twin, hasEmpty := respell(w)
	g.ambientOne(w, twin, hasEmpty, extraTags)
	if hasEmpty {
		g.ambientOne(twin, twin, false, append(append([]string{}, extraTags...), "ambient-k9-twin"))
	}
}

func (g *gen) ambientOne(w, twin world, hasEmpty bool, extraTags []string) {
	id, ok := g.next()
	if !ok {
		return
	}
	o, kind, detail := observeAmbient(w)
	if kind != "" {
		g.c.Violate(vlib.Violation{ID: id, Kind: kind, Detail: detail, Case: w})
		return
	}
	l := classify(w)
	finding := ambientFinding(l)
	if hasEmpty {
		if o2, kind2, _ := observeAmbient(twin); kind2 == "" && o2.relevant != o.relevant {
			finding = "K9-empty-selector"
		}
		extraTags = append(extraTags, "ambient-empty-selector")
	}
	if finding != "" {
		g.c.FindingOf[id] = finding
		extraTags = append(extraTags, "finding:"+finding)
	}
	tags := append(append([]string{"ambient", "ambient-keys=" + fmt.Sprint(len(o.attached)), "ambient-policies=" + fmt.Sprint(o.nconv)}, levelTags(l)...), extraTags...)
	g.c.Add(vlib.Case{ID: id, Term: vlib.App("Ambient", vlib.NI(id), vlib.NI(w.Root), gPAs(w.All), vlib.NI(w.WlNs), gLabels(w.Labels), gU32s(probePorts),
		o.oKeys, vlib.B(o.staticExists), vlib.List(o.oPols)),
		Tags: tags, Trivial: len(w.All) == 0,
		Sample: map[string]any{"kind": "ambient", "world": w, "attached": o.attached, "policies": o.nconv}})
}

// ambientFinding names the known finding (known_findings.txt) an ambient case is an instance of from the winning
// policies alone.  None is left: K2, the DISABLE port exception and the UNSET namespace policy are repaired in
// /repo (06bf447, 24c83bf, 45faab8); K9 is decided in ambientOne by re-running the real code on the respelled world.
func ambientFinding(l levels) string {
	return ""
}

func TestGen(t *testing.T) {
	c := vlib.NewCollector("C10", "V.C10.Run")
	c.Rule = "worlds = one workload (namespace, labels) + 0..7 PeerAuthentications over {root, workload, other} namespaces with nil/empty/matching/non-matching selectors, " +
		"all four modes at every level, 0..3 port-level entries, creation-time ties (except where the real code iterates krt maps); each world is run through " +
		"initAuthenticationPolicies + GetPeerAuthenticationsForWorkload + NewPolicyApplier + mtlsChecker + namespace getters (Pipeline), the inbound chain options per probed port (Chains), " +
		"ComposePeerAuthentication / convertPeerAuthentication / convertedSelectorPeerAuthentications directly, and PolicyCollections + buildWorkloadPolicies over krt (Ambient). " +
		"LISTENER: the real virtualInbound listener (ConfigGenTest.BuildListeners) of a server workload with an HTTP and a TCP service port under product + random policy sets; chains grouped by destination port, probed on service ports, non-service ports with port-level entries, an unmentioned port and the catch-all. " +
		"HISTORY: a fake discovery server with warm xDS caches, a connected client (CDS + EDS streams) and a server workload; create / in-place update / delete of mesh-, namespace- and workload-level policies, each followed by the triggered push; after every push the server's inbound mode and virtualInbound chains for the port are compared with the CDS auto-mTLS transport-socket match and the EDS tlsMode metadata the client was sent. " +
		"non-trivial = at least one policy applies to the workload (pipeline/ambient) / the policy has port-level entries (convert)"
	g := &gen{c: c}
	seed := vlib.Seed()
	r := vlib.NewRand(seed*0x9e37 + 10)

	g.chainsExhaustive()

	nPipe := vlib.Scale(500, 12000)
	for i := 0; i < nPipe; i++ {
		rr := r.Sub()
		w := genWorld(rr, false)
		var svc []int
		switch x := rr.Intn(10); {
		case x < 4:
		case x < 8:
			svc = []int{w.WlNs}
		case x < 9:
			svc = []int{3} // a service of another namespace (outside the stated property; correspondence only)
		default:
			svc = []int{w.WlNs, 3}
		}
		g.pipeline(rr, w, svc)
	}
	nCompose := vlib.Scale(300, 6000)
	for i := 0; i < nCompose; i++ {
		rr := r.Sub()
		g.compose(rr, genWorld(rr, false))
	}
	nKeys := vlib.Scale(300, 6000)
	for i := 0; i < nKeys; i++ {
		rr := r.Sub()
		g.keysDirect(rr, genWorld(rr, false))
	}
	// convertPeerAuthentication: the full product of (workload mode, ns policy, mesh policy) x generated port maps
	nConvPorts := vlib.Scale(3, 40)
	for wm := 0; wm < 4; wm++ {
		for nm := -1; nm < 4; nm++ {
			for rm := -1; rm < 4; rm++ {
				for k := 0; k < nConvPorts; k++ {
					rr := r.Sub()
					cfg := PA{Name: 1, Ns: 1, Time: 100, Sel: 2, Labels: [][2]int{{0, 0}}, Mtls: wm, Variant: rr.Intn(64)}
					for len(cfg.Ports) == 0 && k > 0 {
						cfg.Ports = genPorts(rr)
					}
					if k == 0 { // one fixed shape per combination: a STRICT, a PERMISSIVE, a DISABLE and an UNSET port
						cfg.Ports = []portMode{{80, mStrict}, {443, mUnset}, {8080, mPermissive}, {9090, mDisable}}
					}
					var nsc, rootc *PA
					if nm >= 0 {
						nsc = &PA{Name: 2, Ns: 1, Time: 50, Mtls: nm, Variant: rr.Intn(64)}
					}
					if rm >= 0 {
						rootc = &PA{Name: 3, Ns: 0, Time: 50, Mtls: rm, Variant: rr.Intn(64)}
					}
					g.convertDirect(0, cfg, nsc, rootc, "")
				}
			}
		}
	}
	// malformed / out-of-contract inputs of the converter: root-namespace policy, nil selector, no ports
	for i := 0; i < vlib.Scale(40, 400); i++ {
		rr := r.Sub()
		cfg := PA{Name: 1, Ns: rr.Intn(2), Time: 100, Sel: rr.Intn(3), Labels: [][2]int{{0, 0}}, Mtls: rr.Intn(4), Ports: genPorts(rr), Variant: rr.Intn(64)}
		g.convertDirect(0, cfg, nil, nil, "", "convert-out-of-contract")
	}
	// minimal witnesses of the known findings and of the repaired K2 (the same inputs as the *_refuted / *_repaired
	// theorems of coq/C10/Props.v)
	{
		lbl := [][2]int{{0, 0}}
		mesh := PA{Name: 3, Ns: 0, Time: 100, Sel: 0, Mtls: mStrict}
		wlp := func(m int, pm int) PA {
			return PA{Name: 1, Ns: 1, Time: 300, Sel: 2, Labels: lbl, Mtls: m, Ports: []portMode{{8080, pm}}}
		}
		g.ambientE2E(world{Root: 0, WlNs: 1, Labels: lbl, All: []PA{mesh, wlp(mPermissive, mStrict)}}, "witness:K2-repaired")
		g.ambientE2E(world{Root: 0, WlNs: 1, Labels: lbl, All: []PA{mesh, wlp(mUnset, mDisable)}}, "witness:disable-port-repaired")
		g.ambientE2E(world{Root: 0, WlNs: 1, Labels: lbl, All: []PA{mesh, {Name: 2, Ns: 1, Time: 200, Sel: 0, Mtls: mUnset}, wlp(mUnset, mPermissive)}}, "witness:unset-ns-repaired")
		g.ambientE2E(world{Root: 0, WlNs: 1, Labels: lbl, All: []PA{{Name: 2, Ns: 1, Time: 200, Sel: 1, Mtls: mStrict}, wlp(mUnset, mPermissive)}}, "witness:K9")
		// the same inputs through convertPeerAuthentication alone
		w1 := wlp(mPermissive, mStrict)
		g.convertDirect(0, w1, nil, &mesh, "", "witness:K2-repaired")
		w1.Mtls = mUnset // without the PERMISSIVE workload mode the port rule is also skipped, correctly: the mesh policy covers it
		g.convertDirect(0, w1, nil, &mesh, "", "witness:K2-control")
		g.convertDirect(0, wlp(mPermissive, mStrict), nil, nil, "", "witness:K2-control")
	}
	// ambient end to end, structured: every (mesh, namespace, workload) mode combination ("none" = no policy at that
	// level) x port maps, with nil and empty selectors at the namespace/mesh levels, plus younger decoys
	nAmbPorts := vlib.Scale(3, 30)
	for rm := -1; rm < 4; rm++ {
		for nm := -1; nm < 4; nm++ {
			for wm := 0; wm < 4; wm++ {
				for k := 0; k < nAmbPorts; k++ {
					rr := r.Sub()
					w := world{Root: 0, WlNs: 1, Labels: [][2]int{{0, 0}, {1, 1}}}
					wl := PA{Name: 1, Ns: 1, Time: 300, Sel: 2, Labels: [][2]int{{0, 0}}, Mtls: wm, Variant: rr.Intn(64)}
					if k == 0 {
						wl.Ports = []portMode{{80, mStrict}, {443, mUnset}, {8080, mPermissive}, {9090, mDisable}}
					} else {
						wl.Ports = genPorts(rr)
					}
					w.All = append(w.All, wl)
					emptySel := 0
					if k%3 == 2 {
						emptySel = 1 // "selector: {}" instead of no selector
					}
					if nm >= 0 {
						w.All = append(w.All, PA{Name: 2, Ns: 1, Time: 200, Sel: emptySel, Mtls: nm, Variant: rr.Intn(64)})
					}
					if rm >= 0 {
						w.All = append(w.All, PA{Name: 3, Ns: 0, Time: 100, Sel: emptySel, Mtls: rm, Variant: rr.Intn(64)})
					}
					if rr.Chance(30) { // a younger workload policy that must lose
						w.All = append(w.All, PA{Name: 4, Ns: 1, Time: 900, Sel: 2, Labels: [][2]int{{1, 1}}, Mtls: rr.Intn(4), Ports: genPorts(rr), Variant: rr.Intn(64)})
					}
					if rr.Chance(20) { // a younger namespace policy that must lose
						w.All = append(w.All, PA{Name: 5, Ns: 1, Time: 950, Sel: 0, Mtls: rr.Intn(4), Variant: rr.Intn(64)})
					}
					tag := "ambient-product"
					if emptySel == 1 {
						tag = "ambient-product-empty-selector"
					}
					g.ambientE2E(w, tag)
				}
			}
		}
	}
	nAmb := vlib.Scale(400, 12000)
	for i := 0; i < nAmb; i++ {
		rr := r.Sub()
		g.ambientE2E(genWorld(rr, true), "ambient-random")
	}
	g.listeners(t, r)
	g.histories(t, r)
	if err := c.Flush(); err != nil {
		t.Fatal(err)
	}
	t.Logf("C10: %d cases", c.Len())
}
