//go:build verif

// HISTORY family of C10: a fake discovery server with warm xDS caches, a connected client sidecar and a server
// workload; PeerAuthentications are created / updated in place / deleted, and after every triggered push the
// server's inbound configuration is compared with what the client was sent (CDS auto-mTLS transport socket match,
// EDS tlsMode endpoint metadata).
package c10

import (
	"fmt"
	"testing"
	"time"

	cluster "github.com/envoyproxy/go-control-plane/envoy/config/cluster/v3"
	endpoint "github.com/envoyproxy/go-control-plane/envoy/config/endpoint/v3"
	listener "github.com/envoyproxy/go-control-plane/envoy/config/listener/v3"
	tlsv3 "github.com/envoyproxy/go-control-plane/envoy/extensions/transport_sockets/tls/v3"
	discovery "github.com/envoyproxy/go-control-plane/envoy/service/discovery/v3"

	networkingapi "istio.io/api/networking/v1alpha3"
	"istio.io/istio/pilot/pkg/features"
	"istio.io/istio/pilot/pkg/model"
	"istio.io/istio/pilot/pkg/networking/util"
	"istio.io/istio/pilot/pkg/security/authn"
	v3 "istio.io/istio/pilot/pkg/xds/v3"
	"istio.io/istio/pilot/test/xds"
	"istio.io/istio/pkg/config"
	"istio.io/istio/pkg/config/schema/gvk"
	"istio.io/istio/pkg/test"
	"verif/harness/vlib"
)

const (
	hRoot        = 2 // "istio-system" (sorts after "default", like the ids)
	hWlNs        = 1 // "default"
	hPort        = 8080
	hClusterName = "outbound|80||app.example.internal"
)

func hNsName(i int) string {
	if i == hRoot {
		return "istio-system"
	}
	return "default"
}

// workload labels: app=server (key 0, value 0) and the tlsMode label (key 1, value 0)
var hLabels = [][2]int{{0, 0}, {1, 0}}
var hServerLabels = map[string]string{"app": "server", "security.istio.io/tlsMode": "istio"}

func hCfg(p PA) config.Config {
	c := p.cfg()
	c.Namespace = hNsName(p.Ns)
	c.ResourceVersion = "" // assigned by the store (an explicit one must match the stored revision on Update)
	if p.Sel == 2 { // selectors speak about the app label only: value 0 = server, 1 = other
		sp := p.spec()
		sp.Selector.MatchLabels = map[string]string{"app": []string{"server", "other"}[p.Labels[0][1]]}
		c.Spec = sp
	}
	return c
}

type hOp struct {
	Kind string // create | update | delete
	P    PA
}

type hStepObs struct {
	Op     string
	All    []PA
	Srv    int
	Chains string
	CDS    bool
	EDS    bool
}

// failer turns Fatal of the test helpers into a panic that the history runner records as a violation.
type failer struct{ *testing.T }
type hFailure struct{ msg string }

func (f failer) Fail()                          { panic(hFailure{"Fail"}) }
func (f failer) FailNow()                       { panic(hFailure{"FailNow"}) }
func (f failer) Fatal(args ...any)              { panic(hFailure{fmt.Sprint(args...)}) }
func (f failer) Fatalf(s string, args ...any)   { panic(hFailure{fmt.Sprintf(s, args...)}) }

func cdsAuto(resp *discovery.DiscoveryResponse) (bool, error) {
	for _, r := range resp.Resources {
		c := &cluster.Cluster{}
		if err := r.UnmarshalTo(c); err != nil {
			return false, err
		}
		if c.Name != hClusterName {
			continue
		}
		for _, m := range c.TransportSocketMatches {
			if m.GetMatch().GetFields()[model.TLSModeLabelShortname].GetStringValue() == model.IstioMutualTLSModeLabel && m.GetTransportSocket() != nil {
				return true, nil
			}
		}
		return false, nil
	}
	return false, fmt.Errorf("cluster %s not in CDS response", hClusterName)
}

func edsLabel(resp *discovery.DiscoveryResponse) (bool, error) {
	n, with := 0, 0
	for _, r := range resp.Resources {
		cla := &endpoint.ClusterLoadAssignment{}
		if err := r.UnmarshalTo(cla); err != nil {
			return false, err
		}
		if cla.ClusterName != hClusterName {
			continue
		}
		for _, le := range cla.Endpoints {
			for _, lb := range le.LbEndpoints {
				n++
				if lb.GetMetadata().GetFilterMetadata()[util.EnvoyTransportSocketMetadataKey].GetFields()[model.TLSModeLabelShortname].GetStringValue() == model.IstioMutualTLSModeLabel {
					with++
				}
			}
		}
	}
	if n == 0 {
		return false, fmt.Errorf("no endpoints for %s in EDS response", hClusterName)
	}
	if with != 0 && with != n {
		return false, fmt.Errorf("endpoints of one workload disagree on tlsMode metadata: %d of %d", with, n)
	}
	return with == n, nil
}

func inboundChains(ls []*listener.Listener) (string, error) {
	var out []string
	for _, l := range ls {
		if l.Name != model.VirtualInboundListenerName {
			continue
		}
		for _, fc := range l.FilterChains {
			m := fc.GetFilterChainMatch()
			if m.GetDestinationPort().GetValue() != hPort {
				continue
			}
			http := false
			for _, f := range fc.Filters {
				if f.Name == "envoy.filters.network.http_connection_manager" {
					http = true
				}
			}
			sock := "None"
			if ts := fc.GetTransportSocket(); ts != nil {
				ctx := &tlsv3.DownstreamTlsContext{}
				if err := ts.GetTypedConfig().UnmarshalTo(ctx); err != nil {
					return "", err
				}
				sock = "(Some " + vlib.B(ctx.GetRequireClientCertificate().GetValue()) + ")"
			}
			out = append(out, vlib.Pair(vlib.App("mk_chain", vlib.B(m.GetTransportProtocol() == "tls"), vlib.B(http),
				vlib.B(len(m.GetApplicationProtocols()) > 0), vlib.B(fc.GetTransportSocket() != nil)), sock))
		}
	}
	if len(out) == 0 {
		return "", fmt.Errorf("no virtualInbound filter chain for port %d", hPort)
	}
	return vlib.List(out), nil
}

// runHistory drives one history against a fresh fake discovery server and returns the per-step observations.
func runHistory(t *testing.T, initial []PA, ops []hOp) (steps []hStepObs, failure string) {
	defer func() {
		if r := recover(); r != nil {
			if f, ok := r.(hFailure); ok {
				failure = f.msg
				return
			}
			panic(r)
		}
	}()
	ft := failer{t}
	se := config.Config{
		Meta: config.Meta{GroupVersionKind: gvk.ServiceEntry, Name: "app", Namespace: "default"},
		Spec: &networkingapi.ServiceEntry{
			Hosts: []string{"app.example.internal"}, Location: networkingapi.ServiceEntry_MESH_INTERNAL,
			Resolution: networkingapi.ServiceEntry_STATIC,
			Ports:      []*networkingapi.ServicePort{{Number: 80, Name: "http", Protocol: "HTTP", TargetPort: hPort}},
			Endpoints: []*networkingapi.WorkloadEntry{
				{Address: "10.10.0.1", Labels: hServerLabels}, {Address: "10.10.0.2", Labels: hServerLabels},
			},
		},
	}
	cfgs := []config.Config{se}
	for _, p := range initial {
		cfgs = append(cfgs, hCfg(p))
	}
	s := xds.NewFakeDiscoveryServer(ft, xds.FakeOptions{Configs: cfgs})
	cds := s.ConnectADS().WithType(v3.ClusterType).WithTimeout(30 * time.Second)
	eds := s.ConnectADS().WithType(v3.EndpointType).WithTimeout(30 * time.Second)
	observe := func(op string, all []PA, cdsResp, edsResp *discovery.DiscoveryResponse) {
		server := s.SetupProxy(&model.Proxy{
			ConfigNamespace: "default", Labels: hServerLabels, IPAddresses: []string{"10.10.0.1"},
			Metadata: &model.NodeMetadata{Namespace: "default", Labels: hServerLabels},
		})
		push := s.PushContext()
		srv := authn.NewPolicyApplier(push, server, nil).GetMutualTLSModeForPort(hPort)
		chains, err := inboundChains(s.ConfigGen.BuildListeners(server, push))
		if err != nil {
			panic(hFailure{err.Error()})
		}
		c, err := cdsAuto(cdsResp)
		if err != nil {
			panic(hFailure{err.Error()})
		}
		e, err := edsLabel(edsResp)
		if err != nil {
			panic(hFailure{err.Error()})
		}
		steps = append(steps, hStepObs{Op: op, All: append([]PA{}, all...), Srv: modelMode(srv), Chains: chains, CDS: c, EDS: e})
	}
	all := append([]PA{}, initial...)
	cdsResp := cds.RequestResponseAck(ft, nil)
	edsResp := eds.RequestResponseAck(ft, &discovery.DiscoveryRequest{ResourceNames: []string{hClusterName}})
	observe("connect", all, cdsResp, edsResp)
	for _, op := range ops {
		switch op.Kind {
		case "create":
			if _, err := s.Store().Create(hCfg(op.P)); err != nil {
				panic(hFailure{err.Error()})
			}
			all = append(all, op.P)
		case "update": // same object (same UID, creation time), new spec; the store assigns a new resourceVersion
			if _, err := s.Store().Update(hCfg(op.P)); err != nil {
				panic(hFailure{err.Error()})
			}
			for i := range all {
				if all[i].Ns == op.P.Ns && all[i].Name == op.P.Name {
					all[i] = op.P
				}
			}
		case "delete":
			if err := s.Store().Delete(gvk.PeerAuthentication, paName(op.P.Name), hNsName(op.P.Ns), nil); err != nil {
				panic(hFailure{err.Error()})
			}
			var rest []PA
			for _, q := range all {
				if !(q.Ns == op.P.Ns && q.Name == op.P.Name) {
					rest = append(rest, q)
				}
			}
			all = rest
		}
		// the change triggers one push to both connected streams
		cdsResp = cds.ExpectResponse(ft)
		edsResp = eds.ExpectResponse(ft)
		observe(op.Kind, all, cdsResp, edsResp)
		cds.Request(ft, &discovery.DiscoveryRequest{ResponseNonce: cdsResp.Nonce, VersionInfo: cdsResp.VersionInfo})
		eds.Request(ft, &discovery.DiscoveryRequest{ResponseNonce: edsResp.Nonce, VersionInfo: edsResp.VersionInfo, ResourceNames: []string{hClusterName}})
	}
	return steps, ""
}

// genHistory: i < 4 are fixed shapes (in-place mode walks of the namespace / mesh policy with a cached cluster,
// workload policy created and deleted in between); the rest is random.
func genHistory(r *vlib.Rand, i int) (initial []PA, ops []hOp) {
	nsP := func(m int) PA { return PA{Name: 1, Ns: hWlNs, Time: 1000, Sel: 0, Mtls: m} }
	meshP := func(m int) PA { return PA{Name: 2, Ns: hRoot, Time: 900, Sel: 0, Mtls: m} }
	wlP := func(m int, ports []portMode) PA {
		return PA{Name: 3, Ns: hWlNs, Time: 1100, Sel: 2, Labels: [][2]int{{0, 0}}, Mtls: m, Ports: ports}
	}
	switch i {
	case 0:
		return []PA{nsP(mPermissive)}, []hOp{{"update", nsP(mDisable)}, {"update", nsP(mStrict)}, {"update", nsP(mDisable)}, {"update", nsP(mPermissive)}}
	case 1:
		return []PA{meshP(mStrict)}, []hOp{{"update", meshP(mDisable)}, {"update", meshP(mPermissive)}, {"create", nsP(mDisable)}, {"update", nsP(mUnset)}, {"delete", nsP(0)}}
	case 2:
		return nil, []hOp{{"create", meshP(mDisable)}, {"update", meshP(mStrict)}, {"create", wlP(mUnset, []portMode{{hPort, mDisable}})},
			{"update", wlP(mUnset, []portMode{{hPort, mUnset}})}, {"delete", wlP(0, nil)}, {"update", meshP(mDisable)}}
	case 3:
		return []PA{nsP(mDisable)}, []hOp{{"create", wlP(mStrict, nil)}, {"update", nsP(mStrict)}, {"update", wlP(mDisable, nil)}, {"delete", wlP(0, nil)}, {"update", nsP(mDisable)}}
	}
	present := map[int]*PA{}
	mk := func(which, m int) PA {
		switch which {
		case 0:
			return nsP(m)
		case 1:
			return meshP(m)
		}
		var ports []portMode
		if r.Chance(40) {
			ports = []portMode{{hPort, r.Intn(4)}}
		}
		p := wlP(m, ports)
		if r.Chance(15) {
			p.Labels = [][2]int{{0, 1}} // does not select the server
		}
		return p
	}
	for k := 0; k < 2; k++ {
		if r.Chance(50) {
			p := mk(k, r.Intn(4))
			present[k] = &p
			initial = append(initial, p)
		}
	}
	n := 4 + r.Intn(3)
	for len(ops) < n {
		which := []int{0, 0, 1, 1, 2}[r.Intn(5)]
		cur := present[which]
		switch {
		case cur == nil:
			p := mk(which, r.Intn(4))
			present[which] = &p
			ops = append(ops, hOp{"create", p})
		case r.Chance(80):
			p := mk(which, (cur.Mtls+1+r.Intn(3))%4)
			p.Variant = r.Intn(64)
			present[which] = &p
			ops = append(ops, hOp{"update", p})
		default:
			ops = append(ops, hOp{"delete", *cur})
			present[which] = nil
		}
	}
	return initial, ops
}

// historyFinding: the CDS side of client-side auto mTLS is inferred from namespace-/mesh-level policies only
// (BestEffortInferServiceMTLSMode), so a STRICT workload-/port-level mode under a DISABLE namespace/mesh mode
// leaves the client on plaintext.
func historyFinding(steps []hStepObs) string {
	for _, st := range steps {
		l := classify(world{Root: hRoot, WlNs: hWlNs, Labels: hLabels, All: st.All})
		parent := mPermissive
		if l.mesh != nil && l.mesh.Mtls != mUnset {
			parent = l.mesh.Mtls
		}
		if l.ns != nil && l.ns.Mtls != mUnset {
			parent = l.ns.Mtls
		}
		if parent == mDisable && st.Srv == mStrict {
			return "C10-cds-namespace-level-inference"
		}
	}
	return ""
}

func (g *gen) histories(t *testing.T, r *vlib.Rand) {
	test.SetForTest(t, &features.EnableUnsafeAssertions, false) // the xDS caches are bypassed when assertions are on
	n := vlib.Scale(12, 80)
	for i := 0; i < n; i++ {
		rr := r.Sub()
		id, ok := g.next()
		initial, ops := genHistory(rr, i)
		if !ok {
			continue
		}
		var steps []hStepObs
		var failure string
		t.Run(fmt.Sprintf("history-%d", id), func(t *testing.T) { steps, failure = runHistory(t, initial, ops) })
		sample := map[string]any{"kind": "history", "initial": initial, "ops": ops, "steps": steps}
		if failure != "" {
			g.c.Violate(vlib.Violation{ID: id, Kind: "oracle", Detail: "history aborted: " + failure, Case: sample})
			continue
		}
		var terms []string
		tags := []string{"history", "history-steps=" + fmt.Sprint(len(steps))}
		for _, st := range steps {
			terms = append(terms, vlib.App("HStep", gPAs(st.All), modeNames[st.Srv], st.Chains, vlib.B(st.CDS), vlib.B(st.EDS)))
			tags = append(tags, "history-op:"+st.Op, "history-srv:"+modeNames[st.Srv])
		}
		if f := historyFinding(steps); f != "" {
			g.c.FindingOf[id] = f
			tags = append(tags, "finding:"+f)
		}
		g.c.Add(vlib.Case{ID: id, Term: vlib.App("History", vlib.NI(id), vlib.NI(hRoot), vlib.NI(hWlNs), gLabels(hLabels), vlib.NI(hPort), vlib.List(terms)),
			Tags: tags, Sample: sample})
	}
}
