// Package vlib is the shared plumbing of the correspondence harnesses: one PRNG, Gallina
// term printers, sharded cases.v writer, and meta.json (coverage) writer.
package vlib

import (
	"crypto/sha256"
	"encoding/hex"
	"encoding/json"
	"fmt"
	"os"
	"path/filepath"
	"sort"
	"strconv"
	"strings"
)

// ---------------------------------------------------------------- PRNG (splitmix64)

type Rand struct{ s uint64 }

func NewRand(seed uint64) *Rand { return &Rand{s: seed} }

func (r *Rand) U64() uint64 {
	r.s += 0x9e3779b97f4a7c15
	z := r.s
	z = (z ^ (z >> 30)) * 0xbf58476d1ce4e5b9
	z = (z ^ (z >> 27)) * 0x94d049bb133111eb
	return z ^ (z >> 31)
}
func (r *Rand) Intn(n int) int {
	if n <= 0 {
		return 0
	}
	return int(r.U64() % uint64(n))
}
func (r *Rand) Bool() bool         { return r.U64()&1 == 1 }
func (r *Rand) Chance(p int) bool  { return r.Intn(100) < p } // p percent
func (r *Rand) Sub() *Rand         { return NewRand(r.U64()) }
func (r *Rand) SubSeed() uint64    { return r.U64() }
func Pick[T any](r *Rand, xs []T) T { return xs[r.Intn(len(xs))] }

// ---------------------------------------------------------------- environment

func Seed() uint64 {
	if s := os.Getenv("VERIF_SEED"); s != "" {
		if v, err := strconv.ParseUint(s, 10, 64); err == nil {
			return v
		}
		if v, err := strconv.ParseInt(s, 10, 64); err == nil {
			return uint64(v)
		}
	}
	return 1
}
func Tier() string {
	if t := os.Getenv("VERIF_TIER"); t != "" {
		return t
	}
	return "quick"
}
func Thorough() bool { return Tier() == "thorough" }

// Scale returns q in the quick tier and t in the thorough tier.
func Scale(q, t int) int {
	if Thorough() {
		return t
	}
	return q
}

// OutDir is where the driver wants case files.
func OutDir() string {
	d := os.Getenv("VERIF_OUT")
	if d == "" {
		d = "/verif/work/tmp"
	}
	_ = os.MkdirAll(d, 0o755)
	return d
}

// ReplayIDs: when VERIF_REPLAY_IDS is set ("3,17"), harnesses emit only those case ids
// (ids are deterministic functions of the seed).
func ReplayIDs() map[int]bool {
	s := os.Getenv("VERIF_REPLAY_IDS")
	if s == "" {
		return nil
	}
	m := map[int]bool{}
	for _, f := range strings.Split(s, ",") {
		if v, err := strconv.Atoi(strings.TrimSpace(f)); err == nil {
			m[v] = true
		}
	}
	return m
}

// ---------------------------------------------------------------- Gallina printers

func B(b bool) string {
	if b {
		return "true"
	}
	return "false"
}
func N(n uint64) string   { return fmt.Sprintf("%d%%N", n) }
func NI(n int) string     { return fmt.Sprintf("%d%%N", n) }
func Z(n int64) string {
	if n < 0 {
		return fmt.Sprintf("(%d)%%Z", n)
	}
	return fmt.Sprintf("%d%%Z", n)
}
func Nat(n int) string { return fmt.Sprintf("%d%%nat", n) }

// Str prints a Coq string literal; bytes outside printable ASCII are not supported by the
// literal syntax, so they are emitted through String (Ascii.ascii_of_N n) conses.
func Str(s string) string {
	plain := true
	for i := 0; i < len(s); i++ {
		c := s[i]
		if c < 32 || c > 126 {
			plain = false
			break
		}
	}
	if plain {
		return "\"" + strings.ReplaceAll(s, "\"", "\"\"") + "\"%string"
	}
	var b strings.Builder
	for i := 0; i < len(s); i++ {
		fmt.Fprintf(&b, "(String (ascii_of_N %d) ", s[i])
	}
	b.WriteString("EmptyString")
	b.WriteString(strings.Repeat(")", len(s)))
	return b.String()
}
func List(xs []string) string { return "[" + strings.Join(xs, "; ") + "]" }
func ListOf[T any](xs []T, f func(T) string) string {
	out := make([]string, len(xs))
	for i, x := range xs {
		out[i] = f(x)
	}
	return List(out)
}
func Opt(present bool, v string) string {
	if !present {
		return "None"
	}
	return "(Some " + v + ")"
}
func Pair(a, b string) string { return "(" + a + ", " + b + ")" }
func App(ctor string, args ...string) string {
	if len(args) == 0 {
		return ctor
	}
	return "(" + ctor + " " + strings.Join(args, " ") + ")"
}

// Rec prints a record literal from alternating field/value strings.
func Rec(kv ...string) string {
	var parts []string
	for i := 0; i+1 < len(kv); i += 2 {
		parts = append(parts, kv[i]+" := "+kv[i+1])
	}
	return "{| " + strings.Join(parts, "; ") + " |}"
}

// ---------------------------------------------------------------- case collection

type Case struct {
	ID      int
	Term    string // Gallina term of type Run.case
	Tags    []string
	Sample  any    // JSON-able rendering for evidence/replay
	Trivial bool   // true when the case exercises no non-default branch (by the harness's rule)
}

type Violation struct {
	ID      int    `json:"id"`
	Kind    string `json:"kind"` // e.g. "panic", "oracle"
	Detail  string `json:"detail"`
	Finding string `json:"finding,omitempty"` // stable id of a known finding this instance matches
	Case    any    `json:"case,omitempty"`
}

type Collector struct {
	Prop       string
	Module     string // Coq module path of Run, e.g. "V.C19.Run"
	Imports    []string
	cases      []Case
	dist       map[string]int
	hashes     map[string]bool
	nontrivial int
	Rule       string
	Violations []Violation
	Hyps       map[string]int
	Extra      map[string]any
	FindingOf  map[int]string // case id -> known-finding id (if that case fails, it is that finding)
	only       map[int]bool
}

func NewCollector(prop, module string) *Collector {
	return &Collector{Prop: prop, Module: module, dist: map[string]int{}, hashes: map[string]bool{},
		Hyps: map[string]int{}, Extra: map[string]any{}, FindingOf: map[int]string{}, only: ReplayIDs()}
}

// Wanted tells a generator whether case id should be run at all (replay mode filters).
func (c *Collector) Wanted(id int) bool { return c.only == nil || c.only[id] }

func (c *Collector) Add(cs Case) {
	if !c.Wanted(cs.ID) {
		return
	}
	c.cases = append(c.cases, cs)
	for _, t := range cs.Tags {
		c.dist[t]++
	}
	h := sha256.Sum256([]byte(stripID(cs.Term)))
	k := hex.EncodeToString(h[:8])
	if !c.hashes[k] {
		c.hashes[k] = true
		if !cs.Trivial {
			c.nontrivial++
		}
	}
}

// stripID removes nothing structural; ids are the first argument by convention "(Ctor 12%N ...".
func stripID(t string) string {
	i := strings.Index(t, "%N")
	if i < 0 {
		return t
	}
	j := strings.LastIndexAny(t[:i], " (")
	if j < 0 {
		return t
	}
	return t[:j+1] + "_" + t[i+2:]
}

func (c *Collector) Tag(t string)            { c.dist[t]++ }
func (c *Collector) Hyp(name string, n int)  { c.Hyps[name] += n }
func (c *Collector) Violate(v Violation)     { c.Violations = append(c.Violations, v) }
func (c *Collector) Len() int                { return len(c.cases) }

// Flush writes cases_XXX.v shards (≤ shard cases each), cases.json and meta.json.
func (c *Collector) Flush() error {
	dir := OutDir()
	shard := 1000
	old, _ := filepath.Glob(filepath.Join(dir, "cases_*.v"))
	for _, f := range old {
		_ = os.Remove(f)
	}
	nsh := 0
	for i := 0; i < len(c.cases) || (i == 0 && len(c.cases) == 0); i += shard {
		j := i + shard
		if j > len(c.cases) {
			j = len(c.cases)
		}
		var b strings.Builder
		b.WriteString("From Coq Require Import List NArith ZArith String Ascii Bool.\nImport ListNotations.\n")
		b.WriteString("From V Require Import lib.Verdict.\n")
		for _, im := range c.Imports {
			b.WriteString("From V Require Import " + im + ".\n")
		}
		b.WriteString("Require Import " + c.Module + ".\nImport " + c.Module + ".\n")
		b.WriteString("Open Scope string_scope.\n")
		for k := i; k < j; k++ {
			fmt.Fprintf(&b, "Definition c%d : case := %s.\n", k, c.cases[k].Term)
		}
		b.WriteString("Definition cases : list case := [")
		for k := i; k < j; k++ {
			if k > i {
				b.WriteString("; ")
			}
			fmt.Fprintf(&b, "c%d", k)
		}
		b.WriteString("].\n")
		b.WriteString("Definition M := Eval vm_compute in mismatches cases.\nPrint M.\n")
		if err := os.WriteFile(filepath.Join(dir, fmt.Sprintf("cases_%03d.v", nsh)), []byte(b.String()), 0o644); err != nil {
			return err
		}
		nsh++
		if len(c.cases) == 0 {
			break
		}
	}
	// cases.json: id -> sample (for replays)
	samples := map[string]any{}
	var firstSamples []any
	for _, cs := range c.cases {
		if cs.Sample != nil {
			samples[strconv.Itoa(cs.ID)] = cs.Sample
			if len(firstSamples) < 4 {
				firstSamples = append(firstSamples, cs.Sample)
			}
		}
	}
	if len(firstSamples) == 0 && len(c.cases) > 0 {
		firstSamples = append(firstSamples, c.cases[0].Term)
	}
	if err := writeJSON(filepath.Join(dir, "cases.json"), samples); err != nil {
		return err
	}
	keys := make([]string, 0, len(c.dist))
	for k := range c.dist {
		keys = append(keys, k)
	}
	sort.Strings(keys)
	dist := map[string]int{}
	for _, k := range keys {
		dist[k] = c.dist[k]
	}
	fo := map[string]string{}
	for k, v := range c.FindingOf {
		fo[strconv.Itoa(k)] = v
	}
	meta := map[string]any{
		"property": c.Prop, "seed": Seed(), "tier": Tier(),
		"evaluations": len(c.cases), "distinct": len(c.hashes), "distinct_nontrivial": c.nontrivial,
		"rule": c.Rule, "distribution": dist, "samples": firstSamples, "shards": nsh,
		"violations": c.Violations, "hypotheses_validated": c.Hyps, "extra": c.Extra, "finding_of": fo,
	}
	return writeJSON(filepath.Join(dir, "meta.json"), meta)
}

func writeJSON(path string, v any) error {
	b, err := json.MarshalIndent(v, "", " ")
	if err != nil {
		return err
	}
	return os.WriteFile(path, b, 0o644)
}

// Recover runs f and reports a panic as (true, message).
func Recover(f func()) (panicked bool, msg string) {
	defer func() {
		if r := recover(); r != nil {
			panicked = true
			msg = fmt.Sprint(r)
		}
	}()
	f()
	return
}

// RepoDir is the istio tree the harness is built against (/repo unless VERIF_REPO is set).
func RepoDir() string {
	if d := os.Getenv("VERIF_REPO"); d != "" {
		return d
	}
	return "/repo"
}
