//go:build verif

// Package c17: correspondence harness for C17 (generation is deterministic).
// c17_test.go: layer (a) — every real comparator / sorter / selection rule against the Coq model, on
// generated lists and permutations of them, including ties, plus the total-order laws on the
// implementation.  direct_test.go: layer (b) — exploration: serialized bytes of every xDS resource for
// repeated and order-permuted generations on the fake discovery server.
package c17

import (
	"fmt"
	"math/big"
	"sort"
	"strconv"
	"strings"
	"testing"
	"time"

	route "github.com/envoyproxy/go-control-plane/envoy/config/route/v3"

	networking "istio.io/api/networking/v1alpha3"
	typev1beta1 "istio.io/api/type/v1beta1"
	"istio.io/istio/pilot/pkg/features"
	"istio.io/istio/pilot/pkg/model"
	xdscore "istio.io/istio/pilot/pkg/networking/core"
	"istio.io/istio/pilot/pkg/networking/util"
	"istio.io/istio/pilot/pkg/serviceregistry/provider"
	"istio.io/istio/pilot/pkg/serviceregistry/serviceentry"
	"istio.io/istio/pkg/cluster"
	"istio.io/istio/pkg/config"
	"istio.io/istio/pkg/config/host"
	"istio.io/istio/pkg/config/labels"
	"istio.io/istio/pkg/config/mesh"
	"istio.io/istio/pkg/config/mesh/meshwatcher"
	"istio.io/istio/pkg/config/schema/gvk"
	"istio.io/istio/pkg/config/visibility"
	"istio.io/istio/pkg/kube"
	"istio.io/istio/pkg/kube/krt"
	"istio.io/istio/pkg/util/sets"
	"verif/harness/vlib"
)


// ---------------------------------------------------------------- pools

var namePool = []string{"a", "b", "ab", "a-b", "a.b", "B", "", "zz", "a\xc3\xa9", "a0"}
var nsPool = []string{"ns1", "ns2", "ns10", "default", "", "Ns1"}
var hostPool = []string{"a.example.com", "b.example.com", "dup.example.com", "a.ns1.svc.cluster.local", "*.wild.com"}

var baseSec = int64(1700000000)

type tm struct {
	Sec, Nsec int64
	Zone      int // 0 UTC, 1 +02:00, 2 local
	Zero      bool
}

func (t tm) real() time.Time {
	if t.Zero {
		return time.Time{}
	}
	x := time.Unix(t.Sec, t.Nsec)
	switch t.Zone {
	case 0:
		return x.UTC()
	case 1:
		return x.In(time.FixedZone("p2", 7200))
	}
	return x
}

// z prints the instant as unix nanoseconds (exact, big: the zero time.Time is year 1).
func (t tm) z() string {
	r := t.real()
	b := new(big.Int).Mul(big.NewInt(r.Unix()), big.NewInt(1000000000))
	b.Add(b, big.NewInt(int64(r.Nanosecond())))
	if b.Sign() < 0 {
		return "(" + b.String() + ")%Z"
	}
	return b.String() + "%Z"
}

func genTime(r *vlib.Rand) tm {
	switch r.Intn(10) {
	case 0:
		return tm{Zero: true}
	case 1:
		return tm{Sec: baseSec, Nsec: int64(r.Intn(3)) * 500000000, Zone: r.Intn(3)}
	case 2:
		return tm{Sec: baseSec + int64(r.Intn(5)) - 2, Zone: r.Intn(3)}
	}
	// second granularity, few values: ties are common
	return tm{Sec: baseSec + int64(r.Intn(3)), Zone: r.Intn(3)}
}

func perm(r *vlib.Rand, n int) []int {
	p := make([]int, n)
	for i := range p {
		p[i] = i
	}
	for i := n - 1; i > 0; i-- {
		j := r.Intn(i + 1)
		p[i], p[j] = p[j], p[i]
	}
	return p
}

func natList(p []int) string { return vlib.ListOf(p, func(i int) string { return vlib.Nat(i) }) }
func nList(p []int) string   { return vlib.ListOf(p, func(i int) string { return vlib.NI(i) }) }

// ---------------------------------------------------------------- services

type Svc struct {
	Tag            int
	T              tm
	Name, Ns, Host string
	Kube           bool
	Obj            string
	Export         []string
}

func (s Svc) term() string {
	return vlib.App("MkSvc", vlib.NI(s.Tag), s.T.z(), vlib.Str(s.Name), vlib.Str(s.Ns), vlib.Str(s.Host), vlib.B(s.Kube), vlib.Str(s.Obj))
}

const tagLabel = "verif-tag"

func (s Svc) real() *model.Service {
	reg := provider.External
	if s.Kube {
		reg = provider.Kubernetes
	}
	out := &model.Service{
		Hostname:     host.Name(s.Host),
		CreationTime: s.T.real(),
		Ports:        model.PortList{{Name: "http", Port: 80, Protocol: "HTTP"}},
		Attributes: model.ServiceAttributes{
			Name: s.Name, Namespace: s.Ns, ServiceRegistry: reg,
			Labels:        map[string]string{tagLabel: strconv.Itoa(s.Tag)},
			K8sAttributes: model.K8sAttributes{ObjectName: s.Obj},
		},
	}
	if s.Export != nil {
		out.Attributes.ExportTo = sets.New[visibility.Instance]()
		for _, e := range s.Export {
			out.Attributes.ExportTo.Insert(visibility.Instance(e))
		}
	}
	return out
}

func tagOf(s *model.Service) int {
	v, _ := strconv.Atoi(s.Attributes.Labels[tagLabel])
	return v
}

func svcKey(rule int, s Svc) string {
	k := s.T.z() + "|" + s.Name + "|" + s.Ns + "|" + s.Obj
	if rule == 0 {
		k += "|" + s.Host
	}
	return k
}

// genSvcList: keys unique; mode 1 additionally contains ServiceEntry-shaped duplicates of one
// (namespace, host, second) that differ only in ObjectName — the shape of the repaired finding C17-K6-svc-tie.
func genSvcList(r *vlib.Rand, rule, mode int) []Svc {
	n := 2 + r.Intn(7)
	var l []Svc
	seen := map[string]bool{}
	for len(l) < n {
		var s Svc
		if r.Chance(55) {
			// kubernetes-shaped: host derived from name and namespace
			s = Svc{T: genTime(r), Name: vlib.Pick(r, namePool), Ns: vlib.Pick(r, nsPool), Kube: true}
			s.Host = s.Name + "." + s.Ns + ".svc.cluster.local"
			s.Obj = s.Name
		} else {
			// ServiceEntry-shaped: Attributes.Name = hostname, ObjectName = the ServiceEntry
			h := vlib.Pick(r, hostPool)
			s = Svc{T: genTime(r), Name: h, Ns: vlib.Pick(r, nsPool), Host: h, Obj: "se-" + vlib.Pick(r, namePool)}
		}
		k := svcKey(rule, s)
		if seen[k] {
			continue
		}
		seen[k] = true
		l = append(l, s)
	}
	if mode == 1 {
		h := vlib.Pick(r, hostPool)
		ns := vlib.Pick(r, nsPool[:4])
		t := tm{Sec: baseSec + int64(r.Intn(3)), Zone: r.Intn(3)}
		d := 2 + r.Intn(2)
		for i := 0; i < d; i++ {
			t.Zone = r.Intn(3)
			l = append(l, Svc{T: t, Name: h, Ns: ns, Host: h, Obj: fmt.Sprintf("se-dup-%d", i)})
		}
		// shuffle so the duplicates are not adjacent at the end
		p := perm(r, len(l))
		l2 := make([]Svc, len(l))
		for i, j := range p {
			l2[i] = l[j]
		}
		l = l2
	}
	for i := range l {
		l[i].Tag = i + 1
	}
	return l
}

func realSortSvc(rule int, in []*model.Service) []*model.Service {
	cp := append([]*model.Service(nil), in...)
	if rule == 0 {
		return model.SortServicesByCreationTime(cp)
	}
	return serviceentry.VerifC17SortServicesByCreationTime(cp)
}

func tags(l []*model.Service) []int {
	out := make([]int, len(l))
	for i, s := range l {
		out[i] = tagOf(s)
	}
	return out
}

func permute[T any](l []T, p []int) []T {
	out := make([]T, len(p))
	for i, j := range p {
		out[i] = l[j]
	}
	return out
}

func genSortSvc(c *vlib.Collector, id *int, r *vlib.Rand, n int) {
	for k := 0; k < n; k++ {
		*id++
		rr := r.Sub()
		if !c.Wanted(*id) {
			continue
		}
		rule := rr.Intn(2)
		mode := 0
		if rule == 0 && rr.Chance(25) {
			mode = 1
		}
		l := genSvcList(rr, rule, mode)
		p := perm(rr, len(l))
		if mode == 1 || rr.Chance(30) {
			// reversal moves every tied pair
			for i := range p {
				p[i] = len(l) - 1 - i
			}
		}
		reals := make([]*model.Service, len(l))
		for i, s := range l {
			reals[i] = s.real()
		}
		out := tags(realSortSvc(rule, reals))
		out2 := tags(realSortSvc(rule, permute(reals, p)))
		tg := []string{"sortsvc", fmt.Sprintf("sortsvc-rule%d", rule), fmt.Sprintf("sortsvc-mode%d", mode)}
		c.Add(vlib.Case{ID: *id, Tags: tg,
			Term:   vlib.App("SortSvc", vlib.NI(*id), vlib.NI(rule), vlib.ListOf(l, Svc.term), natList(p), nList(out), nList(out2)),
			Sample: map[string]any{"kind": "SortSvc", "rule": rule, "services": l, "perm": p, "out": out, "out_permuted": out2}})
	}
}

// lt2 observes "cmp(a,b) < 0" of a sorter's comparator through a two-element sort of [b, a].
func ltSvc(rule int, a, b *model.Service) bool {
	out := realSortSvc(rule, []*model.Service{b, a})
	return out[0] == a
}

func sign3(lt, gt bool) int64 {
	if lt {
		return -1
	}
	if gt {
		return 1
	}
	return 0
}

func zList(xs []int64) string { return vlib.ListOf(xs, func(x int64) string { return vlib.Z(x) }) }

func genCmpSvc(c *vlib.Collector, id *int, r *vlib.Rand, n int) {
	for k := 0; k < n; k++ {
		*id++
		rr := r.Sub()
		if !c.Wanted(*id) {
			continue
		}
		rule := rr.Intn(2)
		mk := func(tag int) Svc {
			s := Svc{Tag: tag, T: genTime(rr), Name: vlib.Pick(rr, namePool[:5]), Ns: vlib.Pick(rr, nsPool[:3]), Obj: vlib.Pick(rr, namePool[:3]), Kube: rr.Bool()}
			s.Host = s.Name + ".x"
			if rr.Chance(40) {
				s.Host = vlib.Pick(rr, hostPool[:3])
			}
			return s
		}
		a, b, cc := mk(1), mk(2), mk(3)
		// bias towards near-equal triples
		if rr.Chance(50) {
			b.T = a.T
			b.T.Zone = rr.Intn(3)
			if rr.Chance(60) {
				b.Name = a.Name
			}
			if rr.Chance(60) {
				b.Ns = a.Ns
			}
			if rr.Chance(60) {
				b.Obj = a.Obj
			}
			if rr.Chance(60) {
				b.Host = a.Host
			}
		}
		if rr.Chance(50) {
			cc.T = b.T
			if rr.Chance(60) {
				cc.Name = b.Name
			}
			if rr.Chance(60) {
				cc.Ns = b.Ns
			}
			if rr.Chance(60) {
				cc.Obj = b.Obj
			}
			if rr.Chance(60) {
				cc.Host = b.Host
			}
		}
		ra, rb, rc, ra2 := a.real(), b.real(), cc.real(), a.real()
		pair := func(x, y *model.Service) (int64, int64) {
			l, g := ltSvc(rule, x, y), ltSvc(rule, y, x)
			return sign3(l, g), sign3(g, l)
		}
		ab, ba := pair(ra, rb)
		bc, cb := pair(rb, rc)
		ac, ca := pair(ra, rc)
		aa, _ := pair(ra, ra2)
		obs := []int64{ab, ba, bc, cb, ac, ca, aa}
		tg := []string{"cmpsvc", fmt.Sprintf("cmpsvc-rule%d", rule)}
		if ab == 0 || bc == 0 || ac == 0 {
			tg = append(tg, "cmpsvc-eq")
		}
		c.Add(vlib.Case{ID: *id, Tags: tg, Trivial: ab != 0 && bc != 0 && ac != 0 && a.T == b.T,
			Term:   vlib.App("CmpSvc", vlib.NI(*id), vlib.NI(rule), a.term(), b.term(), cc.term(), zList(obs)),
			Sample: map[string]any{"kind": "CmpSvc", "rule": rule, "a": a, "b": b, "c": cc, "signs": obs}})
	}
}

// ---------------------------------------------------------------- configs

type Cfg struct {
	Tag      int
	T        tm
	Name, Ns string
	Sel      bool
}

func (x Cfg) term() string {
	return vlib.App("MkCfg", vlib.NI(x.Tag), x.T.z(), vlib.Str(x.Name), vlib.Str(x.Ns), vlib.B(x.Sel))
}

func (x Cfg) real() config.Config {
	dr := &networking.DestinationRule{Host: "h"}
	if x.Sel {
		dr.WorkloadSelector = &typev1beta1.WorkloadSelector{MatchLabels: map[string]string{"app": "x"}}
	}
	return config.Config{
		Meta: config.Meta{GroupVersionKind: gvk.DestinationRule, Name: x.Name, Namespace: x.Ns,
			CreationTimestamp: x.T.real(), Annotations: map[string]string{tagLabel: strconv.Itoa(x.Tag)}},
		Spec: dr,
	}
}

func cfgTag(c config.Config) int {
	v, _ := strconv.Atoi(c.Annotations[tagLabel])
	return v
}

func realSortCfg(rule int, in []config.Config) []int {
	cp := append([]config.Config(nil), in...)
	var out []config.Config
	switch rule {
	case 0:
		out = model.VerifC17SortConfigByCreationTime(cp)
	case 1:
		ptrs := make([]*config.Config, len(cp))
		for i := range cp {
			ptrs[i] = &cp[i]
		}
		for _, p := range model.VerifC17SortMergedVirtualServices(ptrs) {
			out = append(out, *p)
		}
	default:
		out = model.VerifC17SortConfigBySelectorAndCreationTime(cp)
	}
	ts := make([]int, len(out))
	for i, x := range out {
		ts[i] = cfgTag(x)
	}
	return ts
}

func genCfgList(r *vlib.Rand, rule int, ties bool) []Cfg {
	n := 2 + r.Intn(8)
	if r.Chance(35) {
		n = 13 + r.Intn(20) // beyond the insertion-sort cutoff of pdqsort
	}
	var l []Cfg
	seen := map[string]bool{}
	names := namePool
	if n > 12 {
		names = nil
		for i := 0; i < 12; i++ {
			names = append(names, fmt.Sprintf("n%d", i))
		}
		names = append(names, namePool...)
	}
	for tries := 0; len(l) < n && tries < 400; tries++ {
		x := Cfg{T: genTime(r), Name: vlib.Pick(r, names), Ns: vlib.Pick(r, nsPool), Sel: rule == 2 && r.Chance(35)}
		k := x.Name + "|" + x.Ns
		if seen[k] && !ties {
			continue
		}
		if seen[k] {
			// malformed stream: same (namespace, name) twice, same second
			for _, y := range l {
				if y.Name == x.Name && y.Ns == x.Ns {
					x.T = y.T
					x.Sel = y.Sel
				}
			}
		}
		seen[k] = true
		l = append(l, x)
	}
	for i := range l {
		l[i].Tag = i + 1
	}
	return l
}

func genSortCfg(c *vlib.Collector, id *int, r *vlib.Rand, n int) {
	for k := 0; k < n; k++ {
		*id++
		rr := r.Sub()
		if !c.Wanted(*id) {
			continue
		}
		rule := rr.Intn(3)
		ties := rr.Chance(20)
		l := genCfgList(rr, rule, ties)
		p := perm(rr, len(l))
		reals := make([]config.Config, len(l))
		for i, x := range l {
			reals[i] = x.real()
		}
		out := realSortCfg(rule, reals)
		out2 := realSortCfg(rule, permute(reals, p))
		tg := []string{"sortcfg", fmt.Sprintf("sortcfg-rule%d", rule)}
		if ties {
			tg = append(tg, "sortcfg-malformed-ties")
		}
		if len(l) > 12 {
			tg = append(tg, "sortcfg-long")
		}
		c.Add(vlib.Case{ID: *id, Tags: tg,
			Term:   vlib.App("SortCfg", vlib.NI(*id), vlib.NI(rule), vlib.ListOf(l, Cfg.term), natList(p), nList(out), nList(out2)),
			Sample: map[string]any{"kind": "SortCfg", "rule": rule, "configs": l, "perm": p, "out": out, "out_permuted": out2}})
	}
}

func genCmpCfg(c *vlib.Collector, id *int, r *vlib.Rand, n int) {
	for k := 0; k < n; k++ {
		*id++
		rr := r.Sub()
		if !c.Wanted(*id) {
			continue
		}
		rule := []int{0, 2}[rr.Intn(2)]
		mk := func(tag int) Cfg {
			return Cfg{Tag: tag, T: genTime(rr), Name: vlib.Pick(rr, namePool), Ns: vlib.Pick(rr, nsPool), Sel: rule == 2 && rr.Bool()}
		}
		a, b, cc := mk(1), mk(2), mk(3)
		if rr.Chance(50) {
			b.T = a.T
			b.T.Zone = rr.Intn(3)
			if rr.Chance(60) {
				b.Name = a.Name
			}
			if rr.Chance(60) {
				b.Ns = a.Ns
			}
		}
		if rr.Chance(50) {
			cc.T = b.T
			if rr.Chance(60) {
				cc.Name = b.Name
			}
			if rr.Chance(60) {
				cc.Ns = b.Ns
			}
		}
		sg := func(x, y Cfg) int64 {
			if rule == 0 {
				v := model.VerifC17ConfigCompareByCreationTime(x.real(), y.real())
				return sign3(v < 0, v > 0)
			}
			// closure: observe through two-element sorts
			lt := realSortCfg(2, []config.Config{y.real(), x.real()})[0] == x.Tag && x.Tag != y.Tag
			gt := realSortCfg(2, []config.Config{x.real(), y.real()})[0] == y.Tag && x.Tag != y.Tag
			return sign3(lt, gt)
		}
		a2 := a
		a2.Tag = 9
		obs := []int64{sg(a, b), sg(b, a), sg(b, cc), sg(cc, b), sg(a, cc), sg(cc, a), sg(a, a2)}
		tg := []string{"cmpcfg", fmt.Sprintf("cmpcfg-rule%d", rule)}
		if obs[0] == 0 || obs[2] == 0 || obs[4] == 0 {
			tg = append(tg, "cmpcfg-eq")
		}
		c.Add(vlib.Case{ID: *id, Tags: tg,
			Term:   vlib.App("CmpCfg", vlib.NI(*id), vlib.NI(rule), a.term(), b.term(), cc.term(), zList(obs)),
			Sample: map[string]any{"kind": "CmpCfg", "rule": rule, "a": a, "b": b, "c": cc, "signs": obs}})
	}
}

// ---------------------------------------------------------------- the real initServiceRegistry

type sd struct {
	model.NetworkGatewaysHandler
	services []*model.Service
}

func (s *sd) Services() []*model.Service { return s.services }
func (s *sd) GetService(h host.Name) *model.Service {
	for _, x := range s.services {
		if x.Hostname == h {
			return x
		}
	}
	return nil
}
func (s *sd) GetProxyServiceTargets(*model.Proxy) []model.ServiceTarget { return nil }
func (s *sd) GetProxyWorkloadLabels(*model.Proxy) labels.Instance       { return nil }
func (s *sd) MCSServices() []model.MCSServiceInfo                        { return nil }
func (s *sd) NetworkGateways() []model.NetworkGateway                    { return nil }

var _ = cluster.ID("")

// buildPS runs the production initialisation (PushContext.InitContext) with env.Services() = svcs.
func buildPS(svcs []*model.Service) (*model.PushContext, func(), error) {
	env := model.NewEnvironment()
	env.Watcher = meshwatcher.NewTestWatcher(mesh.DefaultMeshConfig())
	stop := make(chan struct{})
	env.ServiceDiscovery = &sd{services: svcs}
	store := model.NewFakeStore()
	env.ConfigStore = store
	env.VirtualServiceController = model.NewVirtualServiceController(store, model.VSControllerOptions{KrtDebugger: krt.GlobalDebugHandler}, env.Watcher)
	go store.Run(stop)
	go env.VirtualServiceController.Run(stop)
	if !kube.WaitForCacheSync("c17", stop, store.HasSynced, env.VirtualServiceController.HasSynced) {
		close(stop)
		return nil, nil, fmt.Errorf("no sync")
	}
	env.Init()
	ps := model.NewPushContext()
	ps.InitContext(env, nil, nil)
	return ps, func() { close(stop) }, nil
}

type hostObs struct {
	Host, Ns string
	Tag      int
}

func observeIndex(ps *model.PushContext) []hostObs {
	var out []hostObs
	for h, m := range ps.ServiceIndex.HostnameAndNamespace {
		for ns, s := range m {
			out = append(out, hostObs{string(h), ns, tagOf(s)})
		}
	}
	sort.Slice(out, func(i, j int) bool {
		if out[i].Host != out[j].Host {
			return out[i].Host < out[j].Host
		}
		return out[i].Ns < out[j].Ns
	})
	return out
}

func hostObsTerm(o []hostObs) string {
	return vlib.ListOf(o, func(x hostObs) string {
		return vlib.Pair(vlib.Pair(vlib.Str(x.Host), vlib.Str(x.Ns)), vlib.NI(x.Tag))
	})
}

func genHostIdx(c *vlib.Collector, id *int, r *vlib.Rand, n int) {
	for k := 0; k < n; k++ {
		*id++
		rr := r.Sub()
		if !c.Wanted(*id) {
			continue
		}
		mode := 0
		if rr.Chance(30) {
			mode = 1
		}
		l := genSvcList(rr, 0, mode)
		// several services per (hostname, namespace) with distinct keys: ServiceEntries naming a kube host,
		// and ServiceEntries of one namespace naming one host at different times
		extra := rr.Intn(4)
		for i := 0; i < extra && len(l) > 0; i++ {
			b := l[rr.Intn(len(l))]
			x := Svc{T: tm{Sec: baseSec + 10 + int64(i) + int64(rr.Intn(2))*5, Zone: rr.Intn(3)}, Name: b.Host, Ns: b.Ns, Host: b.Host, Obj: fmt.Sprintf("se-x%d", i)}
			if rr.Chance(30) {
				x.T = tm{Sec: baseSec - 10 - int64(i)}
			}
			dup := false
			for _, y := range l {
				if svcKey(0, y) == svcKey(0, x) {
					dup = true
				}
			}
			if !dup {
				l = append(l, x)
			}
		}
		for i := range l {
			l[i].Tag = i + 1
		}
		p := perm(rr, len(l))
		if mode == 1 {
			for i := range p {
				p[i] = len(l) - 1 - i
			}
		}
		var obs, obs2 []hostObs
		pan, msg := vlib.Recover(func() {
			mk := func(order []Svc) []hostObs {
				reals := make([]*model.Service, len(order))
				for i, s := range order {
					reals[i] = s.real()
				}
				ps, done, err := buildPS(reals)
				if err != nil {
					panic(err)
				}
				defer done()
				return observeIndex(ps)
			}
			obs = mk(l)
			obs2 = mk(permute(l, p))
		})
		if pan {
			c.Violate(vlib.Violation{ID: *id, Kind: "panic", Detail: msg, Case: l})
			continue
		}
		multi := len(obs) < len(l)
		tg := []string{"hostidx", fmt.Sprintf("hostidx-mode%d", mode)}
		if multi {
			tg = append(tg, "hostidx-contended")
		}
		c.Add(vlib.Case{ID: *id, Tags: tg, Trivial: !multi,
			Term:   vlib.App("HostIdx", vlib.NI(*id), vlib.ListOf(l, Svc.term), natList(p), hostObsTerm(obs), hostObsTerm(obs2)),
			Sample: map[string]any{"kind": "HostIdx", "services": l, "perm": p, "winners": obs, "winners_permuted": obs2}})
	}
}

// ---------------------------------------------------------------- shard keys

func genShards(c *vlib.Collector, id *int, r *vlib.Rand, n int) {
	provs := []string{"Kubernetes", "External", "", "Memory"}
	clus := []string{"Kubernetes", "c1", "c2", "c10", "", "C1"}
	for k := 0; k < n; k++ {
		*id++
		rr := r.Sub()
		if !c.Wanted(*id) {
			continue
		}
		seen := map[model.ShardKey]bool{}
		var l []model.ShardKey
		for i := 0; i < 1+rr.Intn(7); i++ {
			sk := model.ShardKey{Provider: provider.ID(vlib.Pick(rr, provs)), Cluster: cluster.ID(vlib.Pick(rr, clus))}
			if !seen[sk] {
				seen[sk] = true
				l = append(l, sk)
			}
		}
		p := perm(rr, len(l))
		keys := func(order []model.ShardKey) []model.ShardKey {
			es := &model.EndpointShards{Shards: map[model.ShardKey][]*model.IstioEndpoint{}}
			for _, sk := range order {
				es.Shards[sk] = nil
			}
			return es.Keys()
		}
		pr := func(xs []model.ShardKey) string {
			return vlib.ListOf(xs, func(s model.ShardKey) string { return vlib.Pair(vlib.Str(string(s.Provider)), vlib.Str(string(s.Cluster))) })
		}
		out, out2 := keys(l), keys(permute(l, p))
		c.Add(vlib.Case{ID: *id, Tags: []string{"shards"}, Trivial: len(l) < 2,
			Term:   vlib.App("Shards", vlib.NI(*id), pr(l), natList(p), pr(out), pr(out2)),
			Sample: map[string]any{"kind": "Shards", "keys": l, "out": out, "out_permuted": out2}})
	}
}

// ---------------------------------------------------------------- namespace selection

type NSvc struct {
	Ns      string
	Visible bool
	Kube    bool
	T       tm
}

func (x NSvc) term() string {
	return vlib.App("MkNsvc", vlib.Str(x.Ns), vlib.B(x.Visible), vlib.B(x.Kube), x.T.z())
}

var emptyPS *model.PushContext

func genPickNs(t *testing.T, c *vlib.Collector, id *int, r *vlib.Rand, n int) {
	if emptyPS == nil {
		ps, _, err := buildPS(nil)
		if err != nil {
			t.Fatal(err)
		}
		emptyPS = ps
	}
	const configNs = "cfgns"
	for k := 0; k < n; k++ {
		*id++
		rr := r.Sub()
		if !c.Wanted(*id) {
			continue
		}
		best := rr.Chance(70)
		tie := best && rr.Chance(35)
		cnt := 1 + rr.Intn(4)
		nss := permute(nsPool, perm(rr, len(nsPool)))[:cnt]
		byNs := map[string]*model.Service{}
		var l []NSvc
		kubeUsed := false
		for i, ns := range nss {
			s := Svc{Tag: i + 1, Name: "h.example.com", Host: "h.example.com", Ns: ns, T: tm{Sec: baseSec + int64(i*3+rr.Intn(2)), Zone: rr.Intn(3)}}
			switch rr.Intn(5) {
			case 0:
				s.Export = []string{"~"}
			case 1:
				s.Export = []string{"other"}
			case 2:
				s.Export = []string{configNs, "other"}
			case 3:
				s.Export = []string{"*"}
			}
			// at most one Kubernetes service can own a hostname
			if !kubeUsed && rr.Chance(15) {
				s.Kube = true
				kubeUsed = true
			}
			if tie && i > 0 && !s.Kube {
				s.T = tm{Sec: l[0].T.Sec, Zone: rr.Intn(3)}
				s.Export = nil
			}
			if tie && i == 0 {
				s.Kube = false
				s.Export = nil
			}
			rs := s.real()
			byNs[ns] = rs
			l = append(l, NSvc{Ns: ns, Visible: emptyPS.IsServiceVisible(rs, configNs), Kube: s.Kube, T: s.T})
		}
		seen := map[string]bool{}
		for i := 0; i < 64; i++ {
			// a fresh map per call: iteration order is randomised per range statement anyway
			m := make(map[string]*model.Service, len(byNs))
			for _, j := range perm(rr, len(nss)) {
				m[nss[j]] = byNs[nss[j]]
			}
			var res string
			if best {
				res = model.VerifC17PickBestVisibleNamespace(emptyPS, m, configNs)
			} else {
				res = model.VerifC17PickFirstVisibleNamespace(emptyPS, m, configNs)
			}
			seen[res] = true
		}
		var obs []string
		for s := range seen {
			obs = append(obs, s)
		}
		sort.Strings(obs)
		// the shape of the repaired finding C17-pickbest-tie: >= 2 visible non-kube services share the minimal time
		tieShape := false
		if best {
			minCnt, kubeVis := 0, false
			var min *big.Int
			for _, x := range l {
				if !x.Visible {
					continue
				}
				if x.Kube {
					kubeVis = true
					continue
				}
				v := big.NewInt(x.T.real().Unix())
				if min == nil || v.Cmp(min) < 0 {
					min, minCnt = v, 1
				} else if v.Cmp(min) == 0 {
					minCnt++
				}
			}
			tieShape = minCnt >= 2 && !kubeVis
		}
		tg := []string{"pickns", fmt.Sprintf("pickns-best-%v", best)}
		if tieShape {
			tg = append(tg, "pickns-tie")
		}
		if len(obs) > 1 {
			tg = append(tg, "pickns-nondeterministic-observed")
		}
		c.Add(vlib.Case{ID: *id, Tags: tg, Trivial: cnt < 2,
			Term:   vlib.App("PickNs", vlib.NI(*id), vlib.B(best), vlib.ListOf(l, NSvc.term), vlib.ListOf(obs, vlib.Str)),
			Sample: map[string]any{"kind": "PickNs", "best": best, "byNamespace": l, "configNamespace": configNs, "distinct_results": obs}})
	}
}

// ---------------------------------------------------------------- virtual hosts

type VH struct {
	Tag     int
	Name    string
	Domains []string
}

func (v VH) term() string {
	return vlib.App("MkVh", vlib.NI(v.Tag), vlib.Str(v.Name), vlib.ListOf(v.Domains, vlib.Str))
}

type portVH struct {
	Port int
	VHs  []VH
}

func genMergeVh(c *vlib.Collector, id *int, r *vlib.Rand, n int) {
	ports := []int{80, 8080, 443, 9090, 7070}
	hosts := []string{"a.ns.svc.cluster.local", "b.example.com", "c", "*.wild.com"}
	for k := 0; k < n; k++ {
		*id++
		rr := r.Sub()
		if !c.Wanted(*id) {
			continue
		}
		np := 1 + rr.Intn(4)
		ps := permute(ports, perm(rr, len(ports)))[:np]
		var m []portVH
		tag := 0
		for _, p := range ps {
			pv := portVH{Port: p}
			for _, h := range permute(hosts, perm(rr, len(hosts)))[:1+rr.Intn(3)] {
				tag++
				v := VH{Tag: tag, Name: fmt.Sprintf("%s:%d", h, p)}
				// domains as buildSidecarOutboundVirtualHosts generates them: with and without port
				if rr.Chance(85) {
					v.Domains = append(v.Domains, h)
				}
				if rr.Chance(85) {
					v.Domains = append(v.Domains, fmt.Sprintf("%s:%d", h, p))
				}
				if rr.Chance(30) {
					v.Domains = append(v.Domains, "[::1]:"+strconv.Itoa(p), "10.0.0.1")
				}
				pv.VHs = append(pv.VHs, v)
			}
			m = append(m, pv)
		}
		build := func() map[int][]*route.VirtualHost {
			out := map[int][]*route.VirtualHost{}
			for _, j := range perm(rr, len(m)) {
				pv := m[j]
				for _, v := range pv.VHs {
					out[pv.Port] = append(out[pv.Port], &route.VirtualHost{Name: v.Name, Domains: append([]string(nil), v.Domains...),
						RequireTls: route.VirtualHost_TlsRequirementType(0), RetryPolicyTypedConfig: nil,
						ResponseHeadersToRemove: []string{strconv.Itoa(v.Tag)}})
				}
			}
			return out
		}
		type res struct {
			obs    []VH
			sorted []int
		}
		seen := map[string]res{}
		for i := 0; i < 48; i++ {
			merged := xdscore.VerifC17MergeAllVirtualHosts(build())
			var obs []VH
			var key strings.Builder
			for _, v := range merged {
				tg, _ := strconv.Atoi(v.ResponseHeadersToRemove[0])
				obs = append(obs, VH{Tag: tg, Name: v.Name, Domains: append([]string(nil), v.Domains...)})
				fmt.Fprintf(&key, "%d|%s|%s;", tg, v.Name, strings.Join(v.Domains, ","))
			}
			util.SortVirtualHosts(merged)
			var st []int
			for _, v := range merged {
				tg, _ := strconv.Atoi(v.ResponseHeadersToRemove[0])
				st = append(st, tg)
			}
			seen[key.String()] = res{obs, st}
		}
		keys := make([]string, 0, len(seen))
		for kx := range seen {
			keys = append(keys, kx)
		}
		sort.Strings(keys)
		var obsT, sortedT []string
		var sample []any
		for _, kx := range keys {
			obsT = append(obsT, vlib.ListOf(seen[kx].obs, VH.term))
			sortedT = append(sortedT, nList(seen[kx].sorted))
			sample = append(sample, map[string]any{"merged": seen[kx].obs, "after_SortVirtualHosts": seen[kx].sorted})
		}
		mt := vlib.ListOf(m, func(pv portVH) string { return vlib.Pair(vlib.Z(int64(pv.Port)), vlib.ListOf(pv.VHs, VH.term)) })
		tg := []string{"mergevh", fmt.Sprintf("mergevh-ports%d", np)}
		if len(keys) > 1 {
			tg = append(tg, "mergevh-raw-order-varies")
		}
		c.Add(vlib.Case{ID: *id, Tags: tg, Trivial: np < 2,
			Term:   vlib.App("MergeVh", vlib.NI(*id), mt, vlib.List(obsT), vlib.List(sortedT)),
			Sample: map[string]any{"kind": "MergeVh", "vHostPortMap": m, "distinct_outputs": sample}})
	}
}

// ---------------------------------------------------------------- TestGen

func TestGen(t *testing.T) {
	c := vlib.NewCollector("C17", "V.C17.Run")
	c.Rule = "layer (a): real SortServicesByCreationTime / serviceentry.sortServicesByCreationTime / sortConfigByCreationTime / " +
		"sortMergedVirtualServicesByCreationTime / sortConfigBySelectorAndCreationTime / EndpointShards.Keys / initServiceRegistry " +
		"(via PushContext.InitContext) / initSidecarScopes+getSidecarScope, AuthorizationPolicy/Telemetry/RequestAuthentication/PeerAuthentication per-namespace order " +
		"and PushContext.EnvoyFilters over a config store stub listing in chosen orders / pickBest+pickFirstVisibleNamespace / mergeAllVirtualHosts+SortVirtualHosts / EDS locality " +
		"grouping run on generated lists AND a permutation of them (small pools so that ties on every key prefix are common; " +
		"zero times, sub-second times, three time zones; lists beyond pdqsort's insertion cutoff), comparator sign laws on triples; " +
		"layer (b) EXPLORATION: digests of every CDS/LDS/RDS/EDS resource of sidecar and router proxies on the fake discovery " +
		"server for repeated generation and for permuted insertion orders of the same objects (world shapes: clean, k6 = same-namespace same-host same-second ServiceEntries, pickbest, sharedvip, httpproxy — the shapes of the repaired findings, untagged). non-trivial = ties or contended " +
		"hosts or >= 2 ports/namespaces/localities"
	features.SidecarPickBestServiceNamespace = true
	r := vlib.NewRand(vlib.Seed())
	id := 0
	genSortSvc(c, &id, r.Sub(), vlib.Scale(90, 1500))
	genCmpSvc(c, &id, r.Sub(), vlib.Scale(90, 1500))
	genSortCfg(c, &id, r.Sub(), vlib.Scale(90, 1500))
	genCmpCfg(c, &id, r.Sub(), vlib.Scale(90, 1500))
	genShards(c, &id, r.Sub(), vlib.Scale(25, 800))
	genPickNs(t, c, &id, r.Sub(), vlib.Scale(60, 1200))
	genMergeVh(c, &id, r.Sub(), vlib.Scale(30, 600))
	genHostIdx(c, &id, r.Sub(), vlib.Scale(24, 300))
	genSidecarPick(c, &id, r.Sub(), vlib.Scale(40, 600))
	genCallSite(c, &id, r.Sub(), vlib.Scale(40, 600))
	genEnvoyF(c, &id, r.Sub(), vlib.Scale(20, 300))
	genHostMatch(c, &id, r.Sub(), vlib.Scale(40, 600))
	genLocality(t, c, &id, r.Sub(), vlib.Scale(12, 120))
	genDirect(t, c, &id, r.Sub(), vlib.Scale(7, 42))
	if err := c.Flush(); err != nil {
		t.Fatal(err)
	}
}
