//go:build verif

package c17

import (
	"crypto/sha256"
	"encoding/binary"
	"fmt"
	"os"
	"sort"
	"strings"
	"testing"
	"time"

	clusterv3 "github.com/envoyproxy/go-control-plane/envoy/config/cluster/v3"
	listenerv3 "github.com/envoyproxy/go-control-plane/envoy/config/listener/v3"
	discovery "github.com/envoyproxy/go-control-plane/envoy/service/discovery/v3"
	"google.golang.org/protobuf/encoding/prototext"
	"google.golang.org/protobuf/proto"

	networking "istio.io/api/networking/v1alpha3"
	"istio.io/istio/pilot/pkg/model"
	"istio.io/istio/pilot/pkg/networking/util"
	"istio.io/istio/pilot/pkg/xds/endpoints"
	xdscore "istio.io/istio/pilot/pkg/networking/core"
	v3 "istio.io/istio/pilot/pkg/xds/v3"
	"istio.io/istio/pilot/test/xds"
	"istio.io/istio/pkg/config"
	"istio.io/istio/pkg/config/schema/gvk"
	"istio.io/istio/pkg/util/sets"
	"verif/harness/vlib"
)

// ---------------------------------------------------------------- layer (b): EXPLORATION on the fake discovery server

// Abstract world: everything needed to rebuild the same objects in any order.
type SE struct {
	Name, Ns string
	Hosts    []string
	Ports    []int // 80 http, 8080 http, 9000 tcp, 443 tls
	DNS      bool
	Eps      []EP
	Addr     string
	TS       int64
}
type EP struct {
	Addr, Loc string
	Ver       string
}
type VS struct {
	Name, Ns string
	Host     string
	Dest     string
	Port     int
	Gateway  bool
	TS       int64
	Prefix   string
	TLS      [][]string // tls routes instead of http: one entry per tls match = its sniHosts (in that order)
	Subnets  [][]string // destinationSubnets per tls match
	Hosts    []string   // all VS hosts when TLS is used
}
type DR struct {
	Name, Ns string
	Host     string
	Subsets  bool
	LB       int
	TS       int64
}
type SC struct {
	Name, Ns string
	Sel      map[string]string
	Hosts    []string
	TS       int64
}
type World struct {
	SCs       []SC
	Mode      string // clean | k6 | pickbest | sharedvip | httpproxy | sidecars
	SEs       []SE
	VSs       []VS
	DRs       []DR
	HTTPProxy bool
	Gateway   bool
}

var dHosts = []string{"a.example.com", "b.example.com", "c.example.com", "d.example.com"}
var dLocs = []string{"r1/z1/s1", "r1/z2/s1", "r2/z1/s1", "r1/z1/s2", "r10/z1/s1", ""}
var dNs = []string{"ns1", "ns2", "ns3"}

func portSpec(p int) *networking.ServicePort {
	switch p {
	case 80:
		return &networking.ServicePort{Number: 80, Name: "http", Protocol: "HTTP"}
	case 8080:
		return &networking.ServicePort{Number: 8080, Name: "http-alt", Protocol: "HTTP"}
	case 9000:
		return &networking.ServicePort{Number: 9000, Name: "tcp", Protocol: "TCP"}
	}
	return &networking.ServicePort{Number: 443, Name: "tls", Protocol: "TLS"}
}

func ts(x int64) time.Time { return time.Unix(baseSec+x, 0).UTC() }

func (w World) configs() []config.Config {
	var out []config.Config
	for _, s := range w.SEs {
		se := &networking.ServiceEntry{Hosts: s.Hosts, Location: networking.ServiceEntry_MESH_INTERNAL, Resolution: networking.ServiceEntry_STATIC}
		if s.DNS {
			se.Resolution = networking.ServiceEntry_DNS
			se.Location = networking.ServiceEntry_MESH_EXTERNAL
		}
		if s.Addr != "" {
			se.Addresses = []string{s.Addr}
		}
		for _, p := range s.Ports {
			se.Ports = append(se.Ports, portSpec(p))
		}
		for _, e := range s.Eps {
			se.Endpoints = append(se.Endpoints, &networking.WorkloadEntry{Address: e.Addr, Locality: e.Loc, Labels: map[string]string{"version": e.Ver, "app": s.Name}})
		}
		out = append(out, config.Config{Meta: config.Meta{GroupVersionKind: gvk.ServiceEntry, Name: s.Name, Namespace: s.Ns, CreationTimestamp: ts(s.TS)}, Spec: se})
	}
	for _, v := range w.VSs {
		vs := &networking.VirtualService{Hosts: []string{v.Host}}
		if v.Gateway {
			vs.Gateways = []string{"ns2/gw"}
		}
		if len(v.TLS) > 0 {
			vs.Hosts = v.Hosts
			for i, sni := range v.TLS {
				m := &networking.TLSMatchAttributes{Port: 443, SniHosts: append([]string(nil), sni...)}
				if i < len(v.Subnets) {
					m.DestinationSubnets = append([]string(nil), v.Subnets[i]...)
				}
				vs.Tls = append(vs.Tls, &networking.TLSRoute{Match: []*networking.TLSMatchAttributes{m},
					Route: []*networking.RouteDestination{{Destination: &networking.Destination{Host: v.Hosts[i%len(v.Hosts)], Port: &networking.PortSelector{Number: 443}}}}})
			}
			out = append(out, config.Config{Meta: config.Meta{GroupVersionKind: gvk.VirtualService, Name: v.Name, Namespace: v.Ns, CreationTimestamp: ts(v.TS)}, Spec: vs})
			continue
		}
		vs.Http = []*networking.HTTPRoute{{
			Name:  v.Name,
			Match: []*networking.HTTPMatchRequest{{Uri: &networking.StringMatch{MatchType: &networking.StringMatch_Prefix{Prefix: v.Prefix}}}},
			Route: []*networking.HTTPRouteDestination{{Destination: &networking.Destination{Host: v.Dest, Port: &networking.PortSelector{Number: uint32(v.Port)}}}},
		}}
		out = append(out, config.Config{Meta: config.Meta{GroupVersionKind: gvk.VirtualService, Name: v.Name, Namespace: v.Ns, CreationTimestamp: ts(v.TS)}, Spec: vs})
	}
	for _, d := range w.DRs {
		dr := &networking.DestinationRule{Host: d.Host}
		switch d.LB {
		case 1:
			dr.TrafficPolicy = &networking.TrafficPolicy{LoadBalancer: &networking.LoadBalancerSettings{LbPolicy: &networking.LoadBalancerSettings_Simple{Simple: networking.LoadBalancerSettings_ROUND_ROBIN}}}
		case 2:
			dr.TrafficPolicy = &networking.TrafficPolicy{LoadBalancer: &networking.LoadBalancerSettings{LbPolicy: &networking.LoadBalancerSettings_Simple{Simple: networking.LoadBalancerSettings_RANDOM}},
				ConnectionPool: &networking.ConnectionPoolSettings{Tcp: &networking.ConnectionPoolSettings_TCPSettings{MaxConnections: 7}}}
		}
		if d.Subsets {
			// declared out of alphabetical order
			dr.Subsets = []*networking.Subset{{Name: "v2-" + d.Name, Labels: map[string]string{"version": "v2"}}, {Name: "v1", Labels: map[string]string{"version": "v1"}},
				{Name: "a0", Labels: map[string]string{"version": "v1"}}}
		}
		out = append(out, config.Config{Meta: config.Meta{GroupVersionKind: gvk.DestinationRule, Name: d.Name, Namespace: d.Ns, CreationTimestamp: ts(d.TS)}, Spec: dr})
	}
	for _, x := range w.SCs {
		sc := &networking.Sidecar{Egress: []*networking.IstioEgressListener{{Hosts: x.Hosts}}}
		if x.Sel != nil {
			sc.WorkloadSelector = &networking.WorkloadSelector{Labels: x.Sel}
		}
		out = append(out, config.Config{Meta: config.Meta{GroupVersionKind: gvk.Sidecar, Name: x.Name, Namespace: x.Ns, CreationTimestamp: ts(x.TS)}, Spec: sc})
	}
	if w.HTTPProxy {
		sc := &networking.Sidecar{Egress: []*networking.IstioEgressListener{
			{Port: &networking.SidecarPort{Number: 3128, Protocol: "HTTP_PROXY", Name: "proxy"}, Hosts: []string{"*/*"}},
			{Hosts: []string{"*/*"}},
		}}
		out = append(out, config.Config{Meta: config.Meta{GroupVersionKind: gvk.Sidecar, Name: "default", Namespace: "ns1", CreationTimestamp: ts(0)}, Spec: sc})
	}
	if w.Gateway {
		gw := &networking.Gateway{Selector: map[string]string{"istio": "ingressgateway"}, Servers: []*networking.Server{
			{Port: &networking.Port{Number: 80, Name: "http", Protocol: "HTTP"}, Hosts: []string{"*"}},
		}}
		out = append(out, config.Config{Meta: config.Meta{GroupVersionKind: gvk.Gateway, Name: "gw", Namespace: "ns2", CreationTimestamp: ts(0)}, Spec: gw})
	}
	return out
}

func genWorld(r *vlib.Rand, mode string) World {
	// the HTTP_PROXY egress listener (route "3128" built with listenerPort 0) only in mode "httpproxy"
	w := World{Mode: mode, HTTPProxy: mode == "httpproxy", Gateway: r.Chance(60)}
	sameTS := r.Chance(70)
	tsOf := func() int64 {
		if sameTS {
			return 0
		}
		return int64(r.Intn(3))
	}
	used := map[string]bool{}    // host|ns
	hostTS := map[string]bool{}  // host|ts (cross-namespace equal-age duplicates of a host)
	n := 3 + r.Intn(4)
	addrN := 0
	mkSE := func(i int, ns string, hosts []string, t int64) SE {
		s := SE{Name: fmt.Sprintf("se%d", i), Ns: ns, Hosts: hosts, TS: t, DNS: r.Chance(25)}
		ports := []int{80, 8080, 9000, 443}
		s.Ports = permute(ports, perm(r, 4))[:1+r.Intn(3)]
		if r.Chance(60) {
			addrN++
			s.Addr = fmt.Sprintf("240.1.0.%d", addrN)
		}
		for j := 0; j < 1+r.Intn(5); j++ {
			e := EP{Addr: fmt.Sprintf("10.%d.%d.%d", i, r.Intn(3), j+1), Loc: vlib.Pick(r, dLocs), Ver: []string{"v1", "v2"}[r.Intn(2)]}
			if s.DNS {
				e.Addr = fmt.Sprintf("ep%d-%d.example.org", i, j)
			}
			s.Eps = append(s.Eps, e)
		}
		return s
	}
	for i := 0; i < n; i++ {
		ns := vlib.Pick(r, dNs)
		var hosts []string
		t := tsOf()
		for _, h := range permute(dHosts, perm(r, len(dHosts)))[:1+r.Intn(2)] {
			if used[h+"|"+ns] || hostTS[fmt.Sprintf("%s|%d", h, t)] {
				continue
			}
			hosts = append(hosts, h)
		}
		if len(hosts) == 0 {
			continue
		}
		for _, h := range hosts {
			used[h+"|"+ns] = true
			hostTS[fmt.Sprintf("%s|%d", h, t)] = true
		}
		se := mkSE(i, ns, hosts, t)
		if len(hosts) > 1 {
			// the address of a multi-host ServiceEntry is a domain shared by its virtual hosts: only in mode "sharedvip"
			se.Addr = ""
		}
		w.SEs = append(w.SEs, se)
	}
	switch mode {
	case "sidecars":
		// equal-age Sidecars of the proxy's namespace that all apply to the proxy (labels app=x)
		names := permute([]string{"by-app", "all-ns2", "zz-ns3", "a-local"}, perm(r, 4))
		w.SCs = append(w.SCs,
			SC{Name: names[0], Ns: "ns1", Sel: map[string]string{"app": "x"}, Hosts: []string{"ns2/*"}, TS: 0},
			SC{Name: names[1], Ns: "ns1", Sel: map[string]string{"app": "x"}, Hosts: []string{"ns3/*"}, TS: 0},
			SC{Name: names[2], Ns: "ns1", Hosts: []string{"./*"}, TS: 0},
			SC{Name: names[3], Ns: "ns1", Hosts: []string{"*/*"}, TS: 0})
	case "tlsvs":
		// a TLS ServiceEntry and a VirtualService with several tls matches on one port whose sniHosts /
		// destinationSubnets are unsorted permutations of each other
		se := mkSE(50, "ns1", []string{"t1.example.com", "t2.example.com"}, 0)
		se.Ports = []int{443}
		se.DNS = true
		se.Addr = ""
		w.SEs = append(w.SEs, se)
		w.VSs = append(w.VSs, VS{Name: "vs-tls", Ns: "ns1", TS: 0, Hosts: []string{"t1.example.com", "t2.example.com"},
			TLS:     [][]string{{"t2.example.com", "t1.example.com"}, {"t1.example.com", "t2.example.com"}, {"t2.example.com"}},
			Subnets: [][]string{{"10.9.0.0/16", "10.1.0.0/16"}, {"10.1.0.0/16", "10.9.0.0/16"}, nil}})
	case "sharedvip":
		// one ServiceEntry with an address, two hosts, an HTTP port and no VirtualService for them
		s := mkSE(40, vlib.Pick(r, dNs), []string{"v1.shared.example.com", "v2.shared.example.com"}, 0)
		s.Ports = []int{8080, 9000}
		s.Addr = "240.2.0.1"
		s.DNS = false
		w.SEs = append(w.SEs, s)
	case "k6":
		// two or three ServiceEntries of one namespace naming one host, created in the same second
		ns := vlib.Pick(r, dNs)
		for j := 0; j < 2+r.Intn(2); j++ {
			s := mkSE(20+j, ns, []string{"dup.example.com"}, 1)
			s.Ports = [][]int{{80}, {8080, 9000}, {443, 80}}[j]
			s.DNS = false
			w.SEs = append(w.SEs, s)
		}
		w.VSs = append(w.VSs, VS{Name: "vs-dup", Ns: "ns1", Host: "dup.example.com", Dest: "dup.example.com", Port: 80, Prefix: "/", TS: 0})
	case "pickbest":
		// one host in two namespaces other than the proxy's, same second; a VirtualService of the proxy's namespace routes to it
		for j, ns := range []string{"ns2", "ns3"} {
			s := mkSE(30+j, ns, []string{"pb.example.com"}, 2)
			s.Ports = [][]int{{80}, {80, 9000}}[j]
			s.DNS = false
			w.SEs = append(w.SEs, s)
		}
		w.VSs = append(w.VSs, VS{Name: "vs-pb", Ns: "ns1", Host: "front.example.com", Dest: "pb.example.com", Port: 80, Prefix: "/", TS: 0})
	}
	// virtual services: up to two per host, equal ages
	hostsUsed := map[string]bool{}
	for _, s := range w.SEs {
		for _, h := range s.Hosts {
			hostsUsed[h] = true
		}
	}
	var hl []string
	for h := range hostsUsed {
		hl = append(hl, h)
	}
	sort.Strings(hl)
	for i, h := range hl {
		if h == "dup.example.com" || h == "pb.example.com" || strings.HasSuffix(h, ".shared.example.com") || h == "t1.example.com" || h == "t2.example.com" {
			continue
		}
		for j := 0; j < r.Intn(3); j++ {
			w.VSs = append(w.VSs, VS{Name: fmt.Sprintf("vs%d-%d", i, j), Ns: vlib.Pick(r, dNs), Host: h, Dest: vlib.Pick(r, hl), Port: 80,
				Gateway: w.Gateway && r.Chance(40), TS: tsOf(), Prefix: fmt.Sprintf("/p%d", j)})
		}
		for j := 0; j < r.Intn(3); j++ {
			w.DRs = append(w.DRs, DR{Name: fmt.Sprintf("dr%d-%d", i, j), Ns: dNs[(i+j)%3], Host: h, Subsets: r.Chance(60), LB: r.Intn(3), TS: tsOf()})
		}
	}
	// routes to pb/dup destinations must not come from the random pick in clean mode (they do not exist there)
	return w
}

type digest struct {
	Kind, Name string
	Sum        uint64
}

func sum64(b []byte) uint64 {
	h := sha256.Sum256(b)
	return binary.BigEndian.Uint64(h[:8]) >> 1
}

type gen struct {
	text    map[string]string // only with C17_DUMP: kind/name -> prototext
	content []digest    // sorted by (kind, name)
	order   [4][]string // resource names in response order: cds, lds, rds, eds
}

var typNames = []string{"cds", "lds", "rds", "eds"}

func generateAll(s *xds.FakeDiscoveryServer, p *model.Proxy) gen {
	var g gen
	push := s.PushContext()
	req := &model.PushRequest{Push: push, Start: time.Now(), Forced: true}
	if os.Getenv("C17_DUMP") != "" {
		g.text = map[string]string{}
	}
	put := func(typ int, rs []*discovery.Resource) {
		for _, r := range rs {
			b, _ := proto.MarshalOptions{Deterministic: true}.Marshal(r.Resource)
			if g.text != nil {
				if m, err := r.Resource.UnmarshalNew(); err == nil {
					g.text[typNames[typ]+"/"+r.Name] = prototext.Format(m)
				}
			}
			g.content = append(g.content, digest{typNames[typ], r.Name, sum64(b)})
			g.order[typ] = append(g.order[typ], r.Name)
		}
	}
	// every type through the generators of the discovery server: they share the (enabled) XDS cache, so a second
	// generation without ClearAll is served from the cache where the generator caches
	clusters, _, _ := s.Discovery.Generators[v3.ClusterType].Generate(p, &model.WatchedResource{TypeUrl: v3.ClusterType}, req)
	put(0, clusters)
	var edsNames []string
	for _, r := range clusters {
		c := &clusterv3.Cluster{}
		if err := r.Resource.UnmarshalTo(c); err == nil && c.GetEdsClusterConfig() != nil {
			edsNames = append(edsNames, c.Name)
		}
	}
	lres, _, _ := s.Discovery.Generators[v3.ListenerType].Generate(p, &model.WatchedResource{TypeUrl: v3.ListenerType}, req)
	put(1, lres)
	var ls []*listenerv3.Listener
	for _, r := range lres {
		l := &listenerv3.Listener{}
		if err := r.Resource.UnmarshalTo(l); err == nil {
			ls = append(ls, l)
		}
	}
	routeNames := xdscore.ExtractRoutesFromListeners(ls)
	wr := &model.WatchedResource{TypeUrl: v3.RouteType, ResourceNames: sets.New(routeNames...)}
	routes, _, _ := s.Discovery.Generators[v3.RouteType].Generate(p, wr, req)
	put(2, routes)
	w := &model.WatchedResource{TypeUrl: v3.EndpointType, ResourceNames: sets.New(edsNames...)}
	eps, _, _ := s.Discovery.Generators[v3.EndpointType].Generate(p, w, req)
	put(3, eps)
	sort.SliceStable(g.content, func(i, j int) bool {
		if g.content[i].Kind != g.content[j].Kind {
			return g.content[i].Kind < g.content[j].Kind
		}
		return g.content[i].Name < g.content[j].Name
	})
	return g
}

// inputDigests hashes every input object generation reads: the Spec of every config in the store and of the
// VirtualService copies held by the push context.  Generation must not write to them.
func inputDigests(s *xds.FakeDiscoveryServer) []digest {
	var out []digest
	add := func(kind string, c *config.Config) {
		m, ok := c.Spec.(proto.Message)
		if !ok {
			return
		}
		// Deterministic only orders map keys: the order of repeated fields (sniHosts, destinationSubnets, ...) is kept
		b, _ := proto.MarshalOptions{Deterministic: true}.Marshal(m)
		out = append(out, digest{kind, c.Namespace + "/" + c.Name, sum64(b)})
	}
	for _, k := range []config.GroupVersionKind{gvk.ServiceEntry, gvk.VirtualService, gvk.DestinationRule, gvk.Sidecar, gvk.Gateway} {
		l := s.Store().List(k, "")
		for i := range l {
			add("store-"+k.Kind, &l[i])
		}
	}
	ps := s.PushContext()
	for _, ns := range dNs {
		for _, gw := range []string{"mesh", "ns2/gw"} {
			for _, vs := range ps.VirtualServicesForGateway(ns, gw) {
				add("push-vs-"+ns+"-"+gw, vs)
			}
		}
	}
	sort.SliceStable(out, func(i, j int) bool {
		if out[i].Kind != out[j].Kind {
			return out[i].Kind < out[j].Kind
		}
		return out[i].Name < out[j].Name
	})
	return out
}

func digestsTerm(ds []digest) string {
	return vlib.ListOf(ds, func(d digest) string {
		return vlib.Pair(vlib.N(sum64([]byte(d.Kind+"/"+d.Name))), vlib.N(d.Sum))
	})
}

func firstDiff(a, b []digest) string {
	for i := 0; i < len(a) || i < len(b); i++ {
		switch {
		case i >= len(a):
			return fmt.Sprintf("position %d: only in second run: %s/%s", i, b[i].Kind, b[i].Name)
		case i >= len(b):
			return fmt.Sprintf("position %d: only in first run: %s/%s", i, a[i].Kind, a[i].Name)
		case a[i].Kind != b[i].Kind || a[i].Name != b[i].Name:
			return fmt.Sprintf("position %d: order/name differs: %s/%s vs %s/%s", i, a[i].Kind, a[i].Name, b[i].Kind, b[i].Name)
		case a[i].Sum != b[i].Sum:
			return fmt.Sprintf("position %d: bytes differ for %s/%s", i, a[i].Kind, a[i].Name)
		}
	}
	return ""
}

func proxies(s *xds.FakeDiscoveryServer, w World) []*model.Proxy {
	out := []*model.Proxy{s.SetupProxy(&model.Proxy{ID: "app.ns1", ConfigNamespace: "ns1", Labels: map[string]string{"app": "x"},
		Metadata: &model.NodeMetadata{Namespace: "ns1", Labels: map[string]string{"app": "x"}}, IPAddresses: []string{"10.9.9.9"},
		Locality: nil})}
	if w.Gateway {
		out = append(out, s.SetupProxy(&model.Proxy{ID: "gw.ns2", Type: model.Router, ConfigNamespace: "ns2", Labels: map[string]string{"istio": "ingressgateway"},
			Metadata: &model.NodeMetadata{Namespace: "ns2", Labels: map[string]string{"istio": "ingressgateway"}}, IPAddresses: []string{"10.9.9.8"}}))
	}
	return out
}

const idsPerWorld = 17

func namesTerm(ns []string) string {
	return vlib.ListOf(ns, func(n string) string { return vlib.N(sum64([]byte(n))) })
}

func sameStrings(a, b []string) bool {
	if len(a) != len(b) {
		return false
	}
	for i := range a {
		if a[i] != b[i] {
			return false
		}
	}
	return true
}


func genDirect(t *testing.T, c *vlib.Collector, id *int, r *vlib.Rand, n int) {
	modes := []string{"tlsvs", "sidecars", "k6", "httpproxy", "pickbest", "sharedvip", "clean"}
	for k := 0; k < n; k++ {
		rr := r.Sub()
		mode := modes[k%len(modes)]
		// ids per world: 2 proxies x (1 repeated + 2 permuted + 4 response orders), allocated whether or not wanted
		base := *id
		*id += idsPerWorld
		wanted := false
		for i := 1; i <= idsPerWorld; i++ {
			wanted = wanted || c.Wanted(base+i)
		}
		if !wanted {
			continue
		}
		w := genWorld(rr, mode)
		cfgs := w.configs()
		var ref []gen
		var refOrder []string
		order := func(cs []config.Config) []string {
			var o []string
			for _, x := range cs {
				o = append(o, x.GroupVersionKind.Kind+"/"+x.Namespace+"/"+x.Name)
			}
			return o
		}
		pan, msg := vlib.Recover(func() {
			s := xds.NewFakeDiscoveryServer(t, xds.FakeOptions{Configs: cfgs})
			ps := proxies(s, w)
			refOrder = order(cfgs)
			before := inputDigests(s)
			defer func() {
				// generation must not have written to its inputs (store objects, push context copies)
				after := inputDigests(s)
				mid := base + 17
				tg := []string{"inputs", "inputs-" + mode}
				sample := map[string]any{"kind": "Direct", "exploration": true, "what": "digests of every input object (store Specs, push context VirtualServices) before and after all generations", "mode": mode, "world": w}
				if d := firstDiff(before, after); d != "" {
					sample["difference"] = "input mutated by generation: " + d
					tg = append(tg, "inputs-mutated")
				}
				c.Add(vlib.Case{ID: mid, Tags: tg, Term: vlib.App("Direct", vlib.NI(mid), vlib.NI(2), digestsTerm(before), digestsTerm(after)), Sample: sample})
			}()
			for pi, p := range ps {
				s.Discovery.Cache.ClearAll()
				a := generateAll(s, p)
				ref = append(ref, a)
				// (0) second generation served through the warm cache
				{
					wg := generateAll(s, p)
					wid := base + 4 + pi*8
					tg := []string{"direct", "direct-warm", "direct-" + mode}
					sample := map[string]any{"kind": "Direct", "exploration": true, "what": "cold (cache empty) vs warm (second generation, cache filled) on one server", "mode": mode, "proxy": p.ID, "world": w, "resources": len(a.content)}
					d := firstDiff(a.content, wg.content)
					if d == "" {
						for typ := 0; typ < 4 && d == ""; typ++ {
							if !sameStrings(a.order[typ], wg.order[typ]) {
								d = fmt.Sprintf("%s response order differs cold vs warm: %v vs %v", typNames[typ], a.order[typ], wg.order[typ])
							}
						}
					}
					if d != "" {
						sample["difference"] = d
						tg = append(tg, "direct-differs")
						dumpDiff(wid, a, wg)
					}
					// content digests followed by the response order of every type
					ta, tb := digestsTerm(a.content), digestsTerm(wg.content)
					oa, ob := orderDigests(a), orderDigests(wg)
					c.Add(vlib.Case{ID: wid, Tags: tg, Term: vlib.App("Direct", vlib.NI(wid), vlib.NI(3), "("+ta+" ++ "+oa+")", "("+tb+" ++ "+ob+")"), Sample: sample})
				}
				// (i) repeated generation in one process, caches dropped
				s.Discovery.Cache.ClearAll()
				b := generateAll(s, s.SetupProxy(p))
				cid := base + 1 + pi*8
				tg := []string{"direct", "direct-repeat", "direct-" + mode}
				sample := map[string]any{"kind": "Direct", "exploration": true, "what": "repeated generation on one server", "mode": mode, "proxy": p.ID, "world": w, "resources": len(a.content)}
				if d := firstDiff(a.content, b.content); d != "" {
					sample["difference"] = d
					tg = append(tg, "direct-differs")
					dumpDiff(cid, a, b)
				}
				c.Add(vlib.Case{ID: cid, Tags: tg, Term: vlib.App("Direct", vlib.NI(cid), vlib.NI(0), digestsTerm(a.content), digestsTerm(b.content)), Sample: sample})
				// response order per type, several regenerations against the first
				for typ := 0; typ < 4; typ++ {
					oid := base + 5 + typ + pi*8
					second := b.order[typ]
					for i := 0; i < 6 && sameStrings(a.order[typ], second); i++ {
						s.Discovery.Cache.ClearAll()
						second = generateAll(s, s.SetupProxy(p)).order[typ]
					}
					otg := []string{"order", "order-" + typNames[typ]}
					if !sameStrings(a.order[typ], second) {
						otg = append(otg, "order-"+typNames[typ]+"-varies")
					}
					c.Add(vlib.Case{ID: oid, Tags: otg, Trivial: len(a.order[typ]) < 2,
						Term: vlib.App("Order", vlib.NI(oid), vlib.NI(typ), namesTerm(a.order[typ]), namesTerm(second)),
						Sample: map[string]any{"kind": "Order", "exploration": true, "type": typNames[typ], "mode": mode, "proxy": p.ID, "world": w,
							"first": a.order[typ], "second": second}})
				}
			}
			// (ii) the same objects inserted in other orders into fresh servers
			for v := 0; v < 2; v++ {
				pc := permute(cfgs, perm(rr, len(cfgs)))
				if v == 1 {
					pc = permute(cfgs, func() []int {
						p := make([]int, len(cfgs))
						for i := range p {
							p[i] = len(cfgs) - 1 - i
						}
						return p
					}())
				}
				s2 := xds.NewFakeDiscoveryServer(t, xds.FakeOptions{Configs: pc})
				for pi, p := range proxies(s2, w) {
					b := generateAll(s2, p)
					cid := base + 2 + v + pi*8
					tg := []string{"direct", "direct-permuted", "direct-" + mode}
					sample := map[string]any{"kind": "Direct", "exploration": true, "what": "same objects, permuted insertion order, fresh server", "mode": mode, "proxy": p.ID,
						"world": w, "order_first": refOrder, "order_second": order(pc), "resources": len(b.content)}
					if d := firstDiff(ref[pi].content, b.content); d != "" {
						sample["difference"] = d
						if b.text != nil {
							for k, v := range ref[pi].text {
								if b.text[k] != v {
									f := fmt.Sprintf("%s/dump_%d_%s", vlib.OutDir(), cid, strings.NewReplacer("/", "_", "|", "_").Replace(k))
									_ = os.WriteFile(f+"_first.txt", []byte(v), 0o644)
									_ = os.WriteFile(f+"_second.txt", []byte(b.text[k]), 0o644)
								}
							}
						}
						tg = append(tg, "direct-differs")
					}
						c.Add(vlib.Case{ID: cid, Tags: tg, Term: vlib.App("Direct", vlib.NI(cid), vlib.NI(1), digestsTerm(ref[pi].content), digestsTerm(b.content)), Sample: sample})
				}
			}
		})
		if pan {
			c.Violate(vlib.Violation{ID: base + 1, Kind: "panic", Detail: msg, Case: w})
		}
	}
}


// ---------------------------------------------------------------- layer (a): locality grouping of the real EDS builder

func genLocality(t *testing.T, c *vlib.Collector, id *int, r *vlib.Rand, n int) {
	for k := 0; k < n; k++ {
		*id++
		rr := r.Sub()
		if !c.Wanted(*id) {
			continue
		}
		cnt := 1 + rr.Intn(9)
		se := SE{Name: "loc", Ns: "ns1", Hosts: []string{"loc.example.com"}, Ports: []int{80}, TS: 0}
		type e2 struct {
			Loc string
			ID  int
		}
		var eps []e2
		for j := 0; j < cnt; j++ {
			loc := vlib.Pick(rr, dLocs)
			se.Eps = append(se.Eps, EP{Addr: fmt.Sprintf("10.7.0.%d", j+1), Loc: loc, Ver: "v1"})
			eps = append(eps, e2{loc, j + 1})
		}
		w := World{Mode: "clean", SEs: []SE{se}}
		var obs []string
		var sample []any
		pan, msg := vlib.Recover(func() {
			s := xds.NewFakeDiscoveryServer(t, xds.FakeOptions{Configs: w.configs()})
			p := proxies(s, w)[0]
			b := endpoints.NewEndpointBuilder("outbound|80||loc.example.com", p, s.PushContext())
			cla := b.BuildClusterLoadAssignment(s.Discovery.Env.EndpointIndex)
			for _, l := range cla.GetEndpoints() {
				var ids []int
				for _, le := range l.GetLbEndpoints() {
					a := le.GetEndpoint().GetAddress().GetSocketAddress().GetAddress()
					var x int
					fmt.Sscanf(a, "10.7.0.%d", &x)
					ids = append(ids, x)
				}
				label := util.LocalityToString(l.GetLocality())
				obs = append(obs, vlib.Pair(vlib.Str(label), nList(ids)))
				sample = append(sample, map[string]any{"locality": label, "endpoints": ids})
			}
		})
		if pan {
			c.Violate(vlib.Violation{ID: *id, Kind: "panic", Detail: msg, Case: w})
			continue
		}
		locs := map[string]bool{}
		for _, e := range eps {
			locs[e.Loc] = true
		}
		c.Add(vlib.Case{ID: *id, Tags: []string{"locality", fmt.Sprintf("locality-groups%d", len(locs))}, Trivial: len(locs) < 2,
			Term: vlib.App("Locality", vlib.NI(*id), vlib.ListOf(eps, func(e e2) string { return vlib.Pair(vlib.Str(e.Loc), vlib.NI(e.ID)) }), vlib.List(obs)),
			Sample: map[string]any{"kind": "Locality", "endpoints": eps, "observed": sample}})
	}
}

func dumpDiff(cid int, a, b gen) {
	if a.text == nil || b.text == nil {
		return
	}
	for k, v := range a.text {
		if b.text[k] != v {
			f := fmt.Sprintf("%s/dump_%d_%s", vlib.OutDir(), cid, strings.NewReplacer("/", "_", "|", "_").Replace(k))
			_ = os.WriteFile(f+"_first.txt", []byte(v), 0o644)
			_ = os.WriteFile(f+"_second.txt", []byte(b.text[k]), 0o644)
		}
	}
}

// orderDigests: the response order of every type as (type, name digest) pairs
func orderDigests(g gen) string {
	var ds []string
	for typ := 0; typ < 4; typ++ {
		for _, n := range g.order[typ] {
			ds = append(ds, vlib.Pair(vlib.NI(typ), vlib.N(sum64([]byte(n)))))
		}
	}
	return vlib.List(ds)
}
