//go:build verif

package c17

import (
	"fmt"
	"sort"
	"strings"
	"testing"

	networking "istio.io/api/networking/v1alpha3"
	authpb "istio.io/api/security/v1beta1"
	tpb "istio.io/api/telemetry/v1alpha1"
	typev1beta1 "istio.io/api/type/v1beta1"
	"istio.io/istio/pilot/pkg/model"
	"istio.io/istio/pkg/config"
	"istio.io/istio/pkg/config/host"
	"istio.io/istio/pkg/config/labels"
	"istio.io/istio/pkg/config/mesh"
	"istio.io/istio/pkg/config/mesh/meshwatcher"
	"istio.io/istio/pkg/config/schema/gvk"
	"istio.io/istio/pkg/kube"
	"istio.io/istio/pkg/kube/krt"
	"verif/harness/vlib"
)

// ---------------------------------------------------------------- call sites of the sorters in PushContext init
//
// orderedStore is a config store that lists the objects of some kinds in a caller-chosen order (as another
// istiod instance, a restart, or map iteration inside the store may do); everything else is the empty
// memory store.  PushContext.InitContext runs the production init functions over it.

type orderedStore struct {
	model.ConfigStoreController
	lists map[config.GroupVersionKind][]config.Config
}

func (s *orderedStore) List(k config.GroupVersionKind, ns string) []config.Config {
	l, ok := s.lists[k]
	if !ok {
		return s.ConfigStoreController.List(k, ns)
	}
	out := make([]config.Config, 0, len(l)) // a fresh slice: callers sort it in place
	for _, c := range l {
		if ns == model.NamespaceAll || ns == c.Namespace {
			out = append(out, c)
		}
	}
	return out
}

const rootNs = "istio-system"

func buildPSWithConfigs(lists map[config.GroupVersionKind][]config.Config) (*model.PushContext, func(), error) {
	env := model.NewEnvironment()
	env.Watcher = meshwatcher.NewTestWatcher(mesh.DefaultMeshConfig())
	stop := make(chan struct{})
	env.ServiceDiscovery = &sd{}
	base := model.NewFakeStore()
	env.ConfigStore = &orderedStore{ConfigStoreController: base, lists: lists}
	env.VirtualServiceController = model.NewVirtualServiceController(base, model.VSControllerOptions{KrtDebugger: krt.GlobalDebugHandler}, env.Watcher)
	go base.Run(stop)
	go env.VirtualServiceController.Run(stop)
	if !kube.WaitForCacheSync("c17cs", stop, base.HasSynced, env.VirtualServiceController.HasSynced) {
		close(stop)
		return nil, nil, fmt.Errorf("no sync")
	}
	env.Init()
	ps := model.NewPushContext()
	ps.InitContext(env, nil, nil)
	return ps, func() { close(stop) }, nil
}

var csNs = []string{"app", "other", rootNs}
var csNames = []string{"a", "b", "by-app", "by-version", "catch-all", "zz", "a.b", "a-b", "B", "m0", "m1", "m2", "m3", "m4", "m5"}

// genCfgs: (namespace, name) unique; creation times from a few seconds so that ties on the time are the norm
func genCfgs(r *vlib.Rand, n int, uniqueNames bool, selPct int, oneZone bool) []Cfg {
	var l []Cfg
	seen := map[string]bool{}
	for tries := 0; len(l) < n && tries < 300; tries++ {
		x := Cfg{T: tm{Sec: baseSec + int64(r.Intn(2)), Zone: r.Intn(3)}, Name: vlib.Pick(r, csNames), Ns: vlib.Pick(r, csNs), Sel: r.Chance(selPct)}
		if r.Chance(10) {
			x.T = genTime(r)
		}
		if oneZone {
			x.T.Zone = 0
		}
		k := x.Name + "|" + x.Ns
		if uniqueNames {
			k = x.Name
		}
		if seen[k] {
			continue
		}
		seen[k] = true
		l = append(l, x)
	}
	for i := range l {
		l[i].Tag = i + 1
	}
	return l
}

func optN(v int) string { return vlib.Opt(v > 0, vlib.NI(v)) }

// ---- which Sidecar governs a workload

func genSidecarPick(c *vlib.Collector, id *int, r *vlib.Rand, n int) {
	workload := labels.Instance{"app": "web", "version": "v1"}
	selectors := []map[string]string{{"app": "web"}, {"version": "v1"}, {"app": "web", "version": "v1"}, {"app": "db"}, {"version": "v2"}}
	for k := 0; k < n; k++ {
		*id++
		rr := r.Sub()
		if !c.Wanted(*id) {
			continue
		}
		l := genCfgs(rr, 2+rr.Intn(6), true, 60, false)
		proxyNs := []string{"app", "app", "other", rootNs}[rr.Intn(4)]
		for i := range l {
			// most Sidecars live in the proxy's namespace, so that several apply to the workload
			if rr.Chance(50) {
				l[i].Ns = proxyNs
			}
		}
		sels := make([]map[string]string, len(l))
		var ms []int
		applicable := 0
		for i, x := range l {
			if x.Sel {
				sels[i] = selectors[rr.Intn(len(selectors))]
				if rr.Chance(50) {
					sels[i] = selectors[rr.Intn(3)] // matching ones
				}
				if labels.Instance(sels[i]).SubsetOf(workload) {
					ms = append(ms, x.Tag)
					if x.Ns == proxyNs {
						applicable++
					}
				}
			} else if x.Ns == proxyNs {
				applicable++
			}
		}
		mk := func(i int) config.Config {
			x := l[i]
			sc := &networking.Sidecar{Egress: []*networking.IstioEgressListener{{Hosts: []string{fmt.Sprintf("ns%d/*", x.Tag)}}}}
			if x.Sel {
				sc.WorkloadSelector = &networking.WorkloadSelector{Labels: sels[i]}
			}
			return config.Config{Meta: config.Meta{GroupVersionKind: gvk.Sidecar, Name: x.Name, Namespace: x.Ns, CreationTimestamp: x.T.real()}, Spec: sc}
		}
		reals := make([]config.Config, len(l))
		byName := map[string]int{}
		for i := range l {
			reals[i] = mk(i)
			byName[l[i].Name] = l[i].Tag
		}
		p := perm(rr, len(l))
		if rr.Chance(40) {
			for i := range p {
				p[i] = len(l) - 1 - i
			}
		}
		var obs [2]int
		pan, msg := vlib.Recover(func() {
			for v, order := range [][]config.Config{reals, permute(reals, p)} {
				ps, done, err := buildPSWithConfigs(map[config.GroupVersionKind][]config.Config{gvk.Sidecar: order})
				if err != nil {
					panic(err)
				}
				proxy := &model.Proxy{Type: model.SidecarProxy, ID: "w." + proxyNs, ConfigNamespace: proxyNs, Labels: workload,
					Metadata: &model.NodeMetadata{Namespace: proxyNs, Labels: workload}, IPAddresses: []string{"10.1.1.1"}}
				proxy.SetSidecarScope(ps)
				if sc := proxy.SidecarScope; sc != nil && sc.Sidecar != nil {
					obs[v] = byName[sc.Name]
				}
				done()
			}
		})
		if pan {
			c.Violate(vlib.Violation{ID: *id, Kind: "panic", Detail: msg, Case: l})
			continue
		}
		tg := []string{"sidecarpick", fmt.Sprintf("sidecarpick-applicable%d", min(applicable, 3))}
		if obs[0] == 0 {
			tg = append(tg, "sidecarpick-default")
		}
		c.Add(vlib.Case{ID: *id, Tags: tg, Trivial: applicable < 2,
			Term: vlib.App("SidecarPick", vlib.NI(*id), vlib.ListOf(l, Cfg.term), nList(ms), vlib.Str(proxyNs), vlib.Str(rootNs), natList(p), optN(obs[0]), optN(obs[1])),
			Sample: map[string]any{"kind": "SidecarPick", "sidecars": l, "selectors": sels, "workload": workload, "proxy_namespace": proxyNs, "listing_permutation": p,
				"chosen": obs[0], "chosen_permuted_listing": obs[1]}})
	}
}

// ---- per-namespace order of policies

func genCallSite(c *vlib.Collector, id *int, r *vlib.Rand, n int) {
	workload := labels.Instance{"app": "web"}
	for k := 0; k < n; k++ {
		*id++
		rr := r.Sub()
		if !c.Wanted(*id) {
			continue
		}
		kind := 1 + rr.Intn(4)
		selPct := 0
		if kind == 4 {
			selPct = 50
		}
		l := genCfgs(rr, 2+rr.Intn(7), false, selPct, false)
		var gk config.GroupVersionKind
		mk := func(x Cfg) config.Config {
			m := config.Meta{Name: x.Name, Namespace: x.Ns, CreationTimestamp: x.T.real()}
			var spec config.Spec
			switch kind {
			case 1:
				gk = gvk.AuthorizationPolicy
				spec = &authpb.AuthorizationPolicy{}
			case 2:
				gk = gvk.Telemetry
				spec = &tpb.Telemetry{}
			case 3:
				gk = gvk.RequestAuthentication
				spec = &authpb.RequestAuthentication{}
			default:
				gk = gvk.PeerAuthentication
				pa := &authpb.PeerAuthentication{}
				if x.Sel {
					pa.Selector = &typev1beta1.WorkloadSelector{MatchLabels: map[string]string{"app": "web"}}
				}
				spec = pa
			}
			m.GroupVersionKind = gk
			return config.Config{Meta: m, Spec: spec}
		}
		reals := make([]config.Config, len(l))
		byKey := map[string]int{}
		for i, x := range l {
			reals[i] = mk(x)
			byKey[x.Ns+"/"+x.Name] = x.Tag
		}
		// namespaces looked up, in lookup order
		var nss []string
		switch kind {
		case 1, 2:
			nss = csNs
		default:
			for _, q := range csNs {
				nss = append(nss, q)
				if q != rootNs {
					nss = append(nss, rootNs)
				}
			}
		}
		p := perm(rr, len(l))
		var outs [2][]int
		pan, msg := vlib.Recover(func() {
			for v, order := range [][]config.Config{reals, permute(reals, p)} {
				ps, done, err := buildPSWithConfigs(map[config.GroupVersionKind][]config.Config{gk: order})
				if err != nil {
					panic(err)
				}
				var out []int
				switch kind {
				case 1:
					for _, ns := range csNs {
						for _, pol := range ps.AuthzPolicies.NamespaceToPolicies[ns] {
							out = append(out, byKey[pol.Namespace+"/"+pol.Name])
						}
					}
				case 2:
					for _, ns := range csNs {
						for _, t := range ps.Telemetry.NamespaceToTelemetries[ns] {
							out = append(out, byKey[t.Namespace+"/"+t.Name])
						}
					}
				case 3:
					for _, q := range csNs {
						for _, cfg := range ps.AuthnPolicies.GetJwtPoliciesForWorkload(model.PolicyMatcherFor(q, workload, false)) {
							out = append(out, byKey[cfg.Namespace+"/"+cfg.Name])
						}
					}
				default:
					for _, q := range csNs {
						for _, cfg := range ps.AuthnPolicies.GetPeerAuthenticationsForWorkload(model.PolicyMatcherFor(q, workload, false)) {
							out = append(out, byKey[cfg.Namespace+"/"+cfg.Name])
						}
					}
				}
				outs[v] = out
				done()
			}
		})
		if pan {
			c.Violate(vlib.Violation{ID: *id, Kind: "panic", Detail: msg, Case: l})
			continue
		}
		c.Add(vlib.Case{ID: *id, Tags: []string{"callsite", fmt.Sprintf("callsite-kind%d", kind)},
			Term: vlib.App("CallSite", vlib.NI(*id), vlib.NI(kind), vlib.ListOf(l, Cfg.term), vlib.ListOf(nss, vlib.Str), natList(p), nList(outs[0]), nList(outs[1])),
			Sample: map[string]any{"kind": "CallSite", "config_kind": gk.Kind, "configs": l, "namespaces": nss, "listing_permutation": p, "order": outs[0], "order_permuted_listing": outs[1]}})
	}
}

// ---- EnvoyFilters matched for a proxy

func genEnvoyF(c *vlib.Collector, id *int, r *vlib.Rand, n int) {
	workload := labels.Instance{"app": "web"}
	for k := 0; k < n; k++ {
		*id++
		rr := r.Sub()
		if !c.Wanted(*id) {
			continue
		}
		// only the root and the proxy namespace are consulted; creation times in one zone (the final sort
		// compares time.Time values with != before Before)
		l := genCfgs(rr, 2+rr.Intn(7), false, 0, true)
		var keep []Cfg
		for _, x := range l {
			if x.Ns != "other" {
				keep = append(keep, x)
			}
		}
		l = keep
		if len(l) == 0 {
			l = []Cfg{{Name: "a", Ns: "app", T: tm{Sec: baseSec}}}
		}
		prios := make([]int64, len(l))
		for i := range l {
			l[i].Tag = i + 1
			prios[i] = int64([]int{0, 0, 0, -5, 10}[rr.Intn(5)])
		}
		byKey := map[string]int{}
		reals := make([]config.Config, len(l))
		for i, x := range l {
			byKey[x.Ns+"/"+x.Name] = x.Tag
			ef := &networking.EnvoyFilter{Priority: int32(prios[i]), ConfigPatches: []*networking.EnvoyFilter_EnvoyConfigObjectPatch{{
				ApplyTo: networking.EnvoyFilter_LISTENER,
				Patch:   &networking.EnvoyFilter_Patch{Operation: networking.EnvoyFilter_Patch_MERGE},
			}}}
			reals[i] = config.Config{Meta: config.Meta{GroupVersionKind: gvk.EnvoyFilter, Name: x.Name, Namespace: x.Ns, CreationTimestamp: x.T.real()}, Spec: ef}
		}
		p := perm(rr, len(l))
		var outs [2][]int
		pan, msg := vlib.Recover(func() {
			for v, order := range [][]config.Config{reals, permute(reals, p)} {
				ps, done, err := buildPSWithConfigs(map[config.GroupVersionKind][]config.Config{gvk.EnvoyFilter: order})
				if err != nil {
					panic(err)
				}
				proxy := &model.Proxy{Type: model.SidecarProxy, ID: "w.app", ConfigNamespace: "app", Labels: workload,
					Metadata: &model.NodeMetadata{Namespace: "app", Labels: workload}, IstioVersion: model.MaxIstioVersion}
				var out []int
				if m := ps.EnvoyFilters(proxy); m != nil {
					for _, cp := range m.Patches[networking.EnvoyFilter_LISTENER] {
						out = append(out, byKey[cp.Namespace+"/"+cp.Name])
					}
				}
				outs[v] = out
				done()
			}
		})
		if pan {
			c.Violate(vlib.Violation{ID: *id, Kind: "panic", Detail: msg, Case: l})
			continue
		}
		type pc struct {
			P int64
			C Cfg
		}
		var pl []pc
		for i, x := range l {
			pl = append(pl, pc{prios[i], x})
		}
		c.Add(vlib.Case{ID: *id, Tags: []string{"envoyf"}, Trivial: len(l) < 2,
			Term: vlib.App("EnvoyF", vlib.NI(*id), vlib.Str(rootNs), vlib.ListOf(pl, func(x pc) string { return vlib.Pair(vlib.Z(x.P), x.C.term()) }), natList(p), nList(outs[0]), nList(outs[1])),
			Sample: map[string]any{"kind": "EnvoyF", "filters": pl, "listing_permutation": p, "order": outs[0], "order_permuted_listing": outs[1]}})
	}
}

// ---- MostSpecificHostMatch over a wildcard map (DestinationRule / Sidecar host lookup)

func genHostMatch(c *vlib.Collector, id *int, r *vlib.Rand, n int) {
	wilds := []string{"*.example.com", "*.Example.com", "*.EXAMPLE.com", "*.com", "*.Com", "*.a.example.com", "*.A.example.com", "*", "*.org"}
	needles := []string{"reviews.example.com", "x.a.example.com", "Reviews.Example.com", "foo.org", "example.com", "x.A.example.com", "*.example.com", "*.x.example.com"}
	for k := 0; k < n; k++ {
		*id++
		rr := r.Sub()
		if !c.Wanted(*id) {
			continue
		}
		needle := vlib.Pick(rr, needles)
		ws := permute(wilds, perm(rr, len(wilds)))[:1+rr.Intn(5)]
		seen := map[string]bool{}
		for i := 0; i < 48; i++ {
			m := map[host.Name]string{}
			for _, j := range perm(rr, len(ws)) {
				m[host.Name(ws[j])] = ws[j]
			}
			h, _, found := model.MostSpecificHostMatch(host.Name(needle), map[host.Name]string{}, m)
			if !found {
				h = ""
			}
			seen[string(h)] = true
		}
		var obs []string
		for o := range seen {
			obs = append(obs, o)
		}
		sort.Strings(obs)
		// the model covers the wildcard branch; an exact hit of a wildcard needle in the map is reported as is
		mn := needle
		if strings.HasPrefix(needle, "*") {
			exact := false
			for _, w := range ws {
				exact = exact || w == needle
			}
			if exact {
				continue
			}
			mn = needle[1:]
		}
		c.Add(vlib.Case{ID: *id, Tags: []string{"hostmatch"}, Trivial: len(ws) < 2,
			Term:   vlib.App("HostMatch", vlib.NI(*id), vlib.Str(mn), vlib.ListOf(ws, vlib.Str), vlib.ListOf(obs, vlib.Str)),
			Sample: map[string]any{"kind": "HostMatch", "needle": needle, "wildcards": ws, "distinct_results": obs}})
	}
}

var _ = testing.Short
