//go:build verif

// C18 correspondence harness: drives the REAL SecretManagerClient (and, through it, the real
// pkg/queue delayed queue) inside a testing/synctest bubble.  The fake clock makes rotateTime and the
// rotation timers exact and deterministic; the fake CA client blocks in CSRSign on harness channels so
// that concurrent-caller schedules are imposed at the one point that is not already a critical section.
package c18

import (
	"bytes"
	"crypto/ecdsa"
	"crypto/tls"
	"encoding/pem"
	"fmt"
	"math"
	"regexp"
	"runtime"
	"strconv"
	"strings"
	"sync"
	"testing"
	"testing/synctest"
	"time"

	"istio.io/istio/pkg/security"
	"istio.io/istio/security/pkg/nodeagent/cache"
	pkiutil "istio.io/istio/security/pkg/pki/util"
	"verif/harness/vlib"
)

// ---------------------------------------------------------------- roots (generated once, real clock)

type rootCA struct {
	id     int
	pem    string // trimmed as PemCertBytestoString returns it
	rawPEM []byte
}

var (
	roots    []*rootCA // index = id-1, ids are ranks in the sorted order of the PEM strings
	rootByID map[string]int
	signCert []byte // PEM
	signKey  []byte // PEM
)

const nRoots = 5

func setupRoots(t *testing.T) {
	if roots != nil {
		return
	}
	type kc struct{ cert, key []byte }
	var all []kc
	for i := 0; i < nRoots; i++ {
		cert, key, err := pkiutil.GenCertKeyFromOptions(pkiutil.CertOptions{
			Host: fmt.Sprintf("spiffe://cluster.local/ns/istio-system/sa/root%d", i), TTL: 20 * 365 * 24 * time.Hour,
			Org: "verif", IsCA: true, IsSelfSigned: true, ECSigAlg: pkiutil.EcdsaSigAlg, ECCCurve: pkiutil.P256Curve,
		})
		if err != nil {
			t.Fatal(err)
		}
		all = append(all, kc{cert, key})
	}
	signCert, signKey = all[0].cert, all[0].key
	var pems []string
	for _, a := range all {
		pems = append(pems, pkiutil.PemCertBytestoString(a.cert)[0])
	}
	sorted := append([]string{}, pems...)
	// insertion sort (5 elements)
	for i := 1; i < len(sorted); i++ {
		for j := i; j > 0 && sorted[j] < sorted[j-1]; j-- {
			sorted[j], sorted[j-1] = sorted[j-1], sorted[j]
		}
	}
	rootByID = map[string]int{}
	roots = make([]*rootCA, nRoots)
	for rank, p := range sorted {
		rootByID[p] = rank + 1
		roots[rank] = &rootCA{id: rank + 1, pem: p, rawPEM: []byte(p + "\n")}
	}
}

func rootIDs(b []byte) []int {
	var out []int
	for _, p := range pkiutil.PemCertBytestoString(b) {
		if id, ok := rootByID[p]; ok {
			out = append(out, id)
		} else {
			out = append(out, 999)
		}
	}
	return out
}

func bundlePEM(ids []int) []byte {
	var b []byte
	for _, id := range ids {
		b = append(b, roots[id-1].rawPEM...)
	}
	return b
}

// ---------------------------------------------------------------- events

type retv struct {
	Key, Cert       int // CSR number the private key / the leaf certificate belongs to (0 = none of them); -1 = absent
	Created, Expire int64
	Root            []int
}

type event struct {
	Kind string // csr | signed | ret | notify
	T    int
	Kid  int
	At   int64
	Err  bool
	Ret  *retv
	Res  string
}

func nz(t time.Time) int64 {
	if t.IsZero() {
		return 0
	}
	return t.UnixNano()
}

func zlist(xs []int) string { return vlib.ListOf(xs, func(i int) string { return vlib.NI(i) }) }

func (e event) term() string {
	switch e.Kind {
	case "csr":
		return vlib.App("ECsr", vlib.NI(e.T), vlib.NI(e.Kid))
	case "signed":
		return vlib.App("ESigned", vlib.NI(e.Kid))
	case "notify":
		return vlib.App("ENotify", resTerm(e.Res), vlib.Z(e.At))
	}
	if e.Err {
		return vlib.App("ERet", vlib.NI(e.T), vlib.Z(e.At), "None")
	}
	r := e.Ret
	return vlib.App("ERet", vlib.NI(e.T), vlib.Z(e.At), vlib.Opt(true, vlib.Rec(
		"r_key", vlib.Opt(r.Key >= 0, vlib.NI(r.Key)), "r_cert", vlib.Opt(r.Cert >= 0, vlib.NI(r.Cert)),
		"r_created", vlib.Z(r.Created), "r_expire", vlib.Z(r.Expire), "r_root", zlist(r.Root))))
}

func resTerm(name string) string {
	if name == security.RootCertReqResourceName {
		return "RRoot"
	}
	if name == security.WorkloadKeyCertResourceName {
		return "RWorkload"
	}
	return "RUnknown_" + name // does not type-check: an unknown resource name is a harness/machinery error
}

// ---------------------------------------------------------------- fake CA

type reply struct {
	kind    string // ok | errsign | errroots | badcert | emptychain
	ttl     time.Duration
	bundle  []int // GetRootCertBundle answer (ids); empty => chain carries the root
	chainRt int
}

type csrRec struct {
	pub    any
	issued []byte // concatenated chain as the agent stores it
	expire int64
}

type tracer struct {
	mu      sync.Mutex
	evs     []event
	csrs    []*csrRec
	entered chan int64 // goroutine id of the CSRSign caller
	replyCh chan reply
	doneCh  chan int
	cur     reply
	gidOf   map[int64]int
	twoCSR  bool
	// second controllable point: registerSecret calls the package-level rotateTime first; when park is set the
	// caller signals parkedCh there and waits for unparkCh (still holding generateMutex on the correct code)
	park     bool
	parkMode bool
	parkedCh chan struct{}
	unparkCh chan struct{}
}

func (h *tracer) log(e event) {
	h.mu.Lock()
	h.evs = append(h.evs, e)
	h.mu.Unlock()
}

func (h *tracer) take() []event {
	h.mu.Lock()
	defer h.mu.Unlock()
	out := h.evs
	h.evs = nil
	return out
}

var gidRe = regexp.MustCompile(`^goroutine (\d+) `)

func goid() int64 {
	buf := make([]byte, 64)
	n := runtime.Stack(buf, false)
	m := gidRe.FindSubmatch(buf[:n])
	v, _ := strconv.ParseInt(string(m[1]), 10, 64)
	return v
}

type fakeCA struct{ h *tracer }

func (f *fakeCA) Close() {}

func (f *fakeCA) CSRSign(csrPEM []byte, ttlSec int64) ([]string, error) {
	h := f.h
	csr, err := pkiutil.ParsePemEncodedCSR(csrPEM)
	if err != nil {
		return nil, err
	}
	gid := goid()
	h.mu.Lock()
	rec := &csrRec{pub: csr.PublicKey}
	h.csrs = append(h.csrs, rec)
	kid := len(h.csrs)
	tid := h.gidOf[gid]
	h.evs = append(h.evs, event{Kind: "csr", T: tid, Kid: kid})
	h.mu.Unlock()
	h.entered <- gid
	rep := <-h.replyCh
	h.mu.Lock()
	h.cur = rep
	h.mu.Unlock()
	switch rep.kind {
	case "errsign":
		return nil, fmt.Errorf("fake CA: sign error")
	case "badcert":
		return []string{"-----BEGIN CERTIFICATE-----\nbm90IGEgY2VydA==\n-----END CERTIFICATE-----\n"}, nil
	case "emptychain":
		return []string{}, nil
	}
	sc, err := pkiutil.ParsePemEncodedCertificate(signCert)
	if err != nil {
		return nil, err
	}
	sk, err := pkiutil.ParsePemEncodedKey(signKey)
	if err != nil {
		return nil, err
	}
	der, err := pkiutil.GenCertFromCSR(csr, sc, csr.PublicKey, sk, []string{"spiffe://cluster.local/ns/default/sa/default"}, rep.ttl, false)
	if err != nil {
		return nil, err
	}
	leaf := string(pemEncodeCert(der))
	chain := []string{leaf}
	if len(rep.bundle) == 0 {
		chain = append(chain, string(roots[rep.chainRt-1].rawPEM))
	}
	crt, _ := pkiutil.ParsePemEncodedCertificate([]byte(leaf))
	rec.issued = []byte(strings.Join(chain, ""))
	rec.expire = crt.NotAfter.UnixNano()
	return chain, nil
}

func (f *fakeCA) GetRootCertBundle() ([]string, error) {
	h := f.h
	h.mu.Lock()
	rep := h.cur
	h.mu.Unlock()
	if rep.kind == "errroots" {
		return nil, fmt.Errorf("fake CA: root bundle error")
	}
	var out []string
	for _, id := range rep.bundle {
		out = append(out, string(roots[id-1].rawPEM))
	}
	if rep.kind == "ok" {
		h.mu.Lock()
		h.evs = append(h.evs, event{Kind: "signed", Kid: len(h.csrs)})
		h.mu.Unlock()
	}
	return out, nil
}

func pemEncodeCert(der []byte) []byte {
	return pem.EncodeToMemory(&pem.Block{Type: "CERTIFICATE", Bytes: der})
}

// ---------------------------------------------------------------- observing a returned item

func (h *tracer) observe(it *security.SecretItem) *retv {
	r := &retv{Key: -1, Cert: -1, Created: nz(it.CreatedTime), Expire: nz(it.ExpireTime), Root: rootIDs(it.RootCert)}
	h.mu.Lock()
	csrs := append([]*csrRec{}, h.csrs...)
	h.mu.Unlock()
	if len(it.PrivateKey) > 0 {
		r.Key = 0
		if k, err := pkiutil.ParsePemEncodedKey(it.PrivateKey); err == nil {
			if ek, ok := k.(*ecdsa.PrivateKey); ok {
				for i, c := range csrs {
					if pk, ok := c.pub.(*ecdsa.PublicKey); ok && pk.Equal(&ek.PublicKey) {
						r.Key = i + 1
					}
				}
			}
		}
	}
	if len(it.CertificateChain) > 0 {
		r.Cert = 0
		if c, err := pkiutil.ParsePemEncodedCertificate(it.CertificateChain); err == nil {
			for i, rec := range csrs {
				if pk, ok := rec.pub.(*ecdsa.PublicKey); ok && pk.Equal(c.PublicKey) && bytes.Equal(rec.issued, it.CertificateChain) &&
					c.NotAfter.UnixNano() == rec.expire {
					r.Cert = i + 1
				}
			}
		}
		// independent of the interning: Go's own pair check
		if r.Key > 0 {
			if _, err := tls.X509KeyPair(it.CertificateChain, it.PrivateKey); err != nil {
				r.Key = 0
			}
		}
	}
	return r
}

// ---------------------------------------------------------------- goroutine state polling

// onGenerateMutex reports whether goroutine gid is parked in sync.Mutex.Lock called directly from
// SecretManagerClient.GenerateSecret (i.e. on generateMutex, not on outputMutex in the deferred func).
func onGenerateMutex(gid int64) bool {
	buf := make([]byte, 1<<18)
	n := runtime.Stack(buf, true)
	hdr := fmt.Sprintf("goroutine %d [", gid)
	for _, g := range strings.Split(string(buf[:n]), "\n\n") {
		if !strings.HasPrefix(g, hdr) {
			continue
		}
		first := g[:strings.Index(g, "\n")]
		if !strings.Contains(first, "sync.Mutex.Lock") {
			return false
		}
		lines := strings.Split(g, "\n")
		for i := 1; i < len(lines); i++ {
			if strings.HasPrefix(lines[i], "sync.(*Mutex).Lock(") {
				for j := i + 1; j < len(lines); j++ {
					if strings.HasPrefix(lines[j], "\t") {
						continue
					}
					return strings.HasPrefix(lines[j], "istio.io/istio/security/pkg/nodeagent/cache.(*SecretManagerClient).GenerateSecret(")
				}
			}
		}
		return false
	}
	return false
}

// ---------------------------------------------------------------- float -> dyadic

func dyTerm(f float64) string {
	if f == 0 {
		return "(0%Z, 0%Z)"
	}
	fr, ex := math.Frexp(f)
	m := int64(fr * (1 << 53))
	e := ex - 53
	for m%2 == 0 {
		m /= 2
		e++
	}
	return "(" + vlib.Z(m) + ", " + vlib.Z(int64(e)) + ")"
}

func cfgTerm(ratio, jitter float64) string {
	return vlib.Rec("c_ratio", dyTerm(ratio), "c_jitter", dyTerm(jitter))
}

// the same float computation as rotateTime for a given effective ratio (generator guidance only:
// used to aim clock advances at rotation instants; never compared with anything)
func guideDelay(created, expire, now int64, jgr float64) int64 {
	if jgr > 1 {
		jgr = 1
	}
	if jgr < 0 {
		jgr = 0
	}
	g := int64(jgr * float64(expire-created))
	d := expire - g - now
	if d < 0 {
		d = 0
	}
	return d
}

// ---------------------------------------------------------------- trace generation

type pend struct{ lo, hi int64 }

type stepRec struct {
	term string
	evs  []event
}

type traceResult struct {
	steps   []stepRec
	final   string
	tags    map[string]bool
	viol    string
	nsteps  int
	t0      int64
	sample  []string
	hasRoot bool // a ROOTCA-triggered generation saw changed CA roots (the known finding's shape)
}

var ratios = []float64{0, 0.5, 1, 0.25, 0.75, 0.1, 0.9, 1.0 / 3, 0.999999, 1e-9, 1.5, -0.2}
var jitters = []float64{0.01, 0.1, 0.25, 0.5, 1}
var ttls = []time.Duration{2 * time.Second, 3 * time.Second, 10 * time.Second, time.Minute, time.Hour, 24 * time.Hour, 90 * 24 * time.Hour, 400 * 24 * time.Hour}

func runTrace(t *testing.T, seed uint64, forced []string) (res traceResult) {
	res.tags = map[string]bool{}
	synctest.Test(t, func(t *testing.T) {
		r := vlib.NewRand(seed)
		ratio := vlib.Pick(r, ratios)
		if r.Chance(25) {
			ratio = float64(r.Intn(1<<20)) / float64(1<<20)
		}
		jitter := 0.0
		if r.Chance(25) {
			// with jitter the rotation instant is only known up to an interval; keep ratio+jitter < 1 so that the
			// interval never contains the registration instant itself (ratio-jitter may well be negative: clamp)
			jitter = vlib.Pick(r, jitters)
			for ratio+jitter > 0.999999 || ratio < 0 {
				ratio = float64(r.Intn(1<<20)) / float64(1<<21)
				jitter = jitter / 2
			}
			res.tags["jitter>0"] = true
		}
		// ratio >= 1 (clamped): the rotation delay is 0 and the task runs at once on the queue worker, racing with
		// callers parked on generateMutex; such configurations are driven without concurrent callers
		noConc := ratio+jitter > 0.999999
		if noConc {
			res.tags["immediate-rotation-config"] = true
		}
		if len(forced) > 0 && forced[0] == "fixed-cfg" {
			ratio, jitter = 0.5, 0
			forced = forced[1:]
		} else if len(forced) > 0 {
			ratio, jitter = float64(1+r.Intn(9))/10, 0
		}
		h := &tracer{entered: make(chan int64, 8), replyCh: make(chan reply), doneCh: make(chan int, 64), gidOf: map[int64]int{},
			parkedCh: make(chan struct{}), unparkCh: make(chan struct{})}
		restore := cache.VerifWrapRotateTime(func() {
			h.mu.Lock()
			p := h.park
			h.park = false
			h.mu.Unlock()
			if p {
				h.parkedCh <- struct{}{}
				<-h.unparkCh
			}
		})
		defer restore()
		opts := &security.Options{
			ECCSigAlg: "ECDSA", ECCCurve: "P256", SecretTTL: time.Hour, TrustDomain: "cluster.local",
			WorkloadNamespace: "default", ServiceAccount: "default",
			SecretRotationGracePeriodRatio: ratio, SecretRotationGracePeriodRatioJitter: jitter,
			CertChainFilePath: "/nonexistent-verif/cert-chain.pem", KeyFilePath: "/nonexistent-verif/key.pem", RootCertFilePath: "/nonexistent-verif/root-cert.pem",
		}
		sc, err := cache.NewSecretManagerClient(&fakeCA{h}, opts)
		if err != nil {
			t.Fatal(err)
		}
		sc.VerifCloseWatcher()
		sc.RegisterSecretHandler(func(name string) {
			h.log(event{Kind: "notify", Res: name, At: time.Now().UnixNano()})
		})
		synctest.Wait()
		res.t0 = time.Now().UnixNano()

		inCSR := 0 // thread in CSRSign (0 = none)
		waiters := map[int]int64{}
		gids := map[int]int64{}
		resOf := map[int]string{}
		nextT := 0
		var pending []pend
		var curRoots []int
		curBundle := []int{}
		cached := false
		gens := 0
		var prevGenRoots []int

		emit := func(term string) {
			res.steps = append(res.steps, stepRec{term: term, evs: h.take()})
		}
		// wait until thread tid has reached a stable point; returns "done" | "csr" | "mutex"
		var start func(resName string)
		settle := func(tid int) string {
			gid := gids[tid]
			for {
				select {
				case d := <-h.doneCh:
					if d == tid {
						return "done"
					}
					delete(waiters, d)
				case g := <-h.entered:
					who := h.gidOf[g]
					if inCSR != 0 && !h.parkMode {
						h.twoCSR = true
					}
					inCSR = who
					delete(waiters, who)
					if who == tid {
						return "csr"
					}
				default:
					if inCSR != 0 && onGenerateMutex(gid) {
						return "mutex"
					}
					runtime.Gosched()
				}
			}
		}
		start = func(resName string) {
			nextT++
			tid := nextT
			gidCh := make(chan int64)
			go func() {
				gidCh <- goid()
				<-gidCh // registered
				it, err := sc.GenerateSecret(resName)
				at := time.Now().UnixNano()
				if err != nil || it == nil {
					h.log(event{Kind: "ret", T: tid, At: at, Err: true})
				} else {
					h.log(event{Kind: "ret", T: tid, At: at, Ret: h.observe(it)})
				}
				h.doneCh <- tid
			}()
			g := <-gidCh
			h.mu.Lock()
			h.gidOf[g] = tid
			h.mu.Unlock()
			gids[tid] = g
			resOf[tid] = resName
			gidCh <- 0
			switch settle(tid) {
			case "mutex":
				waiters[tid] = g
				res.tags["start:blocked-on-mutex"] = true
			case "csr":
				res.tags["start:csr"] = true
			case "done":
				res.tags["start:cache-hit"] = true
			}
			emit(vlib.App("HStart", vlib.NI(tid), resTerm(resName)))
		}
		doReply := func(rep reply, parkStarts int) {
			holder := inCSR
			nw := len(waiters)
			var held []event
			park := parkStarts > 0 && rep.kind == "ok"
			if park {
				h.mu.Lock()
				h.park = true
				h.mu.Unlock()
			}
			h.replyCh <- rep
			if park {
				// the holder is now inside registerSecret (CSR answered, nothing cached yet): callers started here
				// must park on generateMutex and later be served the holder's pair from the cache
				<-h.parkedCh
				held = h.take()
				h.parkMode = true
				for i := 0; i < parkStarts; i++ {
					name := security.WorkloadKeyCertResourceName
					if r.Chance(35) {
						name = security.RootCertReqResourceName
					}
					start(name)
				}
				h.parkMode = false
				nw = len(waiters)
				res.tags["reply:parked-in-registerSecret"] = true
				h.unparkCh <- struct{}{}
			}
			if inCSR == holder {
				inCSR = 0
			}
			// holder returns; then waiters either all return (cache hit) or one of them enters CSRSign
			holderDone := false
			next := 0
			for !holderDone || (len(waiters) > 0 && inCSR == 0) {
				select {
				case d := <-h.doneCh:
					if d == holder {
						holderDone = true
					} else {
						delete(waiters, d)
					}
				case g := <-h.entered:
					who := h.gidOf[g]
					if inCSR != 0 {
						h.twoCSR = true
					}
					inCSR = who
					next = who
					delete(waiters, who)
				}
			}
			rec := h.csrs[len(h.csrs)-1]
			if next != 0 {
				rec = h.csrs[len(h.csrs)-2]
			}
			if len(waiters) == 0 && inCSR == 0 {
				synctest.Wait() // a zero-delay rotation task runs now
			}
			var o string
			if rep.kind == "ok" {
				o = vlib.App("CaOk", vlib.Z(rec.expire), zlist(rep.bundle), vlib.NI(rep.chainRt))
				now := time.Now().UnixNano()
				lo := guideDelay(now, rec.expire, now, ratio+jitter)
				hi := guideDelay(now, rec.expire, now, ratio-jitter)
				if hi > 0 {
					pending = append(pending, pend{now + lo, now + hi})
				}
				cached = true
				gens++
				newRoots := rep.bundle
				if len(newRoots) == 0 {
					newRoots = []int{rep.chainRt}
				}
				if resOf[holder] == security.RootCertReqResourceName {
					res.hasRoot = true // a ROOTCA-triggered generation: emit the TraceAnn twin of this trace
				}
				if prevGenRoots != nil && fmt.Sprint(prevGenRoots) != fmt.Sprint(newRoots) {
					res.tags["ca-root-changed"] = true
					if resOf[holder] == security.RootCertReqResourceName {
						res.tags["ca-root-changed-seen-by-rootca-request"] = true
					}
				}
				prevGenRoots = newRoots
				curRoots = newRoots
				res.tags["reply:ok"] = true
				if nw > 0 {
					res.tags["reply:ok-with-waiters"] = true
				}
			} else {
				o = "CaErr"
				res.tags["reply:"+rep.kind] = true
				if nw > 0 {
					res.tags["reply:err-with-waiters"] = true
				}
			}
			res.steps = append(res.steps, stepRec{term: vlib.App("HReply", o, vlib.Opt(next != 0, vlib.NI(next))), evs: append(held, h.take()...)})
		}
		advance := func(d int64) {
			time.Sleep(time.Duration(d))
			synctest.Wait()
			now := time.Now().UnixNano()
			var keep []pend
			for _, p := range pending {
				if p.hi > now {
					keep = append(keep, p)
				}
			}
			pending = keep
			evs := h.take()
			for _, e := range evs {
				if e.Kind == "notify" && e.Res == security.WorkloadKeyCertResourceName {
					cached = false
					res.tags["rotation-fired"] = true
				}
			}
			res.steps = append(res.steps, stepRec{term: vlib.App("HAdvance", vlib.Z(d)), evs: evs})
		}
		safeAdvance := func(d int64) int64 {
			// never stop the clock inside a jitter interval [lo, hi)
			now := time.Now().UnixNano()
			for iter := 0; iter < 8; iter++ {
				T := now + d
				moved := false
				for _, p := range pending {
					if p.lo <= T && T < p.hi {
						if r.Bool() && p.lo-1 > now {
							d = p.lo - 1 - now
						} else {
							d = p.hi - now
						}
						moved = true
					}
				}
				if !moved {
					break
				}
			}
			T := now + d
			for _, p := range pending {
				if p.lo <= T && T < p.hi {
					mx := T
					for _, q := range pending {
						if q.hi > mx {
							mx = q.hi
						}
					}
					d = mx - now
				}
			}
			return d
		}
		pickReply := func() reply {
			rep := reply{kind: "ok", ttl: vlib.Pick(r, ttls)}
			if r.Chance(20) {
				rep.ttl = time.Duration(2+r.Intn(7200)) * time.Second
			}
			switch {
			case r.Chance(8):
				rep.kind = "errsign"
			case r.Chance(5):
				rep.kind = "errroots"
			case r.Chance(4):
				rep.kind = "badcert"
			case r.Chance(3):
				rep.kind = "emptychain"
			}
			// CA roots: mostly stable, sometimes changing
			base := []int{1}
			if curRoots != nil {
				base = curRoots
			}
			if curRoots == nil || r.Chance(25) {
				n := 1 + r.Intn(3)
				base = nil
				for i := 0; i < n; i++ {
					base = append(base, 1+r.Intn(nRoots))
				}
			}
			if r.Chance(20) {
				rep.bundle = nil
				rep.chainRt = base[0]
				res.tags["root-from-chain"] = true
			} else {
				rep.bundle = base
				rep.chainRt = 1
			}
			return rep
		}

		nops := 6 + r.Intn(10)
		script := forced
		for i := 0; (len(forced) == 0 && i < nops) || (len(forced) > 0 && i < len(script)); i++ {
			op := ""
			if len(forced) > 0 {
				op = script[i]
			} else {
				k := r.Intn(100)
				switch {
				case inCSR != 0 && k < 35:
					op = "reply"
				case inCSR != 0 && len(waiters) < 3 && k < 65 && !noConc:
					op = "start"
				case inCSR == 0 && k < 45:
					op = "start"
				case len(waiters) == 0 && k < 85:
					op = "advance"
				case k < 93:
					op = "bundle"
				default:
					op = "start"
				}
				if op == "start" && inCSR != 0 && noConc {
					op = "reply"
				}
			}
			if strings.HasPrefix(op, "reply") && inCSR == 0 {
				continue
			}
			if strings.HasPrefix(op, "advance") && len(waiters) > 0 {
				continue // the fake clock cannot advance while a goroutine is parked on a sync.Mutex
			}
			switch {
			case op == "start" || op == "start-root" || op == "start-workload":
				name := security.WorkloadKeyCertResourceName
				if op == "start-root" || (op == "start" && r.Chance(35)) {
					name = security.RootCertReqResourceName
				}
				wasIdle := inCSR == 0
				start(name)
				if wasIdle && inCSR != 0 {
					if name == security.RootCertReqResourceName {
						res.tags["gen-via-rootca"] = true
					}
					// CA latency >= 1ns: makes the CreatedTime of every certificate distinct under the fake clock
					advance(safeAdvance(int64(1 + r.Intn(50_000_000))))
				}
			case op == "reply":
				ps := 0
				if !noConc && len(waiters) < 2 && r.Chance(30) {
					ps = 1 + r.Intn(2)
				}
				doReply(pickReply(), ps)
			case strings.HasPrefix(op, "reply-ok-roots="):
				id, _ := strconv.Atoi(strings.TrimPrefix(op, "reply-ok-roots="))
				doReply(reply{kind: "ok", ttl: time.Hour, bundle: []int{id}, chainRt: 1}, 0)
			case op == "reply-ok":
				rep := pickReply()
				rep.kind = "ok"
				doReply(rep, 0)
			case op == "reply-ok-park":
				rep := pickReply()
				rep.kind = "ok"
				doReply(rep, 1+r.Intn(2))
			case op == "reply-ok-newroots":
				// the CA's roots change (disjoint from the previous ones)
				rep := reply{kind: "ok", ttl: vlib.Pick(r, ttls), chainRt: 1}
				used := map[int]bool{}
				for _, x := range curRoots {
					used[x] = true
				}
				for len(rep.bundle) == 0 {
					for i := 1; i <= nRoots; i++ {
						if !used[i] && r.Bool() {
							rep.bundle = append(rep.bundle, i)
						}
					}
				}
				doReply(rep, 0)
			case op == "invalidate":
				if r.Bool() {
					mx := int64(0)
					for _, p := range pending {
						if p.hi > mx {
							mx = p.hi
						}
					}
					if d := mx - time.Now().UnixNano(); d > 0 {
						advance(d)
					}
				} else {
					b := []int{1 + r.Intn(nRoots)}
					if fmt.Sprint(b) == fmt.Sprint(curBundle) {
						b = append(b, 1+r.Intn(nRoots))
					}
					curBundle = b
					res.tags["bundle:changed"] = true
					_ = sc.UpdateConfigTrustBundle(bundlePEM(b))
					emit(vlib.App("HBundle", zlist(b)))
				}
			case op == "bundle-change":
				b := []int{1 + r.Intn(nRoots)}
				if fmt.Sprint(b) == fmt.Sprint(curBundle) {
					b = append(b, 1+r.Intn(nRoots))
				}
				curBundle = b
				res.tags["bundle:changed"] = true
				_ = sc.UpdateConfigTrustBundle(bundlePEM(b))
				emit(vlib.App("HBundle", zlist(b)))
			case op == "advance-small":
				advance(int64(r.Intn(1_000_000)))
			case op == "advance-first-due":
				// to the earliest pending due time (possibly a stale task's), or one tick around it
				if len(pending) > 0 {
					mn := pending[0].hi
					for _, p := range pending {
						if p.hi < mn {
							mn = p.hi
						}
					}
					d := mn - time.Now().UnixNano() + int64(r.Intn(3)) - 1
					if d < 0 {
						d = 0
					}
					res.tags["advance:at-rotation"] = true
					advance(safeAdvance(d))
				}
			case op == "advance-far":
				advance(int64(500 * 24 * time.Hour))
				res.tags["advance:long"] = true
			case op == "advance-rotate":
				mx := int64(0)
				for _, p := range pending {
					if p.hi > mx {
						mx = p.hi
					}
				}
				advance(mx - time.Now().UnixNano())
			case op == "advance":
				if len(waiters) > 0 {
					continue // the fake clock cannot advance while a goroutine is parked on a sync.Mutex
				}
				now := time.Now().UnixNano()
				var d int64
				k := r.Intn(100)
				switch {
				case len(pending) > 0 && k < 50:
					p := pending[r.Intn(len(pending))]
					d = p.hi - now + int64(r.Intn(3)) - 1 // just before / at / just after the rotation instant
					res.tags["advance:at-rotation"] = true
				case len(pending) > 0 && k < 60:
					p := pending[r.Intn(len(pending))]
					d = p.lo - now - 1
				case k < 75:
					d = int64(r.Intn(1000))
				case k < 90:
					d = int64(time.Duration(r.Intn(7200)) * time.Second)
				default:
					d = int64(time.Duration(1+r.Intn(100)) * 24 * time.Hour)
					res.tags["advance:long"] = true
				}
				if d < 0 {
					d = 0
				}
				advance(safeAdvance(d))
			case op == "bundle":
				var b []int
				if r.Chance(25) {
					b = curBundle // same bundle again: must be a no-op
					res.tags["bundle:same"] = true
				} else {
					n := r.Intn(3)
					for i := 0; i < n; i++ {
						b = append(b, 1+r.Intn(nRoots))
					}
				}
				if fmt.Sprint(b) != fmt.Sprint(curBundle) {
					cached = false
					res.tags["bundle:changed"] = true
					if inCSR != 0 {
						res.tags["bundle:during-csr"] = true
					}
				}
				curBundle = b
				_ = sc.UpdateConfigTrustBundle(bundlePEM(b))
				emit(vlib.App("HBundle", zlist(b)))
			}
			if h.twoCSR {
				res.viol = "two CSRSign calls in flight at once (generateMutex no longer serialises signing)"
				break
			}
		}
		_ = cached
		// drain: answer outstanding CSRs so that every goroutine finishes
		for guard := 0; inCSR != 0 && guard < 16; guard++ {
			rep := pickReply()
			if guard > 3 {
				rep.kind = "ok"
			}
			doReply(rep, 0)
		}
		wl, certRoot, tb := sc.VerifCacheState()
		wterm := "None"
		if wl != nil {
			o := h.observe(wl)
			wterm = vlib.Opt(true, vlib.Rec("i_key", vlib.NI(o.Key), "i_cert", vlib.NI(o.Cert), "i_created", vlib.Z(o.Created),
				"i_expire", vlib.Z(o.Expire), "i_root", zlist(o.Root)))
		}
		res.final = vlib.Rec("f_workload", wterm, "f_cert_root", zlist(rootIDs(certRoot)), "f_bundle", zlist(rootIDs(tb)),
			"f_ncsr", vlib.NI(len(h.csrs)))
		res.nsteps = len(res.steps)
		if gens >= 2 {
			res.tags["regenerated"] = true
		}
		sc.Close()
		synctest.Wait()
		_ = cfgTerm
		res.sample = []string{fmt.Sprintf("ratio=%v jitter=%v", ratio, jitter)}
		res.final = cfgTerm(ratio, jitter) + "\x00" + res.final
	})
	return res
}

func traceTerm(id int, tr traceResult) string {
	parts := strings.SplitN(tr.final, "\x00", 2)
	steps := vlib.ListOf(tr.steps, func(s stepRec) string {
		return vlib.Pair(s.term, vlib.ListOf(s.evs, func(e event) string { return e.term() }))
	})
	return vlib.App("Trace", vlib.NI(id), parts[0], vlib.Z(tr.t0), steps, parts[1])
}

// ---------------------------------------------------------------- rotateTime cases

type rotCase struct {
	Created, Expire, Now, Obs int64
	Ratio, Jitter             float64
}

var lifes = []int64{1, 2, 3, 7, 1000, 999_999_999, int64(time.Second), int64(time.Minute), int64(time.Hour), int64(24 * time.Hour),
	int64(90 * 24 * time.Hour), 1<<53 - 1, 1 << 53, 1<<53 + 1, 1<<53 + 3, int64(400 * 24 * time.Hour), int64(10 * 365 * 24 * time.Hour), 1 << 60}

func genRot(r *vlib.Rand) rotCase {
	var c rotCase
	c.Now = time.Now().UnixNano()
	age := int64(0)
	switch r.Intn(5) {
	case 0:
		age = 0
	case 1:
		age = int64(r.Intn(1000))
	case 2:
		age = int64(r.U64() % uint64(48*time.Hour))
	case 3:
		age = int64(r.U64() % uint64(100*24*time.Hour))
	case 4:
		age = -int64(r.Intn(5000)) // CreatedTime in the future: outside the precondition of the upper bound
	}
	c.Created = c.Now - age
	life := vlib.Pick(r, lifes)
	switch r.Intn(4) {
	case 0:
		life = int64(r.U64() % uint64(72*time.Hour))
	case 1:
		life = int64(r.U64()%(1<<55)) + 1
	}
	if r.Chance(6) {
		life = -int64(r.U64() % uint64(time.Hour)) // CA issued an already expired certificate
	}
	c.Expire = c.Created + life
	c.Ratio = vlib.Pick(r, ratios)
	switch r.Intn(4) {
	case 0:
		c.Ratio = float64(r.U64()>>11) / float64(uint64(1)<<53)
	case 1:
		c.Ratio = float64(r.Intn(1000)) / 1000
	}
	if r.Chance(35) {
		c.Jitter = vlib.Pick(r, jitters)
		if r.Bool() {
			c.Jitter = float64(r.U64()>>11) / float64(uint64(1)<<53)
		}
	}
	return c
}

func rotTerm(ctor string, id int, c rotCase) string {
	return vlib.App(ctor, vlib.NI(id), cfgTerm(c.Ratio, c.Jitter), vlib.Z(c.Created), vlib.Z(c.Expire), vlib.Z(c.Now), vlib.Z(c.Obs))
}

func runRot(c *rotCase) {
	it := security.SecretItem{CreatedTime: time.Unix(0, c.Created), ExpireTime: time.Unix(0, c.Expire)}
	c.Obs = int64(cache.VerifRotateTime(it, c.Ratio, c.Jitter))
}

// ---------------------------------------------------------------- entry point

const annBase = 1000000

func annTerm(id int, tr traceResult) string {
	steps := vlib.ListOf(tr.steps, func(s stepRec) string {
		return vlib.Pair(s.term, vlib.ListOf(s.evs, func(e event) string { return e.term() }))
	})
	return vlib.App("TraceAnn", vlib.NI(id), steps)
}

const findingRoot = "root-change-seen-by-rootca-request-not-announced"

func TestGen(t *testing.T) {
	setupRoots(t)
	c := vlib.NewCollector("C18", "V.C18.Run")
	c.Rule = "traces: random op scripts (start workload/ROOTCA caller, CA reply ok/err variants with chosen TTL and roots, clock advance aimed at " +
		"rotation instants, trust-bundle update) run against the real SecretManagerClient + real delayed queue under a synctest fake clock; " +
		"a trace is non-trivial if it has a concurrent caller parked on generateMutex, a fired rotation, a CA error, or a root/bundle change. " +
		"rot: rotateTime called directly on generated (created, expire, now, ratio, jitter); non-trivial = ratio strictly inside (0,1) or jitter > 0 or lifetime >= 2^53."
	seed := vlib.Seed()
	id := 0

	// 1. K8 witness + fixed finding reproducer
	id++
	if c.Wanted(id) {
		var rc rotCase
		synctest.Test(t, func(t *testing.T) {
			now := time.Now().UnixNano()
			rc = rotCase{Created: now, Expire: now + 1, Now: now, Ratio: 0.5}
			runRot(&rc)
		})
		c.Add(vlib.Case{ID: id, Term: rotTerm("RotWitness", id, rc), Tags: []string{"rot-witness"}, Sample: rc})
	}
	id++
	if c.Wanted(id) || c.Wanted(annBase+id) {
		tr := runTrace(t, 1, []string{"fixed-cfg", "start-workload", "reply-ok-roots=1", "advance-rotate", "start-root", "reply-ok-roots=2", "start-workload"})
		c.Add(vlib.Case{ID: id, Term: traceTerm(id, tr), Tags: []string{"trace", "finding-reproducer"}, Sample: map[string]any{"kind": "trace", "steps": sampleSteps(tr)}})
		c.FindingOf[annBase+id] = findingRoot
		c.Add(vlib.Case{ID: annBase + id, Term: annTerm(annBase+id, tr), Tags: []string{"trace-ann", "finding-reproducer"}, Trivial: true,
			Sample: map[string]any{"kind": "trace-ann", "steps": sampleSteps(tr)}})
	}

	// 2. rotateTime
	nrot := vlib.Scale(2000, 60000)
	synctest.Test(t, func(t *testing.T) {
		r := vlib.NewRand(seed ^ 0xc18)
		for i := 0; i < nrot; i++ {
			id++
			time.Sleep(time.Duration(r.Intn(1_000_000_000)))
			rc := genRot(r)
			if !c.Wanted(id) {
				continue
			}
			if pan, msg := vlib.Recover(func() { runRot(&rc) }); pan {
				c.Violate(vlib.Violation{ID: id, Kind: "panic", Detail: msg, Case: rc})
				continue
			}
			tags := []string{"rot"}
			if rc.Jitter > 0 {
				tags = append(tags, "rot:jitter>0")
			}
			if rc.Ratio > 1 || rc.Ratio < 0 {
				tags = append(tags, "rot:clamped")
			}
			if rc.Expire-rc.Created >= 1<<53 {
				tags = append(tags, "rot:life>=2^53")
			}
			if rc.Expire < rc.Created {
				tags = append(tags, "rot:negative-life")
			}
			if rc.Obs == 0 {
				tags = append(tags, "rot:delay=0")
			}
			triv := !(rc.Jitter > 0 || (rc.Ratio > 0 && rc.Ratio < 1) || rc.Expire-rc.Created >= 1<<53)
			c.Add(vlib.Case{ID: id, Term: rotTerm("Rot", id, rc), Tags: tags, Sample: rc, Trivial: triv})
		}
	})

	// 3. traces
	ntr := vlib.Scale(300, 8000)
	rs := vlib.NewRand(seed ^ 0x7ace)
	for i := 0; i < ntr; i++ {
		id++
		s := rs.SubSeed()
		if !c.Wanted(id) && !c.Wanted(annBase+id) {
			continue
		}
		var tr traceResult
		var script []string
		if i%6 == 5 {
			// scenario family: a superseded certificate's rotation task comes due while a newer one is cached
			script = []string{"start", "reply-ok", "advance-small", "bundle-change", "start", "reply-ok", "advance-first-due",
				"start-workload", "reply-ok", "advance-first-due", "start", "reply-ok", "advance-far", "start-workload", "reply-ok"}
		}
		if i%6 == 2 {
			// scenario family: the CA's roots change, the cache is invalidated, a ROOTCA request performs the renewal,
			// then ROOTCA / default requests are served from the cache
			script = []string{"start-workload", "reply-ok", "start-root", "invalidate", "start-root", "reply-ok-newroots",
				"start-root", "start-workload", "start-root", "advance-small", "start-root", "invalidate", "start-workload", "reply-ok-newroots", "start-root"}
		}
		if i%6 == 4 {
			// scenario family: callers arriving while the holder is between the CA answer and the cache update
			script = []string{"start", "reply-ok-park", "start", "invalidate", "start", "reply-ok-park", "start-workload", "advance-small", "start-root"}
		}
		if pan, msg := vlib.Recover(func() { tr = runTrace(t, s, script) }); pan {
			c.Violate(vlib.Violation{ID: id, Kind: "panic", Detail: msg, Case: map[string]any{"trace_seed": s}})
			continue
		}
		if tr.viol != "" {
			c.Violate(vlib.Violation{ID: id, Kind: "oracle", Detail: tr.viol, Case: map[string]any{"trace_seed": s, "steps": sampleSteps(tr)}})
			continue
		}
		tags := []string{"trace"}
		if script != nil {
			tags = append(tags, []string{"", "", "scenario:root-change-rootca-first", "", "scenario:park-in-registerSecret", "scenario:stale-task"}[i%6])
		}
		for k := range tr.tags {
			tags = append(tags, k)
		}
		if tr.hasRoot {
			// the known finding's own condition (a ROOTCA-triggered generation saw changed CA roots and nothing was
			// announced) is judged by a separate TraceAnn case; only that case is tagged, so the finding masks nothing else
			aid := annBase + id
			if c.Wanted(aid) {
				c.FindingOf[aid] = findingRoot
				c.Add(vlib.Case{ID: aid, Term: annTerm(aid, tr), Tags: []string{"trace-ann"}, Trivial: true,
					Sample: map[string]any{"kind": "trace-ann", "trace_seed": s, "steps": sampleSteps(tr)}})
			}
		}
		triv := !(tr.tags["start:blocked-on-mutex"] || tr.tags["rotation-fired"] || tr.tags["reply:err-with-waiters"] ||
			tr.tags["reply:errsign"] || tr.tags["ca-root-changed"] || tr.tags["bundle:changed"])
		c.Hyp("created_times_strictly_increasing (checked by Run.fresh_created on every trace)", 1)
		c.Add(vlib.Case{ID: id, Term: traceTerm(id, tr), Tags: tags, Trivial: triv,
			Sample: map[string]any{"kind": "trace", "trace_seed": s, "cfg": tr.sample, "steps": sampleSteps(tr)}})
	}
	if err := c.Flush(); err != nil {
		t.Fatal(err)
	}
}

func sampleSteps(tr traceResult) []string {
	var out []string
	for _, s := range tr.steps {
		var evs []string
		for _, e := range s.evs {
			evs = append(evs, e.term())
		}
		out = append(out, s.term+" => "+strings.Join(evs, " ; "))
	}
	return out
}
