//go:build verif

package c01

// Generated small worlds and meaningful config changes for the C01 (H)-validation / end-to-end harness.
// Everything is derived from a vlib.Rand; objects are written as YAML and parsed with the real crd parser,
// then validated with the real schema validators (an invalid generated object is a harness bug).

import (
	"fmt"
	"sort"
	"strings"
	"time"

	"istio.io/istio/pilot/pkg/config/kube/crd"
	"istio.io/istio/pkg/config"
	"istio.io/istio/pkg/config/schema/collections"
	"istio.io/istio/pkg/config/schema/gvk"
	"istio.io/istio/pkg/config/schema/kind"
	"verif/harness/vlib"
)

const (
	nsRoot = "istio-system"
	nsA    = "ns1" // the proxies' namespace
	nsB    = "ns2"
	nsBar  = "zz-barrier"
)

var wNamespaces = []string{nsRoot, nsA, nsB}

type okey struct {
	K        kind.Kind
	Ns, Name string
}

func (k okey) String() string { return fmt.Sprintf("%s/%s/%s", k.K, k.Ns, k.Name) }

type world struct {
	objs  map[okey]config.Config
	clock int
}

var baseTime = time.Date(2024, 1, 1, 0, 0, 0, 0, time.UTC)

func newWorld() *world { return &world{objs: map[okey]config.Config{}} }

func (w *world) keys() []okey {
	ks := make([]okey, 0, len(w.objs))
	for k := range w.objs {
		ks = append(ks, k)
	}
	sort.Slice(ks, func(i, j int) bool { return ks[i].String() < ks[j].String() })
	return ks
}

func (w *world) ofKind(k kind.Kind) []okey {
	var out []okey
	for _, o := range w.keys() {
		if o.K == k && o.Ns != nsBar {
			out = append(out, o)
		}
	}
	return out
}

// configs in creation order (what a fresh control plane is started with)
func (w *world) configs() []config.Config {
	ks := w.keys()
	sort.SliceStable(ks, func(i, j int) bool {
		return w.objs[ks[i]].CreationTimestamp.Before(w.objs[ks[j]].CreationTimestamp)
	})
	out := make([]config.Config, 0, len(ks))
	for _, k := range ks {
		out = append(out, w.objs[k].DeepCopy())
	}
	return out
}

var gvkOfKind = map[kind.Kind]config.GroupVersionKind{
	kind.ServiceEntry: gvk.ServiceEntry, kind.VirtualService: gvk.VirtualService, kind.DestinationRule: gvk.DestinationRule,
	kind.Sidecar: gvk.Sidecar, kind.Gateway: gvk.Gateway, kind.PeerAuthentication: gvk.PeerAuthentication,
	kind.RequestAuthentication: gvk.RequestAuthentication, kind.AuthorizationPolicy: gvk.AuthorizationPolicy,
	kind.EnvoyFilter: gvk.EnvoyFilter, kind.Telemetry: gvk.Telemetry, kind.ProxyConfig: gvk.ProxyConfig,
	kind.WorkloadGroup: gvk.WorkloadGroup,
}

var apiVersionOf = map[kind.Kind]string{
	kind.ServiceEntry: "networking.istio.io/v1", kind.VirtualService: "networking.istio.io/v1", kind.DestinationRule: "networking.istio.io/v1",
	kind.Sidecar: "networking.istio.io/v1", kind.Gateway: "networking.istio.io/v1", kind.PeerAuthentication: "security.istio.io/v1",
	kind.RequestAuthentication: "security.istio.io/v1", kind.AuthorizationPolicy: "security.istio.io/v1",
	kind.EnvoyFilter: "networking.istio.io/v1alpha3", kind.Telemetry: "telemetry.istio.io/v1", kind.ProxyConfig: "networking.istio.io/v1beta1",
	kind.WorkloadGroup: "networking.istio.io/v1",
}

// parse builds a validated config.Config of kind k from a YAML spec body (already indented by two spaces).
func parseObj(k kind.Kind, ns, name, spec string) (config.Config, error) {
	y := fmt.Sprintf("apiVersion: %s\nkind: %s\nmetadata:\n  name: %s\n  namespace: %s\nspec:\n%s", apiVersionOf[k], k.String(), name, ns, spec)
	cfgs, _, err := crd.ParseInputs(y)
	if err != nil {
		return config.Config{}, fmt.Errorf("parse %s/%s/%s: %v\n%s", k, ns, name, err, y)
	}
	if len(cfgs) != 1 {
		return config.Config{}, fmt.Errorf("parse %s/%s/%s: %d objects\n%s", k, ns, name, len(cfgs), y)
	}
	c := cfgs[0]
	c.GroupVersionKind = gvkOfKind[k]
	sch, ok := collections.Pilot.FindByGroupVersionKind(c.GroupVersionKind)
	if !ok {
		return config.Config{}, fmt.Errorf("no schema for %v", c.GroupVersionKind)
	}
	if _, err := sch.ValidateConfig(c); err != nil {
		return config.Config{}, fmt.Errorf("invalid generated %s/%s/%s: %v\n%s", k, ns, name, err, y)
	}
	return c, nil
}

// ---------------------------------------------------------------- spec generators

func seHost(ns, name string) string { return name + "." + ns + ".example" }

var seNames = []string{"s0", "s1", "s2"}

func nsIdx(ns string) int {
	for i, n := range wNamespaces {
		if n == ns {
			return i
		}
	}
	return 9
}
func nameIdx(name string) int {
	var i int
	fmt.Sscanf(name[1:], "%d", &i)
	return i
}

type portDef struct {
	num   int
	name  string
	proto string
}

var allPorts = []portDef{{80, "http", "HTTP"}, {8080, "http-alt", "HTTP"}, {9000, "tcp", "TCP"}, {443, "tls", "TLS"}}

func indent(s string, n int) string {
	pad := strings.Repeat(" ", n)
	lines := strings.Split(strings.TrimRight(s, "\n"), "\n")
	for i := range lines {
		lines[i] = pad + lines[i]
	}
	return strings.Join(lines, "\n") + "\n"
}

func exportTo(r *vlib.Rand) string {
	switch r.Intn(6) {
	case 0:
		return "exportTo: [\".\"]\n"
	case 1:
		return "exportTo: [\"*\"]\n"
	}
	return ""
}

func genSE(r *vlib.Rand, ns, name string) string {
	var b strings.Builder
	fmt.Fprintf(&b, "hosts: [%q]\n", seHost(ns, name))
	res := "STATIC"
	switch r.Intn(8) {
	case 0:
		res = "DNS"
	case 1:
		res = "NONE"
	}
	if res != "NONE" || r.Bool() {
		fmt.Fprintf(&b, "addresses: [\"240.%d.%d.1\"]\n", nsIdx(ns), nameIdx(name))
	}
	if r.Chance(25) {
		b.WriteString("location: MESH_EXTERNAL\n")
	} else {
		b.WriteString("location: MESH_INTERNAL\n")
	}
	fmt.Fprintf(&b, "resolution: %s\n", res)
	b.WriteString("ports:\n")
	np := 0
	for i, p := range allPorts {
		if (i == 0 && r.Chance(85)) || (i > 0 && r.Chance(35)) {
			fmt.Fprintf(&b, "- number: %d\n  name: %s\n  protocol: %s\n", p.num, p.name, p.proto)
			np++
		}
	}
	if np == 0 {
		b.WriteString("- number: 80\n  name: http\n  protocol: HTTP\n")
	}
	switch res {
	case "STATIC":
		ne := r.Intn(4)
		if ne > 0 {
			b.WriteString("endpoints:\n")
		}
		for j := 0; j < ne; j++ {
			// endpoint 0 of ns1/s0 is the sidecar's own address
			fmt.Fprintf(&b, "- address: 10.%d.%d.%d\n  labels:\n    app: %s\n    version: v%d\n", nsIdx(ns), nameIdx(name), 1+r.Intn(4), name, 1+r.Intn(2))
			if r.Chance(50) {
				// sidecar-injected workload: its ClusterLoadAssignment entry carries tlsMode metadata unless a DestinationRule disables TLS
				b.WriteString("    security.istio.io/tlsMode: istio\n")
			}
			if r.Chance(20) {
				fmt.Fprintf(&b, "  locality: region%d/zone%d\n", r.Intn(2), r.Intn(2))
			}
			if r.Chance(15) {
				fmt.Fprintf(&b, "  weight: %d\n", 1+r.Intn(5))
			}
		}
	case "DNS":
		if r.Bool() {
			fmt.Fprintf(&b, "endpoints:\n- address: ep%d.backend.example\n", r.Intn(3))
		}
	}
	if r.Chance(15) {
		fmt.Fprintf(&b, "subjectAltNames: [\"spiffe://cluster.local/ns/%s/sa/sa%d\"]\n", ns, r.Intn(2))
	}
	b.WriteString(exportTo(r))
	return b.String()
}

// a STATIC endpoint list may contain duplicates by address; make them unique (validation does not require it,
// but duplicate addresses make "the same endpoint" ambiguous)
func dedupEndpoints(spec string) string {
	lines := strings.Split(spec, "\n")
	seen := map[string]bool{}
	var out []string
	skip := false
	for _, l := range lines {
		if strings.HasPrefix(l, "- address: ") {
			skip = seen[l]
			seen[l] = true
		} else if !strings.HasPrefix(l, "  ") {
			skip = false
		}
		if !skip {
			out = append(out, l)
		}
	}
	return strings.Join(out, "\n")
}

func pickHost(r *vlib.Rand) string {
	ns := vlib.Pick(r, []string{nsA, nsA, nsB})
	return seHost(ns, vlib.Pick(r, seNames))
}

func genVS(r *vlib.Rand, ns, name string) string {
	var b strings.Builder
	h := pickHost(r)
	if r.Chance(15) {
		h = "*." + nsA + ".example"
	}
	fmt.Fprintf(&b, "hosts: [%q]\n", h)
	switch r.Intn(4) {
	case 0:
		b.WriteString("gateways: [\"mesh\", \"ns1/gw0\"]\n")
	case 1:
		b.WriteString("gateways: [\"ns1/gw0\"]\n")
	}
	nr := 1 + r.Intn(2)
	b.WriteString("http:\n")
	for i := 0; i < nr; i++ {
		if i < nr-1 || r.Bool() {
			fmt.Fprintf(&b, "- match:\n  - uri:\n      prefix: /p%d\n", r.Intn(4))
			b.WriteString("  route:\n")
		} else {
			b.WriteString("- route:\n")
		}
		nd := 1 + r.Intn(2)
		w := []int{100}
		if nd == 2 {
			x := 10 * (1 + r.Intn(9))
			w = []int{x, 100 - x}
		}
		for j := 0; j < nd; j++ {
			fmt.Fprintf(&b, "  - destination:\n      host: %s\n      port:\n        number: %d\n", pickHost(r), vlib.Pick(r, []int{80, 8080}))
			if r.Chance(25) {
				fmt.Fprintf(&b, "      subset: v%d\n", 1+r.Intn(2))
			}
			fmt.Fprintf(&b, "    weight: %d\n", w[j])
		}
		if r.Chance(30) {
			fmt.Fprintf(&b, "  timeout: %ds\n", 1+r.Intn(9))
		}
		if r.Chance(20) {
			fmt.Fprintf(&b, "  retries:\n    attempts: %d\n", 1+r.Intn(4))
		}
		if r.Chance(20) {
			fmt.Fprintf(&b, "  headers:\n    request:\n      set:\n        x-verif: \"v%d\"\n", r.Intn(5))
		}
	}
	if r.Chance(20) {
		fmt.Fprintf(&b, "tcp:\n- match:\n  - port: 9000\n  route:\n  - destination:\n      host: %s\n      port:\n        number: 9000\n", pickHost(r))
	}
	b.WriteString(exportTo(r))
	return b.String()
}

// hosts on which DestinationRules pile up (several rules feeding ONE host: same-namespace rules are merged, a
// client-namespace rule overrides a service-namespace rule)
var hotHosts = []string{"s0.ns1.example", "s1.ns2.example"}

func pickDRHost(r *vlib.Rand) string {
	if r.Chance(65) {
		return vlib.Pick(r, hotHosts)
	}
	return pickHost(r)
}

func drSubsets(r *vlib.Rand, b *strings.Builder) {
	b.WriteString("subsets:\n")
	n := 0
	for v := 1; v <= 2; v++ {
		if r.Chance(75) {
			// the selected label value varies: it decides which endpoints the subset cluster's load assignment contains
			fmt.Fprintf(b, "- name: v%d\n  labels:\n    version: v%d\n", v, vlib.Pick(r, []int{v, v, 3 - v}))
			if r.Chance(30) {
				fmt.Fprintf(b, "  trafficPolicy:\n    loadBalancer:\n      simple: %s\n", vlib.Pick(r, []string{"ROUND_ROBIN", "RANDOM"}))
			}
			n++
		}
	}
	if n == 0 {
		b.WriteString("- name: v1\n  labels:\n    version: v1\n")
	}
}

func drTLS(r *vlib.Rand, b *strings.Builder) {
	fmt.Fprintf(b, "  tls:\n    mode: %s\n", vlib.Pick(r, []string{"DISABLE", "DISABLE", "ISTIO_MUTUAL", "SIMPLE"}))
}

// genDR: role 0 = subsets only, role 1 = traffic policy only (TLS and/or load balancing, locality), role 2 = both.
// Rules of role 0 and 1 on the same host have disjoint fields, so the merged rule really depends on both.
func genDR(r *vlib.Rand, ns, name string) string {
	var b strings.Builder
	fmt.Fprintf(&b, "host: %s\n", pickDRHost(r))
	role := r.Intn(3)
	if role != 0 {
		b.WriteString("trafficPolicy:\n")
		n := 0
		if r.Chance(50) {
			fmt.Fprintf(&b, "  loadBalancer:\n    simple: %s\n", vlib.Pick(r, []string{"ROUND_ROBIN", "LEAST_REQUEST", "RANDOM", "PASSTHROUGH"}))
			if r.Chance(30) {
				fmt.Fprintf(&b, "    localityLbSetting:\n      enabled: %v\n", r.Bool())
			}
			n++
		}
		if r.Chance(30) {
			fmt.Fprintf(&b, "  connectionPool:\n    tcp:\n      maxConnections: %d\n", 10*(1+r.Intn(9)))
			n++
		}
		if r.Chance(30) {
			fmt.Fprintf(&b, "  outlierDetection:\n    consecutive5xxErrors: %d\n", 1+r.Intn(9))
			n++
		}
		if r.Chance(55) || n == 0 {
			drTLS(r, &b)
		}
	}
	if role == 0 || (role == 2 && r.Chance(60)) {
		drSubsets(r, &b)
	}
	b.WriteString(exportTo(r))
	return b.String()
}

// seedRules puts two or three DestinationRules with disjoint roles on one hot host (same namespace => merged;
// plus sometimes a client-namespace override) and makes sure the host has labelled STATIC endpoints.
func seedRules(w *world, r *vlib.Rand) error {
	host := vlib.Pick(r, hotHosts)
	svcNs, svcName := nsA, "s0"
	if host == "s1.ns2.example" {
		svcNs, svcName = nsB, "s1"
	}
	var se strings.Builder
	fmt.Fprintf(&se, "hosts: [%q]\naddresses: [\"240.%d.%d.1\"]\nlocation: MESH_INTERNAL\nresolution: STATIC\nports:\n- number: 80\n  name: http\n  protocol: HTTP\n", host, nsIdx(svcNs), nameIdx(svcName))
	if r.Bool() {
		se.WriteString("- number: 9000\n  name: tcp\n  protocol: TCP\n")
	}
	se.WriteString("endpoints:\n")
	for j := 1; j <= 2+r.Intn(2); j++ {
		fmt.Fprintf(&se, "- address: 10.%d.%d.%d\n  labels:\n    app: %s\n    version: v%d\n    security.istio.io/tlsMode: istio\n", nsIdx(svcNs), nameIdx(svcName), j, svcName, 1+j%2)
	}
	put := func(k okey, spec string) error {
		delete(w.objs, k)
		c, err := w.mkCfg(k, spec)
		if err != nil {
			return err
		}
		w.objs[k] = c
		return nil
	}
	if err := put(okey{kind.ServiceEntry, svcNs, svcName}, se.String()); err != nil {
		return err
	}
	var a, b, c strings.Builder
	fmt.Fprintf(&a, "host: %s\n", host)
	drSubsets(r, &a)
	fmt.Fprintf(&b, "host: %s\ntrafficPolicy:\n", host)
	drTLS(r, &b)
	names := []string{"d0", "d1"}
	if r.Bool() {
		names = []string{"d1", "d0"} // which of the two is older (merge order)
	}
	if err := put(okey{kind.DestinationRule, svcNs, names[0]}, a.String()); err != nil {
		return err
	}
	if err := put(okey{kind.DestinationRule, svcNs, names[1]}, b.String()); err != nil {
		return err
	}
	if r.Chance(50) {
		// a third rule: client namespace (or root namespace) rule for the same host
		ns := nsRoot
		if svcNs == nsB && r.Bool() {
			ns = nsA
		}
		fmt.Fprintf(&c, "host: %s\ntrafficPolicy:\n  loadBalancer:\n    simple: %s\n", host, vlib.Pick(r, []string{"RANDOM", "LEAST_REQUEST"}))
		if r.Bool() {
			drTLS(r, &c)
		}
		if err := put(okey{kind.DestinationRule, ns, "d2"}, c.String()); err != nil {
			return err
		}
	}
	return nil
}

func genSidecar(r *vlib.Rand, ns, name string) string {
	var b strings.Builder
	if name != "default" {
		fmt.Fprintf(&b, "workloadSelector:\n  labels:\n    app: %s\n", vlib.Pick(r, []string{"s0", "s1"}))
	}
	b.WriteString("egress:\n- hosts:\n")
	hs := [][]string{{"./*", "istio-system/*"}, {"*/*"}, {"./*"}, {"ns2/*", "./s0.ns1.example"}, {"./*", "ns2/s1.ns2.example"}}
	for _, h := range vlib.Pick(r, hs) {
		fmt.Fprintf(&b, "  - %q\n", h)
	}
	if r.Chance(30) {
		fmt.Fprintf(&b, "outboundTrafficPolicy:\n  mode: %s\n", vlib.Pick(r, []string{"REGISTRY_ONLY", "ALLOW_ANY"}))
	}
	return b.String()
}

func genGateway(r *vlib.Rand, ns, name string) string {
	var b strings.Builder
	b.WriteString("selector:\n  istio: ingressgateway\nservers:\n")
	hosts := vlib.Pick(r, []string{"\"*\"", "\"*.ns1.example\"", "\"s0.ns1.example\"", "\"ns1/*\"", "\"s0.ns1.example\", \"s1.ns2.example\""})
	fmt.Fprintf(&b, "- port:\n    number: %d\n    name: http\n    protocol: HTTP\n  hosts: [%s]\n", vlib.Pick(r, []int{80, 8080}), hosts)
	if r.Chance(40) {
		mode := vlib.Pick(r, []string{"PASSTHROUGH", "AUTO_PASSTHROUGH"})
		fmt.Fprintf(&b, "- port:\n    number: 443\n    name: tls\n    protocol: TLS\n  hosts: [%s]\n  tls:\n    mode: %s\n",
			vlib.Pick(r, []string{"\"*.ns1.example\"", "\"*\"", "\"s1.ns2.example\""}), mode)
	}
	return b.String()
}

func selector(r *vlib.Rand, p int) string {
	if r.Chance(p) {
		return fmt.Sprintf("selector:\n  matchLabels:\n    app: %s\n", vlib.Pick(r, []string{"s0", "s0", "s1"}))
	}
	return ""
}

func genPA(r *vlib.Rand, ns, name string) string {
	var b strings.Builder
	sel := selector(r, 35)
	b.WriteString(sel)
	fmt.Fprintf(&b, "mtls:\n  mode: %s\n", vlib.Pick(r, []string{"STRICT", "PERMISSIVE", "DISABLE"}))
	if sel != "" && r.Chance(40) {
		fmt.Fprintf(&b, "portLevelMtls:\n  %d:\n    mode: %s\n", vlib.Pick(r, []int{80, 8080, 9000}), vlib.Pick(r, []string{"STRICT", "PERMISSIVE", "DISABLE"}))
	}
	return b.String()
}

const inlineJwks = `{\"keys\":[{\"kty\":\"RSA\",\"e\":\"AQAB\",\"kid\":\"k%d\",\"n\":\"xAE7eB6qugXyCAG3yhh7pkDkT65pHymX-P7KfIupjf59vsdo91bSP9C8H07pSAGQO1MV_xFj9VswgsCg4R6otmg5PV2He95lZdHtOcU5DXIg_pbhLdKXbi66GlVeK6ABZOUW3WYtnNHD-91gVuoeJT_DwtGGcp4ignkgXfkiEm4sw-4sfb4qdt5oLbyVpmW6x9cfa7vs2WTfURiCrBoUqgBo_-4WTiULmmHSGZHOjzwa8WtrtOQGsAFjIbno85jp6MnGGGZPYZbDAa_b3y5u-YpW7ypZrvD8BgtKVjgtQgZhLAGezMt0ua3DRrWnKqTZ0BJ_EyxOGuHJrLsn00fnMQ\"}]}`

func genRA(r *vlib.Rand, ns, name string) string {
	var b strings.Builder
	b.WriteString(selector(r, 35))
	fmt.Fprintf(&b, "jwtRules:\n- issuer: iss%d@verif.example\n  jwks: \"%s\"\n", r.Intn(3), fmt.Sprintf(inlineJwks, r.Intn(3)))
	if r.Chance(30) {
		fmt.Fprintf(&b, "  forwardOriginalToken: true\n")
	}
	return b.String()
}

func genAP(r *vlib.Rand, ns, name string) string {
	var b strings.Builder
	b.WriteString(selector(r, 35))
	fmt.Fprintf(&b, "action: %s\n", vlib.Pick(r, []string{"ALLOW", "DENY", "ALLOW"}))
	b.WriteString("rules:\n")
	nr := 1 + r.Intn(2)
	for i := 0; i < nr; i++ {
		switch r.Intn(3) {
		case 0:
			fmt.Fprintf(&b, "- from:\n  - source:\n      namespaces: [\"ns%d\"]\n", 1+r.Intn(3))
		case 1:
			fmt.Fprintf(&b, "- to:\n  - operation:\n      paths: [\"/p%d*\"]\n      methods: [\"%s\"]\n", r.Intn(4), vlib.Pick(r, []string{"GET", "POST"}))
		default:
			fmt.Fprintf(&b, "- from:\n  - source:\n      principals: [\"cluster.local/ns/ns1/sa/sa%d\"]\n  to:\n  - operation:\n      ports: [\"%d\"]\n", r.Intn(3), vlib.Pick(r, []int{80, 8080, 9000}))
		}
	}
	return b.String()
}

func genEF(r *vlib.Rand, ns, name string) string {
	var b strings.Builder
	if r.Chance(30) {
		fmt.Fprintf(&b, "workloadSelector:\n  labels:\n    app: %s\n", vlib.Pick(r, []string{"s0", "s1"}))
	}
	if r.Chance(20) {
		fmt.Fprintf(&b, "priority: %d\n", r.Intn(3))
	}
	b.WriteString("configPatches:\n")
	n := 1 + r.Intn(2)
	for i := 0; i < n; i++ {
		ctx := vlib.Pick(r, []string{"ANY", "SIDECAR_OUTBOUND", "SIDECAR_INBOUND", "GATEWAY"})
		switch r.Intn(5) {
		case 0:
			c := ctx
			if c == "SIDECAR_INBOUND" {
				c = "ANY"
			}
			fmt.Fprintf(&b, "- applyTo: CLUSTER\n  match:\n    context: %s\n  patch:\n    operation: MERGE\n    value:\n      connect_timeout: %ds\n", c, 1+r.Intn(9))
		case 1:
			fmt.Fprintf(&b, "- applyTo: LISTENER\n  match:\n    context: %s\n  patch:\n    operation: MERGE\n    value:\n      per_connection_buffer_limit_bytes: %d\n", ctx, 1024*(1+r.Intn(8)))
		case 2:
			fmt.Fprintf(&b, "- applyTo: VIRTUAL_HOST\n  match:\n    context: %s\n  patch:\n    operation: MERGE\n    value:\n      include_request_attempt_count: %v\n", ctx, r.Bool())
		case 3:
			// includes wrapper-typed fields (max_direct_response_body_size_bytes, validate_clusters): merging into them
			// used to mutate process-wide shared wrappers (former finding, repaired in /repo f7db64b)
			fmt.Fprintf(&b, "- applyTo: ROUTE_CONFIGURATION\n  match:\n    context: %s\n  patch:\n    operation: MERGE\n    value:\n      most_specific_header_mutations_wins: %v\n      max_direct_response_body_size_bytes: %d\n      response_headers_to_add:\n      - header:\n          key: x-verif-rc\n          value: \"v%d\"\n", ctx, r.Bool(), 2048+r.Intn(4096), r.Intn(5))
		default:
			fmt.Fprintf(&b, "- applyTo: HTTP_FILTER\n  match:\n    context: %s\n    listener:\n      filterChain:\n        filter:\n          name: envoy.filters.network.http_connection_manager\n          subFilter:\n            name: envoy.filters.http.router\n  patch:\n    operation: INSERT_BEFORE\n    value:\n      name: verif.lua%d\n      typed_config:\n        \"@type\": type.googleapis.com/envoy.extensions.filters.http.lua.v3.Lua\n        inlineCode: \"function envoy_on_request(h) end -- %d\"\n", ctx, r.Intn(2), r.Intn(5))
		}
	}
	return b.String()
}

func genTelemetry(r *vlib.Rand, ns, name string) string {
	var b strings.Builder
	if r.Chance(25) {
		fmt.Fprintf(&b, "selector:\n  matchLabels:\n    app: %s\n", vlib.Pick(r, []string{"s0", "s1"}))
	}
	n := 0
	if r.Chance(60) {
		fmt.Fprintf(&b, "accessLogging:\n- providers:\n  - name: envoy\n  disabled: %v\n", r.Chance(30))
		if r.Chance(30) {
			fmt.Fprintf(&b, "  filter:\n    expression: \"response.code >= %d\"\n", 100*(2+r.Intn(4)))
		}
		n++
	}
	if r.Chance(40) {
		fmt.Fprintf(&b, "metrics:\n- providers:\n  - name: prometheus\n  overrides:\n  - match:\n      metric: REQUEST_COUNT\n    tagOverrides:\n      verif_tag%d:\n        value: \"'v%d'\"\n", r.Intn(2), r.Intn(4))
		n++
	}
	if n == 0 || r.Chance(20) {
		fmt.Fprintf(&b, "tracing:\n- randomSamplingPercentage: %d.0\n", 10*r.Intn(10))
	}
	return b.String()
}

func genProxyConfig(r *vlib.Rand, ns, name string) string {
	return fmt.Sprintf("concurrency: %d\n", 1+r.Intn(4))
}

func genWorkloadGroup(r *vlib.Rand, ns, name string) string {
	return fmt.Sprintf("metadata:\n  labels:\n    app: wg%d\ntemplate:\n  serviceAccount: sa%d\n", r.Intn(3), r.Intn(3))
}

type kindGen struct {
	K     kind.Kind
	Gen   func(r *vlib.Rand, ns, name string) string
	Nss   []string
	Names []string
}

var kindGens = []kindGen{
	{kind.ServiceEntry, genSE, []string{nsA, nsA, nsB}, seNames},
	{kind.VirtualService, genVS, []string{nsA, nsA, nsB}, []string{"v0", "v1"}},
	{kind.DestinationRule, genDR, []string{nsA, nsA, nsB, nsB, nsRoot}, []string{"d0", "d1", "d2"}},
	{kind.Sidecar, genSidecar, []string{nsA, nsA, nsRoot}, []string{"default", "c1"}},
	{kind.Gateway, genGateway, []string{nsA}, []string{"gw0", "gw1"}},
	{kind.PeerAuthentication, genPA, []string{nsA, nsRoot, nsB}, []string{"p0", "p1"}},
	{kind.RequestAuthentication, genRA, []string{nsA, nsRoot, nsB}, []string{"r0"}},
	{kind.AuthorizationPolicy, genAP, []string{nsA, nsRoot, nsB}, []string{"a0", "a1"}},
	{kind.EnvoyFilter, genEF, []string{nsA, nsRoot, nsB}, []string{"e0", "e1"}},
	{kind.Telemetry, genTelemetry, []string{nsA, nsRoot}, []string{"t0", "t1"}},
	{kind.ProxyConfig, genProxyConfig, []string{nsA, nsRoot}, []string{"pc0"}},
	{kind.WorkloadGroup, genWorkloadGroup, []string{nsA}, []string{"wg0"}},
}

func kindGenOf(k kind.Kind) kindGen {
	for _, g := range kindGens {
		if g.K == k {
			return g
		}
	}
	panic("no generator for " + k.String())
}

// ---------------------------------------------------------------- ops

type wop struct {
	Verb string // create | update | delete
	Key  okey
	Cfg  config.Config // for create/update
	Spec string        // YAML of the spec (for the evidence)
}

func (o wop) String() string { return o.Verb + " " + o.Key.String() }

// mkCfg parses spec and stamps the deterministic creation time.
func (w *world) mkCfg(k okey, spec string) (config.Config, error) {
	if k.K == kind.ServiceEntry {
		spec = dedupEndpoints(spec)
	}
	c, err := parseObj(k.K, k.Ns, k.Name, indent(spec, 2))
	if err != nil {
		return c, err
	}
	if old, ok := w.objs[k]; ok {
		c.CreationTimestamp = old.CreationTimestamp
	} else {
		w.clock++
		c.CreationTimestamp = baseTime.Add(time.Duration(w.clock) * time.Second)
	}
	return c, nil
}

// randOp draws one change of kind k against the current world (and applies it to the mirror).
func (w *world) randOp(r *vlib.Rand, k kind.Kind) (wop, error) {
	g := kindGenOf(k)
	ns := vlib.Pick(r, g.Nss)
	if k == kind.Sidecar && ns == nsRoot {
		// a root-namespace Sidecar must be the selector-less default
		return w.opOn(r, g, okey{k, ns, "default"})
	}
	return w.opOn(r, g, okey{k, ns, vlib.Pick(r, g.Names)})
}

func (w *world) opOn(r *vlib.Rand, g kindGen, key okey) (wop, error) {
	old, exists := w.objs[key]
	if exists && r.Chance(25) {
		delete(w.objs, key)
		return wop{Verb: "delete", Key: key}, nil
	}
	for try := 0; ; try++ {
		spec := g.Gen(r, key.Ns, key.Name)
		c, err := w.mkCfg(key, spec)
		if err != nil {
			return wop{}, err
		}
		if exists {
			if specEqual(old, c) && try < 20 {
				continue // an update must change something
			}
			w.objs[key] = c
			return wop{Verb: "update", Key: key, Cfg: c, Spec: spec}, nil
		}
		w.objs[key] = c
		return wop{Verb: "create", Key: key, Cfg: c, Spec: spec}, nil
	}
}

func specEqual(a, b config.Config) bool {
	return fmt.Sprint(a.Spec) == fmt.Sprint(b.Spec)
}

// initial world: a few services and a random selection of the other kinds
func genWorld(r *vlib.Rand) (*world, error) {
	w := newWorld()
	add := func(k kind.Kind, ns, name string) error {
		g := kindGenOf(k)
		key := okey{k, ns, name}
		if _, ok := w.objs[key]; ok {
			return nil
		}
		c, err := w.mkCfg(key, g.Gen(r, ns, name))
		if err != nil {
			return err
		}
		w.objs[key] = c
		return nil
	}
	// the sidecar's own service almost always exists
	if r.Chance(90) {
		if err := add(kind.ServiceEntry, nsA, "s0"); err != nil {
			return nil, err
		}
	}
	for _, g := range kindGens {
		n := r.Intn(3)
		if g.K == kind.ServiceEntry {
			n = 1 + r.Intn(3)
		}
		if g.K == kind.Gateway && r.Chance(70) {
			if err := add(kind.Gateway, nsA, "gw0"); err != nil {
				return nil, err
			}
		}
		for i := 0; i < n; i++ {
			ns := vlib.Pick(r, g.Nss)
			name := vlib.Pick(r, g.Names)
			if g.K == kind.Sidecar && ns == nsRoot {
				name = "default"
			}
			if err := add(g.K, ns, name); err != nil {
				return nil, err
			}
		}
	}
	return w, nil
}

// ---------------------------------------------------------------- scripted scenario for a known finding

type scriptOp struct {
	Verb string
	Key  okey
	Spec string
}

// An EnvoyFilter that MERGEs max_direct_response_body_size_bytes into the route configurations of ONE workload.
var sharedDefaultScript = [][]scriptOp{
	{{"create", okey{kind.EnvoyFilter, nsA, "e0"}, "workloadSelector:\n  labels:\n    app: s0\nconfigPatches:\n- applyTo: ROUTE_CONFIGURATION\n  match:\n    context: ANY\n  patch:\n    operation: MERGE\n    value:\n      max_direct_response_body_size_bytes: 1358\n"}},
	{{"delete", okey{kind.EnvoyFilter, nsA, "e0"}, ""}},
}

func sharedDefaultWorld() (*world, error) {
	w := newWorld()
	for _, o := range []scriptOp{
		{"create", okey{kind.ServiceEntry, nsA, "s0"}, "hosts: [\"s0.ns1.example\"]\naddresses: [\"240.1.0.1\"]\nlocation: MESH_INTERNAL\nresolution: STATIC\nports:\n- number: 80\n  name: http\n  protocol: HTTP\nendpoints:\n- address: 10.1.0.1\n  labels:\n    app: s0\n- address: 10.1.0.2\n  labels:\n    app: s0\n"},
		{"create", okey{kind.ServiceEntry, nsB, "s1"}, "hosts: [\"s1.ns2.example\"]\naddresses: [\"240.2.1.1\"]\nlocation: MESH_INTERNAL\nresolution: STATIC\nports:\n- number: 80\n  name: http\n  protocol: HTTP\nendpoints:\n- address: 10.2.1.1\n  labels:\n    app: s1\n"},
		{"create", okey{kind.Gateway, nsA, "gw0"}, "selector:\n  istio: ingressgateway\nservers:\n- port:\n    number: 80\n    name: http\n    protocol: HTTP\n  hosts: [\"*\"]\n"},
	} {
		c, err := w.mkCfg(o.Key, o.Spec)
		if err != nil {
			return nil, err
		}
		w.objs[o.Key] = c
	}
	return w, nil
}

func (w *world) scripted(o scriptOp) (wop, error) {
	if o.Verb == "delete" {
		delete(w.objs, o.Key)
		return wop{Verb: "delete", Key: o.Key}, nil
	}
	c, err := w.mkCfg(o.Key, o.Spec)
	if err != nil {
		return wop{}, err
	}
	w.objs[o.Key] = c
	return wop{Verb: o.Verb, Key: o.Key, Cfg: c, Spec: o.Spec}, nil
}

// ---------------------------------------------------------------- scripted scenario: known finding C01-eds-prev-scope-lost-across-pushes
//
// Two DestinationRule changes are already in the config store when the first of their two pushes builds its
// PushContext (the second one's event is debounced into the next push).  ns1/d1 (client-namespace rule that
// disables TLS towards s1.ns2.example) is deleted; the first push only carries the key of the unrelated rule
// istio-system/d0.  The first push resets the sidecar scope (the deleted rule is already gone from it) but does not
// consider the s1.ns2.example clusters affected (changed = {d0}); the second push (changed = {ns1/d1}) finds the rule
// neither in the current nor in the previous sidecar scope.  The ClusterLoadAssignment is never resent.
var prevScopeWorldOps = []scriptOp{
	{"create", okey{kind.ServiceEntry, nsA, "s0"}, "hosts: [\"s0.ns1.example\"]\naddresses: [\"240.1.0.1\"]\nlocation: MESH_INTERNAL\nresolution: STATIC\nports:\n- number: 80\n  name: http\n  protocol: HTTP\nendpoints:\n- address: 10.1.0.1\n  labels:\n    app: s0\n    security.istio.io/tlsMode: istio\n"},
	{"create", okey{kind.ServiceEntry, nsB, "s1"}, "hosts: [\"s1.ns2.example\"]\naddresses: [\"240.2.1.1\"]\nlocation: MESH_INTERNAL\nresolution: STATIC\nports:\n- number: 80\n  name: http\n  protocol: HTTP\nendpoints:\n- address: 10.2.1.1\n  labels:\n    app: s1\n    security.istio.io/tlsMode: istio\n- address: 10.2.1.2\n  labels:\n    app: s1\n    security.istio.io/tlsMode: istio\n"},
	{"create", okey{kind.DestinationRule, nsA, "d1"}, "host: s1.ns2.example\ntrafficPolicy:\n  tls:\n    mode: DISABLE\n"},
	{"create", okey{kind.DestinationRule, nsRoot, "d0"}, "host: s0.ns1.example\ntrafficPolicy:\n  loadBalancer:\n    simple: RANDOM\n"},
}

var prevScopeScript = [][]scriptOp{{
	{"update", okey{kind.DestinationRule, nsRoot, "d0"}, "host: s0.ns1.example\ntrafficPolicy:\n  loadBalancer:\n    simple: LEAST_REQUEST\n"},
	{"delete", okey{kind.DestinationRule, nsA, "d1"}, ""},
}}

func prevScopeWorld() (*world, error) {
	w := newWorld()
	for _, o := range prevScopeWorldOps {
		c, err := w.mkCfg(o.Key, o.Spec)
		if err != nil {
			return nil, err
		}
		w.objs[o.Key] = c
	}
	return w, nil
}

// ---------------------------------------------------------------- scripted scenario: known finding C01-stale-service-targets-on-endpoint-only-change
//
// A ServiceEntry with inline endpoints stops (then starts again) listing the address of a connected sidecar while
// other endpoints remain: the registry emits only an Endpoints-kind (incremental EDS) update, computeProxyState
// recomputes proxy.ServiceTargets only for ServiceEntry-kind keys of the proxy's namespace, so the proxy keeps its
// old inbound clusters / virtualInbound chains through every later push.
var staleTargetsWorldOps = []scriptOp{
	{"create", okey{kind.ServiceEntry, nsA, "s0"}, "hosts: [\"s0.ns1.example\"]\naddresses: [\"240.1.0.1\"]\nlocation: MESH_INTERNAL\nresolution: STATIC\nports:\n- number: 80\n  name: http\n  protocol: HTTP\nendpoints:\n- address: 10.1.0.1\n  labels:\n    app: s0\n- address: 10.1.0.2\n  labels:\n    app: s0\n"},
	{"create", okey{kind.ServiceEntry, nsB, "s1"}, "hosts: [\"s1.ns2.example\"]\naddresses: [\"240.2.1.1\"]\nlocation: MESH_INTERNAL\nresolution: STATIC\nports:\n- number: 80\n  name: http\n  protocol: HTTP\nendpoints:\n- address: 10.2.1.2\n  labels:\n    app: s1\n"},
}

const staleTargetsS0 = "hosts: [\"s0.ns1.example\"]\naddresses: [\"240.1.0.1\"]\nlocation: MESH_INTERNAL\nresolution: STATIC\nports:\n- number: 80\n  name: http\n  protocol: HTTP\nendpoints:\n"

var staleTargetsScript = [][]scriptOp{
	// the sidecar's own address leaves the endpoint list (10.1.0.2 stays)
	{{"update", okey{kind.ServiceEntry, nsA, "s0"}, staleTargetsS0 + "- address: 10.1.0.2\n  labels:\n    app: s0\n"}},
	// an unrelated full push does not repair it
	{{"create", okey{kind.AuthorizationPolicy, nsA, "a0"}, "rules:\n- from:\n  - source:\n      namespaces: [\"ns2\"]\n"}},
	// a ServiceEntry-kind key of the proxy's namespace does (service-level change: second port)
	{{"update", okey{kind.ServiceEntry, nsA, "s0"}, "hosts: [\"s0.ns1.example\"]\naddresses: [\"240.1.0.1\"]\nlocation: MESH_INTERNAL\nresolution: STATIC\nports:\n- number: 80\n  name: http\n  protocol: HTTP\n- number: 8080\n  name: http-alt\n  protocol: HTTP\nendpoints:\n- address: 10.1.0.2\n  labels:\n    app: s0\n"}},
	// and the other direction: the sidecar's address joins the endpoint list
	{{"update", okey{kind.ServiceEntry, nsA, "s0"}, "hosts: [\"s0.ns1.example\"]\naddresses: [\"240.1.0.1\"]\nlocation: MESH_INTERNAL\nresolution: STATIC\nports:\n- number: 80\n  name: http\n  protocol: HTTP\n- number: 8080\n  name: http-alt\n  protocol: HTTP\nendpoints:\n- address: 10.1.0.2\n  labels:\n    app: s0\n- address: 10.1.0.1\n  labels:\n    app: s0\n"}},
}

func staleTargetsWorld() (*world, error) {
	w := newWorld()
	for _, o := range staleTargetsWorldOps {
		c, err := w.mkCfg(o.Key, o.Spec)
		if err != nil {
			return nil, err
		}
		w.objs[o.Key] = c
	}
	return w, nil
}

// ---------------------------------------------------------------- scripted scenario: former finding C01-eds-cache-key-ignores-scoped-service-ports (repaired in /repo a15781a)
//
// ns1 proxies see s0.ns1.example with ports 80 and 9000.  A root-namespace default Sidecar (egress ns2/* only) is created:
// the ns2 sidecar now sees s0.ns1.example only through the destination of VirtualService ns2/v1, as a copy of the service
// that has port 80 only - but it still watches the port-9000 clusters when the push generates EDS, gets an EMPTY
// ClusterLoadAssignment for them (no such port in its view) and that is cached under a key that does not depend on the
// view.  The next EDS generation for the ns1 sidecar (whose view has port 9000 and two endpoints) is served the empty one.
var cacheViewWorldOps = []scriptOp{
	{"create", okey{kind.ServiceEntry, nsA, "s0"}, "hosts: [\"s0.ns1.example\"]\naddresses: [\"240.1.0.1\"]\nlocation: MESH_INTERNAL\nresolution: STATIC\nports:\n- number: 80\n  name: http\n  protocol: HTTP\n- number: 9000\n  name: tcp\n  protocol: TCP\nendpoints:\n- address: 10.1.0.1\n  labels:\n    app: s0\n- address: 10.1.0.2\n  labels:\n    app: s0\n"},
	{"create", okey{kind.ServiceEntry, nsB, "s1"}, "hosts: [\"s1.ns2.example\"]\naddresses: [\"240.2.1.1\"]\nlocation: MESH_INTERNAL\nresolution: STATIC\nports:\n- number: 80\n  name: http\n  protocol: HTTP\nendpoints:\n- address: 10.2.1.1\n  labels:\n    app: s1\n"},
	{"create", okey{kind.Sidecar, nsA, "default"}, "egress:\n- hosts:\n  - \"*/*\"\n"},
	{"create", okey{kind.VirtualService, nsB, "v1"}, "hosts: [\"s1.ns2.example\"]\nhttp:\n- route:\n  - destination:\n      host: s0.ns1.example\n      port:\n        number: 80\n"},
}

var cacheViewScript = [][]scriptOp{
	// the DestinationRule (private to ns2) makes this push generate EDS for the ns2 sidecar only
	{{"create", okey{kind.Sidecar, nsRoot, "default"}, "egress:\n- hosts:\n  - \"ns2/*\"\n"},
		{"create", okey{kind.DestinationRule, nsB, "d0"}, "host: s1.ns2.example\ntrafficPolicy:\n  loadBalancer:\n    simple: RANDOM\nexportTo: [\".\"]\n"}},
	// a push that regenerates EDS for everybody (EnvoyFilter is neither skipped for EDS nor delta-aware)
	{{"create", okey{kind.EnvoyFilter, nsRoot, "e0"}, "workloadSelector:\n  labels:\n    app: nobody\nconfigPatches:\n- applyTo: CLUSTER\n  match:\n    context: SIDECAR_OUTBOUND\n  patch:\n    operation: MERGE\n    value:\n      connect_timeout: 3s\n"}},
}

func cacheViewWorld() (*world, error) {
	w := newWorld()
	for _, o := range cacheViewWorldOps {
		c, err := w.mkCfg(o.Key, o.Spec)
		if err != nil {
			return nil, err
		}
		w.objs[o.Key] = c
	}
	return w, nil
}
