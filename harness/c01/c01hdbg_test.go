//go:build verif

package c01

import (
	"fmt"
	"sync"

	discovery "github.com/envoyproxy/go-control-plane/envoy/service/discovery/v3"

	"istio.io/istio/pilot/pkg/model"
	"istio.io/istio/pilot/pkg/xds"
	v3 "istio.io/istio/pilot/pkg/xds/v3"
)

// logCache: development aid (VERIF_C01H_DEBUG): records every EDS cache Add/Get-hit.
type logCache struct {
	model.XdsCache
	mu  sync.Mutex
	log []string
	tag string
}

func (c *logCache) Add(e model.XdsCacheEntry, r *model.PushRequest, v *discovery.Resource) {
	var k any = "-"
	if e.Cacheable() {
		k = e.Key()
	}
	c.mu.Lock()
	c.log = append(c.log, fmt.Sprintf("[%s] ADD %s key=%v len=%d cacheable=%v start=%v", c.tag, v.Name, k, len(v.Resource.Value), e.Cacheable(), r.Start.UnixNano()))
	c.mu.Unlock()
	c.XdsCache.Add(e, r, v)
}

func (c *logCache) Get(e model.XdsCacheEntry) *discovery.Resource {
	v := c.XdsCache.Get(e)
	if v != nil {
		c.mu.Lock()
		c.log = append(c.log, fmt.Sprintf("[%s] HIT %s key=%v len=%d", c.tag, v.Name, e.Key(), len(v.Resource.Value)))
		c.mu.Unlock()
	}
	return v
}

func installLogCache(s *xds.DiscoveryServer) *logCache {
	g := s.Generators[v3.EndpointType].(*xds.EdsGenerator)
	lc := &logCache{XdsCache: g.Cache}
	g.Cache = lc
	return lc
}

type logEds struct {
	inner model.XdsResourceGenerator
	lc    *logCache
}

func (g *logEds) Generate(proxy *model.Proxy, w *model.WatchedResource, req *model.PushRequest) (model.Resources, model.XdsLogDetails, error) {
	sc := proxy.SidecarScope
	desc := "nil-scope"
	if sc != nil {
		desc = fmt.Sprintf("scope=%s/%s ver=%s", sc.Namespace, sc.Name, sc.Version)
		for h, svc := range sc.ServicesByHostname() {
			desc += fmt.Sprintf(" %s@%p[", h, svc)
			for _, p := range svc.Ports {
				desc += fmt.Sprintf("%d/%s ", p.Port, p.Name)
			}
			desc += "]"
		}
	}
	var keys []string
	for k := range req.ConfigsUpdated {
		keys = append(keys, k.String())
	}
	g.lc.mu.Lock()
	g.lc.log = append(g.lc.log, fmt.Sprintf("[%s] GEN proxy=%s forced=%v keys=%v names=%d %s pushver=%s", g.lc.tag, proxy.ID, req.Forced, keys, len(w.ResourceNames), desc, req.Push.PushVersion))
	g.lc.mu.Unlock()
	return g.inner.Generate(proxy, w, req)
}

func installLogEds(s *xds.DiscoveryServer, lc *logCache) {
	s.Generators[v3.EndpointType] = &logEds{inner: s.Generators[v3.EndpointType], lc: lc}
}
