//go:build verif

package c01

// C01 (H) validation and end-to-end convergence against the REAL generators.
//
// A "session" = a generated world on a fake discovery server (pilot/test/xds) + long-lived simulated Envoy
// clients (SotW ADS over an in-memory stream served by the real DiscoveryServer.StreamAggregatedResources) +
// a history of config changes.  The harness owns the batching: every ConfigUpdate the real controllers emit is
// captured (xds.VerifTapPushChannel), merged with the real PushRequest.Merge exactly as debounce() does and
// handed to the real DiscoveryServer.Push (partial PushContext update, push queue, pushConnection,
// computeProxyState, DefaultProxyNeedsPush, the five generators with their *NeedsPush gates, the XDS cache).
//
// Determinism (no sleeps-as-synchronisation):
//   * krt pipelines: after a batch of store operations a "barrier" object of every touched kind is updated; krt
//     delivers per path in FIFO order, so once the barrier's own push requests (and, for ServiceEntry, its
//     endpoint in the by-IP index) are observed, everything before it has been emitted.
//   * pushes: wait until the push queue is idle (xds.VerifPushQueueIdle).
//   * client requests: two no-op requests (stale nonce) are appended; when the server's receive loop asks for
//     the next request after them, everything before has been processed (reqChan has capacity 1).

import (
	"context"
	"fmt"
	"io"
	"net"
	"os"
	"runtime"
	"sort"
	"strings"
	"sync"
	"testing"
	"time"

	cluster "github.com/envoyproxy/go-control-plane/envoy/config/cluster/v3"
	core "github.com/envoyproxy/go-control-plane/envoy/config/core/v3"
	endpoint "github.com/envoyproxy/go-control-plane/envoy/config/endpoint/v3"
	listener "github.com/envoyproxy/go-control-plane/envoy/config/listener/v3"
	route "github.com/envoyproxy/go-control-plane/envoy/config/route/v3"
	discovery "github.com/envoyproxy/go-control-plane/envoy/service/discovery/v3"
	"google.golang.org/grpc"
	"google.golang.org/grpc/peer"
	"google.golang.org/protobuf/encoding/prototext"
	"google.golang.org/protobuf/proto"

	"istio.io/istio/pilot/pkg/features"
	"istio.io/istio/pilot/pkg/model"
	core2 "istio.io/istio/pilot/pkg/networking/core"
	istio_route "istio.io/istio/pilot/pkg/networking/core/route"
	"istio.io/istio/pilot/pkg/xds"
	v3 "istio.io/istio/pilot/pkg/xds/v3"
	xdsfake "istio.io/istio/pilot/test/xds"
	"istio.io/istio/pilot/test/xdstest"
	"istio.io/istio/pkg/config/schema/kind"
	"istio.io/istio/pkg/jwt"
	"istio.io/istio/pkg/slices"
	"istio.io/istio/pkg/util/sets"
	"verif/harness/vlib"
)

// ---------------------------------------------------------------- test.Failer with explicit cleanup

type hFatal struct{ msg string }

type hFailer struct {
	mu       sync.Mutex
	cleanups []func()
}

func (f *hFailer) Fail()                             {}
func (f *hFailer) FailNow()                          { panic(hFatal{"FailNow"}) }
func (f *hFailer) Fatal(args ...any)                 { panic(hFatal{fmt.Sprint(args...)}) }
func (f *hFailer) Fatalf(format string, args ...any) { panic(hFatal{fmt.Sprintf(format, args...)}) }
func (f *hFailer) Log(args ...any)                   {}
func (f *hFailer) Logf(format string, args ...any)   {}
func (f *hFailer) Helper()                           {}
func (f *hFailer) Skip(args ...any)                  { panic(hFatal{"Skip"}) }
func (f *hFailer) TempDir() string {
	d, _ := os.MkdirTemp("", "verif-c01h")
	f.Cleanup(func() { _ = os.RemoveAll(d) })
	return d
}

func (f *hFailer) Cleanup(fn func()) {
	f.mu.Lock()
	defer f.mu.Unlock()
	f.cleanups = append(f.cleanups, fn)
}

func (f *hFailer) close() {
	f.mu.Lock()
	cs := f.cleanups
	f.cleanups = nil
	f.mu.Unlock()
	for i := len(cs) - 1; i >= 0; i-- {
		func() {
			defer func() { _ = recover() }()
			cs[i]()
		}()
	}
}

const waitLimit = 30 * time.Second

// waitFor polls a condition (yielding, then backing off to 200µs naps); false = not reached within waitLimit.
func waitFor(cond func() bool) bool {
	deadline := time.Now().Add(waitLimit)
	for i := 0; ; i++ {
		if cond() {
			return true
		}
		if i < 50 {
			runtime.Gosched()
		} else {
			if time.Now().After(deadline) {
				return false
			}
			time.Sleep(200 * time.Microsecond)
		}
	}
}

// ---------------------------------------------------------------- in-memory ADS stream

type memStream struct {
	grpc.ServerStream
	ctx    context.Context
	cancel context.CancelFunc
	reqCh  chan *discovery.DiscoveryRequest

	dead    chan struct{} // closed when the server side of the stream returned
	deadErr error

	mu      sync.Mutex
	entered int // Recv() calls entered by the server's receive loop
	sent    int // requests handed to it
	resps   []*discovery.DiscoveryResponse
}

func newMemStream() *memStream {
	ctx, cancel := context.WithCancel(peer.NewContext(context.Background(), &peer.Peer{Addr: &net.TCPAddr{IP: net.IPv4(127, 0, 0, 1), Port: 15010}}))
	return &memStream{ctx: ctx, cancel: cancel, reqCh: make(chan *discovery.DiscoveryRequest), dead: make(chan struct{})}
}

func (m *memStream) Context() context.Context { return m.ctx }

func (m *memStream) Send(r *discovery.DiscoveryResponse) error {
	m.mu.Lock()
	m.resps = append(m.resps, r)
	m.mu.Unlock()
	return nil
}

func (m *memStream) Recv() (*discovery.DiscoveryRequest, error) {
	m.mu.Lock()
	m.entered++
	m.mu.Unlock()
	select {
	case r := <-m.reqCh:
		return r, nil
	case <-m.ctx.Done():
		return nil, io.EOF
	}
}

func (m *memStream) request(r *discovery.DiscoveryRequest) error {
	select {
	case m.reqCh <- r:
		m.mu.Lock()
		m.sent++
		m.mu.Unlock()
		return nil
	case <-m.dead:
		return fmt.Errorf("the server closed the stream: %v", m.deadErr)
	case <-time.After(waitLimit):
		return fmt.Errorf("server did not take a %s request within %v", v3.GetShortType(r.TypeUrl), waitLimit)
	}
}

// processed: every request handed over so far has been fully processed by the server's stream loop.
func (m *memStream) processed() error {
	for i := 0; i < 2; i++ {
		if err := m.request(&discovery.DiscoveryRequest{TypeUrl: v3.ClusterType, ResponseNonce: "verif-stale-nonce"}); err != nil {
			return err
		}
	}
	ok := waitFor(func() bool {
		select {
		case <-m.dead:
			return true
		default:
		}
		m.mu.Lock()
		defer m.mu.Unlock()
		return m.entered == m.sent+1
	})
	select {
	case <-m.dead:
		return fmt.Errorf("the server closed the stream: %v", m.deadErr)
	default:
	}
	if !ok {
		return fmt.Errorf("server receive loop did not come back within %v", waitLimit)
	}
	return nil
}

func (m *memStream) take() []*discovery.DiscoveryResponse {
	m.mu.Lock()
	defer m.mu.Unlock()
	r := m.resps
	m.resps = nil
	return r
}

// ---------------------------------------------------------------- simulated Envoy (SotW ADS)

const (
	xCDS = iota
	xEDS
	xLDS
	xRDS
	xNDS
	nX
)

var xURL = [nX]string{v3.ClusterType, v3.EndpointType, v3.ListenerType, v3.RouteType, v3.NameTableType}
var xName = [nX]string{"CDS", "EDS", "LDS", "RDS", "NDS"}

func xOf(url string) int {
	for i, u := range xURL {
		if u == url {
			return i
		}
	}
	return -1
}

type nodeSpec struct {
	Name   string
	Type   model.NodeType
	IP     string
	ID     string
	Ns     string
	Labels map[string]string
	NDS    bool
}

func (n nodeSpec) node() *core.Node {
	meta := model.NodeMetadata{Namespace: n.Ns, Labels: n.Labels, IstioVersion: "1.24.0", ClusterID: "Kubernetes"}
	if n.NDS {
		meta.DNSCapture = true
	}
	return &core.Node{
		Id:       fmt.Sprintf("%s~%s~%s.%s~%s.svc.cluster.local", n.Type, n.IP, n.ID, n.Ns, n.Ns),
		Metadata: meta.ToStruct(),
	}
}

var nodeSpecs = []nodeSpec{
	{Name: "sidecar-ns1", Type: model.SidecarProxy, IP: "10.1.0.1", ID: "app-s0", Ns: nsA, Labels: map[string]string{"app": "s0", "version": "v1"}, NDS: true},
	{Name: "router-ns1", Type: model.Router, IP: "10.1.9.1", ID: "gw", Ns: nsA, Labels: map[string]string{"istio": "ingressgateway"}},
	{Name: "sidecar-ns2", Type: model.SidecarProxy, IP: "10.2.1.1", ID: "app-s1", Ns: nsB, Labels: map[string]string{"app": "s1", "version": "v1"}, NDS: true},
}

type simClient struct {
	spec  nodeSpec
	st    *memStream
	done  chan error
	first bool

	res        [nX]map[string][]byte
	names      [nX][]string // EDS / RDS subscriptions
	nonce, ver [nX]string
	subscribed [nX]bool

	// observation of the current round
	gotType  [nX]bool
	gotNames [nX]map[string]bool
}

func connect(s *xds.DiscoveryServer, spec nodeSpec) *simClient {
	c := &simClient{spec: spec, st: newMemStream(), done: make(chan error, 1), first: true}
	for i := range c.res {
		c.res[i] = map[string][]byte{}
		c.gotNames[i] = map[string]bool{}
	}
	go func() {
		err := s.StreamAggregatedResources(c.st)
		c.st.deadErr = err
		close(c.st.dead)
		c.done <- err
	}()
	return c
}

func (c *simClient) close() {
	c.st.cancel()
	select {
	case <-c.done:
	case <-time.After(waitLimit):
	}
}

func (c *simClient) resetRound() {
	for i := range c.gotType {
		c.gotType[i] = false
		c.gotNames[i] = map[string]bool{}
	}
}

func (c *simClient) send(x int) error {
	r := &discovery.DiscoveryRequest{TypeUrl: xURL[x], VersionInfo: c.ver[x], ResponseNonce: c.nonce[x]}
	if x == xEDS || x == xRDS {
		r.ResourceNames = append([]string(nil), c.names[x]...)
	}
	if c.first {
		r.Node = c.spec.node()
		c.first = false
	}
	c.subscribed[x] = true
	return c.st.request(r)
}

func sortedUnique(xs []string) []string {
	xs = append([]string(nil), xs...)
	sort.Strings(xs)
	out := xs[:0]
	for i, x := range xs {
		if i == 0 || x != xs[i-1] {
			out = append(out, x)
		}
	}
	return out
}

// handle applies a batch of responses with SotW semantics (CDS/LDS/NDS replace, EDS/RDS upsert) and answers
// like Envoy: one ACK per type carrying the latest nonce and the current subscription.
func (c *simClient) handle(rs []*discovery.DiscoveryResponse) error {
	acked, namesChanged, err := c.apply(rs)
	if err != nil {
		return err
	}
	return c.answer(acked, namesChanged)
}

// apply: client-side state update only
func (c *simClient) apply(rs []*discovery.DiscoveryResponse) (acked, namesChanged [nX]bool, err error) {
	for _, r := range rs {
		x := xOf(r.TypeUrl)
		if x < 0 {
			return acked, namesChanged, fmt.Errorf("unexpected response type %s", r.TypeUrl)
		}
		c.nonce[x], c.ver[x] = r.Nonce, r.VersionInfo
		acked[x] = true
		c.gotType[x] = true
		switch x {
		case xCDS:
			m := map[string][]byte{}
			var cls []*cluster.Cluster
			for _, a := range r.Resources {
				cl := &cluster.Cluster{}
				if err := a.UnmarshalTo(cl); err != nil {
					return acked, namesChanged, err
				}
				m[cl.Name] = a.Value
				c.gotNames[x][cl.Name] = true
				cls = append(cls, cl)
			}
			c.res[x] = m
			nn := sortedUnique(xdstest.ExtractEdsClusterNames(cls))
			if !slices.Equal(nn, c.names[xEDS]) {
				c.names[xEDS] = nn
				namesChanged[xEDS] = true
			}
		case xLDS:
			m := map[string][]byte{}
			var ls []*listener.Listener
			for _, a := range r.Resources {
				l := &listener.Listener{}
				if err := a.UnmarshalTo(l); err != nil {
					return acked, namesChanged, err
				}
				m[l.Name] = a.Value
				c.gotNames[x][l.Name] = true
				ls = append(ls, l)
			}
			c.res[x] = m
			nn := sortedUnique(xdstest.ExtractRoutesFromListeners(ls))
			if !slices.Equal(nn, c.names[xRDS]) {
				c.names[xRDS] = nn
				namesChanged[xRDS] = true
			}
		case xEDS:
			for _, a := range r.Resources {
				l := &endpoint.ClusterLoadAssignment{}
				if err := a.UnmarshalTo(l); err != nil {
					return acked, namesChanged, err
				}
				c.res[x][l.ClusterName] = a.Value
				c.gotNames[x][l.ClusterName] = true
			}
		case xRDS:
			for _, a := range r.Resources {
				l := &route.RouteConfiguration{}
				if err := a.UnmarshalTo(l); err != nil {
					return acked, namesChanged, err
				}
				c.res[x][l.Name] = a.Value
				c.gotNames[x][l.Name] = true
			}
		case xNDS:
			m := map[string][]byte{}
			for _, a := range r.Resources {
				m["nametable"] = a.Value
				c.gotNames[x]["nametable"] = true
			}
			c.res[x] = m
		}
	}
	// drop what is no longer subscribed (Envoy removes the resources of removed clusters / listeners)
	for _, x := range []int{xEDS, xRDS} {
		keep := map[string]bool{}
		for _, n := range c.names[x] {
			keep[n] = true
		}
		for n := range c.res[x] {
			if !keep[n] {
				delete(c.res[x], n)
			}
		}
	}
	return acked, namesChanged, nil
}

// answer like Envoy: one ACK per type carrying the latest nonce and the current subscription
func (c *simClient) answer(acked, namesChanged [nX]bool) error {
	for x := 0; x < nX; x++ {
		if !acked[x] && !namesChanged[x] {
			continue
		}
		if x == xEDS || x == xRDS {
			if len(c.names[x]) == 0 {
				if !c.subscribed[x] {
					continue
				}
				// empty subscription = unsubscribe
				if err := c.send(x); err != nil {
					return err
				}
				c.subscribed[x] = false
				c.nonce[x], c.ver[x] = "", ""
				continue
			}
		}
		if err := c.send(x); err != nil {
			return err
		}
	}
	return nil
}

func (c *simClient) snapshot() [nX]map[string][]byte {
	var out [nX]map[string][]byte
	for x := range c.res {
		out[x] = map[string][]byte{}
		for k, v := range c.res[x] {
			out[x][k] = v
		}
	}
	return out
}

// ---------------------------------------------------------------- live server

type liveServer struct {
	f        *hFailer
	s        *xdsfake.FakeDiscoveryServer
	tap      chan *model.PushRequest
	held     []*model.PushRequest
	w        *world
	barrierN int
	expect   map[model.ConfigKey]int // barrier key -> number of captured requests that must contain it
	seen     map[model.ConfigKey]int
	clients  []*simClient
}

func barrierSpec(k kind.Kind, n int) string {
	host := "barrier." + nsBar + ".example"
	switch k {
	case kind.ServiceEntry:
		// the second port differs from the previous barrier's (service-level change -> pushServiceUpdates), and so
		// does the endpoint address (-> pushServiceEndpointUpdates)
		p := fmt.Sprintf("- number: %d\n  name: http-alt\n  protocol: HTTP\n", 8000+n%1000)
		return fmt.Sprintf("hosts: [%q]\nexportTo: [\".\"]\nlocation: MESH_INTERNAL\nresolution: STATIC\nports:\n- number: 80\n  name: http\n  protocol: HTTP\n%sendpoints:\n- address: %s\n", host, p, barrierIP(n))
	case kind.VirtualService:
		return fmt.Sprintf("hosts: [%q]\nexportTo: [\".\"]\nhttp:\n- route:\n  - destination:\n      host: %s\n  timeout: %ds\n", host, host, 1+n%50)
	case kind.DestinationRule:
		return fmt.Sprintf("host: %s\nexportTo: [\".\"]\ntrafficPolicy:\n  connectionPool:\n    tcp:\n      maxConnections: %d\n", host, 1+n)
	case kind.Sidecar:
		return fmt.Sprintf("workloadSelector:\n  labels:\n    app: barrier\negress:\n- hosts:\n  - \"./b%d.example\"\n", n)
	case kind.Gateway:
		return fmt.Sprintf("selector:\n  istio: barrier\nservers:\n- port:\n    number: 80\n    name: http\n    protocol: HTTP\n  hosts: [\"b%d.barrier.example\"]\n", n)
	case kind.PeerAuthentication:
		return fmt.Sprintf("selector:\n  matchLabels:\n    app: barrier\nmtls:\n  mode: %s\nportLevelMtls:\n  %d:\n    mode: STRICT\n", []string{"STRICT", "PERMISSIVE"}[n%2], 1000+n)
	case kind.RequestAuthentication:
		return fmt.Sprintf("selector:\n  matchLabels:\n    app: barrier\njwtRules:\n- issuer: barrier%d\n  jwks: \"%s\"\n", n, fmt.Sprintf(inlineJwks, 0))
	case kind.AuthorizationPolicy:
		return fmt.Sprintf("selector:\n  matchLabels:\n    app: barrier\nrules:\n- from:\n  - source:\n      namespaces: [\"b%d\"]\n", n)
	case kind.EnvoyFilter:
		return fmt.Sprintf("workloadSelector:\n  labels:\n    app: barrier\nconfigPatches:\n- applyTo: CLUSTER\n  match:\n    context: SIDECAR_OUTBOUND\n  patch:\n    operation: MERGE\n    value:\n      connect_timeout: %ds\n", 1+n)
	case kind.Telemetry:
		return fmt.Sprintf("selector:\n  matchLabels:\n    app: barrier\ntracing:\n- randomSamplingPercentage: %d.0\n", n%100)
	case kind.ProxyConfig:
		return fmt.Sprintf("selector:\n  matchLabels:\n    app: barrier\nconcurrency: %d\n", 1+n)
	case kind.WorkloadGroup:
		return fmt.Sprintf("metadata:\n  labels:\n    app: b%d\ntemplate:\n  serviceAccount: barrier\n", n)
	}
	panic("no barrier for " + k.String())
}

func barrierIP(n int) string { return fmt.Sprintf("10.99.%d.%d", (n/250)%250, 1+n%250) }

// what the real controllers emit for one update of the barrier object of kind k
func barrierKeys(k kind.Kind) map[model.ConfigKey]int {
	switch k {
	case kind.ServiceEntry:
		h := "barrier." + nsBar + ".example"
		return map[model.ConfigKey]int{
			{Kind: kind.ServiceEntry, Name: h, Namespace: nsBar}: 1, // pushServiceUpdates (ports changed)
			{Kind: kind.Endpoints, Name: h, Namespace: nsBar}:    1, // pushServiceEndpointUpdates -> EDSUpdate
		}
	case kind.VirtualService:
		// config handler + VirtualServiceController.xdsPush
		return map[model.ConfigKey]int{{Kind: k, Name: "barrier", Namespace: nsBar}: 2}
	}
	return map[model.ConfigKey]int{{Kind: k, Name: "barrier", Namespace: nsBar}: 1}
}

func addBarriers(w *world) error {
	for _, g := range kindGens {
		key := okey{g.K, nsBar, "barrier"}
		if _, ok := w.objs[key]; ok {
			continue
		}
		c, err := w.mkCfg(key, barrierSpec(g.K, 0))
		if err != nil {
			return err
		}
		w.objs[key] = c
	}
	return nil
}

func newLive(w *world) (l *liveServer, err error) {
	l = &liveServer{f: &hFailer{}, w: w, expect: map[model.ConfigKey]int{}, seen: map[model.ConfigKey]int{}}
	pan, msg := vlib.Recover(func() {
		l.s = xdsfake.NewFakeDiscoveryServer(l.f, xdsfake.FakeOptions{Configs: w.configs()})
	})
	if pan {
		l.f.close()
		return nil, fmt.Errorf("fake discovery server: %s", msg)
	}
	l.tap = xds.VerifTapPushChannel(l.s.Discovery, 4096)
	return l, nil
}

func (l *liveServer) close() {
	for _, c := range l.clients {
		c.close()
	}
	l.f.close()
}

func (l *liveServer) storeApply(op wop) error {
	var err error
	switch op.Verb {
	case "create":
		_, err = l.s.Store().Create(op.Cfg.DeepCopy())
	case "update":
		_, err = l.s.Store().Update(op.Cfg.DeepCopy())
	case "delete":
		err = l.s.Store().Delete(gvkOfKind[op.Key.K], op.Key.Name, op.Key.Ns, nil)
	}
	if err != nil {
		return fmt.Errorf("%s: %v", op, err)
	}
	return nil
}

// barrier flushes the controllers' pipelines for the given kinds; afterwards l.held contains every push request
// caused by the store operations issued before it (plus the barrier objects' own requests).
func (l *liveServer) barrier(kinds map[kind.Kind]bool) error {
	l.barrierN++
	ks := make([]kind.Kind, 0, len(kinds))
	for k := range kinds {
		ks = append(ks, k)
	}
	sort.Slice(ks, func(i, j int) bool { return ks[i] < ks[j] })
	for _, k := range ks {
		key := okey{k, nsBar, "barrier"}
		c, err := l.w.mkCfg(key, barrierSpec(k, l.barrierN))
		if err != nil {
			return err
		}
		l.w.objs[key] = c
		if err := l.storeApply(wop{Verb: "update", Key: key, Cfg: c}); err != nil {
			return err
		}
		for bk, n := range barrierKeys(k) {
			l.expect[bk] += n
		}
	}
	timeout := time.After(waitLimit)
	for {
		done := true
		for bk, n := range l.expect {
			if l.seen[bk] < n {
				done = false
			}
		}
		if done {
			break
		}
		select {
		case r := <-l.tap:
			l.note(r)
		case <-timeout:
			return fmt.Errorf("barrier %d: the controllers did not emit the expected push requests within %v (expected %v, seen %v)", l.barrierN, waitLimit, l.expect, l.seen)
		}
	}
	if kinds[kind.ServiceEntry] {
		// the by-IP instance index (SetServiceTargets / workload labels read it) is one more hop
		probe := &model.Proxy{IPAddresses: []string{barrierIP(l.barrierN)}, Metadata: &model.NodeMetadata{}}
		if !waitFor(func() bool { return len(l.s.ServiceEntryRegistry.GetProxyServiceTargets(probe)) > 0 }) {
			return fmt.Errorf("barrier %d: service instance index did not catch up", l.barrierN)
		}
	}
	// anything else already delivered
	for {
		select {
		case r := <-l.tap:
			l.note(r)
			continue
		default:
		}
		break
	}
	return nil
}

func (l *liveServer) note(r *model.PushRequest) {
	l.held = append(l.held, r)
	for k := range r.ConfigsUpdated {
		if k.Namespace == nsBar {
			l.seen[k]++
		}
	}
}

// push merges a group of captured requests like debounce() and runs the real Push.
func (l *liveServer) push(group []*model.PushRequest) *model.PushRequest {
	var req *model.PushRequest
	for _, r := range group {
		if len(r.Reason) == 0 {
			r.Reason = model.NewReasonStats(model.UnknownTrigger)
		}
		req = req.Merge(r)
	}
	l.s.Discovery.Push(req)
	return req
}

// settle: pushes written, client requests processed, responses handled, until nothing moves.
func (l *liveServer) settle(cs []*simClient) error {
	for iter := 0; iter < 100; iter++ {
		if !waitFor(func() bool { return xds.VerifPushQueueIdle(l.s.Discovery) }) {
			return fmt.Errorf("push queue not idle within %v", waitLimit)
		}
		for _, c := range cs {
			if err := c.st.processed(); err != nil {
				return fmt.Errorf("%s: %v", c.spec.Name, err)
			}
		}
		progress := false
		for _, c := range cs {
			rs := c.st.take()
			if len(rs) > 0 {
				progress = true
				if err := c.handle(rs); err != nil {
					return fmt.Errorf("%s: %v", c.spec.Name, err)
				}
			}
		}
		if !progress {
			return nil
		}
	}
	return fmt.Errorf("no quiescence after 100 rounds")
}

// start subscribes like Envoy: CDS (then EDS), LDS (then RDS), NDS.
func (l *liveServer) start(c *simClient) error {
	if err := c.send(xCDS); err != nil {
		return err
	}
	if err := l.settleNew(c); err != nil {
		return err
	}
	if err := c.send(xLDS); err != nil {
		return err
	}
	if c.spec.NDS {
		if err := c.send(xNDS); err != nil {
			return err
		}
	}
	return l.settleNew(c)
}

// settleNew settles one (new) client; the first request must have been processed before a ping may follow.
func (l *liveServer) settleNew(c *simClient) error {
	if !waitFor(func() bool {
		c.st.mu.Lock()
		defer c.st.mu.Unlock()
		return len(c.st.resps) > 0 || c.subscribed[xLDS]
	}) {
		return fmt.Errorf("%s: no initial CDS response", c.spec.Name)
	}
	return l.settle([]*simClient{c})
}

func (l *liveServer) connectAll(specs []nodeSpec) error {
	for _, sp := range specs {
		c := connect(l.s.Discovery, sp)
		l.clients = append(l.clients, c)
		if err := l.start(c); err != nil {
			return fmt.Errorf("%s: %v", sp.Name, err)
		}
	}
	return nil
}

// fresh: what a NEW client of the same identity gets from this server now (forced generation of every type).
func (l *liveServer) fresh(sp nodeSpec) ([nX]map[string][]byte, error) {
	c := connect(l.s.Discovery, sp)
	defer c.close()
	if err := l.start(c); err != nil {
		return [nX]map[string][]byte{}, fmt.Errorf("snapshot %s: %v", sp.Name, err)
	}
	return c.snapshot(), nil
}

// directGen: the five types generated by the real generators WITHOUT the XDS cache for a new proxy of this
// identity, forced, from the given PushContext (nil = a from-scratch PushContext of the live environment).
// newProxy: the server-side proxy a NEW connection of this identity would get now (initProxyMetadata + initializeProxy).
func (l *liveServer) newProxy(sp nodeSpec, pc *model.PushContext) (*model.Proxy, error) {
	node := sp.node()
	meta, err := model.ParseMetadata(node.Metadata)
	if err != nil {
		return nil, err
	}
	proxy, err := model.ParseServiceNodeWithMetadata(node.Id, meta)
	if err != nil {
		return nil, err
	}
	proxy.ConfigNamespace = model.GetProxyConfigNamespace(proxy)
	proxy.XdsNode = node
	proxy.LastPushContext = pc
	xds.VerifComputeProxyState(l.s.Discovery, proxy, nil) // what initializeProxy does
	proxy.DiscoverIPMode()
	proxy.WatchedResources = map[string]*model.WatchedResource{}
	return proxy, nil
}

// identityDrift: how the connected proxy's registry-derived identity differs from what a new connection would get
// (workload labels, locality, service targets); "" = none.
func (l *liveServer) identityDrift(sp nodeSpec, p *model.Proxy) string {
	np, err := l.newProxy(sp, l.s.Env().PushContext())
	if err != nil {
		return "error: " + err.Error()
	}
	var out []string
	if fmt.Sprint(p.Labels) != fmt.Sprint(np.Labels) {
		out = append(out, fmt.Sprintf("labels connected=%v new=%v", p.Labels, np.Labels))
	}
	lc := func(q *model.Proxy) string {
		if q.Locality == nil {
			return ""
		}
		return q.Locality.Region + "/" + q.Locality.Zone + "/" + q.Locality.SubZone
	}
	if lc(p) != lc(np) {
		out = append(out, fmt.Sprintf("locality connected=%q new=%q", lc(p), lc(np)))
	}
	if l.staleTargets(p) {
		out = append(out, "service targets differ")
	}
	return strings.Join(out, "; ")
}

func (l *liveServer) directGen(sp nodeSpec, pc *model.PushContext) (out [nX]map[string][]byte, err error) {
	return l.directGenWith(sp, pc, false)
}

// directGenWith: useCache = through the server's own generators (XDS cache), otherwise cache-less generators.
func (l *liveServer) directGenWith(sp nodeSpec, pc *model.PushContext, useCache bool) (out [nX]map[string][]byte, err error) {
	return l.directGenAs(sp, pc, useCache, nil)
}

// directGenAs: like directGenWith; identity != nil = generate for a new proxy that carries the registry-derived identity
// (workload labels, locality, service targets) of the given connected proxy instead of the current one.
func (l *liveServer) directGenAs(sp nodeSpec, pc *model.PushContext, useCache bool, identity *model.Proxy) (out [nX]map[string][]byte, err error) {
	s := l.s.Discovery
	proxy, err := l.newProxy(sp, pc)
	if err != nil {
		return out, err
	}
	if identity != nil {
		proxy.Labels = identity.Labels
		proxy.Locality = identity.Locality
		proxy.ServiceTargets = identity.ServiceTargets
		proxy.SetSidecarScope(pc)
		proxy.SetGatewaysForProxy(pc)
	}
	cg := core2.NewConfigGenerator(&model.DisabledCache{})
	gens := [nX]model.XdsResourceGenerator{
		xCDS: &xds.CdsGenerator{ConfigGenerator: cg},
		xEDS: &xds.EdsGenerator{Cache: &model.DisabledCache{}, EndpointIndex: s.Env.EndpointIndex},
		xLDS: &xds.LdsGenerator{ConfigGenerator: cg},
		xRDS: &xds.RdsGenerator{ConfigGenerator: cg},
		xNDS: &xds.NdsGenerator{ConfigGenerator: cg},
	}
	if useCache {
		for x := range gens {
			gens[x] = s.Generators[xURL[x]]
		}
	}
	tmp := &simClient{spec: sp}
	for i := range tmp.res {
		tmp.res[i] = map[string][]byte{}
		tmp.gotNames[i] = map[string]bool{}
	}
	for _, x := range []int{xCDS, xEDS, xLDS, xRDS, xNDS} {
		if x == xNDS && !sp.NDS {
			continue
		}
		w := &model.WatchedResource{TypeUrl: xURL[x]}
		if x == xEDS || x == xRDS {
			if len(tmp.names[x]) == 0 {
				continue
			}
			w.ResourceNames = sets.New(tmp.names[x]...)
		}
		req := &model.PushRequest{Push: pc, Forced: true, Reason: model.NewReasonStats(model.ProxyRequest), Start: time.Now()}
		res, _, err := gens[x].Generate(proxy, w, req)
		if err != nil {
			return out, fmt.Errorf("direct %s: %v", xName[x], err)
		}
		resp := &discovery.DiscoveryResponse{TypeUrl: xURL[x]}
		for _, r := range res {
			resp.Resources = append(resp.Resources, r.Resource)
		}
		if _, _, err := tmp.apply([]*discovery.DiscoveryResponse{resp}); err != nil {
			return out, err
		}
	}
	return tmp.snapshot(), nil
}

// fullContext builds a PushContext from scratch over the live environment (not installed).
func (l *liveServer) fullContext() *model.PushContext {
	pc := model.NewPushContext()
	pc.PushVersion = "verif-from-scratch"
	pc.JwtKeyResolver = l.s.Discovery.JwtKeyResolver
	pc.InitContext(l.s.Env(), nil, nil)
	return pc
}

// ---------------------------------------------------------------- comparison / description

func sameRes(a, b map[string][]byte, onlyCommon bool) (bool, string) {
	var diffs []string
	names := map[string]bool{}
	for n := range a {
		names[n] = true
	}
	for n := range b {
		names[n] = true
	}
	ns := make([]string, 0, len(names))
	for n := range names {
		ns = append(ns, n)
	}
	sort.Strings(ns)
	for _, n := range ns {
		va, oka := a[n]
		vb, okb := b[n]
		switch {
		case oka && okb:
			if string(va) != string(vb) {
				diffs = append(diffs, "differs:"+n)
			}
		case onlyCommon:
		case oka:
			diffs = append(diffs, "only-left:"+n)
		default:
			diffs = append(diffs, "only-right:"+n)
		}
	}
	if len(diffs) == 0 {
		return true, ""
	}
	if len(diffs) > 6 {
		diffs = append(diffs[:6], fmt.Sprintf("... %d more", len(diffs)-6))
	}
	return false, strings.Join(diffs, " ")
}

// diffNames: names whose presence or bytes differ
func diffNames(a, b map[string][]byte) []string {
	var out []string
	for n, va := range a {
		if vb, ok := b[n]; !ok || string(va) != string(vb) {
			out = append(out, n)
		}
	}
	for n := range b {
		if _, ok := a[n]; !ok {
			out = append(out, n)
		}
	}
	sort.Strings(out)
	return out
}

const findingStaleTargets = "C01-stale-proxy-identity-from-serviceentry-endpoints"

// staleTargets: the connected proxy's ServiceTargets (computed at connect / on ServiceEntry-kind keys of its namespace)
// are not what the registry returns for it now.
func (l *liveServer) staleTargets(p *model.Proxy) bool {
	key := func(ts []model.ServiceTarget) []string {
		var out []string
		for _, t := range ts {
			if t.Service != nil {
				out = append(out, fmt.Sprintf("%s/%d/%d", t.Service.Hostname, t.Port.Port, t.Port.TargetPort))
			}
		}
		sort.Strings(out)
		return out
	}
	return !slices.Equal(key(p.ServiceTargets), key(l.s.Env().ServiceDiscovery.GetProxyServiceTargets(p)))
}

// classify attributes a failing case to a listed finding by its SPECIFIC condition, or returns "".
//
//	badNames: every resource name involved in a failing bit; ctxBad: partial PushContext != from-scratch one (never attributable)
func (l *liveServer) classify(cl *simClient, p *model.Proxy, pcLive *model.PushContext, dLive, dCache [nX]map[string][]byte, badNames [nX][]string, ctxBad bool) string {
	if ctxBad {
		return ""
	}
	// Any disagreement between the XDS cache and cache-less generation is never attributable (the former finding
	// C01-eds-cache-key-ignores-scoped-service-ports is repaired in /repo a15781a: recurrence = VIOLATION).
	for x := 0; x < nX; x++ {
		if len(diffNames(dCache[x], dLive[x])) > 0 {
			return ""
		}
	}
	// stale registry-derived identity: the connected proxy's workload labels / locality / service targets are not what a
	// new connection gets, and the client holds EXACTLY what the real generators produce for that stale identity.
	if l.identityDrift(cl.spec, p) == "" {
		return ""
	}
	dStale, err := l.directGenAs(cl.spec, pcLive, false, p)
	if err != nil {
		return ""
	}
	for x := 0; x < nX; x++ {
		if x == xNDS && !cl.spec.NDS {
			continue
		}
		if ok, _ := sameRes(cl.res[x], dStale[x], false); !ok {
			return ""
		}
	}
	return findingStaleTargets
}

// commonDiff: like diffNames, optionally restricted to names present on both sides
func commonDiff(a, b map[string][]byte, onlyCommon bool) []string {
	var out []string
	for _, n := range diffNames(a, b) {
		_, ina := a[n]
		_, inb := b[n]
		if !onlyCommon || (ina && inb) {
			out = append(out, n)
		}
	}
	return out
}

func newMsg(x int) proto.Message {
	switch x {
	case xCDS:
		return &cluster.Cluster{}
	case xEDS:
		return &endpoint.ClusterLoadAssignment{}
	case xLDS:
		return &listener.Listener{}
	case xRDS:
		return &route.RouteConfiguration{}
	}
	return nil
}

// firstDiff renders the first differing lines of the first differing resource (evidence only).
func firstDiff(x int, a, b map[string][]byte) string {
	ns := make([]string, 0)
	for n := range a {
		if vb, ok := b[n]; ok && string(vb) != string(a[n]) {
			ns = append(ns, n)
		}
	}
	if len(ns) == 0 || newMsg(x) == nil {
		return ""
	}
	sort.Strings(ns)
	ma, mb := newMsg(x), newMsg(x)
	if proto.Unmarshal(a[ns[0]], ma) != nil || proto.Unmarshal(b[ns[0]], mb) != nil {
		return ""
	}
	la := strings.Split(prototext.MarshalOptions{Multiline: true}.Format(ma), "\n")
	lb := strings.Split(prototext.MarshalOptions{Multiline: true}.Format(mb), "\n")
	inB := map[string]int{}
	for _, s := range lb {
		inB[strings.TrimSpace(s)]++
	}
	inA := map[string]int{}
	for _, s := range la {
		inA[strings.TrimSpace(s)]++
	}
	var out []string
	for _, s := range la {
		t := strings.TrimSpace(s)
		if inB[t] == 0 && len(out) < 6 {
			out = append(out, "- "+t)
		}
	}
	n := len(out)
	for _, s := range lb {
		t := strings.TrimSpace(s)
		if inA[t] == 0 && len(out) < n+6 {
			out = append(out, "+ "+t)
		}
	}
	return ns[0] + ": " + strings.Join(out, " | ")
}

// ---------------------------------------------------------------- Coq printers

var hNsIdx = map[string]int{nsRoot: 0, nsA: 1, nsB: 2, nsBar: 3}

type interner struct{ m map[string]int }

func (i *interner) id(s string) int {
	if v, ok := i.m[s]; ok {
		return v
	}
	v := len(i.m)
	i.m[s] = v
	return v
}

func hKeyCoq(in *interner, k model.ConfigKey) string {
	ns, ok := hNsIdx[k.Namespace]
	if !ok {
		ns = 9
	}
	return vlib.App("ky", "K_"+k.Kind.String(), vlib.NI(ns), vlib.NI(in.id(k.Name)))
}

func sortedKeys(s map[model.ConfigKey]struct{}) []model.ConfigKey {
	ks := make([]model.ConfigKey, 0, len(s))
	for k := range s {
		ks = append(ks, k)
	}
	sort.Slice(ks, func(i, j int) bool { return ks[i].String() < ks[j].String() })
	return ks
}

// eventsOf prints the captured requests as Spec.event list, keys restricted to keep (nil = all).
func eventsOf(in *interner, group []*model.PushRequest, keep map[model.ConfigKey]struct{}) (string, []string) {
	var evs, human []string
	seen := map[string]bool{}
	for _, r := range group {
		var ks []string
		var hk []string
		for _, k := range sortedKeys(r.ConfigsUpdated) {
			if keep != nil {
				if _, ok := keep[k]; !ok {
					continue
				}
			}
			ks = append(ks, hKeyCoq(in, k))
			hk = append(hk, k.String())
		}
		reasons := make([]string, 0, len(r.Reason))
		for t := range r.Reason {
			reasons = append(reasons, string(t))
		}
		sort.Strings(reasons)
		for _, t := range reasons {
			rn := "ROther"
			switch model.TriggerReason(t) {
			case model.HeadlessEndpointUpdate:
				rn = "RHeadless"
			case model.ServiceUpdate:
				rn = "RServiceUpdate"
			}
			e := vlib.App("ev", vlib.List(ks), rn)
			human = append(human, fmt.Sprintf("%v/%s", hk, t))
			if !seen[e] { // merge_events is idempotent in identical events
				seen[e] = true
				evs = append(evs, e)
			}
		}
	}
	return vlib.List(evs), human
}

func gwChanged(p *model.Proxy) bool {
	if p.Type != model.Router {
		return false
	}
	mode := p.MergedGateway.HasAutoPassthroughGateways() != p.PrevMergedGateway.HasAutoPassthroughGateway()
	hosts := !p.MergedGateway.GetAutoPassthroughGatewaySNIHosts().Equals(p.PrevMergedGateway.GetAutoPassthroughSNIHosts())
	names := p.MergedGateway == nil || !slices.EqualUnordered(p.MergedGateway.GetGatewayNames(), p.PrevMergedGateway.GetGatewayNames())
	return mode || hosts || names
}

func hProxyCoq(p *model.Proxy) string {
	ns, ok := hNsIdx[p.ConfigNamespace]
	if !ok {
		ns = 9
	}
	return vlib.App("px", ntNames[p.Type], vlib.NI(ns), vlib.B(gwChanged(p)))
}

// ---------------------------------------------------------------- sessions

const hBlock = 400 // case ids reserved per session (replay can skip whole sessions)

type hStats struct {
	info                                         []string
	skipEqual, skipDiffer, pushEqual, pushDiffer int
	suspects                                     []string // Go-side preview of what the Coq oracle will reject (log only)
}

func (st *hStats) suspect(format string, args ...any) {
	if len(st.suspects) < 400 {
		st.suspects = append(st.suspects, fmt.Sprintf(format, args...))
	}
}

// proxyOf finds the server-side proxy of a connected client.
func (l *liveServer) proxyOf(c *simClient) *model.Proxy {
	want := c.spec.node().Id
	for _, con := range l.s.Discovery.Clients() {
		if p := con.Proxy(); p != nil && p.XdsNode != nil && p.XdsNode.Id == want {
			return p
		}
	}
	return nil
}

func decide(x int, req *model.PushRequest, p *model.Proxy) bool {
	switch x {
	case xCDS:
		_, b := xds.VerifCdsNeedsPush(req, p)
		return b
	case xEDS:
		return xds.VerifEdsNeedsPush(req, p)
	case xLDS:
		return xds.VerifLdsNeedsPush(req, p)
	case xRDS:
		return xds.VerifRdsNeedsPush(req, p)
	}
	return xds.VerifNdsNeedsPush(req, p)
}

type sessionCfg struct {
	Mode     string // "h" = one change per push; "conv" = random batches
	Steps    int
	Specs    []nodeSpec
	FocusK   []kind.Kind            // kinds to draw changes from
	SplitPct int                    // conv: chance to split the captured requests of a batch into two pushes
	World    func() (*world, error) // nil = random world
	Script   [][]scriptOp           // non-nil = these changes (one batch per step) instead of random ones (Steps = len)
	SplitOp  bool                   // scripted batch: the requests of its first change are pushed (and settled) before the rest
	Finding  string                 // every failing case of this (scripted) session is this known finding
	Rules    bool                   // seed several DestinationRules on one host (seedRules)
}

func runSession(c *vlib.Collector, base int, r *vlib.Rand, sc sessionCfg, st *hStats) (err error) {
	scoped := features.ScopedAddressPushes
	jwks := features.JwksFetchMode != jwt.Istiod
	in := &interner{m: map[string]int{}}
	var w *world
	if sc.World != nil {
		w, err = sc.World()
	} else {
		w, err = genWorld(r)
		if err == nil && sc.Rules {
			err = seedRules(w, r)
		}
	}
	if err != nil {
		return err
	}
	if err := addBarriers(w); err != nil {
		return err
	}
	live, err := newLive(w)
	if err != nil {
		return err
	}
	defer live.close()
	if err := live.connectAll(sc.Specs); err != nil {
		return err
	}
	var dbg *logCache
	if os.Getenv("VERIF_C01H_DEBUG") != "" {
		dbg = installLogCache(live.s.Discovery)
		installLogEds(live.s.Discovery, dbg)
	}
	id := base
	next := func() int {
		id++
		if sc.Finding != "" {
			c.FindingOf[id] = sc.Finding
		}
		return id
	}
	if len(st.info) < 3 {
		line := fmt.Sprintf("session %s objs=%d:", sc.Mode, len(w.objs))
		for _, cl := range live.clients {
			line += fmt.Sprintf(" %s[cds=%d eds=%d lds=%d rds=%d nds=%d]", cl.spec.Name, len(cl.res[xCDS]), len(cl.res[xEDS]), len(cl.res[xLDS]), len(cl.res[xRDS]), len(cl.res[xNDS]))
		}
		st.info = append(st.info, line)
	}
	var prev [][nX]map[string][]byte
	for _, cl := range live.clients {
		// a long-lived client that just connected holds exactly what a forced push generates
		prev = append(prev, cl.snapshot())
	}
	nchanges := 0
	var history []string
	for step := 0; step < sc.Steps; step++ {
		nops := 1
		if sc.Mode == "conv" {
			nops = 1 + r.Intn(4)
		}
		if sc.Script != nil {
			nops = len(sc.Script[step])
		}
		kinds := map[kind.Kind]bool{}
		var ops []wop
		for i := 0; i < nops; i++ {
			var k kind.Kind
			var op wop
			if sc.Script != nil {
				k = sc.Script[step][i].Key.K
				op, err = w.scripted(sc.Script[step][i])
			} else {
				k = vlib.Pick(r, sc.FocusK)
				op, err = w.randOp(r, k)
			}
			if err != nil {
				return err
			}
			if err := live.storeApply(op); err != nil {
				return err
			}
			kinds[k] = true
			ops = append(ops, op)
			history = append(history, op.String())
			nchanges++
		}
		if err := live.barrier(kinds); err != nil {
			return err
		}
		group := live.held
		live.held = nil
		groups := [][]*model.PushRequest{group}
		// Random splits leave out batches with a DestinationRule change: two sequential pushes whose first PushContext already
		// contains the second one's DestinationRule change lose the EDS update (known finding
		// C01-eds-prev-scope-lost-across-pushes, reproduced by its own scripted session).
		if sc.Script == nil && sc.Mode == "conv" && len(group) > 1 && !kinds[kind.DestinationRule] && r.Chance(sc.SplitPct) {
			cut := 1 + r.Intn(len(group)-1)
			groups = [][]*model.PushRequest{group[:cut], group[cut:]}
		}
		forceSettle := false
		if sc.SplitOp && nops > 1 {
			first := model.ConfigKey{Kind: ops[0].Key.K, Name: ops[0].Key.Name, Namespace: ops[0].Key.Ns}
			var g1, g2 []*model.PushRequest
			for _, rq := range group {
				if _, ok := rq.ConfigsUpdated[first]; ok {
					g1 = append(g1, rq)
				} else {
					g2 = append(g2, rq)
				}
			}
			if len(g1) > 0 && len(g2) > 0 {
				groups, forceSettle = [][]*model.PushRequest{g1, g2}, true
			}
		}
		for _, cl := range live.clients {
			cl.resetRound()
		}
		if dbg != nil {
			dbg.mu.Lock()
			dbg.tag = fmt.Sprintf("step%d", step)
			dbg.mu.Unlock()
		}
		var merged *model.PushRequest
		for gi, g := range groups {
			merged = live.push(g)
			// sometimes let the second push overtake the first in the push queue (PushQueue merging)
			if gi == len(groups)-1 || forceSettle || r.Bool() {
				if err := live.settle(live.clients); err != nil {
					return err
				}
			}
		}
		pcLive, pcFull := live.s.Env().PushContext(), live.fullContext()
		single := nops == 1 && len(groups) == 1
		for ci, cl := range live.clients {
			cid := next()
			after, err := live.fresh(cl.spec)
			if err != nil {
				return err
			}
			dLive, err := live.directGen(cl.spec, pcLive)
			if err != nil {
				return err
			}
			dFull, err := live.directGen(cl.spec, pcFull)
			if err != nil {
				return err
			}
			dCache, err := live.directGenWith(cl.spec, pcLive, true)
			if err != nil {
				return err
			}
			p := live.proxyOf(cl)
			if p == nil {
				return fmt.Errorf("no server-side proxy for %s", cl.spec.Name)
			}
			var preq *model.PushRequest
			pneeds := false
			if single {
				preq, pneeds = xds.DefaultProxyNeedsPush(p, merged)
			}
			sample := map[string]any{"kind": "hstep", "proxy": cl.spec.Name, "ops": opsDesc(ops), "step": step, "pushes": len(groups)}
			tags := []string{"hstep:nt=" + string(cl.spec.Type)}
			var kk kind.Kind
			if single {
				kk = ops[0].Key.K
				sample["proxy_needs_push"] = pneeds
				tags = append(tags, "hdep", "hdep:kind="+kk.String())
				if !pneeds {
					tags = append(tags, "hdep:proxy-filtered")
				}
			} else {
				tags = append(tags, "hbatch", fmt.Sprintf("hbatch:ops=%d", nops), fmt.Sprintf("hbatch:pushes=%d", len(groups)))
			}
			var xos []string
			bad, trivial := false, true
			var badNames [nX][]string
			ctxBad := false
			per := map[string]any{}
			for x := 0; x < nX; x++ {
				if x == xNDS && !cl.spec.NDS {
					continue
				}
				onlyCommon := x == xEDS || x == xRDS
				equal, d1 := sameRes(prev[ci][x], after[x], onlyCommon)
				// resource granularity: what was not resent in this round must not have changed
				notResentB, notResentA := map[string][]byte{}, map[string][]byte{}
				for n, v := range prev[ci][x] {
					if !cl.gotNames[x][n] {
						notResentB[n] = v
					}
				}
				for n, v := range after[x] {
					if !cl.gotNames[x][n] {
						notResentA[n] = v
					}
				}
				narrow, dn := sameRes(notResentB, notResentA, true)
				heldOK, d2 := sameRes(cl.res[x], after[x], false)
				ctxEq, d3 := sameRes(dLive[x], dFull[x], false)
				heldFull, d4 := sameRes(cl.res[x], dFull[x], false)
				cacheOK, d5 := sameRes(dCache[x], dLive[x], false)
				sent := cl.gotType[x]
				decided := false
				if single {
					decided = pneeds && decide(x, preq, p)
				}
				o := map[string]any{"sent": sent}
				if single {
					o["decided_push"] = decided
				}
				if sent && (x == xEDS || x == xRDS) {
					o["resent"] = len(cl.gotNames[x])
					o["held"] = len(cl.res[x])
				}
				if !equal {
					o["before_vs_after"] = d1
					o["before_vs_after_detail"] = firstDiff(x, prev[ci][x], after[x])
				}
				if !narrow {
					o["NOT_RESENT_BUT_CHANGED"] = dn
					o["not_resent_detail"] = firstDiff(x, notResentB, notResentA)
				}
				if !heldOK {
					o["HELD_vs_forced"] = d2
					o["held_vs_forced_detail"] = firstDiff(x, cl.res[x], after[x])
				}
				if !ctxEq {
					o["PARTIAL_CTX_vs_full_ctx"] = d3
					o["partial_vs_full_detail"] = firstDiff(x, dLive[x], dFull[x])
				}
				if !heldFull {
					o["HELD_vs_full_ctx"] = d4
					o["held_vs_full_detail"] = firstDiff(x, cl.res[x], dFull[x])
				}
				if !cacheOK {
					o["XDS_CACHE_vs_no_cache"] = d5
					o["cache_vs_no_cache_detail"] = firstDiff(x, dCache[x], dLive[x])
				}
				per[xName[x]] = o
				okx := (sent || equal) && narrow && heldOK && ctxEq && heldFull && cacheOK
				if single {
					okx = okx && (decided || equal)
					c.Hyp("H_dep", 1)
					switch {
					case !decided && equal:
						st.skipEqual++
						c.Tag("hdep:skip,unchanged")
					case !decided && !equal:
						st.skipDiffer++
						c.Tag("hdep:skip,CHANGED")
					case decided && equal:
						st.pushEqual++
						c.Tag("hdep:push,unchanged")
					default:
						st.pushDiffer++
						c.Tag("hdep:push,changed")
					}
					if !(decided && equal) {
						trivial = false
					}
				} else if !(sent && equal) {
					trivial = false
				}
				if x == xEDS && sent && len(cl.gotNames[x]) < len(cl.res[x]) {
					c.Tag("eds:partial-push")
					c.Hyp("H_eds_affected", len(cl.res[x])-len(cl.gotNames[x]))
				}
				c.Hyp("H_field", 1)
				if !okx {
					bad = true
					if !ctxEq {
						ctxBad = true
					}
					if !(sent || equal) || (single && !(decided || equal)) {
						badNames[x] = append(badNames[x], commonDiff(prev[ci][x], after[x], onlyCommon)...)
					}
					if !narrow {
						badNames[x] = append(badNames[x], commonDiff(notResentB, notResentA, true)...)
					}
					if !heldOK {
						badNames[x] = append(badNames[x], diffNames(cl.res[x], after[x])...)
					}
					if !heldFull {
						badNames[x] = append(badNames[x], diffNames(cl.res[x], dFull[x])...)
					}
					st.suspect("%s id=%d %s %s step=%d %v decided=%v sent=%v equal=%v narrow=%v held=%v ctx=%v heldfull=%v cache=%v | %v | %v | %v | %v | %v", map[bool]string{true: "HStep", false: "HBatch"}[single],
						cid, xName[x], cl.spec.Name, step, opsShort(ops), decided, sent, equal, narrow, heldOK, ctxEq, heldFull, cacheOK,
						o["before_vs_after_detail"], o["not_resent_detail"], o["held_vs_forced_detail"], o["partial_vs_full_detail"], o["cache_vs_no_cache_detail"])
				}
				xos = append(xos, vlib.App("XO", xName[x], vlib.B(decided), vlib.B(sent), vlib.B(equal), vlib.B(narrow), vlib.B(heldOK), vlib.B(ctxEq), vlib.B(heldFull), vlib.B(cacheOK)))
			}
			sample["per_type"] = per
			if bad {
				sample["history"] = append([]string(nil), history...)
				sample["proxy_identity_drift"] = live.identityDrift(cl.spec, p)
				if dbg != nil {
					dbg.mu.Lock()
					for _, l := range dbg.log {
						if strings.Contains(l, os.Getenv("VERIF_C01H_DEBUG")) { // e.g. VERIF_C01H_DEBUG=s0.ns1.example
							st.suspect("  cachelog %s", l)
						}
					}
					dbg.log = nil
					dbg.mu.Unlock()
				}
				if os.Getenv("VERIF_C01H_DEBUG") != "" {
					if np, err := live.newProxy(cl.spec, pcLive); err == nil {
						desc := func(q *model.Proxy) string {
							sc := q.SidecarScope
							out := fmt.Sprintf("scope=%s/%s ver=%s", sc.Namespace, sc.Name, sc.Version)
							for h, svc := range sc.ServicesByHostname() {
								var ps []int
								for _, pt := range svc.Ports {
									ps = append(ps, pt.Port)
								}
								sort.Ints(ps)
								out += fmt.Sprintf(" %s@%s%v", h, svc.Attributes.Namespace, ps)
							}
							return out
						}
						st.suspect("  debug scope connected: %s", desc(p))
						st.suspect("  debug scope new:       %s", desc(np))
					}
					for _, sp := range sc.Specs {
						a, _ := live.directGenWith(sp, pcLive, true)
						b, _ := live.directGenWith(sp, pcLive, false)
						for _, n := range diffNames(a[xEDS], b[xEDS]) {
							ma, mb := &endpoint.ClusterLoadAssignment{}, &endpoint.ClusterLoadAssignment{}
							_ = proto.Unmarshal(a[xEDS][n], ma)
							_ = proto.Unmarshal(b[xEDS][n], mb)
							st.suspect("  debug %s %s\n    cache:   %s\n    nocache: %s", sp.Name, n, prototext.MarshalOptions{}.Format(ma), prototext.MarshalOptions{}.Format(mb))
						}
					}
				}
				st.suspect("  diag id=%d identity[%v]", cid, sample["proxy_identity_drift"])
				// Narrow tags of listed findings, by their specific condition (see classify).
				if f := live.classify(cl, p, pcLive, dLive, dCache, badNames, ctxBad); f != "" {
					c.FindingOf[cid] = f
					sample["known_finding"] = f
				}
			}
			var term string
			if single {
				var keep map[model.ConfigKey]struct{}
				if pneeds {
					keep = preq.ConfigsUpdated
				}
				evs, human := eventsOf(in, group, keep)
				sample["requests"] = human
				term = vlib.App("HStep", vlib.NI(cid), vlib.B(scoped), vlib.B(jwks), "0%N", "K_"+kk.String(), evs, hProxyCoq(p), vlib.B(pneeds), vlib.List(xos))
			} else {
				term = vlib.App("HBatch", vlib.NI(cid), ntNames[cl.spec.Type], vlib.NI(nops), vlib.List(xos))
			}
			c.Add(vlib.Case{ID: cid, Term: term, Tags: tags, Sample: sample, Trivial: trivial})
			prev[ci] = after
		}
	}
	// end to end: a fresh control plane built from the final state
	fresh, err := newLive(w)
	if err != nil {
		return err
	}
	defer fresh.close()
	for _, cl := range live.clients {
		cid := next()
		want, err := fresh.fresh(cl.spec)
		if err != nil {
			return err
		}
		again, err := live.fresh(cl.spec)
		if err != nil {
			return err
		}
		sample := map[string]any{"kind": "converge", "proxy": cl.spec.Name, "changes": nchanges, "mode": sc.Mode}
		var cvs []string
		var cvNames [nX][]string
		bad := false
		for x := 0; x < nX; x++ {
			if x == xNDS && !cl.spec.NDS {
				continue
			}
			eq, d := sameRes(cl.res[x], want[x], false)
			eq2, d2 := sameRes(again[x], want[x], false)
			if !eq {
				sample[xName[x]+":HELD_vs_fresh_control_plane"] = d
				sample[xName[x]+":held_vs_fresh_detail"] = firstDiff(x, cl.res[x], want[x])
			}
			if !eq2 {
				sample[xName[x]+":NEW_CLIENT_vs_fresh_control_plane"] = d2
				sample[xName[x]+":new_vs_fresh_detail"] = firstDiff(x, again[x], want[x])
			}
			if !eq {
				cvNames[x] = diffNames(cl.res[x], want[x])
			}
			if !eq2 {
				cvNames[x] = append(cvNames[x], diffNames(again[x], want[x])...)
			}
			if !eq || !eq2 {
				bad = true
				st.suspect("Converge id=%d %s %s mode=%s: held-vs-fresh[%s | %v] new-vs-fresh[%s | %v]", cid, xName[x], cl.spec.Name, sc.Mode,
					d, sample[xName[x]+":held_vs_fresh_detail"], d2, sample[xName[x]+":new_vs_fresh_detail"])
			}
			c.Tag("converge:x=" + xName[x])
			cvs = append(cvs, vlib.App("CV", xName[x], vlib.B(eq), vlib.B(eq2)))
		}
		if bad {
			sample["history"] = history
			if p := live.proxyOf(cl); p != nil {
				pcl := live.s.Env().PushContext()
				dl, e1 := live.directGen(cl.spec, pcl)
				dc, e2 := live.directGenWith(cl.spec, pcl, true)
				if e1 == nil && e2 == nil {
					if f := live.classify(cl, p, pcl, dl, dc, cvNames, false); f != "" {
						c.FindingOf[cid] = f
						sample["known_finding"] = f
					}
				}
			}
		}
		c.Add(vlib.Case{ID: cid, Term: vlib.App("Converge", vlib.NI(cid), ntNames[cl.spec.Type], vlib.NI(nchanges), vlib.List(cvs)),
			Tags: []string{"converge", "converge:nt=" + string(cl.spec.Type), "converge:mode=" + sc.Mode}, Sample: sample})
	}
	if id-base >= hBlock {
		return fmt.Errorf("session used %d ids, block is %d", id-base, hBlock)
	}
	return nil
}

func opsShort(ops []wop) []string {
	var out []string
	for _, o := range ops {
		out = append(out, o.String())
	}
	return out
}

func opsDesc(ops []wop) []string {
	var out []string
	for _, o := range ops {
		out = append(out, o.String()+"\n"+o.Spec)
	}
	return out
}

var hKinds = []kind.Kind{kind.ServiceEntry, kind.VirtualService, kind.DestinationRule, kind.Sidecar, kind.Gateway, kind.PeerAuthentication,
	kind.RequestAuthentication, kind.AuthorizationPolicy, kind.EnvoyFilter, kind.Telemetry, kind.ProxyConfig, kind.WorkloadGroup}

// delta-aware kinds dominate (canSendPartialFullPushes): DestinationRule alone in a push => partial EDS push
var ruleKinds = []kind.Kind{kind.DestinationRule, kind.DestinationRule, kind.DestinationRule, kind.DestinationRule, kind.DestinationRule,
	kind.DestinationRule, kind.ServiceEntry, kind.ServiceEntry, kind.PeerAuthentication, kind.VirtualService, kind.Sidecar, kind.AuthorizationPolicy}

// genH runs the (H) sessions and the end-to-end sessions; ids are allocated in blocks of hBlock per session.
func genH(t *testing.T, c *vlib.Collector, id *int) {
	r := vlib.NewRand(vlib.Seed() ^ 0xc01f)
	c.Rule += " HStep/HBatch/Converge (one case per push and proxy, all xDS types inside): generated worlds (ServiceEntries with endpoints, VirtualService, DestinationRule, Sidecar, Gateway, " +
		"Peer/RequestAuthentication, AuthorizationPolicy, EnvoyFilter, Telemetry, ProxyConfig, WorkloadGroup in root/own/other namespace) on a fake discovery " +
		"server with long-lived SotW ADS clients (sidecar ns1, router ns1, sidecar ns2); each step applies random create/update/delete, captures the real " +
		"controllers' push requests, merges them like debounce and runs the real Push; non-trivial HDep = the real decision skipped the type or the " +
		"resources changed."
	nH := vlib.Scale(8, 60)
	nConv := vlib.Scale(6, 60)
	if v := os.Getenv("VERIF_C01H_SESSIONS"); v != "" { // development aid
		fmt.Sscanf(v, "%d,%d", &nH, &nConv)
	}
	st := &hStats{}
	sessions := make([]sessionCfg, 0, nH+nConv)
	for i := 0; i < nH; i++ {
		sc := sessionCfg{Mode: "h", Steps: vlib.Scale(24, 32), Specs: nodeSpecs, FocusK: hKinds}
		if i%2 == 1 {
			// every other session: several DestinationRules per host, changes concentrated on the kinds a partial EDS push handles
			sc.Rules, sc.FocusK = true, ruleKinds
		}
		sessions = append(sessions, sc)
	}
	for i := 0; i < nConv; i++ {
		sc := sessionCfg{Mode: "conv", Steps: vlib.Scale(8, 12), Specs: nodeSpecs, FocusK: hKinds, SplitPct: 40}
		if i%3 == 2 {
			sc.Rules, sc.FocusK = true, ruleKinds
		}
		sessions = append(sessions, sc)
	}
	// last: the scripted reproducer of the former finding C01-envoyfilter-merge-mutates-shared-default (repaired in /repo
	// f7db64b: pkg/proto/merge no longer merges into shared well-known-type values in place). It is an ordinary session now:
	// if the corruption returns it is a VIOLATION. The process-wide default is still restored afterwards so that a
	// recurrence cannot poison later runs in the same process.
	sessions = append(sessions, sessionCfg{Mode: "h", Steps: len(sharedDefaultScript), Specs: nodeSpecs, World: sharedDefaultWorld,
		Script: sharedDefaultScript})
	// the scripted reproducer of known finding C01-eds-prev-scope-lost-across-pushes
	sessions = append(sessions, sessionCfg{Mode: "conv", Steps: len(prevScopeScript), Specs: nodeSpecs, World: prevScopeWorld,
		Script: prevScopeScript, SplitOp: true, Finding: "C01-eds-prev-scope-lost-across-pushes"})
	// the scripted reproducer of known finding C01-stale-service-targets-on-endpoint-only-change (its cases are tagged by the
	// same narrow condition as in random sessions, not wholesale)
	sessions = append(sessions, sessionCfg{Mode: "h", Steps: len(staleTargetsScript), Specs: nodeSpecs, World: staleTargetsWorld, Script: staleTargetsScript})
	// the scripted reproducer of the former finding C01-eds-cache-key-ignores-scoped-service-ports (repaired in /repo a15781a):
	// an ordinary session now, it must simply pass including the cache-coherence bit
	sessions = append(sessions, sessionCfg{Mode: "h", Steps: len(cacheViewScript), Specs: nodeSpecs, World: cacheViewWorld, Script: cacheViewScript})
	defaultBodySize := istio_route.DefaultMaxDirectResponseBodySizeBytes.GetValue()
	defer func() {
		c.Extra["shared_default_after_scripted_envoyfilter"] = istio_route.DefaultMaxDirectResponseBodySizeBytes.GetValue()
		istio_route.DefaultMaxDirectResponseBodySizeBytes.Value = defaultBodySize
	}()
	t0 := time.Now()
	for _, sc := range sessions {
		base := *id
		*id += hBlock
		sr := r.Sub()
		wanted := false
		for i := base + 1; i <= base+hBlock; i++ {
			if c.Wanted(i) {
				wanted = true
				break
			}
		}
		if !wanted {
			continue
		}
		var err error
		sst := st
		if sc.Finding != "" {
			sst = &hStats{info: []string{"", "", ""}}
		}
		pan, msg := vlib.Recover(func() { err = runSession(c, base, sr, sc, sst) })
		if sc.Finding != "" {
			c.Extra["finding."+sc.Finding+".suspects"] = len(sst.suspects)
			for _, s := range sst.suspects {
				t.Logf("known finding %s: %s", sc.Finding, s)
			}
		}
		if pan {
			c.Violate(vlib.Violation{ID: base + 1, Kind: "panic", Detail: "session (" + sc.Mode + "): " + msg})
		} else if err != nil {
			c.Violate(vlib.Violation{ID: base + 1, Kind: "harness", Detail: "session (" + sc.Mode + "): " + err.Error()})
		}
	}
	c.Extra["hdep.skip_unchanged"] = st.skipEqual
	c.Extra["hdep.skip_CHANGED"] = st.skipDiffer
	c.Extra["hdep.push_unchanged"] = st.pushEqual
	c.Extra["hdep.push_changed"] = st.pushDiffer
	c.Extra["h.wall_seconds"] = int(time.Since(t0).Seconds())
	for _, s := range st.info {
		t.Logf("info: %s", s)
	}
	for _, s := range st.suspects {
		t.Logf("suspect: %s", s)
	}
	for _, v := range c.Violations {
		t.Logf("violation: %+v", v)
	}
	t.Logf("genH: %d sessions in %v; skip/unchanged=%d skip/CHANGED=%d push/unchanged=%d push/changed=%d",
		len(sessions), time.Since(t0), st.skipEqual, st.skipDiffer, st.pushEqual, st.pushDiffer)
}
