//go:build verif

package c01

import (
	"fmt"
	"os"
	"sort"
	"testing"

	"istio.io/api/label"
	meshconfig "istio.io/api/mesh/v1alpha1"
	networking "istio.io/api/networking/v1alpha3"
	"istio.io/istio/pilot/pkg/features"
	"istio.io/istio/pilot/pkg/model"
	"istio.io/istio/pilot/pkg/xds"
	v3 "istio.io/istio/pilot/pkg/xds/v3"
	"istio.io/istio/pkg/config/constants"
	"istio.io/istio/pkg/config/host"
	"istio.io/istio/pkg/config/schema/kind"
	"istio.io/istio/pkg/jwt"
	"istio.io/istio/pkg/util/sets"
	"verif/harness/vlib"
)

var nsNames = []string{"istio-system", "ns1", "other"}
var ntNames = map[model.NodeType]string{model.SidecarProxy: "NT_SidecarProxy", model.Router: "NT_Router", model.Waypoint: "NT_Waypoint",
	model.Ztunnel: "NT_Ztunnel", model.Agentgateway: "NT_Agentgateway"}
var nodeTypes = []model.NodeType{model.SidecarProxy, model.Router, model.Waypoint, model.Ztunnel}

type key struct {
	Kind kind.Kind
	Ns   int
	Name int
}

func (k key) real() model.ConfigKey {
	return model.ConfigKey{Kind: k.Kind, Namespace: nsNames[k.Ns], Name: fmt.Sprintf("n%d", k.Name)}
}
func (k key) coq() string {
	return vlib.App("ky", "K_"+k.Kind.String(), vlib.NI(k.Ns), vlib.NI(k.Name))
}
func keyOf(c model.ConfigKey) key {
	ns := 0
	for i, n := range nsNames {
		if n == c.Namespace {
			ns = i
		}
	}
	var nm int
	fmt.Sscanf(c.Name, "n%d", &nm)
	return key{c.Kind, ns, nm}
}
func sortKeys(ks []key) {
	sort.Slice(ks, func(i, j int) bool {
		a, b := ks[i], ks[j]
		if a.Kind != b.Kind {
			return a.Kind < b.Kind
		}
		if a.Ns != b.Ns {
			return a.Ns < b.Ns
		}
		return a.Name < b.Name
	})
}
func keysCoq(ks []key) string { return vlib.ListOf(ks, func(k key) string { return k.coq() }) }

type event struct {
	Keys   []key
	Reason int // 0 headless 1 serviceupdate 2 other
}

var reasonNames = []string{"RHeadless", "RServiceUpdate", "ROther"}
var realReasons = []model.TriggerReason{model.HeadlessEndpointUpdate, model.ServiceUpdate, model.EndpointUpdate}

type proxyIn struct {
	Type      model.NodeType
	EW        bool
	GwChanged bool
}

var push = &model.PushContext{Mesh: &meshconfig.MeshConfig{RootNamespace: "istio-system"}}

func mkProxy(p proxyIn) *model.Proxy {
	px := &model.Proxy{Type: p.Type, ConfigNamespace: "ns1", Metadata: &model.NodeMetadata{}, Labels: map[string]string{},
		WatchedResources: map[string]*model.WatchedResource{}}
	if p.EW {
		px.Labels[label.GatewayManaged.Name] = constants.ManagedGatewayEastWestControllerLabel
	}
	if p.Type == model.Waypoint {
		px.ServiceTargets = []model.ServiceTarget{{Service: &model.Service{Hostname: host.Name("wp.ns1.svc"), Attributes: model.ServiceAttributes{Namespace: "ns1", Name: "wp"}}}}
	}
	s1, s2 := &networking.Server{}, &networking.Server{}
	px.MergedGateway = &model.MergedGateway{GatewayNameForServer: map[*networking.Server]string{s1: "gw-a"}}
	if p.GwChanged {
		px.PrevMergedGateway = &model.PrevMergedGateway{GatewayNameForServer: map[*networking.Server]string{s2: "gw-b"}}
	} else {
		px.PrevMergedGateway = &model.PrevMergedGateway{GatewayNameForServer: map[*networking.Server]string{s2: "gw-a"}}
	}
	return px
}
func proxyCoq(p proxyIn) string {
	return vlib.App("pxe", ntNames[p.Type], "1%N", vlib.B(p.EW && p.Type == model.Waypoint), vlib.B(p.GwChanged))
}

func mergeEvents(evs []event, forced, wp bool, useCopy bool) *model.PushRequest {
	var acc *model.PushRequest
	for i, ev := range evs {
		r := &model.PushRequest{ConfigsUpdated: sets.New[model.ConfigKey](), Reason: model.NewReasonStats(realReasons[ev.Reason]), Push: push}
		for _, k := range ev.Keys {
			r.ConfigsUpdated.Insert(k.real())
		}
		if i == 0 {
			r.Forced = forced
			if wp {
				r.WaypointsUpdated = sets.New(model.WaypointReference{Namespace: "ns1", Hostname: "wp.ns1.svc"})
			} else {
				r.WaypointsUpdated = sets.New(model.WaypointReference{Namespace: "ns1", Hostname: "unrelated.ns1.svc"})
			}
		}
		if acc == nil {
			acc = r
		} else if useCopy {
			acc = acc.CopyMerge(r)
		} else {
			acc = acc.Merge(r)
		}
	}
	if acc == nil {
		acc = &model.PushRequest{Push: push, Forced: forced, Reason: model.NewReasonStats()}
	}
	return acc
}

func eventsCoq(evs []event) string {
	return vlib.ListOf(evs, func(e event) string {
		return vlib.App("ev", keysCoq(e.Keys), reasonNames[e.Reason])
	})
}

var interesting = []kind.Kind{kind.ServiceEntry, kind.Endpoints, kind.VirtualService, kind.DestinationRule, kind.Sidecar, kind.Gateway,
	kind.PeerAuthentication, kind.RequestAuthentication, kind.AuthorizationPolicy, kind.EnvoyFilter, kind.Telemetry, kind.WasmPlugin,
	kind.ProxyConfig, kind.WorkloadEntry, kind.WorkloadGroup, kind.Secret, kind.DNSName, kind.Address, kind.MeshConfig, kind.TrafficExtension,
	kind.Ingress, kind.HTTPRoute, kind.KubernetesGateway, kind.Service, kind.Pod}

func allKinds() []kind.Kind {
	var out []kind.Kind
	for k := kind.Address; k <= kind.XBackendTrafficPolicy; k++ {
		out = append(out, k)
	}
	return out
}

func TestGen(t *testing.T) {
	c := vlib.NewCollector("C01", "V.C01.Run")
	c.Rule = "NeedsPush: batches of 1-3 events (keys over all config kinds, namespaces root/own/other, reason headless|serviceupdate|other) merged with the real " +
		"PushRequest.Merge/CopyMerge and decided by the real cds/eds/lds/rds/ndsNeedsPush + canSendPartialFullPushes for sidecar/router/waypoint(+east-west)/ztunnel; " +
		"all single-kind requests are enumerated exhaustively, multi-key batches are random; non-trivial = not forced and not ztunnel. " +
		"Table: every run-time skip table vs the translated one. ProxyNeeds: DefaultProxyNeedsPush on real Proxy/SidecarScope objects."
	scoped := features.ScopedAddressPushes
	jwks := features.JwksFetchMode != jwt.Istiod
	c.Extra["features.ScopedAddressPushes"] = scoped
	c.Extra["features.JwksFetchMode!=Istiod"] = jwks
	id := 0
	r := vlib.NewRand(vlib.Seed() ^ 0xc01)
	n14 := 1

	run := func(evs []event, forced, wp bool, p proxyIn, useCopy bool, tags ...string) {
		id++
		if !c.Wanted(id) {
			return
		}
		var ck []key
		var o [6]bool
		pan, msg := vlib.Recover(func() {
			req := mergeEvents(evs, forced, wp, useCopy)
			px := mkProxy(p)
			creq, cb := xds.VerifCdsNeedsPush(req, px)
			for k := range creq.ConfigsUpdated {
				ck = append(ck, keyOf(k))
			}
			sortKeys(ck)
			o = [6]bool{cb, xds.VerifEdsNeedsPush(req, px), xds.VerifLdsNeedsPush(req, px), xds.VerifRdsNeedsPush(req, px),
				xds.VerifNdsNeedsPush(req, px), xds.VerifCanSendPartialFullPushes(req)}
		})
		if pan {
			c.Violate(vlib.Violation{ID: id, Kind: "panic", Detail: msg, Case: map[string]any{"events": evs, "proxy": p}})
			return
		}
		obs := vlib.Rec("o_cds_keys", keysCoq(ck), "o_cds", vlib.B(o[0]), "o_eds", vlib.B(o[1]), "o_lds", vlib.B(o[2]), "o_rds", vlib.B(o[3]),
			"o_nds", vlib.B(o[4]), "o_partial", vlib.B(o[5]))
		term := vlib.App("NeedsPush", vlib.NI(id), vlib.B(scoped), vlib.B(jwks), "0%N", vlib.B(forced), vlib.B(wp), eventsCoq(evs), proxyCoq(p), obs)
		tg := append([]string{"needs", "nt=" + string(p.Type), fmt.Sprintf("events=%d", len(evs))}, tags...)
		for i, n := range []string{"cds", "eds", "lds", "rds", "nds", "partial"} {
			if o[i] {
				tg = append(tg, n+"=push")
			} else {
				tg = append(tg, n+"=skip")
			}
		}
		c.Add(vlib.Case{ID: id, Term: term, Tags: tg, Trivial: forced || p.Type == model.Ztunnel,
			Sample: map[string]any{"kind": "needs_push", "events": evs, "forced": forced, "wp_match": wp, "proxy": p,
				"observed": map[string]any{"cds_keys": ck, "cds,eds,lds,rds,nds,partial": o}}})
	}

	// 1. exhaustive single-kind requests
	ak := allKinds()
	if os.Getenv("VERIF_C01H_ONLY") != "" { // development aid: only the (H) part
		ak, n14 = nil, 0
	}
	for _, k := range ak {
		nss := []int{1}
		if k == kind.PeerAuthentication {
			nss = []int{0, 1, 2}
		}
		for _, ns := range nss {
			for _, nt := range nodeTypes {
				for reason := 0; reason < 3; reason++ {
					ews := []bool{false}
					gws := []bool{false}
					wps := []bool{false}
					if nt == model.Waypoint {
						ews = []bool{false, true}
						wps = []bool{false, true}
					}
					if nt == model.Router {
						gws = []bool{false, true}
					}
					for _, ew := range ews {
						for _, gw := range gws {
							for _, wp := range wps {
								run([]event{{[]key{{k, ns, 0}}, reason}}, false, wp, proxyIn{nt, ew, gw}, false, "single")
							}
						}
					}
				}
			}
		}
	}
	// 2. random batches
	n := vlib.Scale(2500, 40000) * n14
	for i := 0; i < n; i++ {
		ne := 1 + r.Intn(3)
		var evs []event
		for j := 0; j < ne; j++ {
			nk := 1 + r.Intn(2)
			if r.Chance(5) {
				nk = 0
			}
			var ks []key
			for q := 0; q < nk; q++ {
				kd := vlib.Pick(r, interesting)
				if r.Chance(35) {
					kd = kind.ServiceEntry
				}
				ks = append(ks, key{kd, r.Intn(3), r.Intn(3)})
			}
			reason := r.Intn(3)
			if reason == 0 && r.Chance(70) {
				// headless markers are ServiceEntry/DNSName keys in the real controller
				for q := range ks {
					ks[q].Kind = kind.ServiceEntry
				}
			}
			evs = append(evs, event{ks, reason})
		}
		nt := vlib.Pick(r, nodeTypes)
		run(evs, r.Chance(5), r.Chance(40), proxyIn{nt, nt == model.Waypoint && r.Chance(30), r.Chance(30)}, r.Bool(), "batch")
	}
	// 3. tables
	flat, byNode := xds.VerifSkipTables()
	names := make([]string, 0)
	for n := range flat {
		names = append(names, n)
	}
	sort.Strings(names)
	kindsCoq := func(s sets.Set[kind.Kind]) string {
		var ks []kind.Kind
		for k := range s {
			ks = append(ks, k)
		}
		sort.Slice(ks, func(i, j int) bool { return ks[i] < ks[j] })
		return vlib.ListOf(ks, func(k kind.Kind) string { return "K_" + k.String() })
	}
	for _, n := range names {
		id++
		c.Add(vlib.Case{ID: id, Term: vlib.App("Table", vlib.NI(id), vlib.B(scoped), vlib.B(jwks), vlib.Str(n), "None", kindsCoq(flat[n])),
			Tags: []string{"table"}, Sample: map[string]any{"kind": "table", "name": n, "size": len(flat[n])}})
	}
	for _, n := range []string{"skippedLdsConfigs", "UnAffectedConfigKinds"} {
		for _, nt := range nodeTypes {
			id++
			c.Add(vlib.Case{ID: id, Term: vlib.App("Table", vlib.NI(id), vlib.B(scoped), vlib.B(jwks), vlib.Str(n), "(Some "+ntNames[nt]+")", kindsCoq(byNode[n][nt])),
				Tags: []string{"table"}, Sample: map[string]any{"kind": "table", "name": n, "node": nt, "size": len(byNode[n][nt])}})
		}
	}
	// 4. DefaultProxyNeedsPush
	np := vlib.Scale(1500, 20000) * n14
	for i := 0; i < np; i++ {
		id++
		if !c.Wanted(id) {
			r.Sub()
			continue
		}
		genProxyNeeds(c, r.Sub(), id, scoped, jwks)
	}
	// 5. (H) validation against the real generators + end-to-end convergence (c01h_test.go)
	genH(t, c, &id)
	if err := c.Flush(); err != nil {
		t.Fatal(err)
	}
}

func genProxyNeeds(c *vlib.Collector, r *vlib.Rand, id int, scoped, jwks bool) {
	nt := vlib.Pick(r, []model.NodeType{model.SidecarProxy, model.SidecarProxy, model.Router, model.Waypoint, model.Ztunnel})
	px := mkProxy(proxyIn{nt, false, false})
	randKeys := func(n int) []key {
		var ks []key
		seen := map[key]bool{}
		for q := 0; q < n; q++ {
			k := key{vlib.Pick(r, interesting), r.Intn(3), r.Intn(3)}
			if !seen[k] {
				seen[k] = true
				ks = append(ks, k)
			}
		}
		return ks
	}
	mkScope := func() (*model.SidecarScope, string) {
		if r.Chance(15) {
			return nil, "None"
		}
		ns := r.Intn(3)
		deps := randKeys(r.Intn(5))
		sc := &model.SidecarScope{Namespace: nsNames[ns]}
		for _, d := range deps {
			sc.AddConfigDependencies(d.real().HashCode())
		}
		return sc, "(Some " + vlib.Rec("sc_ns", vlib.NI(ns), "sc_deps", keysCoq(deps)) + ")"
	}
	var curS, prevS string
	px.SidecarScope, curS = mkScope()
	if r.Chance(50) {
		px.PrevSidecarScope, prevS = mkScope()
	} else {
		prevS = "None"
	}
	wa := r.Chance(30)
	if wa {
		px.WatchedResources[v3.AddressType] = &model.WatchedResource{TypeUrl: v3.AddressType}
	}
	// own service targets (sidecar/router)
	var targets []key
	if nt != model.Waypoint && r.Chance(40) {
		tk := key{kind.ServiceEntry, r.Intn(3), r.Intn(3)}
		targets = append(targets, tk)
		px.ServiceTargets = []model.ServiceTarget{{Service: &model.Service{Hostname: host.Name(fmt.Sprintf("n%d", tk.Name)),
			Attributes: model.ServiceAttributes{Namespace: nsNames[tk.Ns]}}}}
	}
	ks := randKeys(r.Intn(4))
	forced := r.Chance(8)
	req := &model.PushRequest{ConfigsUpdated: sets.New[model.ConfigKey](), Push: push, Forced: forced, Reason: model.NewReasonStats(model.ConfigUpdate)}
	for _, k := range ks {
		req.ConfigsUpdated.Insert(k.real())
	}
	var okeys []key
	var ob bool
	pan, msg := vlib.Recover(func() {
		nr, b := xds.DefaultProxyNeedsPush(px, req)
		ob = b
		for k := range nr.ConfigsUpdated {
			okeys = append(okeys, keyOf(k))
		}
		sortKeys(okeys)
	})
	if pan {
		c.Violate(vlib.Violation{ID: id, Kind: "panic", Detail: msg})
		return
	}
	// a prev scope that is nil contributes nothing for sidecars (the code tests PrevSidecarScope != nil)
	d := vlib.Rec("cur_scope", curS, "prev_scope", prevS, "watches_address", vlib.B(wa), "svc_targets", keysCoq(targets), "gw_visible", "[]")
	rq := vlib.Rec("forced", vlib.B(forced), "keys", keysCoq(ks), "r_headless", "false", "r_service_update", "false", "r_other", "true", "wp_match", "false")
	term := vlib.App("ProxyNeeds", vlib.NI(id), vlib.B(scoped), vlib.B(jwks), "0%N", rq, proxyCoq(proxyIn{nt, false, false}), d, keysCoq(okeys), vlib.B(ob))
	tg := []string{"proxyneeds", "pn:nt=" + string(nt)}
	if ob {
		tg = append(tg, "pn:push")
	} else {
		tg = append(tg, "pn:skip")
	}
	c.Add(vlib.Case{ID: id, Term: term, Tags: tg, Trivial: forced || nt == model.Ztunnel || nt == model.Waypoint,
		Sample: map[string]any{"kind": "proxy_needs_push", "node": nt, "keys": ks, "observed_keys": okeys, "observed": ob}})
}
