//go:build verif

package c07

import (
	"fmt"
	"sort"
	"strconv"
	"strings"
	"testing"

	"istio.io/istio/pilot/pkg/model"
	"istio.io/istio/pilot/pkg/networking/core"
	"istio.io/istio/pkg/config"
	"verif/harness/vlib"
)

// genE2E: end-to-end spot check.  The same generated worlds go through the repository's own
// ConfigGenTest fake (memory registry, real config store, real CDS generator); the outbound cluster
// names generated for the proxy must be exactly the (hostname, port) pairs of the scope that the
// light environment of world.go computed for the same input.  Failures are reported as harness
// violations (kind "e2e"); successes are counted as validated hypothesis instances.
func genE2E(t *testing.T, c *vlib.Collector, id *int, seed uint64) {
	r := &randx{vlib.NewRand(seed ^ 0xc0706)}
	n := vlib.Scale(25, 400)
	for k := 0; k < n; k++ {
		*id++
		w := genWorld(r, false)
		w.M.Unified, w.M.PickBest = true, true
		// the repository's memory registry keys services by hostname: keep hostnames unique in these worlds
		seenHost := map[string]bool{}
		var uniq []Svc
		for _, s := range w.Svcs {
			if !seenHost[s.Host] {
				seenHost[s.Host] = true
				s.MKey &^= 1 // DNS-resolved services without endpoints get no cluster at all (not a visibility matter)
				uniq = append(uniq, s)
			}
		}
		w.Svcs = uniq
		cfg := vlib.Pick(r.Rand, nsPool)
		if len(w.SCs) > 0 && r.Chance(60) {
			cfg = w.SCs[r.Intn(len(w.SCs))].Ns
		}
		sub := r.Sub()
		if !c.Wanted(*id) {
			continue
		}
		var problems []string
		pan, msg := vlib.Recover(func() {
			b, err := build(w, sub)
			if err != nil {
				panic(err)
			}
			light := runScope(b, cfg, nil, false)
			b.Close()
			want := map[string]bool{}
			for _, s := range light.Services {
				for _, p := range s.Ports {
					want[fmt.Sprintf("%s|%d", s.Host, p)] = true
				}
			}
			var svcs []*model.Service
			for _, s := range w.Svcs {
				svcs = append(svcs, s.real())
			}
			var cfgs []config.Config
			for _, v := range w.VSs {
				cfgs = append(cfgs, v.real())
			}
			for _, s := range w.SCs {
				cfgs = append(cfgs, s.real())
			}
			cg := core.NewConfigGenTest(t, core.TestOptions{Services: svcs, Configs: cfgs, MeshConfig: w.M.real()})
			proxy := cg.SetupProxy(&model.Proxy{ConfigNamespace: cfg, Metadata: &model.NodeMetadata{Namespace: cfg}})
			got := map[string]bool{}
			for _, cl := range cg.Clusters(proxy) {
				parts := strings.Split(cl.Name, "|")
				if len(parts) != 4 || parts[0] != "outbound" {
					continue
				}
				if _, err := strconv.Atoi(parts[1]); err != nil {
					continue
				}
				got[parts[3]+"|"+parts[1]] = true
			}
			for k := range got {
				if !want[k] {
					problems = append(problems, "cluster for "+k+" is not in the model-checked scope")
				}
			}
			for k := range want {
				if !got[k] {
					problems = append(problems, "no cluster for scope service "+k)
				}
			}
			sort.Strings(problems)
		})
		if pan {
			c.Violate(vlib.Violation{ID: *id, Kind: "panic", Detail: msg, Case: map[string]any{"world": w, "cfg": cfg}})
			continue
		}
		if len(problems) > 0 {
			c.Violate(vlib.Violation{ID: *id, Kind: "e2e", Detail: strings.Join(problems, "; "), Case: map[string]any{"world": w, "cfg": cfg}})
			continue
		}
		c.Hyp("outbound_cluster_names_equal_scope_services", 1)
		c.Tag("e2e:cds-names-checked")
	}
}
