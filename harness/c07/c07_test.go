//go:build verif

package c07

import (
	"fmt"
	"os"
	"sort"
	"strings"
	"testing"
	"time"

	networking "istio.io/api/networking/v1alpha3"
	"istio.io/istio/pilot/pkg/features"
	"istio.io/istio/pilot/pkg/model"
	"istio.io/istio/pkg/config/host"
	"verif/harness/vlib"
)

const (
	findPaths = "C07-exact-host-fast-path-differs-from-scan-path"
)

// ---------------------------------------------------------------- pools

var nsPool = []string{"ns1", "ns2", "ns3", "rootns"}

var hostPool = []string{"a.com", "b.a.com", "x.b.a.com", "c.org", "*.a.com", "*.b.a.com", "*.org",
	"svc1.ns1.svc.cluster.local", "svc1.ns2.svc.cluster.local", "d.io"}
var exactHostPool = []string{"a.com", "b.a.com", "x.b.a.com", "c.org", "svc1.ns1.svc.cluster.local", "svc1.ns2.svc.cluster.local", "d.io"}

var exportPool = [][]string{nil, nil, {"*"}, {"."}, {"~"}, {"ns1"}, {"ns2"}, {"ns2", "ns3"}, {".", "ns2"}, {"*", "ns1"}, {"ns1", "."}, {"rootns"}}
var exportMalformed = [][]string{{"~", "."}, {"~", "*"}, {"~", "ns1"}}

var algPool = []string{"", "*", "*.com", "*com", "foo.com", "a.foo.com", "*.foo.com", "*a.foo.com", "**.com", "*.", ".com", "com",
	"xfoo.com", "*.a.foo.com", "b.a.foo.com", "*o.com", "foo.com.", "*.org", "foo.org", "*.b.a.foo.com", "*foo.com", "a.b", "*.b", "*b"}

func (r0 *randx) pickExport(malformedOK bool) []string {
	if malformedOK && r0.Chance(6) {
		return append([]string{}, vlib.Pick(r0.Rand, exportMalformed)...)
	}
	return append([]string{}, vlib.Pick(r0.Rand, exportPool)...)
}

type randx struct{ *vlib.Rand }

func (r *randx) Perm(n int) []int { return perm(r.Rand, n) }

func genMesh(r *randx, malformed bool) Mesh {
	m := Mesh{Root: "rootns", Unified: true, PickBest: true}
	if r.Chance(35) {
		m.SvcDefSet = true
		m.SvcDefault = vlib.Pick(r.Rand, [][]string{{"*"}, {"."}, {"ns2"}, {".", "ns3"}, {"~"}, {"ns1", "ns2"}})
	}
	if r.Chance(30) {
		m.VsDefSet = true
		m.VsDefault = vlib.Pick(r.Rand, [][]string{{"*"}, {"."}, {"ns2"}, {".", "ns3"}})
	}
	m.ApplySidecars = r.Chance(30)
	if r.Chance(15) {
		m.Unified = false
	}
	if r.Chance(15) {
		m.PickBest = false
	}
	_ = malformed
	return m
}

func genPorts(r *randx) []int {
	all := []int{80, 443, 8080, 9090}
	var out []int
	for _, p := range all {
		if r.Chance(45) {
			out = append(out, p)
		}
	}
	if len(out) == 0 {
		out = []int{vlib.Pick(r.Rand, all)}
	}
	if r.Chance(30) { // order is not always ascending
		for i, j := 0, len(out)-1; i < j; i, j = i+1, j-1 {
			out[i], out[j] = out[j], out[i]
		}
	}
	return out
}

func genSvc(r *randx, i int, m Mesh, malformed bool, hosts []string) Svc {
	s := Svc{Host: vlib.Pick(r.Rand, hosts), Ns: vlib.Pick(r.Rand, nsPool), Kube: r.Chance(60), Export: r.pickExport(malformed),
		Ports: genPorts(r), Ctime: r.Intn(6), Name: fmt.Sprintf("s%02d", i)}
	// pickBestVisibleNamespace ranges over a Go map (candidate K6, property C17): keep its answer unique.
	// A hostname has Kubernetes services in one namespace only, and services of different namespaces never
	// share a creation time (ties inside a namespace stay, they exercise the name tie-break of the sort).
	if s.Ns != homeNs(s.Host) {
		s.Kube = false
	}
	s.Ctime = 4*s.Ctime + nsIndex(s.Ns)
	if m.ApplySidecars && r.Chance(45) {
		s.Vis = 1 + r.Intn(2)
	} else if r.Chance(8) {
		s.Vis = 1 + r.Intn(2) // ignored unless applyToSidecars
	}
	if r.Chance(20) {
		s.MKey = r.Intn(4)
	}
	return s
}

var egressHostPool = []string{"*/*", "./*", "ns1/*", "ns2/*", "*/a.com", "ns2/a.com", "./a.com", "*/*.a.com", "ns1/*.a.com", "ns3/b.a.com",
	"*/c.org", "./c.org", "ns1/svc1.ns1.svc.cluster.local", "*/*.org", "rootns/*", "*/d.io", "ns2/*.b.a.com", "*/x.b.a.com"}
var egressExclPool = []string{"~ns2/*", "~*/b.a.com", "~/c.org", "~./a.com", "~ns1/*.a.com", "~*/*.org", "~ns3/*", "~*/x.b.a.com"}
var egressBadPool = []string{"a.com", "ns1/a/b", "/a.com", "ns1/", "", "~", "./"}

func genListener(r *randx, exactOnly bool) Listener {
	var l Listener
	n := 1 + r.Intn(3)
	for i := 0; i < n; i++ {
		switch {
		case exactOnly:
			ns := vlib.Pick(r.Rand, []string{"ns1", "ns2", "ns3", "rootns", "."})
			l.Hosts = append(l.Hosts, ns+"/"+vlib.Pick(r.Rand, exactHostPool))
		case r.Chance(8):
			l.Hosts = append(l.Hosts, vlib.Pick(r.Rand, egressBadPool))
		default:
			l.Hosts = append(l.Hosts, vlib.Pick(r.Rand, egressHostPool))
		}
	}
	if r.Chance(30) {
		l.Hosts = append(l.Hosts, vlib.Pick(r.Rand, egressExclPool))
	}
	if r.Chance(25) {
		l.Port = vlib.Pick(r.Rand, []int{80, 443, 8080, 7070})
		l.HTTPProxy = r.Chance(20)
	}
	return l
}

func genVS(r *randx, i int) VS {
	v := VS{Name: i + 1, Ns: vlib.Pick(r.Rand, nsPool), Ctime: i, Mesh: true}
	nh := 1 + r.Intn(2)
	for k := 0; k < nh; k++ {
		v.Hosts = append(v.Hosts, vlib.Pick(r.Rand, hostPool))
	}
	v.Export = append([]string{}, vlib.Pick(r.Rand, [][]string{nil, nil, {"*"}, {"."}, {"ns1"}, {"ns2", "."}, {"ns3"}, {"~"}, {"ns1", "ns2"}, {"~", "ns1"}})...)
	switch r.Intn(10) {
	case 0:
		v.GwList, v.Mesh = []string{"gw1"}, false
	case 1:
		v.GwList = []string{"mesh", "gw1"}
	case 2:
		v.GwList = []string{"mesh"}
	}
	v.Gw = r.Chance(15)
	nr := 1 + r.Intn(2)
	for k := 0; k < nr; k++ {
		rt := Route{HTTP: r.Chance(75)}
		if rt.HTTP && r.Chance(35) {
			rt.Src = vlib.Pick(r.Rand, [][]string{{"ns1"}, {"ns2"}, {""}, {"", "ns1"}, {"ns3", "ns1"}})
		}
		nd := 1 + r.Intn(2)
		for q := 0; q < nd; q++ {
			rt.Dests = append(rt.Dests, Dest{Host: vlib.Pick(r.Rand, exactHostPool), Port: vlib.Pick(r.Rand, []int{0, 0, 80, 8080, 1234, 443})})
		}
		v.Routes = append(v.Routes, rt)
	}
	return v
}

func nsIndex(ns string) int {
	for i, n := range nsPool {
		if n == ns {
			return i
		}
	}
	return 0
}

func homeNs(h string) string {
	x := 0
	for i := 0; i < len(h); i++ {
		x = x*31 + int(h[i])
	}
	if x < 0 {
		x = -x
	}
	return nsPool[x%len(nsPool)]
}

var labelPool = []string{"app=a", "tier=x", "app=b"}

func genSidecars(r *randx) []Sidecar {
	var out []Sidecar
	n := r.Intn(4)
	for i := 0; i < n; i++ {
		sc := Sidecar{Name: i + 1, Ns: vlib.Pick(r.Rand, nsPool), Ctime: i}
		if r.Chance(35) {
			sc.HasSel = true
			if r.Chance(80) {
				sc.Selector = []string{vlib.Pick(r.Rand, labelPool)}
			}
		}
		nl := r.Intn(3)
		if r.Chance(10) {
			nl = 0
		} else if nl == 0 {
			nl = 1
		}
		for k := 0; k < nl; k++ {
			sc.Egress = append(sc.Egress, genListener(r, r.Chance(30)))
		}
		out = append(out, sc)
	}
	return out
}

func genWorld(r *randx, malformed bool) World {
	w := World{M: genMesh(r, malformed)}
	hosts := hostPool
	if r.Chance(40) {
		hosts = exactHostPool[:4] // dense collisions
	}
	n := 2 + r.Intn(8)
	for i := 0; i < n; i++ {
		w.Svcs = append(w.Svcs, genSvc(r, i, w.M, malformed, hosts))
	}
	nv := r.Intn(4)
	for i := 0; i < nv; i++ {
		w.VSs = append(w.VSs, genVS(r, i))
	}
	w.SCs = genSidecars(r)
	return w
}

// ---------------------------------------------------------------- well-formedness as the oracle sees it

func wfExport(e []string) bool {
	set := map[string]bool{}
	for _, x := range e {
		set[x] = true
	}
	return !set["~"] || len(set) == 1
}

func (w World) wf() bool {
	for _, s := range w.Svcs {
		e := s.Export
		if len(e) == 0 {
			e = w.M.SvcDefault
			if !w.M.SvcDefSet {
				e = []string{"*"}
			}
		}
		if !wfExport(e) {
			return false
		}
	}
	return true
}

// ---------------------------------------------------------------- cases

func worldArgs(w World) []string {
	return []string{w.M.term(), vlib.ListOf(w.Svcs, Svc.term), vlib.ListOf(w.VSs, VS.term)}
}

func scopeTags(w World, o OScope, gateway bool) []string {
	tags := []string{"scope"}
	if gateway {
		tags = append(tags, "scope:gateway")
	} else if o.Sidecar == 0 {
		tags = append(tags, "scope:default-sidecar")
	} else {
		tags = append(tags, "scope:sidecar")
	}
	if !w.M.Unified {
		tags = append(tags, "flag:legacy-scoping")
	}
	if !w.M.PickBest {
		tags = append(tags, "flag:pick-first")
	}
	if w.M.ApplySidecars {
		tags = append(tags, "mesh:se-visibility")
	}
	if w.M.SvcDefSet {
		tags = append(tags, "mesh:default-export")
	}
	if !w.wf() {
		tags = append(tags, "malformed-export")
	}
	nvs := 0
	for _, l := range o.Listeners {
		nvs += len(l.VSs)
	}
	if nvs > 0 {
		tags = append(tags, "scope:vs-selected")
	}
	return tags
}

// leaked reports whether the real scope holds a service that the real IsServiceVisible denies
func leaked(b *built, cfg string, o OScope) bool {
	for _, s := range o.Services {
		rs := b.real[s.Name]
		if rs == nil || !b.ps.IsServiceVisible(rs, cfg) {
			return true
		}
	}
	return false
}

func TestGen(t *testing.T) {
	c := vlib.NewCollector("C07", "V.C07.Run")
	c.Rule = "hostalg: all ordered pairs of a 24-name pool (wildcards without dot, empty, double star). vis: services x exportTo forms x mesh defaults x " +
		"ServiceEntry visibility x proxy namespaces on the real IsServiceVisible and the real index. index: generated registries (colliding hostnames, " +
		"Kubernetes/ServiceEntry, creation-time ties) -> servicesExportedToNamespace order and HostnameAndNamespace winners. scope: generated worlds " +
		"(services, VirtualServices, Sidecars with selectors/root default/port listeners/exclusions/malformed hosts, both feature flags) through " +
		"PushContext.InitContext + Proxy.SetSidecarScope for sidecar and router proxies. paths: all-exact Sidecars run twice, as written (fast path) and with a " +
		"dead wildcard host per listener (scan path). non-trivial = at least one service is invisible to the proxy namespace or an exclusion/port listener/VirtualService is involved."
	defer func() {
		features.UnifiedSidecarScoping = true
		features.SidecarPickBestServiceNamespace = true
	}()
	id := 0
	seed := vlib.Seed()

	// ---- hostname algebra
	for _, a := range algPool {
		for _, b := range algPool {
			id++
			if !c.Wanted(id) {
				continue
			}
			om := host.Name(a).Matches(host.Name(b))
			os_ := host.Name(a).SubsetOf(host.Name(b))
			tags := []string{"hostalg"}
			if om {
				tags = append(tags, "hostalg:match")
			}
			if os_ {
				tags = append(tags, "hostalg:subset")
			}
			c.Add(vlib.Case{ID: id, Term: vlib.App("HostAlg", vlib.NI(id), vlib.Str(a), vlib.Str(b), vlib.B(om), vlib.B(os_)), Tags: tags,
				Sample: map[string]any{"kind": "hostalg", "a": a, "b": b, "matches": om, "subset": os_}, Trivial: a == b})
		}
	}

	t0 := time.Now()
	lap := func(what string) {
		if os.Getenv("VERIF_DEBUG") != "" {
			t.Logf("%s done at %v (id %d)", what, time.Since(t0), id)
		}
	}
	lap("hostalg")
	genVis(t, c, &id, seed)
	lap("vis")
	genIndex(t, c, &id, seed)
	lap("index")
	genScope(t, c, &id, seed)
	lap("scope")
	genPaths(t, c, &id, seed)
	lap("paths")
	genDR(t, c, &id, seed)
	lap("dr")
	genE2E(t, c, &id, seed)
	lap("e2e")
	genWitnesses(t, c, &id)

	if err := c.Flush(); err != nil {
		t.Fatal(err)
	}
}

func genVis(t *testing.T, c *vlib.Collector, id *int, seed uint64) {
	r := &randx{vlib.NewRand(seed ^ 0xc0701)}
	n := vlib.Scale(200, 4000)
	for k := 0; k < n; k++ {
		*id++
		m := genMesh(r, true)
		s := genSvc(r, 0, m, true, hostPool)
		ns := vlib.Pick(r.Rand, nsPool)
		if !c.Wanted(*id) {
			continue
		}
		w := World{M: m, Svcs: []Svc{s}}
		b, err := build(w, r.Rand)
		if err != nil {
			t.Fatal(err)
		}
		rs := b.real[s.Name]
		ov := b.ps.IsServiceVisible(rs, ns)
		oi := false
		for _, x := range model.VerifC07ServicesExportedToNamespace(b.ps, ns) {
			if x == rs {
				oi = true
			}
		}
		b.Close()
		tags := []string{"vis"}
		if ov {
			tags = append(tags, "vis:visible")
		}
		if !w.wf() {
			tags = append(tags, "malformed-export")
		}
		if len(s.Export) == 0 {
			tags = append(tags, "vis:default-export")
		}
		if m.ApplySidecars && s.Vis != 0 {
			tags = append(tags, "vis:se-capped")
		}
		c.Add(vlib.Case{ID: *id, Term: vlib.App("Vis", vlib.NI(*id), m.term(), s.term(), vlib.Str(ns), vlib.B(ov), vlib.B(oi)), Tags: tags,
			Sample: map[string]any{"kind": "vis", "mesh": m, "svc": s, "ns": ns, "visible": ov, "indexed": oi}, Trivial: len(s.Export) == 0 && !m.SvcDefSet && !m.ApplySidecars})
	}
}

func genIndex(t *testing.T, c *vlib.Collector, id *int, seed uint64) {
	r := &randx{vlib.NewRand(seed ^ 0xc0702)}
	n := vlib.Scale(120, 2000)
	for k := 0; k < n; k++ {
		*id++
		w := genWorld(r, true)
		w.VSs, w.SCs = nil, nil
		ns := vlib.Pick(r.Rand, nsPool)
		if !c.Wanted(*id) {
			continue
		}
		b, err := build(w, r.Rand)
		if err != nil {
			t.Fatal(err)
		}
		var names []string
		for _, x := range model.VerifC07ServicesExportedToNamespace(b.ps, ns) {
			names = append(names, x.Attributes.Name)
		}
		type lk struct {
			H, N string
			W    string
			Ok   bool
		}
		var lks []lk
		seen := map[string]bool{}
		for _, s := range w.Svcs {
			for _, n2 := range nsPool {
				key := s.Host + "|" + n2
				if seen[key] {
					continue
				}
				seen[key] = true
				x, ok := b.ps.ServiceIndex.HostnameAndNamespace[host.Name(s.Host)][n2]
				l := lk{H: s.Host, N: n2, Ok: ok && x != nil}
				if l.Ok {
					l.W = x.Attributes.Name
				}
				lks = append(lks, l)
			}
		}
		b.Close()
		dup := false
		hn := map[string]int{}
		for _, s := range w.Svcs {
			hn[s.Host+"|"+s.Ns]++
			if hn[s.Host+"|"+s.Ns] > 1 {
				dup = true
			}
		}
		tags := []string{"index"}
		if dup {
			tags = append(tags, "index:duplicate-host-ns")
		}
		if !w.wf() {
			tags = append(tags, "malformed-export")
		}
		term := vlib.App("Index", vlib.NI(*id), w.M.term(), vlib.ListOf(w.Svcs, Svc.term), vlib.Str(ns), strs(names),
			vlib.ListOf(lks, func(l lk) string { return "(" + vlib.Str(l.H) + ", " + vlib.Str(l.N) + ", " + vlib.Opt(l.Ok, vlib.Str(l.W)) + ")" }))
		c.Add(vlib.Case{ID: *id, Term: term, Tags: tags, Sample: map[string]any{"kind": "index", "world": w, "ns": ns, "exported": names}, Trivial: false})
	}
}

func runScope(b *built, cfg string, lbls []string, gateway bool) OScope {
	p := proxyFor(cfg, lbls, gateway)
	p.SetSidecarScope(b.ps)
	return observeScope(p.SidecarScope)
}

func scopeTerm(id int, w World, cfg string, lbls []string, gateway bool, o OScope) string {
	args := append([]string{vlib.NI(id)}, worldArgs(w)...)
	args = append(args, vlib.ListOf(w.SCs, Sidecar.term), vlib.Str(cfg), strs(lbls), vlib.B(gateway), vlib.NI(o.Sidecar),
		vlib.ListOf(o.Listeners, OListener.term), vlib.ListOf(o.Services, OSvc.term))
	return vlib.App("Scope", args...)
}

// allExact mirrors the syntactic condition under which convertIstioListenerToWrapper takes the exact-host fast path
func allExact(l Listener) bool {
	for _, h := range l.Hosts {
		if strings.Count(h, "/") != 1 {
			continue
		}
		ns, name, _ := strings.Cut(h, "/")
		if strings.HasPrefix(ns, "~") {
			continue
		}
		if ns == "*" || strings.HasPrefix(name, "*") {
			return false
		}
	}
	return true
}

// collisionExplains: the known fast-path finding is about colliding hostnames only.  Two results of the same proxy
// (fast path / scan path) may differ under that finding iff neither delivers a service the real IsServiceVisible
// denies and every hostname on which they differ is carried by at least two services of the world.
func collisionExplains(w World, a, b OScope, leakA, leakB bool) bool {
	if leakA || leakB {
		return false
	}
	render := func(o OScope) map[string]string {
		m := map[string]string{}
		for _, x := range o.Services {
			m[x.Host] += fmt.Sprint("S", x)
		}
		for i, l := range canonListeners(o) {
			for _, x := range l {
				m[x.Host] += fmt.Sprint("L", i, x)
			}
		}
		return m
	}
	ra, rb := render(a), render(b)
	count := map[string]int{}
	for _, sv := range w.Svcs {
		count[sv.Host]++
	}
	differs := false
	for h, v := range ra {
		if rb[h] != v {
			differs = true
			if count[h] < 2 {
				return false
			}
		}
	}
	for h, v := range rb {
		if ra[h] != v {
			differs = true
			if count[h] < 2 {
				return false
			}
		}
	}
	return differs
}

// ownNsInvisible adds to the world a service of namespace cfg that is NOT visible to cfg (exportTo [other], [~],
// a ServiceEntry-visibility cap, or the mesh default) and returns an all-exact listener importing it in the
// own-namespace spellings ./host and <cfg>/host.
func ownNsInvisible(r *randx, w *World, cfg string) Listener {
	h := vlib.Pick(r.Rand, exactHostPool)
	other := vlib.Pick(r.Rand, minus(nsPool, []string{cfg}))
	sv := Svc{Host: h, Ns: cfg, Kube: r.Chance(50) && homeNs(h) == cfg, Ports: genPorts(r), Name: fmt.Sprintf("s%02d", len(w.Svcs))}
	sv.Ctime = 4*r.Intn(6) + nsIndex(cfg)
	switch r.Intn(4) {
	case 0:
		sv.Export = []string{other}
	case 1:
		sv.Export = []string{"~"}
	case 2:
		w.M.ApplySidecars = true
		if r.Chance(50) {
			sv.Vis, sv.Export = 2, []string{"."}
		} else {
			sv.Vis, sv.Export = 1, []string{other}
		}
	default:
		// unset exportTo under a mesh default that does not name the namespace; keep the other services as they are
		for i := range w.Svcs {
			if len(w.Svcs[i].Export) == 0 {
				w.Svcs[i].Export = []string{"*"}
			}
		}
		w.M.SvcDefSet, w.M.SvcDefault = true, []string{other}
	}
	w.Svcs = append(w.Svcs, sv)
	l := Listener{}
	if r.Chance(50) {
		l.Hosts = []string{"./" + h}
	} else {
		l.Hosts = []string{cfg + "/" + h}
	}
	if r.Chance(40) {
		l.Hosts = append(l.Hosts, vlib.Pick(r.Rand, []string{"ns1", "ns2", "ns3", "."})+"/"+vlib.Pick(r.Rand, exactHostPool))
	}
	return l
}

func addScopeCase(t *testing.T, c *vlib.Collector, id int, w World, cfg string, lbls []string, gateway bool, r *vlib.Rand, extraTags ...string) {
	var o OScope
	var leak, fastDiffers bool
	pan, msg := vlib.Recover(func() {
		b, err := build(w, r)
		if err != nil {
			panic(err)
		}
		defer b.Close()
		o = runScope(b, cfg, lbls, gateway)
		leak = leaked(b, cfg, o)
		// known finding (exact-host fast path differs from scan path): when the applied Sidecar has an all-exact
		// listener, run the same proxy with a dead wildcard host added to those listeners; a different scope is that finding
		if !gateway && o.Sidecar != 0 {
			w2 := w
			w2.SCs = nil
			changed := false
			for _, sc := range w.SCs {
				if sc.Name == o.Sidecar {
					var eg []Listener
					for _, l := range sc.Egress {
						if allExact(l) {
							l.Hosts = append(append([]string{}, l.Hosts...), "zz-none/*")
							changed = true
						}
						eg = append(eg, l)
					}
					sc.Egress = eg
				}
				w2.SCs = append(w2.SCs, sc)
			}
			if changed {
				b2, err := build(w2, r)
				if err != nil {
					panic(err)
				}
				defer b2.Close()
				o2 := runScope(b2, cfg, lbls, gateway)
				fastDiffers = collisionExplains(w, o, o2, leak, leaked(b2, cfg, o2))
			}
		}
	})
	if pan {
		c.Violate(vlib.Violation{ID: id, Kind: "panic", Detail: msg, Case: map[string]any{"world": w, "cfg": cfg}})
		return
	}
	tags := append(scopeTags(w, o, gateway), extraTags...)
	if leak {
		tags = append(tags, "scope:invisible-service-delivered")
	}
	if fastDiffers {
		c.FindingOf[id] = findPaths
		tags = append(tags, "finding:paths")
	}
	invisible := false
	for _, s := range w.Svcs {
		if len(s.Export) > 0 || w.M.SvcDefSet || w.M.ApplySidecars {
			invisible = true
		}
	}
	c.Add(vlib.Case{ID: id, Term: scopeTerm(id, w, cfg, lbls, gateway, o), Tags: tags,
		Sample:  map[string]any{"kind": "scope", "world": w, "proxy_ns": cfg, "labels": lbls, "gateway": gateway, "observed": o},
		Trivial: !invisible && len(w.VSs) == 0 && o.Sidecar == 0})
}

func genScope(t *testing.T, c *vlib.Collector, id *int, seed uint64) {
	r := &randx{vlib.NewRand(seed ^ 0xc0703)}
	n := vlib.Scale(600, 12000)
	for k := 0; k < n; k++ {
		*id++
		w := genWorld(r, k%10 == 0)
		cfg := vlib.Pick(r.Rand, nsPool)
		if len(w.SCs) > 0 && r.Chance(60) {
			cfg = w.SCs[r.Intn(len(w.SCs))].Ns
		}
		var lbls []string
		for _, l := range labelPool[:2] {
			if r.Chance(50) {
				lbls = append(lbls, l)
			}
		}
		gateway := r.Chance(12)
		var extra []string
		if !gateway && r.Chance(15) {
			// all-exact Sidecar of the proxy namespace importing an own-namespace service that is not exported to it
			l := ownNsInvisible(r, &w, cfg)
			w.SCs = []Sidecar{{Name: 1, Ns: cfg, Ctime: 0, Egress: []Listener{l}}}
			extra = append(extra, "scope:own-ns-invisible-exact")
		}
		sub := r.Sub()
		if !c.Wanted(*id) {
			continue
		}
		addScopeCase(t, c, *id, w, cfg, lbls, gateway, sub, extra...)
	}
}

// ---------------------------------------------------------------- fast path vs scan path

func genPaths(t *testing.T, c *vlib.Collector, id *int, seed uint64) {
	r := &randx{vlib.NewRand(seed ^ 0xc0704)}
	n := vlib.Scale(200, 6000)
	for k := 0; k < n; k++ {
		*id++
		w := genWorld(r, false)
		w.M.Unified, w.M.PickBest = true, true
		cfg := vlib.Pick(r.Rand, nsPool[:3])
		nl := 1 + r.Intn(2)
		var fast, scan []Listener
		ownShape := r.Chance(25)
		for i := 0; i < nl; i++ {
			l := genListener(r, true)
			if ownShape && i == 0 {
				l = ownNsInvisible(r, &w, cfg)
			}
			fast = append(fast, l)
			l2 := l
			l2.Hosts = append(append([]string{}, l.Hosts...), "zz-none/*")
			scan = append(scan, l2)
		}
		sub := r.Sub()
		if !c.Wanted(*id) {
			continue
		}
		addPathsCase(t, c, *id, w, cfg, fast, scan, sub)
	}
}

func addPathsCase(t *testing.T, c *vlib.Collector, id int, w World, cfg string, fast, scan []Listener, r *vlib.Rand) {
	run := func(ls []Listener) (OScope, bool) {
		w2 := w
		w2.SCs = []Sidecar{{Name: 1, Ns: cfg, Ctime: 0, Egress: ls}}
		b, err := build(w2, r)
		if err != nil {
			panic(err)
		}
		defer b.Close()
		o := runScope(b, cfg, nil, false)
		return o, leaked(b, cfg, o)
	}
	var of, os_ OScope
	var leakF, leakS bool
	if pan, msg := vlib.Recover(func() { of, leakF = run(fast); os_, leakS = run(scan) }); pan {
		c.Violate(vlib.Violation{ID: id, Kind: "panic", Detail: msg, Case: map[string]any{"world": w, "cfg": cfg}})
		return
	}
	differ := fmt.Sprint(canonListeners(of), of.Services) != fmt.Sprint(canonListeners(os_), os_.Services)
	// colliding hostnames: the same hostname in two namespaces, or twice in one namespace
	collide := false
	seen := map[string]int{}
	for _, s := range w.Svcs {
		seen[s.Host]++
		if seen[s.Host] > 1 {
			collide = true
		}
	}
	tags := []string{"paths"}
	if differ {
		tags = append(tags, "paths:differ")
	}
	if collide {
		tags = append(tags, "paths:colliding-hostnames")
	}
	if leakF || leakS {
		tags = append(tags, "paths:invisible-service-delivered")
	}
	if differ && collisionExplains(w, of, os_, leakF, leakS) {
		c.FindingOf[id] = findPaths
		tags = append(tags, "finding:paths")
	}
	args := append([]string{vlib.NI(id)}, worldArgs(w)...)
	pr := func(o OScope) string {
		return vlib.Pair(vlib.ListOf(o.Listeners, OListener.term), vlib.ListOf(o.Services, OSvc.term))
	}
	args = append(args, vlib.Str(cfg), vlib.ListOf(fast, Listener.term), vlib.ListOf(scan, Listener.term), pr(of), pr(os_))
	c.Add(vlib.Case{ID: id, Term: vlib.App("Paths", args...), Tags: tags,
		Sample:  map[string]any{"kind": "paths", "world": w, "proxy_ns": cfg, "fast_listeners": fast, "fast": of, "scan": os_},
		Trivial: false})
}

func canonListeners(o OScope) [][]OSvc {
	var out [][]OSvc
	for _, l := range o.Listeners {
		x := append([]OSvc{}, l.Svcs...)
		sort.SliceStable(x, func(i, j int) bool {
			if x[i].Host != x[j].Host {
				return x[i].Host < x[j].Host
			}
			return x[i].Name < x[j].Name
		})
		out = append(out, x)
	}
	return out
}

// ---------------------------------------------------------------- DestinationRule visibility

var drExportPool = [][]string{nil, nil, {"*"}, {"."}, {"ns1"}, {"ns2"}, {"ns2", "ns3"}, {".", "ns2"}, {"ns1", "ns2", "ns3"}, {"ns1", "ns2"}, {"rootns"}, {"*", "ns1"}, {"ns3"}}
var drHostPool = []string{"a.com", "b.a.com", "*.a.com", "*.b.a.com", "*.com", "c.org", "*.org", "*"}

// exportTo relation between an older and a newer DestinationRule of one host in one namespace
var drShapes = []string{"older-wider", "newer-wider", "equal", "disjoint", "older-unset", "newer-unset", "both-unset", "overlap"}

func subsetOfNs(r *randx, pool []string, min int) []string {
	var out []string
	for _, n := range pool {
		if r.Chance(50) {
			out = append(out, n)
		}
	}
	for len(out) < min {
		n := vlib.Pick(r.Rand, pool)
		dup := false
		for _, x := range out {
			dup = dup || x == n
		}
		if !dup {
			out = append(out, n)
		}
	}
	return out
}

func minus(a, b []string) []string {
	var out []string
	for _, x := range a {
		in := false
		for _, y := range b {
			in = in || x == y
		}
		if !in {
			out = append(out, x)
		}
	}
	return out
}

func genDR(t *testing.T, c *vlib.Collector, id *int, seed uint64) {
	r := &randx{vlib.NewRand(seed ^ 0xc0705)}
	n := vlib.Scale(300, 5000)
	for k := 0; k < n; k++ {
		*id++
		w := World{M: Mesh{Root: "rootns", Unified: true, PickBest: true}}
		if r.Chance(40) {
			w.M.DrDefSet = true
			w.M.DrDefault = vlib.Pick(r.Rand, [][]string{{"*"}, {"."}})
		}
		hosts := drHostPool
		if r.Chance(50) {
			hosts = drHostPool[:3]
		}
		nss := nsPool
		if r.Chance(50) {
			nss = []string{"ns1", "rootns"}
		}
		proxyNs := vlib.Pick(r.Rand, nsPool)
		svcNs := vlib.Pick(r.Rand, nss)
		svcHost := vlib.Pick(r.Rand, []string{"a.com", "b.a.com", "x.b.a.com", "c.org", "*.b.a.com", "d.io"})
		shape := ""
		next := 1
		if r.Chance(65) {
			// structured: two (sometimes three) rules for one host in the namespace the lookup consults for exported
			// rules (the service's namespace or the root namespace), related by one of the exportTo shapes; the proxy
			// lives in a namespace one of them names, mostly without a rule of its own for the host
			shape = vlib.Pick(r.Rand, drShapes)
			dn := svcNs
			if r.Chance(25) {
				dn = "rootns"
			}
			h := vlib.Pick(r.Rand, []string{svcHost, svcHost, "*.a.com", "*.com"})
			clients := minus(nsPool, []string{dn})
			var older, newer []string
			switch shape {
			case "older-wider":
				older = subsetOfNs(r, clients, 2)
				newer = older[:1+r.Intn(len(older)-1)]
			case "newer-wider":
				newer = subsetOfNs(r, clients, 2)
				older = newer[:1+r.Intn(len(newer)-1)]
			case "equal":
				older = subsetOfNs(r, clients, 1)
				newer = append([]string{}, older...)
			case "disjoint":
				older = subsetOfNs(r, clients, 1)
				newer = minus(clients, older)
				if len(newer) == 0 {
					newer = []string{"."}
				}
			case "older-unset":
				newer = subsetOfNs(r, clients, 1)
			case "newer-unset":
				older = subsetOfNs(r, clients, 1)
			case "overlap":
				older = subsetOfNs(r, nsPool, 2)
				newer = append([]string{older[0]}, minus(nsPool, older)...)
			}
			if r.Chance(20) && len(older) > 0 {
				older = append(older, ".")
			}
			w.DRs = append(w.DRs, DR{Name: 1, Ns: dn, Host: h, Export: older, Ctime: 0, TP: r.Chance(60)},
				DR{Name: 2, Ns: dn, Host: h, Export: newer, Ctime: 1, TP: r.Chance(60)})
			next = 3
			if r.Chance(30) {
				w.DRs = append(w.DRs, DR{Name: 3, Ns: dn, Host: h, Export: subsetOfNs(r, clients, 1), Ctime: 2, TP: r.Chance(60)})
				next = 4
			}
			// the proxy: a namespace named by one of the rules (the difference of the two sets when there is one)
			cand := append(minus(older, newer), minus(newer, older)...)
			cand = minus(cand, []string{".", "*"})
			if len(cand) == 0 || r.Chance(30) {
				cand = clients
			}
			proxyNs = vlib.Pick(r.Rand, cand)
		}
		extra := r.Intn(4)
		if shape == "" {
			extra = 1 + r.Intn(6)
		}
		for i := 0; i < extra; i++ {
			d := DR{Name: next, Ns: vlib.Pick(r.Rand, nss), Host: vlib.Pick(r.Rand, hosts), Ctime: next - 1, TP: r.Chance(50),
				Export: append([]string{}, vlib.Pick(r.Rand, drExportPool)...)}
			if shape != "" && d.Ns == proxyNs && r.Chance(80) {
				d.Ns = w.DRs[0].Ns // mostly no rule of the proxy's own namespace, so the exported tiers are consulted
			}
			w.DRs = append(w.DRs, d)
			next++
		}
		sub := r.Sub()
		if !c.Wanted(*id) {
			continue
		}
		var tags []string
		if shape != "" {
			tags = append(tags, "dr:shape="+shape)
		}
		addDRCase(t, c, *id, w, proxyNs, svcNs, svcHost, sub, tags...)
	}
}

func addDRCase(t *testing.T, c *vlib.Collector, id int, w World, proxyNs, svcNs, svcHost string, sub *vlib.Rand, extraTags ...string) {
	idp := &id
	{
		var obs [][][2]string
		var obsSubsets [][]int
		var obsTP []int
		pan, msg := vlib.Recover(func() {
			b, err := build(w, sub)
			if err != nil {
				panic(err)
			}
			defer b.Close()
			from, rules := model.VerifC07DestinationRule(b.ps, proxyNs, &model.Service{Hostname: host.Name(svcHost),
				Attributes: model.ServiceAttributes{Namespace: svcNs, Name: "x"}})
			for i, f := range from {
				var one [][2]string
				for _, nn := range f {
					one = append(one, [2]string{nn.Namespace, nn.Name})
				}
				obs = append(obs, one)
				// the merged rule handed to the proxy: whose subsets, whose traffic policy
				spec := rules[i].Spec.(*networking.DestinationRule)
				var subs []int
				for _, ss := range spec.Subsets {
					var n int
					fmt.Sscanf(ss.Name, "sub%d", &n)
					subs = append(subs, n)
				}
				obsSubsets = append(obsSubsets, subs)
				obsTP = append(obsTP, int(spec.GetTrafficPolicy().GetConnectionPool().GetHttp().GetHttp1MaxPendingRequests()))
			}
		})
		if pan {
			c.Violate(vlib.Violation{ID: *idp, Kind: "panic", Detail: msg, Case: w})
			return
		}
		tags := append([]string{"dr"}, extraTags...)
		if os.Getenv("VERIF_DEBUG") != "" && len(extraTags) > 0 && !strings.HasPrefix(extraTags[0], "dr:shape") {
			t.Logf("%v: destinationRule(%s, %s/%s) from = %v", extraTags, proxyNs, svcNs, svcHost, obs)
		}
		switch {
		case len(obs) == 0:
			tags = append(tags, "dr:none")
		case len(obs) > 1:
			tags = append(tags, "dr:several-consolidated")
		}
		for _, f := range obs {
			if len(f) > 1 {
				tags = append(tags, "dr:merged")
				break
			}
		}
		if proxyNs == "rootns" {
			tags = append(tags, "dr:root-proxy")
		}
		term := vlib.App("DRule", vlib.NI(*idp), w.M.term(), vlib.ListOf(w.DRs, DR.term), vlib.Str(proxyNs), vlib.Str(svcNs), vlib.Str(svcHost),
			vlib.List(func() []string {
				var out []string
				for i, f := range obs {
					fr := vlib.ListOf(f, func(p [2]string) string {
						var n int
						fmt.Sscanf(p[1], "dr%d", &n)
						return vlib.Pair(vlib.Str(p[0]), vlib.NI(n))
					})
					out = append(out, "("+fr+", "+ints(obsSubsets[i])+", "+vlib.NI(obsTP[i])+")")
				}
				return out
			}()))
		c.Add(vlib.Case{ID: *idp, Term: term, Tags: tags, Sample: map[string]any{"kind": "dr", "mesh": w.M, "drs": w.DRs, "proxy_ns": proxyNs,
			"svc_ns": svcNs, "svc_host": svcHost, "from": obs, "subsets": obsSubsets, "traffic_policy_of": obsTP}, Trivial: len(obs) == 0 && len(extraTags) == 0})
	}
}

// ---------------------------------------------------------------- fixed witnesses of the _refuted theorems

func genWitnesses(t *testing.T, c *vlib.Collector, id *int) {
	r := vlib.NewRand(7)
	m := Mesh{Root: "rootns", Unified: true, PickBest: true}
	// K3 regression (repaired in /repo cba5e9c): two ns1 services, exported only elsewhere / to nobody, and an ns1
	// VirtualService routing to them; the scope must stay empty
	*id++
	if c.Wanted(*id) {
		w := World{M: m,
			Svcs: []Svc{
				{Host: "a.com", Ns: "ns1", Export: []string{"ns2"}, Ports: []int{80}, Ctime: 1, Name: "s00"},
				{Host: "c.org", Ns: "ns1", Export: []string{"~"}, Ports: []int{80}, Ctime: 2, Name: "s01"},
			},
			VSs: []VS{{Name: 1, Ns: "ns1", Hosts: []string{"d.io"}, Mesh: true, Ctime: 0,
				Routes: []Route{{HTTP: true, Dests: []Dest{{Host: "a.com"}, {Host: "c.org"}}}}}},
		}
		addScopeCase(t, c, *id, w, "ns1", nil, false, r, "regression:K3")
	}
	// fast path vs scan path, (a) namespace tie-break follows candidate order
	*id++
	if c.Wanted(*id) {
		w := World{M: m, Svcs: []Svc{
			{Host: "a.com", Ns: "ns1", Export: []string{"*"}, Ports: []int{80}, Ctime: 1, Name: "s00"},
			{Host: "a.com", Ns: "ns2", Export: []string{"ns3"}, Ports: []int{80}, Ctime: 2, Name: "s01"},
		}}
		l := Listener{Hosts: []string{"ns1/a.com", "ns2/a.com"}}
		l2 := Listener{Hosts: []string{"ns1/a.com", "ns2/a.com", "zz-none/*"}}
		addPathsCase(t, c, *id, w, "ns3", []Listener{l}, []Listener{l2}, r)
	}
	// (b) two ServiceEntries declare the same host in one namespace
	*id++
	if c.Wanted(*id) {
		w := World{M: m, Svcs: []Svc{
			{Host: "a.com", Ns: "ns1", Ports: []int{80}, Ctime: 1, Name: "s00"},
			{Host: "a.com", Ns: "ns1", Ports: []int{443}, Ctime: 2, Name: "s01"},
		}}
		l := Listener{Hosts: []string{"ns1/a.com"}}
		l2 := Listener{Hosts: []string{"ns1/a.com", "zz-none/*"}}
		addPathsCase(t, c, *id, w, "ns3", []Listener{l}, []Listener{l2}, r)
	}
	// (c) the index entry of (a.com, ns1) is an older service exported to nobody: the fast path delivers nothing
	*id++
	if c.Wanted(*id) {
		w := World{M: m, Svcs: []Svc{
			{Host: "a.com", Ns: "ns1", Export: []string{"~"}, Ports: []int{80}, Ctime: 1, Name: "s00"},
			{Host: "a.com", Ns: "ns1", Export: []string{"*"}, Ports: []int{80}, Ctime: 2, Name: "s01"},
		}}
		l := Listener{Hosts: []string{"ns1/a.com"}}
		l2 := Listener{Hosts: []string{"ns1/a.com", "zz-none/*"}}
		addPathsCase(t, c, *id, w, "ns3", []Listener{l}, []Listener{l2}, r)
	}
	// observation (not a leak): a DestinationRule exported to [ns2, ns3] is merged into an older one exported to [ns2]
	// and is not kept as a rule of its own, so ns3 gets no rule
	*id++
	if c.Wanted(*id) {
		w := World{M: m, DRs: []DR{
			{Name: 1, Ns: "ns1", Host: "a.com", Export: []string{"ns2"}, Ctime: 0},
			{Name: 2, Ns: "ns1", Host: "a.com", Export: []string{"ns2", "ns3"}, Ctime: 1},
		}}
		addDRCase(t, c, *id, w, "ns3", "ns1", "a.com", r, "dr:superset-merged-not-standalone")
	}
	if os.Getenv("VERIF_DEBUG") != "" {
		t.Logf("witness ids end at %d", *id)
	}
}
