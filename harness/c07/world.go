//go:build verif

// Package c07: correspondence harness for C07 (a proxy only receives services visible to and imported
// by its namespace).  world.go: abstract inputs, their concretisation into real istio objects, the
// real PushContext, and the Gallina printers.
package c07

import (
	"fmt"
	"sort"
	"strings"
	"time"

	meshconfig "istio.io/api/mesh/v1alpha1"
	networking "istio.io/api/networking/v1alpha3"
	"istio.io/istio/pilot/pkg/features"
	"istio.io/istio/pilot/pkg/model"
	"istio.io/istio/pilot/pkg/serviceregistry/provider"
	"istio.io/istio/pkg/cluster"
	"istio.io/istio/pkg/config"
	"istio.io/istio/pkg/config/constants"
	"istio.io/istio/pkg/config/host"
	"istio.io/istio/pkg/config/labels"
	"istio.io/istio/pkg/config/mesh"
	"istio.io/istio/pkg/config/mesh/meshwatcher"
	"istio.io/istio/pkg/config/protocol"
	"istio.io/istio/pkg/config/schema/gvk"
	"istio.io/istio/pkg/config/visibility"
	"istio.io/istio/pkg/kube"
	"istio.io/istio/pkg/kube/krt"
	"istio.io/istio/pkg/util/sets"
	"verif/harness/vlib"
)

// ---------------------------------------------------------------- abstract inputs

type Svc struct {
	Host, Ns string
	Kube     bool
	Export   []string
	Vis      int // 0 public, 1 namespace, 2 none
	Ports    []int
	Ctime    int
	Name     string
	MKey     int // bit0: resolution (ClientSideLB/DNSLB), bit1: labels
}

type Mesh struct {
	SvcDefault, VsDefault, DrDefault []string // nil = unset
	SvcDefSet, VsDefSet, DrDefSet    bool
	ApplySidecars                    bool
	Root                             string
	Unified, PickBest                bool
}

type Listener struct {
	Hosts     []string
	Port      int
	HTTPProxy bool
}

type Route struct {
	HTTP  bool
	Src   []string
	Dests []Dest
}
type Dest struct {
	Host string
	Port int
}
type VS struct {
	Name   int
	Ns     string
	Hosts  []string
	Export []string
	Gw     bool
	Mesh   bool
	GwList []string
	Routes []Route
	Ctime  int
}

type Sidecar struct {
	Name     int
	Ns       string
	Ctime    int
	HasSel   bool
	Selector []string // "k=v"
	Egress   []Listener
}

type DR struct {
	Name   int
	Ns     string
	Host   string
	Export []string
	Ctime  int
	TP     bool // has a top-level trafficPolicy (connection pool limit = its own number)
}

type World struct {
	M    Mesh
	Svcs []Svc
	VSs  []VS
	SCs  []Sidecar
	DRs  []DR
}

// ---------------------------------------------------------------- concretisation

func (s Svc) real() *model.Service {
	out := &model.Service{
		Hostname:     host.Name(s.Host),
		CreationTime: time.Unix(int64(1000+s.Ctime), 0),
		Resolution:   model.ClientSideLB,
		Attributes: model.ServiceAttributes{
			Name:            s.Name,
			Namespace:       s.Ns,
			ServiceRegistry: provider.External,
		},
	}
	if s.Kube {
		out.Attributes.ServiceRegistry = provider.Kubernetes
	}
	if s.MKey&1 == 1 {
		out.Resolution = model.DNSLB
	}
	if s.MKey&2 == 2 {
		out.Attributes.Labels = map[string]string{"x": "y"}
	}
	if len(s.Export) > 0 {
		out.Attributes.ExportTo = sets.New[visibility.Instance]()
		for _, e := range s.Export {
			out.Attributes.ExportTo.Insert(visibility.Instance(e))
		}
	}
	switch s.Vis {
	case 1:
		out.Attributes.Visibility = model.ServiceVisibilityNamespace
	case 2:
		out.Attributes.Visibility = model.ServiceVisibilityNone
	}
	for _, p := range s.Ports {
		out.Ports = append(out.Ports, &model.Port{Name: fmt.Sprintf("p%d", p), Port: p, Protocol: portProto(p)})
	}
	return out
}

func portProto(p int) protocol.Instance {
	switch p {
	case 80, 8080:
		return protocol.HTTP
	case 443:
		return protocol.HTTPS
	}
	return protocol.TCP
}

func (m Mesh) real() *meshconfig.MeshConfig {
	mc := mesh.DefaultMeshConfig()
	mc.RootNamespace = m.Root
	mc.DefaultServiceExportTo, mc.DefaultVirtualServiceExportTo, mc.DefaultDestinationRuleExportTo = nil, nil, nil
	if m.SvcDefSet {
		mc.DefaultServiceExportTo = append([]string{}, m.SvcDefault...)
	}
	if m.VsDefSet {
		mc.DefaultVirtualServiceExportTo = append([]string{}, m.VsDefault...)
	}
	if m.DrDefSet {
		mc.DefaultDestinationRuleExportTo = append([]string{}, m.DrDefault...)
	}
	if m.ApplySidecars {
		mc.ServiceEntryVisibility = &meshconfig.ServiceEntryVisibility{ApplyToSidecars: true}
	}
	return mc
}

func (v VS) real() config.Config {
	spec := &networking.VirtualService{Hosts: append([]string{}, v.Hosts...), ExportTo: append([]string{}, v.Export...), Gateways: append([]string{}, v.GwList...)}
	for i, r := range v.Routes {
		if r.HTTP {
			hr := &networking.HTTPRoute{Name: fmt.Sprintf("r%d", i)}
			for _, s := range r.Src {
				hr.Match = append(hr.Match, &networking.HTTPMatchRequest{SourceNamespace: s, Uri: &networking.StringMatch{MatchType: &networking.StringMatch_Prefix{Prefix: "/"}}})
			}
			for _, d := range r.Dests {
				hr.Route = append(hr.Route, &networking.HTTPRouteDestination{Destination: dest(d), Weight: 1})
			}
			spec.Http = append(spec.Http, hr)
		} else {
			tr := &networking.TCPRoute{}
			for _, d := range r.Dests {
				tr.Route = append(tr.Route, &networking.RouteDestination{Destination: dest(d), Weight: 1})
			}
			spec.Tcp = append(spec.Tcp, tr)
		}
	}
	c := config.Config{
		Meta: config.Meta{GroupVersionKind: gvk.VirtualService, Name: fmt.Sprintf("vs%d", v.Name), Namespace: v.Ns,
			CreationTimestamp: time.Unix(int64(2000+v.Ctime), 0)},
		Spec: spec,
	}
	if v.Gw {
		c.Annotations = map[string]string{constants.InternalRouteSemantics: constants.RouteSemanticsGateway}
	}
	return c
}

func dest(d Dest) *networking.Destination {
	out := &networking.Destination{Host: d.Host}
	if d.Port != 0 {
		out.Port = &networking.PortSelector{Number: uint32(d.Port)}
	}
	return out
}

func (l Listener) real() *networking.IstioEgressListener {
	out := &networking.IstioEgressListener{Hosts: append([]string{}, l.Hosts...)}
	if l.Port != 0 || l.HTTPProxy {
		pr := "HTTP"
		if l.HTTPProxy {
			pr = "HTTP_PROXY"
		}
		out.Port = &networking.SidecarPort{Number: uint32(l.Port), Protocol: pr, Name: "lp"}
	}
	return out
}

func (s Sidecar) real() config.Config {
	spec := &networking.Sidecar{}
	if s.HasSel {
		spec.WorkloadSelector = &networking.WorkloadSelector{Labels: kvMap(s.Selector)}
	}
	for _, l := range s.Egress {
		spec.Egress = append(spec.Egress, l.real())
	}
	return config.Config{
		Meta: config.Meta{GroupVersionKind: gvk.Sidecar, Name: fmt.Sprintf("sc%d", s.Name), Namespace: s.Ns,
			CreationTimestamp: time.Unix(int64(3000+s.Ctime), 0)},
		Spec: spec,
	}
}

func (d DR) real() config.Config {
	spec := &networking.DestinationRule{Host: d.Host, ExportTo: append([]string{}, d.Export...),
		Subsets: []*networking.Subset{{Name: fmt.Sprintf("sub%d", d.Name), Labels: map[string]string{"v": fmt.Sprint(d.Name)}}}}
	if d.TP {
		spec.TrafficPolicy = &networking.TrafficPolicy{ConnectionPool: &networking.ConnectionPoolSettings{
			Http: &networking.ConnectionPoolSettings_HTTPSettings{Http1MaxPendingRequests: int32(d.Name)}}}
	}
	return config.Config{
		Meta: config.Meta{GroupVersionKind: gvk.DestinationRule, Name: fmt.Sprintf("dr%d", d.Name), Namespace: d.Ns,
			CreationTimestamp: time.Unix(int64(4000+d.Ctime), 0)},
		Spec: spec,
	}
}

func (d DR) term() string {
	return vlib.App("mkDr", vlib.NI(d.Name), vlib.Str(d.Ns), vlib.Str(d.Host), strs(d.Export), vlib.NI(d.Ctime), vlib.B(d.TP))
}

func kvMap(kvs []string) map[string]string {
	m := map[string]string{}
	for _, kv := range kvs {
		k, v, _ := strings.Cut(kv, "=")
		m[k] = v
	}
	return m
}

// ---------------------------------------------------------------- the real PushContext

type sd struct {
	model.NetworkGatewaysHandler
	services []*model.Service
}

func (s *sd) Services() []*model.Service { return s.services }
func (s *sd) GetService(h host.Name) *model.Service {
	for _, x := range s.services {
		if x.Hostname == h {
			return x
		}
	}
	return nil
}
func (s *sd) GetProxyServiceTargets(*model.Proxy) []model.ServiceTarget { return nil }
func (s *sd) GetProxyWorkloadLabels(*model.Proxy) labels.Instance       { return nil }
func (s *sd) MCSServices() []model.MCSServiceInfo                        { return nil }
func (s *sd) NetworkGateways() []model.NetworkGateway                    { return nil }

var _ = cluster.ID("")

type built struct {
	ps   *model.PushContext
	env  *model.Environment
	real map[string]*model.Service // by Attributes.Name
	stop chan struct{}
}

func (b *built) Close() { close(b.stop) }

// build runs the production initialisation (PushContext.InitContext) on a fake environment.
func build(w World, r *vlib.Rand) (*built, error) {
	features.UnifiedSidecarScoping = w.M.Unified
	features.SidecarPickBestServiceNamespace = w.M.PickBest
	mc := w.M.real()
	env := model.NewEnvironment()
	env.Watcher = meshwatcher.NewTestWatcher(mc)
	b := &built{env: env, real: map[string]*model.Service{}, stop: make(chan struct{})}
	var svcs []*model.Service
	order := perm(r, len(w.Svcs))
	for _, i := range order {
		rs := w.Svcs[i].real()
		b.real[rs.Attributes.Name] = rs
		svcs = append(svcs, rs)
	}
	env.ServiceDiscovery = &sd{services: svcs}
	store := model.NewFakeStore()
	for _, i := range perm(r, len(w.VSs)) {
		if _, err := store.Create(w.VSs[i].real()); err != nil {
			return nil, err
		}
	}
	for _, i := range perm(r, len(w.SCs)) {
		if _, err := store.Create(w.SCs[i].real()); err != nil {
			return nil, err
		}
	}
	for _, i := range perm(r, len(w.DRs)) {
		if _, err := store.Create(w.DRs[i].real()); err != nil {
			return nil, err
		}
	}
	env.ConfigStore = store
	env.VirtualServiceController = model.NewVirtualServiceController(store, model.VSControllerOptions{KrtDebugger: krt.GlobalDebugHandler}, env.Watcher)
	go store.Run(b.stop)
	go env.VirtualServiceController.Run(b.stop)
	if !kube.WaitForCacheSync("c07", b.stop, store.HasSynced, env.VirtualServiceController.HasSynced) {
		return nil, fmt.Errorf("no sync")
	}
	env.Init()
	b.ps = model.NewPushContext()
	b.ps.InitContext(env, nil, nil)
	return b, nil
}

func perm(r *vlib.Rand, n int) []int {
	p := make([]int, n)
	for i := range p {
		p[i] = i
	}
	for i := n - 1; i > 0; i-- {
		j := r.Intn(i + 1)
		p[i], p[j] = p[j], p[i]
	}
	return p
}

// ---------------------------------------------------------------- observations

type OSvc struct {
	Host, Ns, Name string
	Ports          []int
}

func obsSvc(s *model.Service) OSvc {
	o := OSvc{Host: string(s.Hostname), Ns: s.Attributes.Namespace, Name: s.Attributes.Name}
	for _, p := range s.Ports {
		o.Ports = append(o.Ports, p.Port)
	}
	return o
}

type OListener struct {
	Svcs []OSvc
	VSs  [][2]string // ns, name
}

type OScope struct {
	Sidecar   int
	Listeners []OListener
	Services  []OSvc // sorted by hostname, ports sorted
}

func observeScope(sc *model.SidecarScope) OScope {
	var o OScope
	if strings.HasPrefix(sc.Name, "sc") {
		fmt.Sscanf(sc.Name, "sc%d", &o.Sidecar)
	}
	for _, l := range sc.EgressListeners {
		ol := OListener{}
		for _, s := range l.Services() {
			ol.Svcs = append(ol.Svcs, obsSvc(s))
		}
		for _, v := range l.VirtualServices() {
			ol.VSs = append(ol.VSs, [2]string{v.Namespace, v.Name})
		}
		o.Listeners = append(o.Listeners, ol)
	}
	for _, s := range sc.Services() {
		x := obsSvc(s)
		sort.Ints(x.Ports)
		o.Services = append(o.Services, x)
	}
	sort.SliceStable(o.Services, func(i, j int) bool { return o.Services[i].Host < o.Services[j].Host })
	return o
}

func proxyFor(ns string, lbls []string, gateway bool) *model.Proxy {
	p := &model.Proxy{Type: model.SidecarProxy, ID: "wl." + ns, ConfigNamespace: ns, Labels: kvMap(lbls),
		Metadata: &model.NodeMetadata{Namespace: ns, Labels: kvMap(lbls)}}
	if gateway {
		p.Type = model.Router
	}
	return p
}

// ---------------------------------------------------------------- Gallina printers

func strs(xs []string) string { return vlib.ListOf(xs, vlib.Str) }
func ints(xs []int) string    { return vlib.ListOf(xs, vlib.NI) }
func optStrs(set bool, xs []string) string {
	return vlib.Opt(set, strs(xs))
}

func (s Svc) term() string {
	reg := "Ext"
	if s.Kube {
		reg = "Kube"
	}
	return vlib.App("mkSvc", vlib.Str(s.Host), vlib.Str(s.Ns), reg, strs(s.Export), []string{"VPublic", "VNamespace", "VNone"}[s.Vis],
		ints(s.Ports), vlib.NI(s.Ctime), vlib.Str(s.Name), vlib.NI(s.MKey))
}

func (m Mesh) term() string {
	return vlib.App("mkMesh", optStrs(m.SvcDefSet, m.SvcDefault), optStrs(m.VsDefSet, m.VsDefault), optStrs(m.DrDefSet, m.DrDefault),
		vlib.B(m.ApplySidecars), vlib.Str(m.Root), vlib.B(m.Unified), vlib.B(m.PickBest))
}

func (l Listener) term() string {
	return vlib.App("mkL", strs(l.Hosts), vlib.NI(l.Port), vlib.B(l.HTTPProxy))
}

func (v VS) term() string {
	routes := vlib.ListOf(v.Routes, func(r Route) string {
		return vlib.App("mkRoute", vlib.B(r.HTTP), strs(r.Src), vlib.ListOf(r.Dests, func(d Dest) string { return vlib.Pair(vlib.Str(d.Host), vlib.NI(d.Port)) }))
	})
	return vlib.App("mkVs", vlib.NI(v.Name), vlib.Str(v.Ns), strs(v.Hosts), strs(v.Export), vlib.B(v.Gw), vlib.B(v.Mesh), routes, vlib.NI(v.Ctime))
}

func (s Sidecar) term() string {
	return vlib.App("mkSc", vlib.NI(s.Name), vlib.Str(s.Ns), vlib.NI(s.Ctime), vlib.Opt(s.HasSel, strs(s.Selector)), vlib.ListOf(s.Egress, Listener.term))
}

func (o OSvc) term() string {
	return vlib.App("mkO", vlib.Str(o.Host), vlib.Str(o.Ns), vlib.Str(o.Name), ints(o.Ports))
}

func vsID(p [2]string) string {
	var n int
	fmt.Sscanf(p[1], "vs%d", &n)
	return vlib.Pair(vlib.Str(p[0]), vlib.NI(n))
}

func (o OListener) term() string {
	return vlib.Pair(vlib.ListOf(o.Svcs, OSvc.term), vlib.ListOf(o.VSs, vsID))
}
