//go:build verif

package c06

import (
	"crypto/sha256"
	"encoding/hex"
	"fmt"
	"sort"
	"testing"
	"time"

	core "github.com/envoyproxy/go-control-plane/envoy/config/core/v3"
	"google.golang.org/protobuf/proto"

	"google.golang.org/protobuf/types/known/wrapperspb"
	networkingapi "istio.io/api/networking/v1alpha3"
	"istio.io/istio/pilot/pkg/features"
	"istio.io/istio/pilot/pkg/model"
	xdscore "istio.io/istio/pilot/pkg/networking/core"
	v3 "istio.io/istio/pilot/pkg/xds/v3"
	"istio.io/istio/pilot/test/xds"
	"istio.io/istio/pkg/cluster"
	"istio.io/istio/pkg/config"
	"istio.io/istio/pkg/config/schema/gvk"
	"istio.io/istio/pkg/config/schema/kind"
	"istio.io/istio/pkg/network"
	"istio.io/istio/pkg/util/sets"
	"verif/harness/vlib"
)

// ---------------------------------------------------------------- XdsCacheImpl.Clear over the typed caches

type xEntry struct {
	typ       string
	key       any
	deps      []model.ConfigHash
	cacheable bool
}

func (e xEntry) Type() string                         { return e.typ }
func (e xEntry) Key() any                             { return e.key }
func (e xEntry) DependentConfigs() []model.ConfigHash { return e.deps }
func (e xEntry) Cacheable() bool                      { return e.cacheable }

func genXClear(c *vlib.Collector, id *int, r *vlib.Rand) {
	n := vlib.Scale(40, 400)
	for i := 0; i < n; i++ {
		*id++
		sub := r.Sub()
		if !c.Wanted(*id) {
			continue
		}
		features.XDSCacheMaxSize = 50
		x := model.NewXdsCache()
		cds, eds, rds := model.VerifC06TypedParts(x)
		if cds == nil || eds == nil || rds == nil {
			c.Tag("xclear:typed-cache-disabled")
			continue
		}
		req := &model.PushRequest{Start: time.Now()}
		vid := uint64(0)
		for _, typ := range []string{model.CDSType, model.EDSType, model.RDSType, model.SDSType} {
			for k := 1; k <= 4; k++ {
				deps := subset(sub, sub.Intn(4))
				hs := make([]model.ConfigHash, len(deps))
				for i, d := range deps {
					hs[i] = cfgHash(d)
				}
				var key any = uint64(k)
				if typ == model.SDSType {
					key = fmt.Sprintf("kubernetes://secret-%d/", k)
				}
				vid++
				x.Add(xEntry{typ, key, hs, !sub.Chance(10)}, req, mkRes(&val{vid, 0}))
			}
		}
		edsBefore := len(eds.State().Entries)
		cfgs := subset(sub, 1+sub.Intn(2))
		s := sets.New[model.ConfigKey]()
		hasPA := false
		for _, cid := range cfgs {
			s.Insert(universe[cid-1])
			hasPA = hasPA || universe[cid-1].Kind == kind.PeerAuthentication
		}
		x.Clear(s)
		base := time.Now().UnixNano() - int64(time.Hour)
		part := func(name string, w *model.VerifC06Cache) string {
			ob := observe(w.State(), base, nil)
			for i := range ob.Store {
				ob.Store[i].Tok = 0 // stamps are irrelevant for this oracle
			}
			return vlib.Pair(name, vlib.ListOf(ob.Store, entryTerm))
		}
		term := vlib.App("XClear", vlib.NI(*id), nlist(cfgs), vlib.B(hasPA), vlib.Nat(edsBefore),
			vlib.List([]string{part("CDS", cds), part("EDS", eds), part("RDS", rds)}))
		tags := []string{"xclear"}
		if hasPA {
			tags = append(tags, "xclear:peer-authentication")
		}
		c.Add(vlib.Case{ID: *id, Term: term, Tags: tags, Trivial: edsBefore == 0,
			Sample: map[string]any{"kind": "xclear", "cfgs": cfgs, "has_pa": hasPA, "eds_before": edsBefore, "eds_after": len(eds.State().Entries)}})
	}
}

// ---------------------------------------------------------------- H_key: warm shared cache vs no cache, real generators

const hkeyConfig = `
apiVersion: networking.istio.io/v1
kind: ServiceEntry
metadata: {name: se-static, namespace: ns1}
spec:
  hosts: [static.ns1.example.com]
  ports: [{number: 80, name: http, protocol: HTTP}, {number: 9000, name: tcp, protocol: TCP}]
  resolution: STATIC
  location: MESH_INTERNAL
  endpoints:
  - {address: 10.0.0.1, locality: region1/zone1/sub1, network: net1, labels: {version: v1, app: a, security.istio.io/tlsMode: istio}}
  - {address: 10.0.0.2, locality: region1/zone2/sub1, network: net1, labels: {version: v2, app: a, security.istio.io/tlsMode: istio}}
  - {address: 10.0.0.3, locality: region2/zone1/sub1, network: net2, labels: {version: v1, app: a, security.istio.io/tlsMode: istio}}
---
apiVersion: networking.istio.io/v1
kind: ServiceEntry
metadata: {name: se-static2, namespace: ns1}
spec:
  hosts: [static2.ns1.example.com]
  ports: [{number: 80, name: http, protocol: HTTP}]
  resolution: STATIC
  location: MESH_INTERNAL
  endpoints:
  - {address: 10.0.1.1, locality: region1/zone1/sub1, network: net1, labels: {security.istio.io/tlsMode: istio}}
  - {address: 10.0.1.2, locality: region2/zone1/sub1, network: net1, labels: {security.istio.io/tlsMode: istio}}
  - {address: 10.0.1.3, locality: region2/zone1/sub1, network: net2, labels: {security.istio.io/tlsMode: istio}}
---
apiVersion: networking.istio.io/v1
kind: DestinationRule
metadata: {name: dr-static2, namespace: ns1}
spec:
  host: static2.ns1.example.com
  trafficPolicy:
    outlierDetection: {consecutive5xxErrors: 3}
---
apiVersion: networking.istio.io/v1
kind: ServiceEntry
metadata: {name: se-dns, namespace: ns1}
spec:
  hosts: [dns.ns1.example.com]
  ports: [{number: 8080, name: http, protocol: HTTP}]
  resolution: DNS
  endpoints:
  - {address: a.example.org, locality: region1/zone1/sub1}
  - {address: b.example.org, locality: region2/zone1/sub1}
---
apiVersion: networking.istio.io/v1
kind: ServiceEntry
metadata: {name: se-ns2, namespace: ns2}
spec:
  hosts: [only.ns2.example.com]
  exportTo: ["."]
  ports: [{number: 80, name: http, protocol: HTTP}]
  resolution: STATIC
  endpoints:
  - {address: 10.0.2.1}
---
apiVersion: networking.istio.io/v1
kind: DestinationRule
metadata: {name: dr-static, namespace: ns1}
spec:
  host: static.ns1.example.com
  trafficPolicy:
    outlierDetection: {consecutive5xxErrors: 3}
    loadBalancer:
      localityLbSetting:
        failoverPriority: ["topology.istio.io/network", "app"]
  subsets:
  - {name: v1, labels: {version: v1}}
  - {name: v2, labels: {version: v2}}
---
# a second rule for the same host in the same namespace: merged with dr-static into ONE consolidated rule
apiVersion: networking.istio.io/v1
kind: DestinationRule
metadata: {name: dr-static-b, namespace: ns1}
spec:
  host: static.ns1.example.com
  subsets:
  - {name: v3, labels: {version: v2}}
---
apiVersion: networking.istio.io/v1
kind: DestinationRule
metadata: {name: dr-ns2-override, namespace: ns2}
spec:
  host: static.ns1.example.com
  trafficPolicy:
    connectionPool: {tcp: {maxConnections: 7}}
---
apiVersion: networking.istio.io/v1
kind: VirtualService
metadata: {name: vs-static, namespace: ns1}
spec:
  hosts: [static.ns1.example.com]
  http:
  - match: [{uri: {prefix: /v2}}]
    route: [{destination: {host: static.ns1.example.com, subset: v2}}]
  - route: [{destination: {host: static.ns1.example.com, subset: v1}}]
---
# routes selected by the CALLER's namespace (route "80"): generation reads the proxy namespace, which is
# not part of the RDS key - such a route must not be cacheable
apiVersion: networking.istio.io/v1
kind: VirtualService
metadata: {name: vs-tenant, namespace: ns1}
spec:
  hosts: [static2.ns1.example.com]
  # only the two (otherwise empty) tenant namespaces import it, so the routes of the base proxies stay cacheable
  exportTo: [ns3, ns5]
  http:
  - name: from-ns3
    match: [{sourceNamespace: ns3}]
    route: [{destination: {host: static2.ns1.example.com}, headers: {request: {set: {x-tenant: ns3}}}}]
  - name: from-ns5-mesh
    match: [{sourceNamespace: ns5, gateways: [mesh]}]
    route: [{destination: {host: static2.ns1.example.com}, headers: {request: {set: {x-tenant: ns5}}}}]
  - name: gw-only
    match: [{gateways: [ns1/some-gateway], uri: {prefix: /gw}}]
    route: [{destination: {host: static2.ns1.example.com}, headers: {request: {set: {x-tenant: gw}}}}]
  - route: [{destination: {host: static2.ns1.example.com}}]
---
# routes selected by the caller's labels, for contrast.  Exported to ns2 only: a sidecar's RDS cache entry lists
# ALL virtual services of its egress listener, so this one makes every route of the proxies that import it
# uncacheable and would mask the sourceNamespace case for them.
apiVersion: networking.istio.io/v1
kind: VirtualService
metadata: {name: vs-labels, namespace: ns1}
spec:
  hosts: [dns.ns1.example.com]
  exportTo: [ns2]
  http:
  - name: from-b
    match: [{sourceLabels: {app: b}}]
    route: [{destination: {host: dns.ns1.example.com}, headers: {request: {set: {x-src: b}}}}]
  - route: [{destination: {host: dns.ns1.example.com}}]
---
apiVersion: networking.istio.io/v1
kind: VirtualService
metadata: {name: vs-ns2, namespace: ns2}
spec:
  hosts: [static.ns1.example.com]
  exportTo: ["."]
  http:
  - route: [{destination: {host: only.ns2.example.com}}]
`

type proxyAttrs struct {
	Namespace, Network, Cluster, Region, Node, Version, DNSDomain string
	Labels                                                        map[string]string
	Router, DNSCapture, NoHBONE                                   bool
}

func (a proxyAttrs) build(s *xds.FakeDiscoveryServer) *model.Proxy {
	p := &model.Proxy{
		Type:            model.SidecarProxy,
		ConfigNamespace: a.Namespace,
		ID:              "app." + a.Namespace,
		DNSDomain:       a.DNSDomain, // shared across namespaces (VM-style): a per-namespace domain would mask the namespace in the RDS key
		IPAddresses:     []string{"10.9.9.9"},
		Labels:          a.Labels,
		Locality:        &core.Locality{Region: a.Region, Zone: "zone1", SubZone: "sub1"},
		Metadata: &model.NodeMetadata{
			Namespace: a.Namespace, Network: network.ID(a.Network), ClusterID: cluster.ID(a.Cluster), Labels: a.Labels,
			IstioVersion: a.Version, NodeName: a.Node, DNSCapture: model.StringBool(a.DNSCapture), DisableHBONESend: model.StringBool(a.NoHBONE),
		},
	}
	if a.Router {
		p.Type = model.Router
	}
	return s.SetupProxy(p)
}

var baseAttrs = proxyAttrs{Namespace: "ns1", Network: "net1", Cluster: "Kubernetes", Region: "region1", Node: "node1", Version: "1.24.0", DNSDomain: "mesh.internal",
	Labels: map[string]string{"app": "a", "topology.istio.io/network": "net1"}}

func variants() map[string]proxyAttrs {
	m := map[string]proxyAttrs{}
	v := func(name string, f func(a *proxyAttrs)) {
		a := baseAttrs
		a.Labels = map[string]string{}
		for k, x := range baseAttrs.Labels {
			a.Labels[k] = x
		}
		f(&a)
		m[name] = a
	}
	v("same", func(a *proxyAttrs) {})
	v("namespace", func(a *proxyAttrs) { a.Namespace = "ns2" })
	// ns3 and ns5 hold no config of their own and import exactly the same services / virtual services /
	// destination rules: their RDS cache keys coincide, only the namespace differs
	v("namespace-peer", func(a *proxyAttrs) { a.Namespace = "ns3" })
	v("namespace-peer2", func(a *proxyAttrs) { a.Namespace = "ns5" })
	v("ns2-labels", func(a *proxyAttrs) { a.Namespace = "ns2"; a.Labels["app"] = "b" })
	v("dns-domain", func(a *proxyAttrs) { a.DNSDomain = "ns1.svc.cluster.local" })
	v("labels", func(a *proxyAttrs) { a.Labels["app"] = "b" })
	v("network", func(a *proxyAttrs) { a.Network = "net2"; a.Labels["topology.istio.io/network"] = "net2" })
	v("cluster", func(a *proxyAttrs) { a.Cluster = "cluster2" })
	v("locality", func(a *proxyAttrs) { a.Region = "region2" })
	v("node", func(a *proxyAttrs) { a.Node = "node2" })
	v("type", func(a *proxyAttrs) { a.Router = true })
	v("version", func(a *proxyAttrs) { a.Version = "1.27.0" })
	v("dns-capture", func(a *proxyAttrs) { a.DNSCapture = true })
	v("no-hbone", func(a *proxyAttrs) { a.NoHBONE = true })
	return m
}

// generateAll runs the real CDS, EDS and RDS generators for p through the server's cache and
// returns name -> digest of the marshalled resource.
func generateAll(s *xds.FakeDiscoveryServer, p *model.Proxy) map[string]string {
	out := map[string]string{}
	req := &model.PushRequest{Push: s.PushContext(), Start: time.Now(), Forced: true}
	put := func(kind string, rs model.Resources) {
		for i, r := range rs {
			if r == nil || r.Resource == nil {
				// a hole in the response (e.g. a partial cache hit returned as a full one)
				out[fmt.Sprintf("%s/<nil resource #%d>", kind, i)] = "nil"
				continue
			}
			b, _ := proto.MarshalOptions{Deterministic: true}.Marshal(r.Resource)
			h := sha256.Sum256(b)
			out[kind+"/"+r.Name] = hex.EncodeToString(h[:8])
		}
	}
	// NOTE: the generators registered on the DiscoveryServer share s.Discovery.Cache; s.ConfigGen (the
	// ConfigGenTest helper) is built on a DisabledCache and must not be used here.
	gen := func(typeURL string, names []string) model.Resources {
		w := &model.WatchedResource{TypeUrl: typeURL, ResourceNames: sets.New(names...)}
		rs, _, err := s.Discovery.Generators[typeURL].Generate(p, w, req)
		if err != nil {
			panic(err)
		}
		return rs
	}
	clusters := gen(v3.ClusterType, nil)
	put("cds", clusters)
	var edsNames []string
	for _, c := range s.Clusters(p) {
		if c.GetEdsClusterConfig() != nil {
			edsNames = append(edsNames, c.Name)
		}
	}
	put("eds", gen(v3.EndpointType, edsNames))
	put("rds", gen(v3.RouteType, xdscore.ExtractRoutesFromListeners(s.Listeners(p))))
	return out
}

func genHKey(t *testing.T, c *vlib.Collector, id *int, r *vlib.Rand) {
	vs := variants()
	names := make([]string, 0, len(vs))
	for k := range vs {
		names = append(names, k)
	}
	sort.Strings(names)
	var s *xds.FakeDiscoveryServer
	interned := map[string]uint64{}
	in := func(x string) uint64 {
		if v, ok := interned[x]; ok {
			return v
		}
		interned[x] = uint64(len(interned) + 1)
		return interned[x]
	}
	// ordered pairs (first warms the shared cache, second is served through it)
	for _, a := range names {
		for _, b := range names {
			*id++
			if !c.Wanted(*id) {
				continue
			}
			forced := (a == "namespace" && b == "ns2-labels") || (a == "ns2-labels" && b == "namespace") ||
				(a == "namespace-peer" && b == "namespace-peer2") || (a == "namespace-peer2" && b == "namespace-peer")
			if a != "same" && b != "same" && !vlib.Thorough() && (a != b) && !forced && r.Chance(60) {
				continue // quick tier: every variant against the base both ways + a sample of the cross pairs
			}
			if s == nil {
				features.XDSCacheMaxSize = 60000
				s = xds.NewFakeDiscoveryServer(t, xds.FakeOptions{ConfigString: hkeyConfig, Gateways: []model.NetworkGateway{
					{Network: "net1", Addr: "1.1.1.1", Port: 15443}, {Network: "net2", Addr: "2.2.2.2", Port: 15443}}})
			}
			capacity := 60000
			if r.Chance(45) {
				capacity = 1 + r.Intn(8)
			}
			var warm, cold, coldFirst map[string]string
			cacheKeys := 0
			var perType [3]int
			pan, msg := vlib.Recover(func() {
				p1, p2 := vs[a].build(s), vs[b].build(s)
				// the typed caches are re-created by ClearAll with the current size: a tiny LRU leaves only
				// SOME of a service's clusters / routes / endpoints cached (partial hits)
				features.XDSCacheMaxSize = capacity
				s.Discovery.Cache.ClearAll()
				coldFirst = generateAll(s, p1) // fills the shared cache with p1's resources
				perType = [3]int{len(s.Discovery.Cache.Keys(model.CDSType)), len(s.Discovery.Cache.Keys(model.EDSType)), len(s.Discovery.Cache.Keys(model.RDSType))}
				cacheKeys = perType[0] + perType[1] + perType[2]
				warm = generateAll(s, p2) // p2 served with whatever the keys let it share
				s.Discovery.Cache.ClearAll()
				cold = generateAll(s, vs[b].build(s)) // p2 alone
			})
			if pan {
				c.Violate(vlib.Violation{ID: *id, Kind: "panic", Detail: msg, Case: []string{a, b}})
				continue
			}
			keys := map[string]bool{}
			for k := range warm {
				keys[k] = true
			}
			for k := range cold {
				keys[k] = true
			}
			ks := make([]string, 0, len(keys))
			for k := range keys {
				ks = append(ks, k)
			}
			sort.Strings(ks)
			var wl, cl []uint64
			var diff []string
			for _, k := range ks {
				wl = append(wl, in(k+"="+warm[k]))
				cl = append(cl, in(k+"="+cold[k]))
				if warm[k] != cold[k] {
					diff = append(diff, k)
				}
			}
			outputsDiffer := 0
			for _, k := range ks {
				if coldFirst[k] != cold[k] {
					outputsDiffer++
				}
			}
			c.Hyp("H_key: warm shared cache == no cache (CDS+EDS+RDS resources)", len(ks))
			term := vlib.App("HKey", vlib.NI(*id), vlib.B(a == b), nlist(wl), nlist(cl))
			tags := []string{"hkey", "hkey:first=" + a, "hkey:second=" + b}
			if capacity < 100 {
				tags = append(tags, "hkey:tiny-lru")
			}
			if outputsDiffer > 0 {
				tags = append(tags, "hkey:proxies-get-different-resources")
			}
			if cacheKeys == 0 {
				tags = append(tags, "hkey:cache-empty-after-first")
			}
			for i, n := range []string{"cds", "eds", "rds"} {
				if perType[i] > 0 {
					tags = append(tags, "hkey:"+n+"-entries-cached-by-first")
				}
			}
			// non-trivial = the two proxies legitimately receive different bytes for some resource
			// name while the first one's resources sit in the shared cache
			c.Add(vlib.Case{ID: *id, Term: term, Tags: tags, Trivial: outputsDiffer == 0 || cacheKeys == 0,
				Sample: map[string]any{"kind": "hkey", "first": a, "second": b, "lru_capacity": capacity, "resources": len(ks), "warm_vs_cold_differing": diff,
					"first_vs_second_differing": outputsDiffer, "cache_keys_after_first": cacheKeys, "cds_eds_rds_keys_after_first": perType}})
		}
	}
}

// ---------------------------------------------------------------- H_dep: declared dependent configs are complete
//
// A config of the world is updated through the real config store; the real DiscoveryServer processes the
// update (debounce -> Push -> initPushContext -> dropCacheForRequest(ConfigsUpdated)).  What the generators
// then serve through the cache that survived the targeted Clear must equal what they produce from an empty cache.

type hdepEdit struct {
	name string
	gvk  config.GroupVersionKind
	obj  string
	ns   string
	edit func(spec any, flip bool)
}

func hdepEdits() []hdepEdit {
	drSubset := func(subset string) func(spec any, flip bool) {
		return func(spec any, flip bool) {
			dr := spec.(*networkingapi.DestinationRule)
			for _, ss := range dr.Subsets {
				if ss.Name == subset {
					if flip {
						ss.Labels = map[string]string{"version": "v1"}
					} else {
						ss.Labels = map[string]string{"version": "v2"}
					}
				}
			}
		}
	}
	return []hdepEdit{
		{"dr-static:subset-v2-labels", gvk.DestinationRule, "dr-static", "ns1", drSubset("v2")},
		{"dr-static-b:subset-v3-labels", gvk.DestinationRule, "dr-static-b", "ns1", drSubset("v3")},
		{"dr-static2:outlier", gvk.DestinationRule, "dr-static2", "ns1", func(spec any, flip bool) {
			dr := spec.(*networkingapi.DestinationRule)
			n := uint32(3)
			if flip {
				n = 7
			}
			dr.TrafficPolicy.OutlierDetection.Consecutive_5XxErrors = wrapperspb.UInt32(n)
		}},
		{"vs-static:prefix", gvk.VirtualService, "vs-static", "ns1", func(spec any, flip bool) {
			v := spec.(*networkingapi.VirtualService)
			p := "/v2"
			if flip {
				p = "/second"
			}
			v.Http[0].Match[0].Uri = &networkingapi.StringMatch{MatchType: &networkingapi.StringMatch_Prefix{Prefix: p}}
		}},
		{"se-static2:endpoint-address", gvk.ServiceEntry, "se-static2", "ns1", func(spec any, flip bool) {
			se := spec.(*networkingapi.ServiceEntry)
			if flip {
				se.Endpoints[0].Address = "10.0.1.99"
			} else {
				se.Endpoints[0].Address = "10.0.1.1"
			}
		}},
	}
}

func genHDep(t *testing.T, c *vlib.Collector, id *int, r *vlib.Rand) {
	edits := hdepEdits()
	rounds := vlib.Scale(2, 6)
	var s *xds.FakeDiscoveryServer
	interned := map[string]uint64{}
	in := func(x string) uint64 {
		if v, ok := interned[x]; ok {
			return v
		}
		interned[x] = uint64(len(interned) + 1)
		return interned[x]
	}
	flip := false
	for round := 0; round < rounds; round++ {
		flip = !flip
		for _, e := range edits {
			*id++
			if !c.Wanted(*id) {
				continue
			}
			if s == nil {
				s = xds.NewFakeDiscoveryServer(t, xds.FakeOptions{ConfigString: hkeyConfig, Gateways: []model.NetworkGateway{
					{Network: "net1", Addr: "1.1.1.1", Port: 15443}, {Network: "net2", Addr: "2.2.2.2", Port: 15443}}})
			}
			var before, warm, cold map[string]string
			refreshed := false
			pan, msg := vlib.Recover(func() {
				features.XDSCacheMaxSize = 60000
				s.Discovery.Cache.ClearAll()
				before = generateAll(s, baseAttrs.build(s)) // cache now holds the resources of the current world
				oldPC := s.PushContext()
				cur := s.Store().Get(e.gvk, e.obj, e.ns)
				if cur == nil {
					panic("harness: config " + e.obj + " not in the store")
				}
				upd := cur.DeepCopy()
				e.edit(upd.Spec, flip)
				if _, err := s.Store().Update(upd); err != nil {
					panic(err)
				}
				// wait until the server committed the update into a new push context
				deadline := time.Now().Add(20 * time.Second)
				for time.Now().Before(deadline) {
					if s.PushContext() != oldPC && s.Discovery.CommittedUpdates.Load() >= s.Discovery.InboundUpdates.Load() {
						refreshed = true
						break
					}
					time.Sleep(2 * time.Millisecond)
				}
				if !refreshed {
					return
				}
				warm = generateAll(s, baseAttrs.build(s)) // served through whatever survived the targeted Clear
				s.Discovery.Cache.ClearAll()
				cold = generateAll(s, baseAttrs.build(s))
			})
			if pan {
				c.Violate(vlib.Violation{ID: *id, Kind: "panic", Detail: msg, Case: e.name})
				continue
			}
			if !refreshed {
				c.Tag("hdep:push-context-not-refreshed-in-time")
				continue
			}
			keys := map[string]bool{}
			for k := range warm {
				keys[k] = true
			}
			for k := range cold {
				keys[k] = true
			}
			ks := make([]string, 0, len(keys))
			for k := range keys {
				ks = append(ks, k)
			}
			sort.Strings(ks)
			var wl, cl []uint64
			var diff []string
			changed := 0
			for _, k := range ks {
				wl = append(wl, in(k+"="+warm[k]))
				cl = append(cl, in(k+"="+cold[k]))
				if warm[k] != cold[k] {
					diff = append(diff, k)
				}
				if before[k] != cold[k] {
					changed++
				}
			}
			c.Hyp("H_dep: after a config update processed by the real server, cache-served == regenerated (CDS+EDS+RDS resources)", len(ks))
			tags := []string{"hdep", "hdep:" + e.name}
			if changed > 0 {
				tags = append(tags, "hdep:update-changed-some-resource")
			}
			c.Add(vlib.Case{ID: *id, Term: vlib.App("HKey", vlib.NI(*id), vlib.B(true), nlist(wl), nlist(cl)), Tags: tags, Trivial: changed == 0,
				Sample: map[string]any{"kind": "hdep", "edit": e.name, "flip": flip, "resources": len(ks), "changed_by_update": changed, "served_stale": diff}})
		}
	}
}

func genExtra(t *testing.T, c *vlib.Collector, id *int, r *vlib.Rand) {
	genXClear(c, id, r)
	genFence(c, id, r)
	genHKey(t, c, id, r)
	genHDep(t, c, id, r)
}
