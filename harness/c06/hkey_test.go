//go:build verif

package c06

import (
	"testing"

	"istio.io/istio/pilot/pkg/xds/endpoints"
	"istio.io/istio/pilot/test/xds"
	"verif/harness/vlib"
)

var _ = endpoints.NewEndpointBuilder
var _ = xds.NewFakeDiscoveryServer

func genExtra(t *testing.T, c *vlib.Collector, id *int, r *vlib.Rand) {
}
