//go:build verif

// C06 correspondence harness: drives the REAL lruCache[uint64] (pilot/pkg/model/typed_xds_cache.go,
// via the verif export shim) with generated op sequences and prints every op with the complete
// observed state as a Gallina term for coq/C06/Run.v.
package c06

import (
	"fmt"
	"sort"
	"strconv"
	"strings"
	"sync"
	"testing"
	"time"

	discovery "github.com/envoyproxy/go-control-plane/envoy/service/discovery/v3"

	"istio.io/istio/pilot/pkg/features"
	"istio.io/istio/pilot/pkg/model"
	"istio.io/istio/pkg/config/schema/kind"
	"istio.io/istio/pkg/util/sets"
	"verif/harness/vlib"
)

// ---------------------------------------------------------------- config universe

var universe = []model.ConfigKey{
	{Kind: kind.ServiceEntry, Name: "a.example.com", Namespace: "ns1"},
	{Kind: kind.ServiceEntry, Name: "b.example.com", Namespace: "ns2"},
	{Kind: kind.DestinationRule, Name: "dr-a", Namespace: "ns1"},
	{Kind: kind.VirtualService, Name: "vs-a", Namespace: "ns1"},
	{Kind: kind.EnvoyFilter, Name: "ef", Namespace: "istio-system"},
	{Kind: kind.PeerAuthentication, Name: "default", Namespace: "ns1"},
}

var hashID = map[model.ConfigHash]uint64{}

func init() {
	for i, k := range universe {
		hashID[k.HashCode()] = uint64(i + 1)
	}
}

func cfgHash(id uint64) model.ConfigHash { return universe[id-1].HashCode() }

func cfgID(h model.ConfigHash) uint64 {
	if v, ok := hashID[h]; ok {
		return v
	}
	return 1000 + uint64(h)%1000 // a hash outside the universe would be a harness bug; keep it visible
}

// ---------------------------------------------------------------- values

type val struct {
	Vid, Gver uint64
}

func mkRes(v *val) *discovery.Resource {
	if v == nil {
		return nil
	}
	return &discovery.Resource{Name: fmt.Sprintf("%d/%d", v.Vid, v.Gver)}
}

func parseRes(r *discovery.Resource) *val {
	if r == nil {
		return nil
	}
	a, b, _ := strings.Cut(r.Name, "/")
	x, _ := strconv.ParseUint(a, 10, 64)
	y, _ := strconv.ParseUint(b, 10, 64)
	return &val{x, y}
}

func valTerm(v *val) string {
	if v == nil {
		return "None"
	}
	return "(Some " + vlib.Rec("vid", vlib.N(v.Vid), "gver", vlib.N(v.Gver)) + ")"
}

func nlist(xs []uint64) string { return vlib.ListOf(xs, vlib.N) }

// ---------------------------------------------------------------- observation printing

type evRec struct {
	Key  uint64
	Deps []uint64
}

type obsState struct {
	Get   *val
	Store []obsEntry // newest first
	Tok   uint64
	Index [][2]any // (cfg id, sorted keys)
	Queue []evRec
}

type obsEntry struct {
	Key  uint64
	Val  *val
	Tok  uint64
	Deps []uint64
}

func ids(hs []model.ConfigHash) []uint64 {
	out := make([]uint64, len(hs))
	for i, h := range hs {
		out[i] = cfgID(h)
	}
	return out
}

// rel maps an absolute CacheToken to the case-relative stamp (0 stays 0: "never invalidated").
func rel(tok uint64, base int64) uint64 {
	if tok == 0 {
		return 0
	}
	return uint64(int64(tok) - base)
}

func observe(st model.VerifC06State, base int64, got *discovery.Resource) obsState {
	o := obsState{Get: parseRes(got), Tok: rel(st.Token, base)}
	for i := len(st.Entries) - 1; i >= 0; i-- {
		e := st.Entries[i]
		o.Store = append(o.Store, obsEntry{Key: e.Key, Val: parseRes(e.Value), Tok: rel(e.Token, base), Deps: ids(e.Deps)})
	}
	var cs []uint64
	byC := map[uint64][]uint64{}
	for h, ks := range st.Index {
		c := cfgID(h)
		cs = append(cs, c)
		ks = append([]uint64{}, ks...)
		sort.Slice(ks, func(i, j int) bool { return ks[i] < ks[j] })
		byC[c] = ks
	}
	sort.Slice(cs, func(i, j int) bool { return cs[i] < cs[j] })
	for _, c := range cs {
		o.Index = append(o.Index, [2]any{c, byC[c]})
	}
	for _, e := range st.EvictQueue {
		o.Queue = append(o.Queue, evRec{e.Key, ids(e.Deps)})
	}
	return o
}

func evTerm(e evRec) string { return vlib.Pair(vlib.N(e.Key), nlist(e.Deps)) }

func entryTerm(e obsEntry) string {
	return vlib.Rec("e_key", vlib.N(e.Key), "e_val", valTerm(e.Val), "e_tok", vlib.N(e.Tok), "e_deps", nlist(e.Deps))
}

func obsTerm(o obsState) string {
	return vlib.Rec("o_get", valTerm(o.Get),
		"o_store", vlib.ListOf(o.Store, entryTerm),
		"o_tok", vlib.N(o.Tok),
		"o_idx", vlib.ListOf(o.Index, func(p [2]any) string { return vlib.Pair(vlib.N(p[0].(uint64)), nlist(p[1].([]uint64))) }),
		"o_queue", vlib.ListOf(o.Queue, evTerm))
}

// ---------------------------------------------------------------- ops

type opRec struct {
	Kind  string   `json:"op"` // add get clear clearall flush
	Key   uint64   `json:"key,omitempty"`
	Deps  []uint64 `json:"deps,omitempty"`
	Start *uint64  `json:"start,omitempty"` // nil = nil request / zero Start
	Val   *val     `json:"val,omitempty"`
	Cfgs  []uint64 `json:"cfgs,omitempty"`
	Now   uint64   `json:"now,omitempty"`
	Ord   []evRec  `json:"-"`
	Note  string   `json:"note,omitempty"`
	Got   *val     `json:"got,omitempty"`
}

func opTerm(o opRec) string {
	switch o.Kind {
	case "add":
		st := "None"
		if o.Start != nil {
			st = "(Some " + vlib.N(*o.Start) + ")"
		}
		return vlib.App("OAdd", vlib.N(o.Key), nlist(o.Deps), st, valTerm(o.Val))
	case "get":
		return vlib.App("OGet", vlib.N(o.Key))
	case "clear":
		return vlib.App("OClear", nlist(o.Cfgs), vlib.N(o.Now), vlib.ListOf(o.Ord, evTerm))
	case "clearall":
		return vlib.App("OClearAll", vlib.N(o.Now))
	}
	return "OFlush"
}

// driver of one real cache with the ghost bookkeeping the generator needs
type driver struct {
	c      *model.VerifC06Cache
	base   int64
	prevQ  int
	obs    []obsState
	ops    []opRec
	tags   map[string]bool
	clears []clearRec
}

type clearRec struct {
	Stamp, Ver uint64
}

func newDriver(capacity int) *driver {
	features.XDSCacheMaxSize = capacity
	features.EnableUnsafeAssertions = false
	return &driver{c: model.VerifC06NewCache(), base: time.Now().UnixNano() - int64(2000*time.Second), tags: map[string]bool{}}
}

func (d *driver) abs(relStamp uint64) time.Time { return time.Unix(0, d.base+int64(relStamp)) }
func (d *driver) nowRel() uint64                { return uint64(time.Now().UnixNano() - d.base) }
func (d *driver) wv() uint64                    { return uint64(len(d.clears)) }

func (d *driver) record(o opRec, got *discovery.Resource) obsState {
	st := d.c.State()
	ob := observe(st, d.base, got)
	if o.Kind == "clear" {
		o.Now = ob.Tok
		if d.prevQ <= len(ob.Queue) {
			o.Ord = ob.Queue[d.prevQ:]
		}
	}
	if o.Kind == "clearall" {
		o.Now = ob.Tok
	}
	if o.Kind == "clear" || o.Kind == "clearall" {
		d.clears = append(d.clears, clearRec{ob.Tok, uint64(len(d.clears) + 1)})
	}
	o.Got = ob.Get
	d.prevQ = len(ob.Queue)
	d.ops = append(d.ops, o)
	d.obs = append(d.obs, ob)
	return ob
}

func (d *driver) add(k uint64, deps []uint64, start *uint64, v *val, note string) obsState {
	hs := make([]model.ConfigHash, len(deps))
	for i, x := range deps {
		hs[i] = cfgHash(x)
	}
	var req *model.PushRequest
	if start != nil {
		req = &model.PushRequest{Start: d.abs(*start)}
	} else if note == "zero-start" {
		req = &model.PushRequest{}
	}
	before := d.c.State()
	d.c.Add(k, hs, req, mkRes(v))
	ob := d.record(opRec{Kind: "add", Key: k, Deps: deps, Start: start, Val: v, Note: note}, nil)
	// branch tags from the observable effect
	switch {
	case start == nil:
		d.tags["add:no-request"] = true
	case before.Token != 0 && *start < rel(before.Token, d.base):
		d.tags["add:stale-token-dropped"] = true
	case *start == rel(before.Token, d.base) && before.Token != 0:
		d.tags["add:start-equals-cache-token"] = true
	}
	if len(ob.Queue) > len(before.EvictQueue) {
		had := false
		for _, e := range before.Entries {
			if e.Key == k {
				had = true
			}
		}
		if had {
			d.tags["add:overwrite"] = true
		} else {
			d.tags["add:capacity-eviction"] = true
		}
	}
	return ob
}

func (d *driver) get(k uint64) obsState {
	r := d.c.Get(k)
	if r != nil {
		d.tags["get:hit"] = true
	} else {
		d.tags["get:miss"] = true
	}
	return d.record(opRec{Kind: "get", Key: k}, r)
}

func (d *driver) clear(cfgs []uint64) obsState {
	s := sets.New[model.ConfigKey]()
	for _, c := range cfgs {
		s.Insert(universe[c-1])
	}
	before := d.c.State()
	d.c.Clear(s)
	ob := d.record(opRec{Kind: "clear", Cfgs: cfgs}, nil)
	if len(ob.Store) < len(before.Entries) {
		d.tags["clear:removed-entries"] = true
	} else {
		d.tags["clear:nothing-to-remove"] = true
	}
	return ob
}

func (d *driver) clearAll() obsState {
	d.c.ClearAll()
	d.tags["clearall"] = true
	return d.record(opRec{Kind: "clearall"}, nil)
}

func (d *driver) flush() obsState {
	before := d.c.State()
	d.c.Flush()
	ob := d.record(opRec{Kind: "flush"}, nil)
	if len(before.EvictQueue) > 0 {
		d.tags["flush:nonempty-queue"] = true
		if len(ob.Index) < len(before.Index) {
			d.tags["flush:index-shrunk"] = true
		}
	}
	return ob
}

func (d *driver) emit(c *vlib.Collector, id int, capacity int, extraTags ...string) {
	tags := []string{"trace"}
	for t := range d.tags {
		tags = append(tags, t)
	}
	tags = append(tags, extraTags...)
	sort.Strings(tags)
	term := vlib.App("Trace", vlib.NI(id), vlib.Nat(capacity), vlib.List(d.compactSteps()))
	nontrivial := d.tags["add:capacity-eviction"] || d.tags["add:overwrite"] || d.tags["clear:removed-entries"] || d.tags["add:stale-token-dropped"]
	c.Add(vlib.Case{ID: id, Term: term, Tags: tags, Trivial: !nontrivial,
		Sample: map[string]any{"kind": "trace", "cap": capacity, "ops": d.ops}})
}

// ---------------------------------------------------------------- compact printing

// compactSteps prints the trace for Run.v's compact format: stamps are replaced by their rank
// among all stamps of the case (the code and the model only compare stamps), components of the
// observation that did not change since the previous op are elided, numerals rely on N_scope.
func (d *driver) compactSteps() []string {
	seen := map[uint64]bool{}
	note := func(x uint64) {
		if x != 0 {
			seen[x] = true
		}
	}
	for i, o := range d.ops {
		if o.Start != nil {
			note(*o.Start)
		}
		note(o.Now)
		ob := d.obs[i]
		note(ob.Tok)
		for _, e := range ob.Store {
			note(e.Tok)
		}
	}
	var all []uint64
	for x := range seen {
		all = append(all, x)
	}
	sort.Slice(all, func(i, j int) bool { return all[i] < all[j] })
	rank := map[uint64]uint64{0: 0}
	for i, x := range all {
		rank[x] = uint64(i + 1)
	}
	u := func(x uint64) string { return strconv.FormatUint(x, 10) }
	ul := func(xs []uint64) string { return vlib.ListOf(xs, u) }
	vt := func(v *val) string {
		if v == nil {
			return "U"
		}
		return "(V " + u(v.Vid) + " " + u(v.Gver) + ")"
	}
	ev := func(e evRec) string { return "(" + u(e.Key) + "," + ul(e.Deps) + ")" }
	storeT := func(st []obsEntry) string {
		return vlib.ListOf(st, func(e obsEntry) string {
			return "E " + u(e.Key) + " " + vt(e.Val) + " " + u(rank[e.Tok]) + " " + ul(e.Deps)
		})
	}
	idxT := func(ix [][2]any) string {
		return vlib.ListOf(ix, func(p [2]any) string { return "(" + u(p[0].(uint64)) + "," + ul(p[1].([]uint64)) + ")" })
	}
	qT := func(q []evRec) string { return vlib.ListOf(q, ev) }
	opT := func(o opRec) string {
		switch o.Kind {
		case "add":
			st := "U"
			if o.Start != nil {
				st = "(J " + u(rank[*o.Start]) + ")"
			}
			return "OAdd " + u(o.Key) + " " + ul(o.Deps) + " " + st + " " + vt(o.Val)
		case "get":
			return "OGet " + u(o.Key)
		case "clear":
			return "OClear " + ul(o.Cfgs) + " " + u(rank[o.Now]) + " " + qT(o.Ord)
		case "clearall":
			return "OClearAll " + u(rank[o.Now])
		}
		return "OFlush"
	}
	out := make([]string, len(d.ops))
	prevS, prevI, prevQ := "[]", "[]", "[]"
	for i, o := range d.ops {
		ob := d.obs[i]
		s, ix, q := storeT(ob.Store), idxT(ob.Index), qT(ob.Queue)
		el := func(cur, prev string) string {
			if cur == prev {
				return "U"
			}
			return "(J " + cur + ")"
		}
		out[i] = "(" + opT(o) + ", D " + vt(ob.Get) + " " + el(s, prevS) + " " + u(rank[ob.Tok]) + " " + el(ix, prevI) + " " + el(q, prevQ) + ")"
		prevS, prevI, prevQ = s, ix, q
	}
	return out
}

// ---------------------------------------------------------------- generators

type push struct {
	Start uint64 // relative stamp of PushRequest.Start
	Gver  uint64 // world version (number of accepted invalidations) the push context reflects
}

func subset(r *vlib.Rand, n int) []uint64 {
	var out []uint64
	for len(out) < n {
		x := uint64(1 + r.Intn(len(universe)))
		dup := false
		for _, y := range out {
			dup = dup || x == y
		}
		if !dup {
			out = append(out, x)
		}
	}
	return out
}

// randomTrace issues nops random operations. malformed=true additionally produces writers that
// break the caller discipline (future-dated start with old data, duplicate deps, nil values).
func randomTrace(r *vlib.Rand, capacity, nkeys, nops int, malformed bool) (*driver, bool) {
	d := newDriver(capacity)
	pushes := []push{{Start: d.nowRel(), Gver: 0}}
	depsOf := map[uint64][]uint64{}
	for k := uint64(1); k <= uint64(nkeys); k++ {
		depsOf[k] = subset(r, r.Intn(4))
	}
	vid := uint64(0)
	undisciplined := false
	for i := 0; i < nops; i++ {
		x := r.Intn(100)
		switch {
		case x < 45:
			k := uint64(1 + r.Intn(nkeys))
			deps := depsOf[k]
			if r.Chance(25) {
				deps = subset(r, r.Intn(4))
				if r.Chance(30) {
					depsOf[k] = deps // the key's dependencies changed for good (e.g. a DestinationRule appeared)
				}
			}
			vid++
			y := r.Intn(100)
			var p push
			note := ""
			switch {
			case y < 55:
				p = pushes[len(pushes)-1]
			case y < 72:
				p = vlib.Pick(r, pushes)
				note = "older-push"
			case y < 84:
				p = push{Start: d.nowRel(), Gver: d.wv()}
				pushes = append(pushes, p)
				note = "new-push"
			case y < 90:
				// benign tie: a current writer whose start equals the cache token exactly
				if t := d.c.Token(); t != 0 {
					p = push{Start: rel(t, d.base), Gver: d.wv()}
					note = "tie-current"
				} else {
					p = pushes[len(pushes)-1]
				}
			case y < 95:
				d.add(k, deps, nil, &val{vid, d.wv()}, vlib.Pick(r, []string{"nil-request", "zero-start"}))
				continue
			default:
				if malformed {
					// discipline violation: old data stamped with a later start
					p = push{Start: d.nowRel() + uint64(r.Intn(3))*1e9, Gver: uint64(r.Intn(int(d.wv()) + 1))}
					if p.Gver < d.wv() {
						undisciplined = true
						note = "undisciplined"
					}
				} else {
					p = pushes[len(pushes)-1]
				}
			}
			v := &val{vid, p.Gver}
			if malformed && r.Chance(6) {
				v = nil
			}
			if malformed && r.Chance(8) && len(deps) > 0 {
				deps = append(append([]uint64{}, deps...), deps[0])
			}
			st := p.Start
			d.add(k, deps, &st, v, note)
		case x < 70:
			d.get(uint64(1 + r.Intn(nkeys)))
		case x < 83:
			d.clear(subset(r, 1+r.Intn(2)))
		case x < 86:
			d.clearAll()
		case x < 96:
			d.flush()
		default:
			pushes = append(pushes, push{Start: d.nowRel(), Gver: d.wv()})
		}
	}
	// end with a read of every key so that whatever is cached is served at least once
	for k := uint64(1); k <= uint64(nkeys); k++ {
		d.get(k)
	}
	return d, undisciplined
}

// tieWitness is the _refuted witness of Props.v run against the real code: a writer whose data
// predates an invalidation but whose Start equals that invalidation's timestamp is accepted.
func tieWitness() *driver {
	d := newDriver(2)
	s0 := d.nowRel()
	d.add(7, []uint64{1}, &s0, &val{1, 0}, "")
	d.clear([]uint64{1})
	tok := rel(d.c.Token(), d.base)
	d.add(7, []uint64{1}, &tok, &val{2, 0}, "tie-stale") // generated from version 0, stamped == clear time
	d.get(7)
	return d
}

// directed sequences for the paths random generation reaches rarely
func directed() []*driver {
	var out []*driver
	{ // eviction, re-add with other deps, deferred flush keeps the live index entries
		d := newDriver(1)
		s := d.nowRel()
		d.add(1, []uint64{1, 2}, &s, &val{1, 0}, "")
		d.add(2, []uint64{2}, &s, &val{2, 0}, "") // evicts 1
		d.add(1, []uint64{2, 3}, &s, &val{3, 0}, "")
		d.flush()
		d.clear([]uint64{3})
		d.get(1)
		d.get(2)
		out = append(out, d)
	}
	{ // overwrite by a newer push, then flush must drop only old\new
		d := newDriver(3)
		s := d.nowRel()
		d.add(1, []uint64{1, 2}, &s, &val{1, 0}, "")
		s2 := d.nowRel()
		d.add(1, []uint64{2, 3}, &s2, &val{2, 0}, "")
		d.add(1, []uint64{2, 3}, &s, &val{3, 0}, "older-push") // token <= cur.token
		d.flush()
		d.clear([]uint64{1})
		d.get(1)
		d.clear([]uint64{2})
		d.get(1)
		out = append(out, d)
	}
	{ // stale writer after Clear and after ClearAll
		d := newDriver(2)
		s := d.nowRel()
		d.add(1, []uint64{1}, &s, &val{1, 0}, "")
		d.clear([]uint64{1})
		d.add(1, []uint64{1}, &s, &val{2, 0}, "older-push")
		d.get(1)
		d.clearAll()
		d.add(1, []uint64{1}, &s, &val{3, 0}, "older-push")
		d.get(1)
		s3 := d.nowRel()
		d.add(1, []uint64{1}, &s3, &val{4, 2}, "new-push")
		d.get(1)
		out = append(out, d)
	}
	{ // Flush refreshes recency of re-added keys: the next eviction victim changes
		d := newDriver(2)
		s := d.nowRel()
		d.add(1, []uint64{1}, &s, &val{1, 0}, "")
		d.add(2, []uint64{2}, &s, &val{2, 0}, "")
		s2 := d.nowRel()
		d.add(1, []uint64{3}, &s2, &val{3, 0}, "") // overwrite: queue (1,[1])
		d.add(2, []uint64{2}, &s2, &val{4, 0}, "") // overwrite: queue (2,[2]); order 2,1
		d.get(1)                                   // order 1,2
		d.flush()                                  // Get(1) then Get(2): order 2,1
		d.add(3, nil, &s2, &val{5, 0}, "")         // evicts 1
		d.get(1)
		d.get(2)
		out = append(out, d)
	}
	return out
}

// concurrent ops on one cache; only the final state is observed (invariants)
func concurrentFinal(seed uint64, capacity int) obsState {
	d := newDriver(capacity)
	var wg sync.WaitGroup
	for g := 0; g < 4; g++ {
		wg.Add(1)
		go func(g int) {
			defer wg.Done()
			r := vlib.NewRand(seed + uint64(g)*7919)
			for i := 0; i < 300; i++ {
				k := uint64(1 + r.Intn(6))
				switch x := r.Intn(100); {
				case x < 45:
					deps := subset(r, r.Intn(3))
					hs := make([]model.ConfigHash, len(deps))
					for i, y := range deps {
						hs[i] = cfgHash(y)
					}
					d.c.Add(k, hs, &model.PushRequest{Start: time.Now()}, mkRes(&val{uint64(g*1000 + i), 0}))
				case x < 75:
					d.c.Get(k)
				case x < 88:
					s := sets.New[model.ConfigKey]()
					for _, c := range subset(r, 1) {
						s.Insert(universe[c-1])
					}
					d.c.Clear(s)
				case x < 90:
					d.c.ClearAll()
				default:
					d.c.Flush()
				}
			}
		}(g)
	}
	wg.Wait()
	return observe(d.c.State(), d.base, nil)
}

func TestGen(t *testing.T) {
	c := vlib.NewCollector("C06", "V.C06.Run")
	c.Rule = "trace: random op sequences (Add with push-start stamps from current/older/new pushes, exact ties with the cache token, nil/zero requests; " +
		"Get; Clear of 1-2 configs; ClearAll; Flush) on the real lruCache[uint64] with capacity 1-4 over 2-6 keys and 6 configs, full state observed after every op; " +
		"non-trivial = the trace had a capacity eviction, an overwrite, a Clear that removed entries or a token-dropped Add. " +
		"malformed stream: undisciplined writers, nil values, duplicate deps. final: 4 goroutines x 300 ops, invariants on the final state. " +
		"xclear: XdsCacheImpl.Clear over the four typed caches. hkey: real generators, warm shared cache vs no cache."
	seed := vlib.Seed()
	id := 0

	// 1: the refuted-theorem witness against the real code (known finding)
	id++
	if c.Wanted(id) {
		d := tieWitness()
		c.FindingOf[id] = "tie-start-equals-clear-stamp"
		d.emit(c, id, 2, "witness:tie-stale")
	}
	// directed
	for i, d := range directed() {
		id++
		d.emit(c, id, []int{1, 3, 2, 2}[i], "directed")
	}
	// random, disciplined
	r := vlib.NewRand(seed ^ 0xc06)
	n := vlib.Scale(900, 12000)
	for i := 0; i < n; i++ {
		id++
		capacity := 1 + r.Intn(4)
		nkeys := 2 + r.Intn(5)
		nops := 6 + r.Intn(22)
		sub := r.Sub()
		if !c.Wanted(id) {
			continue
		}
		var d *driver
		if pan, msg := vlib.Recover(func() { d, _ = randomTrace(sub, capacity, nkeys, nops, false) }); pan {
			c.Violate(vlib.Violation{ID: id, Kind: "panic", Detail: msg})
			continue
		}
		d.emit(c, id, capacity)
	}
	// malformed stream
	n = vlib.Scale(250, 3000)
	for i := 0; i < n; i++ {
		id++
		capacity := 1 + r.Intn(3)
		nkeys := 2 + r.Intn(3)
		nops := 6 + r.Intn(18)
		sub := r.Sub()
		if !c.Wanted(id) {
			continue
		}
		var d *driver
		var und bool
		if pan, msg := vlib.Recover(func() { d, und = randomTrace(sub, capacity, nkeys, nops, true) }); pan {
			c.Violate(vlib.Violation{ID: id, Kind: "panic", Detail: msg})
			continue
		}
		if und {
			d.emit(c, id, capacity, "malformed", "malformed:undisciplined-writer")
		} else {
			d.emit(c, id, capacity, "malformed")
		}
	}
	// concurrent runs
	n = vlib.Scale(6, 60)
	for i := 0; i < n; i++ {
		id++
		capacity := 1 + r.Intn(4)
		s := r.SubSeed()
		if !c.Wanted(id) {
			continue
		}
		var ob obsState
		if pan, msg := vlib.Recover(func() { ob = concurrentFinal(s, capacity) }); pan {
			c.Violate(vlib.Violation{ID: id, Kind: "panic", Detail: msg})
			continue
		}
		c.Add(vlib.Case{ID: id, Term: vlib.App("Final", vlib.NI(id), vlib.Nat(capacity), obsTerm(ob)), Tags: []string{"final:concurrent"},
			Sample: map[string]any{"kind": "final", "cap": capacity, "seed": s, "stored": len(ob.Store)}})
	}
	genExtra(t, c, &id, r)
	if err := c.Flush(); err != nil {
		t.Fatal(err)
	}
}
