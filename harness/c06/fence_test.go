//go:build verif

package c06

import (
	"sort"
	"strings"
	"testing"
	"time"

	discovery "github.com/envoyproxy/go-control-plane/envoy/service/discovery/v3"

	"istio.io/istio/pilot/pkg/features"
	"istio.io/istio/pilot/pkg/model"
	"istio.io/istio/pkg/cluster"
	"istio.io/istio/pkg/config/schema/kind"
	"istio.io/istio/pkg/util/sets"
	"verif/harness/vlib"
)

// Caller discipline of the EndpointIndex path (pilot/pkg/model/endpointshards.go): the theorems assume
// that an invalidation is stamped at or after the data change it announces.  The real EndpointIndex is
// driven with a cache wrapper that (c) looks at the index at the moment of every Clear/ClearAll and
// (b) starts a generation (snapshot of the shards + cache Add with Start = now) right there if the
// shard lock can be taken, else as soon as the call returned.  Everything runs on one goroutine: no timing.

type fenceCache struct {
	model.XdsCache
	hook func()
}

func (f *fenceCache) Clear(s sets.Set[model.ConfigKey]) {
	f.XdsCache.Clear(s)
	if f.hook != nil {
		f.hook()
	}
}

func (f *fenceCache) ClearAll() {
	f.XdsCache.ClearAll()
	if f.hook != nil {
		f.hook()
	}
}

const fenceNS = "ns"

var fencePorts = map[string]int{"http": 80}

// render is "the generator": the sorted addresses of all shards of the service.
func render(es *model.EndpointShards, locked bool) string {
	if es == nil {
		return ""
	}
	var ips []string
	if locked {
		for _, eps := range es.CopyEndpoints(fencePorts, sets.New(80)) {
			for _, ep := range eps {
				ips = append(ips, ep.Addresses...)
			}
		}
	} else {
		// caller is the goroutine that holds (or does not need) the shard lock
		for _, eps := range es.Shards {
			for _, ep := range eps {
				ips = append(ips, ep.Addresses...)
			}
		}
	}
	sort.Strings(ips)
	return strings.Join(ips, ",")
}

type fenceOp struct {
	Kind     string     `json:"op"` // update delete-service-shard delete-shard
	Host     string     `json:"host,omitempty"`
	Shard    string     `json:"shard"`
	IPs      []string   `json:"ips,omitempty"`
	Preserve bool       `json:"preserve_keys,omitempty"`
	Obs      []fenceObs `json:"observed"`
}

type fenceObs struct {
	Host           string `json:"host"`
	Before         string `json:"before"`
	AtClear        string `json:"index_at_clear"`
	Cleared        bool   `json:"cleared"`
	After          string `json:"after"`
	Cached         string `json:"cached"`
	CachedPresent  bool   `json:"cached_present"`
	Fresh          string `json:"fresh"`
	GeneratedInWin bool   `json:"generation_ran_inside_the_call"`
}

func genFence(c *vlib.Collector, id *int, r *vlib.Rand) {
	n := vlib.Scale(60, 600)
	hosts := []string{"a.example.com", "b.example.com"}
	shardNames := []string{"c1", "c2"}
	interned := map[string]uint64{}
	in := func(x string) uint64 {
		if v, ok := interned[x]; ok {
			return v
		}
		interned[x] = uint64(len(interned) + 1)
		return interned[x]
	}
	for i := 0; i < n; i++ {
		*id++
		sub := r.Sub()
		if !c.Wanted(*id) {
			continue
		}
		features.XDSCacheMaxSize = 100
		fc := &fenceCache{XdsCache: model.NewXdsCache()}
		idx := model.NewEndpointIndex(fc)
		entry := func(h string) xEntry {
			k := uint64(1)
			if h == hosts[1] {
				k = 2
			}
			return xEntry{typ: model.EDSType, key: k, cacheable: true,
				deps: []model.ConfigHash{model.ConfigKey{Kind: kind.ServiceEntry, Name: h, Namespace: fenceNS}.HashCode()}}
		}
		generate := func(h string) string {
			es, ok := idx.ShardsForService(h, fenceNS)
			if !ok {
				return ""
			}
			return render(es, true)
		}
		add := func(h string, start time.Time, res string) {
			fc.Add(entry(h), &model.PushRequest{Start: start}, &discovery.Resource{Name: "eds:" + res})
		}
		var ops []fenceOp
		var steps []string
		tags := map[string]bool{"fence": true}
		nops := 3 + sub.Intn(6)
		for j := 0; j < nops; j++ {
			op := fenceOp{Shard: vlib.Pick(sub, shardNames)}
			switch x := sub.Intn(100); {
			case x < 65 || j == 0:
				op.Kind = "update"
				op.Host = vlib.Pick(sub, hosts)
				nip := sub.Intn(4)
				for k := 0; k < nip; k++ {
					op.IPs = append(op.IPs, "10."+op.Shard[1:]+".0."+string(rune('1'+sub.Intn(6))))
				}
			case x < 85:
				op.Kind = "delete-service-shard"
				op.Host = vlib.Pick(sub, hosts)
				op.Preserve = sub.Bool()
			default:
				op.Kind = "delete-shard"
			}
			tags["fence:"+op.Kind] = true
			// state before; warm the cache with what is current now
			ptr := map[string]*model.EndpointShards{}
			obs := map[string]*fenceObs{}
			for _, h := range hosts {
				// make sure the shard set exists and remember it: the hook must never take the index lock
				// (GetOrCreateEndpointShard and the delete paths clear the cache while holding it)
				es, _ := idx.GetOrCreateEndpointShard(h, fenceNS)
				ptr[h] = es
				o := &fenceObs{Host: h, Before: generate(h)}
				obs[h] = o
				add(h, time.Now(), o.Before)
			}
			type pend struct {
				h     string
				start time.Time
			}
			var pending []pend
			fc.hook = func() {
				for _, h := range hosts {
					es := ptr[h]
					o := obs[h]
					// the LAST invalidation of the call is the one that has to come after the data change
					// (DeleteShard clears once per service and once more at the end)
					o.Cleared = true
					o.AtClear = render(es, false)
					// a push that starts right after this invalidation and generates EDS for the service
					start := time.Now()
					if es == nil {
						continue
					}
					if es.TryRLock() {
						es.RUnlock()
						o.GeneratedInWin = true
						add(h, start, render(es, true))
					} else {
						pending = append(pending, pend{h, start}) // blocked on the shard lock until the call returns
					}
				}
			}
			sk := model.ShardKey{Cluster: cluster.ID(op.Shard), Provider: "Kubernetes"}
			switch op.Kind {
			case "update":
				var eps []*model.IstioEndpoint
				for _, ip := range op.IPs {
					eps = append(eps, &model.IstioEndpoint{Addresses: []string{ip}, ServicePortName: "http", EndpointPort: 8080,
						Namespace: fenceNS, HealthStatus: model.Healthy})
				}
				idx.UpdateServiceEndpoints(sk, op.Host, fenceNS, eps, false)
			case "delete-service-shard":
				idx.DeleteServiceShard(sk, op.Host, fenceNS, op.Preserve)
			default:
				idx.DeleteShard(sk)
			}
			fc.hook = nil
			for _, p := range pending {
				add(p.h, p.start, generate(p.h))
			}
			for _, h := range hosts {
				o := obs[h]
				o.After = generate(h)
				o.Fresh = o.After
				if got := fc.Get(entry(h)); got != nil {
					o.CachedPresent = true
					o.Cached = strings.TrimPrefix(got.Name, "eds:")
				}
				// the data of this service changed => the cache must have been cleared, and not before the change
				orderOK := o.Before == o.After || (o.Cleared && o.AtClear == o.After)
				if o.Before != o.After {
					tags["fence:data-changed"] = true
				}
				if o.GeneratedInWin {
					tags["fence:generation-inside-call"] = true
				}
				cached := "None"
				if o.CachedPresent {
					cached = "(Some " + vlib.N(in(o.Cached)) + ")"
				}
				steps = append(steps, "("+vlib.B(orderOK)+", "+cached+", "+vlib.N(in(o.Fresh))+")")
				op.Obs = append(op.Obs, *o)
			}
			ops = append(ops, op)
		}
		var tl []string
		for t := range tags {
			tl = append(tl, t)
		}
		sort.Strings(tl)
		c.Hyp("wf_trace caller discipline on the EndpointIndex path: data change happens-before Clear (per op x service)", len(steps))
		c.Add(vlib.Case{ID: *id, Term: vlib.App("Fence", vlib.NI(*id), vlib.List(steps)), Tags: tl, Trivial: !tags["fence:data-changed"],
			Sample: map[string]any{"kind": "fence", "ops": ops}})
	}
}

var _ = testing.Short
