//go:build verif

package c03

import (
	"fmt"
	"sort"
	"testing"
	"time"

	cluster "github.com/envoyproxy/go-control-plane/envoy/config/cluster/v3"
	discovery "github.com/envoyproxy/go-control-plane/envoy/service/discovery/v3"
	"google.golang.org/protobuf/proto"
	"google.golang.org/protobuf/types/known/anypb"

	pxds "istio.io/istio/pilot/pkg/xds"
	v3 "istio.io/istio/pilot/pkg/xds/v3"
	xdsfake "istio.io/istio/pilot/test/xds"
	"istio.io/istio/pkg/config/host"
	"verif/harness/vlib"
)

func (in *interner) cluster(t *testing.T, a *anypb.Any) rsrc {
	c := &cluster.Cluster{}
	if err := a.UnmarshalTo(c); err != nil {
		t.Fatal(err)
	}
	b, err := proto.MarshalOptions{Deterministic: true}.Marshal(c)
	if err != nil {
		t.Fatal(err)
	}
	return rsrc{in.name(c.Name), in.ver(b)}
}

func mlist(m map[int]int) []rsrc {
	out := []rsrc{}
	for k, v := range m {
		out = append(out, rsrc{k, v})
	}
	sort.Slice(out, func(i, j int) bool { return out[i].N < out[j].N })
	return out
}

const proxyID = "sidecar~127.0.0.1~test.default~default.svc.cluster.local"

// one history on one fake discovery server: a delta and a SotW ADS client of the same node, both watching
// CDS; services come and go; after every step both clients have applied one response
func pairHistory(t *testing.T, c *vlib.Collector, r *vlib.Rand, id *int, steps int) {
	s := xdsfake.NewFakeDiscoveryServer(t, xdsfake.FakeOptions{})
	in := &interner{names: map[string]int{}, vers: map[string]int{}}
	present := map[int]bool{}
	for i := 1; i <= 5; i++ {
		if r.Chance(50) {
			s.MemRegistry.AddHTTPService(fmt.Sprintf("svc%d.example.com", i), fmt.Sprintf("10.7.0.%d", i), 8000+i)
			present[i] = true
		}
	}
	s.EnsureSynced(t)
	dmap, smap := map[int]int{}, map[int]int{}
	applyDelta := func(resp *discovery.DeltaDiscoveryResponse) {
		for _, n := range resp.RemovedResources {
			delete(dmap, in.name(n))
		}
		for _, x := range resp.Resources {
			rs := in.cluster(t, x.Resource)
			dmap[rs.N] = rs.V
		}
	}
	applySotw := func(resp *discovery.DiscoveryResponse) {
		smap = map[int]int{}
		for _, x := range resp.Resources {
			rs := in.cluster(t, x)
			smap[rs.N] = rs.V
		}
	}
	var dads *pxds.DeltaAdsTest
	connectDelta := func() {
		dads = s.ConnectDeltaADS().WithID(proxyID).WithType(v3.ClusterType).WithTimeout(30 * time.Second)
		req := &discovery.DeltaDiscoveryRequest{}
		if len(dmap) > 0 {
			req.InitialResourceVersions = map[string]string{}
			rev := map[int]string{}
			for n, i := range in.names {
				rev[i] = n
			}
			for n := range dmap {
				req.InitialResourceVersions[rev[n]] = "x"
			}
		}
		applyDelta(dads.RequestResponseAck(req))
	}
	connectDelta()
	sads := s.ConnectADS().WithID(proxyID).WithType(v3.ClusterType).WithTimeout(30 * time.Second)
	applySotw(sads.RequestResponseAck(t, nil))
	emit := func(tag string) {
		*id++
		term := vlib.App("Pair", vlib.NI(*id), "CDS", rlist(mlist(dmap)), rlist(mlist(smap)))
		c.Add(vlib.Case{ID: *id, Term: term, Tags: []string{"pair", "pair-" + tag}, Trivial: tag == "connect",
			Sample: map[string]any{"step": tag, "services": fmt.Sprint(present), "delta": fmt.Sprint(mlist(dmap)), "sotw": fmt.Sprint(mlist(smap))}})
	}
	emit("connect")
	for k := 0; k < steps; k++ {
		i := 1 + r.Intn(5)
		name := host.Name(fmt.Sprintf("svc%d.example.com", i))
		tag := "add"
		switch {
		case r.Chance(15):
			// the delta client reconnects, reporting what it holds
			dads.Cleanup()
			connectDelta()
			emit("reconnect")
			continue
		case present[i]:
			s.MemRegistry.RemoveService(name)
			delete(present, i)
			tag = "remove"
		default:
			s.MemRegistry.AddHTTPService(string(name), fmt.Sprintf("10.7.0.%d", i), 8000+i)
			present[i] = true
		}
		dresp := dads.ExpectResponse()
		applyDelta(dresp)
		dads.Request(&discovery.DeltaDiscoveryRequest{ResponseNonce: dresp.Nonce})
		sresp := sads.ExpectResponse(t)
		applySotw(sresp)
		sads.Request(t, &discovery.DiscoveryRequest{ResponseNonce: sresp.Nonce, VersionInfo: sresp.VersionInfo})
		emit(tag)
	}
}

// genPair: end to end on the fake discovery server
func genPair(t *testing.T, c *vlib.Collector, r *vlib.Rand, id int) int {
	n := vlib.Scale(2, 16)
	for h := 0; h < n; h++ {
		hr := r.Sub()
		base := id
		id += 100
		if !c.Wanted(base+1) && c.Len() >= 0 && vlib.ReplayIDs() != nil {
			wanted := false
			for k := base + 1; k <= base+100; k++ {
				if c.Wanted(k) {
					wanted = true
				}
			}
			if !wanted {
				continue
			}
		}
		cur := base
		pairHistory(t, c, hr, &cur, 6)
		cur = base + 50
		pairEdsHistory(t, c, hr, &cur, 6)
	}
	return id
}
