//go:build verif

// Package c03: correspondence harness for property C03 (delta xDS leaves a client in the same state
// as state-of-the-world xDS).  Drives the real processDeltaRequest / pushDeltaXds / the push loop of
// pushConnectionDelta (through /repo/pilot/pkg/xds/verif_export_c03.go) on a bare connection whose
// generators are recording wrappers around (a) stub generators returning harness-chosen output and
// (b) the real WorkloadGenerator / WorkloadRBACGenerator over a fake ambient index, and prints what it
// observed as Gallina terms for coq/C03/Run.v.
package c03

import (
	"errors"
	"fmt"
	"net/netip"
	"sort"
	"strconv"
	"strings"
	"time"

	discovery "github.com/envoyproxy/go-control-plane/envoy/service/discovery/v3"
	"google.golang.org/grpc"
	"google.golang.org/protobuf/types/known/wrapperspb"

	"istio.io/istio/pilot/pkg/model"
	"istio.io/istio/pilot/pkg/util/protoconv"
	pxds "istio.io/istio/pilot/pkg/xds"
	v3 "istio.io/istio/pilot/pkg/xds/v3"
	"istio.io/istio/pkg/config/schema/kind"
	"istio.io/istio/pkg/util/sets"
	"istio.io/istio/pkg/workloadapi"
	"istio.io/istio/pkg/workloadapi/security"
	"verif/harness/vlib"
)

// ---------------------------------------------------------------- universe

type xtype struct {
	URL  string
	Term string
	Tag  string
}

var types = []xtype{
	{v3.ClusterType, "CDS", "CDS"},
	{v3.EndpointType, "EDS", "EDS"},
	{v3.ListenerType, "LDS", "LDS"},
	{v3.RouteType, "RDS", "RDS"},
	{v3.ExtensionConfigurationType, "ECDS", "ECDS"},
	{v3.AddressType, "ADDR", "ADDR"},
	{v3.WorkloadType, "WORKLOAD", "WORKLOAD"},
	{v3.WorkloadAuthorizationType, "(OTHER 4%N)", "AUTHZ"},
	{v3.NameTableType, "(OTHER 1%N)", "NDS"},
}

const (
	tCDS = iota
	tEDS
	tLDS
	tRDS
	tECDS
	tADDR
	tWORKLOAD
	tAUTHZ
	tNDS
)

func typeIndex(url string) int {
	for i, t := range types {
		if t.URL == url {
			return i
		}
	}
	return -1
}

// tracked = the server overwrites the record with the generated names (shouldSetWatchedResources)
func tracked(t int) bool { return t == tCDS || t == tLDS || t == tAUTHZ || t == tNDS }
func isWds(t int) bool   { return t == tADDR || t == tWORKLOAD }

// names: "*" is 0; stub resources r1..r9 are 1..9; workloads w1..w6 are 11..16; workload IPs
// "/10.0.0.i" are 21..26; shared VIPs "/10.9.0.j" are 31..33; services "ns/s<j>.example" are 41..43;
// policies "ns/p<i>" are 61..65
var nameTab = map[string]int{"*": 0}
var nameRev = map[int]string{0: "*"}

func init() {
	add := func(s string, id int) { nameTab[s] = id; nameRev[id] = s }
	for i := 1; i <= 9; i++ {
		add("r"+strconv.Itoa(i), i)
	}
	for i := 1; i <= 6; i++ {
		add("w"+strconv.Itoa(i), 10+i)
		add("/10.0.0."+strconv.Itoa(i), 20+i)
	}
	for j := 1; j <= 3; j++ {
		add("/10.9.0."+strconv.Itoa(j), 30+j)
		add("ns/s"+strconv.Itoa(j)+".example", 40+j)
	}
	for i := 1; i <= 5; i++ {
		add("ns/p"+strconv.Itoa(i), 60+i)
	}
}

func verStr(v int) string {
	if v == 0 {
		return ""
	}
	return "v" + strconv.Itoa(v)
}

func verID(s string) int {
	if s == "" {
		return 0
	}
	if strings.HasPrefix(s, "v") {
		if n, err := strconv.Atoi(s[1:]); err == nil {
			return n
		}
	}
	return -1
}

type rsrc struct {
	N int `json:"n"`
	V int `json:"v"`
}

type rmap map[int]int // name id -> version id

func (m rmap) clone() rmap {
	o := rmap{}
	for k, v := range m {
		o[k] = v
	}
	return o
}

func (m rmap) list() []rsrc {
	out := make([]rsrc, 0, len(m))
	for k, v := range m {
		out = append(out, rsrc{k, v})
	}
	sort.Slice(out, func(i, j int) bool { return out[i].N < out[j].N })
	return out
}

// ---------------------------------------------------------------- observations

type genOut struct {
	Res    []rsrc `json:"res"`
	ResNil bool   `json:"resNil"`
	Del    []int  `json:"del"`
	DelNil bool   `json:"delNil"`
	Used   bool   `json:"used"`
	Inc    bool   `json:"inc"`
	Set    []int  `json:"set,omitempty"`
	HasSet bool   `json:"hasSet,omitempty"`
}

type callObs struct {
	T     int    `json:"type"`
	Info  string `json:"gen"` // Gallina ginfo term
	Names []int  `json:"viewNames"`
	Wild  bool   `json:"viewWildcard"`
	Out   genOut `json:"out"`
}

type respObs struct {
	T       int    `json:"type"`
	Nonce   int    `json:"nonce"`
	Res     []rsrc `json:"resources"`
	Removed []int  `json:"removed"`
}

type watchObs struct {
	T     int   `json:"type"`
	Some  bool  `json:"watched"`
	Names []int `json:"names"`
	Wild  bool  `json:"wildcard"`
}

// ---------------------------------------------------------------- fake delta stream

type fakeDeltaStream struct {
	grpc.ServerStream
	sent []*discovery.DeltaDiscoveryResponse
}

func (f *fakeDeltaStream) Send(r *discovery.DeltaDiscoveryResponse) error {
	f.sent = append(f.sent, r)
	return nil
}

func (f *fakeDeltaStream) Recv() (*discovery.DeltaDiscoveryRequest, error) {
	return nil, errors.New("no recv")
}

// ---------------------------------------------------------------- fake ambient index

type fakeAddr struct {
	Name    int   // resource name id
	Ver     int   // version id (0 = "")
	Aliases []int // alias ids ("/ip")
	WL      bool
}

type fakeIdx struct {
	model.NoopAmbientIndexes
	addrs []fakeAddr
	pols  []int // policy name ids
	addl  []int
}

func ipOfAlias(id int) []byte {
	s := strings.TrimPrefix(nameRev[id], "/")
	return netip.MustParseAddr(s).AsSlice()
}

func (a fakeAddr) info() model.AddressInfo {
	var ad *workloadapi.Address
	if a.WL {
		w := &workloadapi.Workload{Uid: nameRev[a.Name]}
		for _, al := range a.Aliases {
			w.Addresses = append(w.Addresses, ipOfAlias(al))
		}
		ad = &workloadapi.Address{Type: &workloadapi.Address_Workload{Workload: w}}
	} else {
		parts := strings.SplitN(nameRev[a.Name], "/", 2)
		s := &workloadapi.Service{Namespace: parts[0], Hostname: parts[1]}
		for _, al := range a.Aliases {
			s.Addresses = append(s.Addresses, &workloadapi.NetworkAddress{Address: ipOfAlias(al)})
		}
		ad = &workloadapi.Address{Type: &workloadapi.Address_Service{Service: s}}
	}
	return model.AddressInfo{Address: ad, Version: verStr(a.Ver)}
}

func (a fakeAddr) matches(k string) bool {
	if nameRev[a.Name] == k {
		return true
	}
	for _, al := range a.Aliases {
		if nameRev[al] == k {
			return true
		}
	}
	return false
}

func (f *fakeIdx) AddressInformation(keys sets.String) ([]model.AddressInfo, sets.String) {
	if len(keys) == 0 {
		out := make([]model.AddressInfo, 0, len(f.addrs))
		for _, a := range f.addrs {
			out = append(out, a.info())
		}
		return out, nil
	}
	var out []model.AddressInfo
	removed := sets.New[string]()
	for _, a := range f.addrs {
		for k := range keys {
			if a.matches(k) {
				out = append(out, a.info())
				break
			}
		}
	}
	for k := range keys {
		found := false
		for _, a := range f.addrs {
			if a.matches(k) {
				found = true
				break
			}
		}
		if !found {
			removed.Insert(k)
		}
	}
	return out, removed
}

func (f *fakeIdx) AdditionalPodSubscriptions(*model.Proxy, sets.String, sets.String) sets.String {
	s := sets.New[string]()
	for _, a := range f.addl {
		s.Insert(nameRev[a])
	}
	return s
}

func (f *fakeIdx) Policies(requested sets.Set[model.ConfigKey]) []model.WorkloadAuthorization {
	var out []model.WorkloadAuthorization
	for _, p := range f.pols {
		parts := strings.SplitN(nameRev[p], "/", 2)
		if len(requested) > 0 && !requested.Contains(model.ConfigKey{Kind: kind.AuthorizationPolicy, Name: parts[1], Namespace: parts[0]}) {
			continue
		}
		out = append(out, model.WorkloadAuthorization{Authorization: &security.Authorization{Name: parts[1], Namespace: parts[0]}})
	}
	return out
}

// ---------------------------------------------------------------- one connection of the real code

type genFn func(w *model.WatchedResource, req *model.PushRequest) (model.Resources, model.DeletedResources, model.XdsLogDetails, bool, error)

type env struct {
	proxy  *model.Proxy
	con    *pxds.Connection
	srv    *pxds.DiscoveryServer
	stream *fakeDeltaStream
	idx    *fakeIdx
	push   *model.PushContext
	calls  []callObs
	stub   map[int]genFn // current behaviour of the stub generator of a type
	nonces map[string]int
	bad    []string
}

// recording wrappers: recDelta is seen by pushDeltaXds as an XdsDeltaResourceGenerator, recPlain only
// as an XdsResourceGenerator
type recDelta struct {
	e     *env
	t     int
	plain bool // wrapped by recPlain: pushDeltaXds only sees (resources, logdata)
	inner genFn
	info  func(req *model.PushRequest) string
}

type recPlain struct{ d recDelta }

func (g recDelta) GenerateDeltas(proxy *model.Proxy, req *model.PushRequest, w *model.WatchedResource,
) (model.Resources, model.DeletedResources, model.XdsLogDetails, bool, error) {
	e := g.e
	before := e.idsOf(w.ResourceNames)
	wild := w.Wildcard
	info := g.info(req) // before the call: generators may write into req.Delta.Subscribed
	res, del, ld, used, err := g.inner(w, req)
	if g.plain {
		del, used = nil, false
	}
	after := e.idsOf(w.ResourceNames)
	o := genOut{ResNil: res == nil, DelNil: del == nil, Used: used, Inc: ld.Incremental}
	for _, r := range res {
		id, ok := nameTab[r.Name]
		if !ok || verID(r.Version) < 0 {
			e.bad = append(e.bad, "unknown resource "+r.Name+"@"+r.Version)
		}
		o.Res = append(o.Res, rsrc{id, verID(r.Version)})
	}
	for _, n := range del {
		id, ok := nameTab[n]
		if !ok {
			e.bad = append(e.bad, "unknown removed name "+n)
		}
		o.Del = append(o.Del, id)
	}
	if fmt.Sprint(before) != fmt.Sprint(after) {
		o.HasSet, o.Set = true, after
	}
	if err != nil {
		e.bad = append(e.bad, "generator error "+err.Error())
	}
	e.calls = append(e.calls, callObs{T: g.t, Info: info, Names: before, Wild: wild, Out: o})
	return res, del, ld, used, err
}

func (g recDelta) Generate(proxy *model.Proxy, w *model.WatchedResource, req *model.PushRequest) (model.Resources, model.XdsLogDetails, error) {
	res, _, ld, _, err := g.GenerateDeltas(proxy, req, w)
	return res, ld, err
}

func (g recPlain) Generate(proxy *model.Proxy, w *model.WatchedResource, req *model.PushRequest) (model.Resources, model.XdsLogDetails, error) {
	return g.d.Generate(proxy, w, req)
}

// plainTypes are served by a generator without GenerateDeltas (as LDS, NDS are in the real server)
func plainType(t int) bool { return t == tLDS || t == tNDS || t == tRDS || t == tECDS }

func newEnv() *env {
	e := &env{stream: &fakeDeltaStream{}, idx: &fakeIdx{}, stub: map[int]genFn{}, nonces: map[string]int{}}
	e.push = model.NewPushContext()
	e.push.PushVersion = "pv"
	e.proxy = &model.Proxy{ID: "p", Type: model.SidecarProxy, Metadata: &model.NodeMetadata{},
		WatchedResources: map[string]*model.WatchedResource{}, LastPushContext: e.push, LastPushTime: time.Now()}
	e.srv = &pxds.DiscoveryServer{Generators: map[string]model.XdsResourceGenerator{}, Env: &model.Environment{}}
	e.srv.Env.AmbientIndexes = e.idx
	e.con = pxds.VerifC04NewConnection("con-1", e.proxy, nil, e.stream)
	script := func(*model.PushRequest) string { return "GScript" }
	for t := range types {
		t := t
		var g model.XdsResourceGenerator
		switch {
		case isWds(t):
			real := pxds.WorkloadGenerator{Server: e.srv}
			g = recDelta{e: e, t: t, info: e.wdsInfo, inner: func(w *model.WatchedResource, req *model.PushRequest) (model.Resources, model.DeletedResources, model.XdsLogDetails, bool, error) {
				return real.GenerateDeltas(e.proxy, req, w)
			}}
		case t == tAUTHZ:
			real := pxds.WorkloadRBACGenerator{Server: e.srv}
			g = recDelta{e: e, t: t, info: e.rbacInfo, inner: func(w *model.WatchedResource, req *model.PushRequest) (model.Resources, model.DeletedResources, model.XdsLogDetails, bool, error) {
				return real.GenerateDeltas(e.proxy, req, w)
			}}
		default:
			d := recDelta{e: e, t: t, info: script, inner: func(w *model.WatchedResource, req *model.PushRequest) (model.Resources, model.DeletedResources, model.XdsLogDetails, bool, error) {
				if f := e.stub[t]; f != nil {
					return f(w, req)
				}
				return nil, nil, model.XdsLogDetails{}, false, nil
			}}
			if plainType(t) {
				d.plain = true
				g = recPlain{d}
			} else {
				g = d
			}
		}
		e.srv.Generators[types[t].URL] = g
	}
	return e
}

func (e *env) idsOf(s sets.String) []int {
	out := []int{}
	for n := range s {
		id, ok := nameTab[n]
		if !ok {
			e.bad = append(e.bad, "unknown name "+strconv.Quote(n))
			continue
		}
		out = append(out, id)
	}
	sort.Ints(out)
	return out
}

func (e *env) wdsInfo(req *model.PushRequest) string {
	var init []rsrc
	for n, v := range req.Delta.InitialResourceVersions {
		init = append(init, rsrc{nameTab[n], verID(v)})
	}
	sort.Slice(init, func(i, j int) bool { return init[i].N < init[j].N })
	d := vlib.App("mkDelta", nlist(e.idsOf(req.Delta.Subscribed)), nlist(e.idsOf(req.Delta.Unsubscribed)), rlist(init))
	return vlib.App("GWds", vlib.App("mkWreq", vlib.B(req.IsRequest()), nlist(e.idsOf(req.AddressesUpdated)), d, nlist(e.idx.addl)))
}

func (e *env) rbacInfo(req *model.PushRequest) string {
	upd := []int{}
	for k := range model.ConfigsOfKind(req.ConfigsUpdated, kind.AuthorizationPolicy) {
		upd = append(upd, nameTab[k.Namespace+"/"+k.Name])
	}
	sort.Ints(upd)
	return vlib.App("GRbac", vlib.B(req.Forced), nlist(upd))
}

// mkResources builds the resources a stub returns
func mkResources(rs []rsrc) model.Resources {
	out := make(model.Resources, 0, len(rs))
	for _, r := range rs {
		out = append(out, &discovery.Resource{Name: nameRev[r.N], Version: verStr(r.V),
			Resource: protoconv.MessageToAny(wrapperspb.String(nameRev[r.N] + "@" + verStr(r.V)))})
	}
	return out
}

func (e *env) nonceID(s string) int {
	if s == "" {
		return 0
	}
	if id, ok := e.nonces[s]; ok {
		return id
	}
	e.nonces[s] = len(e.nonces) + 1
	return e.nonces[s]
}

type reqOp struct {
	T     int    `json:"type"`
	Sub   []int  `json:"sub"`
	Unsub []int  `json:"unsub"`
	Init  []rsrc `json:"init"`
	Nonce string `json:"nonce"`
}

type stepObs struct {
	Req    *reqOp     `json:"req,omitempty"`
	Pushed []int      `json:"pushed,omitempty"` // types in watchedResourcesByOrder order
	IsPush bool       `json:"isPush"`
	Calls  []callObs  `json:"calls"`
	Resps  []respObs  `json:"resps"`
	After  []watchObs `json:"after"`
	World  string     `json:"-"` // gw idx pols terms
	Panic  string     `json:"panic,omitempty"`
}

func strs(ids []int) []string {
	out := make([]string, len(ids))
	for i, n := range ids {
		out[i] = nameRev[n]
	}
	return out
}

func (e *env) collect(s *stepObs) {
	s.Calls, e.calls = e.calls, nil
	for _, r := range e.stream.sent {
		o := respObs{T: typeIndex(r.TypeUrl), Nonce: e.nonceID(r.Nonce), Removed: []int{}}
		for _, x := range r.Resources {
			o.Res = append(o.Res, rsrc{nameTab[x.Name], verID(x.Version)})
		}
		for _, n := range r.RemovedResources {
			id, ok := nameTab[n]
			if !ok {
				e.bad = append(e.bad, "unknown removed "+n)
			}
			o.Removed = append(o.Removed, id)
		}
		s.Resps = append(s.Resps, o)
	}
	e.stream.sent = nil
	for t := range types {
		w := e.proxy.WatchedResources[types[t].URL]
		if w != nil {
			s.After = append(s.After, watchObs{T: t, Some: true, Names: e.idsOf(w.ResourceNames), Wild: w.Wildcard})
		}
	}
}

// request runs processDeltaRequest
func (e *env) request(r reqOp) stepObs {
	s := stepObs{Req: &r}
	req := &discovery.DeltaDiscoveryRequest{TypeUrl: types[r.T].URL, ResourceNamesSubscribe: strs(r.Sub),
		ResourceNamesUnsubscribe: strs(r.Unsub), ResponseNonce: r.Nonce}
	if len(r.Init) > 0 {
		req.InitialResourceVersions = map[string]string{}
		for _, x := range r.Init {
			req.InitialResourceVersions[nameRev[x.N]] = verStr(x.V)
		}
	}
	if p, msg := vlib.Recover(func() {
		if err := pxds.VerifC03ProcessDeltaRequest(e.srv, req, e.con); err != nil {
			e.bad = append(e.bad, "processDeltaRequest error "+err.Error())
		}
	}); p {
		s.Panic = msg
	}
	e.collect(&s)
	return s
}

// pushAll runs the loop of pushConnectionDelta
func (e *env) pushAll(req *model.PushRequest) stepObs {
	s := stepObs{IsPush: true}
	if p, msg := vlib.Recover(func() {
		for _, w := range pxds.VerifC03WatchedResourcesByOrder(e.con) {
			s.Pushed = append(s.Pushed, typeIndex(w.TypeUrl))
			if err := pxds.VerifC03PushDeltaXds(e.srv, e.con, w, req); err != nil {
				e.bad = append(e.bad, "pushDeltaXds error "+err.Error())
			}
		}
	}); p {
		s.Panic = msg
	}
	e.collect(&s)
	return s
}

func (e *env) lastNonce(t int) string {
	if w := e.proxy.WatchedResources[types[t].URL]; w != nil {
		return w.NonceSent
	}
	return ""
}

// summary renders a step compactly for evidence samples and replays
func (s stepObs) summary() string {
	var b strings.Builder
	if s.IsPush {
		fmt.Fprintf(&b, "push %v", s.Pushed)
	} else {
		fmt.Fprintf(&b, "request %s sub=%v unsub=%v init=%v nonce=%q", types[s.Req.T].Tag, s.Req.Sub, s.Req.Unsub, s.Req.Init, s.Req.Nonce)
	}
	for _, c := range s.Calls {
		fmt.Fprintf(&b, " | gen %s view=%v wildcard=%v -> res=%v(nil=%v) del=%v(nil=%v) usedDelta=%v inc=%v", types[c.T].Tag, c.Names, c.Wild,
			c.Out.Res, c.Out.ResNil, c.Out.Del, c.Out.DelNil, c.Out.Used, c.Out.Inc)
	}
	for _, r := range s.Resps {
		fmt.Fprintf(&b, " | response %s resources=%v removed=%v", types[r.T].Tag, r.Res, r.Removed)
	}
	for _, w := range s.After {
		fmt.Fprintf(&b, " | watched %s=%v", types[w.T].Tag, w.Names)
	}
	return b.String()
}

// ---------------------------------------------------------------- Gallina printers

func nlist(ids []int) string { return vlib.ListOf(ids, vlib.NI) }

func rlist(rs []rsrc) string {
	return vlib.ListOf(rs, func(r rsrc) string { return vlib.Pair(vlib.NI(r.N), vlib.NI(r.V)) })
}

func viewTerm(names []int, wild bool) string { return vlib.Pair(nlist(names), vlib.B(wild)) }

func (o genOut) term() string {
	return vlib.App("mkGen", vlib.Opt(!o.ResNil, rlist(o.Res)), vlib.Opt(!o.DelNil, nlist(o.Del)), vlib.B(o.Used), vlib.B(o.Inc),
		vlib.Opt(o.HasSet, nlist(o.Set)))
}

func (e *env) stepTerm(s stepObs) string {
	var op string
	if s.IsPush {
		op = vlib.App("SPush", vlib.ListOf(s.Pushed, func(t int) string { return types[t].Term }))
	} else {
		r := s.Req
		init := make([]int, len(r.Init))
		for i, x := range r.Init {
			init[i] = x.N
		}
		op = vlib.App("SReq", vlib.App("mkDReq", types[r.T].Term, nlist(r.Sub), nlist(r.Unsub), nlist(init),
			vlib.NI(e.nonceID(r.Nonce)), "None"), rlist(r.Init))
	}
	calls := vlib.ListOf(s.Calls, func(c callObs) string {
		return vlib.App("Call", types[c.T].Term, c.Info, viewTerm(c.Names, c.Wild), c.Out.term())
	})
	resps := vlib.ListOf(s.Resps, func(r respObs) string {
		return vlib.Pair(vlib.Pair(types[r.T].Term, vlib.NI(r.Nonce)), vlib.App("mkResp", rlist(r.Res), nlist(r.Removed)))
	})
	after := vlib.ListOf(s.After, func(w watchObs) string {
		return vlib.Pair(types[w.T].Term, vlib.Opt(w.Some, viewTerm(w.Names, w.Wild)))
	})
	return vlib.App("Obs", op, calls, resps, after, s.World)
}
