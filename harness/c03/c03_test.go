//go:build verif

package c03

import (
	"fmt"
	"os"
	"sort"
	"testing"

	"istio.io/istio/pilot/pkg/model"
	"istio.io/istio/pkg/config/schema/kind"
	istiolog "istio.io/istio/pkg/log"
	"istio.io/istio/pkg/util/sets"
	"verif/harness/vlib"
)

// ---------------------------------------------------------------- world

type world struct {
	g     map[int]rmap
	addrs []fakeAddr
	pols  []int
}

func (w *world) clone() *world {
	o := &world{g: map[int]rmap{}}
	for t, m := range w.g {
		o.g[t] = m.clone()
	}
	for _, a := range w.addrs {
		a.Aliases = append([]int{}, a.Aliases...)
		o.addrs = append(o.addrs, a)
	}
	o.pols = append([]int{}, w.pols...)
	return o
}

func (w *world) term(ts []int) string {
	wds := false
	for _, t := range ts {
		if isWds(t) || t == tAUTHZ {
			wds = true
		}
	}
	if wds {
		ts = nil
	} else {
		w = &world{g: w.g}
	}
	gw := vlib.ListOf(ts, func(t int) string { return vlib.Pair(types[t].Term, rlist(w.g[t].list())) })
	idx := vlib.ListOf(w.addrs, func(a fakeAddr) string {
		return vlib.App("mkAddr", vlib.NI(a.Name), vlib.NI(a.Ver), nlist(a.Aliases), vlib.B(a.WL))
	})
	pols := vlib.ListOf(w.pols, func(p int) string { return vlib.Pair(vlib.NI(p), "0%N") })
	return gw + " " + idx + " " + pols
}

var stubTypes = []int{tCDS, tEDS, tLDS, tRDS, tECDS, tNDS}

func randMap(r *vlib.Rand, maxName, maxVer int) rmap {
	m := rmap{}
	for n := 1; n <= maxName; n++ {
		if r.Chance(55) {
			m[n] = 1 + r.Intn(maxVer)
		}
	}
	return m
}

func randWorld(r *vlib.Rand) *world {
	w := &world{g: map[int]rmap{}}
	for _, t := range stubTypes {
		w.g[t] = randMap(r, 6, 3)
	}
	for i := 1; i <= 6; i++ {
		if r.Chance(60) {
			w.addrs = append(w.addrs, randAddr(r, 10+i))
		}
	}
	for j := 1; j <= 3; j++ {
		if r.Chance(50) {
			w.addrs = append(w.addrs, fakeAddr{Name: 40 + j, Ver: r.Intn(4), Aliases: []int{30 + j}, WL: false})
		}
	}
	for i := 1; i <= 5; i++ {
		if r.Chance(50) {
			w.pols = append(w.pols, 60+i)
		}
	}
	return w
}

func randAddr(r *vlib.Rand, name int) fakeAddr {
	a := fakeAddr{Name: name, Ver: r.Intn(4), Aliases: []int{name + 10}, WL: true}
	if r.Chance(40) {
		a.Aliases = append(a.Aliases, 31+r.Intn(3))
	}
	return a
}

// mutate changes the world; returns the keys of changed addresses and the changed policies
func (w *world) mutate(r *vlib.Rand, ts []int) (addrKeys []int, polKeys []int) {
	for _, t := range ts {
		if isWds(t) {
			n := 1 + r.Intn(2)
			for k := 0; k < n; k++ {
				name := 11 + r.Intn(6)
				if r.Chance(25) {
					name = 41 + r.Intn(3)
				}
				pos := -1
				for i, a := range w.addrs {
					if a.Name == name {
						pos = i
					}
				}
				switch {
				case pos >= 0 && r.Chance(40):
					a := w.addrs[pos]
					addrKeys = append(addrKeys, a.Name)
					addrKeys = append(addrKeys, a.Aliases...)
					w.addrs = append(w.addrs[:pos:pos], w.addrs[pos+1:]...)
				case pos >= 0:
					a := w.addrs[pos]
					addrKeys = append(addrKeys, a.Name)
					addrKeys = append(addrKeys, a.Aliases...)
					w.addrs[pos].Ver = 1 + (a.Ver+r.Intn(2))%3
				default:
					var a fakeAddr
					if name > 40 {
						a = fakeAddr{Name: name, Ver: r.Intn(4), Aliases: []int{name - 10}}
					} else {
						a = randAddr(r, name)
					}
					w.addrs = append(w.addrs, a)
					addrKeys = append(addrKeys, a.Name)
					addrKeys = append(addrKeys, a.Aliases...)
				}
			}
			continue
		}
		if t == tAUTHZ {
			p := 61 + r.Intn(5)
			polKeys = append(polKeys, p)
			pos := -1
			for i, x := range w.pols {
				if x == p {
					pos = i
				}
			}
			if pos >= 0 && r.Chance(60) {
				w.pols = append(w.pols[:pos:pos], w.pols[pos+1:]...)
			} else if pos < 0 {
				w.pols = append(w.pols, p)
			}
			continue
		}
		m := w.g[t]
		n := 1 + r.Intn(3)
		for k := 0; k < n; k++ {
			name := 1 + r.Intn(7)
			_, has := m[name]
			switch {
			case has && r.Chance(45):
				delete(m, name)
			case has:
				m[name] = 1 + m[name]%3
			default:
				m[name] = 1 + r.Intn(3)
			}
		}
	}
	return
}

// ---------------------------------------------------------------- stub behaviours

const (
	mFull = iota
	mDelta
	mInc
	mSkip
)

var modeTag = []string{"full", "delta", "incremental", "skip"}

func ret(o genOut) (model.Resources, model.DeletedResources, model.XdsLogDetails, bool, error) {
	var res model.Resources
	if !o.ResNil {
		res = mkResources(o.Res)
	}
	var del model.DeletedResources
	if !o.DelNil {
		del = make(model.DeletedResources, 0, len(o.Del))
		for _, n := range o.Del {
			del = append(del, nameRev[n])
		}
	}
	return res, del, model.XdsLogDetails{Incremental: o.Inc}, o.Used, nil
}

// lawful: a generator of the world cur, whose previous state (what the client was brought to) is prev
func lawfulStub(r *vlib.Rand, t int, mode int, prev, cur rmap, tags map[string]bool) genFn {
	return func(w *model.WatchedResource, req *model.PushRequest) (model.Resources, model.DeletedResources, model.XdsLogDetails, bool, error) {
		scope := func(n int) bool { return tracked(t) || w.ResourceNames.Contains(nameRev[n]) }
		full := func() genOut {
			o := genOut{DelNil: true}
			for _, x := range cur.list() {
				if scope(x.N) {
					o.Res = append(o.Res, x)
				}
			}
			return o
		}
		m := mode
		if req.Forced {
			m = mFull
		}
		var changed []rsrc
		var vanished []int
		same := true
		for _, x := range cur.list() {
			if !scope(x.N) {
				continue
			}
			if pv, ok := prev[x.N]; !ok || pv != x.V {
				changed = append(changed, x)
				same = false
			} else if r.Chance(20) {
				changed = append(changed, x) // updates may include unchanged resources
			}
		}
		for _, x := range prev.list() {
			if _, ok := cur[x.N]; !ok && scope(x.N) {
				vanished = append(vanished, x.N)
				same = false
			}
		}
		if !tracked(t) && len(vanished) > 0 && (m == mDelta || m == mInc) {
			m = mFull // partial pushes of named types never delete
		}
		if m == mDelta && plainType(t) {
			m = mInc // no GenerateDeltas: at most an incremental Generate
		}
		if m == mInc && tracked(t) {
			m = mFull
		}
		if m == mSkip && !same {
			m = mFull
		}
		tags["gen="+modeTag[m]] = true
		switch m {
		case mDelta:
			o := genOut{Res: changed, Used: true, Inc: r.Bool()}
			if tracked(t) {
				o.Del = vanished
				if r.Chance(15) {
					o.Del = append(o.Del, 9) // removing a name that never existed is allowed
				}
			} else {
				o.DelNil = true
			}
			return ret(o)
		case mInc:
			return ret(genOut{Res: changed, DelNil: true, Inc: true})
		case mSkip:
			return ret(genOut{ResNil: true, DelNil: true})
		}
		return ret(full())
	}
}

func arbitraryStub(r *vlib.Rand) genFn {
	return func(w *model.WatchedResource, req *model.PushRequest) (model.Resources, model.DeletedResources, model.XdsLogDetails, bool, error) {
		o := genOut{ResNil: r.Chance(15), DelNil: r.Chance(40), Used: r.Chance(40), Inc: r.Chance(25)}
		if !o.ResNil {
			o.Res = randMap(r, 7, 2).list()
		}
		if !o.DelNil {
			for n := 1; n <= 8; n++ {
				if r.Chance(25) {
					o.Del = append(o.Del, n)
				}
			}
		}
		if r.Chance(10) {
			w.ResourceNames = sets.New(strs(pickNames(r, 1, 7, 35))...)
		}
		return ret(o)
	}
}

func pickNames(r *vlib.Rand, lo, hi, pct int) []int {
	out := []int{}
	for n := lo; n <= hi; n++ {
		if r.Chance(pct) {
			out = append(out, n)
		}
	}
	return out
}

// ---------------------------------------------------------------- histories

type hist struct {
	e      *env
	r      *vlib.Rand
	w      *world
	steps  []stepObs
	tags   map[string]bool
	cl0    map[int]rmap
	sub    map[int]map[int]bool // the client's explicit subscription per type (for generating requests)
	first  map[int]bool
	ts     []int
	lawful bool
}

func (h *hist) add(s stepObs) {
	s.World = h.w.term(h.ts)
	h.steps = append(h.steps, s)
}

func keysOf(m map[int]bool) []int {
	out := []int{}
	for k, v := range m {
		if v {
			out = append(out, k)
		}
	}
	sort.Ints(out)
	return out
}

// firstRequest sends the initial request of a type: wildcard for tracked types, names for the others;
// on reconnect it reports what the client retained
func (h *hist) firstRequest(t int, ondemand bool) {
	r := h.r
	q := reqOp{T: t}
	if held, ok := h.cl0[t]; ok {
		q.Init = held.list()
		h.tags["reconnect"] = true
	}
	h.sub[t] = map[int]bool{}
	switch {
	case tracked(t):
		if r.Bool() {
			q.Sub = []int{0}
		}
	case isWds(t) && !ondemand:
		if r.Bool() {
			q.Sub = []int{0}
		}
		h.tags["wds-wildcard"] = true
	case isWds(t):
		h.tags["wds-ondemand"] = true
		if r.Chance(40) && len(q.Init) == 0 {
			q.Sub, q.Unsub = []int{0}, []int{0}
		} else {
			q.Sub = h.wdsKeys(1 + r.Intn(3))
			if len(q.Sub) == 0 {
				q.Sub = []int{11}
			}
		}
	default:
		q.Sub = pickNames(r, 1, 8, 45)
		for _, x := range q.Init {
			if !contains(q.Sub, x.N) {
				q.Sub = append(q.Sub, x.N)
			}
		}
		if len(q.Sub) == 0 {
			q.Sub = []int{1 + r.Intn(6)}
		}
	}
	for _, n := range append(append([]int{}, q.Sub...), initNames(q.Init)...) {
		if n != 0 {
			h.sub[t][n] = true
		}
	}
	h.first[t] = true
	h.installStubs(nil, nil)
	h.add(h.e.request(q))
}

func initNames(rs []rsrc) []int {
	out := []int{}
	for _, x := range rs {
		out = append(out, x.N)
	}
	return out
}

func contains(l []int, x int) bool {
	for _, y := range l {
		if y == x {
			return true
		}
	}
	return false
}

func (h *hist) wdsKeys(n int) []int {
	pool := []int{11, 12, 13, 14, 15, 16, 21, 22, 23, 24, 31, 32, 33, 41, 42}
	out := []int{}
	for i := 0; i < n; i++ {
		k := vlib.Pick(h.r, pool)
		if !contains(out, k) {
			out = append(out, k)
		}
	}
	return out
}

// installStubs sets every stub type's behaviour for the next step
func (h *hist) installStubs(prev *world, modes map[int]int) {
	for _, t := range stubTypes {
		if !h.lawful {
			h.e.stub[t] = arbitraryStub(h.r)
			continue
		}
		p := h.w.g[t]
		if prev != nil {
			p = prev.g[t]
		}
		h.e.stub[t] = lawfulStub(h.r, t, modes[t], p, h.w.g[t], h.tags)
	}
	h.e.idx.addrs = h.w.addrs
	h.e.idx.pols = h.w.pols
}

func (h *hist) worldPush(ts []int, change bool) {
	r := h.r
	prev := h.w.clone()
	var ak, pk []int
	if change {
		var touched []int
		for _, t := range ts {
			if r.Chance(50) {
				touched = append(touched, t)
			}
		}
		if len(touched) == 0 {
			touched = []int{vlib.Pick(r, ts)}
		}
		ak, pk = h.w.mutate(r, touched)
		h.tags["world-change"] = true
	} else {
		h.tags["push-no-change"] = true
	}
	modes := map[int]int{}
	for _, t := range stubTypes {
		modes[t] = r.Intn(4)
	}
	h.installStubs(prev, modes)
	req := &model.PushRequest{Push: h.e.push, Reason: model.NewReasonStats(model.ConfigUpdate),
		ConfigsUpdated: sets.New[model.ConfigKey](), AddressesUpdated: sets.New[string]()}
	for _, k := range ak {
		req.AddressesUpdated.Insert(nameRev[k])
	}
	for _, p := range pk {
		req.ConfigsUpdated.Insert(model.ConfigKey{Kind: kind.AuthorizationPolicy, Namespace: "ns", Name: nameRev[p][3:]})
	}
	if !h.lawful && r.Chance(30) {
		req.Forced = true
	}
	h.add(h.e.pushAll(req))
}

func (h *hist) subChange(t int, ondemand bool) {
	r := h.r
	q := reqOp{T: t}
	cur := keysOf(h.sub[t])
	switch {
	case isWds(t):
		if r.Chance(60) {
			q.Sub = h.wdsKeys(1 + r.Intn(2))
		}
		if len(cur) > 0 && (len(q.Sub) == 0 || r.Chance(35)) {
			// unsubscribe a key only if no other subscribed key still names one of its addresses
			// (what a client holds for an address it still reaches through an alias is not specified)
			u := vlib.Pick(r, cur)
			ok := !contains(q.Sub, u)
			for _, a := range h.w.addrs {
				if !a.matches(nameRev[u]) {
					continue
				}
				for _, k := range append(append([]int{}, cur...), q.Sub...) {
					if k != u && a.matches(nameRev[k]) {
						ok = false
					}
				}
			}
			if ok {
				q.Unsub = []int{u}
			}
		}
		if len(q.Sub) == 0 && len(q.Unsub) == 0 {
			q.Sub = h.wdsKeys(1)
		}
	case tracked(t):
		q.Sub = []int{1 + r.Intn(8)} // an explicit name on top of the wildcard (on-demand style)
	default:
		q.Sub = pickNames(r, 1, 8, 25)
		for _, n := range cur {
			if r.Chance(25) && !contains(q.Sub, n) {
				q.Unsub = append(q.Unsub, n)
			}
		}
		if len(q.Sub) == 0 && len(q.Unsub) == 0 {
			q.Sub = []int{1 + r.Intn(8)}
		}
	}
	for _, n := range q.Sub {
		h.sub[t][n] = true
	}
	for _, n := range q.Unsub {
		delete(h.sub[t], n)
	}
	if len(q.Sub) == 0 {
		h.tags["unsub-only"] = true
	} else if len(q.Unsub) > 0 {
		h.tags["sub+unsub"] = true
	} else {
		h.tags["sub-only"] = true
	}
	h.installStubs(nil, nil)
	s := h.e.request(q)
	h.add(s)
}

func (h *hist) ack(t int) {
	n := h.e.lastNonce(t)
	if n == "" {
		return
	}
	h.tags["ack"] = true
	h.installStubs(nil, nil)
	h.add(h.e.request(reqOp{T: t, Nonce: n}))
}

func (h *hist) arbitraryRequest(ts []int) {
	r := h.r
	t := vlib.Pick(r, ts)
	q := reqOp{T: t, Sub: pickNames(r, 0, 7, 25), Unsub: pickNames(r, 0, 7, 15)}
	if r.Chance(25) {
		q.Init = randMap(r, 7, 2).list()
	}
	switch r.Intn(4) {
	case 0:
		q.Nonce = h.e.lastNonce(t)
	case 1:
		q.Nonce = "stale"
	}
	h.installStubs(nil, nil)
	h.add(h.e.request(q))
}

// runHistory executes one history; kind: 0 envoy, 1 ztunnel wildcard, 2 ztunnel on-demand, 3 arbitrary
func runHistory(seed uint64, knd int, steps int) *hist {
	r := vlib.NewRand(seed)
	h := &hist{e: newEnv(), r: r, w: randWorld(r), tags: map[string]bool{}, cl0: map[int]rmap{}, sub: map[int]map[int]bool{},
		first: map[int]bool{}, lawful: knd != 3}
	if r.Chance(20) {
		h.e.idx.addl = h.wdsKeys(1)
		h.tags["additional-subscriptions"] = true
	}
	var ts []int
	switch knd {
	case 0:
		ts = []int{tCDS, tEDS, tLDS, tRDS}
		if r.Chance(60) {
			ts = append(ts, tECDS)
		}
		if r.Chance(40) {
			ts = append(ts, tNDS)
		}
	case 1, 2:
		ts = []int{[]int{tADDR, tWORKLOAD}[r.Intn(2)]}
		if r.Chance(70) {
			ts = append(ts, tAUTHZ)
		}
	default:
		ts = []int{tCDS, tEDS, tLDS, tRDS, tECDS, tNDS}
	}
	if knd != 3 && r.Chance(50) {
		for _, t := range ts {
			switch {
			case isWds(t):
				m := rmap{}
				for _, n := range h.wdsKeys(3) {
					if n < 20 || n > 40 {
						m[n] = r.Intn(4)
					}
				}
				// what a reconnecting client retained is mostly still current
				for _, a := range h.w.addrs {
					if r.Chance(50) {
						m[a.Name] = a.Ver
					}
				}
				if t == tWORKLOAD {
					for n := range m {
						if n > 40 {
							delete(m, n)
						}
					}
				}
				h.cl0[t] = m
			case t == tAUTHZ:
				m := rmap{}
				for _, n := range pickNames(r, 61, 65, 40) {
					m[n] = 0
				}
				h.cl0[t] = m
			default:
				h.cl0[t] = randMap(r, 8, 3)
			}
		}
	}
	ondemand := knd == 2
	h.ts = ts
	if knd == 3 {
		for i := 0; i < steps; i++ {
			if r.Chance(65) {
				h.arbitraryRequest(ts)
			} else {
				h.worldPush(ts, true)
			}
		}
		return h
	}
	// initial requests, possibly interleaved with world changes
	pending := append([]int{}, ts...)
	for len(pending) > 0 {
		i := 0
		if r.Chance(30) {
			i = r.Intn(len(pending))
		}
		h.firstRequest(pending[i], ondemand)
		pending = append(pending[:i:i], pending[i+1:]...)
		if r.Chance(25) {
			h.worldPush(ts, true)
		}
	}
	for i := 0; i < steps; i++ {
		t := vlib.Pick(r, ts)
		switch x := r.Intn(100); {
		case x < 45:
			h.worldPush(ts, true)
		case x < 55:
			h.worldPush(ts, false)
		case x < 85:
			if t == tAUTHZ || (isWds(t) && !ondemand && r.Chance(70)) {
				h.worldPush(ts, true)
			} else {
				h.subChange(t, ondemand)
			}
		default:
			h.ack(t)
		}
	}
	return h
}

func (h *hist) term(id int) string {
	ts := []int{}
	for t := range h.cl0 {
		ts = append(ts, t)
	}
	sort.Ints(ts)
	cl0 := vlib.ListOf(ts, func(t int) string { return vlib.Pair(types[t].Term, rlist(h.cl0[t].list())) })
	steps := vlib.ListOf(h.steps, h.e.stepTerm)
	return vlib.App("Hist", vlib.NI(id), vlib.B(h.lawful), cl0, steps)
}

var kindTag = []string{"envoy", "ztunnel-wildcard", "ztunnel-ondemand", "arbitrary-generators"}

func TestGen(t *testing.T) {
	for _, s := range istiolog.Scopes() {
		s.SetOutputLevel(istiolog.NoneLevel)
	}
	c := vlib.NewCollector("C03", "V.C03.Run")
	c.Rule = "Hist: one delta connection of the real processDeltaRequest/pushDeltaXds/push loop with recording generators. " +
		"lawful kinds (envoy: stub CDS/EDS/LDS/RDS/ECDS/NDS generators of a harness world answering in full, delta (H_delta by construction), " +
		"incremental or skip mode; ztunnel wildcard/on-demand: the real WorkloadGenerator and WorkloadRBACGenerator over a fake ambient index): " +
		"initial or reconnect requests (client reports what it retained), world changes followed by the push loop, subscribe/unsubscribe requests, ACKs; " +
		"the oracle replays the observed responses in a delta client and compares with the world restricted to the client's subscription after every step. " +
		"arbitrary kind: random generator outputs and random (stale, change-carrying) requests, correspondence only. " +
		"non-trivial = at least one response carried removed resources or a delta-mode generator was used. " +
		"HDelta: real BuildDeltaClusters vs BuildClusters (ids 100000+), and the real EdsGenerator.GenerateDeltas through the real pushDeltaXds for DestinationRule / PeerAuthentication (namespace, root) / endpoint / mixed / Forced pushes against a Forced full push (ids 300000+; non-trivial = partial answer). " +
		"Pair: delta and SotW ADS clients side by side on the fake server: CDS through service add/remove/reconnect, EDS (3 clusters) through DestinationRule-only, PeerAuthentication-only and endpoint changes."
	seed := vlib.Seed()
	root := vlib.NewRand(seed)
	id := 0
	nh := vlib.Scale(128, 2400)
	for i := 0; i < nh; i++ {
		id++
		hs := root.SubSeed()
		knd := []int{0, 0, 0, 1, 1, 2, 2, 3}[i%8]
		if !c.Wanted(id) {
			continue
		}
		h := runHistory(hs, knd, 6+int(hs%8))
		tags := []string{"hist", "kind=" + kindTag[knd]}
		for k := range h.tags {
			tags = append(tags, k)
		}
		nontrivial := false
		for _, s := range h.steps {
			if s.Panic != "" {
				c.Violate(vlib.Violation{ID: id, Kind: "panic", Detail: s.Panic, Case: h.steps})
			}
			for _, r := range s.Resps {
				tags = append(tags, "resp="+types[r.T].Tag)
				if len(r.Removed) > 0 {
					nontrivial = true
					tags = append(tags, "removed="+types[r.T].Tag)
				}
			}
			for _, cl := range s.Calls {
				if cl.Out.Used {
					nontrivial = true
				}
			}
		}
		for _, b := range h.e.bad {
			c.Violate(vlib.Violation{ID: id, Kind: "projection", Detail: b})
		}
		sort.Strings(tags)
		tags = uniq(tags)
		sum := []string{}
		for _, s := range h.steps {
			sum = append(sum, s.summary())
		}
		c.Add(vlib.Case{ID: id, Term: h.term(id), Tags: tags, Sample: map[string]any{"seed": hs, "kind": kindTag[knd], "world": "names are interned ids; see harness/c03/core.go nameTab", "steps": sum},
			Trivial: !nontrivial})
	}
	id = 100000
	id = genHDelta(t, c, root.Sub(), id)
	id = 200000
	id = genPair(t, c, root.Sub(), id)
	id = 300000
	id = genHEds(t, c, root.Sub(), id)
	id = 400000
	id = genWaypointPair(t, c, id)
	if err := c.Flush(); err != nil {
		fmt.Fprintln(os.Stderr, err)
		t.Fatal(err)
	}
}

func uniq(xs []string) []string {
	out := xs[:0]
	for i, x := range xs {
		if i == 0 || x != xs[i-1] {
			out = append(out, x)
		}
	}
	return out
}
