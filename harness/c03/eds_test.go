//go:build verif

package c03

import (
	"fmt"
	"sort"
	"testing"
	"time"

	endpoint "github.com/envoyproxy/go-control-plane/envoy/config/endpoint/v3"
	discovery "github.com/envoyproxy/go-control-plane/envoy/service/discovery/v3"
	"google.golang.org/protobuf/proto"
	"google.golang.org/protobuf/types/known/anypb"

	networking "istio.io/api/networking/v1alpha3"
	securityapi "istio.io/api/security/v1beta1"
	"istio.io/istio/pilot/pkg/model"
	pxds "istio.io/istio/pilot/pkg/xds"
	v3 "istio.io/istio/pilot/pkg/xds/v3"
	xdsfake "istio.io/istio/pilot/test/xds"
	"istio.io/istio/pkg/config"
	"istio.io/istio/pkg/config/host"
	"istio.io/istio/pkg/config/protocol"
	"istio.io/istio/pkg/config/schema/gvk"
	"istio.io/istio/pkg/config/schema/kind"
	"istio.io/istio/pkg/util/sets"
	"verif/harness/vlib"
)

// ---------------------------------------------------------------- the real EDS delta generator
//
// HEds cases (printed as HDelta): the real pushDeltaXds with the real EdsGenerator.GenerateDeltas on the
// fake discovery server's environment.  A client watching several clusters holds the full EDS state
// `prev`; the world changes (DestinationRule / PeerAuthentication namespace or root / endpoints / mixes);
// the push request carries exactly the keys of the change (or is Forced); the response (resources,
// removed_resources as pushDeltaXds computed them from the generator's usedDelta / Incremental flags)
// applied to prev must equal the full EDS state after the change (a Forced push onto the same watch).

const edsNS = "default"

func edsHost(i int) string { return fmt.Sprintf("svc%d.example.com", i) }

// svc3 lives in another namespace so that a namespace-scoped PeerAuthentication touches only some clusters
func edsSvcNS(i int) string {
	if i == 3 {
		return "other"
	}
	return edsNS
}

func edsService(i int) *model.Service {
	return &model.Service{
		Hostname:       host.Name(edsHost(i)),
		DefaultAddress: fmt.Sprintf("10.8.0.%d", i),
		Ports:          model.PortList{{Name: "http-main", Port: 80, Protocol: protocol.HTTP}},
		Attributes:     model.ServiceAttributes{Namespace: edsSvcNS(i), Name: fmt.Sprintf("svc%d", i)},
	}
}

func edsEndpoints(i, variant int) []*model.IstioEndpoint {
	mk := func(ip, ver string) *model.IstioEndpoint {
		return &model.IstioEndpoint{Addresses: []string{ip}, ServicePortName: "http-main", EndpointPort: 80,
			Labels: map[string]string{"version": ver}, ServiceAccount: "sa"}
	}
	out := []*model.IstioEndpoint{mk(fmt.Sprintf("10.20.%d.1", i), "v1"), mk(fmt.Sprintf("10.20.%d.2", i), "v2")}
	if variant%2 == 1 {
		out = append(out, mk(fmt.Sprintf("10.20.%d.%d", i, 3+variant), "v1"))
	}
	return out
}

func edsDR(i, variant int) config.Config {
	dr := &networking.DestinationRule{Host: edsHost(i)}
	switch variant % 3 {
	case 0:
		dr.Subsets = []*networking.Subset{{Name: "v1", Labels: map[string]string{"version": "v1"}}}
	case 1:
		dr.Subsets = []*networking.Subset{{Name: "v1", Labels: map[string]string{"version": "v2"}}}
		dr.TrafficPolicy = &networking.TrafficPolicy{Tls: &networking.ClientTLSSettings{Mode: networking.ClientTLSSettings_ISTIO_MUTUAL}}
	default:
		dr.TrafficPolicy = &networking.TrafficPolicy{LoadBalancer: &networking.LoadBalancerSettings{
			LbPolicy: &networking.LoadBalancerSettings_Simple{Simple: networking.LoadBalancerSettings_ROUND_ROBIN}}}
	}
	return config.Config{Meta: config.Meta{GroupVersionKind: gvk.DestinationRule, Name: fmt.Sprintf("dr%d", i), Namespace: edsNS}, Spec: dr}
}

func edsPA(ns string, variant int) config.Config {
	mode := []securityapi.PeerAuthentication_MutualTLS_Mode{securityapi.PeerAuthentication_MutualTLS_STRICT,
		securityapi.PeerAuthentication_MutualTLS_PERMISSIVE, securityapi.PeerAuthentication_MutualTLS_DISABLE}[variant%3]
	return config.Config{Meta: config.Meta{GroupVersionKind: gvk.PeerAuthentication, Name: "pa", Namespace: ns},
		Spec: &securityapi.PeerAuthentication{Mtls: &securityapi.PeerAuthentication_MutualTLS{Mode: mode}}}
}

func edsWatched() []string {
	out := []string{}
	for i := 1; i <= 3; i++ {
		out = append(out, "outbound|80||"+edsHost(i), "outbound|80|v1|"+edsHost(i))
	}
	return out
}

func (in *interner) cla(t *testing.T, a *anypb.Any) rsrc {
	c := &endpoint.ClusterLoadAssignment{}
	if err := a.UnmarshalTo(c); err != nil {
		t.Fatal(err)
	}
	b, err := proto.MarshalOptions{Deterministic: true}.Marshal(c)
	if err != nil {
		t.Fatal(err)
	}
	return rsrc{in.name(c.ClusterName), in.ver(b)}
}

// edsWorld applies random changes to the fake server and says which config keys describe them
type edsWorld struct {
	s   *xdsfake.FakeDiscoveryServer
	drs map[int]int
	pas map[string]int
	eps map[int]int
}

func (w *edsWorld) change(t *testing.T, r *vlib.Rand, what int) (model.ConfigKey, string) {
	s := w.s
	switch what {
	case 0: // DestinationRule of one service
		i := 1 + r.Intn(3)
		key := model.ConfigKey{Kind: kind.DestinationRule, Name: fmt.Sprintf("dr%d", i), Namespace: edsNS}
		if v, ok := w.drs[i]; ok && r.Chance(35) {
			if err := s.Store().Delete(gvk.DestinationRule, key.Name, key.Namespace, nil); err != nil {
				t.Fatal(err)
			}
			delete(w.drs, i)
			return key, "dr-removed"
		} else if ok {
			w.drs[i] = v + 1
			if _, err := s.Store().Update(edsDR(i, v+1)); err != nil {
				t.Fatal(err)
			}
			return key, "dr-updated"
		}
		w.drs[i] = r.Intn(3)
		if _, err := s.Store().Create(edsDR(i, w.drs[i])); err != nil {
			t.Fatal(err)
		}
		return key, "dr-added"
	case 1, 2: // PeerAuthentication: namespace-scoped or mesh-wide
		ns, tag := edsNS, "pa-namespace"
		if what == 2 {
			ns, tag = "istio-system", "pa-root"
		}
		key := model.ConfigKey{Kind: kind.PeerAuthentication, Name: "pa", Namespace: ns}
		if v, ok := w.pas[ns]; ok && r.Chance(35) {
			if err := s.Store().Delete(gvk.PeerAuthentication, "pa", ns, nil); err != nil {
				t.Fatal(err)
			}
			delete(w.pas, ns)
			return key, tag + "-removed"
		} else if ok {
			w.pas[ns] = v + 1
			if _, err := s.Store().Update(edsPA(ns, v+1)); err != nil {
				t.Fatal(err)
			}
			return key, tag + "-updated"
		}
		w.pas[ns] = r.Intn(3)
		if _, err := s.Store().Create(edsPA(ns, w.pas[ns])); err != nil {
			t.Fatal(err)
		}
		return key, tag + "-added"
	default: // endpoints of one service
		i := 1 + r.Intn(3)
		w.eps[i]++
		s.MemRegistry.SetEndpoints(edsHost(i), edsSvcNS(i), edsEndpoints(i, w.eps[i]))
		k := kind.Endpoints
		tag := "endpoints"
		if what == 4 {
			k, tag = kind.ServiceEntry, "service-entry-key"
		}
		return model.ConfigKey{Kind: k, Name: edsHost(i), Namespace: edsSvcNS(i)}, tag
	}
}

func newEdsWorld(t *testing.T, r *vlib.Rand) *edsWorld {
	s := xdsfake.NewFakeDiscoveryServer(t, xdsfake.FakeOptions{})
	w := &edsWorld{s: s, drs: map[int]int{}, pas: map[string]int{}, eps: map[int]int{}}
	for i := 1; i <= 3; i++ {
		s.MemRegistry.AddService(edsService(i))
		s.MemRegistry.SetEndpoints(edsHost(i), edsSvcNS(i), edsEndpoints(i, 0))
		if r.Chance(40) {
			w.drs[i] = r.Intn(3)
			if _, err := s.Store().Create(edsDR(i, w.drs[i])); err != nil {
				t.Fatal(err)
			}
		}
	}
	s.EnsureSynced(t)
	return w
}

func genHEds(t *testing.T, c *vlib.Collector, r *vlib.Rand, id int) int {
	nh := vlib.Scale(4, 40)
	const perHistory = 7
	for h := 0; h < nh; h++ {
		hr := r.Sub()
		base := id
		id += perHistory
		wanted := false
		for k := base + 1; k <= base+perHistory; k++ {
			wanted = wanted || c.Wanted(k)
		}
		if !wanted {
			continue
		}
		w := newEdsWorld(t, hr)
		s := w.s
		in := &interner{names: map[string]int{}, vers: map[string]int{}}
		stream := &fakeDeltaStream{}
		proxy := s.SetupProxy(&model.Proxy{ID: "test.default", ConfigNamespace: edsNS, IPAddresses: []string{"127.0.0.1"}})
		proxy.WatchedResources = map[string]*model.WatchedResource{
			v3.EndpointType: {TypeUrl: v3.EndpointType, ResourceNames: sets.New(edsWatched()...)},
		}
		con := pxds.VerifC04NewConnection("eds-1", proxy, nil, stream)
		held := map[int]int{}
		refresh := func() *model.PushContext {
			pc := model.NewPushContext()
			pc.InitContext(s.Env(), nil, nil)
			s.Env().SetPushContext(pc)
			proxy.SetSidecarScope(pc)
			proxy.LastPushContext = pc
			s.Discovery.Cache.ClearAll()
			return pc
		}
		// push runs the real pushDeltaXds and applies what was sent to the client's map
		push := func(req *model.PushRequest) (res []rsrc, removed []int, sent bool) {
			stream.sent = nil
			if err := pxds.VerifC03PushDeltaXds(s.Discovery, con, proxy.GetWatchedResource(v3.EndpointType), req); err != nil {
				t.Fatal(err)
			}
			for _, resp := range stream.sent {
				sent = true
				for _, n := range resp.RemovedResources {
					removed = append(removed, in.name(n))
					delete(held, in.name(n))
				}
				for _, x := range resp.Resources {
					rs := in.cla(t, x.Resource)
					res = append(res, rs)
					held[rs.N] = rs.V
				}
			}
			sort.Slice(res, func(i, j int) bool { return res[i].N < res[j].N })
			return
		}
		pc := refresh()
		push(&model.PushRequest{Push: pc, Forced: true, Reason: model.NewReasonStats(model.ProxyRequest)})
		for k := 1; k <= perHistory; k++ {
			cid := base + k
			prev := mlist(held)
			keys := sets.New[model.ConfigKey]()
			tags := []string{"heds"}
			nchg := 1
			if hr.Chance(25) {
				nchg = 2
			}
			for j := 0; j < nchg; j++ {
				key, tag := w.change(t, hr, []int{0, 0, 1, 1, 2, 3, 4}[hr.Intn(7)])
				keys.Insert(key)
				tags = append(tags, "heds-"+tag)
			}
			if nchg > 1 {
				tags = append(tags, "heds-mix")
			}
			pc = refresh()
			req := &model.PushRequest{Push: pc, ConfigsUpdated: keys, Reason: model.NewReasonStats(model.ConfigUpdate)}
			if hr.Chance(12) {
				req.Forced = true
				tags = append(tags, "heds-forced")
			}
			upd, removed, sent := push(req)
			if !sent {
				tags = append(tags, "heds-no-response")
			} else if len(upd) < len(edsWatched()) {
				tags = append(tags, "heds-partial")
			}
			// the full state after the change: a Forced push onto a copy of the client
			saved := map[int]int{}
			for n, v := range held {
				saved[n] = v
			}
			held = map[int]int{}
			push(&model.PushRequest{Push: pc, Forced: true, Reason: model.NewReasonStats(model.ProxyRequest)})
			full := mlist(held)
			held = saved
			c.Hyp("H_eds: (EDS before - removed) + updated = full EDS after, for the real EdsGenerator.GenerateDeltas through the real pushDeltaXds", 1)
			if removed == nil {
				removed = []int{}
			}
			names := map[int]string{}
			for s, i := range in.names {
				names[i] = s
			}
			sort.Strings(tags)
			term := vlib.App("HDelta", vlib.NI(cid), rlist(prev), rlist(upd), rlist(full), nlist(removed), "true")
			if c.Wanted(cid) {
				c.Add(vlib.Case{ID: cid, Term: term, Tags: uniq(tags), Trivial: len(upd) == len(edsWatched()),
					Sample: map[string]any{"push": "real pushDeltaXds + EdsGenerator.GenerateDeltas, ConfigsUpdated=" + fmt.Sprint(keys.UnsortedList()) +
						fmt.Sprintf(" forced=%v", req.Forced), "watched": edsWatched(), "names": names,
						"before": fmt.Sprint(prev), "resources": fmt.Sprint(upd), "removed_resources": fmt.Sprint(removed), "full_after": fmt.Sprint(full)}})
			}
			// continue from the true state
			held = map[int]int{}
			for _, x := range full {
				held[x.N] = x.V
			}
		}
	}
	return id
}

// ---------------------------------------------------------------- end to end, EDS: a delta and a SotW ADS client
// watching the same clusters through DestinationRule-only, PeerAuthentication-only and endpoint changes

func pairEdsHistory(t *testing.T, c *vlib.Collector, r *vlib.Rand, id *int, steps int) {
	w := newEdsWorld(t, r)
	s := w.s
	in := &interner{names: map[string]int{}, vers: map[string]int{}}
	watched := []string{}
	for i := 1; i <= 3; i++ {
		watched = append(watched, "outbound|80||"+edsHost(i))
	}
	dmap, smap := map[int]int{}, map[int]int{}
	applyDelta := func(resp *discovery.DeltaDiscoveryResponse) {
		for _, n := range resp.RemovedResources {
			delete(dmap, in.name(n))
		}
		for _, x := range resp.Resources {
			rs := in.cla(t, x.Resource)
			dmap[rs.N] = rs.V
		}
	}
	applySotw := func(resp *discovery.DiscoveryResponse) {
		for _, x := range resp.Resources { // EDS: named resources are updated, nothing is dropped
			rs := in.cla(t, x)
			smap[rs.N] = rs.V
		}
	}
	dads := s.ConnectDeltaADS().WithID(proxyID).WithType(v3.EndpointType).WithTimeout(30 * time.Second)
	applyDelta(dads.RequestResponseAck(&discovery.DeltaDiscoveryRequest{ResourceNamesSubscribe: watched}))
	sads := s.ConnectADS().WithID(proxyID).WithType(v3.EndpointType).WithTimeout(30 * time.Second)
	applySotw(sads.RequestResponseAck(t, &discovery.DiscoveryRequest{ResourceNames: watched}))
	last := ""
	emit := func(tag string) {
		*id++
		term := vlib.App("Pair", vlib.NI(*id), "EDS", rlist(mlist(dmap)), rlist(mlist(smap)))
		names := map[int]string{}
		for s, i := range in.names {
			names[i] = s
		}
		c.Add(vlib.Case{ID: *id, Term: term, Tags: []string{"pair", "pair-eds", "pair-eds-" + tag}, Trivial: tag == "connect",
			Sample: map[string]any{"step": tag, "push": last, "watched": watched, "names": names,
				"delta": fmt.Sprint(mlist(dmap)), "sotw": fmt.Sprint(mlist(smap))}})
	}
	emit("connect")
	for k := 0; k < steps; k++ {
		key, tag := w.change(t, r, []int{0, 0, 1, 1, 3}[r.Intn(5)])
		last = "change " + tag + " " + key.String()
		dresp := dads.ExpectResponse()
		applyDelta(dresp)
		dads.Request(&discovery.DeltaDiscoveryRequest{ResponseNonce: dresp.Nonce})
		sresp := sads.ExpectResponse(t)
		applySotw(sresp)
		sads.Request(t, &discovery.DiscoveryRequest{ResponseNonce: sresp.Nonce, VersionInfo: sresp.VersionInfo, ResourceNames: watched})
		emit(tag)
	}
}
