//go:build verif

package c03

import (
	"fmt"
	"strings"
	"testing"
	"time"

	discovery "github.com/envoyproxy/go-control-plane/envoy/service/discovery/v3"
	metav1 "k8s.io/apimachinery/pkg/apis/meta/v1"

	networking "istio.io/api/networking/v1alpha3"
	networkingclient "istio.io/client-go/pkg/apis/networking/v1"
	"istio.io/istio/pilot/pkg/features"
	v3 "istio.io/istio/pilot/pkg/xds/v3"
	xdsfake "istio.io/istio/pilot/test/xds"
	"istio.io/istio/pkg/kube/kclient/clienttest"
	"istio.io/istio/pkg/test"
	"verif/harness/vlib"
)

// ---------------------------------------------------------------- end to end, waypoint: a delta and a SotW ADS client
// of the same waypoint proxy (wildcard CDS) while a service is detached from / attached to the waypoint.
// The change reaches the xDS server as a kind.Address update.  Fixtures as in pilot/pkg/xds/waypoint_test.go.

const wpYaml = `apiVersion: gateway.networking.k8s.io/v1
kind: Gateway
metadata:
  name: waypoint
  namespace: default
spec:
  gatewayClassName: waypoint
  listeners:
    - name: mesh
      port: 15008
      protocol: HBONE
status:
  addresses:
  - type: Hostname
    value: waypoint.default.svc.cluster.local
---
apiVersion: v1
kind: Service
metadata:
  labels:
    gateway.istio.io/managed: istio.io-mesh-controller
    gateway.networking.k8s.io/gateway-name: waypoint
    istio.io/gateway-name: waypoint
  name: waypoint
  namespace: default
spec:
  clusterIP: 3.0.0.0
  ports:
  - appProtocol: hbone
    name: mesh
    port: 15008
  selector:
    gateway.networking.k8s.io/gateway-name: waypoint
---
apiVersion: networking.istio.io/v1
kind: WorkloadEntry
metadata:
  name: waypoint-a
  namespace: default
spec:
  address: 3.0.0.1
  labels:
    gateway.networking.k8s.io/gateway-name: waypoint
---
apiVersion: networking.istio.io/v1
kind: ServiceEntry
metadata:
  name: app
  namespace: default
  labels:
    istio.io/use-waypoint: waypoint
    istio.io/ingress-use-waypoint: "true"
spec:
  hosts: [app.com]
  addresses: [1.2.3.4]
  ports:
  - number: 80
    name: http
    protocol: HTTP
  resolution: STATIC
  workloadSelector:
    labels:
      app: app
`

const wpProxyID = "waypoint~3.0.0.1~waypoint-pod.default~default.svc.cluster.local"

func wpAppServiceEntry(attached bool) *networkingclient.ServiceEntry {
	se := &networkingclient.ServiceEntry{
		ObjectMeta: metav1.ObjectMeta{Name: "app", Namespace: "default"},
		Spec: networking.ServiceEntry{
			Hosts:            []string{"app.com"},
			Addresses:        []string{"1.2.3.4"},
			Ports:            []*networking.ServicePort{{Number: 80, Name: "http", Protocol: "HTTP"}},
			Resolution:       networking.ServiceEntry_STATIC,
			WorkloadSelector: &networking.WorkloadSelector{Labels: map[string]string{"app": "app"}},
		},
	}
	if attached {
		se.Labels = map[string]string{"istio.io/use-waypoint": "waypoint", "istio.io/ingress-use-waypoint": "true"}
	}
	return se
}

func genWaypointPair(t *testing.T, c *vlib.Collector, id int) int {
	const steps = 3
	base := id
	id += 10
	wanted := false
	for k := base + 1; k <= base+10; k++ {
		wanted = wanted || c.Wanted(k)
	}
	if !wanted {
		return id
	}
	t.Run("waypoint", func(t *testing.T) {
		// what pilot/pkg/xds's own tests do in init(); restored when the subtest ends
		test.SetForTest(t, &features.EnableAmbient, true)
		test.SetForTest(t, &features.EnableDualStack, true)
		test.SetForTest(t, &features.EnableIngressWaypointRouting, true)
		s := xdsfake.NewFakeDiscoveryServer(t, xdsfake.FakeOptions{ConfigString: wpYaml, KubernetesObjectString: wpYaml})
		in := &interner{names: map[string]int{}, vers: map[string]int{}}
		dmap, smap := map[int]int{}, map[int]int{}
		hasApp := func(m map[int]int) bool {
			for n, i := range in.names {
				if _, ok := m[i]; ok && strings.HasPrefix(n, "inbound-vip|") && strings.HasSuffix(n, "|app.com") {
					return true
				}
			}
			return false
		}
		applyDelta := func(resp *discovery.DeltaDiscoveryResponse) {
			for _, n := range resp.RemovedResources {
				delete(dmap, in.name(n))
			}
			for _, x := range resp.Resources {
				rs := in.cluster(t, x.Resource)
				dmap[rs.N] = rs.V
			}
		}
		applySotw := func(resp *discovery.DiscoveryResponse) {
			smap = map[int]int{}
			for _, x := range resp.Resources {
				rs := in.cluster(t, x)
				smap[rs.N] = rs.V
			}
		}
		dads := s.ConnectDeltaADS().WithID(wpProxyID).WithType(v3.ClusterType).WithTimeout(30 * time.Second)
		applyDelta(dads.RequestResponseAck(&discovery.DeltaDiscoveryRequest{}))
		sads := s.ConnectADS().WithID(wpProxyID).WithType(v3.ClusterType).WithTimeout(30 * time.Second)
		applySotw(sads.RequestResponseAck(t, nil))
		cur := base
		emit := func(tag, push string) {
			cur++
			names := map[int]string{}
			for s, i := range in.names {
				names[i] = s
			}
			c.Add(vlib.Case{ID: cur, Term: vlib.App("Pair", vlib.NI(cur), "CDS", rlist(mlist(dmap)), rlist(mlist(smap))),
				Tags: []string{"pair", "pair-waypoint", "pair-waypoint-" + tag}, Trivial: tag == "connect",
				Sample: map[string]any{"proxy": wpProxyID, "step": tag, "push": push, "names": names,
					"delta": fmt.Sprint(mlist(dmap)), "sotw": fmt.Sprint(mlist(smap))}})
		}
		if !hasApp(smap) {
			t.Fatalf("waypoint setup: the attached service has no inbound-vip cluster: %v", in.names)
		}
		emit("connect", "")
		writer := clienttest.NewWriter[*networkingclient.ServiceEntry](t, s.KubeClient())
		attached := true
		for k := 0; k < steps; k++ {
			attached = !attached
			writer.Update(wpAppServiceEntry(attached))
			tag := "attach"
			if !attached {
				tag = "detach"
			}
			// every push event reaches both connections; read responses pairwise until the SotW client
			// sees the change (the change is a kind.Address update)
			for n := 0; hasApp(smap) != attached; n++ {
				if n > 8 {
					t.Fatalf("waypoint %s never became visible to the SotW client", tag)
				}
				sresp := sads.ExpectResponse(t)
				applySotw(sresp)
				sads.Request(t, &discovery.DiscoveryRequest{ResponseNonce: sresp.Nonce, VersionInfo: sresp.VersionInfo})
				dresp := dads.ExpectResponse()
				applyDelta(dresp)
				dads.Request(&discovery.DeltaDiscoveryRequest{ResponseNonce: dresp.Nonce})
			}
			emit(tag, "ServiceEntry default/app istio.io/use-waypoint label "+map[bool]string{true: "added", false: "removed"}[attached]+" (kind.Address update) on a waypoint proxy")
		}
	})
	return id
}
