//go:build verif

package c03

import (
	"fmt"
	"sort"
	"testing"

	cluster "github.com/envoyproxy/go-control-plane/envoy/config/cluster/v3"
	"google.golang.org/protobuf/proto"

	networking "istio.io/api/networking/v1alpha3"
	"istio.io/istio/pilot/pkg/model"
	core "istio.io/istio/pilot/pkg/networking/core"
	"istio.io/istio/pkg/config"
	"istio.io/istio/pkg/config/host"
	"istio.io/istio/pkg/config/protocol"
	"istio.io/istio/pkg/config/schema/gvk"
	"istio.io/istio/pkg/config/schema/kind"
	"istio.io/istio/pkg/util/sets"
	"verif/harness/vlib"
)

// ---------------------------------------------------------------- H_delta on the real cluster builder
//
// Hypothesis of the history theorems for delta-aware CDS: for a service / DestinationRule change,
// (BuildClusters before - removed) + updated = BuildClusters after, where (updated, removed) =
// BuildDeltaClusters told that the client watches the clusters built before.

type hdWorld struct {
	svcs map[int]int // host index -> port variant (0 = one port, 1 = two ports)
	drs  map[int]int // host index -> DestinationRule variant (1..3)
}

func hdService(i, variant int) *model.Service {
	s := &model.Service{
		Hostname:   host.Name(fmt.Sprintf("h%d.example.com", i)),
		Ports:      []*model.Port{{Name: "http", Port: 8080, Protocol: protocol.HTTP}},
		Resolution: model.ClientSideLB,
		Attributes: model.ServiceAttributes{Namespace: "bar", Name: fmt.Sprintf("h%d", i)},
	}
	if variant == 1 {
		s.Ports = append(s.Ports, &model.Port{Name: "tcp", Port: 9090, Protocol: protocol.TCP})
	}
	return s
}

func hdDR(i, variant int) config.Config {
	dr := &networking.DestinationRule{Host: fmt.Sprintf("h%d.example.com", i)}
	switch variant {
	case 1:
		dr.Subsets = []*networking.Subset{{Name: "v1", Labels: map[string]string{"version": "v1"}}}
	case 2:
		dr.Subsets = []*networking.Subset{{Name: "v1", Labels: map[string]string{"version": "v1"}}, {Name: "v2", Labels: map[string]string{"version": "v2"}}}
		dr.TrafficPolicy = &networking.TrafficPolicy{LoadBalancer: &networking.LoadBalancerSettings{
			LbPolicy: &networking.LoadBalancerSettings_Simple{Simple: networking.LoadBalancerSettings_LEAST_REQUEST}}}
	default:
		dr.TrafficPolicy = &networking.TrafficPolicy{ConnectionPool: &networking.ConnectionPoolSettings{
			Tcp: &networking.ConnectionPoolSettings_TCPSettings{MaxConnections: 7}}}
	}
	return config.Config{Meta: config.Meta{GroupVersionKind: gvk.DestinationRule, Name: fmt.Sprintf("dr%d", i), Namespace: "foo"}, Spec: dr}
}

type interner struct {
	names map[string]int
	vers  map[string]int
}

func (in *interner) name(s string) int {
	if id, ok := in.names[s]; ok {
		return id
	}
	in.names[s] = len(in.names) + 1
	return in.names[s]
}

func (in *interner) ver(b []byte) int {
	k := string(b)
	if id, ok := in.vers[k]; ok {
		return id
	}
	in.vers[k] = len(in.vers) + 1
	return in.vers[k]
}

func (in *interner) resources(t *testing.T, rs model.Resources) []rsrc {
	out := make([]rsrc, 0, len(rs))
	for _, r := range rs {
		c := &cluster.Cluster{}
		if err := r.Resource.UnmarshalTo(c); err != nil {
			t.Fatal(err)
		}
		b, err := proto.MarshalOptions{Deterministic: true}.Marshal(c)
		if err != nil {
			t.Fatal(err)
		}
		out = append(out, rsrc{in.name(r.Name), in.ver(b)})
	}
	sort.Slice(out, func(i, j int) bool { return out[i].N < out[j].N })
	return out
}

func genHDelta(t *testing.T, c *vlib.Collector, r *vlib.Rand, id int) int {
	n := vlib.Scale(24, 240)
	for k := 0; k < n; k++ {
		id++
		cs := r.Sub()
		if !c.Wanted(id) {
			continue
		}
		witness := k == 0
		prev := hdWorld{svcs: map[int]int{}, drs: map[int]int{}}
		for i := 1; i <= 4; i++ {
			if cs.Chance(65) {
				prev.svcs[i] = cs.Intn(2)
			}
			if cs.Chance(45) {
				prev.drs[i] = 1 + cs.Intn(3)
			}
		}
		if witness {
			// regression of /repo fix 9e904ce: two ports, one subset, then the second port goes away
			prev = hdWorld{svcs: map[int]int{4: 1}, drs: map[int]int{4: 1}}
		}
		var svcs []*model.Service
		var cfgs []config.Config
		for i, v := range prev.svcs {
			svcs = append(svcs, hdService(i, v))
		}
		for i, v := range prev.drs {
			cfgs = append(cfgs, hdDR(i, v))
		}
		cg := core.NewConfigGenTest(t, core.TestOptions{Services: svcs, Configs: cfgs})
		proxy := cg.SetupProxy(&model.Proxy{IPAddresses: []string{"127.0.0.1"}, ConfigNamespace: "foo"})
		in := &interner{names: map[string]int{}, vers: map[string]int{}}
		prevRes, _ := cg.ConfigGen.BuildClusters(proxy, &model.PushRequest{Push: cg.PushContext()})
		prevL := in.resources(t, prevRes)
		// the change: services and/or destination rules
		updated := sets.New[model.ConfigKey]()
		tags := []string{"hdelta"}
		changes := 1 + cs.Intn(2)
		onlySvc, onlyDR := cs.Chance(40), cs.Chance(30)
		if witness {
			changes, onlySvc, onlyDR = 1, true, false
		}
		for j := 0; j < changes; j++ {
			i := 1 + cs.Intn(4)
			if witness {
				i = 4
			}
			if (cs.Bool() || onlySvc) && !onlyDR {
				key := model.ConfigKey{Kind: kind.ServiceEntry, Name: fmt.Sprintf("h%d.example.com", i), Namespace: "bar"}
				if v, ok := prev.svcs[i]; ok && cs.Chance(50) && !witness {
					cg.MemRegistry.RemoveService(host.Name(key.Name))
					delete(prev.svcs, i)
					tags = append(tags, "svc-removed")
				} else if ok {
					prev.svcs[i] = 1 - v
					cg.MemRegistry.AddService(hdService(i, 1-v))
					tags = append(tags, "svc-updated")
					if v == 1 {
						tags = append(tags, "svc-port-removed")
					}
				} else {
					prev.svcs[i] = cs.Intn(2)
					cg.MemRegistry.AddService(hdService(i, prev.svcs[i]))
					tags = append(tags, "svc-added")
				}
				updated.Insert(key)
			} else {
				key := model.ConfigKey{Kind: kind.DestinationRule, Name: fmt.Sprintf("dr%d", i), Namespace: "foo"}
				if v, ok := prev.drs[i]; ok && cs.Chance(45) {
					if err := cg.Store().Delete(gvk.DestinationRule, key.Name, key.Namespace, nil); err != nil {
						t.Fatal(err)
					}
					delete(prev.drs, i)
					tags = append(tags, "dr-removed")
				} else if ok {
					nv := 1 + v%3
					prev.drs[i] = nv
					if _, err := cg.Store().Update(hdDR(i, nv)); err != nil {
						t.Fatal(err)
					}
					tags = append(tags, "dr-updated")
				} else {
					prev.drs[i] = 1 + cs.Intn(3)
					if _, err := cg.Store().Create(hdDR(i, prev.drs[i])); err != nil {
						t.Fatal(err)
					}
					tags = append(tags, "dr-added")
				}
				updated.Insert(key)
			}
		}
		pc := model.NewPushContext()
		pc.InitContext(cg.Env(), nil, nil)
		cg.Env().SetPushContext(pc)
		proxy.SetSidecarScope(pc)
		watched := sets.New[string]()
		for _, x := range prevRes {
			watched.Insert(x.Name)
		}
		upd, removed, _, used := cg.ConfigGen.BuildDeltaClusters(proxy, &model.PushRequest{Push: pc, ConfigsUpdated: updated},
			&model.WatchedResource{ResourceNames: watched})
		full, _ := cg.ConfigGen.BuildClusters(proxy, &model.PushRequest{Push: pc})
		updL, fullL := in.resources(t, upd), in.resources(t, full)
		rem := []int{}
		for _, x := range removed {
			rem = append(rem, in.name(x))
		}
		if witness {
			tags = append(tags, "regression-port-removal")
		}
		if used {
			tags = append(tags, "usedDelta")
			c.Hyp("H_delta: (BuildClusters before - removed) + updated = BuildClusters after, for BuildDeltaClusters answering delta-aware", 1)
		} else {
			tags = append(tags, "fallback-full")
		}
		sort.Strings(tags)
		term := vlib.App("HDelta", vlib.NI(id), rlist(prevL), rlist(updL), rlist(fullL), nlist(rem), vlib.B(used))
		names := map[int]string{}
		for s, i := range in.names {
			names[i] = s
		}
		c.Add(vlib.Case{ID: id, Term: term, Tags: uniq(tags), Trivial: !used,
			Sample: map[string]any{"services": fmt.Sprint(prev.svcs), "destinationRules": fmt.Sprint(prev.drs), "updated": fmt.Sprint(updated.UnsortedList()),
				"removed": removed, "usedDelta": used, "names": names}})
	}
	return id
}
