//go:build verif

package c03

import (
	"fmt"
	"sort"
	"strings"
	"testing"

	cluster "github.com/envoyproxy/go-control-plane/envoy/config/cluster/v3"
	"google.golang.org/protobuf/proto"

	networking "istio.io/api/networking/v1alpha3"
	"istio.io/istio/pilot/pkg/model"
	core "istio.io/istio/pilot/pkg/networking/core"
	"istio.io/istio/pkg/config"
	"istio.io/istio/pkg/config/host"
	"istio.io/istio/pkg/config/protocol"
	"istio.io/istio/pkg/config/schema/gvk"
	"istio.io/istio/pkg/config/schema/kind"
	"istio.io/istio/pkg/util/sets"
	"verif/harness/vlib"
)

// ---------------------------------------------------------------- H_delta on the real cluster builder
//
// Hypothesis of the history theorems for delta-aware CDS: for a service / DestinationRule change,
// (BuildClusters before - removed) + updated = BuildClusters after, where (updated, removed) =
// BuildDeltaClusters told that the client watches the clusters built before.

type hdWorld struct {
	svcs map[int]int // host index -> port variant (0 = one port, 1 = two ports)
	drs  map[int]int // rule index -> DestinationRule variant (1..5)
	drh  map[int]int // rule index -> index of the host the rule names (default: its own index)
	dre  map[int]int // rule index -> exportTo variant (0 = unset, 1 = ".", 2 = another namespace)
}

func hdService(i, variant int) *model.Service {
	s := &model.Service{
		Hostname:   host.Name(fmt.Sprintf("h%d.example.com", i)),
		Ports:      []*model.Port{{Name: "http", Port: 8080, Protocol: protocol.HTTP}},
		Resolution: model.ClientSideLB,
		Attributes: model.ServiceAttributes{Namespace: "bar", Name: fmt.Sprintf("h%d", i)},
	}
	if variant == 1 {
		s.Ports = append(s.Ports, &model.Port{Name: "tcp", Port: 9090, Protocol: protocol.TCP})
	}
	return s
}

func (w hdWorld) dr(i int) config.Config {
	h := i
	if x, ok := w.drh[i]; ok {
		h = x
	}
	return hdDR(i, w.drs[i], h, w.dre[i])
}

// hostOf tells which host rule i names
func (w hdWorld) hostOf(i int) int {
	if x, ok := w.drh[i]; ok {
		return x
	}
	return i
}

func hdDR(i, variant, hostIdx, exp int) config.Config {
	dr := &networking.DestinationRule{Host: fmt.Sprintf("h%d.example.com", hostIdx)}
	switch exp {
	case 1:
		dr.ExportTo = []string{"."}
	case 2:
		dr.ExportTo = []string{"elsewhere"}
	}
	switch variant {
	case 4: // the subset of variant 1, renamed
		dr.Subsets = []*networking.Subset{{Name: "v9", Labels: map[string]string{"version": "v1"}}}
	case 5:
		dr.Subsets = []*networking.Subset{{Name: "v2", Labels: map[string]string{"version": "v2"}}, {Name: "v9", Labels: map[string]string{"version": "v1"}}}
	case 1:
		dr.Subsets = []*networking.Subset{{Name: "v1", Labels: map[string]string{"version": "v1"}}}
	case 2:
		dr.Subsets = []*networking.Subset{{Name: "v1", Labels: map[string]string{"version": "v1"}}, {Name: "v2", Labels: map[string]string{"version": "v2"}}}
		dr.TrafficPolicy = &networking.TrafficPolicy{LoadBalancer: &networking.LoadBalancerSettings{
			LbPolicy: &networking.LoadBalancerSettings_Simple{Simple: networking.LoadBalancerSettings_LEAST_REQUEST}}}
	default:
		dr.TrafficPolicy = &networking.TrafficPolicy{ConnectionPool: &networking.ConnectionPoolSettings{
			Tcp: &networking.ConnectionPoolSettings_TCPSettings{MaxConnections: 7}}}
	}
	return config.Config{Meta: config.Meta{GroupVersionKind: gvk.DestinationRule, Name: fmt.Sprintf("dr%d", i), Namespace: "foo"}, Spec: dr}
}

type interner struct {
	names map[string]int
	vers  map[string]int
}

func (in *interner) name(s string) int {
	if id, ok := in.names[s]; ok {
		return id
	}
	in.names[s] = len(in.names) + 1
	return in.names[s]
}

func (in *interner) ver(b []byte) int {
	k := string(b)
	if id, ok := in.vers[k]; ok {
		return id
	}
	in.vers[k] = len(in.vers) + 1
	return in.vers[k]
}

func (in *interner) resources(t *testing.T, rs model.Resources) []rsrc {
	out := make([]rsrc, 0, len(rs))
	for _, r := range rs {
		c := &cluster.Cluster{}
		if err := r.Resource.UnmarshalTo(c); err != nil {
			t.Fatal(err)
		}
		b, err := proto.MarshalOptions{Deterministic: true}.Marshal(c)
		if err != nil {
			t.Fatal(err)
		}
		out = append(out, rsrc{in.name(r.Name), in.ver(b)})
	}
	sort.Slice(out, func(i, j int) bool { return out[i].N < out[j].N })
	return out
}

func genHDelta(t *testing.T, c *vlib.Collector, r *vlib.Rand, id int) int {
	n := vlib.Scale(40, 300)
	for k := 0; k < n; k++ {
		id++
		cs := r.Sub()
		if !c.Wanted(id) {
			continue
		}
		witness := k == 0
		hostWitness := k == 1
		prev := hdWorld{svcs: map[int]int{}, drs: map[int]int{}, drh: map[int]int{}, dre: map[int]int{}}
		for i := 1; i <= 4; i++ {
			if cs.Chance(65) {
				prev.svcs[i] = cs.Intn(2)
			}
			if cs.Chance(45) {
				prev.drs[i] = 1 + cs.Intn(5)
				if cs.Chance(20) {
					prev.dre[i] = 1
				}
			}
		}
		if hostWitness {
			// a rule with a subset is re-pointed from h1 to h2; both services stay
			prev = hdWorld{svcs: map[int]int{1: 0, 2: 0}, drs: map[int]int{1: 1}, drh: map[int]int{}, dre: map[int]int{}}
		}
		if witness {
			// regression of /repo fix 9e904ce: two ports, one subset, then the second port goes away
			prev = hdWorld{svcs: map[int]int{4: 1}, drs: map[int]int{4: 1}, drh: map[int]int{}, dre: map[int]int{}}
		}
		var svcs []*model.Service
		var cfgs []config.Config
		for i, v := range prev.svcs {
			svcs = append(svcs, hdService(i, v))
		}
		for i := range prev.drs {
			cfgs = append(cfgs, prev.dr(i))
		}
		cg := core.NewConfigGenTest(t, core.TestOptions{Services: svcs, Configs: cfgs})
		proxy := cg.SetupProxy(&model.Proxy{IPAddresses: []string{"127.0.0.1"}, ConfigNamespace: "foo"})
		in := &interner{names: map[string]int{}, vers: map[string]int{}}
		prevRes, _ := cg.ConfigGen.BuildClusters(proxy, &model.PushRequest{Push: cg.PushContext()})
		prevL := in.resources(t, prevRes)
		// the change: services and/or destination rules
		updated := sets.New[model.ConfigKey]()
		tags := []string{"hdelta"}
		changes := 1 + cs.Intn(2)
		onlySvc, onlyDR := cs.Chance(40), cs.Chance(30)
		if witness {
			changes, onlySvc, onlyDR = 1, true, false
		}
		if hostWitness {
			changes, onlySvc, onlyDR = 1, false, true
		}
		for j := 0; j < changes; j++ {
			i := 1 + cs.Intn(4)
			if witness {
				i = 4
			}
			if hostWitness {
				i = 1
			}
			if (cs.Bool() || onlySvc) && !onlyDR {
				key := model.ConfigKey{Kind: kind.ServiceEntry, Name: fmt.Sprintf("h%d.example.com", i), Namespace: "bar"}
				if v, ok := prev.svcs[i]; ok && cs.Chance(50) && !witness {
					cg.MemRegistry.RemoveService(host.Name(key.Name))
					delete(prev.svcs, i)
					tags = append(tags, "svc-removed")
				} else if ok {
					prev.svcs[i] = 1 - v
					cg.MemRegistry.AddService(hdService(i, 1-v))
					tags = append(tags, "svc-updated")
					if v == 1 {
						tags = append(tags, "svc-port-removed")
					}
				} else {
					prev.svcs[i] = cs.Intn(2)
					cg.MemRegistry.AddService(hdService(i, prev.svcs[i]))
					tags = append(tags, "svc-added")
				}
				updated.Insert(key)
			} else {
				if len(prev.drs) > 0 && cs.Chance(60) && !hostWitness {
					// prefer changing a rule that exists
					ks := []int{}
					for x := range prev.drs {
						ks = append(ks, x)
					}
					sort.Ints(ks)
					i = vlib.Pick(cs, ks)
				}
				key := model.ConfigKey{Kind: kind.DestinationRule, Name: fmt.Sprintf("dr%d", i), Namespace: "foo"}
				if v, ok := prev.drs[i]; ok && cs.Chance(45) && !hostWitness {
					if err := cg.Store().Delete(gvk.DestinationRule, key.Name, key.Namespace, nil); err != nil {
						t.Fatal(err)
					}
					delete(prev.drs, i)
					delete(prev.drh, i)
					delete(prev.dre, i)
					tags = append(tags, "dr-removed")
				} else if ok {
					// an update: another variant (subsets added / renamed / removed, policy), another host, or
					// another exportTo
					free := []int{}
					for j := 1; j <= 4; j++ {
						taken := false
						for x := range prev.drs {
							if prev.hostOf(x) == j {
								taken = true
							}
						}
						if !taken {
							free = append(free, j)
						}
					}
					switch x := cs.Intn(10); {
					case (x < 4 || hostWitness) && len(free) > 0:
						prev.drh[i] = vlib.Pick(cs, free)
						if hostWitness {
							prev.drh[i] = 2
						}
						tags = append(tags, "dr-host-changed")
						if v == 1 || v == 2 || v == 4 || v == 5 {
							tags = append(tags, "dr-host-changed-with-subsets")
						}
					case x < 6:
						prev.dre[i] = (prev.dre[i] + 1 + cs.Intn(2)) % 3
						tags = append(tags, "dr-exportto-changed")
					default:
						nv := 1 + (v+cs.Intn(4))%5
						prev.drs[i] = nv
						tags = append(tags, "dr-updated")
					}
					if _, err := cg.Store().Update(prev.dr(i)); err != nil {
						t.Fatal(err)
					}
				} else {
					prev.drs[i] = 1 + cs.Intn(5)
					delete(prev.drh, i)
					delete(prev.dre, i)
					if _, err := cg.Store().Create(prev.dr(i)); err != nil {
						t.Fatal(err)
					}
					tags = append(tags, "dr-added")
				}
				updated.Insert(key)
			}
		}
		pc := model.NewPushContext()
		pc.InitContext(cg.Env(), nil, nil)
		cg.Env().SetPushContext(pc)
		proxy.SetSidecarScope(pc)
		watched := sets.New[string]()
		for _, x := range prevRes {
			watched.Insert(x.Name)
		}
		upd, removed, _, used := cg.ConfigGen.BuildDeltaClusters(proxy, &model.PushRequest{Push: pc, ConfigsUpdated: updated},
			&model.WatchedResource{ResourceNames: watched})
		full, _ := cg.ConfigGen.BuildClusters(proxy, &model.PushRequest{Push: pc})
		updL, fullL := in.resources(t, upd), in.resources(t, full)
		rem := []int{}
		for _, x := range removed {
			rem = append(rem, in.name(x))
		}
		if witness {
			tags = append(tags, "regression-port-removal")
		}
		if hostWitness {
			tags = append(tags, "witness-dr-host-change")
		}
		if used {
			tags = append(tags, "usedDelta")
			c.Hyp("H_delta: (BuildClusters before - removed) + updated = BuildClusters after, for BuildDeltaClusters answering delta-aware", 1)
		} else {
			tags = append(tags, "fallback-full")
		}
		sort.Strings(tags)
		term := vlib.App("HDelta", vlib.NI(id), rlist(prevL), rlist(updL), rlist(fullL), nlist(rem), vlib.B(used))
		names := map[int]string{}
		for s, i := range in.names {
			names[i] = s
		}
		c.Add(vlib.Case{ID: id, Term: term, Tags: uniq(tags), Trivial: !used,
			Sample: map[string]any{"services": fmt.Sprint(prev.svcs), "destinationRules": fmt.Sprintf("variant %v host %v exportTo %v", prev.drs, prev.drh, prev.dre), "change": strings.Join(tags, ","), "updated": fmt.Sprint(updated.UnsortedList()),
				"removed": removed, "usedDelta": used, "names": names}})
	}
	return id
}
