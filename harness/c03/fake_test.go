//go:build verif

package c03

import (
	"testing"

	"verif/harness/vlib"
)

func genHDelta(t *testing.T, c *vlib.Collector, r *vlib.Rand, id int) int {
	return id
}
