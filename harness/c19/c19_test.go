//go:build verif

package c19

import (
	"encoding/json"
	"fmt"
	"os"
	"sort"
	"testing"

	jsonpatch "github.com/evanphx/json-patch/v5"
	corev1 "k8s.io/api/core/v1"
	metav1 "k8s.io/apimachinery/pkg/apis/meta/v1"
	"k8s.io/apimachinery/pkg/util/intstr"

	"istio.io/api/annotation"
	"istio.io/api/label"
	meshconfig "istio.io/api/mesh/v1alpha1"
	"istio.io/istio/operator/pkg/render"
	"istio.io/istio/pkg/config/mesh"
	"istio.io/istio/pkg/kube/inject"
	"verif/harness/vlib"
)

var selNames = []string{"SAbsent", "STrue", "SFalse", "SEmpty", "SGarbage"}
var polNames = []string{"PEnabled", "PDisabled", "POther"}

func selValue(s int, garbage string) (string, bool) {
	switch s {
	case 0:
		return "", false
	case 1:
		return "true", true
	case 2:
		return "false", true
	case 3:
		return "", true
	}
	return garbage, true
}

type decIn struct {
	Host, NsIgn   bool
	Lbl, Anno     int
	Never, Always bool
	Pol           int
	Variant       int
}

func runDecision(d decIn) bool {
	garb := []string{"yes", "True", "1", " true", "enabled"}[d.Variant%5]
	md := metav1.ObjectMeta{Name: "p", Namespace: "app", Labels: map[string]string{"app": "x", "team": "t1"}, Annotations: map[string]string{}}
	if d.Variant%2 == 1 {
		md.Name = ""
		md.GenerateName = "p-"
	}
	if v, ok := selValue(d.Lbl, garb); ok {
		md.Labels[label.SidecarInject.Name] = v
	}
	if v, ok := selValue(d.Anno, garb); ok {
		md.Annotations[annotation.SidecarInject.Name] = v
	}
	ignored := []string{"kube-system", "kube-public"}
	if d.NsIgn {
		md.Namespace = []string{"kube-system", "kube-public"}[d.Variant%2]
	}
	cfg := &inject.Config{}
	switch d.Pol {
	case 0:
		cfg.Policy = inject.InjectionPolicyEnabled
	case 1:
		cfg.Policy = inject.InjectionPolicyDisabled
	default:
		cfg.Policy = inject.InjectionPolicy([]string{"", "off", "Enabled", "true"}[d.Variant%4])
	}
	// selectors: non-matching, empty and invalid entries are always present as decoys; a matching
	// one is added (at a variant-dependent position) iff the abstract input says so.
	decoys := []metav1.LabelSelector{
		{MatchLabels: map[string]string{"app": "other"}},
		{}, // empty selector: must be ignored
		{MatchExpressions: []metav1.LabelSelectorRequirement{{Key: "app", Operator: "Bogus", Values: []string{"x"}}}}, // invalid
	}
	matching := []metav1.LabelSelector{
		{MatchLabels: map[string]string{"app": "x"}},
		{MatchExpressions: []metav1.LabelSelectorRequirement{{Key: "team", Operator: metav1.LabelSelectorOpExists}}},
		{MatchExpressions: []metav1.LabelSelectorRequirement{{Key: "app", Operator: metav1.LabelSelectorOpIn, Values: []string{"x", "y"}}}},
	}
	mk := func(match bool) []metav1.LabelSelector {
		out := append([]metav1.LabelSelector{}, decoys...)
		if match {
			m := matching[d.Variant%3]
			pos := d.Variant % 4
			out = append(out[:pos], append([]metav1.LabelSelector{m}, out[pos:]...)...)
		}
		return out
	}
	cfg.NeverInjectSelector = mk(d.Never)
	cfg.AlwaysInjectSelector = mk(d.Always)
	spec := &corev1.PodSpec{HostNetwork: d.Host}
	return inject.VerifInjectRequired(ignored, cfg, spec, md)
}

func decTerm(id int, d decIn, obs bool) string {
	in := vlib.Rec("host_network", vlib.B(d.Host), "ns_ignored", vlib.B(d.NsIgn), "lbl", selNames[d.Lbl], "anno", selNames[d.Anno],
		"never_match", vlib.B(d.Never), "always_match", vlib.B(d.Always), "pol", polNames[d.Pol])
	return vlib.App("Decision", vlib.NI(id), in, vlib.B(obs))
}

func TestGen(t *testing.T) {
	c := vlib.NewCollector("C19", "V.C19.Run")
	c.Rule = "decision: the full abstract domain 2*2*5*5*2*2*3=1200 inputs is enumerated once per concretisation variant " +
		"(garbage strings, selector shapes/positions, ignored namespace, illegal policy strings); non-trivial = neither hostNetwork nor ignored namespace. " +
		"idempotence: generated pods x templates, injectPod applied twice; non-trivial = pod has >=1 init container or an existing istio-proxy or an override annotation."
	id := 0
	variants := vlib.Scale(3, 12)
	seed := vlib.Seed()
	bools := []bool{true, false}
	for v := 0; v < variants; v++ {
		for _, h := range bools {
			for _, n := range bools {
				for l := 0; l < 5; l++ {
					for a := 0; a < 5; a++ {
						for _, nv := range bools {
							for _, al := range bools {
								for p := 0; p < 3; p++ {
									id++
									if !c.Wanted(id) {
										continue
									}
									d := decIn{h, n, l, a, nv, al, p, v + int(seed%7)}
									var obs bool
									if pan, msg := vlib.Recover(func() { obs = runDecision(d) }); pan {
										c.Violate(vlib.Violation{ID: id, Kind: "panic", Detail: msg, Case: d})
										continue
									}
									tags := []string{"decision", "lbl=" + selNames[l], "anno=" + selNames[a], "pol=" + polNames[p]}
									if obs {
										tags = append(tags, "injected")
									}
									c.Add(vlib.Case{ID: id, Term: decTerm(id, d, obs), Tags: tags, Sample: map[string]any{"kind": "decision", "input": d, "observed": obs},
										Trivial: h || n})
								}
							}
						}
					}
				}
			}
		}
	}
	genWebhook(t, c, &id)
	genIdem(t, c, &id)
	if err := c.Flush(); err != nil {
		t.Fatal(err)
	}
}

// ---------------------------------------------------------------- idempotence with the shipped templates

type settings struct {
	cfg    *inject.Config
	values inject.ValuesConfig
	mesh   *meshconfig.MeshConfig
}

func loadSettings(t *testing.T) *settings {
	flags := []string{"installPackagePath=" + vlib.RepoDir() + "/manifests", "profile=empty", "components.pilot.enabled=true"}
	manifests, _, err := render.GenerateManifest(nil, flags, false, nil, nil)
	if err != nil {
		t.Fatalf("render: %v", err)
	}
	for _, object := range manifests {
		for _, o := range object.Manifests {
			if o.GetName() == "istio-sidecar-injector" && o.GetKind() == "ConfigMap" {
				data := o.Object["data"].(map[string]any)
				cfg, err := inject.UnmarshalConfig([]byte(data["config"].(string)))
				if err != nil {
					t.Fatal(err)
				}
				vc, err := inject.NewValuesConfig(data["values"].(string))
				if err != nil {
					t.Fatal(err)
				}
				return &settings{cfg: &cfg, values: vc, mesh: mesh.DefaultMeshConfig()}
			}
		}
	}
	t.Fatal("no injector configmap rendered")
	return nil
}

type podGen struct {
	NUser, NInit, NVol int
	NativeInit         bool // a user init container with restartPolicy Always
	ExistingProxy      bool // user-declared istio-proxy container (overrides)
	Probes             bool
	Template           string // inject.istio.io/templates annotation ("" = default)
	Native             bool   // native sidecar mode
	HoldApp            bool
	Annos              map[string]string // extra per-pod annotations that steer the template / post-processing
	Seed               uint64
}

// annotations that steer injection; values are drawn per pod
var annoChoices = []struct {
	k  string
	vs []string
}{
	{"status.sidecar.istio.io/port", []string{"15020", "15021", "16000", "0"}},
	{"sidecar.istio.io/rewriteAppHTTPProbers", []string{"true", "false"}},
	{"sidecar.istio.io/interceptionMode", []string{"REDIRECT", "TPROXY", "NONE"}},
	{"traffic.sidecar.istio.io/includeOutboundIPRanges", []string{"*", "10.0.0.0/8", ""}},
	{"traffic.sidecar.istio.io/excludeInboundPorts", []string{"22", "22,8001"}},
	{"traffic.sidecar.istio.io/excludeOutboundPorts", []string{"3306"}},
	{"sidecar.istio.io/proxyCPU", []string{"100m", "1"}},
	{"sidecar.istio.io/proxyMemoryLimit", []string{"256Mi"}},
	{"sidecar.istio.io/proxyImage", []string{"example.com/proxy:custom"}},
	{"sidecar.istio.io/logLevel", []string{"debug"}},
	{"sidecar.istio.io/bootstrapOverride", []string{"my-bootstrap"}},
	{"sidecar.istio.io/userVolume", []string{`[{"name":"uv","emptyDir":{}}]`}},
	{"sidecar.istio.io/userVolumeMount", []string{`[{"name":"uv","mountPath":"/uv"}]`}},
	{"prometheus.io/scrape", []string{"true", "false"}},
	{"prometheus.io/port", []string{"9090", "8000"}},
	{"prometheus.io/path", []string{"/metrics", "/m"}},
	{"prometheus.istio.io/merge-metrics", []string{"true", "false"}},
	{"readiness.status.sidecar.istio.io/periodSeconds", []string{"5"}},
	{"proxy.istio.io/config", []string{`{"concurrency": 3}`, `{"holdApplicationUntilProxyStarts": true}`, `{"proxyMetadata":{"A":"b"}}`, `{"statusPort": 15099}`}},
	{"istio.io/dataplane-mode", []string{"none"}},
	{"sidecar.istio.io/agentLogLevel", []string{"debug"}},
	{"inject.istio.io/templates", []string{"sidecar,spire", "sidecar"}},
}

func buildPod(g podGen) *corev1.Pod {
	r := vlib.NewRand(g.Seed)
	pod := &corev1.Pod{TypeMeta: metav1.TypeMeta{Kind: "Pod", APIVersion: "v1"},
		ObjectMeta: metav1.ObjectMeta{Name: "pod-x", Namespace: "app", Labels: map[string]string{"app": "x"}, Annotations: map[string]string{}}}
	if g.Template != "" {
		pod.Annotations["inject.istio.io/templates"] = g.Template
	}
	if g.HoldApp {
		pod.Annotations["proxy.istio.io/config"] = `{"holdApplicationUntilProxyStarts": true}`
	}
	for k, v := range g.Annos {
		if _, set := pod.Annotations[k]; !set {
			pod.Annotations[k] = v
		}
	}
	for i := 0; i < g.NUser; i++ {
		ct := corev1.Container{Name: fmt.Sprintf("app%d", i), Image: fmt.Sprintf("img%d:%d", i, r.Intn(9)),
			Command: []string{"/bin/run", fmt.Sprint(r.Intn(5))}, Args: []string{"--x", fmt.Sprint(r.Intn(100))},
			Ports: []corev1.ContainerPort{{ContainerPort: int32(8000 + r.Intn(100)), Name: fmt.Sprintf("p%d", i)}}}
		if g.Probes && i == 0 {
			ct.ReadinessProbe = &corev1.Probe{ProbeHandler: corev1.ProbeHandler{HTTPGet: &corev1.HTTPGetAction{Path: "/ready", Port: intstrPort(8000)}}}
			ct.LivenessProbe = &corev1.Probe{ProbeHandler: corev1.ProbeHandler{TCPSocket: &corev1.TCPSocketAction{Port: intstrPort(8001)}}}
		}
		pod.Spec.Containers = append(pod.Spec.Containers, ct)
	}
	if g.ExistingProxy {
		pos := 0
		if len(pod.Spec.Containers) > 0 {
			pos = r.Intn(len(pod.Spec.Containers) + 1)
		}
		px := corev1.Container{Name: "istio-proxy", Image: "auto", Resources: corev1.ResourceRequirements{}}
		pod.Spec.Containers = append(pod.Spec.Containers[:pos], append([]corev1.Container{px}, pod.Spec.Containers[pos:]...)...)
	}
	for i := 0; i < g.NInit; i++ {
		ct := corev1.Container{Name: fmt.Sprintf("init%d", i), Image: fmt.Sprintf("initimg%d", i), Command: []string{"/setup", fmt.Sprint(i)}}
		if g.NativeInit && i == 0 {
			a := corev1.ContainerRestartPolicyAlways
			ct.RestartPolicy = &a
		}
		pod.Spec.InitContainers = append(pod.Spec.InitContainers, ct)
	}
	for i := 0; i < g.NVol; i++ {
		pod.Spec.Volumes = append(pod.Spec.Volumes, corev1.Volume{Name: fmt.Sprintf("vol%d", i), VolumeSource: corev1.VolumeSource{EmptyDir: &corev1.EmptyDirVolumeSource{}}})
	}
	return pod
}

func applyPatch(t *testing.T, pod *corev1.Pod, patch []byte) *corev1.Pod {
	orig, _ := json.Marshal(pod)
	p, err := jsonpatch.DecodePatch(patch)
	if err != nil {
		t.Fatalf("decode patch: %v", err)
	}
	out, err := p.Apply(orig)
	if err != nil {
		t.Fatalf("apply patch: %v", err)
	}
	np := &corev1.Pod{}
	if err := json.Unmarshal(out, np); err != nil {
		t.Fatal(err)
	}
	return np
}

var intern = map[string]uint64{}

func in(s string) uint64 {
	if v, ok := intern[s]; ok {
		return v
	}
	intern[s] = uint64(len(intern) + 1)
	return intern[s]
}

// user-visible fields the property names: image, command, args, ports
func payloadOf(c corev1.Container) uint64 {
	b, _ := json.Marshal([]any{c.Image, c.Command, c.Args, c.Ports})
	return in(string(b))
}

// projection: (kind/name, payload) for every container, init container and volume, in order
func project(p *corev1.Pod, userOnly map[string]bool) [][2]uint64 {
	var out [][2]uint64
	for _, c := range p.Spec.InitContainers {
		if userOnly == nil || userOnly["i/"+c.Name] {
			out = append(out, [2]uint64{in("i/" + c.Name), payloadOf(c)})
		}
	}
	for _, c := range p.Spec.Containers {
		if userOnly == nil || userOnly["c/"+c.Name] {
			out = append(out, [2]uint64{in("c/" + c.Name), payloadOf(c)})
		}
	}
	for _, v := range p.Spec.Volumes {
		if userOnly == nil || userOnly["v/"+v.Name] {
			b, _ := json.Marshal(v.VolumeSource)
			out = append(out, [2]uint64{in("v/" + v.Name), in(string(b))})
		}
	}
	return out
}

// full projection used for "second injection changes nothing": whole pod JSON hashed per section
func fullProjection(p *corev1.Pod) [][2]uint64 {
	var out [][2]uint64
	add := func(k string, v any) {
		b, _ := json.Marshal(v)
		out = append(out, [2]uint64{in(k), in(string(b))})
	}
	for _, c := range p.Spec.InitContainers {
		add("i/"+c.Name, c)
	}
	for _, c := range p.Spec.Containers {
		add("c/"+c.Name, c)
	}
	for _, v := range p.Spec.Volumes {
		add("v/"+v.Name, v)
	}
	keys := make([]string, 0)
	for k := range p.Annotations {
		keys = append(keys, k)
	}
	sort.Strings(keys)
	for _, k := range keys {
		add("a/"+k, p.Annotations[k])
	}
	lk := make([]string, 0)
	for k := range p.Labels {
		lk = append(lk, k)
	}
	sort.Strings(lk)
	for _, k := range lk {
		add("l/"+k, p.Labels[k])
	}
	sc, _ := json.Marshal([]any{p.Spec.SecurityContext, p.Spec.ImagePullSecrets, p.Spec.DNSConfig})
	out = append(out, [2]uint64{in("spec/rest"), in(string(sc))})
	return out
}

func pairs(xs [][2]uint64) string {
	return vlib.ListOf(xs, func(p [2]uint64) string { return vlib.Pair(vlib.N(p[0]), vlib.N(p[1])) })
}

func genIdem(t *testing.T, c *vlib.Collector, id *int) {
	var st *settings
	r := vlib.NewRand(vlib.Seed() ^ 0xc19)
	n := vlib.Scale(200, 3000)
	tmpls := []string{"", "sidecar", "gateway", "grpc-agent", "grpc-simple"}
	for k := 0; k < n; k++ {
		*id++
		g := podGen{NUser: 1 + r.Intn(3), NInit: r.Intn(3), NVol: r.Intn(3), NativeInit: r.Chance(30), ExistingProxy: r.Chance(30),
			Probes: r.Chance(50), Template: vlib.Pick(r, tmpls), Native: r.Chance(40), HoldApp: r.Chance(30), Seed: r.SubSeed()}
		g.Annos = map[string]string{}
		for na := r.Intn(5); na > 0; na-- {
			a := annoChoices[r.Intn(len(annoChoices))]
			g.Annos[a.k] = a.vs[r.Intn(len(a.vs))]
		}
		if !c.Wanted(*id) {
			continue
		}
		if st == nil {
			if sharedSettings == nil {
				sharedSettings = loadSettings(t)
			}
			st = sharedSettings
		}
		if _, ok := st.cfg.Templates[g.Template]; g.Template != "" && !ok {
			g.Template = ""
		}
		pod := buildPod(g)
		userKeys := map[string]bool{}
		for _, ct := range pod.Spec.Containers {
			if ct.Name != "istio-proxy" {
				userKeys["c/"+ct.Name] = true
			}
		}
		for _, ct := range pod.Spec.InitContainers {
			userKeys["i/"+ct.Name] = true
		}
		for _, v := range pod.Spec.Volumes {
			userKeys["v/"+v.Name] = true
		}
		var p1, p2 *corev1.Pod
		var ierr error
		pan, msg := vlib.Recover(func() {
			patch1, err := inject.VerifInjectPod(pod.DeepCopy(), nil, st.cfg, st.values, st.mesh, g.Native)
			if err != nil {
				ierr = err
				return
			}
			p1 = applyPatch(t, pod, patch1)
			patch2, err := inject.VerifInjectPod(p1.DeepCopy(), nil, st.cfg, st.values, st.mesh, g.Native)
			if err != nil {
				ierr = err
				return
			}
			p2 = applyPatch(t, p1, patch2)
		})
		if pan {
			c.Violate(vlib.Violation{ID: *id, Kind: "panic", Detail: msg, Case: g})
			continue
		}
		if ierr != nil {
			c.Tag("idem:inject-error")
			if os.Getenv("VERIF_DEBUG") != "" {
				t.Logf("inject error %v for %+v", ierr, g)
			}
			continue
		}
		ub := project(pod, userKeys)
		ua := project(p1, userKeys)
		f1 := fullProjection(p1)
		f2 := fullProjection(p2)
		term := vlib.App("Idem", vlib.NI(*id), pairs(ub), pairs(ua), pairs(f1), pairs(f2))
		tags := []string{"idem", "tmpl=" + g.Template}
		for k := range g.Annos {
			tags = append(tags, "idem:anno="+k)
		}
		if g.ExistingProxy {
			tags = append(tags, "idem:existing-proxy")
		}
		if g.Native {
			tags = append(tags, "idem:native")
		}
		names := func(p *corev1.Pod) (o []string) {
			for _, ct := range p.Spec.InitContainers {
				o = append(o, "i/"+ct.Name)
			}
			for _, ct := range p.Spec.Containers {
				o = append(o, "c/"+ct.Name)
			}
			return
		}
		c.Add(vlib.Case{ID: *id, Term: term, Tags: tags, Trivial: !(g.NInit > 0 || g.ExistingProxy || g.HoldApp),
			Sample: map[string]any{"kind": "idem", "gen": g, "before": names(pod), "after1": names(p1), "after2": names(p2)}})
	}
}

func intstrPort(p int) intstr.IntOrString { return intstr.FromInt32(int32(p)) }


// ---------------------------------------------------------------- the decision as the webhook takes it
// Same abstract inputs, but sent as an AdmissionReview through Webhook.inject: the namespace may be only on the
// request (controller-created pods), the ignored-namespace list is the webhook's own, and "injected" is observed as
// "a patch was produced".
var sharedSettings *settings

func genWebhook(t *testing.T, c *vlib.Collector, id *int) {
	r := vlib.NewRand(vlib.Seed() ^ 0x19b)
	n := vlib.Scale(400, 4000)
	ignored := inject.IgnoredNamespaces.UnsortedList()
	sort.Strings(ignored)
	for k := 0; k < n; k++ {
		*id++
		d := decIn{Host: r.Chance(10), NsIgn: r.Chance(35), Lbl: r.Intn(5), Anno: r.Intn(5), Never: r.Chance(30), Always: r.Chance(30), Pol: r.Intn(3), Variant: r.Intn(1000)}
		nsOnRequestOnly := r.Bool()
		if !c.Wanted(*id) {
			continue
		}
		if sharedSettings == nil {
			sharedSettings = loadSettings(t)
		}
		st := sharedSettings
		garb := []string{"yes", "True", "1", " true", "enabled"}[d.Variant%5]
		ns := "app"
		if d.NsIgn {
			ns = ignored[d.Variant%len(ignored)]
		}
		pod := corev1.Pod{TypeMeta: metav1.TypeMeta{Kind: "Pod", APIVersion: "v1"},
			ObjectMeta: metav1.ObjectMeta{GenerateName: "p-", Namespace: ns, Labels: map[string]string{"app": "x", "team": "t1"}, Annotations: map[string]string{}},
			Spec:       corev1.PodSpec{HostNetwork: d.Host, Containers: []corev1.Container{{Name: "app", Image: "example.com/app:1"}}}}
		if nsOnRequestOnly {
			pod.Namespace = ""
		}
		if v, ok := selValue(d.Lbl, garb); ok {
			pod.Labels[label.SidecarInject.Name] = v
		}
		if v, ok := selValue(d.Anno, garb); ok {
			pod.Annotations[annotation.SidecarInject.Name] = v
		}
		cfg := *st.cfg
		switch d.Pol {
		case 0:
			cfg.Policy = inject.InjectionPolicyEnabled
		case 1:
			cfg.Policy = inject.InjectionPolicyDisabled
		default:
			cfg.Policy = inject.InjectionPolicy([]string{"", "off", "Enabled", "true"}[d.Variant%4])
		}
		cfg.NeverInjectSelector = nil
		cfg.AlwaysInjectSelector = nil
		if d.Never {
			cfg.NeverInjectSelector = []metav1.LabelSelector{{MatchLabels: map[string]string{"app": "other"}}, {MatchLabels: map[string]string{"app": "x"}}}
		}
		if d.Always {
			cfg.AlwaysInjectSelector = []metav1.LabelSelector{{}, {MatchExpressions: []metav1.LabelSelectorRequirement{{Key: "team", Operator: metav1.LabelSelectorOpExists}}}}
		}
		raw, _ := json.Marshal(&pod)
		var allowed, injected bool
		if pan, msg := vlib.Recover(func() { allowed, injected = inject.VerifWebhookDecide(&cfg, st.values, st.mesh, raw, ns) }); pan {
			c.Violate(vlib.Violation{ID: *id, Kind: "panic", Detail: msg, Case: d})
			continue
		}
		if !allowed {
			c.Violate(vlib.Violation{ID: *id, Kind: "oracle", Detail: "admission denied for a well-formed pod", Case: d})
			continue
		}
		tags := []string{"webhook", fmt.Sprintf("webhook:ns-on-request-only=%v", nsOnRequestOnly)}
		if injected {
			tags = append(tags, "webhook:injected")
		}
		c.Add(vlib.Case{ID: *id, Term: decTerm(*id, d, injected), Tags: tags, Trivial: d.Host,
			Sample: map[string]any{"kind": "webhook-decision", "input": d, "namespace": ns, "ns_on_request_only": nsOnRequestOnly, "observed": injected}})
	}
}
