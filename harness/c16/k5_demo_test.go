//go:build verif

package c16

import (
	"testing"

	"istio.io/istio/pkg/kube/krt"
)

// TestK5Demo is the minimal, deterministic reproducer of finding K5-moving-key-lost (public krt API only; not
// run by the driver, which selects TestGen):  go1.26.8 test -trimpath -tags verif ./c16 -run TestK5Demo -v
//
// Inputs A=(1, emits key 40) and B=(2, emits nothing).  One atomic Reset makes B emit key 40 and A emit nothing,
// listing B first.  Exactly one input produces key 40 before and after, yet the derived collection loses it.
func TestK5Demo(t *testing.T) {
	stop := make(chan struct{})
	defer close(stop)
	opts := krt.NewOptionsBuilder(stop, "k5", nil)
	emits := map[int]bool{11: true, 21: true} // program ids that emit key 40
	P := krt.NewStaticCollection[IObj](nil, nil, opts.WithName("P")...)
	D := krt.NewManyCollection[IObj, OObj](P, func(ctx krt.HandlerContext, i IObj) []OObj {
		if emits[i.Prog] {
			return []OObj{{Key: 40, Val: 7}}
		}
		return []OObj{{Key: 1000 + i.Key, Val: i.Prog}} // a private key per input, used as the barrier
	}, opts.WithName("D")...)
	D.WaitUntilSynced(stop)
	h := &rec{id: 1, cur: map[int]int{}, notify: make(chan struct{}, 1)}
	D.RegisterBatch(h.handle, true).WaitUntilSynced(stop)

	P.UpdateObject(IObj{1, 11})
	P.UpdateObject(IObj{2, 22})
	if !h.waitVal(1002, 22) || D.GetKey("40") == nil {
		t.Fatal("setup failed")
	}
	P.Reset([]IObj{{2, 21}, {1, 12}}) // B gains key 40, A loses it; B listed first
	if !h.waitVal(1001, 12) {         // A's own key is updated by the second event of the batch
		t.Fatal("batch not processed")
	}
	if D.GetKey("40") == nil {
		t.Logf("K5 reproduced: key 40 is gone although input 2 (prog 21) emits it; List=%v", D.List())
	} else {
		t.Fatalf("K5 not reproduced: %v", D.List())
	}
}
