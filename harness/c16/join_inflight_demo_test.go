//go:build verif

package c16

import (
	"strconv"
	"sync"
	"testing"

	"istio.io/istio/pkg/kube/krt"
)

// TestJoinInflightDemo (not run by the driver): probabilistic reproducer of finding join-inflight-unknown-key.
// Two sub-collections of a checked JoinCollection receive the same key at (nearly) the same time.
// join.refreshEvents consults the LIVE sub-collections, so whichever Add is processed first already sees the
// other copy: the lower-priority Add is dropped and the higher-priority Add is rewritten to an Update whose Old is
// an object no subscriber was ever told about.  go1.26.8 test -trimpath -tags verif ./c16 -run TestJoinInflightDemo -v
func TestJoinInflightDemo(t *testing.T) {
	stop := make(chan struct{})
	defer close(stop)
	opts := krt.NewOptionsBuilder(stop, "jdemo", nil)
	s0 := krt.NewStaticCollection[OObj](nil, nil, opts.WithName("s0")...)
	s1 := krt.NewStaticCollection[OObj](nil, nil, opts.WithName("s1")...)
	J := krt.JoinCollection([]krt.Collection[OObj]{s0, s1}, opts.WithName("J")...)
	J.WaitUntilSynced(stop)
	h := &rec{id: 1, cur: map[int]int{}, notify: make(chan struct{}, 1)}
	J.RegisterBatch(h.handle, true).WaitUntilSynced(stop)
	bad := 0
	const rounds = 3000
	for n := 0; n < rounds; n++ {
		k := 1000 + n
		var wg sync.WaitGroup
		wg.Add(2)
		go func() { defer wg.Done(); s0.UpdateObject(OObj{k, 1}) }()
		go func() { defer wg.Done(); s1.UpdateObject(OObj{k, 2}) }()
		wg.Wait()
	}
	// barrier: both listeners are FIFO
	s0.UpdateObject(OObj{1, 1})
	s1.UpdateObject(OObj{2, 1})
	if !h.waitVal(1, 1) || !h.waitVal(2, 1) {
		t.Fatal("barrier not seen")
	}
	first := map[int]ev{}
	for _, e := range h.take() {
		if _, ok := first[e.K]; !ok {
			first[e.K] = e
		}
	}
	for n := 0; n < rounds; n++ {
		if e := first[1000+n]; e.Typ != 0 {
			bad++
			if bad == 1 {
				t.Logf("key %s: first event a subscriber sees is type %d (1 = Update) old=%d new=%d", strconv.Itoa(e.K), e.Typ, e.Old, e.N)
			}
		}
	}
	t.Logf("%d of %d keys started with an Update of a key the subscriber did not know", bad, rounds)
	if bad == 0 {
		t.Skip("interleaving not hit in this run")
	}
}
