//go:build verif

// Package c16: correspondence harness for property C16 (krt derived collections).
//
// Every case builds a fresh REAL krt pipeline
//
//	P  = krt.NewStaticCollection[IObj]         primary inputs (key, program id)
//	S0, S1 = krt.NewStaticCollection[SObj]     fetched collections, each with a namespace index
//	D  = krt.NewManyCollection(P, transform)   transform interprets the input's program: Fetch calls with
//	                                           FilterKeys / FilterIndex / FilterLabel / FilterGeneric and output rules
//	Index(D, val mod 3), RegisterBatch handlers (one from the start, one late)
//
// and drives it with a generated history.  Determinism: krt processes events on goroutines, so a history is
// executed in "groups": the harness first parks D's queue inside the transformation of a dedicated gate input
// (a channel, no sleeping), applies the group's mutations to ONE source collection plus a bump of a barrier
// object in the same source, opens the gate and waits until every handler has received the barrier's output
// event (FIFO per listener and per queue make that a quiescence proof for this pipeline).  The gate and the
// barrier are ordinary objects of the history; the model does not special-case them.  Go map iteration order
// that matters (order in which onSecondaryDependencyEvent recomputes inputs) is observed through the order in
// which the real transformation is invoked and handed to the model.
package c16

import (
	"fmt"
	"sort"
	"strconv"
	"strings"
	"sync"
	"testing"
	"time"

	"istio.io/istio/pkg/kube/controllers"
	"istio.io/istio/pkg/kube/krt"
	istiolog "istio.io/istio/pkg/log"
	"verif/harness/vlib"
)

const (
	barKey  = 90 // barrier input in P / barrier object in S0, S1
	gateKey = 95 // gate input in P
	finding = "K5-moving-key-lost"
)

// ---------------------------------------------------------------- object types

type SObj struct {
	Key, Val, Ns, Lab int
}

func (s SObj) ResourceName() string { return strconv.Itoa(s.Key) }
func (s SObj) GetLabels() map[string]string {
	return map[string]string{"l": strconv.Itoa(s.Lab)}
}

type IObj struct{ Key, Prog int }

func (i IObj) ResourceName() string { return strconv.Itoa(i.Key) }

type OObj struct{ Key, Val int }

func (o OObj) ResourceName() string { return strconv.Itoa(o.Key) }

// ---------------------------------------------------------------- programs (transformations as data)

type Filt struct {
	Sel     int // 0 all, 1 keys, 2 index
	Keys    []int
	Ns      int
	Label   int // -1 none
	Generic int // -1 none
	Supp    int // 0 = plain Fetch; n>0 = PartialFetchComparable with projection n-1 (0 ns, 1 label, 2 value)
}
type Dep struct {
	Cid int
	F   Filt
}
type Out struct {
	Kind    int // 0 OConst, 1 OIfAny, 2 OAgg, 3 OEach
	J, K, V int
}
type Prog struct {
	Fetches []Dep
	Outs    []Out
}

func (f Filt) term() string {
	sel := "SAll"
	switch f.Sel {
	case 1:
		sel = vlib.App("SKeys", vlib.ListOf(f.Keys, vlib.NI))
	case 2:
		sel = vlib.App("SIndex", vlib.NI(f.Ns))
	}
	return vlib.Rec("f_sel", sel, "f_label", vlib.Opt(f.Label >= 0, vlib.NI(f.Label)), "f_generic", vlib.Opt(f.Generic >= 0, vlib.NI(f.Generic)),
		"f_suppress", vlib.Opt(f.Supp > 0, vlib.NI(f.Supp-1)))
}
func (d Dep) term() string { return vlib.Rec("d_id", vlib.NI(d.Cid), "d_filter", d.F.term()) }
func (o Out) term() string {
	switch o.Kind {
	case 0:
		return vlib.App("OConst", vlib.NI(o.K), vlib.NI(o.V))
	case 1:
		return vlib.App("OIfAny", vlib.Nat(o.J), vlib.NI(o.K), vlib.NI(o.V))
	case 2:
		return vlib.App("OAgg", vlib.Nat(o.J), vlib.NI(o.K))
	}
	return vlib.App("OEach", vlib.Nat(o.J), vlib.NI(o.K))
}
func (p Prog) term() string {
	return vlib.Rec("p_fetches", vlib.ListOf(p.Fetches, Dep.term), "p_outs", vlib.ListOf(p.Outs, Out.term))
}

// ---------------------------------------------------------------- recorded events

type ev struct {
	Typ       int // 0 add 1 update 2 delete
	K, Old, N int
}

func (e ev) term() string {
	switch e.Typ {
	case 0:
		return vlib.App("EAdd", vlib.NI(e.K), vlib.NI(e.N))
	case 1:
		return vlib.App("EUpd", vlib.NI(e.K), vlib.NI(e.Old), vlib.NI(e.N))
	}
	return vlib.App("EDel", vlib.NI(e.K), vlib.NI(e.Old))
}

type rec struct {
	id     int
	mu     sync.Mutex
	evs    []ev
	cur    map[int]int
	notify chan struct{}
}

func (r *rec) handle(es []krt.Event[OObj]) {
	r.mu.Lock()
	for _, e := range es {
		switch e.Event {
		case controllers.EventAdd:
			r.evs = append(r.evs, ev{0, e.New.Key, 0, e.New.Val})
			r.cur[e.New.Key] = e.New.Val
		case controllers.EventUpdate:
			r.evs = append(r.evs, ev{1, e.New.Key, e.Old.Val, e.New.Val})
			r.cur[e.New.Key] = e.New.Val
		case controllers.EventDelete:
			r.evs = append(r.evs, ev{2, e.Old.Key, e.Old.Val, 0})
			delete(r.cur, e.Old.Key)
		}
	}
	r.mu.Unlock()
	select {
	case r.notify <- struct{}{}:
	default:
	}
}

// waitVal blocks until the handler's replayed view has key k = v (event driven; the timeout only turns a
// lost event into a reported violation instead of a hang).
func (r *rec) waitVal(k, v int) bool {
	deadline := time.NewTimer(60 * time.Second)
	defer deadline.Stop()
	for {
		r.mu.Lock()
		got, ok := r.cur[k]
		r.mu.Unlock()
		if ok && got == v {
			return true
		}
		select {
		case <-r.notify:
		case <-deadline.C:
			return false
		}
	}
}
func (r *rec) take() []ev {
	r.mu.Lock()
	defer r.mu.Unlock()
	out := r.evs
	r.evs = nil
	return out
}

// ---------------------------------------------------------------- pipeline

type pipe struct {
	stop     chan struct{}
	P        krt.StaticCollection[IObj]
	S        [2]krt.StaticCollection[SObj]
	idxS     [2]krt.Index[string, SObj]
	D        krt.Collection[OObj]
	idxD     krt.Index[string, OObj]
	progs    map[int]Prog
	mu       sync.Mutex
	trace    []int
	armed    bool
	entered  chan struct{}
	release  chan struct{}
	handlers []*rec

	// mirror of the sources (only to generate sensible ops and Reset lists)
	pcur    map[int]int
	scur    [2]map[int]SObj
	barProg int
	gateP   int
	barS    [2]int
	acts    []string // Gallina ract terms
	sample  []string
	failed  string

	owned      bool // class owned: every emitted key must belong to the emitting input (H_owned instance)
	hypOwned   int  // validated instances of H_owned (one per emitted object)
	hypNoZero  int
	hypBroken  string
	secRecomp  int // inputs (other than gate/barrier) recomputed in answer to a secondary change
	movedKeys  int
	producerOf map[int]int
}

// ownerOf is the static ownership function of the owned class (Coq: owner)
func ownerOf(k int) int {
	switch {
	case k >= 200:
		return (k - 200) / 100
	case k >= 120:
		return k - 120
	case k >= 110:
		return k - 110
	case k >= 91 && k <= 93:
		return barKey
	}
	return k - 50
}

func nsName(n int) string { return "n" + strconv.Itoa(n) }

func (p *pipe) fetch(ctx krt.HandlerContext, d Dep) []SObj {
	var opts []krt.FetchOption
	switch d.F.Sel {
	case 1:
		ks := make([]string, len(d.F.Keys))
		for i, k := range d.F.Keys {
			ks[i] = strconv.Itoa(k)
		}
		opts = append(opts, krt.FilterKeys(ks...))
	case 2:
		opts = append(opts, krt.FilterIndex(p.idxS[d.Cid], nsName(d.F.Ns)))
	}
	if d.F.Label >= 0 {
		opts = append(opts, krt.FilterLabel(map[string]string{"l": strconv.Itoa(d.F.Label)}))
	}
	if d.F.Generic >= 0 {
		g := d.F.Generic
		opts = append(opts, krt.FilterGeneric(func(a any) bool { return a.(SObj).Val == g }))
	}
	var r []SObj
	if d.F.Supp > 0 {
		// PartialFetch: only the projection is visible to the transformation, and updates that leave it unchanged
		// are suppressed for this dependency
		n := d.F.Supp - 1
		r = krt.PartialFetchComparable(ctx, krt.Collection[SObj](p.S[d.Cid]), func(o SObj) SObj {
			switch n {
			case 0:
				return SObj{Key: o.Key, Ns: o.Ns}
			case 1:
				return SObj{Key: o.Key, Lab: o.Lab}
			}
			return SObj{Key: o.Key, Val: o.Val}
		}, opts...)
	} else {
		r = krt.Fetch(ctx, krt.Collection[SObj](p.S[d.Cid]), opts...)
	}
	r = append([]SObj{}, r...)
	sort.Slice(r, func(i, j int) bool { return r[i].Key < r[j].Key })
	return r
}

func (p *pipe) transform(ctx krt.HandlerContext, i IObj) []OObj {
	p.mu.Lock()
	p.trace = append(p.trace, i.Key)
	gate := p.armed && i.Key == gateKey
	if gate {
		p.armed = false
	}
	p.mu.Unlock()
	if gate {
		p.entered <- struct{}{}
		<-p.release
	}
	prog := p.progs[i.Prog]
	rs := make([][]SObj, len(prog.Fetches))
	for j, d := range prog.Fetches {
		rs[j] = p.fetch(ctx, d)
	}
	get := func(j int) []SObj {
		if j < len(rs) {
			return rs[j]
		}
		return nil
	}
	var out []OObj
	for _, o := range prog.Outs {
		switch o.Kind {
		case 0:
			out = append(out, OObj{o.K, o.V})
		case 1:
			if len(get(o.J)) > 0 {
				out = append(out, OObj{o.K, o.V})
			}
		case 2:
			a := 0
			for _, s := range get(o.J) {
				a += 1000 + s.Val
			}
			out = append(out, OObj{o.K, a})
		case 3:
			for _, s := range get(o.J) {
				out = append(out, OObj{o.K + s.Key, s.Val})
			}
		}
	}
	p.mu.Lock()
	for _, o := range out {
		if o.Key != 0 {
			p.hypNoZero++
		} else {
			p.hypBroken = "a transformation emitted key 0"
		}
		if p.owned {
			if ownerOf(o.Key) == i.Key {
				p.hypOwned++
			} else {
				p.hypBroken = fmt.Sprintf("generator bug: input %d emitted key %d owned by %d", i.Key, o.Key, ownerOf(o.Key))
			}
		}
		if prev, ok := p.producerOf[o.Key]; ok && prev != i.Key {
			p.movedKeys++
		}
		p.producerOf[o.Key] = i.Key
	}
	p.mu.Unlock()
	return out
}

func newPipe(progs map[int]Prog) *pipe {
	p := &pipe{stop: make(chan struct{}), progs: progs, entered: make(chan struct{}), release: make(chan struct{}),
		pcur: map[int]int{}, scur: [2]map[int]SObj{{}, {}}, producerOf: map[int]int{}}
	opts := krt.NewOptionsBuilder(p.stop, "c16", nil)
	for c := 0; c < 2; c++ {
		p.S[c] = krt.NewStaticCollection[SObj](nil, nil, opts.WithName("S"+strconv.Itoa(c))...)
		p.idxS[c] = krt.NewIndex[string, SObj](p.S[c], "ns", func(o SObj) []string { return []string{nsName(o.Ns)} })
	}
	p.P = krt.NewStaticCollection[IObj](nil, nil, opts.WithName("P")...)
	p.D = krt.NewManyCollection[IObj, OObj](p.P, p.transform, opts.WithName("D")...)
	p.idxD = krt.NewIndex[string, OObj](p.D, "mod", func(o OObj) []string { return []string{strconv.Itoa(o.Val % 3)} })
	p.D.WaitUntilSynced(p.stop)
	return p
}

func (p *pipe) act(term, sample string) {
	p.acts = append(p.acts, term)
	if sample != "" {
		p.sample = append(p.sample, sample)
	}
}

func (p *pipe) register(id int) {
	r := &rec{id: id, cur: map[int]int{}, notify: make(chan struct{}, 1)}
	reg := p.D.RegisterBatch(r.handle, true)
	reg.WaitUntilSynced(p.stop)
	p.handlers = append(p.handlers, r)
	p.act(vlib.App("RAct", vlib.App("ARegister", vlib.NI(id))), fmt.Sprintf("register h%d", id))
}

// ---- source mutations (each applies the real call and records the model action)

type op struct {
	Kind  int // 0 PPut 1 PDel 2 PReset 3 SPut 4 SDel
	I     IObj
	L     []IObj
	C     int
	S     SObj
	Key   int
	descr string
}

func iobjTerm(i IObj) string { return vlib.Pair(vlib.NI(i.Key), vlib.NI(i.Prog)) }

func (p *pipe) apply(o op) {
	switch o.Kind {
	case 0:
		p.P.UpdateObject(o.I)
		p.pcur[o.I.Key] = o.I.Prog
		p.act(vlib.App("RAct", vlib.App("APPut", iobjTerm(o.I))), fmt.Sprintf("P.put(%d,prog %d)", o.I.Key, o.I.Prog))
	case 1:
		p.P.DeleteObject(strconv.Itoa(o.Key))
		delete(p.pcur, o.Key)
		p.act(vlib.App("RAct", vlib.App("APDel", vlib.NI(o.Key))), fmt.Sprintf("P.del(%d)", o.Key))
	case 2:
		p.P.Reset(append([]IObj{}, o.L...))
		p.pcur = map[int]int{}
		var ds []string
		for _, i := range o.L {
			p.pcur[i.Key] = i.Prog
			ds = append(ds, fmt.Sprintf("(%d,prog %d)", i.Key, i.Prog))
		}
		p.act(vlib.App("RAct", vlib.App("APReset", vlib.ListOf(o.L, iobjTerm))), "P.reset["+strings.Join(ds, " ")+"]")
	case 3:
		p.S[o.C].UpdateObject(o.S)
		p.scur[o.C][o.S.Key] = o.S
		p.act(vlib.App("RAct", vlib.App("ASPut", vlib.NI(o.C), vlib.NI(o.S.Key),
			vlib.Rec("s_val", vlib.NI(o.S.Val), "s_ns", vlib.NI(o.S.Ns), "s_lab", vlib.NI(o.S.Lab)))),
			fmt.Sprintf("S%d.put(%d val=%d ns=%d lab=%d)", o.C, o.S.Key, o.S.Val, o.S.Ns, o.S.Lab))
	case 4:
		p.S[o.C].DeleteObject(strconv.Itoa(o.Key))
		delete(p.scur[o.C], o.Key)
		p.act(vlib.App("RAct", vlib.App("ASDel", vlib.NI(o.C), vlib.NI(o.Key))), fmt.Sprintf("S%d.del(%d)", o.C, o.Key))
	}
}

// barrier bump on source src (0 = P, 1 = S0, 2 = S1); returns the output (key, value) every handler must reach
func (p *pipe) bump(src int) (int, int) {
	if src == 0 {
		p.barProg = 900 + (p.barProg-900+1)%2
		p.apply(op{Kind: 0, I: IObj{barKey, p.barProg}})
		return 91, p.barProg - 900
	}
	c := src - 1
	p.barS[c]++
	p.apply(op{Kind: 3, C: c, S: SObj{Key: barKey, Val: p.barS[c], Ns: 9, Lab: 9}})
	return 92 + c, 1000 + p.barS[c]
}

func (p *pipe) takeTrace() []int {
	p.mu.Lock()
	defer p.mu.Unlock()
	t := p.trace
	p.trace = nil
	return t
}

func (p *pipe) observe() {
	l := p.D.List()
	sort.Slice(l, func(i, j int) bool { return l[i].Key < l[j].Key })
	probe := map[int]bool{40: true, 41: true, 51: true, 52: true, 91: true}
	for _, o := range l {
		probe[o.Key] = true
	}
	var pk []int
	for k := range probe {
		pk = append(pk, k)
	}
	sort.Ints(pk)
	gets := make([]string, 0, len(pk))
	for _, k := range pk {
		g := p.D.GetKey(strconv.Itoa(k))
		if g != nil && g.Key != k {
			p.failed = fmt.Sprintf("GetKey(%d) returned object with key %d", k, g.Key)
		}
		if g == nil {
			gets = append(gets, vlib.Pair(vlib.NI(k), "None"))
		} else {
			gets = append(gets, vlib.Pair(vlib.NI(k), vlib.Opt(true, vlib.NI(g.Val))))
		}
	}
	keysOf := func(os []OObj) string {
		ks := make([]int, len(os))
		for i, o := range os {
			ks[i] = o.Key
		}
		sort.Ints(ks)
		return vlib.ListOf(ks, vlib.NI)
	}
	var idx []string
	for n := 0; n < 3; n++ {
		idx = append(idx, vlib.Pair(vlib.NI(n), keysOf(p.idxD.Lookup(strconv.Itoa(n)))))
	}
	odd := krt.FetchOrList[OObj](nil, p.D, krt.FilterGeneric(func(a any) bool { return a.(OObj).Val%2 == 1 }))
	var hevs []string
	for _, h := range p.handlers {
		hevs = append(hevs, vlib.Pair(vlib.NI(h.id), vlib.ListOf(h.take(), ev.term)))
	}
	o := vlib.Rec("o_list", vlib.ListOf(l, func(o OObj) string { return vlib.Pair(vlib.NI(o.Key), vlib.NI(o.Val)) }),
		"o_gets", vlib.List(gets), "o_index", vlib.List(idx), "o_fetch", keysOf(odd), "o_events", vlib.List(hevs))
	var ls []string
	for _, x := range l {
		ls = append(ls, fmt.Sprintf("%d=%d", x.Key, x.Val))
	}
	p.act(vlib.App("RObs", o), "=> D={"+strings.Join(ls, " ")+"}")
}

func (p *pipe) resetList(changes []IObj, drop map[int]bool) []IObj {
	// changed inputs first (in the given order), then the untouched ones in key order
	seen := map[int]bool{}
	var out []IObj
	for _, i := range changes {
		out = append(out, i)
		seen[i.Key] = true
	}
	var rest []int
	for k := range p.pcur {
		if !seen[k] && !drop[k] {
			rest = append(rest, k)
		}
	}
	sort.Ints(rest)
	for _, k := range rest {
		out = append(out, IObj{k, p.pcur[k]})
	}
	return out
}

// ---------------------------------------------------------------- generators

func baseProgs() map[int]Prog {
	f := []Dep{{0, Filt{Sel: 1, Keys: []int{barKey}, Label: -1, Generic: -1}}, {1, Filt{Sel: 1, Keys: []int{barKey}, Label: -1, Generic: -1}}}
	return map[int]Prog{
		900: {Fetches: f, Outs: []Out{{Kind: 0, K: 91, V: 0}, {Kind: 2, J: 0, K: 92}, {Kind: 2, J: 1, K: 93}}},
		901: {Fetches: f, Outs: []Out{{Kind: 0, K: 91, V: 1}, {Kind: 2, J: 0, K: 92}, {Kind: 2, J: 1, K: 93}}},
		950: {}, 951: {},
	}
}

func genFilt(r *vlib.Rand) Filt {
	f := Filt{Label: -1, Generic: -1}
	switch r.Intn(4) {
	case 0:
		f.Sel = 0
	case 1, 2:
		f.Sel = 1
		n := 1 + r.Intn(2)
		if r.Chance(12) {
			n = 0 // FilterKeys(<empty, non-nil>): must select nothing
			f.Keys = []int{}
		}
		m := map[int]bool{}
		for len(m) < n {
			m[1+r.Intn(6)] = true
		}
		for k := range m {
			f.Keys = append(f.Keys, k)
		}
		sort.Ints(f.Keys)
	case 3:
		f.Sel = 2
		f.Ns = r.Intn(3)
	}
	if r.Chance(35) {
		f.Label = r.Intn(2)
	}
	if r.Chance(35) {
		f.Generic = r.Intn(4)
	}
	if r.Chance(20) {
		// PartialFetch, well-formed: selects only on what it projects
		f.Label, f.Generic = -1, -1
		f.Supp = 1 + r.Intn(3)
		if f.Sel == 2 {
			f.Supp = 1
		}
	}
	return f
}

// a program whose output keys all belong to input a (static ownership)
func genOwnedProg(r *vlib.Rand, a int) Prog {
	var p Prog
	nf := r.Intn(3)
	for i := 0; i < nf; i++ {
		p.Fetches = append(p.Fetches, Dep{r.Intn(2), genFilt(r)})
	}
	no := 1 + r.Intn(3)
	if r.Chance(10) {
		no = 0
	}
	for i := 0; i < no; i++ {
		k := r.Intn(4)
		if nf == 0 {
			k = 0
		}
		j := 0
		if nf > 0 {
			j = r.Intn(nf)
		}
		switch k {
		case 0:
			p.Outs = append(p.Outs, Out{Kind: 0, K: 50 + a, V: r.Intn(5)})
		case 1:
			p.Outs = append(p.Outs, Out{Kind: 1, J: j, K: []int{50, 110}[r.Intn(2)] + a, V: r.Intn(5)})
		case 2:
			p.Outs = append(p.Outs, Out{Kind: 2, J: j, K: 120 + a})
		case 3:
			p.Outs = append(p.Outs, Out{Kind: 3, J: j, K: 200 + 100*a})
		}
	}
	return p
}

func genSObj(r *vlib.Rand) SObj {
	return SObj{Key: 1 + r.Intn(6), Val: r.Intn(4), Ns: r.Intn(3), Lab: r.Intn(2)}
}

type tags map[string]bool

func (p *pipe) setup() bool {
	p.barProg, p.gateP = 900, 950
	p.register(1)
	p.apply(op{Kind: 0, I: IObj{gateKey, 950}})
	p.apply(op{Kind: 0, I: IObj{barKey, 900}})
	mark := 1 // after the register action
	for _, h := range p.handlers {
		if !h.waitVal(91, 0) || !h.waitVal(93, 0) {
			p.failed = "setup: barrier output never appeared"
			return false
		}
	}
	tr := p.takeTrace()
	acts := append([]string{}, p.acts[:mark]...)
	acts = append(acts, vlib.App("RTrace", vlib.ListOf(tr, vlib.NI)))
	acts = append(acts, p.acts[mark:]...)
	p.acts = acts
	p.act("RDrain", "")
	p.observe()
	return true
}

// random history; owned = every program of input a only emits keys of a
func genRandom(r *vlib.Rand, p *pipe, pool map[int][]int, tg tags, groups int) {
	late := r.Intn(groups)
	for g := 0; g < groups && p.failed == ""; g++ {
		if g == late {
			p.register(2)
			tg["late-handler"] = true
		}
		src := r.Intn(3)
		n := 1 + r.Intn(4)
		var ops []op
		for i := 0; i < n; i++ {
			if src == 0 {
				a := 1 + r.Intn(4)
				switch x := r.Intn(10); {
				case x < 6:
					ops = append(ops, op{Kind: 0, I: IObj{a, vlib.Pick(r, pool[a])}})
					tg["p-put"] = true
				case x < 8:
					ops = append(ops, op{Kind: 1, Key: a})
					tg["p-del"] = true
				default:
					// Reset with one or two changed inputs and possibly one dropped
					var ch []IObj
					b := 1 + r.Intn(4)
					ch = append(ch, IObj{a, vlib.Pick(r, pool[a])})
					if b != a {
						ch = append(ch, IObj{b, vlib.Pick(r, pool[b])})
					}
					drop := map[int]bool{}
					if r.Chance(40) {
						d := 1 + r.Intn(4)
						if d != a && d != b {
							drop[d] = true
						}
					}
					// apply must see the mirror as of this point: build lazily
					ops = append(ops, op{Kind: 2, L: ch, descr: "lazy", Key: func() int {
						for d := range drop {
							return d
						}
						return 0
					}()})
					tg["p-reset"] = true
				}
			} else {
				c := src - 1
				if r.Chance(75) {
					ops = append(ops, op{Kind: 3, C: c, S: genSObj(r)})
					tg["s-put"] = true
				} else {
					ops = append(ops, op{Kind: 4, C: c, Key: 1 + r.Intn(6)})
					tg["s-del"] = true
				}
			}
		}
		if n > 1 {
			tg["batched-group"] = true
		}
		p.groupWith(src, ops)
	}
}

// groupWith: gate D's queue, apply ops (all on source src: 0 = P, 1 = S0, 2 = S1) plus the barrier bump, open the
// gate, wait until every handler saw the barrier output, observe.
func (p *pipe) groupWith(src int, ops []op) bool {
	// same as group, but Reset ops marked lazy get their full list now (the mirror changes inside the group)
	mark := len(p.acts)
	p.gateP = 950 + (p.gateP-950+1)%2
	p.mu.Lock()
	p.armed = true
	p.mu.Unlock()
	p.apply(op{Kind: 0, I: IObj{gateKey, p.gateP}})
	select {
	case <-p.entered:
	case <-time.After(60 * time.Second):
		p.failed = "gate input was never recomputed"
		return false
	}
	p.act("RDeliverP", "")
	for _, o := range ops {
		if o.Kind == 2 && o.descr == "lazy" {
			drop := map[int]bool{}
			if o.Key != 0 {
				drop[o.Key] = true
			}
			o.L = p.resetList(o.L, drop)
		}
		p.apply(o)
	}
	k, v := p.bump(src)
	p.release <- struct{}{}
	for _, h := range p.handlers {
		if !h.waitVal(k, v) {
			p.failed = fmt.Sprintf("handler h%d never saw barrier output %d=%d (event lost or pipeline stuck)", h.id, k, v)
			return false
		}
	}
	tr := p.takeTrace()
	if src > 0 {
		for _, k := range tr {
			if k != gateKey && k != barKey {
				p.secRecomp++
			}
		}
	}
	acts := append([]string{}, p.acts[:mark]...)
	acts = append(acts, vlib.App("RTrace", vlib.ListOf(tr, vlib.NI)))
	acts = append(acts, p.acts[mark:]...)
	p.acts = acts
	p.act("RDrain", "")
	p.observe()
	return true
}

func progsTerm(progs map[int]Prog) string {
	var ids []int
	for k := range progs {
		ids = append(ids, k)
	}
	sort.Ints(ids)
	return vlib.ListOf(ids, func(id int) string { return vlib.Pair(vlib.NI(id), progs[id].term()) })
}

var univ = []int{1, 2, 3, 4, 5, 6, barKey}

func finish(c *vlib.Collector, id int, p *pipe, tg tags, trivial bool) {
	close(p.stop)
	if p.failed != "" {
		c.Violate(vlib.Violation{ID: id, Kind: "quiescence", Detail: p.failed, Case: p.sample})
	}
	if p.hypBroken != "" {
		c.Violate(vlib.Violation{ID: id, Kind: "hypothesis", Detail: p.hypBroken, Case: p.sample})
	}
	c.Hyp("H_owned (emitted key belongs to the emitting input; owned class)", p.hypOwned)
	c.Hyp("H_nozero (no emitted key is the zero object's key)", p.hypNoZero)
	trivial = p.secRecomp == 0 && p.movedKeys == 0
	if p.secRecomp > 0 {
		tg["secondary-change-recomputed-inputs"] = true
	}
	if p.movedKeys > 0 {
		tg["key-changed-producer"] = true
	}
	var ts []string
	for t := range tg {
		ts = append(ts, t)
	}
	sort.Strings(ts)
	term := vlib.App("Hist", vlib.NI(id), vlib.ListOf(univ, vlib.NI), progsTerm(p.progs), vlib.List(p.acts))
	c.Add(vlib.Case{ID: id, Term: term, Tags: ts, Sample: p.sample, Trivial: trivial})
}

func progTags(progs map[int]Prog, tg tags) {
	for id, p := range progs {
		if id >= 900 {
			continue
		}
		for j, d := range p.Fetches {
			if d.F.Supp > 0 {
				tg["partial-fetch"] = true
				for j2, d2 := range p.Fetches {
					if j2 != j && d2.Cid == d.Cid && d2.F.Supp == 0 {
						if j < j2 {
							tg["partial-then-full-same-collection"] = true
						} else {
							tg["full-then-partial-same-collection"] = true
						}
					}
				}
			}
			tg[[]string{"fetch-all", "fetch-keys", "fetch-index"}[d.F.Sel]] = true
			if d.F.Sel == 1 && len(d.F.Keys) == 0 {
				tg["fetch-empty-nonnil-keyset"] = true
			}
			if d.F.Label >= 0 {
				tg["filter-label"] = true
			}
			if d.F.Generic >= 0 {
				tg["filter-generic"] = true
			}
		}
		for _, o := range p.Outs {
			tg[[]string{"out-const", "out-ifany", "out-agg", "out-each"}[o.Kind]] = true
		}
	}
}

func TestGen(t *testing.T) {
	for _, s := range istiolog.Scopes() {
		s.SetOutputLevel(istiolog.NoneLevel)
	}
	c := vlib.NewCollector("C16", "V.C16.Run")
	c.Rule = "one case = one generated history on a fresh real krt pipeline (static P, S0, S1 -> NewManyCollection with a table-driven " +
		"transformation using Fetch with key/index/label/generic filters; index, early and late RegisterBatch handlers); history = gated " +
		"groups of 1-4 mutations on one source, each followed by a barrier and a full observation (List, GetKey, Index.Lookup, filtered " +
		"fetch, per-handler events). classes: owned (programs emit only keys of their own input; property must hold), moving (K5: one key " +
		"handed from input to input by an owner object or inside one Reset batch), chaos (overlapping keys; model only). non-trivial = the " +
		"history contains a secondary change that the real code answered by recomputing at least one input, or a key that changed its producing input."
	seed := vlib.Seed()
	root := vlib.NewRand(seed*1000003 + 16)
	id := 0

	// ---- class A: owned histories
	nOwned := vlib.Scale(85, 1500)
	for n := 0; n < nOwned; n++ {
		r := root.Sub()
		id++
		if !c.Wanted(id) {
			continue
		}
		progs := baseProgs()
		pool := map[int][]int{}
		for a := 1; a <= 4; a++ {
			for v := 0; v < 3; v++ {
				progs[10*a+v] = genOwnedProg(r, a)
				pool[a] = append(pool[a], 10*a+v)
			}
		}
		tg := tags{"class-owned": true}
		progTags(progs, tg)
		p := newPipe(progs)
		p.owned = true
		if p.setup() {
			genRandom(r, p, pool, tg, 6+r.Intn(6))
		}
		finish(c, id, p, tg, false)
	}

	// ---- class B1: a key moves between two inputs inside ONE Reset batch (deterministic K5 witness when the
	// gaining input is listed first)
	nB1 := vlib.Scale(8, 60)
	for n := 0; n < nB1; n++ {
		r := root.Sub()
		id++
		if !c.Wanted(id) {
			continue
		}
		progs := baseProgs()
		v1, v2 := 7, 7
		if n%3 == 2 {
			v2 = 8
		}
		progs[11] = Prog{Outs: []Out{{Kind: 0, K: 40, V: v1}}}
		progs[12] = Prog{}
		progs[21] = Prog{Outs: []Out{{Kind: 0, K: 40, V: v2}}}
		progs[22] = Prog{}
		tg := tags{"class-moving": true, "move-in-reset-batch": true}
		p := newPipe(progs)
		if p.setup() {
			p.groupWith(0, []op{{Kind: 0, I: IObj{1, 11}}, {Kind: 0, I: IObj{2, 22}}})
			flips := 2 + r.Intn(3)
			owner := 1
			for f := 0; f < flips && p.failed == ""; f++ {
				var ch []IObj
				gainFirst := n == 0 || r.Bool()
				if owner == 1 {
					ch = []IObj{{2, 21}, {1, 12}}
				} else {
					ch = []IObj{{1, 11}, {2, 22}}
				}
				if !gainFirst {
					ch[0], ch[1] = ch[1], ch[0]
				} else {
					tg["gaining-input-first"] = true
				}
				owner = 3 - owner
				p.groupWith(0, []op{{Kind: 2, L: ch, descr: "lazy"}})
			}
		}
		c.FindingOf[id] = finding
		finish(c, id, p, tg, false)
	}

	// ---- class B2: a fetched owner object decides which single input emits key 40
	nB2 := vlib.Scale(12, 120)
	for n := 0; n < nB2; n++ {
		r := root.Sub()
		id++
		if !c.Wanted(id) {
			continue
		}
		progs := baseProgs()
		ninputs := 2 + r.Intn(3)
		variant := n % 3
		for a := 1; a <= ninputs; a++ {
			f := Filt{Sel: 1, Keys: []int{1}, Label: -1, Generic: a}
			switch variant {
			case 1:
				f = Filt{Sel: 2, Ns: 1, Label: -1, Generic: a}
			case 2:
				f = Filt{Sel: 0, Label: -1, Generic: a}
			}
			val := 7
			if r.Chance(30) {
				val = 7 + a
			}
			progs[10*a] = Prog{Fetches: []Dep{{0, f}}, Outs: []Out{{Kind: 1, J: 0, K: 40, V: val}}}
		}
		tg := tags{"class-moving": true, "move-by-owner-object": true}
		progTags(progs, tg)
		p := newPipe(progs)
		if p.setup() {
			var ops []op
			for a := 1; a <= ninputs; a++ {
				ops = append(ops, op{Kind: 0, I: IObj{a, 10 * a}})
			}
			p.groupWith(0, ops)
			owner := 1
			p.groupWith(1, []op{{Kind: 3, C: 0, S: SObj{Key: 1, Val: owner, Ns: 1, Lab: 0}}})
			flips := vlib.Scale(8, 12)
			for f := 0; f < flips && p.failed == ""; f++ {
				nw := 1 + r.Intn(ninputs)
				if nw == owner {
					nw = 1 + nw%ninputs
				}
				owner = nw
				p.groupWith(1, []op{{Kind: 3, C: 0, S: SObj{Key: 1, Val: owner, Ns: 1, Lab: 0}}})
			}
		}
		c.FindingOf[id] = finding
		finish(c, id, p, tg, false)
	}

	// ---- class D: one input reads the same collection through a PartialFetch and a full Fetch (both orders);
	// most updates change only the part the projection hides
	nD := vlib.Scale(12, 200)
	for n := 0; n < nD; n++ {
		r := root.Sub()
		id++
		if !c.Wanted(id) {
			continue
		}
		progs := baseProgs()
		pool := map[int][]int{}
		for a := 1; a <= 3; a++ {
			k := 1 + r.Intn(3)
			supp := 1 + r.Intn(2) // ns or label projection: value changes are hidden
			var sel Filt
			switch r.Intn(3) {
			case 0:
				sel = Filt{Sel: 1, Keys: []int{k}, Label: -1, Generic: -1}
			case 1:
				sel = Filt{Sel: 0, Label: -1, Generic: -1}
			default:
				sel = Filt{Sel: 2, Ns: 1, Label: -1, Generic: -1}
				supp = 1
			}
			part := sel
			part.Supp = supp
			full := sel
			if r.Chance(40) {
				full.Generic = r.Intn(3) // the full fetch may also look at the value
			}
			var pr Prog
			if (n+a)%2 == 0 {
				pr = Prog{Fetches: []Dep{{0, part}, {0, full}}, Outs: []Out{{Kind: 1, J: 0, K: 50 + a, V: 1 + a}, {Kind: 2, J: 1, K: 120 + a}}}
			} else {
				pr = Prog{Fetches: []Dep{{0, full}, {0, part}}, Outs: []Out{{Kind: 1, J: 1, K: 50 + a, V: 1 + a}, {Kind: 2, J: 0, K: 120 + a}}}
			}
			if r.Chance(30) {
				pr.Outs = append(pr.Outs, Out{Kind: 3, J: 0, K: 200 + 100*a})
			}
			progs[10*a] = pr
			pool[a] = []int{10 * a}
		}
		tg := tags{"class-partial-fetch": true}
		progTags(progs, tg)
		p := newPipe(progs)
		p.owned = true
		if p.setup() {
			p.groupWith(0, []op{{Kind: 0, I: IObj{1, 10}}, {Kind: 0, I: IObj{2, 20}}, {Kind: 0, I: IObj{3, 30}}})
			groups := 8 + r.Intn(5)
			for g := 0; g < groups && p.failed == ""; g++ {
				var ops []op
				for i := 0; i < 1+r.Intn(2); i++ {
					o := SObj{Key: 1 + r.Intn(3), Val: r.Intn(4), Ns: 1, Lab: 0}
					switch x := r.Intn(10); {
					case x < 7: // value-only change (hidden from the projections)
					case x < 8:
						o.Ns = r.Intn(2)
					case x < 9:
						o.Lab = r.Intn(2)
					default:
						ops = append(ops, op{Kind: 4, C: 0, Key: o.Key})
						continue
					}
					ops = append(ops, op{Kind: 3, C: 0, S: o})
				}
				p.groupWith(1, ops)
			}
		}
		finish(c, id, p, tg, false)
	}

	// ---- class E: handlers registering (runExistingState=true) WHILE the collection processes changes
	nE := vlib.Scale(3, 12)
	for n := 0; n < nE; n++ {
		id++
		if !c.Wanted(id) {
			continue
		}
		runChurn(c, id, vlib.Scale(100, 400))
	}

	// ---- joined shapes (join_test.go)
	id = runJoinFamilies(c, root, id)

	// ---- class C: overlapping keys (outside the property's hypothesis): correspondence only
	nC := vlib.Scale(10, 150)
	for n := 0; n < nC; n++ {
		r := root.Sub()
		id++
		if !c.Wanted(id) {
			continue
		}
		progs := baseProgs()
		pool := map[int][]int{}
		for a := 1; a <= 4; a++ {
			for v := 0; v < 3; v++ {
				pr := genOwnedProg(r, 0)
				for i := range pr.Outs {
					if pr.Outs[i].Kind != 3 {
						pr.Outs[i].K = 40 + r.Intn(3)
					} else {
						pr.Outs[i].K = 200
					}
				}
				progs[10*a+v] = pr
				pool[a] = append(pool[a], 10*a+v)
			}
		}
		tg := tags{"class-chaos": true}
		progTags(progs, tg)
		p := newPipe(progs)
		if p.setup() {
			genRandom(r, p, pool, tg, 5+r.Intn(4))
		}
		finish(c, id, p, tg, false)
	}

	if err := c.Flush(); err != nil {
		t.Fatal(err)
	}
}
