//go:build verif

package c16

import (
	"fmt"
	"runtime"
	"strconv"
	"sync"
	"sync/atomic"
	"time"

	"istio.io/istio/pkg/kube/krt"
	"verif/harness/vlib"
)

// runChurn: late registration under churn.  A writer keeps bumping three inputs of D = NewCollection(P, id-like)
// while four goroutines register handlers with RegisterBatch(f, true).  Which recomputation a registration
// overlaps is up to the scheduler (schedule sampling; nothing is asserted about timing).  Every handler's stream
// goes to the Coq oracle: it must be a per-key well-formed chain starting with the initial Adds (stream_wf), and
// for the handlers kept until quiescence its replay must equal the final contents.  Most handlers are
// unregistered after a few events to keep the streams short.  On a correct krt every schedule passes.
func runChurn(c *vlib.Collector, id int, registrations int) {
	stop := make(chan struct{})
	defer close(stop)
	opts := krt.NewOptionsBuilder(stop, "c16churn", nil)
	P := krt.NewStaticCollection[IObj](nil, nil, opts.WithName("P")...)
	D := krt.NewCollection[IObj, OObj](P, func(ctx krt.HandlerContext, i IObj) *OObj {
		return &OObj{Key: i.Key, Val: i.Prog}
	}, opts.WithName("D")...)
	D.WaitUntilSynced(stop)
	const keys = 3
	for k := 1; k <= keys; k++ {
		P.UpdateObject(IObj{k, 1})
	}
	var done atomic.Bool
	var version atomic.Int64
	version.Store(1)
	var wg sync.WaitGroup
	wg.Add(1)
	go func() { // writer
		defer wg.Done()
		for n := 0; !done.Load(); n++ {
			v := int(version.Add(1))
			P.UpdateObject(IObj{1 + n%keys, v})
			if n%4 == 0 {
				runtime.Gosched()
			}
		}
	}()
	type hrec struct {
		r    *rec
		kept bool
	}
	var mu sync.Mutex
	var all []hrec
	const registrars = 4
	var rg sync.WaitGroup
	for g := 0; g < registrars; g++ {
		rg.Add(1)
		go func(g int) {
			defer rg.Done()
			for i := 0; i < registrations/registrars; i++ {
				r := &rec{id: g*100000 + i, cur: map[int]int{}, notify: make(chan struct{}, 1)}
				reg := D.RegisterBatch(r.handle, true)
				keep := i%25 == 0
				mu.Lock()
				all = append(all, hrec{r, keep})
				mu.Unlock()
				if !keep {
					// let it see a few events, then unregister (event driven, bounded)
					deadline := time.After(2 * time.Second)
				wait:
					for {
						r.mu.Lock()
						n := len(r.evs)
						r.mu.Unlock()
						if n >= keys+6 {
							break
						}
						select {
						case <-r.notify:
						case <-deadline:
							break wait
						}
					}
					reg.UnregisterHandler()
				}
			}
		}(g)
	}
	rg.Wait()
	done.Store(true)
	wg.Wait()
	// quiescence: one last write per key, every kept handler must reach it
	final := map[int]int{}
	for k := 1; k <= keys; k++ {
		v := int(version.Add(1))
		final[k] = v
		P.UpdateObject(IObj{k, v})
	}
	failed := ""
	for _, h := range all {
		if !h.kept {
			continue
		}
		for k := 1; k <= keys; k++ {
			if !h.r.waitVal(k, final[k]) {
				failed = fmt.Sprintf("kept handler %d never reached %d=%d: an event was dropped", h.r.id, k, final[k])
			}
		}
	}
	for k := 1; k <= keys; k++ {
		if g := D.GetKey(strconv.Itoa(k)); g == nil || g.Val != final[k] {
			failed = fmt.Sprintf("contents of key %d differ from the final input", k)
		}
	}
	if failed != "" {
		c.Violate(vlib.Violation{ID: id, Kind: "churn", Detail: failed})
	}
	var fin []string
	for k := 1; k <= keys; k++ {
		fin = append(fin, vlib.Pair(vlib.NI(k), vlib.NI(final[k])))
	}
	var streams []string
	nev := 0
	for _, h := range all {
		evs := h.r.take()
		nev += len(evs)
		streams = append(streams, vlib.Pair(vlib.B(h.kept), vlib.ListOf(evs, ev.term)))
	}
	c.Add(vlib.Case{ID: id, Term: vlib.App("Churn", vlib.NI(id), vlib.List(fin), vlib.List(streams)),
		Tags:   []string{"class-late-registration-under-churn"},
		Sample: fmt.Sprintf("churn: %d registrations during %d writes, %d events recorded", len(all), version.Load(), nev)})
	c.Hyp("late registrations overlapping live processing (schedule sampled)", len(all))
}
