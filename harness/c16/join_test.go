//go:build verif

package c16

import (
	"fmt"
	"sort"
	"strconv"
	"strings"
	"sync"
	"time"

	"istio.io/istio/pkg/kube/krt"
	"verif/harness/vlib"
)

// Families for the joined shapes, driving the real krt.JoinCollection (checked = conflict resolving, and
// WithJoinUnchecked) and krt.JoinWithMergeCollection over StaticCollections with overlapping keys.
// One mutation at a time: after each mutation the barrier object of the SAME sub-collection is bumped and every
// handler is awaited on it (events of one sub-collection travel through one listener, so this is a quiescence
// proof for that sub-collection; nothing else is in flight).  Observations: List, GetKey, per-handler events
// (one handler from the start, late handlers registered at quiescent points with runExistingState=true).

const (
	jChecked   = 0
	jUnchecked = 1
	jMerge     = 2
)

// mergeFn is deliberately neither the identity on one-element lists nor order-insensitive.
func mergeFn(ts []OObj) *OObj {
	acc := 0
	for _, t := range ts {
		acc = acc*10 + t.Val + 1
	}
	return &OObj{Key: ts[0].Key, Val: acc}
}

type jpipe struct {
	kind     int
	stop     chan struct{}
	subs     []krt.StaticCollection[OObj]
	J        krt.Collection[OObj]
	cur      []map[int]int
	bar      []int
	handlers []*rec
	steps    []string
	sample   []string
	failed   string
	fullDel  bool // some key lost its last holder (merge join: HEAD emits the Delete twice)
}

func newJPipe(kind, nsubs int) *jpipe {
	p := &jpipe{kind: kind, stop: make(chan struct{})}
	opts := krt.NewOptionsBuilder(p.stop, "c16join", nil)
	var cs []krt.Collection[OObj]
	for i := 0; i < nsubs; i++ {
		s := krt.NewStaticCollection[OObj](nil, nil, opts.WithName("sub"+strconv.Itoa(i))...)
		p.subs = append(p.subs, s)
		cs = append(cs, s)
		p.cur = append(p.cur, map[int]int{})
		p.bar = append(p.bar, 0)
	}
	switch kind {
	case jChecked:
		p.J = krt.JoinCollection(cs, opts.WithName("J")...)
	case jUnchecked:
		p.J = krt.JoinCollection(cs, append(opts.WithName("J"), krt.WithJoinUnchecked())...)
	case jMerge:
		p.J = krt.JoinWithMergeCollection(cs, mergeFn, opts.WithName("J")...)
	}
	p.J.WaitUntilSynced(p.stop)
	return p
}

func (p *jpipe) expectBar(i int) (int, int) {
	if p.kind == jMerge {
		return 90 + i, p.bar[i] + 1
	}
	return 90 + i, p.bar[i]
}

func (p *jpipe) sync(i int) bool {
	p.bar[i] += 2 // by two: the raw value of this bump must differ from the merged value of the previous one
	p.subs[i].UpdateObject(OObj{Key: 90 + i, Val: p.bar[i]})
	p.steps = append(p.steps, vlib.App("JPut", vlib.NI(i), vlib.NI(90+i), vlib.NI(p.bar[i])))
	k, v := p.expectBar(i)
	for _, h := range p.handlers {
		// either the merged or the raw barrier value: what the contents should be is the oracle's business
		if !h.waitVal2(k, v, p.bar[i]) {
			p.failed = fmt.Sprintf("handler h%d never saw barrier %d=%d of sub %d", h.id, k, v, i)
			return false
		}
	}
	p.observe()
	return true
}

func (p *jpipe) put(i, k, v int) bool {
	p.subs[i].UpdateObject(OObj{Key: k, Val: v})
	p.cur[i][k] = v
	p.steps = append(p.steps, vlib.App("JPut", vlib.NI(i), vlib.NI(k), vlib.NI(v)))
	p.sample = append(p.sample, fmt.Sprintf("sub%d.put(%d=%d)", i, k, v))
	return p.sync(i)
}

func (p *jpipe) del(i, k int) bool {
	if _, ok := p.cur[i][k]; ok {
		holders := 0
		for _, m := range p.cur {
			if _, f := m[k]; f {
				holders++
			}
		}
		if holders == 1 {
			p.fullDel = true
		}
	}
	p.subs[i].DeleteObject(strconv.Itoa(k))
	delete(p.cur[i], k)
	p.steps = append(p.steps, vlib.App("JDel", vlib.NI(i), vlib.NI(k)))
	p.sample = append(p.sample, fmt.Sprintf("sub%d.del(%d)", i, k))
	return p.sync(i)
}

func (p *jpipe) register(id int) {
	r := &rec{id: id, cur: map[int]int{}, notify: make(chan struct{}, 1)}
	reg := p.J.RegisterBatch(r.handle, true)
	reg.WaitUntilSynced(p.stop)
	p.handlers = append(p.handlers, r)
	p.steps = append(p.steps, vlib.App("JRegister", vlib.NI(id)))
	p.sample = append(p.sample, fmt.Sprintf("register h%d", id))
}

func (p *jpipe) observe() {
	l := p.J.List()
	sort.Slice(l, func(a, b int) bool { return l[a].Key < l[b].Key })
	var gets []string
	for k := 1; k <= 4; k++ {
		g := p.J.GetKey(strconv.Itoa(k))
		if g == nil {
			gets = append(gets, vlib.Pair(vlib.NI(k), "None"))
		} else {
			gets = append(gets, vlib.Pair(vlib.NI(k), vlib.Opt(true, vlib.NI(g.Val))))
		}
	}
	var hevs []string
	for _, h := range p.handlers {
		hevs = append(hevs, vlib.Pair(vlib.NI(h.id), vlib.ListOf(h.take(), ev.term)))
	}
	var ls []string
	for _, x := range l {
		ls = append(ls, fmt.Sprintf("%d=%d", x.Key, x.Val))
	}
	p.steps = append(p.steps, vlib.App("JObs", vlib.ListOf(l, func(o OObj) string { return vlib.Pair(vlib.NI(o.Key), vlib.NI(o.Val)) }),
		vlib.List(gets), vlib.List(hevs)))
	p.sample = append(p.sample, "=> J={"+strings.Join(ls, " ")+"}")
}

func (p *jpipe) finish(c *vlib.Collector, id int, tg []string) {
	close(p.stop)
	if p.failed != "" {
		c.Violate(vlib.Violation{ID: id, Kind: "quiescence", Detail: p.failed, Case: p.sample})
	}
	term := vlib.App("JoinHist", vlib.NI(id), vlib.NI(p.kind), vlib.NI(len(p.subs)), vlib.List(p.steps))
	c.Add(vlib.Case{ID: id, Term: term, Tags: tg, Sample: p.sample})
}

const findingInflight = "join-inflight-unknown-key"

// waitVal2 is waitVal accepting either of two values.
func (r *rec) waitVal2(k, v1, v2 int) bool {
	deadline := time.NewTimer(60 * time.Second)
	defer deadline.Stop()
	for {
		r.mu.Lock()
		got, ok := r.cur[k]
		r.mu.Unlock()
		if ok && (got == v1 || got == v2) {
			return true
		}
		select {
		case <-r.notify:
		case <-deadline.C:
			return false
		}
	}
}

// inflight: the same new key is added to two sub-collections of a checked join at the same time; the two events
// are then in flight together (schedule dependent; HEAD answers with an Update of an unknown key).
func runJoinInflight(c *vlib.Collector, id int, r *vlib.Rand) {
	p := newJPipe(jChecked, 2)
	p.register(1)
	for n := 0; n < 12 && p.failed == ""; n++ {
		k := 1 + n
		var wg sync.WaitGroup
		wg.Add(2)
		go func() { defer wg.Done(); p.subs[0].UpdateObject(OObj{Key: k, Val: 1}) }()
		go func() { defer wg.Done(); p.subs[1].UpdateObject(OObj{Key: k, Val: 2}) }()
		wg.Wait()
		p.cur[0][k], p.cur[1][k] = 1, 2
		p.steps = append(p.steps, vlib.App("JPut", vlib.NI(0), vlib.NI(k), vlib.NI(1)), vlib.App("JPut", vlib.NI(1), vlib.NI(k), vlib.NI(2)))
		p.sample = append(p.sample, fmt.Sprintf("sub0.put(%d=1) || sub1.put(%d=2)", k, k))
		// quiesce both listeners; only the second barrier is followed by an observation
		p.bar[0] += 2
		p.subs[0].UpdateObject(OObj{Key: 90, Val: p.bar[0]})
		p.steps = append(p.steps, vlib.App("JPut", vlib.NI(0), vlib.NI(90), vlib.NI(p.bar[0])))
		for _, h := range p.handlers {
			if !h.waitVal(90, p.bar[0]) {
				p.failed = "barrier of sub 0 not seen"
			}
		}
		if p.failed == "" {
			p.sync(1)
		}
	}
	c.FindingOf[id] = findingInflight
	p.finish(c, id, []string{"class-join-inflight-same-key"})
}

const findingDoubleDelete = "mergejoin-delete-emitted-twice"

// runJoinFamilies appends the join / merge-join cases; returns the next free id.
func runJoinFamilies(c *vlib.Collector, root *vlib.Rand, id int) int {
	type fam struct {
		kind, n  int
		allowDel bool
		tag      string
	}
	fams := []fam{
		{jChecked, vlib.Scale(14, 200), true, "class-join-checked"},
		{jUnchecked, vlib.Scale(4, 40), true, "class-join-unchecked"},
		{jMerge, vlib.Scale(10, 150), false, "class-mergejoin-no-full-delete"},
		{jMerge, vlib.Scale(6, 80), true, "class-mergejoin-with-full-delete"},
	}
	for _, f := range fams {
		for n := 0; n < f.n; n++ {
			r := root.Sub()
			id++
			if !c.Wanted(id) {
				continue
			}
			nsubs := 2 + r.Intn(2)
			p := newJPipe(f.kind, nsubs)
			p.register(1)
			tg := map[string]bool{f.tag: true}
			steps := 10 + r.Intn(8)
			late := 3 + r.Intn(steps-3)
			for s := 0; s < steps && p.failed == ""; s++ {
				if s == late || (s == steps-1 && len(p.handlers) < 3) {
					p.register(1 + len(p.handlers))
					tg["late-handler"] = true
				}
				i := r.Intn(nsubs)
				k := 1 + r.Intn(3)
				if f.kind == jUnchecked {
					k = 1 + i // disjoint keys: overlapping keys are outside the unchecked join's contract
				}
				_, has := p.cur[i][k]
				holders := 0
				for _, m := range p.cur {
					if _, ok := m[k]; ok {
						holders++
					}
				}
				if has && r.Chance(45) && (f.allowDel || holders > 1) {
					if holders > 1 {
						tg["delete-one-of-several-copies"] = true
						if i == 0 || func() bool {
							for j := 0; j < i; j++ {
								if _, ok := p.cur[j][k]; ok {
									return false
								}
							}
							return true
						}() {
							tg["delete-winning-copy-fallback-remains"] = true
						}
					} else {
						tg["delete-last-copy"] = true
					}
					p.del(i, k)
				} else {
					v := r.Intn(4)
					if has && p.cur[i][k] == v {
						v = (v + 1) % 4 // no no-op puts: a StaticCollection forwards them as Update(old == new)
					}
					if holders > 0 && !has {
						tg["add-overlapping-copy"] = true
					}
					p.put(i, k, v)
				}
			}
			if f.kind == jMerge && p.fullDel {
				c.FindingOf[id] = findingDoubleDelete
			}
			var ts []string
			for t := range tg {
				ts = append(ts, t)
			}
			sort.Strings(ts)
			p.finish(c, id, ts)
		}
	}
	for n := 0; n < vlib.Scale(2, 10); n++ {
		r := root.Sub()
		id++
		if c.Wanted(id) {
			runJoinInflight(c, id, r)
		}
	}
	return id
}
