//go:build verif

package c15

import (
	"fmt"
	"sort"
)

// coldPlan: the final objects of a run, written service, pod, slice, then the queue is drained.
func coldPlan(ops []Op) []Op {
	pods, slices, svcs := map[int]PodV{}, map[int]SliceV{}, map[int]SvcV{}
	for _, o := range ops {
		if o.Handle {
			continue
		}
		switch o.Kind {
		case 0:
			if o.Pod == nil {
				delete(pods, o.ID)
			} else {
				pods[o.ID] = *o.Pod
			}
		case 1:
			if o.Slice == nil {
				delete(slices, o.ID)
			} else {
				slices[o.ID] = *o.Slice
			}
		default:
			if o.Svc == nil {
				delete(svcs, o.ID)
			} else {
				svcs[o.ID] = *o.Svc
			}
		}
	}
	var plan []Op
	for _, id := range sortedKeys(svcs) {
		v := svcs[id]
		plan = append(plan, Op{Kind: 2, ID: id, Svc: &v})
	}
	for _, id := range sortedKeys(pods) {
		v := pods[id]
		plan = append(plan, Op{Kind: 0, ID: id, Pod: &v})
	}
	for _, id := range sortedKeys(slices) {
		v := slices[id]
		plan = append(plan, Op{Kind: 1, ID: id, Slice: &v})
	}
	return plan
}

const (
	findNeedResync = "C15-needresync-not-settled"
	findStaleConv  = "C15-stale-slice-conversion"
	findShard      = "C15-shard-residue"
	findPodIP      = "C15-podcache-stale-ip"
	findNode       = "C15-node-after-pod-locality"
	findNamespace  = "C15-namespace-add-not-reprocessed"
	findDup        = "C15-duplicate-endpoint-map-order"
)

// the directed witnesses are tagged by construction (input-determined); directed scenarios 7.. and the
// canonical cold starts are never tagged: the property must hold on them.
var directedFinding = map[int]string{1: findNeedResync, 2: findStaleConv, 3: findStaleConv, 4: findShard, 5: findShard, 6: findStaleConv, 23: findStaleConv, 24: findPodIP}

func canon(v any) string {
	switch m := v.(type) {
	case map[int][]int:
		s := ""
		for _, k := range sortedKeys(m) {
			s += fmt.Sprint(k, m[k], ";")
		}
		return s
	case map[int][]obsEp:
		s := ""
		for _, k := range sortedKeys(m) {
			s += fmt.Sprint(k, m[k], ";")
		}
		return s
	case map[[2]int][]obsEp:
		var ks [][2]int
		for k := range m {
			ks = append(ks, k)
		}
		sort.Slice(ks, func(i, j int) bool { return ks[i][0] < ks[j][0] || (ks[i][0] == ks[j][0] && ks[i][1] < ks[j][1]) })
		s := ""
		for _, k := range ks {
			s += fmt.Sprint(k, m[k], ";")
		}
		return s
	}
	return fmt.Sprint(v)
}

// classify names the known finding whose symptom a run shows when it is compared with the cold-started real
// controller on the same final objects: a stale endpointSliceCache entry, a needResync set that is not the
// cold-start one, or only a residue in the EndpointIndex shard / service accounts.
func classify(p planned, res result, cold *observation) string {
	if p.fam == "directed" {
		return directedFinding[p.id]
	}
	if cold == nil {
		return ""
	}
	switch {
	case canon(res.obs.ByIP) != canon(cold.ByIP) || fmt.Sprint(res.obs.IPBy) != fmt.Sprint(cold.IPBy):
		return findPodIP
	case canon(res.obs.Cache) != canon(cold.Cache):
		return findStaleConv
	case canon(res.obs.Resync) != canon(cold.Resync):
		return findNeedResync
	case canon(res.obs.Shards) != canon(cold.Shards) || canon(res.obs.SAs) != canon(cold.SAs):
		return findShard
	}
	return ""
}
