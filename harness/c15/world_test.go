//go:build verif

package c15

// Driver for the REAL kube registry controller: fake kube client, real informers, real
// registerHandlers wrappers, real handlers — only the work queue is replaced by a queue whose
// tasks are executed one by one under the harness's control (deterministic, no sleeps).

import (
	"context"
	"fmt"
	"sort"
	"strings"
	"sync"
	"time"

	corev1 "k8s.io/api/core/v1"
	discovery "k8s.io/api/discovery/v1"
	metav1 "k8s.io/apimachinery/pkg/apis/meta/v1"
	"k8s.io/apimachinery/pkg/types"

	"istio.io/api/annotation"
	meshconfig "istio.io/api/mesh/v1alpha1"
	"istio.io/istio/pilot/pkg/model"
	"istio.io/istio/pilot/pkg/serviceregistry/aggregate"
	"istio.io/istio/pilot/pkg/serviceregistry/kube/controller"
	"istio.io/istio/pkg/activenotifier"
	"istio.io/istio/pkg/cluster"
	"istio.io/istio/pkg/config/mesh/meshwatcher"
	"istio.io/istio/pkg/config/schema/kind"
	kubelib "istio.io/istio/pkg/kube"
	"istio.io/istio/pkg/kube/kclient"
	"istio.io/istio/pkg/kube/krt"
	"istio.io/istio/pkg/kube/namespace"
	"istio.io/istio/pkg/queue"
	"istio.io/istio/pkg/util/sets"
)

const (
	ns     = "ns1"
	domain = "company.com"
)

// ---------------------------------------------------------------- controlled queue

type ctlQueue struct {
	mu    sync.Mutex
	cond  *sync.Cond
	tasks []queue.Task
	total int // tasks ever pushed
}

func newCtlQueue() *ctlQueue {
	q := &ctlQueue{}
	q.cond = sync.NewCond(&q.mu)
	return q
}

func (q *ctlQueue) Push(t queue.Task) {
	q.mu.Lock()
	q.tasks = append(q.tasks, t)
	q.total++
	q.mu.Unlock()
	q.cond.Broadcast()
}
func (q *ctlQueue) Run(<-chan struct{})     {}
func (q *ctlQueue) Closed() <-chan struct{} { c := make(chan struct{}); close(c); return c }
func (q *ctlQueue) HasSynced() bool         { return true }

// waitTotal blocks until at least n tasks have ever been pushed (condition wait, with a watchdog).
func (q *ctlQueue) waitTotal(n int) error {
	// watchdog only: wakes the waiter so that it can report a framework error instead of hanging
	timer := time.AfterFunc(30*time.Second, func() { q.cond.Broadcast() })
	defer timer.Stop()
	deadline := time.Now().Add(29 * time.Second)
	q.mu.Lock()
	defer q.mu.Unlock()
	for q.total < n {
		if time.Now().After(deadline) {
			return fmt.Errorf("timed out waiting for informer event %d (have %d)", n, q.total)
		}
		q.cond.Wait()
	}
	return nil
}

func (q *ctlQueue) pending() int {
	q.mu.Lock()
	defer q.mu.Unlock()
	return len(q.tasks)
}

// step pops and runs the head task; false if the queue is empty.
func (q *ctlQueue) step() bool {
	q.mu.Lock()
	if len(q.tasks) == 0 {
		q.mu.Unlock()
		return false
	}
	t := q.tasks[0]
	q.tasks = q.tasks[1:]
	q.mu.Unlock()
	_ = t()
	return true
}

// ---------------------------------------------------------------- recording XDS updater

type emit struct {
	Reason string // "headless" | "endpoint" | other
	Kinds  []int  // per key: 0 = ServiceEntry, 1 = DNSName, 2 = Endpoints, 9 = other
	Svcs   []int
}

type recUpdater struct {
	idx   *model.FakeEndpointIndexUpdater
	emits []emit
}

func svcIDFromHost(h string) int {
	// s<i>.ns1.svc.company.com
	if !strings.HasPrefix(h, "s") {
		return 99
	}
	i := strings.Index(h, ".")
	if i < 0 {
		return 99
	}
	n := 0
	fmt.Sscanf(h[1:i], "%d", &n)
	return n
}

func (r *recUpdater) ConfigUpdate(req *model.PushRequest) {
	e := emit{Reason: "other"}
	if req.Reason.Has(model.HeadlessEndpointUpdate) {
		e.Reason = "headless"
	} else if req.Reason.Has(model.EndpointUpdate) {
		e.Reason = "endpoint"
	}
	type kv struct{ k, s int }
	var l []kv
	for k := range req.ConfigsUpdated {
		kk := 9
		switch k.Kind {
		case kind.ServiceEntry:
			kk = 0
		case kind.DNSName:
			kk = 1
		case kind.Endpoints:
			kk = 2
		}
		l = append(l, kv{kk, svcIDFromHost(k.Name)})
	}
	sort.Slice(l, func(i, j int) bool { return l[i].s < l[j].s || (l[i].s == l[j].s && l[i].k < l[j].k) })
	for _, x := range l {
		e.Kinds = append(e.Kinds, x.k)
		e.Svcs = append(e.Svcs, x.s)
	}
	r.emits = append(r.emits, e)
}
func (r *recUpdater) EDSUpdate(s model.ShardKey, h, n string, eps []*model.IstioEndpoint) {
	r.idx.EDSUpdate(s, h, n, eps)
}
func (r *recUpdater) EDSCacheUpdate(s model.ShardKey, h, n string, eps []*model.IstioEndpoint) {
	r.idx.EDSCacheUpdate(s, h, n, eps)
}
func (r *recUpdater) SvcUpdate(s model.ShardKey, h, n string, ev model.Event) {
	r.idx.SvcUpdate(s, h, n, ev)
}
func (r *recUpdater) ProxyUpdate(cluster.ID, string)                        {}
func (r *recUpdater) RemoveShard(s model.ShardKey)                          { r.idx.RemoveShard(s) }
func (r *recUpdater) PruneShard(s model.ShardKey, k map[string]sets.String) { r.idx.PruneShard(s, k) }

// ---------------------------------------------------------------- abstract objects

// PodV is one version of a pod.  IP 0 = no IP assigned; Lbl selects label app=a<Lbl>; SA = service account sa<SA>.
type PodV struct {
	IP    int
	Ready bool
	Term  bool // deletionTimestamp set
	Lbl   int
	SA    int
}

// EpV is one endpoint of a slice. Ref = -1: no targetRef, else pod id. Cond: 0 ready, 1 not ready (terminating=false), 2 terminating.
type EpV struct {
	IP   int
	Ref  int
	Cond int
}

type SliceV struct {
	Svc    int
	NPorts int // 1: port "http"; 2: ports "http","tcp"
	Eps    []EpV
}

// SvcV is one version of a service. Ports: classes 0 http, 1 tcp, 2 other (unsupported protocol name).
type SvcV struct {
	Headless   bool
	ExportNone bool
	Ports      []int // the selector is app=a<service id>
}

func ipStr(i int) string   { return fmt.Sprintf("10.0.0.%d", i) }
func podName(i int) string { return fmt.Sprintf("p%d", i) }
func slName(i int) string  { return fmt.Sprintf("e%d", i) }
func svcName(i int) string { return fmt.Sprintf("s%d", i) }
func host(i int) string    { return svcName(i) + "." + ns + ".svc." + domain }

var portNames = []string{"http", "tcp", "foo"}

func mkPod(id int, v PodV) *corev1.Pod {
	p := &corev1.Pod{
		ObjectMeta: metav1.ObjectMeta{Name: podName(id), Namespace: ns, Labels: map[string]string{"app": fmt.Sprintf("a%d", v.Lbl)}},
		Spec: corev1.PodSpec{ServiceAccountName: fmt.Sprintf("sa%d", v.SA), NodeName: "node1",
			Containers: []corev1.Container{{Name: "c", Image: "i"}}},
		Status: corev1.PodStatus{Phase: corev1.PodRunning},
	}
	if v.IP != 0 {
		p.Status.PodIP = ipStr(v.IP)
		p.Status.PodIPs = []corev1.PodIP{{IP: ipStr(v.IP)}}
	} else {
		p.Status.Phase = corev1.PodPending
	}
	st := corev1.ConditionFalse
	if v.Ready {
		st = corev1.ConditionTrue
	}
	p.Status.Conditions = []corev1.PodCondition{{Type: corev1.PodReady, Status: st}}
	if v.Term {
		t := metav1.NewTime(time.Unix(1700000000, 0))
		p.DeletionTimestamp = &t
		p.Finalizers = []string{"verif/keep"}
	}
	return p
}

func mkSlice(id int, v SliceV) *discovery.EndpointSlice {
	s := &discovery.EndpointSlice{
		ObjectMeta:  metav1.ObjectMeta{Name: slName(id), Namespace: ns, Labels: map[string]string{discovery.LabelServiceName: svcName(v.Svc)}},
		AddressType: discovery.AddressTypeIPv4,
	}
	for i := 0; i < v.NPorts; i++ {
		n := portNames[i]
		num := int32(8080 + i)
		s.Ports = append(s.Ports, discovery.EndpointPort{Name: &n, Port: &num})
	}
	for _, e := range v.Eps {
		t, f := true, false
		ep := discovery.Endpoint{Addresses: []string{ipStr(e.IP)}}
		switch e.Cond {
		case 0:
			ep.Conditions = discovery.EndpointConditions{Ready: &t, Serving: &t, Terminating: &f}
		case 1:
			ep.Conditions = discovery.EndpointConditions{Ready: &f, Serving: &f, Terminating: &f}
		default:
			ep.Conditions = discovery.EndpointConditions{Ready: &f, Serving: &t, Terminating: &t}
		}
		if e.Ref >= 0 {
			ep.TargetRef = &corev1.ObjectReference{Kind: "Pod", Name: podName(e.Ref), Namespace: ns}
		}
		s.Endpoints = append(s.Endpoints, ep)
	}
	return s
}

func mkSvc(id int, v SvcV) *corev1.Service {
	s := &corev1.Service{
		ObjectMeta: metav1.ObjectMeta{Name: svcName(id), Namespace: ns},
		Spec: corev1.ServiceSpec{Type: corev1.ServiceTypeClusterIP, ClusterIP: fmt.Sprintf("10.1.0.%d", id+1),
			Selector: map[string]string{"app": fmt.Sprintf("a%d", id)}},
	}
	if v.Headless {
		s.Spec.ClusterIP = corev1.ClusterIPNone
	}
	if v.ExportNone {
		s.Annotations = map[string]string{annotation.NetworkingExportTo.Name: "~"}
	}
	for i, c := range v.Ports {
		s.Spec.Ports = append(s.Spec.Ports, corev1.ServicePort{Name: fmt.Sprintf("%s-%d", portNames[c], i), Port: int32(80 + i), Protocol: corev1.ProtocolTCP})
	}
	return s
}

// ---------------------------------------------------------------- world

type world struct {
	c        *controller.Controller
	client   kubelib.Client
	q        *ctlQueue
	up       *recUpdater
	index    *model.EndpointIndex
	stop     chan struct{}
	pods     kclient.Client[*corev1.Pod]
	have     map[string]bool // kind/id -> exists in the API
	pushed   int             // informer events expected so far
	requeued []int           // slice ids re-queued by addPod since last reset
}

func newWorld() *world { return newWorldSys("") }

// newWorldSys builds a controller with Options.SystemNamespace set ("" = none).
func newWorldSys(sysNS string) *world {
	w := &world{q: newCtlQueue(), stop: make(chan struct{}), have: map[string]bool{}}
	w.index = model.NewEndpointIndex(model.DisabledCache{})
	w.up = &recUpdater{idx: model.NewEndpointIndexUpdater(w.index)}
	w.client = kubelib.NewFakeClient()
	mw := meshwatcher.NewTestWatcher(&meshconfig.MeshConfig{TrustDomain: "cluster.local"})
	f := namespace.NewDiscoveryNamespacesFilter(kclient.New[*corev1.Namespace](w.client), mw, w.stop)
	kubelib.SetObjectFilter(w.client, f)
	msc := aggregate.NewController(aggregate.Options{MeshHolder: mw})
	opts := controller.Options{
		DomainSuffix: domain, XDSUpdater: w.up, Metrics: &model.Environment{}, MeshWatcher: mw,
		ClusterID: w.client.ClusterID(), MeshServiceController: msc,
		StatusWritingEnabled: activenotifier.New(false), KrtDebugger: new(krt.DebugHandler),
		SystemNamespace: sysNS,
	}
	w.c = controller.NewController(w.client, opts)
	w.c.VerifSetQueue(w.q)
	w.c.VerifTapRequeue(func(k types.NamespacedName) {
		n := 0
		fmt.Sscanf(k.Name, "e%d", &n)
		w.requeued = append(w.requeued, n)
	})
	w.client.RunAndWait(w.stop)
	return w
}

func (w *world) close() {
	close(w.stop)
	w.client.Shutdown()
}

// write applies one API write (v == nil: delete) and waits until the controller's informer handler has
// pushed the corresponding event into the work queue. Returns the event type: 0 add, 1 update, 2 delete.
func (w *world) write(kindID int, id int, obj any) (int, error) {
	ctx := context.Background()
	key := fmt.Sprintf("%d/%d", kindID, id)
	ev := 0
	var err error
	k := w.client.Kube()
	switch kindID {
	case 0: // pod
		if obj == nil {
			ev = 2
			// remove finalizers first is unnecessary with the fake tracker
			err = k.CoreV1().Pods(ns).Delete(ctx, podName(id), metav1.DeleteOptions{})
		} else if w.have[key] {
			ev = 1
			_, err = k.CoreV1().Pods(ns).Update(ctx, obj.(*corev1.Pod), metav1.UpdateOptions{})
		} else {
			_, err = k.CoreV1().Pods(ns).Create(ctx, obj.(*corev1.Pod), metav1.CreateOptions{})
		}
	case 1: // slice
		if obj == nil {
			ev = 2
			err = k.DiscoveryV1().EndpointSlices(ns).Delete(ctx, slName(id), metav1.DeleteOptions{})
		} else if w.have[key] {
			ev = 1
			_, err = k.DiscoveryV1().EndpointSlices(ns).Update(ctx, obj.(*discovery.EndpointSlice), metav1.UpdateOptions{})
		} else {
			_, err = k.DiscoveryV1().EndpointSlices(ns).Create(ctx, obj.(*discovery.EndpointSlice), metav1.CreateOptions{})
		}
	default: // service
		if obj == nil {
			ev = 2
			err = k.CoreV1().Services(ns).Delete(ctx, svcName(id), metav1.DeleteOptions{})
		} else if w.have[key] {
			ev = 1
			_, err = k.CoreV1().Services(ns).Update(ctx, obj.(*corev1.Service), metav1.UpdateOptions{})
		} else {
			_, err = k.CoreV1().Services(ns).Create(ctx, obj.(*corev1.Service), metav1.CreateOptions{})
		}
	}
	if err != nil {
		return ev, err
	}
	w.have[key] = obj != nil
	w.pushed++
	return ev, w.q.waitTotal(w.pushed)
}

// handle runs the head of the work queue; returns the slices re-queued by it (in push order).
func (w *world) handle() (ran bool, spawned []int) {
	w.requeued = nil
	ran = w.q.step()
	spawned = w.requeued
	w.pushed += len(spawned)
	return
}

// ---------------------------------------------------------------- observation

type obsEp struct{ IP, Port, SA, Lbl, Health int }

type observation struct {
	Services [][]int            // per service: id, headless, exportNone, ports...
	ByIP     map[int][]int      // ip -> pod ids
	IPBy     map[int]int        // pod -> ip
	Resync   map[int][]int      // ip -> slice ids
	Cache    map[[2]int][]obsEp // (svc, slice) -> endpoints in build order
	Shards   map[int][]obsEp    // svc -> sorted endpoints of the registry's shard
	SAs      map[int][]int      // svc -> service account ids
	Emits    []emit
}

func atoiTail(s string, prefix string) int {
	n := -1
	i := strings.LastIndex(s, prefix)
	if i >= 0 {
		fmt.Sscanf(s[i+len(prefix):], "%d", &n)
	}
	return n
}

func ipIdx(ip string) int { return atoiTail(ip, "10.0.0.") }

func projEp(e *model.IstioEndpoint) obsEp {
	o := obsEp{IP: ipIdx(e.FirstAddressOrNil()), Health: int(e.HealthStatus)}
	for i, n := range portNames {
		if e.ServicePortName == n {
			o.Port = i
		}
	}
	if e.ServiceAccount != "" {
		o.SA = atoiTail(e.ServiceAccount, "/sa/sa")
	}
	if a, ok := e.Labels["app"]; ok {
		o.Lbl = atoiTail(a, "a") + 1
	}
	return o
}

func sortEps(l []obsEp) {
	sort.Slice(l, func(i, j int) bool {
		a, b := l[i], l[j]
		if a.IP != b.IP {
			return a.IP < b.IP
		}
		if a.Port != b.Port {
			return a.Port < b.Port
		}
		if a.SA != b.SA {
			return a.SA < b.SA
		}
		if a.Lbl != b.Lbl {
			return a.Lbl < b.Lbl
		}
		return a.Health < b.Health
	})
}

func (w *world) observe() observation {
	o := observation{ByIP: map[int][]int{}, IPBy: map[int]int{}, Resync: map[int][]int{}, Cache: map[[2]int][]obsEp{},
		Shards: map[int][]obsEp{}, SAs: map[int][]int{}}
	for _, s := range w.c.Services() {
		row := []int{svcIDFromHost(string(s.Hostname)), 0, 0}
		if s.Resolution == model.Passthrough {
			row[1] = 1
		}
		if s.Attributes.ExportTo.Contains("~") {
			row[2] = 1
		}
		for _, p := range s.Ports {
			switch {
			case p.Protocol.IsHTTP():
				row = append(row, 0)
			case p.Protocol.IsTCP():
				row = append(row, 1)
			default:
				row = append(row, 2)
			}
		}
		o.Services = append(o.Services, row)
	}
	sort.Slice(o.Services, func(i, j int) bool { return o.Services[i][0] < o.Services[j][0] })
	d := w.c.VerifPodCache()
	for ip, l := range d.PodsByIP {
		for _, k := range l {
			o.ByIP[ipIdx(ip)] = append(o.ByIP[ipIdx(ip)], atoiTail(k, "/p"))
		}
		sort.Ints(o.ByIP[ipIdx(ip)])
	}
	for k, ip := range d.IPByPods {
		o.IPBy[atoiTail(k, "/p")] = ipIdx(ip)
	}
	for ip, l := range d.NeedResync {
		for _, k := range l {
			o.Resync[ipIdx(ip)] = append(o.Resync[ipIdx(ip)], atoiTail(k, "/e"))
		}
		sort.Ints(o.Resync[ipIdx(ip)])
	}
	for h, m := range w.c.VerifSliceCache() {
		for s, eps := range m {
			k := [2]int{svcIDFromHost(h), atoiTail(s, "e")}
			l := []obsEp{}
			for _, e := range eps {
				l = append(l, projEp(e))
			}
			o.Cache[k] = l
		}
	}
	for h, byNs := range w.index.Shardz() {
		for _, sh := range byNs {
			id := svcIDFromHost(h)
			l := []obsEp{}
			for _, eps := range sh.Shards {
				for _, e := range eps {
					l = append(l, projEp(e))
				}
			}
			sortEps(l)
			o.Shards[id] = l
			sas := []int{}
			for sa := range sh.ServiceAccounts {
				sas = append(sas, atoiTail(sa, "/sa/sa"))
			}
			sort.Ints(sas)
			o.SAs[id] = sas
		}
	}
	o.Emits = w.up.emits
	return o
}
