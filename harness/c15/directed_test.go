//go:build verif

package c15

func wp(id int, v PodV) Op       { return Op{Kind: 0, ID: id, Pod: &v} }
func wsl(id int, v SliceV) Op    { return Op{Kind: 1, ID: id, Slice: &v} }
func wsv(id int, v SvcV) Op      { return Op{Kind: 2, ID: id, Svc: &v} }
func del(kind, id int) Op        { return Op{Kind: kind, ID: id} }
func hd() Op                     { return Op{Handle: true} }
func drain() Op                  { return Op{Handle: true, Kind: -1} }
func ready(ip, lbl, sa int) PodV { return PodV{IP: ip, Ready: true, Lbl: lbl, SA: sa} }

// directed scenarios; ids 1.. in this order (the first ones are the witnesses used in coq/C15/Props.v)
func directed() [][]Op {
	clusterIP := SvcV{Ports: []int{0}}
	one := func(svc, ip, ref, cond int) SliceV {
		return SliceV{Svc: svc, NPorts: 1, Eps: []EpV{{IP: ip, Ref: ref, Cond: cond}}}
	}
	return [][]Op{
		// 1: endpoint before its pod, the pod arrives not ready (publishNotReadyAddresses-style ready endpoint)
		{wsv(0, clusterIP), drain(), wsl(0, one(0, 1, 0, 0)), drain(), wp(0, PodV{IP: 1, Ready: false, SA: 1}), drain()},
		// 2: slice handled before its service: a terminating endpoint is cached as UnHealthy instead of Terminating
		{wp(0, ready(1, 0, 1)), drain(), wsl(0, one(0, 1, 0, 2)), drain(), wsv(0, clusterIP), drain()},
		// 3: endpoint without targetRef handled before the pod event: built without pod metadata, never repaired
		{wsv(0, clusterIP), drain(), wsl(0, one(0, 4, -1, 0)), drain(), wp(3, ready(4, 0, 1)), drain()},
		// 4: the last endpoint goes away: EndpointShards keeps the old service accounts
		{wsv(0, clusterIP), wp(0, ready(1, 0, 1)), wsl(0, one(0, 1, 0, 0)), drain(), wsl(0, SliceV{Svc: 0, NPorts: 1}), drain()},
		// 5: service deleted while its slice remains
		{wsv(0, clusterIP), wp(0, ready(1, 0, 1)), wsl(0, one(0, 1, 0, 0)), drain(), del(2, 0), drain()},
		// 6: pod label edit while the pod is listed by a slice of a service that does not select the new label
		{wsv(0, clusterIP), wp(0, ready(1, 0, 1)), wsl(0, one(0, 1, 0, 0)), drain(), wp(0, ready(1, 1, 1)), drain()},
		// 7: happy path, canonical order
		{wsv(0, clusterIP), drain(), wp(0, ready(1, 0, 1)), drain(), wsl(0, one(0, 1, 0, 0)), drain()},
		// 8: endpoint before pod, pod arrives ready: remembered and re-queued
		{wsv(0, clusterIP), drain(), wsl(0, one(0, 1, 0, 0)), drain(), wp(0, ready(1, 0, 1)), drain()},
		// 9: IP reuse by a new pod
		{wsv(0, clusterIP), wp(0, ready(1, 0, 1)), wsl(0, one(0, 1, 0, 0)), drain(), del(0, 0), wp(1, ready(1, 0, 2)), wsl(0, one(0, 1, 1, 0)), drain()},
		// 10: IP reuse, new pod's event handled before the old pod's delete
		{wsv(0, clusterIP), wp(0, ready(1, 0, 1)), wsl(0, one(0, 1, 0, 0)), drain(), wp(1, ready(1, 0, 2)), hd(), del(0, 0), wsl(0, one(0, 1, 1, 0)), drain()},
		// 11: headless service with an unsupported-protocol port: endpoint change must emit a ServiceEntry key
		{wsv(0, SvcV{Headless: true, Ports: []int{2}}), wp(0, ready(1, 0, 1)), drain(), wsl(0, one(0, 1, 0, 0)), drain()},
		// 12: headless pure-HTTP service: DNSName key only
		{wsv(0, SvcV{Headless: true, Ports: []int{0, 0}}), wp(0, ready(1, 0, 1)), drain(), wsl(0, one(0, 1, 0, 0)), drain()},
		// 13: headless http+tcp
		{wsv(0, SvcV{Headless: true, Ports: []int{0, 1}}), wp(0, ready(1, 0, 1)), drain(), wsl(0, one(0, 1, 0, 0)), drain()},
		// 14: same address in two slices, endpoint before pod: both slices remembered and re-queued
		{wsv(0, clusterIP), wsl(0, one(0, 1, 0, 0)), wsl(1, one(0, 1, 0, 0)), drain(), wp(0, ready(1, 0, 1)), drain()},
		// 15: address moves between slices
		{wsv(0, clusterIP), wp(0, ready(1, 0, 1)), wsl(0, one(0, 1, 0, 0)), wsl(1, SliceV{Svc: 0, NPorts: 1}), drain(),
			wsl(1, one(0, 1, 0, 0)), hd(), wsl(0, SliceV{Svc: 0, NPorts: 1}), drain()},
		// 16: eviction: the failing update also drops the IP
		{wsv(0, clusterIP), wp(0, ready(1, 0, 1)), wsl(0, one(0, 1, 0, 0)), drain(), wp(0, PodV{IP: 0, SA: 1}), drain()},
		// 17: label edit on a selected pod (service s1 selects app=a1)
		{wsv(1, clusterIP), wp(0, ready(1, 0, 1)), wsl(0, one(1, 1, 0, 0)), drain(), wp(0, ready(1, 1, 1)), drain()},
		// 18: exportTo none
		{wsv(0, SvcV{ExportNone: true, Ports: []int{0}}), wp(0, ready(1, 0, 1)), wsl(0, one(0, 1, 0, 0)), drain()},
		// 19: endpoint removed from a slice while waiting for its pod (cleanupRemovedEndpoints)
		{wsv(0, clusterIP), wsl(0, one(0, 1, 0, 0)), drain(), wsl(0, SliceV{Svc: 0, NPorts: 1}), drain(), wp(0, ready(1, 0, 1)), drain()},
		// 20: slice deleted while waiting for its pod
		{wsv(0, clusterIP), wsl(0, one(0, 1, 0, 0)), drain(), del(1, 0), drain(), wp(0, ready(1, 0, 1)), drain()},
		// 21: endpoint removed from a slice while waiting for a pod that never arrives: nothing may stay in needResync
		{wsv(0, clusterIP), wsl(0, one(0, 1, 0, 0)), drain(), wsl(0, SliceV{Svc: 0, NPorts: 1}), drain()},
		// 22: same, the slice is deleted
		{wsv(0, clusterIP), wsl(0, one(0, 1, 0, 0)), drain(), del(1, 0), drain()},
		// 23: label edit on a NOT-ready pod that the service selects (PodCache.onEvent takes the delete branch: no recompute)
		{wsv(1, clusterIP), wp(0, PodV{IP: 1, Ready: false, Lbl: 0, SA: 1}), wsl(0, one(1, 1, 0, 1)), drain(),
			wp(0, PodV{IP: 1, Ready: false, Lbl: 1, SA: 1}), drain()},
		// 24: one pod update changes the IP and loses readiness: deleteIP(new ip) misses, the old IP entry stays
		{wp(0, ready(1, 0, 1)), drain(), wp(0, PodV{IP: 2, Ready: false, Lbl: 0, SA: 1}), drain()},
		// 25: the same IP change while staying ready is handled (addPod cleans the old entry)
		{wp(0, ready(1, 0, 1)), drain(), wp(0, ready(2, 0, 1)), drain()},
	}
}

// classify maps a run to the known finding whose symptom it shows (filled in findings_test.go).
