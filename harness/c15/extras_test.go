//go:build verif

package c15

// Order dependencies that involve objects outside the Coq model (Node, Namespace) or Go map order.
// They are probed on the real controller only; a divergence from the cold-start order is reported
// as a harness violation carrying the id of the known finding.

import (
	"context"
	"fmt"
	"sort"

	corev1 "k8s.io/api/core/v1"
	metav1 "k8s.io/apimachinery/pkg/apis/meta/v1"

	"istio.io/api/annotation"
	"verif/harness/vlib"
)

func (w *world) writeNode(name string, labels map[string]string) error {
	n := &corev1.Node{ObjectMeta: metav1.ObjectMeta{Name: name, Labels: labels}}
	if _, err := w.client.Kube().CoreV1().Nodes().Create(context.Background(), n, metav1.CreateOptions{}); err != nil {
		return err
	}
	w.pushed++
	return w.q.waitTotal(w.pushed)
}

func (w *world) writeNamespace(name string, ann map[string]string) error {
	n := &corev1.Namespace{ObjectMeta: metav1.ObjectMeta{Name: name, Annotations: ann}}
	if _, err := w.client.Kube().CoreV1().Namespaces().Create(context.Background(), n, metav1.CreateOptions{}); err != nil {
		return err
	}
	w.pushed++
	return w.q.waitTotal(w.pushed)
}

func (w *world) drainAll() {
	for i := 0; i < 500; i++ {
		if ran, _ := w.handle(); !ran {
			return
		}
	}
}

func (w *world) localities() []string {
	var out []string
	for h, m := range w.c.VerifSliceCache() {
		for s, eps := range m {
			for _, e := range eps {
				out = append(out, fmt.Sprintf("%s/%s/%s=%q", h, s, e.FirstAddressOrNil(), e.Locality.Label))
			}
		}
	}
	sort.Strings(out)
	return out
}

func (w *world) trafficDistribution() []string {
	var out []string
	for _, s := range w.c.Services() {
		out = append(out, fmt.Sprintf("%s=%v", s.Hostname, s.Attributes.TrafficDistribution))
	}
	return out
}

// nodeProbe: the Node of a pod arrives after the pod's endpoints were built (order = 1) or before (order = 0).
func nodeProbe(nodeFirst bool) ([]string, error) {
	w := newWorld()
	defer w.close()
	lbl := map[string]string{"topology.kubernetes.io/region": "r1", "topology.kubernetes.io/zone": "z1"}
	if nodeFirst {
		if err := w.writeNode("node1", lbl); err != nil {
			return nil, err
		}
	}
	for _, o := range []Op{wsv(0, SvcV{Ports: []int{0}}), wp(0, ready(1, 0, 1)), wsl(0, SliceV{Svc: 0, NPorts: 1, Eps: []EpV{{IP: 1, Ref: 0}}})} {
		var obj any
		switch {
		case o.Pod != nil:
			obj = mkPod(o.ID, *o.Pod)
		case o.Slice != nil:
			obj = mkSlice(o.ID, *o.Slice)
		default:
			obj = mkSvc(o.ID, *o.Svc)
		}
		if _, err := w.write(o.Kind, o.ID, obj); err != nil {
			return nil, err
		}
	}
	w.drainAll()
	if !nodeFirst {
		if err := w.writeNode("node1", lbl); err != nil {
			return nil, err
		}
		w.drainAll()
	}
	return w.localities(), nil
}

// namespaceProbe: the Namespace (with the traffic-distribution annotation) arrives after / before its Service.
func namespaceProbe(nsFirst bool) ([]string, error) {
	w := newWorld()
	defer w.close()
	ann := map[string]string{annotation.NetworkingTrafficDistribution.Name: "PreferClose"}
	if nsFirst {
		if err := w.writeNamespace(ns, ann); err != nil {
			return nil, err
		}
		w.drainAll()
	}
	if _, err := w.write(2, 0, mkSvc(0, SvcV{Ports: []int{0}})); err != nil {
		return nil, err
	}
	w.drainAll()
	if !nsFirst {
		if err := w.writeNamespace(ns, ann); err != nil {
			return nil, err
		}
		w.drainAll()
	}
	return w.trafficDistribution(), nil
}

// dupProbe: the same (address, port) in two slices of one service with different conditions; which one is
// published is decided by Go map iteration in endpointSliceCache.get. Returns the distinct shard contents seen.
func dupProbe(runs int) (map[string]int, error) {
	seen := map[string]int{}
	for i := 0; i < runs; i++ {
		w := newWorld()
		for _, o := range []Op{wsv(0, SvcV{Ports: []int{0}}), wp(0, ready(1, 0, 1)),
			wsl(0, SliceV{Svc: 0, NPorts: 1, Eps: []EpV{{IP: 1, Ref: 0, Cond: 0}}}),
			wsl(1, SliceV{Svc: 0, NPorts: 1, Eps: []EpV{{IP: 1, Ref: 0, Cond: 2}}})} {
			var obj any
			switch {
			case o.Pod != nil:
				obj = mkPod(o.ID, *o.Pod)
			case o.Slice != nil:
				obj = mkSlice(o.ID, *o.Slice)
			default:
				obj = mkSvc(o.ID, *o.Svc)
			}
			if _, err := w.write(o.Kind, o.ID, obj); err != nil {
				w.close()
				return nil, err
			}
		}
		w.drainAll()
		seen[fmt.Sprint(w.observe().Shards)]++
		w.close()
	}
	return seen, nil
}

// networks: "host/slice/address=network|locality" of every cached endpoint plus the published shard endpoints.
func (w *world) networks() []string {
	var out []string
	for h, m := range w.c.VerifSliceCache() {
		for s, eps := range m {
			for _, e := range eps {
				out = append(out, fmt.Sprintf("cache %s/%s/%s=%q|%q", h, s, e.FirstAddressOrNil(), e.Network, e.Locality.Label))
			}
		}
	}
	for h, byNs := range w.index.Shardz() {
		for _, sh := range byNs {
			for _, eps := range sh.Shards {
				for _, e := range eps {
					out = append(out, fmt.Sprintf("shard %s/%s=%q|%q", h, e.FirstAddressOrNil(), e.Network, e.Locality.Label))
				}
			}
		}
	}
	sort.Strings(out)
	return out
}

const sysNS = "istio-system"

// sysNamespaceProbe: the system namespace (label topology.istio.io/network=net1) is added at position pos among the
// writes Service, Pod, slice (pos 0 = first = cold-start order, 3 = last); ahead = all writes reach the informers
// before any handler runs. Returns the endpoint networks after draining.
func sysNamespaceProbe(pos int, ahead bool) ([]string, error) {
	w := newWorldSys(sysNS)
	defer w.close()
	objs := []Op{wsv(0, SvcV{Ports: []int{0}}), wp(0, ready(1, 0, 1)), wsl(0, SliceV{Svc: 0, NPorts: 1, Eps: []EpV{{IP: 1, Ref: 0}}})}
	for i := 0; i <= len(objs); i++ {
		if i == pos {
			n := &corev1.Namespace{ObjectMeta: metav1.ObjectMeta{Name: sysNS, Labels: map[string]string{"topology.istio.io/network": "net1"}}}
			if _, err := w.client.Kube().CoreV1().Namespaces().Create(context.Background(), n, metav1.CreateOptions{}); err != nil {
				return nil, err
			}
			w.pushed += 2 // two namespace handlers are registered when SystemNamespace is set
			if err := w.q.waitTotal(w.pushed); err != nil {
				return nil, err
			}
			if !ahead {
				w.drainAll()
			}
		}
		if i == len(objs) {
			break
		}
		o := objs[i]
		var obj any
		switch {
		case o.Pod != nil:
			obj = mkPod(o.ID, *o.Pod)
		case o.Slice != nil:
			obj = mkSlice(o.ID, *o.Slice)
		default:
			obj = mkSvc(o.ID, *o.Svc)
		}
		if _, err := w.write(o.Kind, o.ID, obj); err != nil {
			return nil, err
		}
		if !ahead {
			w.drainAll()
		}
	}
	w.drainAll()
	return w.networks(), nil
}

const extraBase = 9000

func runExtras(c *vlib.Collector) error {
	if c.Wanted(extraBase + 1) {
		late, err := nodeProbe(false)
		if err != nil {
			return err
		}
		cold, err := nodeProbe(true)
		if err != nil {
			return err
		}
		c.Tag("extra:node-after-pod")
		if fmt.Sprint(late) != fmt.Sprint(cold) {
			c.Violate(vlib.Violation{ID: extraBase + 1, Kind: "oracle", Finding: findNode,
				Detail: fmt.Sprintf("endpoint locality with the Node handled after the pod's slice: %v; cold start (Node first): %v", late, cold),
				Case:   "Service s0, Pod p0 (nodeName node1, 10.0.0.1, ready), slice e0 {10.0.0.1 -> p0}; handle; Node node1 (region r1, zone z1); handle"})
		}
	}
	if c.Wanted(extraBase + 2) {
		late, err := namespaceProbe(false)
		if err != nil {
			return err
		}
		cold, err := namespaceProbe(true)
		if err != nil {
			return err
		}
		c.Tag("extra:namespace-after-service")
		if fmt.Sprint(late) != fmt.Sprint(cold) {
			c.Violate(vlib.Violation{ID: extraBase + 2, Kind: "oracle", Finding: findNamespace,
				Detail: fmt.Sprintf("Services() with the Namespace add handled after the Service: %v; cold start (Namespace first): %v", late, cold),
				Case:   "Service s0; handle; Namespace ns1 annotated networking.istio.io/traffic-distribution=PreferClose; handle"})
		}
	}
	// system namespace with a network label, added at every position of the event order: HEAD refreshes pods and
	// endpoints on the ADD (onNetworkChange), so every order must end with the cold-start networks. Not a known finding.
	coldNet, err := sysNamespaceProbe(0, false)
	if err != nil {
		return err
	}
	c.Extra["system_namespace_cold_start_networks"] = coldNet
	for pos := 0; pos <= 3; pos++ {
		for ai, ahead := range []bool{false, true} {
			id := extraBase + 10 + 2*pos + ai
			if !c.Wanted(id) {
				continue
			}
			got, err := sysNamespaceProbe(pos, ahead)
			if err != nil {
				return err
			}
			c.Tag("extra:system-namespace-network")
			c.Hyp("system-namespace-add-order", 1)
			if len(coldNet) == 0 || fmt.Sprint(got) != fmt.Sprint(coldNet) {
				c.Violate(vlib.Violation{ID: id, Kind: "oracle",
					Detail: fmt.Sprintf("endpoint network/locality with the system namespace ADD at position %d (stores ahead: %v): %v; cold start (namespace first): %v", pos, ahead, got, coldNet),
					Case: fmt.Sprintf("SystemNamespace=istio-system; writes Service s0, Pod p0 (10.0.0.1, ready), slice e0 {10.0.0.1 -> p0} with Namespace istio-system (topology.istio.io/network=net1) inserted at position %d; handlers %s",
						pos, map[bool]string{false: "run after every write", true: "run after all writes"}[ahead])})
			}
		}
	}
	if c.Wanted(extraBase + 3) {
		seen, err := dupProbe(vlib.Scale(12, 60))
		if err != nil {
			return err
		}
		c.Tag("extra:duplicate-endpoint")
		if len(seen) > 1 {
			c.Violate(vlib.Violation{ID: extraBase + 3, Kind: "oracle", Finding: findDup,
				Detail: fmt.Sprintf("identical event order, different published endpoint for the duplicated (address, port): %v", seen),
				Case:   "Service s0, Pod p0, slice e0 {10.0.0.1 -> p0 ready}, slice e1 {10.0.0.1 -> p0 terminating}; drained; repeated on fresh controllers"})
		}
	}
	return nil
}
