//go:build verif

package c15

import (
	"fmt"
	"sort"
	"strings"
	"sync"
	"testing"

	"verif/harness/vlib"
)

// ---------------------------------------------------------------- schedules

// Op is one step of a schedule: an API write (Kind 0 pod, 1 slice, 2 service; nil version = delete) that
// reaches the informer (store updated + event queued), or Handle = run the head of the controller's work queue.
type Op struct {
	Handle  bool
	Kind    int
	ID      int
	Pod     *PodV
	Slice   *SliceV
	Svc     *SvcV
	Spawned []int // filled while running: slices re-queued by this Handle, in push order
}

func (o Op) del() bool { return !o.Handle && o.Pod == nil && o.Slice == nil && o.Svc == nil }

type kcluster struct {
	pods   map[int]PodV
	slices map[int]SliceV
	svcs   map[int]SvcV
	podIP  map[int]int // last IP a pod id had in its current incarnation
}

func newCluster() *kcluster {
	return &kcluster{pods: map[int]PodV{}, slices: map[int]SliceV{}, svcs: map[int]SvcV{}, podIP: map[int]int{}}
}

const (
	nPods   = 4 // pod 3 is the only owner of IP 4 (used by endpoints without targetRef)
	nSlices = 3
	nSvcs   = 2
)

func genPod(r *vlib.Rand, id int) PodV {
	v := PodV{Ready: r.Chance(65), Lbl: r.Intn(2), SA: 1 + r.Intn(2)}
	if r.Chance(75) {
		if id == 3 {
			v.IP = 4
		} else {
			v.IP = 1 + r.Intn(3) // shared pool: IP reuse by another pod
		}
	}
	if v.IP == 0 {
		v.Ready = false
	}
	return v
}

func mutPod(r *vlib.Rand, id int, v PodV) PodV {
	for tries := 0; tries < 10; tries++ {
		n := v
		switch r.Intn(6) {
		case 0, 1:
			n.Ready = !n.Ready
			if n.IP == 0 {
				n.Ready = false
			}
		case 2:
			n.Lbl = 1 - n.Lbl
		case 3:
			if n.IP == 0 {
				if id == 3 {
					n.IP = 4
				} else {
					n.IP = 1 + r.Intn(3)
				}
			} else {
				n.Term = true
			}
		case 4:
			n.Term = true
			n.Ready = r.Bool() && n.Ready
		case 5:
			// eviction: the update that marks the pod failed also drops the IP
			n.IP = 0
			n.Ready = false
		}
		if n != v {
			return n
		}
	}
	v.Lbl = 1 - v.Lbl
	return v
}

func genSlice(r *vlib.Rand, cl *kcluster, svc int) SliceV {
	s := SliceV{Svc: svc, NPorts: 1 + r.Intn(2)}
	n := r.Intn(4)
	used := map[int]bool{}
	for i := 0; i < n; i++ {
		var e EpV
		switch {
		case r.Chance(80):
			pid := r.Intn(nPods)
			e.Ref = pid
			if p, ok := cl.pods[pid]; ok && p.IP != 0 && r.Chance(85) {
				e.IP = p.IP
			} else if pid == 3 {
				e.IP = 4
			} else {
				e.IP = 1 + r.Intn(3)
			}
		case r.Bool():
			e = EpV{IP: 4, Ref: -1}
		default:
			e = EpV{IP: 5, Ref: -1}
		}
		if used[e.IP] {
			continue // one slice never lists an address twice
		}
		used[e.IP] = true
		switch x := r.Intn(10); {
		case x < 6:
			e.Cond = 0
		case x < 8:
			e.Cond = 1
		default:
			e.Cond = 2
		}
		s.Eps = append(s.Eps, e)
	}
	return s
}

func genSvc(r *vlib.Rand) SvcV {
	v := SvcV{Headless: r.Chance(50), ExportNone: r.Chance(8)}
	switch r.Intn(6) {
	case 0:
		v.Ports = []int{0}
	case 1:
		v.Ports = []int{0, 0}
	case 2:
		v.Ports = []int{0, 1}
	case 3:
		v.Ports = []int{2}
	case 4:
		v.Ports = []int{0, 2}
	default:
		v.Ports = []int{1}
	}
	return v
}

func sliceEq(a, b SliceV) bool { return fmt.Sprint(a) == fmt.Sprint(b) }
func svcEq(a, b SvcV) bool     { return fmt.Sprint(a) == fmt.Sprint(b) }

// genWrite produces the next API write of a random cluster history.
func genWrite(r *vlib.Rand, cl *kcluster) Op {
	for {
		switch x := r.Intn(10); {
		case x < 4: // pod
			id := r.Intn(nPods)
			if v, ok := cl.pods[id]; ok {
				if r.Chance(20) {
					delete(cl.pods, id)
					return Op{Kind: 0, ID: id}
				}
				n := mutPod(r, id, v)
				cl.pods[id] = n
				return Op{Kind: 0, ID: id, Pod: &n}
			}
			n := genPod(r, id)
			cl.pods[id] = n
			return Op{Kind: 0, ID: id, Pod: &n}
		case x < 8: // slice
			id := r.Intn(nSlices)
			if v, ok := cl.slices[id]; ok {
				if r.Chance(15) {
					delete(cl.slices, id)
					return Op{Kind: 1, ID: id}
				}
				n := genSlice(r, cl, v.Svc)
				if sliceEq(n, v) {
					continue
				}
				cl.slices[id] = n
				return Op{Kind: 1, ID: id, Slice: &n}
			}
			n := genSlice(r, cl, r.Intn(nSvcs))
			cl.slices[id] = n
			return Op{Kind: 1, ID: id, Slice: &n}
		default:
			id := r.Intn(nSvcs)
			if v, ok := cl.svcs[id]; ok {
				if r.Chance(15) {
					delete(cl.svcs, id)
					return Op{Kind: 2, ID: id}
				}
				n := genSvc(r)
				if svcEq(n, v) {
					continue
				}
				cl.svcs[id] = n
				return Op{Kind: 2, ID: id, Svc: &n}
			}
			n := genSvc(r)
			cl.svcs[id] = n
			return Op{Kind: 2, ID: id, Svc: &n}
		}
	}
}

// shuffleByType re-interleaves the per-type streams of a history (each informer lags independently).
func shuffleByType(r *vlib.Rand, ws []Op) []Op {
	var st [3][]Op
	for _, w := range ws {
		st[w.Kind] = append(st[w.Kind], w)
	}
	var out []Op
	for len(st[0])+len(st[1])+len(st[2]) > 0 {
		k := r.Intn(3)
		if len(st[k]) == 0 {
			continue
		}
		// bursts make one informer run ahead of the others
		n := 1 + r.Intn(3)
		for i := 0; i < n && len(st[k]) > 0; i++ {
			out = append(out, st[k][0])
			st[k] = st[k][1:]
		}
	}
	return out
}

// withHandles inserts Handle steps: mode 0 immediate (queue drained after every write), 1 lagging, 2 all writes first.
func withHandles(r *vlib.Rand, ws []Op, mode int) []Op {
	var out []Op
	pending := 0
	for _, w := range ws {
		out = append(out, w)
		pending++
		switch mode {
		case 0:
			for ; pending > 0; pending-- {
				out = append(out, Op{Handle: true})
			}
			// re-queued work is drained too: marker with Kind -1
			out = append(out, Op{Handle: true, Kind: -1})
		case 1:
			k := []int{0, 0, 1, 1, 2, 3}[r.Intn(6)]
			for ; k > 0 && pending > 0; k-- {
				out = append(out, Op{Handle: true})
				pending--
			}
		}
	}
	return out
}

// ---------------------------------------------------------------- running a schedule on the real controller

type result struct {
	ops  []Op
	obs  observation
	cold *observation // the same final objects on a cold-started controller (services, pods, slices; then drained)
	err  error
}

func runSchedule(plan []Op) result {
	w := newWorld()
	defer w.close()
	var done []Op
	for _, o := range plan {
		if !o.Handle {
			var obj any
			switch {
			case o.Pod != nil:
				obj = mkPod(o.ID, *o.Pod)
			case o.Slice != nil:
				obj = mkSlice(o.ID, *o.Slice)
			case o.Svc != nil:
				obj = mkSvc(o.ID, *o.Svc)
			}
			if _, err := w.write(o.Kind, o.ID, obj); err != nil {
				return result{err: err}
			}
			done = append(done, o)
			continue
		}
		if o.Kind == -1 { // drain
			for i := 0; i < 200; i++ {
				ran, sp := w.handle()
				if !ran {
					break
				}
				done = append(done, Op{Handle: true, Spawned: sp})
			}
			continue
		}
		ran, sp := w.handle()
		if ran {
			done = append(done, Op{Handle: true, Spawned: sp})
		}
	}
	for i := 0; ; i++ {
		ran, sp := w.handle()
		if !ran {
			break
		}
		done = append(done, Op{Handle: true, Spawned: sp})
		if i > 500 {
			return result{err: fmt.Errorf("work queue does not drain")}
		}
	}
	return result{ops: done, obs: w.observe()}
}

// ---------------------------------------------------------------- Gallina printers

func pPod(v PodV) string {
	return vlib.App("Pod", vlib.NI(v.IP), vlib.B(v.Ready), vlib.B(v.Term), vlib.NI(v.Lbl), vlib.NI(v.SA))
}
func pSlice(v SliceV) string {
	return vlib.App("Slice", vlib.NI(v.Svc), vlib.NI(v.NPorts), vlib.ListOf(v.Eps, func(e EpV) string {
		return vlib.App("Ep", vlib.NI(e.IP), vlib.Opt(e.Ref >= 0, vlib.NI(e.Ref)), vlib.NI(e.Cond))
	}))
}
func pInts(l []int) string { return vlib.ListOf(l, vlib.NI) }
func pSvc(v SvcV) string {
	return vlib.App("Svc", vlib.B(v.Headless), vlib.B(v.ExportNone), pInts(v.Ports))
}
func pOp(o Op) string {
	switch {
	case o.Handle:
		return vlib.App("H", pInts(o.Spawned))
	case o.Kind == 0:
		return vlib.App("WPod", vlib.NI(o.ID), vlib.Opt(o.Pod != nil, func() string {
			if o.Pod == nil {
				return ""
			}
			return pPod(*o.Pod)
		}()))
	case o.Kind == 1:
		return vlib.App("WSl", vlib.NI(o.ID), vlib.Opt(o.Slice != nil, func() string {
			if o.Slice == nil {
				return ""
			}
			return pSlice(*o.Slice)
		}()))
	default:
		return vlib.App("WSv", vlib.NI(o.ID), vlib.Opt(o.Svc != nil, func() string {
			if o.Svc == nil {
				return ""
			}
			return pSvc(*o.Svc)
		}()))
	}
}
func pEp(e obsEp) string {
	return vlib.App("E", vlib.NI(e.IP), vlib.NI(e.Port), vlib.NI(e.SA), vlib.NI(e.Lbl), vlib.NI(e.Health))
}
func sortedKeys[V any](m map[int]V) []int {
	ks := make([]int, 0, len(m))
	for k := range m {
		ks = append(ks, k)
	}
	sort.Ints(ks)
	return ks
}
func pObs(o observation) string {
	svcs := vlib.ListOf(o.Services, func(row []int) string {
		return vlib.Pair(vlib.NI(row[0]), vlib.App("Svc", vlib.B(row[1] == 1), vlib.B(row[2] == 1), pInts(row[3:])))
	})
	byip := vlib.ListOf(sortedKeys(o.ByIP), func(k int) string { return vlib.Pair(vlib.NI(k), pInts(o.ByIP[k])) })
	ipby := vlib.ListOf(sortedKeys(o.IPBy), func(k int) string { return vlib.Pair(vlib.NI(k), vlib.NI(o.IPBy[k])) })
	rsy := vlib.ListOf(sortedKeys(o.Resync), func(k int) string { return vlib.Pair(vlib.NI(k), pInts(o.Resync[k])) })
	var ck [][2]int
	for k := range o.Cache {
		ck = append(ck, k)
	}
	sort.Slice(ck, func(i, j int) bool { return ck[i][0] < ck[j][0] || (ck[i][0] == ck[j][0] && ck[i][1] < ck[j][1]) })
	cache := vlib.ListOf(ck, func(k [2]int) string {
		return "(" + vlib.NI(k[0]) + ", " + vlib.NI(k[1]) + ", " + vlib.ListOf(o.Cache[k], pEp) + ")"
	})
	sh := vlib.ListOf(sortedKeys(o.Shards), func(k int) string { return vlib.Pair(vlib.NI(k), vlib.ListOf(o.Shards[k], pEp)) })
	sas := vlib.ListOf(sortedKeys(o.SAs), func(k int) string { return vlib.Pair(vlib.NI(k), pInts(o.SAs[k])) })
	em := vlib.ListOf(o.Emits, func(e emit) string {
		rs := 9
		switch e.Reason {
		case "headless":
			rs = 0
		case "endpoint":
			rs = 1
		}
		ks := make([]string, len(e.Kinds))
		for i := range e.Kinds {
			ks[i] = vlib.Pair(vlib.NI(e.Kinds[i]), vlib.NI(e.Svcs[i]))
		}
		return vlib.Pair(vlib.NI(rs), vlib.List(ks))
	})
	return vlib.App("Obs", svcs, byip, ipby, rsy, cache, sh, sas, em)
}

func sampleOps(ops []Op) []string {
	out := make([]string, len(ops))
	for i, o := range ops {
		out[i] = strings.ReplaceAll(pOp(o), "%N", "")
	}
	return out
}

// ---------------------------------------------------------------- case families

type planned struct {
	id   int
	fam  string
	plan []Op
	tags []string
}

func featureTags(ws []Op) []string {
	t := map[string]bool{}
	ipOwner := map[int]int{}
	first := map[int]int{} // kind -> position of first write
	for i, w := range ws {
		if w.Handle {
			continue
		}
		if _, ok := first[w.Kind]; !ok {
			first[w.Kind] = i
		}
		switch {
		case w.del():
			t[[]string{"pod-delete", "slice-delete", "svc-delete"}[w.Kind]] = true
		case w.Pod != nil:
			if w.Pod.IP != 0 {
				if o, ok := ipOwner[w.Pod.IP]; ok && o != w.ID {
					t["ip-reuse"] = true
				}
				ipOwner[w.Pod.IP] = w.ID
			} else {
				t["pod-without-ip"] = true
			}
			if !w.Pod.Ready {
				t["pod-not-ready"] = true
			}
			if w.Pod.Term {
				t["pod-terminating"] = true
			}
		case w.Slice != nil:
			for _, e := range w.Slice.Eps {
				if e.Ref < 0 {
					t["ep-without-targetref"] = true
				}
				if e.Cond != 0 {
					t["ep-not-ready"] = true
				}
			}
		case w.Svc != nil:
			if w.Svc.Headless {
				t["svc-headless"] = true
			}
			if w.Svc.ExportNone {
				t["svc-export-none"] = true
			}
		}
	}
	if a, ok := first[1]; ok {
		if b, ok2 := first[0]; ok2 && a < b {
			t["slice-before-pod"] = true
		}
		if b, ok2 := first[2]; ok2 && a < b {
			t["slice-before-service"] = true
		}
	}
	var out []string
	for k := range t {
		out = append(out, k)
	}
	sort.Strings(out)
	return out
}

// a plausible final cluster: services, mostly-ready pods with distinct IPs, slices that reference them
func genFinalCluster(r *vlib.Rand) []Op {
	cl := newCluster()
	var ws []Op
	for id := 0; id < nSvcs; id++ {
		if r.Chance(85) {
			v := genSvc(r)
			cl.svcs[id] = v
			ws = append(ws, Op{Kind: 2, ID: id, Svc: &v})
		}
	}
	for id := 0; id < nPods; id++ {
		if r.Chance(80) {
			v := PodV{IP: id + 1, Ready: r.Chance(75), Lbl: r.Intn(2), SA: 1 + r.Intn(2), Term: r.Chance(10)}
			cl.pods[id] = v
			ws = append(ws, Op{Kind: 0, ID: id, Pod: &v})
		}
	}
	for id := 0; id < nSlices; id++ {
		if r.Chance(85) {
			v := genSlice(r, cl, r.Intn(nSvcs))
			cl.slices[id] = v
			ws = append(ws, Op{Kind: 1, ID: id, Slice: &v})
		}
	}
	return ws
}

func TestGen(t *testing.T) {
	c := vlib.NewCollector("C15", "V.C15.Run")
	c.Rule = "each case is one schedule run on the real kube registry controller (fake kube client, real informers and " +
		"registerHandlers wrappers, work queue single-stepped by the harness): API writes of a generated cluster history reach " +
		"the informers in a per-type-consistent interleaving, handlers run with an arbitrary lag, the queue is drained, and " +
		"Services()/PodCache/endpointSliceCache/EndpointIndex shards+service accounts/ConfigUpdate keys are read back. " +
		"Non-trivial = the schedule contains at least one slice write and one pod write."
	seed := vlib.Seed()
	root := vlib.NewRand(seed*7919 + 15)
	var plans []planned
	id := 0
	add := func(fam string, plan []Op, extra ...string) {
		id++
		plans = append(plans, planned{id: id, fam: fam, plan: plan, tags: append(featureTags(plan), extra...)})
	}

	// (0) directed scenarios (also the witnesses of the _refuted theorems in coq/C15/Props.v)
	for _, d := range directed() {
		add("directed", d)
	}
	// (1) canonical cold start on a generated final cluster: validates [derive] against the real code
	for i := 0; i < vlib.Scale(12, 150); i++ {
		r := root.Sub()
		ws := genFinalCluster(r)
		add("cold-canonical", withHandles(r, ws, 2))
	}
	// (2) cold start with the initial add events in an arbitrary cross-type order
	for i := 0; i < vlib.Scale(20, 400); i++ {
		r := root.Sub()
		ws := genFinalCluster(r)
		for j := len(ws) - 1; j > 0; j-- {
			k := r.Intn(j + 1)
			ws[j], ws[k] = ws[k], ws[j]
		}
		add("cold-permuted", withHandles(r, ws, 2))
	}
	// (3) random histories, three delivery modes
	for i := 0; i < vlib.Scale(56, 2500); i++ {
		r := root.Sub()
		cl := newCluster()
		n := 4 + r.Intn(10)
		var ws []Op
		for j := 0; j < n; j++ {
			ws = append(ws, genWrite(r, cl))
		}
		fam := "history"
		if r.Chance(60) {
			ws = shuffleByType(r, ws)
			fam = "history-shuffled"
		}
		mode := []int{0, 1, 1, 1, 2}[r.Intn(5)]
		add(fam+[]string{"-immediate", "-lagging", "-store-ahead"}[mode], withHandles(r, ws, mode))
	}

	// run (a few worlds in parallel; every case is independent and deterministic in its plan)
	results := make([]result, len(plans))
	var wg sync.WaitGroup
	sem := make(chan struct{}, 6)
	for i := range plans {
		if !c.Wanted(2*(plans[i].id-1)+1) && !c.Wanted(2*(plans[i].id-1)+2) {
			continue
		}
		wg.Add(1)
		sem <- struct{}{}
		go func(i int) {
			defer wg.Done()
			defer func() { <-sem }()
			panicked, msg := vlib.Recover(func() {
				results[i] = runSchedule(plans[i].plan)
				if results[i].err == nil && plans[i].fam != "cold-canonical" {
					cold := runSchedule(coldPlan(results[i].ops))
					if cold.err != nil {
						results[i].err = cold.err
					} else {
						results[i].cold = &cold.obs
					}
				}
			})
			if panicked {
				results[i].err = fmt.Errorf("panic: %s", msg)
			}
		}(i)
	}
	wg.Wait()

	for i, p := range plans {
		if !c.Wanted(2*(p.id-1)+1) && !c.Wanted(2*(p.id-1)+2) {
			continue
		}
		res := results[i]
		if res.err != nil {
			if strings.HasPrefix(res.err.Error(), "panic") || strings.Contains(res.err.Error(), "does not drain") {
				c.Violate(vlib.Violation{ID: 2*(p.id-1) + 2, Kind: "panic", Detail: res.err.Error(), Case: sampleOps(p.plan)})
				continue
			}
			t.Fatalf("case %d: harness error: %v", p.id, res.err)
		}
		writes, hasPod, hasSlice := 0, false, false
		for _, o := range res.ops {
			if !o.Handle {
				writes++
				hasPod = hasPod || o.Kind == 0
				hasSlice = hasSlice || o.Kind == 1
			}
		}
		tags := append([]string{"family:" + p.fam, fmt.Sprintf("writes:%d", (writes/4)*4)}, p.tags...)
		// two ids per run: 2k+1 = correspondence (model predicts the run), 2k+2 = property (equals cold start)
		cid, pid := 2*(p.id-1)+1, 2*(p.id-1)+2
		ptags := append([]string{}, tags...)
		if f := classify(p, res, results[i].cold); f != "" {
			c.FindingOf[pid] = f
			ptags = append(ptags, "finding:"+f)
		}
		opsT, obsT := vlib.ListOf(res.ops, pOp), pObs(res.obs)
		sample := map[string]any{"family": p.fam, "ops": sampleOps(res.ops), "observed": strings.ReplaceAll(obsT, "%N", "")}
		c.Add(vlib.Case{ID: cid, Term: vlib.App("Corr", vlib.NI(cid), opsT, obsT), Tags: tags, Trivial: !(hasPod && hasSlice), Sample: sample})
		if res.cold != nil {
			sample = map[string]any{"family": p.fam, "ops": sampleOps(res.ops), "observed": strings.ReplaceAll(obsT, "%N", ""),
				"cold_start_observed": strings.ReplaceAll(pObs(*res.cold), "%N", "")}
		}
		c.Add(vlib.Case{ID: pid, Term: vlib.App("Conv", vlib.NI(pid), opsT, obsT), Tags: ptags, Trivial: !(hasPod && hasSlice), Sample: sample})
	}
	if err := runExtras(c); err != nil {
		t.Fatalf("extras: %v", err)
	}
	if err := c.Flush(); err != nil {
		t.Fatal(err)
	}
}
