//go:build verif

package c09

import (
	"context"
	"errors"
	"fmt"
	"net"
	"testing"

	"google.golang.org/grpc/credentials"
	"google.golang.org/grpc/peer"
	"google.golang.org/grpc/status"
	"google.golang.org/protobuf/types/known/structpb"

	pb "istio.io/api/security/v1alpha1"
	"istio.io/istio/pkg/security"
	"istio.io/istio/security/pkg/pki/ca"
	caerror "istio.io/istio/security/pkg/pki/error"
	"istio.io/istio/security/pkg/pki/util"
	"verif/harness/vlib"
)

// injectCA wraps a real IstioCA and answers Sign / SignWithCertChain with a prepared outcome: the
// server-side glue of CreateCertificate (error -> metric + status code, chain assembly) is driven with
// every class of answer a CertificateAuthority can give.
type injectCA struct {
	real  *ca.IstioCA
	err   error // returned when non-nil
	blank bool  // (nil, nil) from Sign, empty chain from SignWithCertChain
}

func (i *injectCA) Sign(csr []byte, o ca.CertOpts) ([]byte, error) {
	switch {
	case i.err != nil:
		return nil, i.err
	case i.blank:
		return nil, nil
	}
	return i.real.Sign(csr, o)
}

func (i *injectCA) SignWithCertChain(csr []byte, o ca.CertOpts) ([]string, error) {
	switch {
	case i.err != nil:
		return nil, i.err
	case i.blank:
		return []string{}, nil
	}
	return i.real.SignWithCertChain(csr, o)
}

func (i *injectCA) GetCAKeyCertBundle() *util.KeyCertBundle { return i.real.GetCAKeyCertBundle() }

func runErrMap(t *testing.T, c *vlib.Collector, r *vlib.Rand, id int, env *createEnv) int {
	kinds := []struct {
		t    caerror.ErrType
		term string
	}{
		{caerror.CANotReady, "KNotReady"}, {caerror.CSRError, "KCsr"}, {caerror.TTLError, "KTtl"},
		{caerror.CertGenError, "KCertGen"}, {caerror.CAIllegalConfig, "KIllegalConfig"}, {caerror.CAInitFail, "KInitFail"},
	}
	w := env.worlds[0]
	call := func(ica *injectCA, signer string) (code int, panicked bool, msg string) {
		ctx := peer.NewContext(context.Background(), &peer.Peer{Addr: &net.IPAddr{IP: net.IPv4(10, 0, 0, 7)}, AuthInfo: credentials.TLSInfo{}})
		var meta *structpb.Struct
		if signer != "" {
			meta, _ = structpb.NewStruct(map[string]any{security.CertSigner: signer})
		}
		w.server.Authenticators = []security.Authenticator{&fakeAuthn{caller: &security.Caller{Identities: []string{"spiffe://cluster.local/ns/foo/sa/bar"}}}}
		w.server.VerifSetCA(ica)
		var err error
		panicked, msg = vlib.Recover(func() {
			_, err = w.server.CreateCertificate(ctx, &pb.IstioCertificateRequest{Csr: genCSR(vlib.NewRand(5), env.keys).pem, ValidityDuration: 60, Metadata: meta})
		})
		if panicked {
			return 999, true, msg
		}
		st, _ := status.FromError(err)
		return int(st.Code()), false, ""
	}
	for i := 0; i < vlib.Scale(48, 480); i++ {
		id++
		sub := r.Sub()
		if !c.Wanted(id) {
			continue
		}
		k := kinds[i%len(kinds)]
		signer := vlib.Pick(sub, []string{"", "signer-a"})
		code, panicked, msg := call(&injectCA{real: vlib.Pick(sub, env.cas).ca, err: caerror.NewError(k.t, fmt.Errorf("injected %s", k.term))}, signer)
		if panicked {
			c.Violate(vlib.Violation{ID: id, Kind: "panic", Detail: fmt.Sprintf("CreateCertificate panicked on a CA error of kind %s: %s", k.term, msg)})
		}
		c.Add(vlib.Case{ID: id, Term: vlib.App("ErrMap", vlib.NI(id), k.term, vlib.NI(code)), Tags: []string{"errmap", "errmap-" + k.term},
			Sample: map[string]any{"kind": "CreateCertificate over a CA answering with a caerror", "ca_error": k.term, "cert_signer": signer, "grpc_code": code}})
	}
	// Probes outside the contract of the in-tree CAs (IstioCA and KubernetesRA only ever return
	// *caerror.Error and never a blank success): recorded in the evidence, not judged.
	probe := func(name string, ica *injectCA, signer string) {
		code, panicked, msg := call(ica, signer)
		res := fmt.Sprintf("grpc code %d", code)
		if panicked {
			res = "PANIC: " + msg
		}
		c.Extra["probe: "+name] = res
	}
	probe("CA returns a plain (non-caerror) error from Sign", &injectCA{real: env.cas[0].ca, err: errors.New("plain")}, "")
	probe("CA returns a plain (non-caerror) error from SignWithCertChain", &injectCA{real: env.cas[0].ca, err: errors.New("plain")}, "signer-a")
	probe("CA returns (nil, nil) from Sign", &injectCA{real: env.cas[0].ca, blank: true}, "")
	probe("CA returns an empty chain from SignWithCertChain", &injectCA{real: env.cas[0].ca, blank: true}, "signer-a")
	return id
}
