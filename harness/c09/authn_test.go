//go:build verif

package c09

import (
	"context"
	"crypto/rand"
	"crypto/rsa"
	"crypto/tls"
	"crypto/x509"
	"crypto/x509/pkix"
	"encoding/json"
	"fmt"
	"net"
	"net/http"
	"net/http/httptest"
	"net/netip"
	"strings"
	"testing"
	"time"

	"github.com/go-jose/go-jose/v4"
	"google.golang.org/grpc/credentials"
	"google.golang.org/grpc/metadata"
	"google.golang.org/grpc/peer"
	k8sauth "k8s.io/api/authentication/v1"
	"k8s.io/apimachinery/pkg/runtime"
	"k8s.io/client-go/kubernetes"
	"k8s.io/client-go/kubernetes/fake"
	k8stesting "k8s.io/client-go/testing"

	meshconfig "istio.io/api/mesh/v1alpha1"
	"istio.io/api/security/v1beta1"
	"istio.io/istio/pilot/pkg/features"
	"istio.io/istio/pkg/cluster"
	"istio.io/istio/pkg/config/mesh/meshwatcher"
	"istio.io/istio/pkg/security"
	"istio.io/istio/security/pkg/pki/util"
	"istio.io/istio/security/pkg/server/ca/authenticate"
	"istio.io/istio/security/pkg/server/ca/authenticate/kubeauth"
	"verif/harness/vlib"
)

// ------------------------------------------------------------------ fixed witnesses

// runWitnesses runs the refutation witnesses of coq/C09/Props.v against the real server.
func runWitnesses(c *vlib.Collector, env *createEnv, id int) int {
	zt := security.KubernetesInfo{PodName: "ztunnel-a", PodNamespace: "istio-system", PodUID: "u-zt-a", PodServiceAccount: "ztunnel"}
	okCSR := func(seed uint64) genCsr {
		for s := seed; ; s++ {
			g := genCSR(vlib.NewRand(s), env.keys)
			if strings.HasPrefix(g.kind, "ok-p256") {
				return g
			}
		}
	}
	base := func(w *world) createIn {
		return createIn{w: w, cfg: env.cas[0], xdsAuth: true, hasPeer: true, tls: true, csr: okCSR(11), validity: 3600}
	}
	// 1. authorised impersonation whose trust-domain part carries commas (regression of the fixed
	//    finding C09-K4-comma-identity-extra-sans: must be a signing error now)
	in := base(env.worlds[1])
	in.auth = []authSpec{{hasCaller: true, ids: []string{"spiffe://cluster.local/ns/istio-system/sa/ztunnel"}, k: zt}}
	in.md = []kv{{security.ImpersonatedIdentity, mdVal{kind: "str", s: "spiffe://cluster.local,istiod.istio-system.svc,x/ns/foo/sa/bar"}}}
	in.clusterIDs = []string{"c1"}
	id++
	if c.Wanted(id) || c.Wanted(id+tdCompanionOffset) {
		execCreate(c, id, env, in)
	}
	// 2. an authenticated identity containing a comma (refused as well)
	in = base(env.worlds[0])
	in.auth = []authSpec{{hasCaller: true, ids: []string{"spiffe://cluster.local/ns/foo/sa/bar,istiod.istio-system.svc"}}}
	id++
	if c.Wanted(id) || c.Wanted(id+tdCompanionOffset) {
		execCreate(c, id, env, in)
	}
	// 3. the same impersonation without commas (must be issued with exactly that identity)
	in = base(env.worlds[1])
	in.auth = []authSpec{{hasCaller: true, ids: []string{"spiffe://cluster.local/ns/istio-system/sa/ztunnel"}, k: zt}}
	in.md = []kv{{security.ImpersonatedIdentity, mdVal{kind: "str", s: "spiffe://cluster.local/ns/foo/sa/bar"}}}
	in.clusterIDs = []string{"c1"}
	id++
	if c.Wanted(id) || c.Wanted(id+tdCompanionOffset) {
		execCreate(c, id, env, in)
	}
	// 4. one empty identity (accepted by the authentication manager: the list is not empty)
	in = base(env.worlds[0])
	in.auth = []authSpec{{hasCaller: true, ids: []string{""}}}
	id++
	if c.Wanted(id) || c.Wanted(id+tdCompanionOffset) {
		execCreate(c, id, env, in)
	}
	// 5. impersonation of a workload on the node under a foreign trust domain (open finding
	//    C09-impersonation-trust-domain-unchecked)
	in = base(env.worlds[1])
	in.auth = []authSpec{{hasCaller: true, ids: []string{"spiffe://cluster.local/ns/istio-system/sa/ztunnel"}, k: zt}}
	in.md = []kv{{security.ImpersonatedIdentity, mdVal{kind: "str", s: "spiffe://other.td/ns/foo/sa/bar"}}}
	in.clusterIDs = []string{"c1"}
	id++
	if c.Wanted(id) || c.Wanted(id+tdCompanionOffset) {
		execCreate(c, id, env, in)
	}
	return id
}

// ------------------------------------------------------------------ authenticators

func pAuthn(caller *security.Caller, err error, panicked bool) (string, string) {
	switch {
	case panicked:
		return "APanic", "panic"
	case err != nil || caller == nil:
		return "AErr", "err"
	}
	return vlib.App("AOk", pStrs(caller.Identities), pKube(caller.KubernetesInfo)), "ok"
}

type addrString string

func (a addrString) Network() string { return "tcp" }
func (a addrString) String() string  { return string(a) }

func runAuthenticators(t *testing.T, c *vlib.Collector, r *vlib.Rand, id int) int {
	id = runOidc(t, c, r.Sub(), id)
	id = runKubeJwt(t, c, r.Sub(), id)
	id = runCertAuth(t, c, r.Sub(), id)
	id = runXfcc(t, c, r.Sub(), id)
	return id
}

// ---- OIDC

func signJWT(t *testing.T, key *jose.JSONWebKey, claims []byte) string {
	signer, err := jose.NewSigner(jose.SigningKey{Algorithm: jose.SignatureAlgorithm(key.Algorithm), Key: key}, nil)
	if err != nil {
		t.Fatal(err)
	}
	sig, err := signer.Sign(claims)
	if err != nil {
		t.Fatal(err)
	}
	s, err := sig.CompactSerialize()
	if err != nil {
		t.Fatal(err)
	}
	return s
}

var subPool = []string{
	"system:serviceaccount:bar:foo",
	"system:serviceaccount:istio-system:istiod",
	"system:serviceaccount",
	"system:serviceaccount:",
	"system:serviceaccount:ns",
	"system:serviceaccount:ns:",
	"system:serviceaccount::",
	"system:serviceaccount:::",
	"system:serviceaccounts:ns:x",
	"system:serviceaccountX:a:b",
	"system:serviceaccountX",
	"system:serviceaccount:ns:sa:extra",
	"system:serviceaccount:n,s:sa",
	"system:serviceaccount:ns:sa,spiffe://cluster.local/ns/istio-system/sa/istiod",
	"system:serviceaccount:ns:sa/x",
	"",
	"bar:foo",
	"system:node:n1",
	"system:serviceaccoun",
	"SYSTEM:SERVICEACCOUNT:a:b",
}

func runOidc(t *testing.T, c *vlib.Collector, r *vlib.Rand, id int) int {
	rsaKey, err := rsa.GenerateKey(rand.Reader, 2048)
	if err != nil {
		t.Fatal(err)
	}
	otherKey, err := rsa.GenerateKey(rand.Reader, 2048)
	if err != nil {
		t.Fatal(err)
	}
	key := jose.JSONWebKey{Algorithm: string(jose.RS256), Key: rsaKey}
	wrong := jose.JSONWebKey{Algorithm: string(jose.RS256), Key: otherKey}
	keySet := jose.JSONWebKeySet{Keys: []jose.JSONWebKey{key.Public()}}
	srv := httptest.NewServer(http.HandlerFunc(func(w http.ResponseWriter, _ *http.Request) {
		_ = json.NewEncoder(w).Encode(keySet)
	}))
	defer srv.Close()

	type authn struct {
		td   string
		auds []string
		a    *authenticate.JwtAuthenticator
	}
	var authns []authn
	for _, td := range []string{"cluster.local", "user@corp.example"} {
		for _, auds := range [][]string{{"istio-ca"}, {"istio-ca", "baz.svc.id.goog"}, {}} {
			rule := &v1beta1.JWTRule{Issuer: srv.URL, JwksUri: srv.URL, Audiences: auds}
			a, err := authenticate.NewJwtAuthenticator(rule, meshwatcher.NewTestWatcher(&meshconfig.MeshConfig{TrustDomain: td}))
			if err != nil {
				t.Fatal(err)
			}
			authns = append(authns, authn{td, auds, a})
		}
	}
	for i := 0; i < vlib.Scale(260, 4000); i++ {
		id++
		sub := r.Sub()
		if !c.Wanted(id) {
			continue
		}
		an := vlib.Pick(sub, authns)
		s := vlib.Pick(sub, subPool)
		if sub.Chance(20) {
			n := sub.Intn(6)
			parts := []string{"system", "serviceaccount"}
			for j := 0; j < n; j++ {
				parts = append(parts, vlib.Pick(sub, []string{"ns", "sa", "", "a,b", "x"}))
			}
			s = strings.Join(parts, ":")
		}
		var aud any
		audTerm := ""
		switch sub.Intn(6) {
		case 0:
			aud = "istio-ca"
			audTerm = vlib.App("AudString", vlib.Str("istio-ca"))
		case 1:
			l := []string{"other"}
			aud, audTerm = l, vlib.App("AudList", pStrs(l))
		case 2:
			l := []string{"other", "baz.svc.id.goog"}
			aud, audTerm = l, vlib.App("AudList", pStrs(l))
		case 3:
			l := []string{}
			aud, audTerm = l, vlib.App("AudList", pStrs(l))
		default:
			l := []string{"istio-ca"}
			aud, audTerm = l, vlib.App("AudList", pStrs(l))
		}
		verified, kind := true, "verified"
		exp := time.Now().Add(time.Hour).Unix()
		iss := srv.URL
		signKey := &key
		switch sub.Intn(12) {
		case 0:
			verified, kind = false, "expired"
			exp = time.Now().Add(-time.Hour).Unix()
		case 1:
			verified, kind = false, "wrong-key"
			signKey = &wrong
		case 2:
			verified, kind = false, "wrong-issuer"
			iss = "https://evil.example"
		}
		claims, _ := json.Marshal(map[string]any{"iss": iss, "aud": aud, "sub": s, "exp": exp})
		token := signJWT(t, signKey, claims)
		md := metadata.MD{}
		switch sub.Intn(14) {
		case 0:
			verified, kind = false, "garbage-token"
			md.Append("authorization", "Bearer "+vlib.Pick(sub, []string{"", "a.b.c", "garbage", token[:len(token)/2]}))
		case 1:
			verified, kind = false, "no-bearer"
			md.Append("authorization", "Basic "+token)
		case 2:
			verified, kind = false, "no-header"
		default:
			md.Append("authorization", "Bearer "+token)
		}
		ctx := metadata.NewIncomingContext(context.Background(), md)
		var caller *security.Caller
		var aerr error
		panicked, pmsg := vlib.Recover(func() { caller, aerr = an.a.Authenticate(security.AuthContext{GrpcContext: ctx}) })
		obs, otag := pAuthn(caller, aerr, panicked)
		if panicked {
			c.Violate(vlib.Violation{ID: id, Kind: "panic",
				Detail: fmt.Sprintf("JwtAuthenticator.Authenticate panicked on a verified token with sub=%q: %s", s, pmsg)})
		}
		term := vlib.App("Oidc", vlib.NI(id), vlib.B(verified), vlib.Str(an.td), pStrs(an.auds), vlib.Str(s), audTerm, obs)
		c.Add(vlib.Case{ID: id, Term: term, Tags: []string{"oidc", "oidc-" + kind, "oidc-obs=" + otag},
			Sample: map[string]any{"kind": "JwtAuthenticator.Authenticate", "sub": s, "aud": aud, "token": kind, "audiences": an.auds, "observed": otag}})
	}
	return id
}

// ---- Kubernetes JWT

type remoteGetter struct{ c kubernetes.Interface }

func (g remoteGetter) GetRemoteKubeClient(id cluster.ID) kubernetes.Interface {
	if id == "remote1" {
		return g.c
	}
	return nil
}
func (g remoteGetter) ListClusters() []cluster.ID { return []cluster.ID{"remote1"} }

func runKubeJwt(t *testing.T, c *vlib.Collector, r *vlib.Rand, id int) int {
	type review struct {
		apiErr bool
		st     k8sauth.TokenReviewStatus
	}
	var cur review
	client := fake.NewSimpleClientset()
	client.PrependReactor("create", "tokenreviews", func(k8stesting.Action) (bool, runtime.Object, error) {
		if cur.apiErr {
			return true, nil, fmt.Errorf("generated API failure")
		}
		return true, &k8sauth.TokenReview{Status: cur.st}, nil
	})
	mk := func(td string, withRemote bool) *kubeauth.KubeJWTAuthenticator {
		var g kubeauth.RemoteKubeClientGetter
		if withRemote {
			g = remoteGetter{client}
		}
		return kubeauth.NewKubeJWTAuthenticator(meshwatcher.NewTestWatcher(&meshconfig.MeshConfig{TrustDomain: td}), client, "Kubernetes",
			map[string]string{"alias-k": "Kubernetes", "alias-r": "remote1"}, g)
	}
	tds := []string{"cluster.local", "user@corp.example"}
	for i := 0; i < vlib.Scale(300, 4000); i++ {
		id++
		sub := r.Sub()
		if !c.Wanted(id) {
			continue
		}
		td := vlib.Pick(sub, tds)
		withRemote := sub.Chance(60)
		a := mk(td, withRemote)
		// which cluster the caller claims, and whether a client exists for it by construction
		clusterHdr, found := []string{}, true
		switch sub.Intn(8) {
		case 0:
			clusterHdr = []string{"Kubernetes"}
		case 1:
			clusterHdr = []string{"alias-k"}
		case 2:
			clusterHdr, found = []string{"remote1"}, withRemote
		case 3:
			clusterHdr, found = []string{"alias-r"}, withRemote
		case 4:
			clusterHdr, found = []string{"unknown"}, false
		case 5:
			clusterHdr = []string{"unknown", "other"} // two values: treated as absent
		}
		groups := []string{"system:serviceaccounts", "system:authenticated"}
		switch sub.Intn(8) {
		case 0:
			groups = []string{"system:authenticated"}
		case 1:
			groups = nil
		case 2:
			groups = []string{"system:serviceaccounts:foo"}
		}
		user := vlib.Pick(sub, append([]string{"system:serviceaccount:default:example-pod-sa", "system:serviceaccount:istio-system:ztunnel",
			"system:serviceaccount:foo:bar", "a:b:c:d", ":::", "x:y::sa", "x:y:ns:"}, subPool...))
		cur = review{st: k8sauth.TokenReviewStatus{Authenticated: true, User: k8sauth.UserInfo{Username: user, Groups: groups}}}
		podName, podUID := "", ""
		if sub.Chance(60) {
			podName, podUID = "pod-x", "uid-x"
			cur.st.User.Extra = map[string]k8sauth.ExtraValue{
				"authentication.kubernetes.io/pod-name": {podName, "second-value"},
				"authentication.kubernetes.io/pod-uid":  {podUID},
			}
			if sub.Chance(15) {
				cur.st.User.Extra["authentication.kubernetes.io/pod-name"] = k8sauth.ExtraValue{}
				podName = ""
			}
		}
		switch sub.Intn(10) {
		case 0:
			cur.apiErr = true
		case 1:
			cur.st.Authenticated = false
		case 2:
			cur.st.Error = "token expired"
		}
		md := metadata.MD{}
		tokenOK := true
		if sub.Chance(8) {
			tokenOK = false
		} else {
			md.Append("authorization", "Bearer some-opaque-token")
		}
		if len(clusterHdr) > 0 {
			md["clusterid"] = clusterHdr
		}
		ctx := metadata.NewIncomingContext(context.Background(), md)
		var caller *security.Caller
		var aerr error
		panicked, pmsg := vlib.Recover(func() { caller, aerr = a.Authenticate(security.AuthContext{GrpcContext: ctx}) })
		obs, otag := pAuthn(caller, aerr, panicked)
		if panicked {
			c.Violate(vlib.Violation{ID: id, Kind: "panic", Detail: "KubeJWTAuthenticator.Authenticate panicked: " + pmsg})
		}
		// no bearer token: the code fails before looking for a client; expressed as client_found=false
		trTerm := vlib.App("Build_token_review", vlib.B(cur.apiErr), vlib.Str(cur.st.Error), vlib.B(cur.st.Authenticated), pStrs(groups),
			vlib.Str(user), vlib.Str(podName), vlib.Str(podUID))
		term := vlib.App("KubeJwt", vlib.NI(id), vlib.Str(td), vlib.B(found && tokenOK), trTerm, obs)
		c.Add(vlib.Case{ID: id, Term: term, Tags: []string{"kubejwt", "kubejwt-obs=" + otag, fmt.Sprintf("kubejwt-client=%v", found)},
			Sample: map[string]any{"kind": "KubeJWTAuthenticator.Authenticate", "username": user, "groups": groups, "cluster": clusterHdr, "observed": otag}})
	}
	return id
}

// ---- client certificate

func runCertAuth(t *testing.T, c *vlib.Collector, r *vlib.Rand, id int) int {
	mkCert := func(sub *vlib.Rand) (*x509.Certificate, string) {
		switch sub.Intn(8) {
		case 0: // no SAN extension
			return &x509.Certificate{Extensions: []pkix.Extension{{Id: oidKeyUsage, Value: []byte{3, 2, 5, 160}}}}, "None"
		case 1: // undecodable SAN extension
			return &x509.Certificate{Extensions: []pkix.Extension{{Id: util.OidSubjectAlternativeName, Value: []byte{0x30, 0x05, 0x01}}}}, "None"
		}
		ids := genIdentities(sub)
		var typed []util.Identity
		for _, s := range ids {
			typed = append(typed, util.Identity{Type: vlib.Pick(sub, []util.IdentityType{util.TypeDNS, util.TypeURI, util.TypeIP}), Value: []byte(s)})
		}
		ext, err := util.BuildSANExtension(typed)
		if err != nil {
			t.Fatal(err)
		}
		return &x509.Certificate{Extensions: []pkix.Extension{{Id: oidKeyUsage, Value: []byte{3, 2, 5, 160}}, *ext}}, vlib.App("Some", pStrs(ids))
	}
	a := &authenticate.ClientCertAuthenticator{}
	for i := 0; i < vlib.Scale(200, 3000); i++ {
		id++
		sub := r.Sub()
		if !c.Wanted(id) {
			continue
		}
		ctx := context.Background()
		peerTerm := ""
		switch sub.Intn(8) {
		case 0:
			peerTerm = "PeerNone"
		case 1:
			peerTerm = "PeerNone"
			ctx = peer.NewContext(ctx, &peer.Peer{Addr: &net.IPAddr{IP: net.IPv4(10, 0, 0, 1)}})
		case 2:
			peerTerm = "PeerOtherAuth"
			ctx = peer.NewContext(ctx, &peer.Peer{Addr: &net.IPAddr{IP: net.IPv4(10, 0, 0, 1)}, AuthInfo: otherAuthInfo{}})
		default:
			nch := sub.Intn(3)
			var chains [][]*x509.Certificate
			var chTerms []string
			for j := 0; j < nch; j++ {
				n := sub.Intn(3)
				var ch []*x509.Certificate
				var ts []string
				for k := 0; k < n; k++ {
					crt, tm := mkCert(sub)
					ch = append(ch, crt)
					ts = append(ts, tm)
				}
				chains = append(chains, ch)
				chTerms = append(chTerms, vlib.List(ts))
			}
			peerTerm = vlib.App("PeerTLS", vlib.List(chTerms))
			ctx = peer.NewContext(ctx, &peer.Peer{Addr: &net.IPAddr{IP: net.IPv4(10, 0, 0, 1)},
				AuthInfo: credentials.TLSInfo{State: tls.ConnectionState{VerifiedChains: chains}}})
		}
		var caller *security.Caller
		var aerr error
		panicked, pmsg := vlib.Recover(func() { caller, aerr = a.Authenticate(security.AuthContext{GrpcContext: ctx}) })
		obs, otag := pAuthn(caller, aerr, panicked)
		if panicked {
			c.Violate(vlib.Violation{ID: id, Kind: "panic", Detail: "ClientCertAuthenticator.Authenticate panicked: " + pmsg})
		}
		term := vlib.App("CertAuth", vlib.NI(id), peerTerm, obs)
		c.Add(vlib.Case{ID: id, Term: term, Tags: []string{"certauth", "certauth-obs=" + otag},
			Sample: map[string]any{"kind": "ClientCertAuthenticator.Authenticate", "peer": peerTerm, "observed": otag}})
	}
	return id
}

// ---- XFCC

var addrPool = []string{
	"10.0.0.1:1234", "10.1.2.3:80", "127.0.0.1:80", "127.5.5.5:1", "[::1]:80", "[2001:db8::1]:443", "[fe80::1%eth0]:99",
	"192.168.1.1", "192.168.1.1:", "example.com:80", "localhost:15012", "@", "bufconn", ":80", "[::1]", "1.2.3.4:5:6", "unknown",
	"ztunnel.istio-system.svc:15008", "[::ffff:127.0.0.1]:1", "",
}

func runXfcc(t *testing.T, c *vlib.Collector, r *vlib.Rand, id int) int {
	a := authenticate.XfccAuthenticator{}
	old := features.TrustedGatewayCIDR
	defer func() { features.TrustedGatewayCIDR = old }()
	cidrSets := [][]string{{}, {"10.0.0.0/8"}, {"10.0.0.0/8", "2001:db8::/32"}, {"10.0.0.1"}, {"bad/cidr", "192.168.0.0/16"}, {"0.0.0.0/0"}, {"not-a-cidr"}}
	for i := 0; i < vlib.Scale(300, 4000); i++ {
		id++
		sub := r.Sub()
		if !c.Wanted(id) {
			continue
		}
		addr := vlib.Pick(sub, addrPool)
		cidrs := vlib.Pick(sub, cidrSets)
		features.TrustedGatewayCIDR = cidrs

		// header from structured elements
		var elems []string
		var elemTerms []string
		nel := 1 + sub.Intn(2)
		for j := 0; j < nel; j++ {
			var fields []string
			fields = append(fields, "By=spiffe://cluster.local/ns/istio-system/sa/gw", "Hash=abcdef0123")
			var uris, dns []string
			cnTerm := "None"
			if sub.Chance(60) {
				cn := vlib.Pick(sub, []string{"client.example.com", "x", "spiffe-less"})
				fields = append(fields, `Subject="CN=`+cn+`,O=org"`)
				cnTerm = vlib.App("Some", vlib.Str(cn))
			}
			for k := sub.Intn(3); k > 0; k-- {
				u := vlib.Pick(sub, []string{"spiffe://cluster.local/ns/foo/sa/bar", "spiffe://td2/ns/a/sa/b", "spiffe://cluster.local/ns/istio-system/sa/istiod"})
				uris = append(uris, u)
				fields = append(fields, "URI="+u)
			}
			for k := sub.Intn(2); k > 0; k-- {
				d := vlib.Pick(sub, []string{"a.example.com", "istiod.istio-system.svc"})
				dns = append(dns, d)
				fields = append(fields, "DNS="+d)
			}
			elems = append(elems, strings.Join(fields, ";"))
			elemTerms = append(elemTerms, vlib.App("Build_xfcc_elem", pStrs(uris), pStrs(dns), cnTerm))
		}
		header := strings.Join(elems, ",")
		parsedTerm := vlib.App("Some", vlib.List(elemTerms))
		headerAbsent := false
		switch sub.Intn(10) {
		case 0:
			header, parsedTerm = "Unknown=field", "None"
		case 1:
			header, parsedTerm = "By=x;;=", "None"
		case 2:
			headerAbsent = true
		}
		ctx := context.Background()
		addrEmpty := false
		if sub.Chance(6) {
			// no peer: RemoteAddress() is "unknown"
			addr = "unknown"
		} else {
			ctx = peer.NewContext(ctx, &peer.Peer{Addr: addrString(addr)})
			addrEmpty = addr == ""
		}
		md := metadata.MD{}
		if !headerAbsent {
			md.Append("x-forwarded-client-cert", header)
		}
		ctx = metadata.NewIncomingContext(ctx, md)

		// the standard-library facts about the address (model input)
		shape := "AddrNoPort"
		if host, _, err := net.SplitHostPort(addr); err == nil {
			ip, perr := netip.ParseAddr(host)
			isIP := perr == nil
			var ins []string
			for _, cd := range cidrs {
				if !strings.Contains(cd, "/") {
					continue
				}
				pfx, err := netip.ParsePrefix(cd)
				if err != nil {
					continue
				}
				ins = append(ins, vlib.B(isIP && pfx.Contains(ip)))
			}
			shape = vlib.App("AddrHost", vlib.B(isIP), vlib.B(isIP && ip.IsLoopback()), vlib.List(ins))
		}

		var caller *security.Caller
		var aerr error
		panicked, pmsg := vlib.Recover(func() { caller, aerr = a.Authenticate(security.AuthContext{GrpcContext: ctx}) })
		obs, otag := pAuthn(caller, aerr, panicked)
		if panicked {
			c.Violate(vlib.Violation{ID: id, Kind: "panic",
				Detail: fmt.Sprintf("XfccAuthenticator.Authenticate panicked for peer address %q (trusted CIDRs %v): %s", addr, cidrs, pmsg)})
		}
		term := vlib.App("Xfcc", vlib.NI(id), vlib.B(addrEmpty), vlib.B(headerAbsent), shape, parsedTerm, obs)
		c.Add(vlib.Case{ID: id, Term: term, Tags: []string{"xfcc", "xfcc-obs=" + otag},
			Sample: map[string]any{"kind": "XfccAuthenticator.Authenticate", "peer_addr": addr, "trusted_cidrs": cidrs, "header": header, "observed": otag}})
	}
	return id
}
