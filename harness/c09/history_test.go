//go:build verif

package c09

import (
	"context"
	"fmt"
	"net"
	"sort"
	"strings"
	"testing"
	"time"

	"google.golang.org/grpc/codes"
	"google.golang.org/grpc/credentials"
	"google.golang.org/grpc/metadata"
	"google.golang.org/grpc/peer"
	"google.golang.org/grpc/status"
	"google.golang.org/protobuf/types/known/structpb"
	corev1 "k8s.io/api/core/v1"
	metav1 "k8s.io/apimachinery/pkg/apis/meta/v1"
	"k8s.io/apimachinery/pkg/types"

	pb "istio.io/api/security/v1alpha1"
	"istio.io/istio/pilot/pkg/features"
	"istio.io/istio/pkg/cluster"
	"istio.io/istio/pkg/kube"
	"istio.io/istio/pkg/kube/multicluster"
	"istio.io/istio/pkg/security"
	"istio.io/istio/pkg/util/sets"
	caserver "istio.io/istio/security/pkg/server/ca"
	"verif/harness/vlib"
)

// History cases: ONE real Server with its real ClusterNodeAuthorizer over one fake kube client lives
// through a sequence of pod events and impersonation requests.  Every pod event is awaited on the
// authorizer's own informer (VerifOnPodEvent; store and saNode index are updated before handlers
// run), so each request sees exactly the world the model has at that step.

type hop struct {
	kind string // add del req
	pod  podSpec
	k    security.KubernetesInfo
	imp  string
}

func (h hop) term() string {
	switch h.kind {
	case "add":
		p := h.pod
		return vlib.App("HAdd", vlib.App("Build_pod", vlib.Str(p.name), vlib.Str(p.ns), vlib.Str(p.sa), vlib.Str(p.node), vlib.Str(p.uid)))
	case "del":
		return vlib.App("HDel", vlib.Str(h.pod.name), vlib.Str(h.pod.ns))
	}
	return vlib.App("HReq", pKube(h.k), vlib.Str(h.imp))
}

func (h hop) String() string {
	switch h.kind {
	case "add":
		return fmt.Sprintf("pod %s/%s sa=%s node=%s uid=%s", h.pod.ns, h.pod.name, h.pod.sa, h.pod.node, h.pod.uid)
	case "del":
		return fmt.Sprintf("delete pod %s/%s", h.pod.ns, h.pod.name)
	}
	return fmt.Sprintf("request from %s/%s uid=%s sa=%s for %s", h.k.PodNamespace, h.k.PodName, h.k.PodUID, h.k.PodServiceAccount, h.imp)
}

type podEvent struct{ kind, key, node, uid string }

func runHistory(t *testing.T, c *vlib.Collector, id int, env *createEnv, ops []hop, tags ...string) {
	stop := make(chan struct{})
	defer close(stop)
	trusted := [][2]string{{"istio-system", "ztunnel"}}
	tset := sets.New[types.NamespacedName]()
	for _, tr := range trusted {
		tset.Insert(types.NamespacedName{Namespace: tr[0], Name: tr[1]})
	}
	old := features.CATrustedNodeAccounts
	features.CATrustedNodeAccounts = tset
	ctl := multicluster.NewFakeController()
	cfg := env.cas[4] // plugged-in intermediate (EC key), default 1h / max 24h
	srv, err := caserver.New(cfg.ca, time.Hour, nil, ctl)
	features.CATrustedNodeAccounts = old
	if err != nil {
		t.Fatal(err)
	}
	client := kube.NewFakeClient()
	ctl.Add(cluster.ID("c1"), client, stop)
	client.RunAndWait(stop)
	srv.VerifWaitNodeAuthorizers(stop)
	events := make(chan podEvent, 64)
	if !srv.VerifOnPodEvent("c1", func(kind string, p *corev1.Pod) {
		events <- podEvent{kind, p.Namespace + "/" + p.Name, p.Spec.NodeName, string(p.UID)}
	}) {
		t.Fatal("no node authorizer for cluster c1")
	}
	await := func(kind, key, node, uid string) {
		deadline := time.After(20 * time.Second)
		for {
			select {
			case e := <-events:
				if e.key == key && (e.kind == kind || (kind == "add" && e.kind == "update")) && (kind == "delete" || (e.node == node && e.uid == uid)) {
					return
				}
			case <-deadline:
				t.Fatalf("history %d: informer never delivered %s %s", id, kind, key)
			}
		}
	}

	csr := genCsr{}
	for s := uint64(3); ; s++ {
		if g := genCSR(vlib.NewRand(s), env.keys); strings.HasPrefix(g.kind, "ok-p256") {
			csr = g
			break
		}
	}
	exists := map[string]bool{}
	var obs []string
	var log []string
	pods := client.Kube().CoreV1()
	for i, op := range ops {
		switch op.kind {
		case "add":
			key := op.pod.ns + "/" + op.pod.name
			obj := op.pod.obj()
			if exists[key] {
				// same namespace/name: a new incarnation (uid) is delete+create, otherwise an update (e.g. node change)
				if _, err := pods.Pods(op.pod.ns).Update(context.Background(), obj, metav1.UpdateOptions{}); err != nil {
					t.Fatal(err)
				}
				await("update", key, op.pod.node, op.pod.uid)
			} else {
				if _, err := pods.Pods(op.pod.ns).Create(context.Background(), obj, metav1.CreateOptions{}); err != nil {
					t.Fatal(err)
				}
				await("add", key, op.pod.node, op.pod.uid)
			}
			exists[key] = true
		case "del":
			key := op.pod.ns + "/" + op.pod.name
			if !exists[key] {
				t.Fatalf("history %d step %d deletes a pod that does not exist", id, i)
			}
			if err := pods.Pods(op.pod.ns).Delete(context.Background(), op.pod.name, metav1.DeleteOptions{}); err != nil {
				t.Fatal(err)
			}
			await("delete", key, "", "")
			delete(exists, key)
		case "req":
			meta, _ := structpb.NewStruct(map[string]any{security.ImpersonatedIdentity: op.imp})
			ctx := peer.NewContext(context.Background(), &peer.Peer{Addr: &net.IPAddr{IP: net.IPv4(10, 0, 0, 9)}, AuthInfo: credentials.TLSInfo{}})
			ctx = metadata.NewIncomingContext(ctx, metadata.MD{"clusterid": []string{"c1"}})
			srv.Authenticators = []security.Authenticator{&fakeAuthn{caller: &security.Caller{AuthSource: security.AuthSourceIDToken,
				Identities: []string{"spiffe://cluster.local/ns/" + op.k.PodNamespace + "/sa/" + op.k.PodServiceAccount}, KubernetesInfo: op.k}}}
			var resp *pb.IstioCertificateResponse
			var rerr error
			panicked, pmsg := vlib.Recover(func() {
				resp, rerr = srv.CreateCertificate(ctx, &pb.IstioCertificateRequest{Csr: csr.pem, ValidityDuration: 600, Metadata: meta})
			})
			st, _ := status.FromError(rerr)
			switch {
			case panicked:
				c.Violate(vlib.Violation{ID: id, Kind: "panic", Detail: fmt.Sprintf("history step %d (%s) panicked: %s", i, op, pmsg)})
				obs = append(obs, "false")
			case rerr == nil && resp != nil:
				obs = append(obs, "true")
				log = append(log, fmt.Sprintf("step %d: %s => GRANTED", i, op))
				continue
			case st.Code() == codes.Unauthenticated && st.Message() == "request impersonation authentication failure":
				obs = append(obs, "false")
			default:
				c.Violate(vlib.Violation{ID: id, Kind: "oracle", Detail: fmt.Sprintf("history step %d (%s): unexpected status %v", i, op, rerr)})
				obs = append(obs, "false")
			}
			log = append(log, fmt.Sprintf("step %d: %s => denied", i, op))
			continue
		}
		log = append(log, fmt.Sprintf("step %d: %s", i, op))
	}
	trTerm := vlib.ListOf(trusted, func(p [2]string) string { return vlib.Pair(vlib.Str(p[0]), vlib.Str(p[1])) })
	term := vlib.App("History", vlib.NI(id), trTerm, vlib.ListOf(ops, hop.term), vlib.List(obs))
	granted := 0
	for _, o := range obs {
		if o == "true" {
			granted++
		}
	}
	tags = append(tags, "history")
	if granted > 0 && granted < len(obs) {
		tags = append(tags, "history-grants-and-denials")
	}
	c.Add(vlib.Case{ID: id, Term: term, Tags: tags, Trivial: len(obs) == 0,
		Sample: map[string]any{"kind": "node-authorizer history (one long-lived Server/ClusterNodeAuthorizer)", "steps": log}})
}

func genHistory(r *vlib.Rand) []hop {
	nodes := []string{"n1", "n2"}
	zt := func(name, node, uid string) podSpec { return podSpec{name, "istio-system", "ztunnel", node, uid} }
	ops := []hop{{kind: "add", pod: zt("ztunnel-a", "n1", "uz-a1")}}
	if r.Bool() {
		ops = append(ops, hop{kind: "add", pod: zt("ztunnel-b", "n2", "uz-b1")})
	}
	type wl struct{ ns, sa string }
	wls := []wl{{"foo", "bar"}, {"app", "web"}}
	world := map[string]podSpec{}
	for _, o := range ops {
		world[o.pod.ns+"/"+o.pod.name] = o.pod
	}
	uidN := 1
	n := 8 + r.Intn(10)
	for i := 0; i < n; i++ {
		switch x := r.Intn(10); {
		case x < 3: // add or move a workload pod
			w := vlib.Pick(r, wls)
			name := fmt.Sprintf("%s-%d", w.sa, 1+r.Intn(2))
			key := w.ns + "/" + name
			p := podSpec{name, w.ns, w.sa, vlib.Pick(r, nodes), ""}
			if old, ok := world[key]; ok {
				p.uid = old.uid // same incarnation moved to the other node
				if p.node == old.node {
					p.node = nodes[0]
					if old.node == nodes[0] {
						p.node = nodes[1]
					}
				}
			} else {
				uidN++
				p.uid = fmt.Sprintf("u%d", uidN)
			}
			world[key] = p
			ops = append(ops, hop{kind: "add", pod: p})
		case x < 5: // delete a workload pod (or, rarely, a node proxy)
			var all []string
			for k := range world {
				all = append(all, k)
			}
			sort.Strings(all)
			var keys []string
			for _, k := range all {
				if world[k].sa != "ztunnel" || r.Chance(10) {
					keys = append(keys, k)
				}
			}
			if len(keys) == 0 {
				continue
			}
			pick := vlib.Pick(r, keys)
			ops = append(ops, hop{kind: "del", pod: world[pick]})
			delete(world, pick)
		case x == 5: // re-create a node proxy (new uid, maybe other node)
			name := vlib.Pick(r, []string{"ztunnel-a", "ztunnel-b"})
			key := "istio-system/" + name
			if _, ok := world[key]; ok {
				ops = append(ops, hop{kind: "del", pod: world[key]})
				delete(world, key)
			}
			uidN++
			p := zt(name, vlib.Pick(r, nodes), fmt.Sprintf("uz%d", uidN))
			world[key] = p
			ops = append(ops, hop{kind: "add", pod: p})
		default: // request
			name := vlib.Pick(r, []string{"ztunnel-a", "ztunnel-a", "ztunnel-b"})
			k := security.KubernetesInfo{PodName: name, PodNamespace: "istio-system", PodUID: "uz-a1", PodServiceAccount: "ztunnel"}
			if p, ok := world["istio-system/"+name]; ok && r.Chance(90) {
				k.PodUID = p.uid
			}
			w := vlib.Pick(r, wls)
			ops = append(ops, hop{kind: "req", k: k, imp: "spiffe://cluster.local/ns/" + w.ns + "/sa/" + w.sa})
		}
	}
	return ops
}

func runHistories(t *testing.T, c *vlib.Collector, r *vlib.Rand, id int, env *createEnv) int {
	// fixed: grant while the workload is on the node, workload moves away, same request again,
	// workload deleted, again, workload back, again
	zt := security.KubernetesInfo{PodName: "ztunnel-a", PodNamespace: "istio-system", PodUID: "uz-a1", PodServiceAccount: "ztunnel"}
	x := "spiffe://cluster.local/ns/foo/sa/bar"
	fixed := []hop{
		{kind: "add", pod: podSpec{"ztunnel-a", "istio-system", "ztunnel", "n1", "uz-a1"}},
		{kind: "add", pod: podSpec{"bar-1", "foo", "bar", "n1", "u2"}},
		{kind: "req", k: zt, imp: x},
		{kind: "add", pod: podSpec{"bar-1", "foo", "bar", "n2", "u2"}},
		{kind: "req", k: zt, imp: x},
		{kind: "del", pod: podSpec{"bar-1", "foo", "bar", "n2", "u2"}},
		{kind: "req", k: zt, imp: x},
		{kind: "add", pod: podSpec{"bar-2", "foo", "bar", "n1", "u3"}},
		{kind: "req", k: zt, imp: x},
		{kind: "del", pod: podSpec{"bar-2", "foo", "bar", "n1", "u3"}},
		{kind: "req", k: zt, imp: x},
	}
	id++
	if c.Wanted(id) {
		runHistory(t, c, id, env, fixed, "history-witness-grant-move-repeat")
	}
	for i := 0; i < vlib.Scale(60, 1500); i++ {
		id++
		sub := r.Sub()
		if c.Wanted(id) {
			runHistory(t, c, id, env, genHistory(sub))
		}
	}
	return id
}
