//go:build verif

package c09

import (
	"bytes"
	"crypto"
	"crypto/ecdsa"
	"crypto/ed25519"
	"crypto/elliptic"
	"crypto/rand"
	"crypto/rsa"
	"crypto/x509"
	"crypto/x509/pkix"
	"encoding/asn1"
	"encoding/pem"
	"fmt"
	"math/big"
	"net"
	"net/netip"
	"net/url"
	"testing"
	"time"

	corev1 "k8s.io/api/core/v1"
	metav1 "k8s.io/apimachinery/pkg/apis/meta/v1"
	"k8s.io/apimachinery/pkg/runtime"
	"k8s.io/apimachinery/pkg/types"

	pb "istio.io/api/security/v1alpha1"
	"istio.io/istio/pilot/pkg/features"
	"istio.io/istio/pkg/cluster"
	"istio.io/istio/pkg/kube"
	"istio.io/istio/pkg/kube/multicluster"
	"istio.io/istio/pkg/security"
	"istio.io/istio/pkg/util/sets"
	"istio.io/istio/security/pkg/pki/ca"
	"istio.io/istio/security/pkg/pki/util"
	caserver "istio.io/istio/security/pkg/server/ca"
	"verif/harness/vlib"
)

// stdParseAddr is what the Go standard library says about a string (the model's ip_parser).
func stdParseAddr(s string) (is4in6 bool, b []byte, ok bool) {
	a, err := netip.ParseAddr(s)
	if err != nil || !a.IsValid() {
		return false, nil, false
	}
	return a.Is4In6(), a.AsSlice(), true
}

// ------------------------------------------------------------------ keys and CSRs

type keyPool struct {
	signers []crypto.Signer
	spki    [][]byte
	names   []string
}

func newKeyPool(t *testing.T) *keyPool {
	kp := &keyPool{}
	add := func(name string, s crypto.Signer, err error) {
		if err != nil {
			t.Fatal(err)
		}
		der, err := x509.MarshalPKIXPublicKey(s.Public())
		if err != nil {
			t.Fatal(err)
		}
		kp.signers = append(kp.signers, s)
		kp.spki = append(kp.spki, der)
		kp.names = append(kp.names, name)
	}
	k0, err := rsa.GenerateKey(rand.Reader, 2048)
	add("rsa2048", k0, err)
	k1, err := ecdsa.GenerateKey(elliptic.P256(), rand.Reader)
	add("p256", k1, err)
	k2, err := ecdsa.GenerateKey(elliptic.P384(), rand.Reader)
	add("p384", k2, err)
	_, k3, err := ed25519.GenerateKey(rand.Reader)
	add("ed25519", k3, err)
	k4, err := ecdsa.GenerateKey(elliptic.P256(), rand.Reader)
	add("p256b", k4, err)
	// weak and odd key sizes: the CA signs whatever key a well-formed, self-signed CSR carries
	for _, bits := range []int{512, 1024, 1536, 3072} {
		k, err := rsa.GenerateKey(rand.Reader, bits)
		if err != nil {
			continue // this Go version refuses to generate the size
		}
		add(fmt.Sprintf("rsa%d", bits), k, nil)
	}
	k5, err := ecdsa.GenerateKey(elliptic.P224(), rand.Reader)
	add("p224", k5, err)
	k6, err := ecdsa.GenerateKey(elliptic.P521(), rand.Reader)
	add("p521", k6, err)
	return kp
}

// keyID interns a SubjectPublicKeyInfo: index in the pool + 1, or 999 for an unknown key.
func (kp *keyPool) keyID(spki []byte) int {
	for i, d := range kp.spki {
		if bytes.Equal(d, spki) {
			return i + 1
		}
	}
	return 999
}

type genCsr struct {
	pem  string
	term string
	kind string
}

var (
	oidBasicConstraints = asn1.ObjectIdentifier{2, 5, 29, 19}
	oidKeyUsage         = asn1.ObjectIdentifier{2, 5, 29, 15}
	oidNameConstraints  = asn1.ObjectIdentifier{2, 5, 29, 30}
)

func genCSR(r *vlib.Rand, kp *keyPool) genCsr {
	ki := r.Intn(len(kp.signers))
	cn := ""
	if r.Chance(40) {
		cn = vlib.Pick(r, []string{"istiod.istio-system.svc", "spiffe://cluster.local/ns/istio-system/sa/istiod", "x", "root-ca"})
	}
	tmpl := &x509.CertificateRequest{Subject: pkix.Name{CommonName: cn}}
	var sans []string
	if r.Chance(50) {
		tmpl.Subject.Organization = []string{"attacker org"}
	}
	if r.Chance(50) {
		u, _ := url.Parse("spiffe://cluster.local/ns/istio-system/sa/istiod")
		tmpl.URIs = []*url.URL{u}
		tmpl.DNSNames = []string{"istiod.istio-system.svc"}
		sans = append(sans, u.String(), "istiod.istio-system.svc")
		if r.Bool() {
			tmpl.IPAddresses = []net.IP{net.IPv4(10, 0, 0, 1)}
			sans = append(sans, "10.0.0.1")
		}
	}
	wantsCA := false
	extra := 0
	if r.Chance(35) {
		wantsCA = true
		bc, _ := asn1.Marshal(struct {
			IsCA bool `asn1:"optional"`
		}{true})
		tmpl.ExtraExtensions = append(tmpl.ExtraExtensions, pkix.Extension{Id: oidBasicConstraints, Critical: true, Value: bc})
	}
	if r.Chance(25) {
		extra++
		ku, _ := asn1.Marshal(asn1.BitString{Bytes: []byte{0x06}, BitLength: 7}) // keyCertSign | cRLSign
		tmpl.ExtraExtensions = append(tmpl.ExtraExtensions, pkix.Extension{Id: oidKeyUsage, Critical: true, Value: ku})
	}
	if r.Chance(15) {
		extra++
		tmpl.ExtraExtensions = append(tmpl.ExtraExtensions, pkix.Extension{Id: asn1.ObjectIdentifier{1, 3, 6, 1, 4, 1, 99999, 1}, Value: []byte{0x05, 0x00}})
	}
	der, err := x509.CreateCertificateRequest(rand.Reader, tmpl, kp.signers[ki])
	for err != nil { // a key this Go version cannot sign a CSR with: fall back to the first EC key
		ki = 1
		der, err = x509.CreateCertificateRequest(rand.Reader, tmpl, kp.signers[ki])
	}
	status, kind := "CsrOk", "ok-"+kp.names[ki]
	block := &pem.Block{Type: "CERTIFICATE REQUEST", Bytes: der}
	text := ""
	switch r.Intn(14) {
	case 0:
		status, kind = "CsrPemBad", "not-pem"
		text = vlib.Pick(r, []string{"dumb CSR", "", "-----BEGIN CERTIFICATE REQUEST-----\nAAAA", "\x00\xff"})
	case 1:
		status, kind = "CsrParseBad", "pem-garbage-der"
		block.Bytes = vlib.Pick(r, [][]byte{{}, {0x30, 0x03, 0x01, 0x01, 0xff}, der[:len(der)/2]})
	case 2:
		status, kind = "CsrSigBad", "bad-signature"
		bad := append([]byte{}, der...)
		bad[len(bad)-1] ^= 0x55
		block.Bytes = bad
	case 3:
		kind = "ok-odd-pem-type-" + kp.names[ki]
		block.Type = vlib.Pick(r, []string{"CERTIFICATE", "PRIVATE KEY", "NEW CERTIFICATE REQUEST"})
	}
	if text == "" && status != "CsrPemBad" {
		text = string(pem.EncodeToMemory(block))
		if kind[:2] == "ok" && r.Chance(10) {
			text += "trailing garbage after the PEM block"
		}
	}
	term := vlib.App("Build_csr", status, vlib.Str(cn), vlib.NI(ki+1), pStrs(sans), vlib.B(wantsCA), vlib.NI(extra))
	return genCsr{pem: text, term: term, kind: kind}
}

// ------------------------------------------------------------------ CA configurations

type caCfg struct {
	name           string
	ca             *ca.IstioCA
	term           string
	maxTTL         time.Duration
	canSign        bool
	signerNotAfter int64
}

type bundle struct {
	name     string
	b        *util.KeyCertBundle
	signer   *x509.Certificate
	chainLen int
	hasRoot  bool
}

func pemCert(der []byte) []byte {
	return pem.EncodeToMemory(&pem.Block{Type: "CERTIFICATE", Bytes: der})
}

func pemECKey(t *testing.T, k *ecdsa.PrivateKey) []byte {
	der, err := x509.MarshalECPrivateKey(k)
	if err != nil {
		t.Fatal(err)
	}
	return pem.EncodeToMemory(&pem.Block{Type: "EC PRIVATE KEY", Bytes: der})
}

type pki struct {
	rootKey  *ecdsa.PrivateKey
	rootCert *x509.Certificate
	rootPEM  []byte
}

func newPKI(t *testing.T) *pki {
	k, err := ecdsa.GenerateKey(elliptic.P256(), rand.Reader)
	if err != nil {
		t.Fatal(err)
	}
	tmpl := &x509.Certificate{SerialNumber: big.NewInt(1), Subject: pkix.Name{Organization: []string{"verif root"}},
		NotBefore: time.Now().Add(-24 * time.Hour), NotAfter: time.Now().Add(10 * 365 * 24 * time.Hour),
		IsCA: true, BasicConstraintsValid: true, KeyUsage: x509.KeyUsageCertSign | x509.KeyUsageCRLSign}
	der, err := x509.CreateCertificate(rand.Reader, tmpl, tmpl, k.Public(), k)
	if err != nil {
		t.Fatal(err)
	}
	c, _ := x509.ParseCertificate(der)
	return &pki{rootKey: k, rootCert: c, rootPEM: pemCert(der)}
}

// intermediate returns (cert PEM, key PEM, parsed cert) of a CA certificate under the root.
func (p *pki) intermediate(t *testing.T, notAfter time.Time) ([]byte, []byte, *x509.Certificate) {
	k, err := ecdsa.GenerateKey(elliptic.P256(), rand.Reader)
	if err != nil {
		t.Fatal(err)
	}
	tmpl := &x509.Certificate{SerialNumber: big.NewInt(time.Now().UnixNano()), Subject: pkix.Name{Organization: []string{"verif intermediate"}},
		NotBefore: time.Now().Add(-48 * time.Hour), NotAfter: notAfter,
		IsCA: true, BasicConstraintsValid: true, KeyUsage: x509.KeyUsageCertSign | x509.KeyUsageCRLSign}
	der, err := x509.CreateCertificate(rand.Reader, tmpl, p.rootCert, k.Public(), p.rootKey)
	if err != nil {
		t.Fatal(err)
	}
	c, _ := x509.ParseCertificate(der)
	return pemCert(der), pemECKey(t, k), c
}

func buildBundles(t *testing.T, p *pki) []bundle {
	var out []bundle
	// self-signed, as istiod builds it without Kubernetes
	opts, err := ca.NewSelfSignedDebugIstioCAOptions("", 365*24*time.Hour, time.Hour, 24*time.Hour, "verif.org", 2048)
	if err != nil {
		t.Fatal(err)
	}
	sc, _, _, root := opts.KeyCertBundle.GetAll()
	out = append(out, bundle{name: "self-signed", b: opts.KeyCertBundle, signer: sc, chainLen: 0, hasRoot: len(root) > 0})

	// plugged-in intermediate with a cert chain
	cPEM, kPEM, cc := p.intermediate(t, time.Now().Add(90*24*time.Hour))
	b, err := util.NewVerifiedKeyCertBundleFromPem(cPEM, kPEM, cPEM, p.rootPEM, nil)
	if err != nil {
		t.Fatal(err)
	}
	out = append(out, bundle{name: "plugged-in", b: b, signer: cc, chainLen: 1, hasRoot: true})

	// plugged-in, two certificates in the chain file
	cPEM2, kPEM2, cc2 := p.intermediate(t, time.Now().Add(30*24*time.Hour))
	b2, err := util.NewVerifiedKeyCertBundleFromPem(cPEM2, kPEM2, append(append([]byte{}, cPEM2...), p.rootPEM...), p.rootPEM, nil)
	if err != nil {
		t.Fatal(err)
	}
	out = append(out, bundle{name: "plugged-in-chain2", b: b2, signer: cc2, chainLen: 2, hasRoot: true})

	// signer that expires in 40 minutes (no chain, so the default TTL is not shortened by minTTL)
	cPEM3, kPEM3, cc3 := p.intermediate(t, time.Now().Add(40*time.Minute))
	b3, err := util.NewVerifiedKeyCertBundleFromPem(cPEM3, kPEM3, nil, p.rootPEM, nil)
	if err != nil {
		t.Fatal(err)
	}
	out = append(out, bundle{name: "signer-near-expiry", b: b3, signer: cc3, chainLen: 0, hasRoot: true})

	// signer that has already expired
	cPEM4, kPEM4, cc4 := p.intermediate(t, time.Now().Add(-time.Hour))
	out = append(out, bundle{name: "signer-expired", b: util.NewKeyCertBundleFromPem(cPEM4, kPEM4, nil, p.rootPEM, nil), signer: cc4, chainLen: 0, hasRoot: true})

	// no signing certificate at all
	out = append(out, bundle{name: "not-ready", b: util.NewKeyCertBundleFromPem(nil, nil, nil, p.rootPEM, nil), signer: nil, chainLen: 0, hasRoot: true})
	return out
}

func buildCAs(t *testing.T, bundles []bundle) []*caCfg {
	ttls := []struct{ d, m time.Duration }{
		{time.Hour, 24 * time.Hour},
		{24 * time.Hour, time.Hour}, // default above max
		{90 * time.Second, 90 * time.Second},
		{24 * time.Hour, 100 * 24 * time.Hour},
	}
	var out []*caCfg
	for _, b := range bundles {
		for _, tt := range ttls {
			ica, err := ca.NewIstioCA(&ca.IstioCAOptions{DefaultCertTTL: tt.d, MaxCertTTL: tt.m, KeyCertBundle: b.b})
			if err != nil {
				t.Fatalf("NewIstioCA %s: %v", b.name, err)
			}
			signer := "None"
			var sna int64
			if b.signer != nil {
				sna = b.signer.NotAfter.UnixNano()
				signer = vlib.App("Some", vlib.App("Build_signer", vlib.Z(sna), vlib.B(len(b.signer.SubjectKeyId) > 0)))
			}
			term := vlib.App("Build_ca_cfg", signer, vlib.Z(int64(ica.VerifDefaultCertTTL())), vlib.Z(int64(ica.VerifMaxCertTTL())),
				vlib.NI(b.chainLen), vlib.B(b.hasRoot))
			out = append(out, &caCfg{name: b.name, ca: ica, term: term, maxTTL: tt.m,
				canSign: b.signer != nil && b.signer.NotAfter.After(time.Now()), signerNotAfter: sna})
		}
	}
	return out
}

// ------------------------------------------------------------------ node authorizer worlds

type podSpec struct{ name, ns, sa, node, uid string }

type clusterSpec struct {
	id   string
	pods []podSpec
}

type world struct {
	hasNA    bool
	trusted  [][2]string // (namespace, name)
	clusters []clusterSpec
	callers  []security.KubernetesInfo
	server   *caserver.Server
	term     string
}

func (p podSpec) obj() *corev1.Pod {
	return &corev1.Pod{
		ObjectMeta: metav1.ObjectMeta{Name: p.name, Namespace: p.ns, UID: types.UID(p.uid)},
		Spec:       corev1.PodSpec{ServiceAccountName: p.sa, NodeName: p.node},
	}
}

func worldSpecs() []*world {
	zt1 := podSpec{"ztunnel-a", "istio-system", "ztunnel", "n1", "u-zt-a"}
	zt2 := podSpec{"ztunnel-b", "istio-system", "ztunnel", "n2", "u-zt-b"}
	c1 := clusterSpec{id: "c1", pods: []podSpec{zt1, zt2,
		{"web-1", "app", "web", "n1", "u1"},
		{"db-1", "app", "db", "n2", "u2"},
		{"bar-1", "foo", "bar", "n1", "u3"},
		{"nonode", "app", "pending", "", "u4"},
		{"nosa", "app", "", "n1", "u5"},
		{"istiod-1", "istio-system", "istiod", "n2", "u6"},
		{"agent-1", "kube-system", "node-agent", "n1", "u7"},
		{"zt-nonode", "istio-system", "ztunnel", "", "u8"},
	}}
	c2 := clusterSpec{id: "c2", pods: []podSpec{
		{"ztunnel-a", "istio-system", "ztunnel", "m1", "u-zt-a2"},
		{"web-9", "app", "web", "m1", "u9"},
		{"bar-9", "foo", "bar", "m2", "u10"},
	}}
	callers := []security.KubernetesInfo{
		{PodName: "ztunnel-a", PodNamespace: "istio-system", PodUID: "u-zt-a", PodServiceAccount: "ztunnel"},
		{PodName: "ztunnel-a", PodNamespace: "istio-system", PodUID: "u-zt-a", PodServiceAccount: "ztunnel"},
		{PodName: "ztunnel-b", PodNamespace: "istio-system", PodUID: "u-zt-b", PodServiceAccount: "ztunnel"},
		{PodName: "ztunnel-a", PodNamespace: "istio-system", PodUID: "u-zt-a2", PodServiceAccount: "ztunnel"},
		{PodName: "ztunnel-a", PodNamespace: "istio-system", PodUID: "stale-uid", PodServiceAccount: "ztunnel"},
		{PodName: "ztunnel-gone", PodNamespace: "istio-system", PodUID: "u-zt-a", PodServiceAccount: "ztunnel"},
		{PodName: "web-1", PodNamespace: "app", PodUID: "u1", PodServiceAccount: "web"},
		{PodName: "agent-1", PodNamespace: "kube-system", PodUID: "u7", PodServiceAccount: "node-agent"},
		{PodName: "istiod-1", PodNamespace: "istio-system", PodUID: "u6", PodServiceAccount: "ztunnel"}, // SA differs from the pod's
		{PodName: "zt-nonode", PodNamespace: "istio-system", PodUID: "u8", PodServiceAccount: "ztunnel"},
		{PodName: "", PodNamespace: "istio-system", PodUID: "", PodServiceAccount: "ztunnel"},
	}
	return []*world{
		{hasNA: false, callers: callers},
		{hasNA: true, trusted: [][2]string{{"istio-system", "ztunnel"}}, clusters: []clusterSpec{c1, c2}, callers: callers},
		{hasNA: true, trusted: [][2]string{{"istio-system", "ztunnel"}, {"kube-system", "node-agent"}}, clusters: []clusterSpec{c1}, callers: callers},
	}
}

func (w *world) build(t *testing.T, stop chan struct{}, anyCA *ca.IstioCA) {
	trusted := sets.New[types.NamespacedName]()
	for _, tr := range w.trusted {
		trusted.Insert(types.NamespacedName{Namespace: tr[0], Name: tr[1]})
	}
	old := features.CATrustedNodeAccounts
	features.CATrustedNodeAccounts = trusted
	ctl := multicluster.NewFakeController()
	srv, err := caserver.New(anyCA, time.Hour, nil, ctl)
	features.CATrustedNodeAccounts = old
	if err != nil {
		t.Fatal(err)
	}
	if srv.VerifHasNodeAuthorizer() != w.hasNA {
		t.Fatalf("node authorizer presence %v, wanted %v", srv.VerifHasNodeAuthorizer(), w.hasNA)
	}
	for _, cl := range w.clusters {
		var objs []runtime.Object
		for _, p := range cl.pods {
			objs = append(objs, p.obj())
		}
		client := kube.NewFakeClient(objs...)
		ctl.Add(cluster.ID(cl.id), client, stop)
		client.RunAndWait(stop)
	}
	srv.VerifWaitNodeAuthorizers(stop)
	w.server = srv

	trTerm := vlib.ListOf(w.trusted, func(p [2]string) string { return vlib.Pair(vlib.Str(p[0]), vlib.Str(p[1])) })
	clTerm := vlib.ListOf(w.clusters, func(cl clusterSpec) string {
		return vlib.Pair(vlib.Str(cl.id), vlib.ListOf(cl.pods, func(p podSpec) string {
			return vlib.App("Build_pod", vlib.Str(p.name), vlib.Str(p.ns), vlib.Str(p.sa), vlib.Str(p.node), vlib.Str(p.uid))
		}))
	})
	w.term = vlib.App("Build_node_auth", trTerm, clTerm)
}

type createEnv struct {
	keys    *keyPool
	pki     *pki
	bundles []bundle
	cas     []*caCfg
	worlds  []*world
}

func newCreateEnv(t *testing.T, stop chan struct{}) *createEnv {
	e := &createEnv{keys: newKeyPool(t), pki: newPKI(t)}
	e.bundles = buildBundles(t, e.pki)
	e.cas = buildCAs(t, e.bundles)
	e.worlds = worldSpecs()
	for _, w := range e.worlds {
		w.build(t, stop, e.cas[0].ca)
	}
	return e
}

// ------------------------------------------------------------------ decoding the issued leaf

type sanEntry struct {
	kind int // GeneralName tag: 2 dNSName, 6 URI, 7 iPAddress
	val  []byte
}

type leafView struct {
	sans        []sanEntry
	sanCritical bool
	cn          string
	isCA        bool
	bcValid     bool
	key         int
	keyUsage    int
	eku         []int
	notBefore   int64
	notAfter    int64
	hasAKI      bool
	otherExts   int
	x509ok      bool
}

// lenient DER view of a certificate (crypto/x509 rejects certificates whose SAN values it finds
// malformed, e.g. a URI that does not parse; the CA may still have issued them)
type lValidity struct{ NotBefore, NotAfter time.Time }
type lSPKI struct {
	Raw       asn1.RawContent
	Algorithm pkix.AlgorithmIdentifier
	PublicKey asn1.BitString
}
type lTBS struct {
	Raw          asn1.RawContent
	Version      int `asn1:"optional,explicit,default:0,tag:0"`
	SerialNumber *big.Int
	SigAlg       pkix.AlgorithmIdentifier
	Issuer       asn1.RawValue
	Validity     lValidity
	Subject      asn1.RawValue
	PublicKey    lSPKI
	UniqueID     asn1.BitString   `asn1:"optional,tag:1"`
	SubjectUID   asn1.BitString   `asn1:"optional,tag:2"`
	Extensions   []pkix.Extension `asn1:"omitempty,optional,explicit,tag:3"`
}
type lCert struct {
	Raw    asn1.RawContent
	TBS    lTBS
	SigAlg pkix.AlgorithmIdentifier
	Sig    asn1.BitString
}

func decodeSAN(val []byte) ([]sanEntry, error) {
	var seq asn1.RawValue
	rest, err := asn1.Unmarshal(val, &seq)
	if err != nil {
		return nil, err
	}
	if len(rest) != 0 || !seq.IsCompound || seq.Tag != asn1.TagSequence || seq.Class != asn1.ClassUniversal {
		return nil, fmt.Errorf("SAN value is not one SEQUENCE")
	}
	var out []sanEntry
	for b := seq.Bytes; len(b) > 0; {
		var v asn1.RawValue
		b, err = asn1.Unmarshal(b, &v)
		if err != nil {
			return nil, err
		}
		if v.Class != asn1.ClassContextSpecific {
			return nil, fmt.Errorf("GeneralName with class %d", v.Class)
		}
		out = append(out, sanEntry{kind: v.Tag, val: v.Bytes})
	}
	return out, nil
}

func viewLeaf(resp *pb.IstioCertificateResponse, kp *keyPool) (*leafView, error) {
	if resp == nil || len(resp.CertChain) == 0 {
		return nil, fmt.Errorf("empty cert chain")
	}
	block, _ := pem.Decode([]byte(resp.CertChain[0]))
	if block == nil || block.Type != "CERTIFICATE" {
		return nil, fmt.Errorf("cert_chain[0] is not a CERTIFICATE PEM block")
	}
	var lc lCert
	rest, err := asn1.Unmarshal(block.Bytes, &lc)
	if err != nil || len(rest) != 0 {
		return nil, fmt.Errorf("leaf DER: %v (rest %d)", err, len(rest))
	}
	v := &leafView{notBefore: lc.TBS.Validity.NotBefore.UnixNano(), notAfter: lc.TBS.Validity.NotAfter.UnixNano()}
	v.key = kp.keyID(lc.TBS.PublicKey.Raw)
	var rdn pkix.RDNSequence
	if _, err := asn1.Unmarshal(lc.TBS.Subject.FullBytes, &rdn); err != nil {
		return nil, fmt.Errorf("subject: %v", err)
	}
	var name pkix.Name
	name.FillFromRDNSequence(&rdn)
	v.cn = name.CommonName
	if len(name.Names) > 1 || (len(name.Names) == 1 && name.CommonName == "") {
		v.otherExts += 100 // subject attributes other than CN reached the certificate
	}
	seenSAN := false
	for _, e := range lc.TBS.Extensions {
		switch {
		case e.Id.Equal(asn1.ObjectIdentifier{2, 5, 29, 15}):
			var bs asn1.BitString
			if _, err := asn1.Unmarshal(e.Value, &bs); err != nil {
				return nil, err
			}
			for i := 0; i < 9; i++ {
				if bs.At(i) != 0 {
					v.keyUsage |= 1 << uint(i)
				}
			}
		case e.Id.Equal(asn1.ObjectIdentifier{2, 5, 29, 37}):
			var oids []asn1.ObjectIdentifier
			if _, err := asn1.Unmarshal(e.Value, &oids); err != nil {
				return nil, err
			}
			for _, o := range oids {
				switch {
				case o.Equal(asn1.ObjectIdentifier{1, 3, 6, 1, 5, 5, 7, 3, 1}):
					v.eku = append(v.eku, int(x509.ExtKeyUsageServerAuth))
				case o.Equal(asn1.ObjectIdentifier{1, 3, 6, 1, 5, 5, 7, 3, 2}):
					v.eku = append(v.eku, int(x509.ExtKeyUsageClientAuth))
				default:
					v.eku = append(v.eku, 99)
				}
			}
		case e.Id.Equal(oidBasicConstraints):
			var bc struct {
				IsCA       bool `asn1:"optional"`
				MaxPathLen int  `asn1:"optional,default:-1"`
			}
			if _, err := asn1.Unmarshal(e.Value, &bc); err != nil {
				return nil, err
			}
			v.bcValid, v.isCA = true, bc.IsCA
		case e.Id.Equal(asn1.ObjectIdentifier{2, 5, 29, 35}):
			v.hasAKI = true
		case e.Id.Equal(util.OidSubjectAlternativeName):
			if seenSAN {
				v.otherExts++
				continue
			}
			seenSAN = true
			v.sanCritical = e.Critical
			v.sans, err = decodeSAN(e.Value)
			if err != nil {
				return nil, err
			}
		default:
			v.otherExts++
		}
	}
	_, perr := x509.ParseCertificate(block.Bytes)
	v.x509ok = perr == nil
	return v, nil
}

// ------------------------------------------------------------------ NewIstioCA / minTTL cases

func runNewCA(t *testing.T, c *vlib.Collector, r *vlib.Rand, id int, env *createEnv) int {
	offsets := []time.Duration{-time.Hour, 20 * time.Minute, 10 * 24 * time.Hour}
	type chainB struct {
		b  *util.KeyCertBundle
		na int64
	}
	var chains []chainB
	for _, off := range offsets {
		cPEM, kPEM, cc := env.pki.intermediate(t, time.Now().Add(off))
		chains = append(chains, chainB{util.NewKeyCertBundleFromPem(cPEM, kPEM, cPEM, env.pki.rootPEM, nil), cc.NotAfter.UnixNano()})
	}
	cPEM, kPEM, _ := env.pki.intermediate(t, time.Now().Add(20*time.Minute))
	nochain := util.NewKeyCertBundleFromPem(cPEM, kPEM, nil, env.pki.rootPEM, nil)
	for i := 0; i < vlib.Scale(40, 400); i++ {
		id++
		if !c.Wanted(id) {
			r.U64()
			continue
		}
		sub := r.Sub()
		def := vlib.Pick(sub, []time.Duration{time.Minute, 19 * time.Minute, 21 * time.Minute, time.Hour, 24 * time.Hour, 365 * 24 * time.Hour})
		b, chainTerm, kind := nochain, "None", "no-chain"
		if sub.Chance(80) {
			ch := vlib.Pick(sub, chains)
			b, chainTerm, kind = ch.b, vlib.App("Some", vlib.Z(ch.na)), "chain"
		}
		t0 := time.Now().UnixNano()
		ica, err := ca.NewIstioCA(&ca.IstioCAOptions{DefaultCertTTL: def, MaxCertTTL: 2 * def, KeyCertBundle: b})
		t1 := time.Now().UnixNano()
		obs := "None"
		if err == nil {
			obs = vlib.App("Some", vlib.Z(int64(ica.VerifDefaultCertTTL())))
		}
		term := vlib.App("NewCA", vlib.NI(id), vlib.Z(int64(def)), chainTerm, vlib.Z(t0), vlib.Z(t1), obs)
		c.Add(vlib.Case{ID: id, Term: term, Tags: []string{"new-ca", "new-ca-" + kind, fmt.Sprintf("new-ca-ok=%v", err == nil)},
			Sample: map[string]any{"kind": "NewIstioCA", "default": def.String(), "chain": kind}})
	}
	return id
}
