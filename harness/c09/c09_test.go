//go:build verif

// Package c09 drives the real istiod CA server (Server.CreateCertificate with a real in-memory
// IstioCA), the real authenticators and the SAN builder on generated inputs and prints what they
// did as Gallina terms for coq/C09/Run.v.
package c09

import (
	"context"
	"errors"
	"fmt"
	"net"
	"strings"
	"testing"
	"time"

	"google.golang.org/grpc/codes"
	"google.golang.org/grpc/credentials"
	"google.golang.org/grpc/metadata"
	"google.golang.org/grpc/peer"
	"google.golang.org/grpc/status"
	"google.golang.org/protobuf/types/known/structpb"

	pb "istio.io/api/security/v1alpha1"
	"istio.io/istio/pilot/pkg/features"
	"istio.io/istio/pkg/security"
	"istio.io/istio/pkg/spiffe"
	"istio.io/istio/security/pkg/pki/ca"
	caerror "istio.io/istio/security/pkg/pki/error"
	"istio.io/istio/security/pkg/pki/util"
	"verif/harness/vlib"
)

const (
	// id offset of the trust-domain companion of a Create case (see execCreate)
	tdCompanionOffset = 1000000

	findTd = "C09-impersonation-trust-domain-unchecked"
)

// inCallerTrustDomain: the impersonated identity lies in the trust domain of one of the caller's
// SPIFFE identities (used only to decide which cases get the companion case / finding label).
func inCallerTrustDomain(callerIDs []string, imp string) bool {
	r, err := spiffe.ParseIdentity(imp)
	if err != nil {
		return false
	}
	for _, s := range callerIDs {
		if c, err := spiffe.ParseIdentity(s); err == nil && c.TrustDomain == r.TrustDomain {
			return true
		}
	}
	return false
}

// ------------------------------------------------------------------ fake authenticator

type fakeAuthn struct {
	caller *security.Caller
	err    error
}

func (f *fakeAuthn) AuthenticatorType() string { return "verif-fake" }
func (f *fakeAuthn) Authenticate(security.AuthContext) (*security.Caller, error) {
	return f.caller, f.err
}

type otherAuthInfo struct{}

func (otherAuthInfo) AuthType() string { return "other" }

// ------------------------------------------------------------------ generators

var identityPool = []string{
	"spiffe://cluster.local/ns/foo/sa/bar",
	"spiffe://cluster.local/ns/istio-system/sa/istiod",
	"spiffe://td2/ns/a/sa/b",
	"spiffe://cluster.local/ns/app/sa/web",
	"istiod.istio-system.svc",
	"a.example.com",
	"test-identity",
	"10.1.2.3",
	"::1",
	"::ffff:1.2.3.4",
	"2001:db8::1",
	"fe80::1%eth0",
	"01.2.3.4",
	"1.2.3.4.5",
	"spiffe://",
	"SPIFFE://cluster.local/ns/foo/sa/bar",
	" ",
	"caf\xc3\xa9.example.com",
	"spiffe://cluster.local/ns/" + strings.Repeat("n", 70) + "/sa/x",
	strings.Repeat("d", 64),
	strings.Repeat("d", 65),
}

// identities that the join(",")/split(",") round trip does not preserve
var commaPool = []string{
	"a,b",
	"spiffe://cluster.local/ns/foo/sa/bar,istiod.istio-system.svc",
	"x,10.0.0.1",
	",",
	"spiffe://a,spiffe://cluster.local/ns/istio-system/sa/istiod",
	"trailing,",
	",leading",
}

func genIdentity(r *vlib.Rand) string {
	switch {
	case r.Chance(4):
		return ""
	case r.Chance(5):
		return vlib.Pick(r, commaPool)
	default:
		return vlib.Pick(r, identityPool)
	}
}

func genIdentities(r *vlib.Rand) []string {
	n := 1
	switch {
	case r.Chance(3):
		n = 0
	case r.Chance(25):
		n = 2 + r.Intn(3)
	}
	out := make([]string, 0, n)
	for i := 0; i < n; i++ {
		out = append(out, genIdentity(r))
	}
	return out
}

// ------------------------------------------------------------------ printers

func pStrs(xs []string) string { return vlib.ListOf(xs, vlib.Str) }

func pBytes(bs []byte) string {
	return vlib.ListOf(bs, func(b byte) string { return vlib.NI(int(b)) })
}

func pKube(k security.KubernetesInfo) string {
	return vlib.App("Build_kube_info", vlib.Str(k.PodName), vlib.Str(k.PodNamespace), vlib.Str(k.PodUID), vlib.Str(k.PodServiceAccount))
}

func pIPTab(strs []string) string {
	seen := map[string]bool{}
	var out []string
	for _, s := range strs {
		for _, piece := range strings.Split(s, ",") {
			if seen[piece] {
				continue
			}
			seen[piece] = true
			if is4in6, bytes, ok := stdParseAddr(piece); ok {
				out = append(out, vlib.Pair(vlib.Str(piece), vlib.Pair(vlib.B(is4in6), pBytes(bytes))))
			}
		}
	}
	return vlib.List(out)
}

func pSan(s sanEntry) string {
	switch s.kind {
	case 7:
		return vlib.App("SIP", pBytes(s.val))
	case 6:
		return vlib.App("SURI", vlib.Str(string(s.val)))
	case 2:
		return vlib.App("SDNS", vlib.Str(string(s.val)))
	}
	return vlib.App("SDNS", vlib.Str(fmt.Sprintf("?tag%d:%x", s.kind, s.val)))
}

func pCert(c *leafView) string {
	return vlib.App("Build_cert",
		vlib.ListOf(c.sans, pSan), vlib.B(c.sanCritical), vlib.Str(c.cn), vlib.B(c.isCA), vlib.B(c.bcValid),
		vlib.NI(c.key), vlib.NI(c.keyUsage), vlib.ListOf(c.eku, vlib.NI),
		vlib.Z(c.notBefore), vlib.Z(c.notAfter), vlib.B(c.hasAKI), vlib.NI(c.otherExts))
}

// ------------------------------------------------------------------ Create cases

type mdVal struct {
	kind string // str num bool null list struct
	s    string
}

func (m mdVal) term() string {
	switch m.kind {
	case "str":
		return vlib.App("MStr", vlib.Str(m.s))
	case "num":
		return "MNum"
	case "bool":
		return "MBool"
	case "null":
		return "MNull"
	case "list":
		return "MList"
	}
	return "MStruct"
}

func (m mdVal) value() any {
	switch m.kind {
	case "str":
		return m.s
	case "num":
		return 42.0
	case "bool":
		return true
	case "null":
		return nil
	case "list":
		return []any{m.s}
	}
	return map[string]any{"ImpersonatedIdentity": m.s}
}

func genValidity(r *vlib.Rand, maxS int64) int64 {
	pool := []int64{0, 0, -1, -3600, 1, 60, 3600, 86400, maxS, maxS + 1, maxS - 1, maxS / 2, 1 << 40,
		9223372037, 18446744074, 1 << 62, -(1 << 63), (1 << 63) - 1, 9223372036, 2 * 9223372037}
	if r.Chance(20) {
		return int64(r.Intn(int(maxS)+600)) - 300
	}
	return vlib.Pick(r, pool)
}

func genImpersonation(r *vlib.Rand, w *world) string {
	var pods []podSpec
	for _, cl := range w.clusters {
		pods = append(pods, cl.pods...)
	}
	td := vlib.Pick(r, []string{"cluster.local", "cluster.local", "other.td", ""})
	p := podSpec{ns: "foo", sa: "bar"}
	if len(pods) > 0 {
		p = vlib.Pick(r, pods)
	}
	base := "spiffe://" + td + "/ns/" + p.ns + "/sa/" + p.sa
	switch r.Intn(14) {
	case 0:
		return "not-spiffe"
	case 1:
		return "spiffe://" + td + "/ns/" + p.ns + "/sa/" + p.sa + "/extra"
	case 2:
		return "spiffe://" + td + "/nx/" + p.ns + "/sa/" + p.sa
	case 3:
		return "spiffe://" + td + "/ns/" + p.ns + "/sa/unknown-sa"
	case 4:
		// the trust domain is not looked at by the authorizer: commas smuggle extra SAN pieces
		return "spiffe://" + td + ",istiod.istio-system.svc,x/ns/" + p.ns + "/sa/" + p.sa
	case 5:
		return "spiffe://a,10.0.0.1,b/ns/" + p.ns + "/sa/" + p.sa
	case 6:
		return base + ",istiod.istio-system.svc"
	case 7:
		return "spiffe://" + td + "/ns/" + p.ns + ",evil/sa/" + p.sa
	case 8:
		return vlib.Pick(r, identityPool)
	default:
		return base
	}
}

type kv struct {
	k string
	v mdVal
}

type authSpec struct {
	hasCaller bool
	ids       []string
	k         security.KubernetesInfo
	hasErr    bool
}

type createIn struct {
	w                                *world
	cfg                              *caCfg
	xdsAuth, hasPeer, tls, plaintext bool
	nilAuthInfo, withMD, withMeta    bool
	auth                             []authSpec
	md                               []kv
	clusterIDs                       []string
	csr                              genCsr
	validity                         int64
}

func runCreate(c *vlib.Collector, r *vlib.Rand, id int, env *createEnv) {
	in := createIn{xdsAuth: true, hasPeer: true, tls: true}
	in.w = vlib.Pick(r, env.worlds)
	in.cfg = vlib.Pick(r, env.cas)
	if r.Chance(70) { // mostly CAs that can sign
		for i := 0; i < 4 && !in.cfg.canSign; i++ {
			in.cfg = vlib.Pick(r, env.cas)
		}
	}
	if r.Chance(6) {
		switch r.Intn(4) {
		case 0:
			in.xdsAuth = false
		case 1:
			in.hasPeer = false
		case 2:
			in.tls = false
		case 3:
			in.tls, in.plaintext = false, true
		}
	}
	in.nilAuthInfo, in.withMD, in.withMeta = r.Bool(), r.Bool(), r.Bool()
	nAuth := 1
	if r.Chance(25) {
		nAuth = 1 + r.Intn(3)
		if r.Chance(10) {
			nAuth = 0
		}
	}
	for i := 0; i < nAuth; i++ {
		a := authSpec{hasCaller: true}
		switch {
		case r.Chance(5):
			a.hasCaller = false
			a.hasErr = r.Bool()
		case r.Chance(4):
			a.hasErr = true
		}
		if a.hasCaller {
			a.ids = genIdentities(r)
			if r.Chance(75) && len(in.w.callers) > 0 {
				a.k = vlib.Pick(r, in.w.callers)
			}
		}
		in.auth = append(in.auth, a)
	}
	forcedCluster := ""
	if r.Chance(45) {
		imp := genImpersonation(r, in.w)
		if r.Chance(70) {
			// mostly-valid: a world with a node authorizer, a trusted caller whose pod is known, and a
			// workload on the caller's node; then the identity string is varied
			in.w = env.worlds[1+r.Intn(len(env.worlds)-1)]
			cl := vlib.Pick(r, in.w.clusters)
			forcedCluster = cl.id
			var zts []podSpec
			for _, p := range cl.pods {
				for _, tr := range in.w.trusted {
					if p.ns == tr[0] && p.sa == tr[1] && p.node != "" {
						zts = append(zts, p)
					}
				}
			}
			zt := vlib.Pick(r, zts)
			k := security.KubernetesInfo{PodName: zt.name, PodNamespace: zt.ns, PodUID: zt.uid, PodServiceAccount: zt.sa}
			for i := range in.auth {
				if in.auth[i].hasCaller {
					in.auth[i].k = k
					if r.Chance(85) {
						in.auth[i].ids = []string{"spiffe://cluster.local/ns/" + zt.ns + "/sa/" + zt.sa}
					}
				}
			}
			var same []podSpec
			for _, p := range cl.pods {
				if p.node == zt.node && p.sa != "" {
					same = append(same, p)
				}
			}
			tgt := vlib.Pick(r, same)
			if r.Chance(15) {
				tgt = vlib.Pick(r, cl.pods)
			}
			td := vlib.Pick(r, []string{"cluster.local", "cluster.local", "cluster.local", "cluster.local", "other.td", "", "a@b"})
			switch r.Intn(10) {
			case 0:
				td += ",istiod.istio-system.svc,x"
			case 1:
				td = "a,10.0.0.1,b"
			}
			imp = "spiffe://" + td + "/ns/" + tgt.ns + "/sa/" + tgt.sa
		}
		v := mdVal{kind: "str", s: imp}
		if r.Chance(6) {
			v.kind = vlib.Pick(r, []string{"num", "bool", "null", "list", "struct"})
		}
		in.md = append(in.md, kv{security.ImpersonatedIdentity, v})
	}
	if r.Chance(25) {
		in.md = append(in.md, kv{security.CertSigner, mdVal{kind: "str", s: vlib.Pick(r, []string{"", "signer-a", "clusterissuers.istio-system"})}})
	}
	if r.Chance(20) {
		in.md = append(in.md, kv{vlib.Pick(r, []string{"SubjectIDs", "ForCA", "impersonatedidentity", "TTL"}),
			mdVal{kind: "str", s: "spiffe://cluster.local/ns/istio-system/sa/istiod"}})
	}
	switch {
	case forcedCluster != "" && r.Chance(90):
		in.clusterIDs = []string{forcedCluster}
	case r.Chance(70) && len(in.w.clusters) > 0:
		in.clusterIDs = []string{vlib.Pick(r, in.w.clusters).id}
	case r.Chance(30):
		in.clusterIDs = []string{"unknown-cluster"}
	case r.Chance(30):
		in.clusterIDs = []string{"c1", "c1"}
	}
	in.csr = genCSR(r, env.keys)
	in.validity = genValidity(r, int64(in.cfg.maxTTL/time.Second))
	execCreate(c, id, env, in)
}

func execCreate(c *vlib.Collector, id int, env *createEnv, in createIn) {
	w, cfg := in.w, in.cfg
	var authns []security.Authenticator
	var rsTerms []string
	var allIDs []string
	for _, a := range in.auth {
		f := &fakeAuthn{}
		callerTerm := "None"
		if a.hasCaller {
			f.caller = &security.Caller{AuthSource: security.AuthSourceIDToken, Identities: a.ids, KubernetesInfo: a.k}
			allIDs = append(allIDs, a.ids...)
			callerTerm = vlib.App("Some", vlib.App("Build_caller", pStrs(a.ids), pKube(a.k)))
		}
		if a.hasErr {
			f.err = fmt.Errorf("generated authenticator failure")
		}
		authns = append(authns, f)
		rsTerms = append(rsTerms, vlib.App("Build_auth_result", callerTerm, vlib.B(a.hasErr)))
	}
	var issuedTo []string
	for _, a := range in.auth {
		if a.hasCaller && !a.hasErr && len(a.ids) > 0 {
			issuedTo = a.ids
			break
		}
	}
	imp := ""
	var reqMeta *structpb.Struct
	if len(in.md) > 0 || in.withMeta {
		m := map[string]any{}
		for _, e := range in.md {
			m[e.k] = e.v.value()
			if e.k == security.ImpersonatedIdentity && e.v.kind == "str" {
				imp = e.v.s
			}
		}
		reqMeta, _ = structpb.NewStruct(m)
	}

	// ---- run the real code
	ctx := context.Background()
	if in.hasPeer {
		var ai credentials.AuthInfo = credentials.TLSInfo{}
		if !in.tls {
			if in.nilAuthInfo {
				ai = nil
			} else {
				ai = otherAuthInfo{}
			}
		}
		ctx = peer.NewContext(ctx, &peer.Peer{Addr: &net.IPAddr{IP: net.IPv4(192, 168, 1, 1)}, AuthInfo: ai})
	}
	mdHdr := metadata.MD{}
	if len(in.clusterIDs) > 0 {
		mdHdr["clusterid"] = in.clusterIDs
	}
	if len(mdHdr) > 0 || in.withMD {
		ctx = metadata.NewIncomingContext(ctx, mdHdr)
	}
	req := &pb.IstioCertificateRequest{Csr: in.csr.pem, ValidityDuration: in.validity, Metadata: reqMeta}

	oldXDS, oldPT := features.XDSAuth, security.AuthPlaintext
	features.XDSAuth, security.AuthPlaintext = in.xdsAuth, in.plaintext
	w.server.Authenticators = authns
	w.server.VerifSetCA(cfg.ca)
	var resp *pb.IstioCertificateResponse
	var err error
	t0 := time.Now().UnixNano()
	panicked, pmsg := vlib.Recover(func() { resp, err = w.server.CreateCertificate(ctx, req) })
	t1 := time.Now().UnixNano()
	features.XDSAuth, security.AuthPlaintext = oldXDS, oldPT

	// ---- observe
	obs, tag := "", ""
	if panicked || err != nil {
		// hypothesis of the server glue (signErr.(*caerror.Error)): every error of the CA is a *caerror.Error
		if _, derr := cfg.ca.Sign([]byte(in.csr.pem), ca.CertOpts{SubjectIDs: []string{"x"}, TTL: time.Duration(in.validity) * time.Second}); derr != nil {
			var ce *caerror.Error
			if errors.As(derr, &ce) && fmt.Sprintf("%T", derr) == "*error.Error" {
				c.Hyp("ca_errors_are_caerror", 1)
			} else {
				pmsg += fmt.Sprintf(" [IstioCA.Sign returns an error of type %T for this CSR: %v]", derr, derr)
				if !panicked {
					c.Violate(vlib.Violation{ID: id, Kind: "oracle", Detail: "CA error is not a *caerror.Error:" + pmsg})
				}
			}
		}
	}
	switch {
	case panicked:
		obs, tag = "OPanic", "obs=panic"
		c.Violate(vlib.Violation{ID: id, Kind: "panic", Detail: "Server.CreateCertificate panicked: " + pmsg})
	case err != nil:
		st, _ := status.FromError(err)
		switch {
		case st.Code() == codes.Unauthenticated && st.Message() == "request authenticate failure":
			obs, tag = "(OResult RUnauthenticated)", "obs=unauthenticated"
		case st.Code() == codes.Unauthenticated && st.Message() == "request impersonation authentication failure":
			obs, tag = "(OResult RImpersonationDenied)", "obs=impersonation-denied"
		case st.Code() == codes.InvalidArgument && strings.Contains(st.Message(), "greater than the max allowed TTL"):
			obs, tag = "(OResult (RSignError ETtl))", "obs=ttl-error"
		case st.Code() == codes.InvalidArgument:
			obs, tag = "(OResult (RSignError ECsr))", "obs=csr-error"
		case st.Code() == codes.Internal && strings.Contains(st.Message(), "Istio CA is not ready"):
			obs, tag = "(OResult (RSignError ENotReady))", "obs=ca-not-ready"
		case st.Code() == codes.Internal:
			obs, tag = "(OResult (RSignError ECertGen))", "obs=certgen-error"
		default:
			obs, tag = vlib.App("OOther", vlib.NI(int(st.Code()))), "obs=other"
		}
	default:
		leaf, perr := viewLeaf(resp, env.keys)
		if perr != nil {
			obs, tag = vlib.App("OOther", vlib.NI(999)), "obs=unparsable"
			c.Violate(vlib.Violation{ID: id, Kind: "oracle", Detail: "issued leaf cannot be decoded: " + perr.Error()})
		} else {
			obs = vlib.App("OResult", vlib.App("RIssued", pCert(leaf), vlib.NI(len(resp.CertChain))))
			tag = "obs=issued"
			if !leaf.x509ok {
				c.Tag("issued-leaf-rejected-by-crypto/x509")
			}
			if len(leaf.sans) != 1 {
				c.Tag(fmt.Sprintf("issued-sans=%d", min(len(leaf.sans), 4)))
			}
			if leaf.notAfter == cfg.signerNotAfter {
				c.Tag("issued-clamped-to-signer")
			}
			if imp != "" {
				c.Tag("issued-impersonated")
			}
		}
	}

	naTerm := "None"
	if w.hasNA {
		naTerm = vlib.App("Some", w.term)
	}
	mdTerm := vlib.ListOf(in.md, func(e kv) string { return vlib.Pair(vlib.Str(e.k), e.v.term()) })
	rq := vlib.App("Build_request", in.csr.term, vlib.Z(in.validity), mdTerm, pStrs(in.clusterIDs))
	envTerm := vlib.App("Build_auth_env", vlib.B(in.xdsAuth), vlib.B(in.hasPeer), vlib.B(in.tls), vlib.B(in.plaintext))
	term := vlib.App("Create", vlib.NI(id), pIPTab(append(append([]string{}, allIDs...), imp)), envTerm, vlib.List(rsTerms),
		naTerm, cfg.term, rq, vlib.Z(t0), vlib.Z(t1), obs)

	tags := []string{tag, "csr=" + in.csr.kind, "ca=" + cfg.name}
	if imp != "" {
		tags = append(tags, "impersonation-requested")
	}
	hasComma := strings.Contains(imp, ",")
	for _, s := range allIDs {
		hasComma = hasComma || strings.Contains(s, ",")
	}
	if hasComma {
		tags = append(tags, "identity-with-comma")
	}
	v := in.validity
	if v <= 0 {
		tags = append(tags, "ttl<=0")
	} else if v > (1<<63-1)/int64(time.Second) {
		tags = append(tags, "ttl-int64-overflow")
	}
	c.Add(vlib.Case{ID: id, Term: term, Tags: tags, Trivial: len(in.auth) == 0,
		Sample: map[string]any{"kind": "CreateCertificate", "identities": allIDs, "impersonated": imp, "validity_s": v,
			"csr": in.csr.kind, "ca": cfg.name, "cluster_ids": in.clusterIDs, "observed": tag}})
	if imp != "" && tag == "obs=issued" && !inCallerTrustDomain(issuedTo, imp) {
		// companion case: only "the impersonated identity lies in the caller's trust domain", the part
		// of the oracle the main case leaves out (open finding)
		cid := id + tdCompanionOffset
		if c.Wanted(cid) {
			c.FindingOf[cid] = findTd
			c.Add(vlib.Case{ID: cid, Term: "(CreateTd " + vlib.NI(cid) + strings.TrimPrefix(term, "(Create "+vlib.NI(id)),
				Tags: []string{"td-companion"}, Sample: map[string]any{"kind": "CreateCertificate (impersonated trust domain only)", "of_case": id,
					"identities": allIDs, "impersonated": imp, "cluster_ids": in.clusterIDs, "ca": cfg.name}})
		}
	}
}

// ------------------------------------------------------------------ SAN builder / spiffe cases

func runSan(c *vlib.Collector, r *vlib.Rand, id int) {
	ids := genIdentities(r)
	if r.Chance(30) {
		ids = append(ids, vlib.Pick(r, commaPool))
	}
	hosts := strings.Join(ids, ",")
	ext, err := util.BuildSubjectAltNameExtension(hosts)
	if err != nil {
		c.Violate(vlib.Violation{ID: id, Kind: "oracle", Detail: "BuildSubjectAltNameExtension error: " + err.Error()})
		return
	}
	sans, derr := decodeSAN(ext.Value)
	if derr != nil {
		c.Violate(vlib.Violation{ID: id, Kind: "oracle", Detail: "SAN extension does not decode: " + derr.Error()})
		return
	}
	term := vlib.App("San", vlib.NI(id), pIPTab([]string{hosts}), vlib.Str(hosts), vlib.ListOf(sans, pSan))
	c.Add(vlib.Case{ID: id, Term: term, Tags: []string{"san-builder"}, Sample: map[string]any{"kind": "BuildSubjectAltNameExtension", "hosts": hosts}})
}

func runParseID(c *vlib.Collector, r *vlib.Rand, id int) {
	seg := func() string { return vlib.Pick(r, []string{"a", "foo", "", "ns", "sa", "x,y", "td.example"}) }
	var s string
	switch r.Intn(6) {
	case 0:
		s = vlib.Pick(r, identityPool)
	case 1:
		s = "spiffe://" + seg() + "/ns/" + seg() + "/sa/" + seg()
	case 2:
		s = "spiffe://" + seg() + "/" + seg() + "/" + seg() + "/" + seg() + "/" + seg()
	case 3:
		s = "spiffe://" + seg() + "/ns/" + seg() + "/sa/" + seg() + "/" + seg()
	case 4:
		s = "spiffe:/" + seg() + "/ns/" + seg() + "/sa/" + seg()
	default:
		s = "spiffe://" + seg() + "/ns/" + seg() + "/sa"
	}
	got, err := spiffe.ParseIdentity(s)
	obs := "None"
	if err == nil {
		obs = vlib.App("Some", "("+vlib.Str(got.TrustDomain)+", "+vlib.Str(got.Namespace)+", "+vlib.Str(got.ServiceAccount)+")")
	}
	term := vlib.App("ParseId", vlib.NI(id), vlib.Str(s), obs)
	c.Add(vlib.Case{ID: id, Term: term, Tags: []string{"parse-identity", fmt.Sprintf("parse-identity-ok=%v", err == nil)},
		Sample: map[string]any{"kind": "spiffe.ParseIdentity", "s": s}})
}

// ------------------------------------------------------------------ TestGen

func TestGen(t *testing.T) {
	c := vlib.NewCollector("C09", "V.C09.Run")
	c.Rule = "CreateCertificate: generated authenticator outcomes x auth environment x node-authorizer world x impersonation/CertSigner/junk " +
		"metadata x CSR (RSA/EC/Ed25519, CN, SAN/CA extension requests, malformed PEM/DER/signature) x TTL (<=0, around max, int64 overflow) x " +
		"CA config (self-signed, plugged-in with chain, near-expiry signer, expired signer, not ready; default/max TTL incl. default>max); " +
		"the issued leaf is DER-decoded and projected. Authenticators are driven directly with signed JWTs, TokenReview outcomes, peer " +
		"certificates, XFCC headers and peer addresses. History cases keep one real Server + ClusterNodeAuthorizer (fake kube client) alive " +
		"through generated pod add/move/delete events (each awaited on the authorizer's informer) and impersonation requests. A case is trivial only when no authenticator is configured."
	root := vlib.NewRand(vlib.Seed())
	stop := make(chan struct{})
	defer close(stop)

	timing := map[string]float64{}
	last := time.Now()
	lap := func(name string) {
		timing[name] = time.Since(last).Seconds()
		last = time.Now()
	}
	env := newCreateEnv(t, stop)
	lap("setup")
	id := 0

	// fixed witnesses first (the refutation witnesses of Props.v against the real code)
	id = runWitnesses(c, env, id)

	nCreate := vlib.Scale(1400, 30000)
	rc := root.Sub()
	for i := 0; i < nCreate; i++ {
		id++
		sub := rc.Sub()
		if c.Wanted(id) || c.Wanted(id+tdCompanionOffset) {
			runCreate(c, sub, id, env)
		}
	}
	lap("create")
	rs := root.Sub()
	for i := 0; i < vlib.Scale(250, 4000); i++ {
		id++
		sub := rs.Sub()
		if c.Wanted(id) {
			runSan(c, sub, id)
		}
	}
	rp := root.Sub()
	for i := 0; i < vlib.Scale(200, 3000); i++ {
		id++
		sub := rp.Sub()
		if c.Wanted(id) {
			runParseID(c, sub, id)
		}
	}
	lap("san+parse")
	id = runAuthenticators(t, c, root.Sub(), id)
	lap("authenticators")
	id = runNewCA(t, c, root.Sub(), id, env)
	lap("newca")
	id = runHistories(t, c, root.Sub(), id, env)
	lap("histories")
	id = runErrMap(t, c, root.Sub(), id, env)
	lap("errmap")
	_ = id
	c.Extra["timing_s"] = timing
	if err := c.Flush(); err != nil {
		t.Fatal(err)
	}
}
