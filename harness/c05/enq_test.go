//go:build verif

package c05

// Enq cases: the model step "a Push enqueues its request for every REGISTERED connection" tied to the
// real code.  Every schedule over {next setup step, commit, AdsPushAll} up to a bound (plus longer random
// ones) is replayed on the real connection table (addCon), the real MarkInitialized, the real
// globalPushContext and the real AdsPushAll -> StartPush -> PushQueue.Enqueue; at the end the real push
// queue is drained (Dequeue/MarkDone) and the entry of the connecting proxy is compared with the
// model's small-step system and with the oracle "a context committed after addCon reaches the
// connection's queue" - at every point of the setup sequence: before addCon, after addCon but before
// MarkInitialized, after initialization.

import (
	"strconv"

	discovery "github.com/envoyproxy/go-control-plane/envoy/service/discovery/v3"

	v3 "istio.io/istio/pilot/pkg/xds/v3"
	"istio.io/istio/pkg/config/schema/kind"
	"istio.io/istio/pkg/util/sets"

	"istio.io/istio/pilot/pkg/model"
	pxds "istio.io/istio/pilot/pkg/xds"
	"verif/harness/vlib"
)

var lblTerm = []string{"LConn", "LCommit", "LSnap"}

func (g *gen) enqCase(id int, g0 int, ls []int) {
	env := &model.Environment{}
	mk := func(v int) *model.PushContext { return &model.PushContext{PushVersion: strconv.Itoa(v)} }
	env.SetPushContext(mk(g0))
	s := pxds.VerifC05QueueServer(env)
	defer pxds.VerifC05ShutdownQueue(s)
	// an established client: must get every push
	est := pxds.VerifC05NewConnection(s, "established-1", &model.Proxy{ID: "established", Metadata: &model.NodeMetadata{}, LastPushContext: mk(g0)}, &sotwStream{}, nil)
	pxds.VerifC05AddCon(s, est)
	est.MarkInitialized()
	pxds.VerifC05SetGenerators(s, map[string]model.XdsResourceGenerator{v3.ClusterType: &fakeGen{kind: gPlain, world: worldT{tCDS: {{1, 1}}}}})
	proxy := &model.Proxy{ID: "connecting", Type: model.SidecarProxy, Metadata: &model.NodeMetadata{}}
	delta := id%2 == 1
	ss, ds := &sotwStream{}, &deltaStream{}
	var con *pxds.Connection
	if delta {
		con = pxds.VerifC05NewConnection(s, "connecting-2", proxy, nil, ds)
	} else {
		con = pxds.VerifC05NewConnection(s, "connecting-2", proxy, ss, nil)
	}
	pc, pending, global, snaps := 0, 0, g0, 0
	for _, l := range ls {
		switch l {
		case 0:
			switch pc {
			case 0:
				proxy.LastPushContext = pxds.VerifC05GlobalPushContext(s)
			case 1:
				pxds.VerifC05AddCon(s, con)
			case 2:
				proxy.WatchedResources = map[string]*model.WatchedResource{} // initializeProxy
				con.MarkInitialized()
			}
			if pc < 3 {
				pc++
			}
		case 1:
			if pending == 0 {
				global++
				pending = global
				env.SetPushContext(mk(global))
			}
		case 2:
			if pending != 0 {
				s.AdsPushAll(&model.PushRequest{Push: pxds.VerifC05GlobalPushContext(s), Reason: model.NewReasonStats(model.ConfigUpdate),
					ConfigsUpdated: sets.New(model.ConfigKey{Kind: kind.AuthorizationPolicy, Name: "p", Namespace: "ns"})})
				pending = 0
				snaps++
			}
		}
	}
	lpc := 0
	if proxy.LastPushContext != nil {
		lpc, _ = strconv.Atoi(proxy.LastPushContext.PushVersion)
	}
	// the queued pushes are HANDLED by the real pushConnection / pushConnectionDelta (initialised connections
	// only); the connecting proxy has no watch yet
	got, herr := pxds.VerifC05HandleQueue(s)
	if herr != nil {
		g.c.Violate(vlib.Violation{ID: id, Kind: "crash", Detail: "handling the queued push failed: " + herr.Error(), Case: map[string]any{"schedule": ls}})
		return
	}
	hlpc := 0
	if proxy.LastPushContext != nil {
		hlpc, _ = strconv.Atoi(proxy.LastPushContext.PushVersion)
	}
	// ... and then the proxy (re-)subscribes to CDS with the nonce of its old stream: the answer's version is
	// the context it is served from
	ver := 0
	if pc == 3 {
		var perr error
		if delta {
			perr = pxds.VerifC05ProcessDeltaRequest(s, con, &discovery.DeltaDiscoveryRequest{TypeUrl: v3.ClusterType, ResponseNonce: "n1"})
			if perr == nil && len(ds.sent) == 1 {
				ver, _ = strconv.Atoi(ds.sent[0].SystemVersionInfo)
			}
		} else {
			perr = pxds.VerifC05ProcessRequest(s, con, &discovery.DiscoveryRequest{TypeUrl: v3.ClusterType, ResponseNonce: "n1", VersionInfo: "old"})
			if perr == nil && len(ss.sent) == 1 {
				ver, _ = strconv.Atoi(ss.sent[0].VersionInfo)
			}
		}
		if perr != nil {
			g.c.Violate(vlib.Violation{ID: id, Kind: "crash", Detail: "subscription after the handled push failed: " + perr.Error(), Case: map[string]any{"schedule": ls}})
			return
		}
	}
	q, has := got["connecting-2"]
	qv, _ := strconv.Atoi(q)
	if _, ok := got["established-1"]; ok != (snaps > 0) {
		g.c.Violate(vlib.Violation{ID: id, Kind: "oracle", Detail: "the established (initialised) connection was not handed the push", Case: map[string]any{"schedule": ls}})
	}
	tags := []string{"kind-enq", "enq-pc-" + strconv.Itoa(pc)}
	if has {
		tags = append(tags, "enq-queued")
		if pc == 2 {
			tags = append(tags, "enq-queued-before-initialised")
		}
		if pc == 3 {
			tags = append(tags, "enq-push-handled-without-watches")
		}
	}
	names := make([]string, len(ls))
	for i, l := range ls {
		names[i] = lblTerm[l]
	}
	g.c.Add(vlib.Case{ID: id, Tags: tags, Trivial: snaps == 0 || pc == 0,
		Term:   vlib.App("Enq", vlib.NI(id), vlib.NI(g0), vlib.List(names), vlib.NI(lpc), vlib.Opt(has, vlib.NI(qv)), vlib.NI(hlpc), vlib.NI(ver)),
		Sample: map[string]any{"kind": "enq", "g0": g0, "schedule": names, "lastPushContext": lpc, "queued": has, "queued_version": qv, "setup_steps_done": pc,
			"delta": delta, "lastPushContext_after_handling": hlpc, "subscription_answered_from_version": ver}})
}

func (g *gen) enq(rnd *vlib.Rand) {
	bound := vlib.Scale(6, 8)
	// every schedule up to the bound
	for n := 1; n <= bound; n++ {
		total := 1
		for i := 0; i < n; i++ {
			total *= 3
		}
		for code := 0; code < total; code++ {
			id := g.take(1)
			if !g.c.Wanted(id) {
				continue
			}
			ls := make([]int, n)
			c := code
			for i := range ls {
				ls[i] = c % 3
				c /= 3
			}
			g.enqCase(id, 5, ls)
		}
	}
	// longer random ones
	for i := 0; i < vlib.Scale(200, 3000); i++ {
		id := g.take(1)
		r := rnd.Sub()
		if !g.c.Wanted(id) {
			continue
		}
		ls := make([]int, 7+r.Intn(10))
		for k := range ls {
			ls[k] = r.Intn(3)
		}
		g.enqCase(id, 1+r.Intn(9), ls)
	}
}
