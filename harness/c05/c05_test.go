//go:build verif

package c05

import (
	"fmt"
	"go/ast"
	"go/parser"
	"go/token"
	"path/filepath"
	"sort"
	"testing"

	istiolog "istio.io/istio/pkg/log"
	"istio.io/istio/pkg/xds"
	"verif/harness/vlib"
)

func xdsIsWildcard(url string) bool { return xds.IsWildcardTypeURL(url) }

type gen struct {
	c    *vlib.Collector
	next int
}

// ids: a session takes 1 + #steps consecutive ids
func (g *gen) take(n int) int {
	id := g.next
	g.next += n
	return id
}

func subset(rnd *vlib.Rand, max int) []int {
	var out []int
	for n := 1; n <= 6; n++ {
		if len(out) < max && rnd.Chance(35) {
			out = append(out, n)
		}
	}
	return out
}

func shuffle(rnd *vlib.Rand, xs []int) []int {
	for i := len(xs) - 1; i > 0; i-- {
		j := rnd.Intn(i + 1)
		xs[i], xs[j] = xs[j], xs[i]
	}
	return xs
}

func randWorld(rnd *vlib.Rand) worldT {
	w := worldT{}
	for t := range types {
		if t == tWORKLOAD {
			continue
		}
		for n := 1; n <= 6; n++ {
			if rnd.Chance(45) {
				v := 1 + rnd.Intn(3)
				if isZtunnelType(t) && rnd.Chance(10) {
					v = 0 // AddressInfo without a content version: never skipped
				}
				if t == tAUTHZ {
					v = 0 // workload Authorization resources carry no version
				}
				w[t] = append(w[t], resv{n, v})
			}
		}
	}
	w[tWORKLOAD] = w[tADDR] // one ambient index serves both ztunnel types
	return w
}

// retained: what the client held for type t when the old stream was cut: mostly resources of the
// current world (same or older version), some that no longer exist
func randRetained(rnd *vlib.Rand, w worldT, t int) []resv {
	var out []resv
	for n := 1; n <= 6; n++ {
		cur := -1
		for _, r := range w[t] {
			if r.Name == n {
				cur = r.Ver
			}
		}
		switch {
		case cur >= 0 && rnd.Chance(60):
			v := cur
			if rnd.Chance(40) {
				v = 1 + rnd.Intn(3)
			}
			out = append(out, resv{n, v})
		case cur < 0 && rnd.Chance(30):
			out = append(out, resv{n, 1 + rnd.Intn(3)})
		}
	}
	return out
}

const maxSteps = 9

func (g *gen) session(rnd *vlib.Rand, delta bool, fixed []Req, fixedKind int, fixedWorld worldT) {
	id := g.take(1 + maxSteps)
	wanted := false
	for j := 0; j <= maxSteps; j++ {
		wanted = wanted || g.c.Wanted(id+j)
	}
	if !wanted {
		return
	}
	kind := gPlain
	if p := rnd.Intn(100); p >= 85 {
		kind = gNil
	} else if p >= 60 {
		kind = gDelta
	}
	world := randWorld(rnd)
	if fixed != nil {
		kind, world = fixedKind, fixedWorld
	}
	e := newEnv(kind, world, delta)
	tags := map[string]bool{}
	tag := func(s string) { tags[s] = true }
	mode := "sotw"
	if delta {
		mode = "delta"
	}
	tag("mode-" + mode)
	tag("gen-" + gkindTerm[kind])

	lastNonce := map[int]int{} // per type: nonce of the last response seen on this stream
	var steps []Step
	nsteps := 3 + rnd.Intn(maxSteps-2)
	if fixed != nil {
		nsteps = len(fixed)
	}
	pool := []int{tCDS, tEDS, tCDS, tEDS, tLDS, tRDS, tSDS, tECDS, tNDS}
	if delta {
		pool = append(pool, tADDR, tWORKLOAD, tAUTHZ, tAUTHZ)
	}
	for i := 0; i < nsteps; i++ {
		var r Req
		if fixed != nil {
			r = fixed[i]
		} else {
			t := vlib.Pick(rnd, pool)
			known := e.wr(t) != nil
			if known && rnd.Chance(60) {
				t = vlib.Pick(rnd, pool)
				known = e.wr(t) != nil
			}
			armed := false
			if w := e.wr(tEDS); !delta && w != nil && w.Always && rnd.Chance(60) {
				t, known, armed = tEDS, true, true
			}
			r = Req{Delta: delta, T: t, Err: -1}
			if armed {
				// Envoy applied the CDS answer and re-sends its EDS subscription, with the cluster set it has now,
				// on the nonce of the EDS answer of this stream
				r.Nonce = lastNonce[tEDS]
				r.Names = shuffle(rnd, subset(rnd, 4))
				if len(r.Names) == 0 {
					r.Names = []int{1 + rnd.Intn(6)}
				}
			} else if !known {
				// a (re)subscription on the new stream with whatever the client retained
				r.Nonce = rnd.Intn(4)
				if rnd.Chance(6) {
					r.Err = rnd.Intn(3)
				}
				if delta {
					r.Init = randRetained(rnd, world, t)
					switch {
					case isZtunnelType(t):
						if rnd.Bool() {
							r.Names = []int{0}
						}
					case xdsIsWildcard(types[t].URL):
						if rnd.Chance(40) {
							r.Names = []int{0}
						} else if rnd.Chance(20) {
							r.Names = shuffle(rnd, subset(rnd, 3))
						}
					default:
						r.Names = shuffle(rnd, subset(rnd, 4))
					}
					if rnd.Chance(8) && !isZtunnelType(t) {
						r.Unsub = shuffle(rnd, subset(rnd, 2))
					}
				} else {
					if !xdsIsWildcard(types[t].URL) || rnd.Chance(15) {
						r.Names = shuffle(rnd, subset(rnd, 4))
					}
				}
			} else {
				// the stream goes on: ACK / stale / subscription change
				switch p := rnd.Intn(100); {
				case p < 60:
					r.Nonce = lastNonce[t]
				case p < 80:
					r.Nonce = rnd.Intn(4)
				default:
					r.Nonce = 0
				}
				if rnd.Chance(6) {
					r.Err = rnd.Intn(3)
				}
				if delta {
					if !isZtunnelType(t) && rnd.Chance(35) {
						r.Names = shuffle(rnd, subset(rnd, 2))
						if rnd.Chance(30) {
							r.Unsub = shuffle(rnd, subset(rnd, 2))
						}
					}
				} else {
					w := e.wr(t)
					r.Names = append([]int{}, w.Names...)
					if rnd.Chance(35) {
						r.Names = shuffle(rnd, subset(rnd, 4))
					}
				}
			}
		}
		if w := e.wr(r.T); !r.Delta && w != nil && w.Always && r.Err < 0 && r.Nonce == w.Sent && r.Nonce != 0 && len(r.Names) > 0 {
			tag("warming-resubscription")
			if fmt.Sprint(r.Names) != fmt.Sprint(w.Names) {
				tag("warming-resubscription-names-changed")
			}
		}
		preKnown := e.wr(r.T) != nil
		preEDS := e.wr(tEDS) != nil
		var resps []Resp
		var perr error
		if panicked, msg := vlib.Recover(func() { resps, perr = e.process(r) }); panicked {
			perr = fmt.Errorf("panic: %s", msg)
		}
		if perr != nil {
			g.c.Violate(vlib.Violation{ID: id + 1 + i, Kind: "crash", Detail: perr.Error(), Case: map[string]any{"req": r, "steps": steps}})
			return
		}
		for _, d := range resps {
			lastNonce[d.T] = d.Nonce
		}
		touched := []Touched{{r.T, e.wr(r.T)}}
		if r.T != tEDS {
			touched = append(touched, Touched{tEDS, e.wr(tEDS)})
		}
		st := Step{Req: r, Resps: resps, Touched: touched}
		steps = append(steps, st)
		g.c.Add(vlib.Case{ID: id + 1 + i, Term: vlib.App("Step", vlib.NI(id+1+i)), Trivial: true,
			Sample: map[string]any{"session": id, "mode": mode, "gen": gkindTerm[kind], "world": world, "step": st}})

		if !preKnown && r.Err < 0 {
			tag("first-" + types[r.T].Term)
			if r.Nonce != 0 {
				tag("first-with-retained-nonce")
			}
			if len(r.Init) > 0 {
				tag("first-with-initial-versions")
				have := world.names(r.T)
				for _, iv := range r.Init {
					if !have.Contains(nameStr[iv.Name]) {
						tag("retained-name-deleted")
					}
				}
			}
			if r.T == tCDS && preEDS {
				tag("cds-after-eds")
			}
			if len(resps) == 0 {
				tag("first-unanswered")
			}
			if r.T == tAUTHZ {
				tag("ztunnel-authz-reconnect")
			}
		} else if r.Err >= 0 {
			tag("nack")
		} else {
			tag("later-request")
		}
		for _, d := range resps {
			if len(d.Removed) > 0 {
				tag("removed-nonempty")
			}
			if d.T != r.T {
				tag("forced-eds")
			}
		}
	}
	var final []Touched
	for t := range types {
		final = append(final, Touched{t, e.wr(t)})
	}
	term := vlib.App("Sess", vlib.NI(id), gkindTerm[kind], worldTerm(world), vlib.ListOf(steps, stepTerm), touchedTerm(final))
	var tl []string
	for t := range tags {
		tl = append(tl, t)
	}
	sort.Strings(tl)
	g.c.Add(vlib.Case{ID: id, Term: term, Tags: tl, Trivial: !(tags["first-with-retained-nonce"] || tags["first-with-initial-versions"]),
		Sample: map[string]any{"session": id, "mode": mode, "gen": gkindTerm[kind], "world": world, "steps": steps}})
}

// ---------------------------------------------------------------- fixed witnesses

func (g *gen) witnesses() {
	rnd := vlib.NewRand(5)
	w := worldT{tCDS: {{1, 2}, {3, 1}}, tEDS: {{1, 1}, {3, 3}}, tLDS: {{2, 1}}, tRDS: {{4, 1}}, tAUTHZ: {{1, 0}, {3, 0}}, tADDR: {{1, 1}, {2, 2}}, tWORKLOAD: {{1, 1}, {2, 2}}}
	// SotW reconnect: EDS re-sent first with its old nonce, then CDS, then the EDS ACK must be answered
	g.session(rnd, false, []Req{
		{T: tEDS, Names: []int{1, 2}, Nonce: 3, Err: -1},
		{T: tCDS, Nonce: 2, Err: -1},
		{T: tEDS, Names: []int{1, 2}, Nonce: 1000, Err: -1},
		{T: tEDS, Names: []int{1, 2}, Nonce: 1002, Err: -1},
	}, gPlain, w)
	// delta reconnect: the client holds clusters 1 (old version), 2 and 4 (both deleted meanwhile)
	g.session(rnd, true, []Req{
		{Delta: true, T: tEDS, Names: []int{1, 2}, Init: []resv{{1, 1}, {2, 1}}, Nonce: 2, Err: -1},
		{Delta: true, T: tCDS, Init: []resv{{1, 1}, {2, 1}, {4, 3}}, Nonce: 1, Err: -1},
		{Delta: true, T: tLDS, Names: []int{0}, Init: []resv{{5, 1}}, Nonce: 3, Err: -1},
	}, gPlain, w)
	// ztunnel: retained a (same version: not re-sent), b (older version), c (deleted)
	g.session(rnd, true, []Req{
		{Delta: true, T: tADDR, Names: []int{0}, Init: []resv{{1, 1}, {2, 1}, {3, 1}}, Nonce: 1, Err: -1},
		{Delta: true, T: tWORKLOAD, Init: []resv{{1, 1}, {3, 2}}, Nonce: 0, Err: -1},
	}, gPlain, w)
	// SotW reconnect, EDS first with clusters a,b,c; CDS; the client drops b and c and re-sends EDS for a only
	// (removal only), then for a,d (one added): both look like ACKs with changed names and must be answered in full
	g.session(rnd, false, []Req{
		{T: tEDS, Names: []int{1, 2, 3}, Nonce: 3, Err: -1},
		{T: tCDS, Nonce: 2, Err: -1},
		{T: tEDS, Names: []int{1}, Nonce: 1000, Err: -1},
	}, gPlain, w)
	g.session(rnd, false, []Req{
		{T: tEDS, Names: []int{1, 2}, Nonce: 3, Err: -1},
		{T: tCDS, Nonce: 2, Err: -1},
		{T: tEDS, Names: []int{1, 3}, Nonce: 1000, Err: -1},
	}, gPlain, w)
	// ztunnel workload Authorization, wildcard: retained policies a, b, d; b and d were deleted meanwhile
	g.session(rnd, true, []Req{
		{Delta: true, T: tAUTHZ, Names: []int{0}, Init: []resv{{1, 0}, {2, 0}, {4, 0}}, Nonce: 2, Err: -1},
	}, gPlain, w)
	g.session(rnd, true, []Req{
		{Delta: true, T: tAUTHZ, Init: []resv{{2, 0}, {3, 0}}, Nonce: 0, Err: -1},
		{Delta: true, T: tAUTHZ, Nonce: 1000, Err: -1},
	}, gNil, w)
	// ECDS never removes
	g.session(rnd, true, []Req{
		{Delta: true, T: tECDS, Names: []int{1, 2}, Init: []resv{{2, 1}}, Nonce: 1, Err: -1},
	}, gDelta, w)
}

// ---------------------------------------------------------------- source order of the setup steps

// calls/assignments of interest inside a function body, in source order
func orderIn(repo, file, fn string, marks map[string]int) ([]int, error) {
	fset := token.NewFileSet()
	f, err := parser.ParseFile(fset, filepath.Join(repo, file), nil, 0)
	if err != nil {
		return nil, err
	}
	var out []int
	found := false
	for _, d := range f.Decls {
		fd, ok := d.(*ast.FuncDecl)
		if !ok || fd.Name.Name != fn || fd.Body == nil {
			continue
		}
		found = true
		type hit struct {
			pos token.Pos
			m   int
		}
		var hits []hit
		ast.Inspect(fd.Body, func(n ast.Node) bool {
			switch x := n.(type) {
			case *ast.AssignStmt:
				for _, l := range x.Lhs {
					if se, ok := l.(*ast.SelectorExpr); ok {
						if m, ok := marks["="+se.Sel.Name]; ok {
							hits = append(hits, hit{x.Pos(), m})
						}
					}
				}
			case *ast.CallExpr:
				if se, ok := x.Fun.(*ast.SelectorExpr); ok {
					if m, ok := marks[se.Sel.Name]; ok {
						hits = append(hits, hit{x.Pos(), m})
					}
				}
			}
			return true
		})
		sort.Slice(hits, func(i, j int) bool { return hits[i].pos < hits[j].pos })
		for _, h := range hits {
			out = append(out, h.m)
		}
	}
	if !found {
		return nil, fmt.Errorf("%s: func %s not found", file, fn)
	}
	return out, nil
}

func (g *gen) order() {
	id := g.take(1)
	if !g.c.Wanted(id) {
		return
	}
	repo := vlib.RepoDir()
	conn, err1 := orderIn(repo, "pilot/pkg/xds/ads.go", "initConnection", map[string]int{"=LastPushContext": 1, "addCon": 2, "initializeProxy": 3})
	push, err2 := orderIn(repo, "pilot/pkg/xds/discovery.go", "Push", map[string]int{"initPushContext": 4, "AdsPushAll": 5})
	if err1 != nil || err2 != nil {
		g.c.Violate(vlib.Violation{ID: id, Kind: "translator", Detail: fmt.Sprintf("cannot read the setup order: %v %v", err1, err2)})
		return
	}
	g.c.Add(vlib.Case{ID: id, Term: vlib.App("Order", vlib.NI(id), nlist(conn), nlist(push)), Tags: []string{"kind-order"},
		Sample: map[string]any{"kind": "order", "initConnection": conn, "Push": push}})
}

// ---------------------------------------------------------------- entry point

func TestGen(t *testing.T) {
	for _, s := range istiolog.Scopes() {
		s.SetOutputLevel(istiolog.NoneLevel)
	}
	c := vlib.NewCollector("C05", "V.C05.Run")
	c.Rule = "Sess: a new stream (empty WatchedResources) driven through the real processRequest / processDeltaRequest with " +
		"3..9 requests; the first request of a type carries a retained nonce (empty or not), retained names and, for delta, " +
		"initial_resource_versions drawn from the current world (same/older version) and from deleted names; generators: " +
		"harness GPlain/GDelta/GNil for Envoy types, the real WorkloadGenerator over a fake ambient index for ADDR/WORKLOAD; " +
		"later requests are ACK/stale/subscription changes. Step j of session B is reported as id B+1+j. " +
		"E2E: fake discovery server, a SotW or delta client synchronised on CDS+EDS, cut after k responses (or mid-push), services/endpoints " +
		"added and removed while disconnected, reconnect with the retained maps (plus names that never existed), exchange run to " +
		"quiescence behind an LDS barrier, compared with a fresh client. Order: statement order of initConnection and Push read " +
		"from the source. Enq: every schedule of {next setup step, commit, AdsPushAll} up to length 6 (8 thorough) plus random longer " +
		"ones replayed on the real addCon / MarkInitialized / globalPushContext / AdsPushAll / PushQueue, queue entry of the connecting " +
		"proxy drained and compared. A Sess case is non-trivial when a first request carries a retained nonce or initial versions."
	g := &gen{c: c, next: 1}
	root := vlib.NewRand(vlib.Seed() ^ 0xc05)

	g.order()
	g.witnesses()
	for i := 0; i < vlib.Scale(600, 8000); i++ {
		g.session(root.Sub(), i%2 == 0, nil, 0, nil)
	}
	g.next = 1000000
	runE2E(t, g, root.Sub())
	g.next = 2000000
	runRace(t, g)
	g.next = 3000000
	g.enq(root.Sub())

	if err := c.Flush(); err != nil {
		t.Fatal(err)
	}
	t.Logf("C05: %d cases", c.Len())
}
