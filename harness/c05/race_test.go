//go:build verif

package c05

// Probe for finding C05-push-between-lpc-and-addcon against the REAL initConnection and Push of a
// fake discovery server.  initConnection reads the global push context, runs s.authorize, then
// addCon.  The probe hands initConnection a long list of unparsable identities followed by a valid
// one, which makes s.authorize (and with it the window between the read and addCon) long, and
// calls s.Push back to back from a second goroutine until it sees the connection registered.
// No sleeps and no timing assumption in the VERDICT: when initConnection and every Push have returned,
// the connection's LastPushContext is compared with the global context and the push queue is
// inspected (no other connection exists, nobody drains this connection's push channel): an older
// context with an idle queue means the pushes committed after the read were lost for it.  Whether the schedule is hit is up to the scheduler (it is, when the window is much
// longer than one Push); a run that does not hit it reports missed = false.

import (
	"context"
	"strconv"
	"strings"
	"testing"

	core "github.com/envoyproxy/go-control-plane/envoy/config/core/v3"

	"istio.io/istio/pilot/pkg/model"
	pxds "istio.io/istio/pilot/pkg/xds"
	xdsfake "istio.io/istio/pilot/test/xds"
	"verif/harness/vlib"
)

// raceStream: the stream of the probe connection.  doSendPushes selects on its Context().Done()
// while handing a queued push to the connection; it is cancelled when the probe is over.
type raceStream struct {
	sotwStream
	ctx context.Context
}

func (r *raceStream) Context() context.Context { return r.ctx }

func versionNum(v string) int {
	i := strings.LastIndex(v, "/")
	n, _ := strconv.Atoi(v[i+1:])
	return n
}

func runRace(t *testing.T, g *gen) {
	n := vlib.Scale(3, 20)
	var s *xdsfake.FakeDiscoveryServer
	for i := 0; i < n; i++ {
		id := g.take(1)
		if !g.c.Wanted(id) {
			continue
		}
		if s == nil {
			s = xdsfake.NewFakeDiscoveryServer(t, xdsfake.FakeOptions{})
			s.EnsureSynced(t)
		}
		ids := make([]string, 0, 3000001)
		for k := 0; k < 3000000; k++ {
			ids = append(ids, "x")
		}
		ids = append(ids, "spiffe://cluster.local/ns/default/sa/default")
		node := &core.Node{Id: "sidecar~1.1.1.1~c05race" + strconv.Itoa(i) + ".default~default.svc.cluster.local", Metadata: model.NodeMetadata{}.ToStruct()}
		ctx, cancel := context.WithCancel(context.Background())
		con := pxds.VerifC05NewConnection(s.Discovery, "", nil, &raceStream{ctx: ctx}, nil)
		started := make(chan struct{})
		done := make(chan error, 1)
		go func() {
			close(started)
			done <- pxds.VerifC05InitConnection(s.Discovery, node, con, ids)
		}()
		<-started
		lostVersion := 0
		pushes := 0
		registered := false
		for !registered {
			select {
			case err := <-done:
				done <- err
				goto finished
			default:
			}
			s.Discovery.Push(&model.PushRequest{Forced: true, Reason: model.NewReasonStats(model.DebugTrigger)})
			pushes++
			lostVersion = versionNum(pxds.VerifC05GlobalPushContext(s.Discovery).PushVersion)
			// Poll the connection table (what StartPush enumerates, same lock; this server has no other
			// client; the connection object itself is not touched while initConnection runs).  Polling
			// takes much longer than a Push, so addCon most likely falls between two pushes: the last
			// push then enumerated the clients before the connection was registered.
			for k := 0; k < 20000 && !registered; k++ {
				registered = len(s.Discovery.AllClients()) > 0
			}
		}
	finished:
		err := <-done
		// Every Push above has returned, i.e. has enqueued the connection if it was registered when the
		// Push enumerated the clients; nobody reads the connection's push channel, so a queued push
		// stays pending or "processing".  Idle = nothing is queued or in delivery for this (only) connection.
		idle := pxds.VerifPushQueueIdle(s.Discovery)
		cancel()
		if err != nil {
			g.c.Tag("race-probe-skipped")
			t.Logf("C05 race probe skipped: initConnection failed: %v", err)
			continue
		}
		lpc := versionNum(con.Proxy().LastPushContext.PushVersion)
		global := versionNum(pxds.VerifC05GlobalPushContext(s.Discovery).PushVersion)
		// the connection sits on an older context than the global one and no push is on its way
		missed := idle && lpc < global
		pxds.VerifC05CloseConnection(s.Discovery, con)
		tags := []string{"kind-race"}
		if missed {
			tags = append(tags, "race-window-hit")
			g.c.FindingOf[id] = "C05-push-between-lpc-and-addcon"
		}
		g.c.Add(vlib.Case{ID: id, Tags: tags, Trivial: !missed,
			Term:   vlib.App("Race", vlib.NI(id), vlib.NI(lpc), vlib.NI(global), vlib.B(missed)),
			Sample: map[string]any{"kind": "race", "lastPushContext": lpc, "global": global, "pushes_during_setup": pushes, "last_push_seen_unregistered": lostVersion, "queue_idle": idle, "missed": missed}})
	}
}
