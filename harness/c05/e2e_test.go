//go:build verif

package c05

// End-to-end cuts against the fake discovery server (pilot/test/xds): the whole path
// Stream/StreamDeltas -> Receive -> initConnection (addCon, initializeProxy) -> processRequest /
// processDeltaRequest with the real CDS/EDS/LDS generators.

import (
	"context"
	"fmt"
	"hash/fnv"
	"net"
	"sort"
	"testing"
	"time"

	cluster "github.com/envoyproxy/go-control-plane/envoy/config/cluster/v3"
	core "github.com/envoyproxy/go-control-plane/envoy/config/core/v3"
	endpoint "github.com/envoyproxy/go-control-plane/envoy/config/endpoint/v3"
	discovery "github.com/envoyproxy/go-control-plane/envoy/service/discovery/v3"
	"google.golang.org/grpc"
	"google.golang.org/grpc/credentials/insecure"
	"google.golang.org/protobuf/types/known/anypb"

	"istio.io/istio/pilot/pkg/features"
	"istio.io/istio/pilot/pkg/model"
	v3 "istio.io/istio/pilot/pkg/xds/v3"
	xdsfake "istio.io/istio/pilot/test/xds"
	"istio.io/istio/pkg/config/host"
	"istio.io/istio/pkg/test"
	"verif/harness/vlib"
)

const (
	nodeID     = "sidecar~1.1.1.1~c05.default~default.svc.cluster.local"
	e2eTimeout = 120 * time.Second
	nHosts     = 6
	ghost      = "outbound|80||ghost.c05.svc.cluster.local"
)

func hostName(i int) string { return fmt.Sprintf("s%d.c05.svc.cluster.local", i) }

// ---------------------------------------------------------------- world of services

type svcState struct {
	present bool
	eps     []int // endpoint ids
}

type e2eWorld struct {
	s   *xdsfake.FakeDiscoveryServer   // the instance the proxy is connected to first
	s2  *xdsfake.FakeDiscoveryServer   // a second instance with the same registry content
	t   *testing.T
	svc [nHosts]svcState
}

func (w *e2eWorld) servers() []*xdsfake.FakeDiscoveryServer {
	return []*xdsfake.FakeDiscoveryServer{w.s, w.s2}
}

func (w *e2eWorld) synced() {
	for _, s := range w.servers() {
		s.EnsureSynced(w.t)
	}
}

func (w *e2eWorld) setEndpoints(i int, eps []int) {
	var l []*model.IstioEndpoint
	for _, e := range eps {
		l = append(l, &model.IstioEndpoint{Addresses: []string{fmt.Sprintf("10.9.%d.%d", i, e+1)}, ServicePortName: "http-main", EndpointPort: 80})
	}
	for _, s := range w.servers() {
		s.MemRegistry.SetEndpoints(hostName(i), "", l)
	}
	w.svc[i].eps = eps
}

func (w *e2eWorld) set(i int, present bool, eps []int) {
	if present && !w.svc[i].present {
		for _, s := range w.servers() {
			s.MemRegistry.AddHTTPService(hostName(i), fmt.Sprintf("10.5.0.%d", i+1), 80)
		}
		w.svc[i].present = true
		w.svc[i].eps = nil
	}
	if !present && w.svc[i].present {
		for _, s := range w.servers() {
			s.MemRegistry.RemoveService(host.Name(hostName(i)))
		}
		w.svc[i].present = false
		w.svc[i].eps = nil
	}
	if present {
		w.setEndpoints(i, eps)
	}
}

func randEps(rnd *vlib.Rand) []int {
	var eps []int
	for e := 0; e < 3; e++ {
		if rnd.Chance(45) {
			eps = append(eps, e)
		}
	}
	return eps
}

func (w *e2eWorld) change(rnd *vlib.Rand) string {
	i := rnd.Intn(nHosts)
	switch {
	case !w.svc[i].present:
		w.set(i, true, randEps(rnd))
		return fmt.Sprintf("add s%d", i)
	case rnd.Chance(50):
		w.set(i, false, nil)
		return fmt.Sprintf("remove s%d", i)
	default:
		w.setEndpoints(i, randEps(rnd))
		return fmt.Sprintf("endpoints s%d", i)
	}
}

func (w *e2eWorld) toggle(i int, rnd *vlib.Rand) string {
	if w.svc[i].present {
		w.set(i, false, nil)
		return fmt.Sprintf("remove s%d", i)
	}
	w.set(i, true, randEps(rnd))
	return fmt.Sprintf("add s%d", i)
}

// ---------------------------------------------------------------- digests

func cdsDigest(a *anypb.Any) (int, bool, error) {
	c := &cluster.Cluster{}
	if err := a.UnmarshalTo(c); err != nil {
		return 0, false, err
	}
	return 1 + int(c.GetLbPolicy()) + 10*int(c.GetType()), c.GetType() == cluster.Cluster_EDS, nil
}

func edsDigest(a *anypb.Any) (string, int, error) {
	c := &endpoint.ClusterLoadAssignment{}
	if err := a.UnmarshalTo(c); err != nil {
		return "", 0, err
	}
	var addrs []string
	for _, le := range c.Endpoints {
		for _, e := range le.LbEndpoints {
			sa := e.GetEndpoint().GetAddress().GetSocketAddress()
			addrs = append(addrs, fmt.Sprintf("%s:%d", sa.GetAddress(), sa.GetPortValue()))
		}
	}
	sort.Strings(addrs)
	h := fnv.New32a()
	for _, s := range addrs {
		h.Write([]byte(s + ";"))
	}
	return c.ClusterName, 1 + int(h.Sum32()%1000000), nil
}

// ---------------------------------------------------------------- a client (SotW or delta) over the real gRPC stream

type client struct {
	t      *testing.T
	delta  bool
	conn   *grpc.ClientConn
	cancel context.CancelFunc
	ss     discovery.AggregatedDiscoveryService_StreamAggregatedResourcesClient
	ds     discovery.AggregatedDiscoveryService_DeltaAggregatedResourcesClient
	msgs   chan any
	errs   chan error

	cds, eds   map[string]int
	isEDS      map[string]bool
	edsSub     map[string]bool // what the client has asked EDS for on this stream
	edsSent    bool
	nonce      map[string]string // per type URL: last nonce taken (survives a reconnect in the retained state)
	version    map[string]string
	removed    map[string]map[string]bool // per type URL: names listed in removed_resources on this stream
	answered   map[string]int
	unacked    map[string]bool
	barriers   int
	first      bool
	trace      []string
}

func connect(t *testing.T, s *xdsfake.FakeDiscoveryServer, delta bool) *client {
	conn, err := grpc.Dial("buffcon", grpc.WithTransportCredentials(insecure.NewCredentials()), grpc.WithBlock(),
		grpc.WithContextDialer(func(context.Context, string) (net.Conn, error) { return s.BufListener.Dial() }))
	if err != nil {
		t.Fatalf("dial: %v", err)
	}
	ctx, cancel := context.WithCancel(context.Background())
	c := &client{t: t, delta: delta, conn: conn, cancel: cancel, msgs: make(chan any, 64), errs: make(chan error, 1),
		cds: map[string]int{}, eds: map[string]int{}, isEDS: map[string]bool{}, edsSub: map[string]bool{},
		nonce: map[string]string{}, version: map[string]string{}, removed: map[string]map[string]bool{},
		answered: map[string]int{}, unacked: map[string]bool{}, first: true}
	xc := discovery.NewAggregatedDiscoveryServiceClient(conn)
	if delta {
		c.ds, err = xc.DeltaAggregatedResources(ctx)
	} else {
		c.ss, err = xc.StreamAggregatedResources(ctx)
	}
	if err != nil {
		t.Fatalf("stream: %v", err)
	}
	go func() {
		for {
			var m any
			var err error
			if delta {
				m, err = c.ds.Recv()
			} else {
				m, err = c.ss.Recv()
			}
			if err != nil {
				select {
				case c.errs <- err:
				default:
				}
				return
			}
			c.msgs <- m
		}
	}()
	return c
}

func (c *client) close() {
	c.cancel()
	_ = c.conn.Close()
}

func (c *client) node() *core.Node {
	if !c.first {
		return nil
	}
	c.first = false
	return &core.Node{Id: nodeID}
}

func (c *client) recv() any {
	select {
	case m := <-c.msgs:
		return m
	case err := <-c.errs:
		c.t.Fatalf("C05 e2e: stream error: %v (trace %v)", err, c.trace)
	case <-time.After(e2eTimeout):
		c.t.Fatalf("C05 e2e: no message within %v (trace %v)", e2eTimeout, c.trace)
	}
	return nil
}

func keys(m map[string]bool) []string {
	out := make([]string, 0, len(m))
	for k, v := range m {
		if v {
			out = append(out, k)
		}
	}
	sort.Strings(out)
	return out
}

func keysI(m map[string]int) []string {
	out := make([]string, 0, len(m))
	for k := range m {
		out = append(out, k)
	}
	sort.Strings(out)
	return out
}

func (c *client) sendSotw(url string, names []string, nonce string) {
	c.trace = append(c.trace, fmt.Sprintf("-> %s names=%d nonce=%q", v3.GetShortType(url), len(names), nonce))
	if err := c.ss.Send(&discovery.DiscoveryRequest{Node: c.node(), TypeUrl: url, ResourceNames: names, ResponseNonce: nonce, VersionInfo: c.version[url]}); err != nil {
		c.t.Fatalf("send: %v", err)
	}
}

func (c *client) sendDelta(url string, sub, unsub []string, init map[string]string, nonce string) {
	c.trace = append(c.trace, fmt.Sprintf("-> %s sub=%d unsub=%d init=%d nonce=%q", v3.GetShortType(url), len(sub), len(unsub), len(init), nonce))
	if err := c.ds.Send(&discovery.DeltaDiscoveryRequest{Node: c.node(), TypeUrl: url, ResourceNamesSubscribe: sub,
		ResourceNamesUnsubscribe: unsub, InitialResourceVersions: init, ResponseNonce: nonce}); err != nil {
		c.t.Fatalf("send: %v", err)
	}
}

func (c *client) noteRemoved(url string, names []string) {
	if c.removed[url] == nil {
		c.removed[url] = map[string]bool{}
	}
	for _, n := range names {
		c.removed[url][n] = true
	}
}

// apply one response to the client's maps; returns its type URL
func (c *client) apply(m any) string {
	var url, nonce, version string
	var anys []*anypb.Any
	var removed []string
	full := false
	switch r := m.(type) {
	case *discovery.DiscoveryResponse:
		url, nonce, version, anys, full = r.TypeUrl, r.Nonce, r.VersionInfo, r.Resources, true
	case *discovery.DeltaDiscoveryResponse:
		url, nonce, version, removed = r.TypeUrl, r.Nonce, r.SystemVersionInfo, r.RemovedResources
		for _, rr := range r.Resources {
			anys = append(anys, rr.Resource)
		}
	}
	c.trace = append(c.trace, fmt.Sprintf("<- %s res=%d removed=%d", v3.GetShortType(url), len(anys), len(removed)))
	if url == v3.ListenerType {
		return url
	}
	c.nonce[url], c.version[url] = nonce, version
	c.answered[url]++
	c.unacked[url] = true
	c.noteRemoved(url, removed)
	switch url {
	case v3.ClusterType:
		if full {
			c.cds, c.isEDS = map[string]int{}, map[string]bool{}
		}
		for _, n := range removed {
			delete(c.cds, n)
			delete(c.isEDS, n)
		}
		for _, a := range anys {
			cl := &cluster.Cluster{}
			if err := a.UnmarshalTo(cl); err != nil {
				c.t.Fatalf("bad cluster: %v", err)
			}
			d, isEds, _ := cdsDigest(a)
			c.cds[cl.Name], c.isEDS[cl.Name] = d, isEds
		}
	case v3.EndpointType:
		for _, n := range removed {
			delete(c.eds, n)
		}
		for _, a := range anys {
			n, d, err := edsDigest(a)
			if err != nil {
				c.t.Fatalf("bad CLA: %v", err)
			}
			c.eds[n] = d
		}
	}
	return url
}

// barrier: an LDS request that is always answered; everything the server sent before its answer has
// been received when the answer arrives (one FIFO stream, requests processed in order).  Returns
// the type URLs of the CDS/EDS responses received meanwhile.
func (c *client) drain() []string {
	name := fmt.Sprintf("c05-barrier-%d", c.barriers)
	c.barriers++
	if c.delta {
		c.sendDelta(v3.ListenerType, []string{name}, nil, nil, "")
	} else {
		c.sendSotw(v3.ListenerType, nil, "")
	}
	var got []string
	for {
		url := c.apply(c.recv())
		if url == v3.ListenerType {
			return got
		}
		got = append(got, url)
	}
}

func (c *client) wantEDS() map[string]bool {
	out := map[string]bool{}
	for n, e := range c.isEDS {
		if e {
			out[n] = true
		}
	}
	return out
}

// bring the EDS subscription in line with the clusters held (Envoy: CLAs go with their cluster)
func (c *client) syncEDS(force bool) bool {
	want := c.wantEDS()
	var add, del []string
	for n := range want {
		if !c.edsSub[n] {
			add = append(add, n)
		}
	}
	for n := range c.edsSub {
		if !want[n] {
			del = append(del, n)
		}
	}
	sort.Strings(add)
	sort.Strings(del)
	for n := range c.eds {
		if !want[n] {
			delete(c.eds, n)
		}
	}
	if len(add) == 0 && len(del) == 0 && !force {
		return false
	}
	c.edsSub = want
	if c.delta {
		c.sendDelta(v3.EndpointType, add, del, nil, "")
	} else {
		if len(want) == 0 && !c.edsSent {
			return false
		}
		c.sendSotw(v3.EndpointType, keys(want), c.nonce[v3.EndpointType])
		c.unacked[v3.EndpointType] = false
	}
	c.edsSent = true
	return true
}

func (c *client) ack(url string) {
	if !c.unacked[url] {
		return
	}
	c.unacked[url] = false
	if c.delta {
		c.sendDelta(url, nil, nil, nil, c.nonce[url])
		return
	}
	if url == v3.ClusterType {
		c.sendSotw(url, nil, c.nonce[url])
	} else if len(c.edsSub) > 0 {
		c.sendSotw(url, keys(c.edsSub), c.nonce[url])
	}
}

// run the exchange until nothing is in flight.  Returns false if it does not settle.
func (c *client) settle() bool {
	for round := 0; round < 8; round++ {
		got := c.drain()
		c.ack(v3.ClusterType)
		changed := c.syncEDS(false)
		c.ack(v3.EndpointType)
		if len(got) == 0 && !changed {
			return true
		}
	}
	return false
}

// ---------------------------------------------------------------- one cut

type retainedT struct {
	cds, eds map[string]int
	isEDS    map[string]bool
	nonce    map[string]string
	version  map[string]string
}

func copyI(m map[string]int) map[string]int {
	o := map[string]int{}
	for k, v := range m {
		o[k] = v
	}
	return o
}

type interner struct{ ids map[string]int }

func (in *interner) build(sets ...[]string) {
	all := map[string]bool{}
	for _, s := range sets {
		for _, n := range s {
			all[n] = true
		}
	}
	in.ids = map[string]int{}
	for i, n := range keys(all) {
		in.ids[n] = i + 1
	}
}

func (in *interner) names(l []string) []int {
	out := make([]int, 0, len(l))
	for _, n := range l {
		out = append(out, in.ids[n])
	}
	sort.Ints(out)
	return out
}

func (in *interner) cmap(m map[string]int) []resv {
	out := make([]resv, 0, len(m))
	for _, n := range keysI(m) {
		out = append(out, resv{in.ids[n], m[n]})
	}
	return out
}

func restrict(m map[string]int, to map[string]bool) map[string]int {
	o := map[string]int{}
	for k, v := range m {
		if to[k] {
			o[k] = v
		}
	}
	return o
}

func (g *gen) cut(t *testing.T, w *e2eWorld, rnd *vlib.Rand, id int, delta bool) {
	s := w.s
	mode := "sotw"
	if delta {
		mode = "delta"
	}
	var log []string
	// 1. initial world
	for i := 0; i < nHosts; i++ {
		w.set(i, rnd.Chance(55), randEps(rnd))
	}
	w.synced()

	// 2. the first life of the proxy, cut after k responses
	k := rnd.Intn(4)
	ret := retainedT{cds: map[string]int{}, eds: map[string]int{}, isEDS: map[string]bool{}, nonce: map[string]string{}, version: map[string]string{}}
	if k > 0 {
		a := connect(t, s, delta)
		if delta {
			a.sendDelta(v3.ClusterType, nil, nil, nil, "")
		} else {
			a.sendSotw(v3.ClusterType, nil, "")
		}
		a.apply(a.recv())
		if k >= 2 {
			a.ack(v3.ClusterType)
			a.syncEDS(false)
			if !a.settle() {
				t.Fatalf("C05 e2e: initial synchronisation does not settle: %v", a.trace)
			}
		}
		if k == 3 {
			// mid-push: a change is pushed, the stream is cut after the first pushed response
			log = append(log, "mid-push: "+w.toggle(rnd.Intn(nHosts), rnd))
			a.apply(a.recv())
		}
		ret = retainedT{cds: copyI(a.cds), eds: copyI(a.eds), isEDS: map[string]bool{}, nonce: a.nonce, version: a.version}
		for n, e := range a.isEDS {
			ret.isEDS[n] = e
		}
		a.close()
	}
	// the client may claim anything: a name that never existed, a nonce from nowhere
	if rnd.Chance(35) {
		ret.cds[ghost], ret.isEDS[ghost], ret.eds[ghost] = 1, true, 1
		log = append(log, "ghost retained")
	}
	if k == 0 || rnd.Chance(20) {
		if rnd.Bool() {
			ret.nonce[v3.ClusterType], ret.nonce[v3.EndpointType] = "stale-nonce-cds", "stale-nonce-eds"
		}
	}

	// 3. changes while disconnected
	for n := rnd.Intn(4); n > 0; n-- {
		log = append(log, w.change(rnd))
	}
	w.synced()

	// 4. reconnect with the retained state, to the same instance or to the other one (which has never
	// seen this proxy nor issued any of its nonces)
	other := rnd.Chance(35)
	if other {
		s = w.s2
		log = append(log, "reconnect to the second instance")
	}
	b := connect(t, s, delta)
	b.cds, b.eds, b.isEDS = copyI(ret.cds), copyI(ret.eds), ret.isEDS
	for u, n := range ret.nonce {
		b.nonce[u] = n
	}
	for u, v := range ret.version {
		b.version[u] = v
	}
	edsFirst := rnd.Bool() && len(b.wantEDS()) > 0
	sendCDS := func() {
		if delta {
			init := map[string]string{}
			for n := range ret.cds {
				init[n] = ""
			}
			var sub []string
			if rnd.Bool() {
				sub = []string{"*"}
			}
			b.sendDelta(v3.ClusterType, sub, nil, init, b.nonce[v3.ClusterType])
		} else {
			b.sendSotw(v3.ClusterType, nil, b.nonce[v3.ClusterType])
		}
	}
	sendEDS := func() {
		want := b.wantEDS()
		if len(want) == 0 {
			return
		}
		b.edsSub, b.edsSent = want, true
		if delta {
			init := map[string]string{}
			for n := range ret.eds {
				if want[n] {
					init[n] = ""
				}
			}
			b.sendDelta(v3.EndpointType, keys(want), nil, init, b.nonce[v3.EndpointType])
		} else {
			b.sendSotw(v3.EndpointType, keys(want), b.nonce[v3.EndpointType])
		}
	}
	if edsFirst {
		sendEDS()
		sendCDS()
	} else {
		sendCDS()
		sendEDS()
	}
	first := b.drain()
	answeredCDS, answeredEDS := false, !b.edsSent
	for _, u := range first {
		answeredCDS = answeredCDS || u == v3.ClusterType
		answeredEDS = answeredEDS || u == v3.EndpointType
	}
	b.ack(v3.ClusterType)
	b.syncEDS(false)
	b.ack(v3.EndpointType)
	settled := b.settle()

	// 5. a client that starts with nothing
	f := connect(t, s, delta)
	if delta {
		f.sendDelta(v3.ClusterType, nil, nil, nil, "")
	} else {
		f.sendSotw(v3.ClusterType, nil, "")
	}
	f.apply(f.recv())
	f.ack(v3.ClusterType)
	f.syncEDS(false)
	if !f.settle() {
		t.Fatalf("C05 e2e: fresh client does not settle: %v", f.trace)
	}
	b.close()
	f.close()

	tags := []string{"e2e-" + mode, fmt.Sprintf("e2e-cut-%d", k)}
	if edsFirst {
		tags = append(tags, "e2e-eds-first")
	}
	if other {
		tags = append(tags, "e2e-other-instance")
	}
	if !settled {
		g.c.Violate(vlib.Violation{ID: id, Kind: "no-quiescence", Detail: "the reconnect exchange does not settle", Case: map[string]any{"trace": b.trace, "log": log}})
	}
	sample := func(typ string) map[string]any {
		return map[string]any{"kind": "e2e", "mode": mode, "type": typ, "cut": k, "edsFirst": edsFirst, "changes": log,
			"retained_cds": keysI(ret.cds), "final_cds": keysI(b.cds), "fresh_cds": keysI(f.cds),
			"removed_cds": keys(b.removed[v3.ClusterType]), "trace": b.trace}
	}
	// CDS
	in := &interner{}
	rmC := keys(b.removed[v3.ClusterType])
	in.build(keysI(ret.cds), keysI(b.cds), keysI(f.cds), rmC)
	if len(rmC) > 0 {
		tags = append(tags, "e2e-cds-removed")
	}
	g.c.Add(vlib.Case{ID: id, Tags: tags, Sample: sample("CDS"),
		Term: vlib.App("E2E", vlib.NI(id), vlib.B(delta), "CDS", "[]", rlist(in.cmap(ret.cds)), nlist(in.names(rmC)),
			rlist(in.cmap(b.cds)), rlist(in.cmap(f.cds)), vlib.B(answeredCDS))})
	// EDS, relative to the subscription the client ends with (CLAs of removed clusters go with the cluster)
	if sub := b.edsSub; len(sub) > 0 {
		retE := restrict(ret.eds, sub)
		var rmE []string
		for _, n := range keys(b.removed[v3.EndpointType]) {
			if sub[n] {
				rmE = append(rmE, n)
			}
		}
		in.build(keys(sub), keysI(retE), keysI(b.eds), keysI(f.eds), rmE)
		g.c.Add(vlib.Case{ID: id + 1, Tags: []string{"e2e-eds-" + mode}, Sample: sample("EDS"),
			Term: vlib.App("E2E", vlib.NI(id+1), vlib.B(delta), "EDS", nlist(in.names(keys(sub))), rlist(in.cmap(retE)), nlist(in.names(rmE)),
				rlist(in.cmap(b.eds)), rlist(in.cmap(f.eds)), vlib.B(answeredEDS && b.answered[v3.EndpointType] > 0))})
	}
}

func runE2E(t *testing.T, g *gen, rnd *vlib.Rand) {
	test.SetForTest(t, &features.DeltaXds, true)
	n := vlib.Scale(36, 600)
	var w *e2eWorld
	for i := 0; i < n; i++ {
		id := g.take(2)
		r := rnd.Sub()
		if !g.c.Wanted(id) && !g.c.Wanted(id+1) {
			continue
		}
		if w == nil || i%12 == 0 {
			w = &e2eWorld{s: xdsfake.NewFakeDiscoveryServer(t, xdsfake.FakeOptions{}), s2: xdsfake.NewFakeDiscoveryServer(t, xdsfake.FakeOptions{}), t: t}
		}
		g.cut(t, w, r, id, i%2 == 0)
	}
}
