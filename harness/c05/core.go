//go:build verif

// Package c05: correspondence harness for property C05 (a reconnecting proxy is fully resynchronised).
//
// core.go: step-level sessions.  A bare DiscoveryServer (export shim) with harness generators for the
// Envoy types and the REAL WorkloadGenerator (over a fake ambient index) for the ztunnel types; a
// connection whose proxy has the empty WatchedResources map initializeProxy gives a new stream; the
// REAL processRequest / processDeltaRequest (ShouldRespond, shouldRespondDelta, pushXds, pushDeltaXds,
// forceEDSPush, Send, sendDelta) run on requests that carry retained nonces / names /
// initial_resource_versions.  Observed: the responses written to the stream and the resulting
// WatchedResources; printed as Gallina terms for coq/C05/Run.v.
package c05

import (
	"errors"
	"fmt"
	"sort"
	"strconv"
	"strings"

	discovery "github.com/envoyproxy/go-control-plane/envoy/service/discovery/v3"
	rpcstatus "google.golang.org/genproto/googleapis/rpc/status"
	"google.golang.org/grpc"
	"google.golang.org/protobuf/types/known/wrapperspb"

	"istio.io/istio/pilot/pkg/model"
	pxds "istio.io/istio/pilot/pkg/xds"
	v3 "istio.io/istio/pilot/pkg/xds/v3"
	"istio.io/istio/pilot/pkg/util/protoconv"
	"istio.io/istio/pkg/config/schema/kind"
	"istio.io/istio/pkg/util/sets"
	"istio.io/istio/pkg/workloadapi"
	"istio.io/istio/pkg/workloadapi/security"
	"verif/harness/vlib"
)

// ---------------------------------------------------------------- universe

type xtype struct {
	URL, Term string
}

var types = []xtype{
	{v3.ClusterType, "CDS"},
	{v3.EndpointType, "EDS"},
	{v3.ListenerType, "LDS"},
	{v3.RouteType, "RDS"},
	{v3.SecretType, "SDS"},
	{v3.ExtensionConfigurationType, "ECDS"},
	{v3.AddressType, "ADDR"},
	{v3.WorkloadType, "WORKLOAD"},
	{v3.NameTableType, "(OTHER 1%N)"},
	{v3.WorkloadAuthorizationType, "(OTHER 4%N)"},
}

const (
	tCDS = iota
	tEDS
	tLDS
	tRDS
	tSDS
	tECDS
	tADDR
	tWORKLOAD
	tNDS
	tAUTHZ
)

func typeIndex(url string) int {
	for i, t := range types {
		if t.URL == url {
			return i
		}
	}
	return -1
}

func isZtunnelType(t int) bool { return t == tADDR || t == tWORKLOAD }

// names: id 0 is "*"
var nameStr = []string{"*", "a", "b", "c", "d", "e", "f"}

// the wire name of name id n for type t: workload Authorization resources are named <namespace>/<name>
func nameFor(t, n int) string {
	if t == tAUTHZ && n != 0 {
		return "ns/" + nameStr[n]
	}
	return nameStr[n]
}

func nameID(s string) int {
	s = strings.TrimPrefix(s, "ns/")
	for i, n := range nameStr {
		if n == s {
			return i
		}
	}
	return -1
}

func verStr(v int) string {
	if v == 0 {
		return ""
	}
	return "v" + strconv.Itoa(v)
}

func verID(s string) int {
	if s == "" {
		return 0
	}
	if v, err := strconv.Atoi(strings.TrimPrefix(s, "v")); err == nil {
		return v
	}
	return -1
}

type resv struct{ Name, Ver int }

// ---------------------------------------------------------------- nonces

// ids below 1000 are nonces of an earlier stream ("n<id>", 0 = empty); the k-th distinct nonce
// observed on this stream is 1000+k
type nonces struct{ seen []string }

func (n *nonces) id(s string) int {
	if s == "" {
		return 0
	}
	if strings.HasPrefix(s, "n") {
		if v, err := strconv.Atoi(s[1:]); err == nil && v < 1000 {
			return v
		}
	}
	for i, x := range n.seen {
		if x == s {
			return 1000 + i
		}
	}
	n.seen = append(n.seen, s)
	return 1000 + len(n.seen) - 1
}

func (n *nonces) str(id int) string {
	if id == 0 {
		return ""
	}
	if id < 1000 {
		return "n" + strconv.Itoa(id)
	}
	if id-1000 < len(n.seen) {
		return n.seen[id-1000]
	}
	return "unknown-" + strconv.Itoa(id)
}

// ---------------------------------------------------------------- generators

const (
	gPlain = iota
	gDelta
	gNil
)

var gkindTerm = []string{"GPlain", "GDelta", "GNil"}

type worldT map[int][]resv // type index -> resources sorted by name

func (w worldT) names(t int) sets.String {
	s := sets.New[string]()
	for _, r := range w[t] {
		s.Insert(nameStr[r.Name])
	}
	return s
}

func encodeRes(r resv) *discovery.Resource {
	return &discovery.Resource{
		Name:     nameStr[r.Name],
		Version:  verStr(r.Ver),
		Resource: protoconv.MessageToAny(wrapperspb.String(nameStr[r.Name] + "|" + verStr(r.Ver))),
	}
}

// fakeGen implements model.XdsResourceGenerator: wildcard types return the whole world of the type,
// the others what w.ResourceNames selects.
type fakeGen struct {
	kind  int
	world worldT
}

func (g *fakeGen) forced(w *model.WatchedResource) model.Resources {
	t := typeIndex(w.TypeUrl)
	out := make(model.Resources, 0)
	for _, r := range g.world[t] {
		if xdsIsWildcard(w.TypeUrl) || w.ResourceNames.Contains(nameStr[r.Name]) {
			out = append(out, encodeRes(r))
		}
	}
	return out
}

func (g *fakeGen) Generate(_ *model.Proxy, w *model.WatchedResource, _ *model.PushRequest) (model.Resources, model.XdsLogDetails, error) {
	if g.kind == gNil {
		return nil, model.DefaultXdsLogDetails, nil
	}
	return g.forced(w), model.DefaultXdsLogDetails, nil
}

// fakeDeltaGen also implements model.XdsDeltaResourceGenerator (usedDelta = true)
type fakeDeltaGen struct{ fakeGen }

func (g *fakeDeltaGen) GenerateDeltas(_ *model.Proxy, _ *model.PushRequest, w *model.WatchedResource,
) (model.Resources, model.DeletedResources, model.XdsLogDetails, bool, error) {
	have := g.world.names(typeIndex(w.TypeUrl))
	deleted := sets.SortedList(w.ResourceNames.Difference(have))
	return g.forced(w), deleted, model.DefaultXdsLogDetails, true, nil
}

// fakeIndex: the ambient index the real WorkloadGenerator reads
type fakeIndex struct {
	model.NoopAmbientIndexes
	addrs []resv
	pols  []resv
}

// Policies: what the real WorkloadRBACGenerator reads (requested empty = all)
func (f fakeIndex) Policies(requested sets.Set[model.ConfigKey]) []model.WorkloadAuthorization {
	var out []model.WorkloadAuthorization
	for _, p := range f.pols {
		if len(requested) > 0 && !requested.Contains(model.ConfigKey{Kind: kind.AuthorizationPolicy, Name: nameStr[p.Name], Namespace: "ns"}) {
			continue
		}
		out = append(out, model.WorkloadAuthorization{Authorization: &security.Authorization{Name: nameStr[p.Name], Namespace: "ns"}})
	}
	return out
}

func (f fakeIndex) AddressInformation(addresses sets.String) ([]model.AddressInfo, sets.String) {
	var out []model.AddressInfo
	found := sets.New[string]()
	for _, r := range f.addrs {
		n := nameStr[r.Name]
		if addresses != nil && !addresses.Contains(n) {
			continue
		}
		found.Insert(n)
		out = append(out, model.AddressInfo{
			Address: &workloadapi.Address{Type: &workloadapi.Address_Workload{Workload: &workloadapi.Workload{Uid: n, Name: verStr(r.Ver)}}},
			Version: verStr(r.Ver),
		})
	}
	removed := sets.New[string]()
	if addresses != nil {
		removed = addresses.Difference(found)
	}
	return out, removed
}

// ---------------------------------------------------------------- fake streams

type sotwStream struct {
	grpc.ServerStream
	sent []*discovery.DiscoveryResponse
}

func (f *sotwStream) Send(r *discovery.DiscoveryResponse) error { f.sent = append(f.sent, r); return nil }
func (f *sotwStream) Recv() (*discovery.DiscoveryRequest, error) { return nil, errors.New("no recv") }

type deltaStream struct {
	grpc.ServerStream
	sent []*discovery.DeltaDiscoveryResponse
}

func (f *deltaStream) Send(r *discovery.DeltaDiscoveryResponse) error {
	f.sent = append(f.sent, r)
	return nil
}
func (f *deltaStream) Recv() (*discovery.DeltaDiscoveryRequest, error) {
	return nil, errors.New("no recv")
}

// ---------------------------------------------------------------- session environment

type env struct {
	s     *pxds.DiscoveryServer
	con   *pxds.Connection
	proxy *model.Proxy
	ss    *sotwStream
	ds    *deltaStream
	nn    nonces
	world worldT
}

// newEnv: what a stream looks like right after initConnection: a Proxy built from the node of the
// first request, LastPushContext set, WatchedResources = empty map (initializeProxy).
func newEnv(kind int, world worldT, delta bool) *env {
	e := &env{world: world}
	fg := &fakeGen{kind: kind, world: world}
	var g model.XdsResourceGenerator = fg
	if kind == gDelta {
		g = &fakeDeltaGen{*fg}
	}
	gens := map[string]model.XdsResourceGenerator{}
	for i, t := range types {
		if !isZtunnelType(i) && i != tAUTHZ {
			gens[t.URL] = g
		}
	}
	menv := &model.Environment{AmbientIndexes: fakeIndex{addrs: world[tADDR], pols: world[tAUTHZ]}}
	e.s = pxds.VerifC05BareServer(menv, gens)
	wg := &pxds.WorkloadGenerator{Server: e.s}
	gens[v3.AddressType] = wg
	gens[v3.WorkloadType] = wg
	gens[v3.WorkloadAuthorizationType] = &pxds.WorkloadRBACGenerator{Server: e.s}
	pc := model.NewPushContext()
	pc.PushVersion = "pv1/"
	e.proxy = &model.Proxy{
		ID:               "sidecar~1.1.1.1~c05.default~default.svc.cluster.local",
		Type:             model.SidecarProxy,
		Metadata:         &model.NodeMetadata{},
		LastPushContext:  pc,
		WatchedResources: map[string]*model.WatchedResource{},
	}
	if delta {
		e.ds = &deltaStream{}
		e.con = pxds.VerifC05NewConnection(e.s, "c05-1", e.proxy, nil, e.ds)
	} else {
		e.ss = &sotwStream{}
		e.con = pxds.VerifC05NewConnection(e.s, "c05-1", e.proxy, e.ss, nil)
	}
	return e
}

type WR struct {
	Names     []int `json:"names"`
	Wildcard  bool  `json:"wildcard"`
	Sent      int   `json:"sent"`
	Acked     int   `json:"acked"`
	Always    bool  `json:"always"`
	LastError int   `json:"lastError"`
}

func (e *env) wr(t int) *WR {
	w := e.proxy.GetWatchedResource(types[t].URL)
	if w == nil {
		return nil
	}
	ids := []int{}
	for n := range w.ResourceNames {
		ids = append(ids, nameID(n))
	}
	sort.Ints(ids)
	le := 0
	if w.LastError != "" {
		le, _ = strconv.Atoi(strings.TrimPrefix(w.LastError, "e"))
	}
	return &WR{Names: ids, Wildcard: w.Wildcard, Sent: e.nn.id(w.NonceSent), Acked: e.nn.id(w.NonceAcked), Always: w.AlwaysRespond, LastError: le}
}

// ---------------------------------------------------------------- requests / responses

type Req struct {
	Delta bool   `json:"delta"`
	T     int    `json:"type"`
	Names []int  `json:"names,omitempty"` // SotW resource_names / delta subscribe
	Unsub []int  `json:"unsub,omitempty"`
	Init  []resv `json:"init,omitempty"` // initial_resource_versions
	Nonce int    `json:"nonce"`
	Err   int    `json:"err"` // -1 = none
}

type Resp struct {
	T       int    `json:"type"`
	Res     []resv `json:"res"`
	Removed []int  `json:"removed,omitempty"`
	Nonce   int    `json:"nonce"`
}

func strs(t int, ids []int) []string {
	out := make([]string, len(ids))
	for i, n := range ids {
		out[i] = nameFor(t, n)
	}
	return out
}

func decodeAny(payload string) (resv, error) {
	i := strings.LastIndex(payload, "|")
	if i < 0 {
		return resv{}, fmt.Errorf("bad payload %q", payload)
	}
	n, v := nameID(payload[:i]), verID(payload[i+1:])
	if n < 0 || v < 0 {
		return resv{}, fmt.Errorf("bad payload %q", payload)
	}
	return resv{n, v}, nil
}

// run one request through the real code; returns the responses written to the stream
func (e *env) process(r Req) ([]Resp, error) {
	var errDetail *rpcstatus.Status
	if r.Err >= 0 {
		errDetail = &rpcstatus.Status{Code: 3, Message: "e" + strconv.Itoa(r.Err)}
		if r.Err == 0 {
			errDetail.Message = ""
		}
	}
	var out []Resp
	if r.Delta {
		req := &discovery.DeltaDiscoveryRequest{
			TypeUrl: types[r.T].URL, ResourceNamesSubscribe: strs(r.T, r.Names), ResourceNamesUnsubscribe: strs(r.T, r.Unsub),
			ResponseNonce: e.nn.str(r.Nonce), ErrorDetail: errDetail,
		}
		if len(r.Init) > 0 {
			req.InitialResourceVersions = map[string]string{}
			for _, iv := range r.Init {
				req.InitialResourceVersions[nameFor(r.T, iv.Name)] = verStr(iv.Ver)
			}
		}
		before := len(e.ds.sent)
		if err := pxds.VerifC05ProcessDeltaRequest(e.s, e.con, req); err != nil {
			return nil, err
		}
		for _, d := range e.ds.sent[before:] {
			o := Resp{T: typeIndex(d.TypeUrl), Nonce: e.nn.id(d.Nonce), Res: []resv{}}
			for _, rr := range d.Resources {
				if isZtunnelType(o.T) {
					o.Res = append(o.Res, resv{nameID(rr.Name), verID(rr.Version)})
					continue
				}
				if o.T == tAUTHZ {
					o.Res = append(o.Res, resv{nameID(rr.Name), 0})
					continue
				}
				s := &wrapperspb.StringValue{}
				if err := rr.Resource.UnmarshalTo(s); err != nil {
					return nil, err
				}
				rv, err := decodeAny(s.Value)
				if err != nil {
					return nil, err
				}
				if rr.Name != nameStr[rv.Name] {
					return nil, fmt.Errorf("resource name %q does not match payload %q", rr.Name, s.Value)
				}
				o.Res = append(o.Res, rv)
			}
			rm := []int{}
			for _, n := range d.RemovedResources {
				rm = append(rm, nameID(n))
			}
			sort.Ints(rm)
			o.Removed = rm
			out = append(out, o)
		}
		return out, nil
	}
	req := &discovery.DiscoveryRequest{
		TypeUrl: types[r.T].URL, ResourceNames: strs(r.T, r.Names), ResponseNonce: e.nn.str(r.Nonce), ErrorDetail: errDetail,
	}
	before := len(e.ss.sent)
	if err := pxds.VerifC05ProcessRequest(e.s, e.con, req); err != nil {
		return nil, err
	}
	for _, d := range e.ss.sent[before:] {
		o := Resp{T: typeIndex(d.TypeUrl), Nonce: e.nn.id(d.Nonce), Res: []resv{}}
		for _, a := range d.Resources {
			s := &wrapperspb.StringValue{}
			if err := a.UnmarshalTo(s); err != nil {
				return nil, err
			}
			rv, err := decodeAny(s.Value)
			if err != nil {
				return nil, err
			}
			o.Res = append(o.Res, rv)
		}
		out = append(out, o)
	}
	return out, nil
}

// ---------------------------------------------------------------- printers

func nlist(ids []int) string { return vlib.ListOf(ids, vlib.NI) }

func rlist(rs []resv) string {
	return vlib.ListOf(rs, func(r resv) string { return vlib.Pair(vlib.NI(r.Name), vlib.NI(r.Ver)) })
}

func initNames(rs []resv) []int {
	out := make([]int, len(rs))
	for i, r := range rs {
		out[i] = r.Name
	}
	return out
}

func errTerm(e int) string { return vlib.Opt(e >= 0, vlib.NI(e)) }

func wrTerm(w *WR) string {
	if w == nil {
		return "None"
	}
	return "(Some (mkWr " + nlist(w.Names) + " " + vlib.B(w.Wildcard) + " " + vlib.NI(w.Sent) + " " + vlib.NI(w.Acked) + " " +
		vlib.B(w.Always) + " " + vlib.NI(w.LastError) + "))"
}

type Touched struct {
	T  int `json:"type"`
	WR *WR `json:"wr"`
}

func touchedTerm(ts []Touched) string {
	return vlib.ListOf(ts, func(t Touched) string { return vlib.Pair(types[t.T].Term, wrTerm(t.WR)) })
}

func worldTerm(w worldT) string {
	var parts []string
	for t := range types {
		if len(w[t]) > 0 {
			parts = append(parts, vlib.Pair(types[t].Term, rlist(w[t])))
		}
	}
	return vlib.List(parts)
}

type Step struct {
	Req     Req       `json:"req"`
	Resps   []Resp    `json:"responses"`
	Touched []Touched `json:"touched"`
}

func stepTerm(s Step) string {
	r := s.Req
	if r.Delta {
		n1, n2 := 0, 0
		for _, d := range s.Resps {
			if d.T == r.T && n1 == 0 {
				n1 = d.Nonce
			} else {
				n2 = d.Nonce
			}
		}
		resps := vlib.ListOf(s.Resps, func(d Resp) string {
			return vlib.App("mkDResp", types[d.T].Term, rlist(d.Res), nlist(d.Removed), vlib.NI(d.Nonce))
		})
		return vlib.App("XD",
			vlib.App("mkDReq", types[r.T].Term, nlist(r.Names), nlist(r.Unsub), nlist(initNames(r.Init)), vlib.NI(r.Nonce), errTerm(r.Err)),
			rlist(r.Init), vlib.NI(n1), vlib.NI(n2), resps, touchedTerm(s.Touched))
	}
	n := 0
	if len(s.Resps) > 0 {
		n = s.Resps[0].Nonce
	}
	resps := vlib.ListOf(s.Resps, func(d Resp) string {
		return vlib.App("mkSResp", types[d.T].Term, rlist(d.Res), vlib.NI(d.Nonce))
	})
	return vlib.App("XS", vlib.App("mkReq", types[r.T].Term, nlist(r.Names), vlib.NI(r.Nonce), errTerm(r.Err)),
		vlib.NI(n), resps, touchedTerm(s.Touched))
}
