//go:build verif

package c08

import (
	"fmt"
	"sort"
	"strconv"
	"strings"
	"testing"

	rbacpb "github.com/envoyproxy/go-control-plane/envoy/config/rbac/v3"
	rbachttp "github.com/envoyproxy/go-control-plane/envoy/extensions/filters/http/rbac/v3"
	rbactcp "github.com/envoyproxy/go-control-plane/envoy/extensions/filters/network/rbac/v3"

	authzpb "istio.io/api/security/v1beta1"
	"istio.io/istio/pilot/pkg/model"
	"istio.io/istio/pilot/pkg/security/authz/builder"
	"istio.io/istio/pilot/pkg/security/trustdomain"
	"verif/harness/vlib"
)

// ---------------------------------------------------------------- harness-side policy IR

type Src struct {
	Principals, NotPrincipals               []string `json:",omitempty"`
	RequestPrincipals, NotRequestPrincipals []string `json:",omitempty"`
	Namespaces, NotNamespaces               []string `json:",omitempty"`
	IpBlocks, NotIpBlocks                   []string `json:",omitempty"`
	RemoteIpBlocks, NotRemoteIpBlocks       []string `json:",omitempty"`
	ServiceAccounts, NotServiceAccounts     []string `json:",omitempty"`
}
type Op struct {
	Hosts, NotHosts     []string `json:",omitempty"`
	Ports, NotPorts     []string `json:",omitempty"`
	Methods, NotMethods []string `json:",omitempty"`
	Paths, NotPaths     []string `json:",omitempty"`
}
type Cond struct {
	Key               string
	Values, NotValues []string `json:",omitempty"`
}
type Rule struct {
	From []Src  `json:",omitempty"`
	To   []Op   `json:",omitempty"`
	When []Cond `json:",omitempty"`
}
type Pol struct {
	ID     int
	NS     string
	Action string // ALLOW DENY AUDIT
	Dry    bool   `json:",omitempty"`
	Rules  []Rule
}
type Opts struct {
	TCP, UseFilterState bool
	TrustDomains        []string
}

type Req struct {
	Peer                            *string
	SrcIP, RemoteIP, DstIP, DstPort uint32
	SNI                             string
	Headers                         [][2]string
	Path                            *string
	JWT                             []JF `json:",omitempty"`
	HasJWT                          bool
}
type JF struct {
	K    string
	Str  *string  `json:",omitempty"`
	List []string `json:",omitempty"`
	Obj  []JF     `json:",omitempty"`
}

// ---------------------------------------------------------------- to the real API

func toProto(r Rule) *authzpb.Rule {
	out := &authzpb.Rule{}
	for _, s := range r.From {
		out.From = append(out.From, &authzpb.Rule_From{Source: &authzpb.Source{
			Principals: s.Principals, NotPrincipals: s.NotPrincipals,
			RequestPrincipals: s.RequestPrincipals, NotRequestPrincipals: s.NotRequestPrincipals,
			Namespaces: s.Namespaces, NotNamespaces: s.NotNamespaces,
			IpBlocks: s.IpBlocks, NotIpBlocks: s.NotIpBlocks,
			RemoteIpBlocks: s.RemoteIpBlocks, NotRemoteIpBlocks: s.NotRemoteIpBlocks,
			ServiceAccounts: s.ServiceAccounts, NotServiceAccounts: s.NotServiceAccounts,
		}})
	}
	for _, o := range r.To {
		out.To = append(out.To, &authzpb.Rule_To{Operation: &authzpb.Operation{
			Hosts: o.Hosts, NotHosts: o.NotHosts, Ports: o.Ports, NotPorts: o.NotPorts,
			Methods: o.Methods, NotMethods: o.NotMethods, Paths: o.Paths, NotPaths: o.NotPaths,
		}})
	}
	for _, w := range r.When {
		out.When = append(out.When, &authzpb.Condition{Key: w.Key, Values: w.Values, NotValues: w.NotValues})
	}
	return out
}

const rootNS = "istio-system"
const wlNS = "foo"

// runReal drives ListAuthorizationPolicies (action split) and builder.New(..).BuildHTTP/BuildTCP
// and decodes the RBAC protos of the produced filters.
func runReal(o Opts, ps []Pol) (filters []string, err error) {
	aps := &model.AuthorizationPolicies{NamespaceToPolicies: map[string][]model.AuthorizationPolicy{}, RootNamespace: rootNS}
	for _, p := range ps {
		spec := &authzpb.AuthorizationPolicy{}
		switch p.Action {
		case "ALLOW":
			spec.Action = authzpb.AuthorizationPolicy_ALLOW
		case "DENY":
			spec.Action = authzpb.AuthorizationPolicy_DENY
		case "AUDIT":
			spec.Action = authzpb.AuthorizationPolicy_AUDIT
		}
		for _, r := range p.Rules {
			spec.Rules = append(spec.Rules, toProto(r))
		}
		ap := model.AuthorizationPolicy{Name: "p" + strconv.Itoa(p.ID), Namespace: p.NS, Spec: spec, Annotations: map[string]string{}}
		if p.Dry {
			ap.Annotations["istio.io/dry-run"] = "true"
		}
		aps.NamespaceToPolicies[p.NS] = append(aps.NamespaceToPolicies[p.NS], ap)
	}
	res := aps.ListAuthorizationPolicies(model.WorkloadPolicyMatcher{WorkloadNamespace: wlNS, WorkloadLabels: map[string]string{"app": "x"}, RootNamespace: rootNS})
	td := trustdomain.NewBundle(o.TrustDomains[0], o.TrustDomains[1:])
	b := builder.New(td, nil, res, builder.Option{UseFilterState: o.UseFilterState})
	if b == nil {
		return nil, nil
	}
	err = safely(func() {
		if o.TCP {
			for _, f := range b.BuildTCP() {
				cfg := &rbactcp.RBAC{}
				if e := f.GetTypedConfig().UnmarshalTo(cfg); e != nil {
					bad("network filter %s: %v", f.GetName(), e)
				}
				if f.GetName() != "envoy.filters.network.rbac" {
					bad("unexpected network filter %s", f.GetName())
				}
				filters = append(filters, filterTerm(cfg.GetRules(), cfg.GetShadowRules()))
			}
		} else {
			for _, f := range b.BuildHTTP() {
				cfg := &rbachttp.RBAC{}
				if e := f.GetTypedConfig().UnmarshalTo(cfg); e != nil {
					bad("http filter %s: %v", f.GetName(), e)
				}
				if f.GetName() != "envoy.filters.http.rbac" {
					bad("unexpected http filter %s", f.GetName())
				}
				filters = append(filters, filterTerm(cfg.GetRules(), cfg.GetShadowRules()))
			}
		}
	})
	return filters, err
}

var _ = rbacpb.RBAC_ALLOW

// ---------------------------------------------------------------- Gallina printers of the source side

func strs(l []string) string { return vlib.ListOf(l, vlib.Str) }

func srcTerm(s Src) string {
	return ctor("Build_source", "s_principals", strs(s.Principals), "s_not_principals", strs(s.NotPrincipals),
		"s_request_principals", strs(s.RequestPrincipals), "s_not_request_principals", strs(s.NotRequestPrincipals),
		"s_namespaces", strs(s.Namespaces), "s_not_namespaces", strs(s.NotNamespaces),
		"s_ip_blocks", strs(s.IpBlocks), "s_not_ip_blocks", strs(s.NotIpBlocks),
		"s_remote_ip_blocks", strs(s.RemoteIpBlocks), "s_not_remote_ip_blocks", strs(s.NotRemoteIpBlocks),
		"s_service_accounts", strs(s.ServiceAccounts), "s_not_service_accounts", strs(s.NotServiceAccounts))
}
func opTerm(o Op) string {
	return ctor("Build_operation", "o_hosts", strs(o.Hosts), "o_not_hosts", strs(o.NotHosts), "o_ports", strs(o.Ports), "o_not_ports", strs(o.NotPorts),
		"o_methods", strs(o.Methods), "o_not_methods", strs(o.NotMethods), "o_paths", strs(o.Paths), "o_not_paths", strs(o.NotPaths))
}
func condTerm(w Cond) string {
	return ctor("Build_condition", "w_key", vlib.Str(w.Key), "w_values", strs(w.Values), "w_not_values", strs(w.NotValues))
}
func ruleTerm(r Rule) string {
	return ctor("Build_rule", "from", vlib.ListOf(r.From, srcTerm), "to", vlib.ListOf(r.To, opTerm), "when", vlib.ListOf(r.When, condTerm))
}
func polTerm(p Pol) string {
	return ctor("Build_policy", "p_id", vlib.NI(p.ID), "p_ns", vlib.Str(p.NS), "p_action", p.Action, "p_dry_run", vlib.B(p.Dry), "p_rules", vlib.ListOf(p.Rules, ruleTerm))
}
func optsTerm(o Opts) string {
	return ctor("Build_options", "tcp", vlib.B(o.TCP), "use_filter_state", vlib.B(o.UseFilterState), "trust_domains", strs(o.TrustDomains))
}
func jfTerm(f JF) string {
	var v string
	switch {
	case f.Str != nil:
		v = vlib.App("JStr", vlib.Str(*f.Str))
	case f.Obj != nil:
		v = vlib.App("JObj", vlib.ListOf(f.Obj, jfTerm))
	default:
		v = vlib.App("JList", strs(f.List))
	}
	return vlib.Pair(vlib.Str(f.K), v)
}
func reqTerm(r Req) string {
	hs := make([]string, len(r.Headers))
	for i, h := range r.Headers {
		hs[i] = vlib.Pair(vlib.Str(h[0]), vlib.Str(h[1]))
	}
	peer, path := "None", "None"
	if r.Peer != nil {
		peer = "(Some " + vlib.Str(*r.Peer) + ")"
	}
	if r.Path != nil {
		path = "(Some " + vlib.Str(*r.Path) + ")"
	}
	jwt := "None"
	if r.HasJWT {
		jwt = "(Some " + vlib.ListOf(r.JWT, jfTerm) + ")"
	}
	return ctor("Build_request", "r_peer", peer, "r_src_ip", vlib.N(uint64(r.SrcIP)), "r_remote_ip", vlib.N(uint64(r.RemoteIP)),
		"r_dst_ip", vlib.N(uint64(r.DstIP)), "r_dst_port", vlib.N(uint64(r.DstPort)), "r_sni", vlib.Str(r.SNI),
		"r_headers", vlib.List(hs), "r_path", path, "r_jwt", jwt)
}

// ---------------------------------------------------------------- generators: policies

var (
	nsVals = []string{"foo", "bar", "foo-sys", "prod", "fo*", "*-sys", "*", "ba*", "*od", "foo.sys", "*.sys"}
	prVals = []string{"cluster.local/ns/foo/sa/a", "cluster.local/ns/bar/sa/b", "td2/ns/foo/sa/a", "old-td/ns/prod/sa/c",
		"*/ns/foo/sa/a", "*/sa/a", "*/sa/a.b", "cluster.local/ns/foo/*", "cluster.local/*", "*", "td2/*", "cluster.local/ns/foo-sys/sa/a.b",
		"*-td/ns/foo/sa/a", "sa/a", "foo/sa/a"}
	ipVals   = []string{"10.0.0.1", "10.0.0.0/24", "10.1.0.0/16", "0.0.0.0/0", "10.0.0.77/24", "192.168.1.5/32", "10.0.1.0/25", "172.16.0.0/12"}
	badIPs   = []string{"10.0.0.256", "bogus", "10.0.0.0/33", "", "10.0.0.1/", "1.2.3", "01.2.3.4", "10.0.0.0/024"}
	hostVals = []string{"example.com", "*.example.com", "api.*", "EXAMPLE.com", "*", "api.example.com", "example.com:8080", "*.COM"}
	methVals = []string{"GET", "POST", "*", "P*", "*T", "DELETE", "get"}
	pathVals = []string{"/api", "/api/*", "*/info", "*", "/a.b", "/api/v1/info", "/", "/api*", "*.html", "/a+b/*",
		"/admin/{*}", "/api/{**}", "/a/{*}/b/{**}", "/public/{*}/info", "/v1/{**}/end", "{*}/x"}
	saVals    = []string{"a", "b", "batch", "foo/a", "bar/b", "prod/c", "default", "a.b", "istio-system/a"}
	portVals  = []string{"80", "8080", "443", "9090", "0", "65535", "080"}
	badPorts  = []string{"http", "70000", "", "-1", "80 ", "4294967376", "+80"}
	sniVals   = []string{"www.example.com", "*.example.com", "www.*", "*", "db.internal"}
	hdrKeys   = []string{"request.headers[x-token]", "request.headers[X-Id]", "request.headers[user-agent]"}
	hdrVals   = []string{"secret", "sec*", "*ret", "*", "abc", "A.c"}
	rpVals    = []string{"issuer/sub", "*/sub", "issuer/*", "*", "iss*", "*sub", "https://accounts.example.com/sub1", "issuer", "https://accounts.example.com/*", "*.example.com/sub1"}
	claimKeys = []string{"request.auth.claims[groups]", "request.auth.claims[a][b]", "request.auth.claims[iss]", "request.auth.claims[scope]"}
	claimVals = []string{"admin", "dev*", "*ops", "*", "issuer", "read"}
	audVals   = []string{"aud1", "aud*", "*", "api.example.com"}
)

func pickN(r *vlib.Rand, pool []string, max int) []string {
	n := 1 + r.Intn(max)
	out := make([]string, 0, n)
	for i := 0; i < n; i++ {
		out = append(out, vlib.Pick(r, pool))
	}
	return out
}

// fill sets values and/or notValues for one attribute
func fill(r *vlib.Rand, pool []string, badPool []string, malformed bool) (vs, ns []string) {
	p := pool
	if malformed && badPool != nil && r.Chance(50) {
		p = append(append([]string{}, pool...), badPool...)
		if r.Chance(50) {
			p = badPool
		}
	}
	switch r.Intn(4) {
	case 0, 1:
		vs = pickN(r, p, 3)
	case 2:
		ns = pickN(r, p, 2)
	default:
		vs = pickN(r, p, 2)
		ns = pickN(r, p, 2)
	}
	return
}

type genCfg struct {
	extra     []string // extra distribution tags
	malformed bool     // out-of-validation values: bad ports / CIDRs / header keys / unknown attributes
	jwt       bool
	aliases   bool
}

func genSrc(r *vlib.Rand, g genCfg) Src {
	s := Src{}
	k := 1 + r.Intn(2)
	for i := 0; i < k; i++ {
		switch r.Intn(6) {
		case 0:
			s.Principals, s.NotPrincipals = fill(r, prVals, nil, false)
		case 1:
			s.Namespaces, s.NotNamespaces = fill(r, nsVals, nil, false)
		case 2:
			s.IpBlocks, s.NotIpBlocks = fill(r, ipVals, badIPs, g.malformed)
		case 3:
			s.RemoteIpBlocks, s.NotRemoteIpBlocks = fill(r, ipVals, badIPs, g.malformed)
		case 4:
			if g.jwt {
				s.RequestPrincipals, s.NotRequestPrincipals = fill(r, rpVals, nil, false)
			} else {
				s.Principals, s.NotPrincipals = fill(r, prVals, nil, false)
			}
		default:
			s.ServiceAccounts, s.NotServiceAccounts = fill(r, saVals, nil, false)
		}
	}
	return s
}

func genOp(r *vlib.Rand, g genCfg) Op {
	o := Op{}
	k := 1 + r.Intn(2)
	for i := 0; i < k; i++ {
		switch r.Intn(4) {
		case 0:
			o.Hosts, o.NotHosts = fill(r, hostVals, nil, false)
		case 1:
			o.Ports, o.NotPorts = fill(r, portVals, badPorts, g.malformed)
		case 2:
			o.Methods, o.NotMethods = fill(r, methVals, nil, false)
		default:
			o.Paths, o.NotPaths = fill(r, pathVals, nil, false)
		}
	}
	return o
}

func genWhen(r *vlib.Rand, g genCfg) Cond {
	w := Cond{}
	n := 9
	if g.jwt {
		n = 13
	}
	if r.Chance(15) {
		w.Key = "source.serviceAccount"
		w.Values, w.NotValues = fill(r, saVals, nil, false)
		return w
	}
	switch r.Intn(n) {
	case 0:
		w.Key = vlib.Pick(r, hdrKeys)
		if g.malformed && r.Chance(30) {
			w.Key = vlib.Pick(r, []string{"request.headers[x", "request.headersx-token]", "request.headers", "request.headers[]"})
		}
		w.Values, w.NotValues = fill(r, hdrVals, nil, false)
	case 1:
		w.Key = "source.ip"
		w.Values, w.NotValues = fill(r, ipVals, badIPs, g.malformed)
	case 2:
		w.Key = "remote.ip"
		w.Values, w.NotValues = fill(r, ipVals, badIPs, g.malformed)
	case 3:
		w.Key = "source.namespace"
		w.Values, w.NotValues = fill(r, nsVals, nil, false)
	case 4:
		w.Key = "source.principal"
		w.Values, w.NotValues = fill(r, prVals, nil, false)
	case 5:
		w.Key = "destination.port"
		w.Values, w.NotValues = fill(r, portVals, badPorts, g.malformed)
	case 6:
		w.Key = "destination.ip"
		w.Values, w.NotValues = fill(r, ipVals, badIPs, g.malformed)
	case 7:
		w.Key = "connection.sni"
		w.Values, w.NotValues = fill(r, sniVals, nil, false)
	case 8:
		w.Key = vlib.Pick(r, hdrKeys)
		w.Values, w.NotValues = fill(r, hdrVals, nil, false)
		if g.malformed && r.Chance(25) {
			w.Key = vlib.Pick(r, []string{"source.bogus", "destination.labels[app]", "request.header[x]", ""})
		}
	case 9:
		w.Key = "request.auth.principal"
		w.Values, w.NotValues = fill(r, rpVals, nil, false)
	case 10:
		w.Key = "request.auth.audiences"
		w.Values, w.NotValues = fill(r, audVals, nil, false)
	case 11:
		w.Key = "request.auth.presenter"
		w.Values, w.NotValues = fill(r, audVals, nil, false)
	default:
		w.Key = vlib.Pick(r, claimKeys)
		if g.malformed && r.Chance(30) {
			w.Key = vlib.Pick(r, []string{"request.auth.claims[a", "request.auth.claims", "request.auth.claims[a][b", "request.auth.claimsx"})
		}
		w.Values, w.NotValues = fill(r, claimVals, nil, false)
	}
	return w
}

func genRule(r *vlib.Rand, g genCfg) Rule {
	ru := Rule{}
	switch r.Intn(10) {
	case 0: // from only
		ru.From = []Src{genSrc(r, g)}
	case 1: // to only
		ru.To = []Op{genOp(r, g)}
	case 2: // when only
		ru.When = []Cond{genWhen(r, g)}
	case 3: // empty rule: matches everything
	default:
		for i, n := 0, r.Intn(3); i < n; i++ {
			ru.From = append(ru.From, genSrc(r, g))
		}
		for i, n := 0, r.Intn(3); i < n; i++ {
			ru.To = append(ru.To, genOp(r, g))
		}
		for i, n := 0, r.Intn(3); i < n; i++ {
			ru.When = append(ru.When, genWhen(r, g))
		}
	}
	return ru
}

func genPolicies(r *vlib.Rand, g genCfg) []Pol {
	n := 1 + r.Intn(3)
	var ps []Pol
	for i := 0; i < n; i++ {
		p := Pol{NS: wlNS}
		switch x := r.Intn(10); {
		case x < 5:
			p.Action = "ALLOW"
		case x < 9:
			p.Action = "DENY"
		default:
			p.Action = "AUDIT"
		}
		p.Dry = r.Chance(8)
		if r.Chance(30) {
			p.NS = rootNS
		}
		nr := r.Intn(4) // 0 rules = matches nothing
		if nr == 3 && r.Chance(50) {
			nr = 1
		}
		for j := 0; j < nr; j++ {
			p.Rules = append(p.Rules, genRule(r, g))
		}
		ps = append(ps, p)
	}
	// ListAuthorizationPolicies visits the root namespace first: keep that order and number
	sort.SliceStable(ps, func(i, j int) bool { return ps[i].NS == rootNS && ps[j].NS != rootNS })
	for i := range ps {
		ps[i].ID = i
	}
	return ps
}

// ---------------------------------------------------------------- generators: requests from the policies' constants and near misses

func sp(s string) *string { return &s }

// concretisations of one policy value: strings that match it and near misses
func around(v string) []string {
	if strings.Contains(v, "{*}") || strings.Contains(v, "{**}") {
		sub := func(one, any string) string {
			return strings.ReplaceAll(strings.ReplaceAll(v, "{**}", any), "{*}", one)
		}
		return []string{sub("x", "y/z"), sub("x", ""), sub("", "y"), sub("x/w", "y"), sub("x", "y"), sub("x", "y/z") + "/more",
			strings.TrimSuffix(sub("x", ""), "/"), sub("x.y", "/"), "/zz" + sub("x", "y")}
	}
	switch {
	case v == "*":
		return []string{"", "anything"}
	case strings.HasPrefix(v, "*"):
		s := v[1:]
		out := []string{s, "zz" + s, s + "z", "q" + s, "zz" + strings.ReplaceAll(s, ".", "X"), "zz" + strings.ReplaceAll(s, "+", "")}
		if len(s) > 1 {
			out = append(out, s[1:])
		}
		return out
	case strings.HasSuffix(v, "*"):
		p := v[:len(v)-1]
		out := []string{p, p + "zz", "z" + p, p + "/x", strings.ReplaceAll(p, ".", "X") + "zz"}
		if len(p) > 1 {
			out = append(out, p[:len(p)-1])
		}
		return out
	}
	out := []string{v, v + "x", "x" + v, strings.ToUpper(v), strings.ToLower(v), strings.ReplaceAll(v, ".", "X"), strings.ReplaceAll(v, "+", "")}
	if len(v) > 1 {
		out = append(out, v[:len(v)-1], v[1:])
	}
	return out
}

func ipOf(s string) (uint32, int, bool) {
	bits := 32
	a := s
	if i := strings.IndexByte(s, '/'); i >= 0 {
		a = s[:i]
		b, err := strconv.Atoi(s[i+1:])
		if err != nil || b < 0 || b > 32 {
			return 0, 0, false
		}
		bits = b
	}
	parts := strings.Split(a, ".")
	if len(parts) != 4 {
		return 0, 0, false
	}
	var n uint32
	for _, p := range parts {
		x, err := strconv.Atoi(p)
		if err != nil || x < 0 || x > 255 {
			return 0, 0, false
		}
		n = n<<8 | uint32(x)
	}
	return n, bits, true
}

func ipsAround(v string) []uint32 {
	n, bits, ok := ipOf(v)
	if !ok {
		return nil
	}
	var size uint64 = 1 << uint(32-bits)
	base := uint32(uint64(n) &^ (size - 1))
	out := []uint32{n, base, uint32(uint64(base) + size - 1), uint32(uint64(base) + size), base - 1, n + 1}
	return out
}

type pools struct {
	peers   []*string
	srcIPs  []uint32
	remIPs  []uint32
	dstIPs  []uint32
	ports   []uint32
	snis    []string
	hosts   []string
	methods []string
	paths   []string
	hdrs    map[string][]string // lower-case header name -> values
	iss     []string
	sub     []string
	claims  map[string][]string // claim key spec -> values
	auds    []string
	azps    []string
}

func nameInBrackets(k, prefix string) (string, bool) {
	s := strings.TrimPrefix(k, prefix)
	if strings.HasPrefix(s, "[") && strings.HasSuffix(s, "]") {
		return s[1 : len(s)-1], true
	}
	return "", false
}

func buildPools(ps []Pol, tds []string) *pools {
	p := &pools{hdrs: map[string][]string{}, claims: map[string][]string{}}
	p.peers = []*string{nil, sp("cluster.local/ns/other/sa/default"), sp("td9/ns/foo/sa/a")}
	p.srcIPs = []uint32{0x0a090909}
	p.remIPs = []uint32{0x0a090909}
	p.dstIPs = []uint32{0x0a090901}
	p.ports = []uint32{8080, 81}
	p.snis = []string{"", "other.example.org"}
	p.hosts = []string{"other.org"}
	p.methods = []string{"PUT"}
	p.paths = []string{"/other"}
	p.iss = []string{"other-issuer"}
	p.sub = []string{"other-sub"}
	addPeers := func(vs []string) {
		for _, v := range vs {
			for _, c := range around(v) {
				p.peers = append(p.peers, sp(c))
				// the same identity under every trust domain / alias
				if parts := strings.Split(c, "/"); len(parts) == 5 {
					for _, td := range append([]string{"cluster.local", "other-td"}, tds...) {
						p.peers = append(p.peers, sp(td+"/"+strings.Join(parts[1:], "/")))
					}
				}
			}
		}
	}
	addNS := func(vs []string) {
		for _, v := range vs {
			for _, c := range around(v) {
				for _, td := range []string{"cluster.local", "td2"} {
					p.peers = append(p.peers, sp(td+"/ns/"+c+"/sa/"+[]string{"a", "b", "default"}[len(c)%3]))
				}
			}
		}
	}
	addSA := func(pol Pol, vs []string) {
		for _, v := range vs {
			ns, sa := pol.NS, v
			if i := strings.IndexByte(v, '/'); i >= 0 {
				ns, sa = v[:i], v[i+1:]
			}
			for _, n := range []string{ns, pol.NS, "p" + strconv.Itoa(pol.ID), "other"} {
				for _, a := range []string{sa, sa + "x", "x" + sa, sa + "-junk", strings.ReplaceAll(sa, ".", "X")} {
					td := []string{"cluster.local", "td2"}[(len(n)+len(a))%2]
					p.peers = append(p.peers, sp(td+"/ns/"+n+"/sa/"+a))
				}
			}
		}
	}
	addIPs := func(dst *[]uint32, vs []string) {
		for _, v := range vs {
			*dst = append(*dst, ipsAround(v)...)
		}
	}
	addPorts := func(vs []string) {
		for _, v := range vs {
			if n, err := strconv.ParseUint(v, 10, 32); err == nil && n <= 65536 {
				p.ports = append(p.ports, uint32(n), uint32(n+1))
			}
		}
	}
	addStr := func(dst *[]string, vs []string) {
		for _, v := range vs {
			*dst = append(*dst, around(v)...)
		}
	}
	addRP := func(vs []string) {
		for _, v := range vs {
			iss, sub := v, ""
			if i := strings.LastIndex(v, "/"); i >= 0 {
				iss, sub = v[:i], v[i+1:]
			}
			p.iss = append(p.iss, around(iss)...)
			p.sub = append(p.sub, around(sub)...)
			if !strings.Contains(v, "/") {
				p.sub = append(p.sub, around(v)...)
			}
		}
	}
	for _, pol := range ps {
		for _, ru := range pol.Rules {
			for _, s := range ru.From {
				addPeers(s.Principals)
				addPeers(s.NotPrincipals)
				addNS(s.Namespaces)
				addNS(s.NotNamespaces)
				addIPs(&p.srcIPs, s.IpBlocks)
				addIPs(&p.srcIPs, s.NotIpBlocks)
				addIPs(&p.remIPs, s.RemoteIpBlocks)
				addIPs(&p.remIPs, s.NotRemoteIpBlocks)
				addRP(s.RequestPrincipals)
				addRP(s.NotRequestPrincipals)
				addSA(pol, s.ServiceAccounts)
				addSA(pol, s.NotServiceAccounts)
			}
			for _, o := range ru.To {
				addStr(&p.hosts, o.Hosts)
				addStr(&p.hosts, o.NotHosts)
				addStr(&p.methods, o.Methods)
				addStr(&p.methods, o.NotMethods)
				addStr(&p.paths, o.Paths)
				addStr(&p.paths, o.NotPaths)
				addPorts(o.Ports)
				addPorts(o.NotPorts)
			}
			for _, w := range ru.When {
				all := append(append([]string{}, w.Values...), w.NotValues...)
				switch {
				case w.Key == "source.ip":
					addIPs(&p.srcIPs, all)
				case w.Key == "remote.ip":
					addIPs(&p.remIPs, all)
				case w.Key == "destination.ip":
					addIPs(&p.dstIPs, all)
				case w.Key == "destination.port":
					addPorts(all)
				case w.Key == "connection.sni":
					addStr(&p.snis, all)
				case w.Key == "source.namespace":
					addNS(all)
				case w.Key == "source.principal":
					addPeers(all)
				case w.Key == "source.serviceAccount":
					addSA(pol, all)
				case w.Key == "request.auth.principal":
					addRP(all)
				case w.Key == "request.auth.audiences":
					addStr(&p.auds, all)
				case w.Key == "request.auth.presenter":
					addStr(&p.azps, all)
				case strings.HasPrefix(w.Key, "request.headers"):
					if h, ok := nameInBrackets(w.Key, "request.headers"); ok {
						h = strings.ToLower(h)
						vs := p.hdrs[h]
						addStr(&vs, all)
						p.hdrs[h] = vs
					}
				case strings.HasPrefix(w.Key, "request.auth.claims"):
					vs := p.claims[w.Key]
					addStr(&vs, all)
					p.claims[w.Key] = vs
				}
			}
		}
	}
	// identities are either well-formed istio SPIFFE ids (td/ns/<ns>/sa/<sa>, non-empty parts, td and
	// ns different from the literal "ns") or strings without a "/ns/" segment
	keep := p.peers[:0]
	for _, x := range p.peers {
		if x == nil || wfPeer(*x) || !strings.Contains("/"+*x, "/ns/") {
			keep = append(keep, x)
		}
	}
	p.peers = keep
	return p
}

func wfPeer(s string) bool {
	parts := strings.Split(s, "/")
	return len(parts) == 5 && parts[1] == "ns" && parts[3] == "sa" && parts[0] != "" && parts[2] != "" && parts[4] != "" &&
		parts[0] != "ns" && parts[2] != "ns"
}

func setClaim(fs []JF, path []string, val JF) []JF {
	if len(path) == 1 {
		val.K = path[0]
		for i := range fs {
			if fs[i].K == path[0] {
				fs[i] = val
				return fs
			}
		}
		return append(fs, val)
	}
	for i := range fs {
		if fs[i].K == path[0] && fs[i].Obj != nil {
			fs[i].Obj = setClaim(fs[i].Obj, path[1:], val)
			return fs
		}
	}
	return append(fs, JF{K: path[0], Obj: setClaim([]JF{}, path[1:], val)})
}

func claimPath(key string) []string {
	s := strings.TrimPrefix(key, "request.auth.claims")
	var out []string
	for len(s) > 0 {
		if s[0] != '[' {
			return nil
		}
		j := strings.IndexByte(s, ']')
		if j < 0 || strings.Contains(s[1:j], "[") {
			return nil
		}
		out = append(out, s[1:j])
		s = s[j+1:]
	}
	return out
}

func genReq(r *vlib.Rand, p *pools, o Opts, useJWT bool) Req {
	q := Req{}
	q.Peer = vlib.Pick(r, p.peers)
	q.SrcIP = vlib.Pick(r, p.srcIPs)
	q.RemoteIP = vlib.Pick(r, p.remIPs)
	if r.Chance(50) {
		q.RemoteIP = q.SrcIP
	}
	q.DstIP = vlib.Pick(r, p.dstIPs)
	q.DstPort = vlib.Pick(r, p.ports)
	q.SNI = vlib.Pick(r, p.snis)
	if o.TCP {
		return q
	}
	q.Headers = append(q.Headers, [2]string{":authority", vlib.Pick(r, p.hosts)}, [2]string{":method", vlib.Pick(r, p.methods)})
	q.Path = sp(vlib.Pick(r, p.paths))
	names := make([]string, 0, len(p.hdrs))
	for h := range p.hdrs {
		names = append(names, h)
	}
	sort.Strings(names)
	for _, h := range names {
		if r.Chance(70) && len(p.hdrs[h]) > 0 {
			q.Headers = append(q.Headers, [2]string{h, vlib.Pick(r, p.hdrs[h])})
		}
	}
	if useJWT && r.Chance(80) {
		q.HasJWT = true
		if r.Chance(90) {
			q.JWT = append(q.JWT, JF{K: "iss", Str: sp(vlib.Pick(r, p.iss))})
		}
		if r.Chance(90) {
			q.JWT = append(q.JWT, JF{K: "sub", Str: sp(vlib.Pick(r, p.sub))})
		}
		if len(p.auds) > 0 && r.Chance(80) {
			if r.Bool() {
				q.JWT = append(q.JWT, JF{K: "aud", Str: sp(vlib.Pick(r, p.auds))})
			} else {
				q.JWT = append(q.JWT, JF{K: "aud", List: []string{"zzz", vlib.Pick(r, p.auds)}})
			}
		}
		if len(p.azps) > 0 && r.Chance(80) {
			q.JWT = append(q.JWT, JF{K: "azp", Str: sp(vlib.Pick(r, p.azps))})
		}
		keys := make([]string, 0, len(p.claims))
		for k := range p.claims {
			keys = append(keys, k)
		}
		sort.Strings(keys)
		for _, k := range keys {
			path := claimPath(k)
			if len(path) == 0 || len(p.claims[k]) == 0 || !r.Chance(80) {
				continue
			}
			if path[0] == "iss" || path[0] == "sub" || path[0] == "aud" || path[0] == "azp" {
				continue
			}
			v := JF{}
			if r.Bool() {
				v.Str = sp(vlib.Pick(r, p.claims[k]))
			} else {
				v.List = []string{vlib.Pick(r, p.claims[k]), "other"}
			}
			q.JWT = setClaim(q.JWT, path, v)
		}
	}
	return q
}

// ---------------------------------------------------------------- cases

type sample struct {
	Opts     Opts
	Policies []Pol
	Request  *Req   `json:",omitempty"`
	Requests []Req  `json:",omitempty"`
	Note     string `json:",omitempty"`
}

func tagsOf(o Opts, ps []Pol, g genCfg) []string {
	set := map[string]bool{}
	if o.TCP {
		set["chain:tcp"] = true
	} else {
		set["chain:http"] = true
	}
	if o.UseFilterState {
		set["filter-state"] = true
	}
	if len(o.TrustDomains) > 1 {
		set["td-aliases"] = true
	}
	if g.malformed {
		set["stream:malformed"] = true
	}
	mark := func(name string, vs, ns []string) {
		if len(vs) > 0 {
			set[name] = true
		}
		if len(ns) > 0 {
			set["not-"+name] = true
		}
		for _, v := range append(append([]string{}, vs...), ns...) {
			switch {
			case v == "*":
				set["form:presence"] = true
			case strings.HasPrefix(v, "*"):
				set["form:suffix"] = true
			case strings.HasSuffix(v, "*"):
				set["form:prefix"] = true
			default:
				set["form:exact"] = true
			}
		}
	}
	for _, p := range ps {
		set["action:"+p.Action] = true
		if p.Dry {
			set["dry-run"] = true
		}
		if len(p.Rules) == 0 {
			set["no-rules"] = true
		}
		for _, ru := range p.Rules {
			if len(ru.From) == 0 && len(ru.To) == 0 && len(ru.When) == 0 {
				set["empty-rule"] = true
			}
			if len(ru.From) > 1 {
				set["multi-from"] = true
			}
			if len(ru.To) > 1 {
				set["multi-to"] = true
			}
			for _, s := range ru.From {
				mark("principals", s.Principals, s.NotPrincipals)
				mark("requestPrincipals", s.RequestPrincipals, s.NotRequestPrincipals)
				mark("namespaces", s.Namespaces, s.NotNamespaces)
				mark("ipBlocks", s.IpBlocks, s.NotIpBlocks)
				mark("remoteIpBlocks", s.RemoteIpBlocks, s.NotRemoteIpBlocks)
				mark("serviceAccounts", s.ServiceAccounts, s.NotServiceAccounts)
			}
			for _, op := range ru.To {
				mark("hosts", op.Hosts, op.NotHosts)
				mark("ports", op.Ports, op.NotPorts)
				mark("methods", op.Methods, op.NotMethods)
				mark("paths", op.Paths, op.NotPaths)
				for _, v := range append(append([]string{}, op.Paths...), op.NotPaths...) {
					if strings.Contains(v, "{*}") || strings.Contains(v, "{**}") {
						set["path-template"] = true
					}
				}
			}
			for _, w := range ru.When {
				k := w.Key
				if i := strings.IndexByte(k, '['); i >= 0 {
					k = k[:i]
				}
				mark("when:"+k, w.Values, w.NotValues)
			}
		}
	}
	for _, t := range g.extra {
		set[t] = true
	}
	out := make([]string, 0, len(set))
	for k := range set {
		out = append(out, k)
	}
	sort.Strings(out)
	return out
}

// ---------------------------------------------------------------- stream "manywhen"
// One policy, one rule with 2-3 from, 2-3 to and 0..10 when-conditions on EACH side (principal /
// permission), every count equally likely.  Conditions are drawn around a fixed target request so
// that the conjunction stays satisfiable: every condition holds for the target except (sometimes)
// one; each from/to alternative holds for the target or not.  Requests: the target and
// single-attribute deviations.  Values are short to keep the Coq terms small.

type cv struct {
	key  string
	v, n []string
}

func genManyWhen(r *vlib.Rand, tcp bool) ([]Pol, []Req, []string) {
	peer := "cluster.local/ns/foo/sa/a"
	prinTrue := []cv{
		{"source.ip", []string{"10.0.0.0/24"}, nil}, {"source.ip", []string{"10.0.0.1"}, nil}, {"source.ip", nil, []string{"10.1.0.0/16"}},
		{"remote.ip", []string{"10.0.0.0/24"}, nil}, {"remote.ip", nil, []string{"10.1.0.0/16"}}, {"remote.ip", []string{"0.0.0.0/0"}, nil},
		{"source.namespace", []string{"foo"}, nil}, {"source.namespace", []string{"fo*"}, nil}, {"source.namespace", nil, []string{"bar"}},
		{"source.principal", []string{peer}, nil}, {"source.principal", []string{"cluster.local/*"}, nil}, {"source.principal", nil, []string{"td2/*"}},
		{"source.serviceAccount", []string{"a"}, nil}, {"source.serviceAccount", []string{"foo/a"}, nil}, {"source.serviceAccount", nil, []string{"b"}},
	}
	prinFalse := []cv{
		{"source.ip", []string{"10.1.0.0/16"}, nil}, {"remote.ip", nil, []string{"10.0.0.0/24"}}, {"source.namespace", []string{"bar"}, nil},
		{"source.principal", []string{"td2/*"}, nil}, {"source.serviceAccount", []string{"b"}, nil},
	}
	if !tcp {
		prinTrue = append(prinTrue, cv{"request.headers[x-token]", []string{"secret"}, nil}, cv{"request.headers[x-token]", []string{"sec*"}, nil},
			cv{"request.headers[x-token]", nil, []string{"abc"}})
		prinFalse = append(prinFalse, cv{"request.headers[x-token]", []string{"abc"}, nil})
	}
	permTrue := []cv{
		{"destination.ip", []string{"10.0.0.0/24"}, nil}, {"destination.ip", []string{"10.0.0.2"}, nil}, {"destination.ip", nil, []string{"10.1.0.0/16"}},
		{"destination.port", []string{"8080"}, nil}, {"destination.port", nil, []string{"80"}}, {"destination.port", []string{"443", "8080"}, nil},
		{"connection.sni", []string{"www.example.com"}, nil}, {"connection.sni", []string{"*.example.com"}, nil}, {"connection.sni", nil, []string{"db.internal"}},
	}
	permFalse := []cv{
		{"destination.ip", []string{"10.1.0.0/16"}, nil}, {"destination.port", []string{"80"}, nil}, {"connection.sni", []string{"db.internal"}, nil},
	}
	srcTrue := []Src{{Principals: []string{peer}}, {Namespaces: []string{"foo"}}, {IpBlocks: []string{"10.0.0.0/24"}}, {ServiceAccounts: []string{"a"}},
		{RemoteIpBlocks: []string{"10.0.0.1"}, Namespaces: []string{"fo*"}}}
	srcFalse := []Src{{Namespaces: []string{"bar"}}, {Principals: []string{"td2/ns/bar/sa/b"}}, {IpBlocks: []string{"10.1.0.0/16"}}, {NotNamespaces: []string{"foo"}},
		{ServiceAccounts: []string{"b"}}}
	opTrue := []Op{{Ports: []string{"8080"}}, {NotPorts: []string{"80"}}}
	opFalse := []Op{{Ports: []string{"80"}}, {Ports: []string{"443"}}}
	if !tcp {
		opTrue = append(opTrue, Op{Methods: []string{"GET"}}, Op{Paths: []string{"/api*"}}, Op{Hosts: []string{"example.com"}, Ports: []string{"8080"}})
		opFalse = append(opFalse, Op{Methods: []string{"POST"}}, Op{Paths: []string{"/admin"}})
	}
	ru := Rule{}
	for i, n := 0, 2+r.Intn(2); i < n; i++ {
		if r.Bool() {
			ru.From = append(ru.From, vlib.Pick(r, srcTrue))
		} else {
			ru.From = append(ru.From, vlib.Pick(r, srcFalse))
		}
	}
	for i, n := 0, 2+r.Intn(2); i < n; i++ {
		if r.Bool() {
			ru.To = append(ru.To, vlib.Pick(r, opTrue))
		} else {
			ru.To = append(ru.To, vlib.Pick(r, opFalse))
		}
	}
	kPrin, kPerm := r.Intn(11), r.Intn(11)
	var conds []Cond
	falseAt := -1
	if kPrin+kPerm > 0 && r.Chance(35) {
		falseAt = r.Intn(kPrin + kPerm)
	}
	for i := 0; i < kPrin+kPerm; i++ {
		var c cv
		switch {
		case i < kPrin && i == falseAt:
			c = vlib.Pick(r, prinFalse)
		case i < kPrin:
			c = vlib.Pick(r, prinTrue)
		case i == falseAt:
			c = vlib.Pick(r, permFalse)
		default:
			c = vlib.Pick(r, permTrue)
		}
		conds = append(conds, Cond{Key: c.key, Values: c.v, NotValues: c.n})
	}
	// interleave the two sides (model.New routes every condition by its key)
	for i := len(conds) - 1; i > 0; i-- {
		j := r.Intn(i + 1)
		conds[i], conds[j] = conds[j], conds[i]
	}
	ru.When = conds
	act := "ALLOW"
	if r.Bool() {
		act = "DENY"
	}
	ps := []Pol{{ID: 0, NS: wlNS, Action: act, Rules: []Rule{ru}}}
	target := Req{Peer: sp(peer), SrcIP: 0x0a000001, RemoteIP: 0x0a000001, DstIP: 0x0a000002, DstPort: 8080, SNI: "www.example.com"}
	if !tcp {
		target.Headers = [][2]string{{":authority", "example.com"}, {":method", "GET"}, {"x-token", "secret"}}
		target.Path = sp("/api")
	}
	reqs := []Req{target}
	q := target
	q.Peer = sp("td2/ns/bar/sa/b")
	reqs = append(reqs, q)
	q = target
	q.DstPort = 80
	reqs = append(reqs, q)
	q = target
	q.SrcIP, q.RemoteIP = 0x0a010005, 0x0a010005
	reqs = append(reqs, q)
	q = target
	q.SNI = "db.internal"
	q.DstIP = 0x0a010002
	reqs = append(reqs, q)
	q = target
	q.Peer = nil
	reqs = append(reqs, q)
	return ps, reqs, []string{fmt.Sprintf("when-principal-side:%02d", kPrin), fmt.Sprintf("when-permission-side:%02d", kPerm),
		fmt.Sprintf("from:%d", len(ru.From)), fmt.Sprintf("to:%d", len(ru.To))}
}

const findingNS = "C08-namespace-regex-unanchored"

type emitter struct {
	c      *vlib.Collector
	id     int
	replay map[int]bool
}

// emit runs the real builder on (o, ps), and adds one Decide case + one Req reference per request.
func (e *emitter) emit(o Opts, ps []Pol, reqs []Req, g genCfg, note string, findingReqs map[int]string) {
	base := e.id
	e.id += 1 + len(reqs)
	wantedID := -1
	if e.replay == nil {
		wantedID = base
	} else {
		for k := base; k <= base+len(reqs); k++ {
			if e.replay[k] {
				wantedID = k
				break
			}
		}
	}
	if wantedID < 0 {
		return
	}
	var filters []string
	var err error
	panicked, msg := vlib.Recover(func() { filters, err = runReal(o, ps) })
	if panicked {
		e.c.Violate(vlib.Violation{ID: base, Kind: "panic", Detail: "builder panicked: " + msg, Case: sample{Opts: o, Policies: ps}})
		return
	}
	if err != nil {
		e.c.Violate(vlib.Violation{ID: base, Kind: "undecodable", Detail: "generated RBAC is outside the modelled target AST: " + err.Error(), Case: sample{Opts: o, Policies: ps}})
		return
	}
	term := vlib.App("Decide", vlib.NI(base), optsTerm(o), vlib.ListOf(ps, polTerm), vlib.List(filters), vlib.ListOf(reqs, reqTerm))
	tags := tagsOf(o, ps, g)
	trivial := true
	for _, p := range ps {
		if len(p.Rules) > 0 {
			trivial = false
		}
	}
	smp := sample{Opts: o, Policies: ps, Requests: reqs, Note: note}
	if wantedID != base {
		smp = sample{Opts: o, Policies: ps, Request: &reqs[wantedID-base-1], Note: note}
	}
	e.c.Add(vlib.Case{ID: wantedID, Term: term, Tags: tags, Sample: smp, Trivial: trivial})
	for j := range reqs {
		rid := base + 1 + j
		if f, ok := findingReqs[j]; ok {
			e.c.FindingOf[rid] = f
		}
		if rid == wantedID {
			continue
		}
		rs := sample{Opts: o, Policies: ps, Request: &reqs[j], Note: note}
		if vlib.Thorough() { // keep cases.json small: the policies are in the sample of case <base>
			rs = sample{Opts: o, Request: &reqs[j], Note: fmt.Sprintf("%s; policies: see case %d", note, base)}
		}
		e.c.Add(vlib.Case{ID: rid, Term: vlib.App("Req", vlib.NI(rid)), Sample: rs, Trivial: true})
	}
}

func httpReq(peer *string, host, method, path string) Req {
	return Req{Peer: peer, SrcIP: 0x0a000001, RemoteIP: 0x0a000001, DstIP: 0x0a000002, DstPort: 8080,
		Headers: [][2]string{{":authority", host}, {":method", method}}, Path: sp(path)}
}

func TestGen(t *testing.T) {
	c := vlib.NewCollector("C08", "V.C08.Run")
	c.Rule = "policy sets (1-3 AuthorizationPolicies, 0-3 rules each, from/to/when with values and notValues in exact/prefix*/*suffix/* forms) are generated per stream " +
		"(http, tcp, filter-state, trust-domain aliases, jwt, malformed values, manywhen = one rule with 2-3 from, 2-3 to and 0..10 when-conditions per side); each set goes through the real ListAuthorizationPolicies + builder.New(..).BuildHTTP/BuildTCP, " +
		"the RBAC protos are decoded into the model AST (model_ok: = model compiler output) and evaluated by the Coq reference evaluator on requests built from the set's constants " +
		"and near misses (prop_ok per request: = policy decision). non-trivial = at least one policy has a rule. Req cases only reserve ids for (policy, request) samples."
	e := &emitter{c: c, replay: vlib.ReplayIDs()}
	dflt := Opts{TrustDomains: []string{"cluster.local"}}

	// ---- fixed cases: witnesses of the known finding and of the theorems' examples
	{
		ps := []Pol{{ID: 0, NS: wlNS, Action: "ALLOW", Rules: []Rule{{From: []Src{{Namespaces: []string{"*a"}}}}}}}
		reqs := []Req{
			httpReq(sp("cluster.local/ns/foo/sa/bar"), "h", "GET", "/"), // namespace foo does not end in "a": must be denied
			httpReq(sp("cluster.local/ns/alpha/sa/bar"), "h", "GET", "/"),
			httpReq(nil, "h", "GET", "/"),
		}
		e.emit(dflt, ps, reqs, genCfg{}, "finding witness: namespaces [*a]", map[int]string{0: findingNS})
		ps2 := []Pol{{ID: 0, NS: wlNS, Action: "DENY", Rules: []Rule{{From: []Src{{NotNamespaces: []string{"*sa"}}}}}}}
		e.emit(dflt, ps2, reqs, genCfg{}, "finding witness: notNamespaces [*sa]", map[int]string{0: findingNS, 1: findingNS})
		ps3 := []Pol{{ID: 0, NS: wlNS, Action: "ALLOW", Rules: []Rule{{From: []Src{{Namespaces: []string{"sa"}}}}}}}
		reqs3 := []Req{httpReq(sp("cluster.local/ns/ns/sa/bar"), "h", "GET", "/"), httpReq(sp("cluster.local/ns/sa/sa/bar"), "h", "GET", "/")}
		e.emit(dflt, ps3, reqs3, genCfg{}, "finding witness: namespace [sa], peer namespace ns", map[int]string{0: findingNS})
	}

	type stream struct {
		name string
		n    int
		o    func(r *vlib.Rand) Opts
		g    genCfg
	}
	tdsPool := [][]string{{"cluster.local"}, {"td2", "old-td"}, {"cluster.local", "td2"}, {"new-td", "old-td", "td2"}, {"td2"}}
	streams := []stream{
		{"http", vlib.Scale(200, 6000), func(r *vlib.Rand) Opts { return dflt }, genCfg{}},
		{"tcp", vlib.Scale(120, 4000), func(r *vlib.Rand) Opts { return Opts{TCP: true, TrustDomains: []string{"cluster.local"}} }, genCfg{}},
		{"jwt", vlib.Scale(130, 4000), func(r *vlib.Rand) Opts { return Opts{TCP: r.Chance(25), TrustDomains: []string{"cluster.local"}} }, genCfg{jwt: true}},
		{"aliases", vlib.Scale(90, 3000), func(r *vlib.Rand) Opts {
			return Opts{TCP: r.Chance(30), UseFilterState: r.Chance(40), TrustDomains: vlib.Pick(r, tdsPool)}
		}, genCfg{aliases: true}},
		{"malformed", vlib.Scale(90, 3000), func(r *vlib.Rand) Opts { return Opts{TCP: r.Chance(40), TrustDomains: []string{"cluster.local"}} }, genCfg{malformed: true, jwt: true}},
	}
	root := vlib.NewRand(vlib.Seed())
	nreq := 10
	for _, st := range streams {
		sr := root.Sub()
		for i := 0; i < st.n; i++ {
			r := sr.Sub()
			o := st.o(r)
			ps := genPolicies(r, st.g)
			p := buildPools(ps, o.TrustDomains)
			// per-rule pools: most requests are aimed at one rule (values that satisfy or barely miss
			// every condition of that rule), the rest mix constants of the whole set
			var rulePools []*pools
			for _, pol := range ps {
				for _, ru := range pol.Rules {
					rulePools = append(rulePools, buildPools([]Pol{{ID: pol.ID, NS: pol.NS, Rules: []Rule{ru}}}, o.TrustDomains))
				}
			}
			reqs := make([]Req, 0, nreq)
			for k := 0; k < nreq; k++ {
				pp := p
				if len(rulePools) > 0 && r.Chance(65) {
					pp = vlib.Pick(r, rulePools)
				}
				reqs = append(reqs, genReq(r, pp, o, st.g.jwt))
			}
			e.emit(o, ps, reqs, st.g, "stream "+st.name, nil)
		}
	}
	{
		sr := root.Sub()
		for i, n := 0, vlib.Scale(140, 3000); i < n; i++ {
			r := sr.Sub()
			o := Opts{TCP: i%2 == 1, TrustDomains: []string{"cluster.local"}}
			ps, reqs, extra := genManyWhen(r, o.TCP)
			e.emit(o, ps, reqs, genCfg{extra: extra}, "stream manywhen", nil)
		}
	}
	c.Extra["streams"] = fmt.Sprintf("%d", len(streams)+1)
	if err := c.Flush(); err != nil {
		t.Fatal(err)
	}
}
