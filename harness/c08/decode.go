//go:build verif

package c08

// Glue: decoding of the REAL RBAC protos (as produced by builder.New(..).BuildHTTP()/BuildTCP())
// into Gallina terms of the model's target AST (coq/C08/Model.v: perm, prin, smatch, re ...).
// Anything outside the AST is reported as an error (the caller turns it into a violation).

import (
	"fmt"
	"net/netip"
	"regexp"
	"sort"
	"strings"

	core "github.com/envoyproxy/go-control-plane/envoy/config/core/v3"
	rbacpb "github.com/envoyproxy/go-control-plane/envoy/config/rbac/v3"
	routepb "github.com/envoyproxy/go-control-plane/envoy/config/route/v3"
	uri_template "github.com/envoyproxy/go-control-plane/envoy/extensions/path/match/uri_template/v3"
	matcherpb "github.com/envoyproxy/go-control-plane/envoy/type/matcher/v3"

	"verif/harness/vlib"
)

// ctor prints a record as its constructor application (much faster to elaborate in Coq than
// the {| .. |} notation); kv alternates field name / value in declaration order.
func ctor(name string, kv ...string) string {
	args := make([]string, 0, len(kv)/2)
	for i := 1; i < len(kv); i += 2 {
		args = append(args, kv[i])
	}
	return vlib.App(name, args...)
}

type decodeErr struct{ msg string }

func (e *decodeErr) Error() string { return e.msg }

func bad(format string, a ...any) { panic(&decodeErr{fmt.Sprintf(format, a...)}) }

// ---------------------------------------------------------------- regex shapes

// rnode is the parsed regex tree (mirror of Model.re).
type rnode struct {
	op   string // lit any notslash seq alt star plus opt eps
	lit  string
	kids []*rnode
}

type rparser struct {
	s string
	i int
}

func (p *rparser) peek() byte {
	if p.i < len(p.s) {
		return p.s[p.i]
	}
	return 0
}
func (p *rparser) eof() bool { return p.i >= len(p.s) }

func (p *rparser) alt() *rnode {
	l := p.seq()
	for !p.eof() && p.peek() == '|' {
		p.i++
		r := p.seq()
		l = &rnode{op: "alt", kids: []*rnode{l, r}}
	}
	return l
}

func (p *rparser) seq() *rnode {
	var items []*rnode
	for !p.eof() && p.peek() != '|' && p.peek() != ')' {
		a := p.atom()
		for !p.eof() {
			switch p.peek() {
			case '*':
				p.i++
				a = &rnode{op: "star", kids: []*rnode{a}}
				continue
			case '+':
				p.i++
				a = &rnode{op: "plus", kids: []*rnode{a}}
				continue
			case '?':
				p.i++
				a = &rnode{op: "opt", kids: []*rnode{a}}
				continue
			}
			break
		}
		// merge adjacent literals (a quantifier binds to the last byte only, handled in atom)
		if a.op == "lit" && len(items) > 0 && items[len(items)-1].op == "lit" {
			items[len(items)-1] = &rnode{op: "lit", lit: items[len(items)-1].lit + a.lit}
		} else {
			items = append(items, a)
		}
	}
	switch len(items) {
	case 0:
		return &rnode{op: "eps"}
	case 1:
		return items[0]
	}
	n := items[len(items)-1]
	for k := len(items) - 2; k >= 0; k-- {
		n = &rnode{op: "seq", kids: []*rnode{items[k], n}}
	}
	return n
}

func (p *rparser) atom() *rnode {
	c := p.peek()
	switch c {
	case '.':
		p.i++
		return &rnode{op: "any"}
	case '\\':
		if p.i+1 >= len(p.s) {
			bad("regex %q: trailing backslash", p.s)
		}
		e := p.s[p.i+1]
		if (e >= 'a' && e <= 'z') || (e >= 'A' && e <= 'Z') || (e >= '0' && e <= '9') {
			bad("regex %q: escape class \\%c outside the modelled shapes", p.s, e)
		}
		p.i += 2
		return p.litTail(string(e))
	case '(':
		p.i++
		if strings.HasPrefix(p.s[p.i:], "?") {
			bad("regex %q: group flags outside the modelled shapes", p.s)
		}
		n := p.alt()
		if p.peek() != ')' {
			bad("regex %q: missing )", p.s)
		}
		p.i++
		return &rnode{op: "group", kids: []*rnode{n}}
	case '[':
		if strings.HasPrefix(p.s[p.i:], "[^/]") {
			p.i += 4
			return &rnode{op: "notslash"}
		}
		bad("regex %q: character class outside the modelled shapes", p.s)
	case '*', '+', '?', ')', '|', '{', '}', '^', '$', ']':
		bad("regex %q: unexpected %q at %d", p.s, c, p.i)
	}
	p.i++
	return p.litTail(string(c))
}

// litTail: a literal byte; if a quantifier follows it applies to this byte alone.
func (p *rparser) litTail(s string) *rnode { return &rnode{op: "lit", lit: s} }

func ungroup(n *rnode) *rnode {
	if n.op == "group" {
		return ungroup(n.kids[0])
	}
	for i, k := range n.kids {
		n.kids[i] = ungroup(k)
	}
	return n
}

func parseRegex(s string) *rnode {
	p := &rparser{s: s}
	n := p.alt()
	if !p.eof() {
		bad("regex %q: trailing input at %d", s, p.i)
	}
	// round trip (glue self-test): printing the tree gives back the same regex
	if back := printRegex(n, 0); back != s {
		bad("regex glue round trip: %q parsed and printed as %q", s, back)
	}
	return ungroup(n)
}

// printRegex renders the tree in regex syntax (prec: 0 alt, 1 seq, 2 atom).
func printRegex(n *rnode, prec int) string {
	switch n.op {
	case "eps":
		return ""
	case "lit":
		q := regexp.QuoteMeta(n.lit)
		if prec >= 2 && len(n.lit) != 1 {
			return "(" + q + ")"
		}
		return q
	case "any":
		return "."
	case "notslash":
		return "[^/]"
	case "group":
		return "(" + printRegex(n.kids[0], 0) + ")"
	case "seq":
		s := printRegex(n.kids[0], 1) + printRegex(n.kids[1], 1)
		if prec >= 2 {
			return "(" + s + ")"
		}
		return s
	case "alt":
		s := printRegex(n.kids[0], 0) + "|" + printRegex(n.kids[1], 0)
		if prec >= 1 {
			return "(" + s + ")"
		}
		return s
	case "star":
		return printRegex(n.kids[0], 2) + "*"
	case "plus":
		return printRegex(n.kids[0], 2) + "+"
	case "opt":
		return printRegex(n.kids[0], 2) + "?"
	}
	bad("printRegex: op %s", n.op)
	return ""
}

func reTerm(n *rnode) string {
	switch n.op {
	case "eps":
		return "REps"
	case "lit":
		return vlib.App("RLit", vlib.Str(n.lit))
	case "any":
		return "RAny"
	case "notslash":
		return "RNotSlash"
	case "seq":
		return vlib.App("RSeq", reTerm(n.kids[0]), reTerm(n.kids[1]))
	case "alt":
		return vlib.App("RAlt", reTerm(n.kids[0]), reTerm(n.kids[1]))
	case "star":
		return vlib.App("RStar", reTerm(n.kids[0]))
	case "plus":
		return vlib.App("RPlus", reTerm(n.kids[0]))
	case "opt":
		return vlib.App("ROpt", reTerm(n.kids[0]))
	}
	bad("reTerm: op %s", n.op)
	return ""
}

// ---------------------------------------------------------------- matchers

func smatchTerm(m *matcherpb.StringMatcher) string {
	if m == nil {
		bad("nil StringMatcher")
	}
	ic := vlib.B(m.GetIgnoreCase())
	switch p := m.MatchPattern.(type) {
	case *matcherpb.StringMatcher_Exact:
		return vlib.App("SExact", vlib.Str(p.Exact), ic)
	case *matcherpb.StringMatcher_Prefix:
		return vlib.App("SPrefix", vlib.Str(p.Prefix), ic)
	case *matcherpb.StringMatcher_Suffix:
		return vlib.App("SSuffix", vlib.Str(p.Suffix), ic)
	case *matcherpb.StringMatcher_SafeRegex:
		if m.GetIgnoreCase() {
			bad("ignore_case on a regex matcher")
		}
		return vlib.App("SRegex", reTerm(parseRegex(p.SafeRegex.GetRegex())))
	}
	bad("StringMatcher pattern %T outside the modelled AST", m.MatchPattern)
	return ""
}

func hmatchTerm(h *routepb.HeaderMatcher) (name, term string) {
	if h.GetInvertMatch() || h.GetTreatMissingHeaderAsEmpty() {
		bad("HeaderMatcher invert/treat_missing outside the modelled AST")
	}
	switch s := h.HeaderMatchSpecifier.(type) {
	case *routepb.HeaderMatcher_PresentMatch:
		if !s.PresentMatch {
			bad("present_match: false outside the modelled AST")
		}
		return h.GetName(), "HPresent"
	case *routepb.HeaderMatcher_StringMatch:
		return h.GetName(), vlib.App("HString", smatchTerm(s.StringMatch))
	}
	bad("HeaderMatcher specifier %T outside the modelled AST", h.HeaderMatchSpecifier)
	return "", ""
}

func vmatchTerm(v *matcherpb.ValueMatcher) string {
	switch p := v.GetMatchPattern().(type) {
	case *matcherpb.ValueMatcher_StringMatch:
		return vlib.App("VString", smatchTerm(p.StringMatch))
	case *matcherpb.ValueMatcher_OrMatch:
		return vlib.App("VOr", vlib.ListOf(p.OrMatch.GetValueMatchers(), vmatchTerm))
	case *matcherpb.ValueMatcher_ListMatch:
		one, ok := p.ListMatch.GetMatchPattern().(*matcherpb.ListMatcher_OneOf)
		if !ok {
			bad("ListMatcher pattern outside the modelled AST")
		}
		return vlib.App("VList", vmatchTerm(one.OneOf))
	}
	bad("ValueMatcher pattern %T outside the modelled AST", v.GetMatchPattern())
	return ""
}

func metadataTerms(m *matcherpb.MetadataMatcher) []string {
	if m.GetInvert() {
		bad("MetadataMatcher invert outside the modelled AST")
	}
	var path []string
	for _, s := range m.GetPath() {
		path = append(path, vlib.Str(s.GetKey()))
	}
	return []string{vlib.Str(m.GetFilter()), vlib.List(path), vmatchTerm(m.GetValue())}
}

func cidrTerm(c *core.CidrRange) string {
	a, err := netip.ParseAddr(c.GetAddressPrefix())
	if err != nil || !a.Is4() {
		bad("CidrRange address %q is not IPv4", c.GetAddressPrefix())
	}
	b := a.As4()
	n := uint64(b[0])<<24 | uint64(b[1])<<16 | uint64(b[2])<<8 | uint64(b[3])
	if c.GetPrefixLen() == nil {
		bad("CidrRange without prefix_len")
	}
	return ctor("Build_cidr", "c_addr", vlib.N(n), "c_len", vlib.N(uint64(c.GetPrefixLen().GetValue())))
}

// ---------------------------------------------------------------- permissions / principals

func permTerm(p *rbacpb.Permission) string {
	switch r := p.GetRule().(type) {
	case *rbacpb.Permission_Any:
		if !r.Any {
			bad("any: false")
		}
		return "PAny"
	case *rbacpb.Permission_AndRules:
		return vlib.App("PAnd", vlib.ListOf(r.AndRules.GetRules(), permTerm))
	case *rbacpb.Permission_OrRules:
		return vlib.App("POr", vlib.ListOf(r.OrRules.GetRules(), permTerm))
	case *rbacpb.Permission_NotRule:
		return vlib.App("PNot", permTerm(r.NotRule))
	case *rbacpb.Permission_Header:
		n, t := hmatchTerm(r.Header)
		return vlib.App("PHeader", vlib.Str(n), t)
	case *rbacpb.Permission_UrlPath:
		pm, ok := r.UrlPath.GetRule().(*matcherpb.PathMatcher_Path)
		if !ok {
			bad("PathMatcher rule outside the modelled AST")
		}
		return vlib.App("PUrlPath", smatchTerm(pm.Path))
	case *rbacpb.Permission_DestinationPort:
		return vlib.App("PDestPort", vlib.N(uint64(r.DestinationPort)))
	case *rbacpb.Permission_DestinationIp:
		return vlib.App("PDestIP", cidrTerm(r.DestinationIp))
	case *rbacpb.Permission_RequestedServerName:
		return vlib.App("PSNI", smatchTerm(r.RequestedServerName))
	case *rbacpb.Permission_Metadata:
		return vlib.App("PMetadata", metadataTerms(r.Metadata)...)
	case *rbacpb.Permission_UriTemplate:
		cfg := &uri_template.UriTemplateMatchConfig{}
		if err := r.UriTemplate.GetTypedConfig().UnmarshalTo(cfg); err != nil {
			bad("uri_template config: %v", err)
		}
		return vlib.App("PUriTemplate", vlib.Str(cfg.GetPathTemplate()))
	}
	bad("Permission rule %T outside the modelled AST", p.GetRule())
	return ""
}

func prinTerm(p *rbacpb.Principal) string {
	switch r := p.GetIdentifier().(type) {
	case *rbacpb.Principal_Any:
		if !r.Any {
			bad("any: false")
		}
		return "IAny"
	case *rbacpb.Principal_AndIds:
		return vlib.App("IAnd", vlib.ListOf(r.AndIds.GetIds(), prinTerm))
	case *rbacpb.Principal_OrIds:
		return vlib.App("IOr", vlib.ListOf(r.OrIds.GetIds(), prinTerm))
	case *rbacpb.Principal_NotId:
		return vlib.App("INot", prinTerm(r.NotId))
	case *rbacpb.Principal_Authenticated_:
		if r.Authenticated.GetPrincipalName() == nil {
			bad("authenticated without principal_name outside the modelled AST")
		}
		return vlib.App("IAuthenticated", smatchTerm(r.Authenticated.GetPrincipalName()))
	case *rbacpb.Principal_FilterState:
		sm, ok := r.FilterState.GetMatcher().(*matcherpb.FilterStateMatcher_StringMatch)
		if !ok {
			bad("FilterStateMatcher matcher outside the modelled AST")
		}
		return vlib.App("IFilterState", vlib.Str(r.FilterState.GetKey()), smatchTerm(sm.StringMatch))
	case *rbacpb.Principal_DirectRemoteIp:
		return vlib.App("IDirectRemoteIP", cidrTerm(r.DirectRemoteIp))
	case *rbacpb.Principal_RemoteIp:
		return vlib.App("IRemoteIP", cidrTerm(r.RemoteIp))
	case *rbacpb.Principal_Header:
		n, t := hmatchTerm(r.Header)
		return vlib.App("IHeader", vlib.Str(n), t)
	case *rbacpb.Principal_Metadata:
		return vlib.App("IMetadata", metadataTerms(r.Metadata)...)
	}
	bad("Principal identifier %T outside the modelled AST", p.GetIdentifier())
	return ""
}

var nameRe = regexp.MustCompile(`^ns\[([^\]]*)\]-policy\[p(\d+)\]-rule\[(\d+)\]$`)

func rbacTerm(r *rbacpb.RBAC) string {
	if r == nil {
		return "None"
	}
	act := ""
	switch r.GetAction() {
	case rbacpb.RBAC_ALLOW:
		act = "RAllow"
	case rbacpb.RBAC_DENY:
		act = "RDeny"
	case rbacpb.RBAC_LOG:
		act = "RLog"
	default:
		bad("RBAC action %v outside the modelled AST", r.GetAction())
	}
	type ent struct {
		pid, idx uint64
		term     string
	}
	var es []ent
	for name, pol := range r.GetPolicies() {
		m := nameRe.FindStringSubmatch(name)
		if m == nil {
			bad("policy name %q does not follow ns[..]-policy[p<N>]-rule[<i>]", name)
		}
		var pid, idx uint64
		fmt.Sscan(m[2], &pid)
		fmt.Sscan(m[3], &idx)
		if pol.GetCondition() != nil || pol.GetCheckedCondition() != nil {
			bad("policy condition outside the modelled AST")
		}
		t := ctor("Build_rpolicy", "rp_permissions", vlib.ListOf(pol.GetPermissions(), permTerm),
			"rp_principals", vlib.ListOf(pol.GetPrincipals(), prinTerm))
		es = append(es, ent{pid, idx, t})
	}
	sort.Slice(es, func(i, j int) bool {
		if es[i].pid != es[j].pid {
			return es[i].pid < es[j].pid
		}
		return es[i].idx < es[j].idx
	})
	var ts []string
	for _, e := range es {
		ts = append(ts, vlib.Pair(vlib.Pair(vlib.N(e.pid), vlib.N(e.idx)), e.term))
	}
	return "(Some " + ctor("Build_rbac", "rb_action", act, "rb_policies", vlib.List(ts)) + ")"
}

func filterTerm(rules, shadow *rbacpb.RBAC) string {
	return ctor("Build_rfilter", "f_rules", rbacTerm(rules), "f_shadow", rbacTerm(shadow))
}

// safely runs f, converting decode panics into an error
func safely(f func()) (err error) {
	defer func() {
		if r := recover(); r != nil {
			if de, ok := r.(*decodeErr); ok {
				err = de
				return
			}
			err = fmt.Errorf("panic: %v", r)
		}
	}()
	f()
	return nil
}
