//go:build verif

package c12

import (
	"slices"
	"strconv"
	"strings"
	"testing"
	"time"

	route "github.com/envoyproxy/go-control-plane/envoy/config/route/v3"

	networking "istio.io/api/networking/v1alpha3"
	"istio.io/istio/pilot/pkg/model"
	"istio.io/istio/pilot/pkg/networking/core"
	istio_route "istio.io/istio/pilot/pkg/networking/core/route"
	"istio.io/istio/pkg/config"
	"istio.io/istio/pkg/config/schema/gvk"
	"verif/harness/vlib"
)

// Part C: the REAL gateway route build (ConfigGeneratorImpl.BuildHTTPRoutes for a router proxy,
// route name http.80) on generated Gateways + VirtualServices.
// Part D: the REAL SortVHostRoutes on long route lists.

// GW is one SERVER of a Gateway resource (a Gateway with two servers appears twice, same Name).
type GW struct {
	Name  string // "ns/gw-a"
	Hosts []string
}
type GVS struct {
	Hosts, Gateways []string
	Rules           []Rule
}
type GatewayFeatures struct {
	Gateways            int  // Gateway resources on the workload (same HTTP port)
	TwoServersOneGW     bool // some Gateway has two servers (different hosts) on the port
	SharedVS            bool // a VirtualService names hosts of two different servers
	SharedVSSameGateway bool // ... of the SAME Gateway (its translated routes are reused across the servers)
	BoundSeveralGW      bool // a VirtualService is bound to several Gateways
	BoundMesh           bool // ... and to mesh
	PerMatchGateways    bool // match blocks with a gateways condition
	FilteredRules       bool // rules / match blocks that do not apply to (some of) the bound gateways (mesh-only, other gateway)
	MergedHosts         bool // several VirtualServices on one host (routes merged, catch-alls sorted last)
}
type GwScenario struct {
	GWs      []GW
	VSs      []GVS
	Features GatewayFeatures
}

var gwHostPool = []string{"a.example.com", "b.example.com", "c.example.com", "d.example.com", "e.example.com"}

func genGwScenario(r *vlib.Rand) GwScenario {
	sc := GwScenario{}
	ngw := 1 + r.Intn(3)
	names := []string{"ns/gw-a", "ns/gw-b", "ns/gw-c"}[:ngw]
	// servers: one or two per Gateway
	for _, n := range names {
		sc.GWs = append(sc.GWs, GW{Name: n})
		if r.Chance(50) || ngw == 1 {
			sc.GWs = append(sc.GWs, GW{Name: n})
		}
	}
	// every host is served by exactly one server
	for _, h := range gwHostPool {
		if r.Chance(85) {
			i := r.Intn(len(sc.GWs))
			sc.GWs[i].Hosts = append(sc.GWs[i].Hosts, h)
		}
	}
	// feature: one Gateway with two single-host servers (a / b), a VirtualService spanning both with a rule that is
	// filtered out for the gateway, and one further VirtualService per host
	directed := r.Chance(50)
	if directed {
		for i := range sc.GWs {
			sc.GWs[i].Hosts = slices.DeleteFunc(sc.GWs[i].Hosts, func(h string) bool { return h == "a.example.com" || h == "b.example.com" })
		}
		sc.GWs = append([]GW{{Name: "ns/gw-a", Hosts: []string{"a.example.com"}}, {Name: "ns/gw-a", Hosts: []string{"b.example.com"}}}, sc.GWs...)
	}
	for i := range sc.GWs {
		if len(sc.GWs[i].Hosts) == 0 {
			sc.GWs[i].Hosts = []string{"only-" + strconv.Itoa(i) + ".example.com"}
		}
	}
	var allHosts []string
	for _, g := range sc.GWs {
		allHosts = append(allHosts, g.Hosts...)
	}
	cx := Ctx{Port: 80, NS: "ns", Gateways: []string{"ns/gw-a"}, Labels: [][2]string{{"istio", "ingressgateway"}}}
	nvs := 1 + r.Intn(4)
	wantShared := directed || r.Chance(40) // feature: the first VirtualService spans servers and has a filtered rule
	if directed {
		nvs = 3 + r.Intn(2)
	}
	for i := 0; i < nvs; i++ {
		v := GVS{}
		if directed && (i == 1 || i == 2) {
			// the per-host VirtualServices: one distinguishable conditional rule each
			h := []string{"a.example.com", "b.example.com"}[i-1]
			v.Hosts, v.Gateways = []string{h}, []string{"ns/gw-a"}
			v.Rules = []Rule{{Matches: []Match{{Uri: &SM{K: 3, S: "/only-" + h[:1]}}}, Dests: []Dest{{Host: vlib.Pick(r, gHosts), Subset: "v" + strconv.Itoa(i), Weight: 100}}}}
			if r.Chance(40) {
				v.Rules = append(v.Rules, genRule(r, cx))
			}
			sc.VSs = append(sc.VSs, v)
			continue
		}
		if wantShared && i == 0 {
			if directed && r.Chance(60) {
				v.Hosts = []string{"a.example.com", "b.example.com"}
			} else {
				v.Hosts = append(v.Hosts, allHosts...)
			}
			v.Gateways = append(v.Gateways, names...)
			v.Gateways = append(v.Gateways, "mesh")
		} else {
			for _, h := range allHosts {
				if r.Chance(40) {
					v.Hosts = append(v.Hosts, h)
				}
			}
			if len(v.Hosts) == 0 {
				v.Hosts = []string{vlib.Pick(r, allHosts)}
			}
			for _, n := range names {
				if r.Chance(65) {
					v.Gateways = append(v.Gateways, n)
				}
			}
			if len(v.Gateways) == 0 {
				v.Gateways = []string{vlib.Pick(r, names)}
			}
		}
		if r.Chance(25) && !slices.Contains(v.Gateways, "mesh") {
			v.Gateways = append(v.Gateways, "mesh")
		}
		nr := 1 + r.Intn(3)
		if wantShared && i == 0 {
			// a rule that is filtered out for every gateway: only for mesh sidecars
			v.Rules = append(v.Rules, Rule{Matches: []Match{{Uri: &SM{K: 3, S: "/mesh-only"}, Gateways: []string{"mesh"}}},
				Dests: []Dest{{Host: vlib.Pick(r, gHosts), Weight: 100}}})
		}
		for j := 0; j < nr; j++ {
			ru := genRule(r, cx)
			// per-match gateways conditions over the scenario's gateways
			for k := range ru.Matches {
				m := &ru.Matches[k]
				m.Port = 0
				switch r.Intn(6) {
				case 0:
					m.Gateways, m.Labels, m.NS = []string{vlib.Pick(r, names)}, nil, ""
				case 1:
					m.Gateways, m.Labels, m.NS = []string{vlib.Pick(r, names), "mesh"}, nil, ""
				case 2:
					m.Gateways, m.Labels, m.NS = []string{"mesh"}, nil, ""
				case 3, 4:
					m.Gateways = nil
				}
			}
			v.Rules = append(v.Rules, ru)
		}
		sc.VSs = append(sc.VSs, v)
	}
	// record the features drawn
	f := GatewayFeatures{Gateways: ngw}
	perName := map[string]int{}
	serverOf := map[string]int{}
	for i, g := range sc.GWs {
		perName[g.Name]++
		for _, h := range g.Hosts {
			serverOf[h] = i
		}
	}
	for _, k := range perName {
		f.TwoServersOneGW = f.TwoServersOneGW || k > 1
	}
	hostVS := map[string]int{}
	for _, v := range sc.VSs {
		ng := 0
		for _, g := range v.Gateways {
			if g == "mesh" {
				f.BoundMesh = true
			} else {
				ng++
			}
		}
		f.BoundSeveralGW = f.BoundSeveralGW || ng > 1
		for a, h1 := range v.Hosts {
			hostVS[h1]++
			for _, h2 := range v.Hosts[a+1:] {
				if serverOf[h1] != serverOf[h2] {
					f.SharedVS = true
					if sc.GWs[serverOf[h1]].Name == sc.GWs[serverOf[h2]].Name {
						f.SharedVSSameGateway = true
					}
				}
			}
		}
		for _, ru := range v.Rules {
			for _, m := range ru.Matches {
				if len(m.Gateways) > 0 {
					f.PerMatchGateways = true
					for _, bound := range v.Gateways {
						if bound != "mesh" && !slices.Contains(m.Gateways, bound) {
							f.FilteredRules = true
						}
					}
				}
			}
		}
	}
	for _, k := range hostVS {
		f.MergedHosts = f.MergedHosts || k > 1
	}
	sc.Features = f
	return sc
}

func (f GatewayFeatures) tags() []string {
	t := []string{"C:gateways-" + strconv.Itoa(f.Gateways)}
	add := func(b bool, s string) {
		if b {
			t = append(t, s)
		}
	}
	add(f.TwoServersOneGW, "C:two-servers-one-gateway")
	add(f.SharedVS, "C:vs-spans-servers")
	add(f.SharedVSSameGateway, "C:vs-spans-servers-of-one-gateway")
	add(f.BoundSeveralGW, "C:vs-bound-to-several-gateways")
	add(f.BoundMesh, "C:vs-bound-to-mesh-too")
	add(f.PerMatchGateways, "C:per-match-gateways")
	add(f.FilteredRules, "C:rules-filtered-for-a-bound-gateway")
	add(f.MergedHosts, "C:several-vs-on-one-host")
	return t
}

func runGateway(t *testing.T, sc GwScenario) []*route.VirtualHost {
	var cfgs []config.Config
	byName := map[string]*networking.Gateway{}
	var order []string
	for i, g := range sc.GWs {
		gw := byName[g.Name]
		if gw == nil {
			gw = &networking.Gateway{Selector: map[string]string{"istio": "ingressgateway"}}
			byName[g.Name] = gw
			order = append(order, g.Name)
		}
		gw.Servers = append(gw.Servers, &networking.Server{Hosts: g.Hosts,
			Port: &networking.Port{Name: "http-" + strconv.Itoa(i), Number: 80, Protocol: "HTTP"}})
	}
	for i, n := range order {
		cfgs = append(cfgs, config.Config{
			Meta: config.Meta{GroupVersionKind: gvk.Gateway, Name: strings.TrimPrefix(n, "ns/"), Namespace: "ns",
				CreationTimestamp: t0.Add(time.Duration(i) * time.Minute)},
			Spec: byName[n],
		})
	}
	for i, v := range sc.VSs {
		c := vsConfig("vs"+strconv.Itoa(i), "ns", v.Hosts, v.Rules)
		c.Spec.(*networking.VirtualService).Gateways = v.Gateways
		c.CreationTimestamp = t0.Add(time.Duration(i) * time.Hour)
		cfgs = append(cfgs, c)
	}
	cg := core.NewConfigGenTest(t, core.TestOptions{Configs: cfgs})
	proxy := cg.SetupProxy(&model.Proxy{
		Type: model.Router, ConfigNamespace: "ns", ID: "gw.ns", DNSDomain: "ns.svc.cluster.local",
		Labels:   map[string]string{"istio": "ingressgateway"},
		Metadata: &model.NodeMetadata{Namespace: "ns", Labels: map[string]string{"istio": "ingressgateway"}},
	})
	res, _ := cg.ConfigGen.BuildHTTPRoutes(proxy, &model.PushRequest{Push: cg.PushContext()}, []string{"http.80"})
	if len(res) != 1 {
		return nil
	}
	rc := &route.RouteConfiguration{}
	if err := res[0].Resource.UnmarshalTo(rc); err != nil {
		panic(err)
	}
	return rc.VirtualHosts
}

func allRules(vss []GVS) []Rule {
	var out []Rule
	for _, v := range vss {
		out = append(out, v.Rules...)
	}
	return out
}

func genGatewayCases(t *testing.T, c *vlib.Collector, id int, seed uint64) int {
	n := vlib.Scale(30, 1200)
	for i := 0; i < n; i++ {
		r := vlib.NewRand(seed*3000017 + uint64(i)*15485863 + 3)
		sc := genGwScenario(r)
		if !c.Wanted(id) && !c.Wanted(id+1) {
			id += 2
			continue
		}
		var vhosts []*route.VirtualHost
		if p, msg := vlib.Recover(func() { vhosts = runGateway(t, sc) }); p {
			c.Violate(vlib.Violation{ID: id, Kind: "panic", Detail: msg, Case: sc})
			id += 2
			continue
		}
		cx := Ctx{Port: 80, NS: "ns", Gateways: nil, Labels: [][2]string{{"istio", "ingressgateway"}}}
		rules := allRules(sc.VSs)
		var plain, tagged []Request
		put := func(q Request) {
			if findingApplies(rules, q) {
				tagged = append(tagged, q)
			} else {
				plain = append(plain, q)
			}
		}
		for _, g := range sc.GWs {
			for _, h := range g.Hosts {
				// one request built for every (host, rule) pair of the VirtualServices naming the host ...
				for _, v := range sc.VSs {
					if !slices.Contains(v.Hosts, h) {
						continue
					}
					for ri := range v.Rules {
						var q Request
						if ms := v.Rules[ri].Matches; len(ms) > 0 {
							q = genRequestFor(r, rules, cx, &ms[r.Intn(len(ms))])
						} else {
							q = genRequest(r, nil, cx)
						}
						q.Authority = h
						put(q)
					}
				}
				// ... and two drawn from the literal pools / near misses
				for k := 0; k < 2; k++ {
					q := genRequest(r, rules, cx)
					q.Authority = h
					if k == 1 && r.Bool() {
						q.Authority = h + ":80"
					}
					put(q)
				}
			}
		}
		plain = append(plain, Request{Path: "/", Method: "GET", Authority: "unknown.example.org", Scheme: "http"})
		gwT := vlib.ListOf(sc.GWs, func(g GW) string { return vlib.Pair(vlib.Str(g.Name), strsTerm(g.Hosts)) })
		vsT := vlib.ListOf(sc.VSs, func(v GVS) string {
			return rec("Build_gw_vs", "gv_hosts", strsTerm(v.Hosts), "gv_gateways", strsTerm(v.Gateways), "gv_rules", vlib.ListOf(v.Rules, ruleTerm))
		})
		obs := vlib.ListOf(vhosts, vhostTerm)
		res := collectRegex(rules)
		tags := append(sc.Features.tags(), "C:vs-"+strconv.Itoa(len(sc.VSs)))
		shared, perGw := sc.Features.BoundSeveralGW || sc.Features.SharedVS, sc.Features.PerMatchGateways
		for _, vh := range vhosts {
			if len(vh.Routes) > 12 {
				tags = append(tags, "C:vhost>12-routes")
				break
			}
		}
		for gi, g := range [][]Request{plain, tagged} {
			if gi == 1 && len(g) == 0 {
				id++
				continue
			}
			term := vlib.App("GwHosts", vlib.NI(id), ctxTerm(cx), gwT, vsT, obs, reTable(res, g), vlib.ListOf(g, reqTerm))
			if gi == 1 {
				c.FindingOf[id] = findingWithoutEmpty
			}
			c.Add(vlib.Case{ID: id, Term: term, Tags: tags, Trivial: !shared && !perGw,
				Sample: map[string]any{"features": sc.Features, "scenario": sc, "requests": g, "vhosts": len(vhosts)}})
			id++
		}
	}
	return id
}

// Part D: 13-40 real routes (several VirtualServices' routes concatenated as the gateway merge
// does, catch-all routes in the middle) through the REAL SortVHostRoutes.
func genSortCases(t *testing.T, c *vlib.Collector, id int, seed uint64) int {
	n := vlib.Scale(25, 600)
	for i := 0; i < n; i++ {
		r := vlib.NewRand(seed*4000037 + uint64(i)*32452843 + 9)
		if !c.Wanted(id) {
			id++
			continue
		}
		cx := genCtx(r)
		want := 13 + r.Intn(28)
		var input []*route.Route
		var rules []Rule
		for len(input) < want {
			nr := 1 + r.Intn(4)
			var rs []Rule
			for j := 0; j < nr; j++ {
				rs = append(rs, genRule(r, cx))
			}
			if r.Chance(50) { // end this VirtualService with a catch-all rule
				rs = append(rs, Rule{Dests: []Dest{{Host: vlib.Pick(r, gHosts), Weight: 100}}})
			}
			rules = append(rules, rs...)
			input = append(input, runRoutes(cx, rs)...)
		}
		if len(input) > 40 {
			input = input[:40]
		}
		var sorted []*route.Route
		if p, msg := vlib.Recover(func() { sorted = istio_route.SortVHostRoutes(slices.Clone(input)) }); p {
			c.Violate(vlib.Violation{ID: id, Kind: "panic", Detail: msg})
			id++
			continue
		}
		var reqs []Request
		for k := 0; k < 6; k++ {
			q := genRequest(r, rules, cx)
			if !findingApplies(rules, q) { // the evaluation here is route-level only, but keep the request sets alike
				reqs = append(reqs, q)
			}
		}
		mid := false
		for k, rt := range input {
			if istio_route.IsCatchAllRoute(rt) && k < len(input)-1 {
				mid = true
			}
		}
		tags := []string{"D:routes>12"}
		if mid {
			tags = append(tags, "D:catch-all-in-the-middle")
		}
		term := vlib.App("Sort", vlib.NI(id), vlib.ListOf(input, routeTerm), vlib.ListOf(sorted, routeTerm),
			reTable(collectRegex(rules), reqs), vlib.ListOf(reqs, reqTerm))
		c.Add(vlib.Case{ID: id, Term: term, Tags: tags, Trivial: !mid,
			Sample: map[string]any{"ctx": cx, "rules": rules, "routes": len(input), "requests": reqs}})
		id++
	}
	return id
}
