//go:build verif

// Correspondence harness for C12: generated routes send each request where the VirtualService says.
// Part A drives the REAL route.BuildHTTPRoutesForVirtualService (sidecar and gateway contexts) on
// generated VirtualServices, decodes the produced []*route.Route into the Envoy AST of
// coq/C12/Model.v and emits one case per (VirtualService, request).  Part B (vhosts_test.go) drives
// the REAL core.BuildSidecarOutboundVirtualHosts.
package c12

import (
	"fmt"
	"regexp"
	"sort"
	"strconv"
	"strings"
	"testing"

	route "github.com/envoyproxy/go-control-plane/envoy/config/route/v3"
	matcher "github.com/envoyproxy/go-control-plane/envoy/type/matcher/v3"

	networking "istio.io/api/networking/v1alpha3"
	"istio.io/istio/pilot/pkg/model"
	istio_route "istio.io/istio/pilot/pkg/networking/core/route"
	"istio.io/istio/pkg/config"
	"istio.io/istio/pkg/config/host"
	"istio.io/istio/pkg/config/mesh"
	"istio.io/istio/pkg/config/protocol"
	"istio.io/istio/pkg/config/schema/gvk"
	"istio.io/istio/pkg/util/sets"
	"verif/harness/vlib"
)

// ---------------------------------------------------------------- abstract VirtualService

// SM is a *networking.StringMatch: K 0 = nil pointer, 1 = MatchType unset, 2 exact, 3 prefix, 4 regex.
type SM struct {
	K int
	S string
}
type KV struct {
	Name string
	M    SM
}
type Match struct {
	Uri                       *SM
	ICase                     bool
	Headers, Without, Query   []KV
	Method, Authority, Scheme *SM
	Port                      uint32
	Labels                    [][2]string
	NS                        string
	Gateways                  []string
}
type Dest struct {
	Host, Subset string
	Port         uint32 // 0 = unset
	Weight       int32
}
type Redirect struct {
	Authority, Uri, PrefixRewrite, Scheme string
	PortKind                              int // 0 none 1 explicit 2 from request port 3 from protocol default
	Port                                  uint32
	Code                                  uint32
}
type Rule struct {
	Matches []Match
	Kind    int // 0 route 1 redirect 2 direct response
	Dests   []Dest
	Redir   Redirect
	Status  uint32
	Body    *string
}
type Ctx struct {
	Port     int
	Labels   [][2]string
	NS       string
	Gateways []string
	TLS      bool
	Services []Svc
}
type Svc struct {
	Host  string
	Ports []int
}
type Request struct {
	Path                      string
	Query, Headers            [][2]string
	Method, Authority, Scheme string
}

// ---------------------------------------------------------------- to the real API objects

func (s SM) proto() *networking.StringMatch {
	switch s.K {
	case 0:
		return nil
	case 1:
		return &networking.StringMatch{}
	case 2:
		return &networking.StringMatch{MatchType: &networking.StringMatch_Exact{Exact: s.S}}
	case 3:
		return &networking.StringMatch{MatchType: &networking.StringMatch_Prefix{Prefix: s.S}}
	}
	return &networking.StringMatch{MatchType: &networking.StringMatch_Regex{Regex: s.S}}
}
func optProto(s *SM) *networking.StringMatch {
	if s == nil {
		return nil
	}
	return s.proto()
}
func kvMap(l []KV) map[string]*networking.StringMatch {
	if len(l) == 0 {
		return nil
	}
	m := map[string]*networking.StringMatch{}
	for _, e := range l {
		m[e.Name] = e.M.proto()
	}
	return m
}
func pairMap(l [][2]string) map[string]string {
	if len(l) == 0 {
		return nil
	}
	m := map[string]string{}
	for _, e := range l {
		m[e[0]] = e[1]
	}
	return m
}

func (m Match) proto() *networking.HTTPMatchRequest {
	return &networking.HTTPMatchRequest{
		Uri: optProto(m.Uri), IgnoreUriCase: m.ICase, Headers: kvMap(m.Headers), WithoutHeaders: kvMap(m.Without),
		QueryParams: kvMap(m.Query), Method: optProto(m.Method), Authority: optProto(m.Authority), Scheme: optProto(m.Scheme),
		Port: m.Port, SourceLabels: pairMap(m.Labels), SourceNamespace: m.NS, Gateways: m.Gateways,
	}
}

func (r Rule) proto(i int) *networking.HTTPRoute {
	out := &networking.HTTPRoute{Name: "r" + strconv.Itoa(i)}
	for _, m := range r.Matches {
		out.Match = append(out.Match, m.proto())
	}
	switch r.Kind {
	case 0:
		for _, d := range r.Dests {
			dst := &networking.Destination{Host: d.Host, Subset: d.Subset}
			if d.Port != 0 {
				dst.Port = &networking.PortSelector{Number: d.Port}
			}
			out.Route = append(out.Route, &networking.HTTPRouteDestination{Destination: dst, Weight: d.Weight})
		}
	case 1:
		rd := &networking.HTTPRedirect{Authority: r.Redir.Authority, Uri: r.Redir.Uri, Scheme: r.Redir.Scheme, RedirectCode: r.Redir.Code}
		rd.PrefixRewrite = r.Redir.PrefixRewrite
		switch r.Redir.PortKind {
		case 1:
			rd.RedirectPort = &networking.HTTPRedirect_Port{Port: r.Redir.Port}
		case 2:
			rd.RedirectPort = &networking.HTTPRedirect_DerivePort{DerivePort: networking.HTTPRedirect_FROM_REQUEST_PORT}
		case 3:
			rd.RedirectPort = &networking.HTTPRedirect_DerivePort{DerivePort: networking.HTTPRedirect_FROM_PROTOCOL_DEFAULT}
		}
		out.Redirect = rd
	case 2:
		dr := &networking.HTTPDirectResponse{Status: r.Status}
		if r.Body != nil {
			dr.Body = &networking.HTTPBody{Specifier: &networking.HTTPBody_String_{String_: *r.Body}}
		}
		out.DirectResponse = dr
	}
	return out
}

func vsConfig(name, ns string, hosts []string, rules []Rule) config.Config {
	vs := &networking.VirtualService{Hosts: hosts}
	for i, r := range rules {
		vs.Http = append(vs.Http, r.proto(i))
	}
	return config.Config{
		Meta: config.Meta{GroupVersionKind: gvk.VirtualService, Name: name, Namespace: ns},
		Spec: vs,
	}
}

func (c Ctx) registry() map[host.Name]*model.Service {
	reg := map[host.Name]*model.Service{}
	for _, s := range c.Services {
		svc := &model.Service{Hostname: host.Name(s.Host), DefaultAddress: "10.0.0.1"}
		for _, p := range s.Ports {
			svc.Ports = append(svc.Ports, &model.Port{Name: "http-" + strconv.Itoa(p), Port: p, Protocol: protocol.HTTP})
		}
		reg[svc.Hostname] = svc
	}
	return reg
}

// runRoutes calls the REAL route.BuildHTTPRoutesForVirtualService.
func runRoutes(c Ctx, rules []Rule) []*route.Route {
	reg := c.registry()
	node := &model.Proxy{
		Type: model.SidecarProxy, ID: "p.ns", ConfigNamespace: c.NS, Labels: pairMap(c.Labels),
		Metadata:     &model.NodeMetadata{Namespace: c.NS, Labels: pairMap(c.Labels)},
		IstioVersion: &model.IstioVersion{Major: 1, Minor: 30},
	}
	isGateway := !(len(c.Gateways) == 1 && c.Gateways[0] == "mesh")
	if isGateway {
		node.Type = model.Router
	}
	opts := istio_route.RouteOptions{
		IsTLS: c.TLS,
		Mesh:  mesh.DefaultMeshConfig(),
		LookupService: func(name host.Name) *model.Service {
			return reg[name]
		},
		LookupDestinationCluster: istio_route.GetDestinationCluster,
		LookupHash: func(*networking.HTTPRouteDestination) *networking.LoadBalancerSettings_ConsistentHashLB {
			return nil
		},
	}
	routes, err := istio_route.BuildHTTPRoutesForVirtualService(node, vsConfig("vs", "ns", []string{"a.example.com"}, rules), c.Port, sets.New(c.Gateways...), opts)
	if err != nil {
		return nil
	}
	return routes
}

// ---------------------------------------------------------------- Gallina printers: source side

// rec prints a record value positionally (Build_x v1 v2 ...): the {| f := v |} notation costs
// several times more elaboration time per case.  kv = alternating field name / value, in
// declaration order of coq/C12/Model.v.
func rec(ctor string, kv ...string) string {
	var b strings.Builder
	b.WriteString("(" + ctor)
	for i := 1; i < len(kv); i += 2 {
		b.WriteString(" " + kv[i])
	}
	b.WriteString(")")
	return b.String()
}

func smTerm(s SM) string {
	switch s.K {
	case 0, 1:
		return "None"
	case 2:
		return "(Some (SExact " + vlib.Str(s.S) + "))"
	case 3:
		return "(Some (SPrefix " + vlib.Str(s.S) + "))"
	}
	return "(Some (SRegex " + vlib.Str(s.S) + "))"
}
func optSmTerm(s *SM) string {
	if s == nil {
		return "None"
	}
	return "(Some " + smTerm(*s) + ")"
}
func uriTerm(s *SM) string {
	if s == nil {
		return "None"
	}
	return smTerm(*s)
}
func kvTerm(l []KV) string {
	return vlib.ListOf(l, func(e KV) string { return vlib.Pair(vlib.Str(e.Name), smTerm(e.M)) })
}
func pairsTerm(l [][2]string) string {
	return vlib.ListOf(l, func(e [2]string) string { return vlib.Pair(vlib.Str(e[0]), vlib.Str(e[1])) })
}
func strsTerm(l []string) string { return vlib.ListOf(l, vlib.Str) }

func matchTerm(m Match) string {
	return rec("Build_hmatch", "m_uri", uriTerm(m.Uri), "m_icase", vlib.B(m.ICase), "m_headers", kvTerm(m.Headers),
		"m_without", kvTerm(m.Without), "m_query", kvTerm(m.Query), "m_method", optSmTerm(m.Method),
		"m_authority", optSmTerm(m.Authority), "m_scheme", optSmTerm(m.Scheme), "m_port", vlib.N(uint64(m.Port)),
		"m_labels", pairsTerm(m.Labels), "m_ns", vlib.Str(m.NS), "m_gateways", strsTerm(m.Gateways))
}
func optStr(s *string) string {
	if s == nil {
		return "None"
	}
	return "(Some " + vlib.Str(*s) + ")"
}
func ruleTerm(r Rule) string {
	var act string
	switch r.Kind {
	case 0:
		act = "(RRoute " + vlib.ListOf(r.Dests, func(d Dest) string {
			return rec("Build_dest", "d_host", vlib.Str(d.Host), "d_subset", vlib.Str(d.Subset),
				"d_port", vlib.Opt(d.Port != 0, vlib.N(uint64(d.Port))), "d_weight", vlib.N(uint64(d.Weight)))
		}) + ")"
	case 1:
		ps := "PortNone"
		switch r.Redir.PortKind {
		case 1:
			ps = "(PortExplicit " + vlib.N(uint64(r.Redir.Port)) + ")"
		case 2:
			ps = "PortFromRequest"
		case 3:
			ps = "PortFromProtocol"
		}
		act = "(RRedirect " + rec("Build_redirect", "r_authority", vlib.Str(r.Redir.Authority), "r_uri", vlib.Str(r.Redir.Uri),
			"r_prefix_rewrite", vlib.Str(r.Redir.PrefixRewrite), "r_scheme", vlib.Str(r.Redir.Scheme),
			"r_port", ps, "r_code", vlib.N(uint64(r.Redir.Code))) + ")"
	case 2:
		act = "(RDirect " + vlib.N(uint64(r.Status)) + " " + optStr(r.Body) + ")"
	}
	return rec("Build_rule", "rl_match", vlib.ListOf(r.Matches, matchTerm), "rl_action", act)
}
func ctxTerm(c Ctx) string {
	return rec("Build_ctx", "c_port", vlib.NI(c.Port), "c_labels", pairsTerm(c.Labels), "c_ns", vlib.Str(c.NS),
		"c_gateways", strsTerm(c.Gateways), "c_tls", vlib.B(c.TLS),
		"c_services", vlib.ListOf(c.Services, func(s Svc) string {
			return vlib.Pair(vlib.Str(s.Host), vlib.ListOf(s.Ports, vlib.NI))
		}))
}
func reqTerm(q Request) string {
	return rec("Build_request", "q_path", vlib.Str(q.Path), "q_query", pairsTerm(q.Query), "q_headers", pairsTerm(q.Headers),
		"q_method", vlib.Str(q.Method), "q_authority", vlib.Str(q.Authority), "q_scheme", vlib.Str(q.Scheme))
}

// ---------------------------------------------------------------- decoder: real Envoy routes -> model AST

func ckeyTerm(cluster string) (string, bool) {
	parts := strings.Split(cluster, "|")
	if cluster == "PassthroughCluster" || cluster == "BlackHoleCluster" {
		// statically configured clusters: port 0, no subset, the name as host
		return rec("Build_ckey", "ck_port", vlib.N(0), "ck_subset", vlib.Str(""), "ck_host", vlib.Str(cluster)), true
	}
	if len(parts) != 4 || parts[0] != "outbound" {
		return "", false
	}
	p, err := strconv.ParseUint(parts[1], 10, 32)
	if err != nil {
		return "", false
	}
	return rec("Build_ckey", "ck_port", vlib.N(p), "ck_subset", vlib.Str(parts[2]), "ck_host", vlib.Str(parts[3])), true
}

func strMatcherTerm(m *matcher.StringMatcher) string {
	if m == nil || m.IgnoreCase {
		return "MUnknown"
	}
	switch p := m.MatchPattern.(type) {
	case *matcher.StringMatcher_Exact:
		return "(MExact " + vlib.Str(p.Exact) + ")"
	case *matcher.StringMatcher_Prefix:
		return "(MPrefix " + vlib.Str(p.Prefix) + ")"
	case *matcher.StringMatcher_SafeRegex:
		return "(MRegex " + vlib.Str(p.SafeRegex.GetRegex()) + ")"
	}
	return "MUnknown"
}

func headerTerm(h *route.HeaderMatcher) string {
	spec := "(HString MUnknown)"
	switch s := h.HeaderMatchSpecifier.(type) {
	case nil:
		spec = "(HPresent true)" // Envoy: no specifier = present match
	case *route.HeaderMatcher_PresentMatch:
		spec = "(HPresent " + vlib.B(s.PresentMatch) + ")"
	case *route.HeaderMatcher_StringMatch:
		spec = "(HString " + strMatcherTerm(s.StringMatch) + ")"
	}
	return rec("Build_hmatcher", "hm_name", vlib.Str(h.Name), "hm_spec", spec, "hm_invert", vlib.B(h.InvertMatch),
		"hm_missing_empty", vlib.B(h.TreatMissingHeaderAsEmpty))
}

func queryTerm(q *route.QueryParameterMatcher) string {
	spec := "(QString MUnknown)"
	switch s := q.QueryParameterMatchSpecifier.(type) {
	case nil:
		spec = "(QPresent true)"
	case *route.QueryParameterMatcher_PresentMatch:
		spec = "(QPresent " + vlib.B(s.PresentMatch) + ")"
	case *route.QueryParameterMatcher_StringMatch:
		spec = "(QString " + strMatcherTerm(s.StringMatch) + ")"
	}
	return vlib.Pair(vlib.Str(q.Name), spec)
}

func routeTerm(r *route.Route) string {
	m := r.GetMatch()
	path := "PUnknown"
	switch p := m.GetPathSpecifier().(type) {
	case *route.RouteMatch_Prefix:
		path = "(PPrefix " + vlib.Str(p.Prefix) + ")"
	case *route.RouteMatch_Path:
		path = "(PPath " + vlib.Str(p.Path) + ")"
	case *route.RouteMatch_PathSeparatedPrefix:
		path = "(PSepPrefix " + vlib.Str(p.PathSeparatedPrefix) + ")"
	case *route.RouteMatch_SafeRegex:
		path = "(PRegex " + vlib.Str(p.SafeRegex.GetRegex()) + ")"
	}
	cs := true
	if m.GetCaseSensitive() != nil {
		cs = m.GetCaseSensitive().GetValue()
	}
	// query parameters come out of a Go map range: canonical order = by name (names are unique)
	qs := append([]*route.QueryParameterMatcher{}, m.GetQueryParameters()...)
	sort.SliceStable(qs, func(i, j int) bool { return qs[i].Name < qs[j].Name })
	rm := rec("Build_route_match", "rm_path", path, "rm_case", vlib.B(cs), "rm_headers", vlib.ListOf(m.GetHeaders(), headerTerm),
		"rm_query", vlib.ListOf(qs, queryTerm), "rm_meta", vlib.NI(len(m.GetDynamicMetadata())))
	act := "ENone"
	switch a := r.GetAction().(type) {
	case *route.Route_Route:
		switch cs := a.Route.GetClusterSpecifier().(type) {
		case *route.RouteAction_Cluster:
			if t, ok := ckeyTerm(cs.Cluster); ok {
				act = "(ECluster " + t + ")"
			}
		case *route.RouteAction_WeightedClusters:
			ok := true
			var l []string
			for _, w := range cs.WeightedClusters.GetClusters() {
				t, k := ckeyTerm(w.Name)
				ok = ok && k
				l = append(l, vlib.Pair(t, vlib.N(uint64(w.GetWeight().GetValue()))))
			}
			if ok {
				act = "(EWeighted " + vlib.List(l) + ")"
			}
		}
	case *route.Route_Redirect:
		rd := a.Redirect
		pathv, pre, ok := "", false, true
		switch p := rd.GetPathRewriteSpecifier().(type) {
		case nil:
		case *route.RedirectAction_PathRedirect:
			pathv = p.PathRedirect
		case *route.RedirectAction_PrefixRewrite:
			pathv, pre = p.PrefixRewrite, true
		default:
			ok = false
		}
		if rd.GetHttpsRedirect() || rd.GetStripQuery() {
			ok = false
		}
		code := map[route.RedirectAction_RedirectResponseCode]uint64{
			route.RedirectAction_MOVED_PERMANENTLY: 301, route.RedirectAction_FOUND: 302, route.RedirectAction_SEE_OTHER: 303,
			route.RedirectAction_TEMPORARY_REDIRECT: 307, route.RedirectAction_PERMANENT_REDIRECT: 308,
		}[rd.GetResponseCode()]
		if ok {
			act = vlib.App("ERedirect", vlib.Str(rd.GetHostRedirect()), vlib.Str(pathv), vlib.B(pre),
				vlib.Str(rd.GetSchemeRedirect()), vlib.N(uint64(rd.GetPortRedirect())), vlib.N(code))
		}
	case *route.Route_DirectResponse:
		dr := a.DirectResponse
		if dr.GetBody() == nil {
			act = vlib.App("EDirect", vlib.N(uint64(dr.GetStatus())), "None")
		} else if dr.GetBody().GetInlineBytes() == nil && dr.GetBody().GetFilename() == "" {
			act = vlib.App("EDirect", vlib.N(uint64(dr.GetStatus())), "(Some "+vlib.Str(dr.GetBody().GetInlineString())+")")
		}
	}
	return rec("Build_eroute", "er_match", rm, "er_action", act)
}

// ---------------------------------------------------------------- regex oracle (RE2 full match, as Envoy safe_regex)

var reCache = map[string]*regexp.Regexp{}

func reFull(re, s string) bool {
	r, ok := reCache[re]
	if !ok {
		r, _ = regexp.Compile(`\A(?:` + re + `)\z`)
		reCache[re] = r
	}
	return r != nil && r.MatchString(s)
}

func collectRegex(rules []Rule) []string {
	set := map[string]bool{}
	add := func(s *SM) {
		if s != nil && s.K == 4 {
			set[s.S] = true
		}
	}
	for _, r := range rules {
		for _, m := range r.Matches {
			add(m.Uri)
			add(m.Method)
			add(m.Authority)
			add(m.Scheme)
			for _, l := range [][]KV{m.Headers, m.Without, m.Query} {
				for i := range l {
					add(&l[i].M)
				}
			}
		}
	}
	out := make([]string, 0, len(set))
	for k := range set {
		out = append(out, k)
	}
	sort.Strings(out)
	return out
}

func reqStrings(qs []Request) []string {
	set := map[string]bool{"": true}
	for _, q := range qs {
		set[q.Path], set[q.Method], set[q.Authority], set[q.Scheme] = true, true, true, true
		for _, h := range q.Headers {
			set[h[1]] = true
		}
		for _, h := range q.Query {
			set[h[1]] = true
		}
	}
	out := make([]string, 0, len(set))
	for k := range set {
		out = append(out, k)
	}
	sort.Strings(out)
	return out
}

func reTable(res []string, qs []Request) string {
	var l []string
	strs := reqStrings(qs)
	for _, re := range res {
		for _, s := range strs {
			l = append(l, "("+vlib.Str(re)+", "+vlib.Str(s)+", "+vlib.B(reFull(re, s))+")")
		}
	}
	return vlib.List(l)
}

// ---------------------------------------------------------------- generators

var (
	gPaths     = []string{"/", "/a", "/a/b", "/api", "/API", "/api/v1", "/b"}
	gPathRe    = []string{".*", "/a.*", "/api/v[0-9]+", "/(a|b)"}
	gHdrNames  = []string{"x-a", "x-b", "x-c"}
	gHdrVals   = []string{"v1", "v2", "V1", "v", ""}
	gValRe     = []string{"v.*", ".*", "v[0-9]", "*", ".+"}
	gQryNames  = []string{"k", "j"}
	gMethods   = []string{"GET", "POST"}
	gAuths     = []string{"a.example.com", "b.example.com", "a.ns.svc.cluster.local"}
	gHosts     = []string{"a.ns.svc.cluster.local", "b.ns.svc.cluster.local", "c.example.com", "unknown.example.com"}
	gSubsets   = []string{"", "", "v1", "v2"}
	gLabelKeys = []string{"app", "ver", "zone"}
	reSamples  = map[string][]string{
		".*": {"zzz", ""}, "/a.*": {"/a/b", "/ab"}, "/api/v[0-9]+": {"/api/v2"}, "/(a|b)": {"/a", "/b"},
		"v.*": {"v9", "v"}, "v[0-9]": {"v1"}, "*": {"q"}, ".+": {"x"}, "G.*": {"GET"},
	}
)

func genSM(r *vlib.Rand, vals, res []string, allowEmptyPrefix bool) SM {
	switch r.Intn(10) {
	case 0:
		return SM{K: 0}
	case 1:
		return SM{K: 1}
	case 2, 3, 4, 5:
		return SM{K: 2, S: vlib.Pick(r, vals)}
	case 6, 7:
		v := vlib.Pick(r, vals)
		if v == "" && !allowEmptyPrefix {
			v = "v"
		}
		return SM{K: 3, S: v}
	}
	return SM{K: 4, S: vlib.Pick(r, res)}
}

func genKVs(r *vlib.Rand, names, vals, res []string, max int) []KV {
	n := 0
	if r.Chance(35) {
		n = 1 + r.Intn(max)
	}
	perm := append([]string{}, names...)
	for i := range perm {
		j := i + r.Intn(len(perm)-i)
		perm[i], perm[j] = perm[j], perm[i]
	}
	if n > len(perm) {
		n = len(perm)
	}
	out := []KV{}
	for _, nm := range perm[:n] {
		out = append(out, KV{Name: nm, M: genSM(r, vals, res, false)})
	}
	sort.Slice(out, func(i, j int) bool { return out[i].Name < out[j].Name })
	return out
}

func genMatch(r *vlib.Rand, c Ctx) Match {
	m := Match{}
	switch r.Intn(10) {
	case 0, 1, 2:
	case 3:
		m.Uri = &SM{K: 1}
	case 4, 5:
		m.Uri = &SM{K: 2, S: vlib.Pick(r, gPaths)}
	case 6, 7, 8:
		m.Uri = &SM{K: 3, S: vlib.Pick(r, gPaths)}
	default:
		m.Uri = &SM{K: 4, S: vlib.Pick(r, gPathRe)}
	}
	m.ICase = r.Chance(30)
	m.Headers = genKVs(r, gHdrNames, gHdrVals, gValRe, 2)
	m.Without = genKVs(r, gHdrNames, gHdrVals, gValRe, 2)
	m.Query = genKVs(r, gQryNames, gHdrVals, gValRe, 2)
	if r.Chance(15) {
		s := genSM(r, gMethods, []string{"G.*", ".*"}, false)
		if s.K == 3 {
			s.S = "P"
		}
		if s.K == 0 { // a nil pointer would mean "no method condition"
			s.K = 1
		}
		m.Method = &s
	}
	if r.Chance(12) {
		s := genSM(r, gAuths, []string{".*", "a.*"}, false)
		if s.K == 3 {
			s.S = "a."
		}
		if s.K == 0 {
			s.K = 1
		}
		m.Authority = &s
	}
	if r.Chance(8) {
		m.Scheme = &SM{K: 2, S: vlib.Pick(r, []string{"http", "https"})}
	}
	if r.Chance(20) {
		m.Port = uint32(vlib.Pick(r, []int{c.Port, c.Port, 80, 8080, 9999}))
	}
	switch r.Intn(8) {
	case 0:
		m.Gateways = []string{"mesh"}
	case 1:
		m.Gateways = []string{"ns/gw"}
	case 2:
		m.Gateways = []string{"other/gw", vlib.Pick(r, []string{"mesh", "ns/gw", "x/y"})}
	case 3, 4:
		// source labels
		n := 1 + r.Intn(2)
		for i := 0; i < n && i < len(gLabelKeys); i++ {
			k := gLabelKeys[(i+r.Intn(3))%3]
			dup := false
			for _, e := range m.Labels {
				dup = dup || e[0] == k
			}
			if dup {
				continue
			}
			v := "x"
			for _, e := range c.Labels {
				if e[0] == k && r.Chance(75) {
					v = e[1]
				}
			}
			m.Labels = append(m.Labels, [2]string{k, v})
		}
		sort.Slice(m.Labels, func(i, j int) bool { return m.Labels[i][0] < m.Labels[j][0] })
	case 5:
		m.NS = vlib.Pick(r, []string{c.NS, c.NS, "other"})
	}
	return m
}

func genRule(r *vlib.Rand, c Ctx) Rule {
	ru := Rule{}
	switch nm := r.Intn(10); {
	case nm == 0:
	case nm < 7:
		ru.Matches = []Match{genMatch(r, c)}
	case nm < 9:
		ru.Matches = []Match{genMatch(r, c), genMatch(r, c)}
	default:
		ru.Matches = []Match{genMatch(r, c), genMatch(r, c), genMatch(r, c)}
	}
	switch k := r.Intn(10); {
	case k < 6:
		n := 1
		if r.Chance(45) {
			n = 2 + r.Intn(2)
		}
		pos := false
		for i := 0; i < n; i++ {
			d := Dest{Host: vlib.Pick(r, gHosts), Subset: vlib.Pick(r, gSubsets)}
			if r.Chance(35) {
				d.Port = uint32(vlib.Pick(r, []int{80, 8080, 9090}))
			}
			d.Weight = int32(vlib.Pick(r, []int{0, 0, 10, 25, 50, 100}))
			pos = pos || d.Weight > 0
			ru.Dests = append(ru.Dests, d)
		}
		if n > 1 && !pos {
			ru.Dests[r.Intn(n)].Weight = 100
		}
	case k < 8:
		ru.Kind = 1
		rd := Redirect{Authority: vlib.Pick(r, []string{"", "new.example.com"}), Scheme: vlib.Pick(r, []string{"", "", "http", "https"})}
		if r.Chance(70) {
			rd.Uri = vlib.Pick(r, []string{"/new", "/"})
		}
		if r.Chance(25) {
			rd.PrefixRewrite = "/pre"
		}
		rd.PortKind = r.Intn(4)
		if rd.PortKind == 1 {
			rd.Port = uint32(vlib.Pick(r, []int{80, 443, 8080, 8443}))
		}
		rd.Code = uint32(vlib.Pick(r, []int{0, 301, 302, 303, 307, 308}))
		ru.Redir = rd
	default:
		ru.Kind = 2
		ru.Status = uint32(vlib.Pick(r, []int{200, 404, 503}))
		if r.Chance(60) {
			b := vlib.Pick(r, []string{"", "hello", "{\"a\":1}"})
			ru.Body = &b
		}
	}
	return ru
}

func genCtx(r *vlib.Rand) Ctx {
	c := Ctx{Port: vlib.Pick(r, []int{80, 8080, 443}), NS: "ns", Gateways: []string{"mesh"}}
	c.Labels = [][2]string{{"app", "a"}, {"ver", "v1"}}
	if r.Chance(20) {
		c.Labels = nil
	}
	if r.Chance(35) {
		c.Gateways = []string{"ns/gw"}
		c.TLS = r.Chance(40)
	}
	c.Services = []Svc{{"a.ns.svc.cluster.local", []int{80}}, {"b.ns.svc.cluster.local", []int{80, 8080}}, {"c.example.com", []int{8080}}}
	return c
}

// sample value satisfying / violating a string match
func satisfy(r *vlib.Rand, s SM, dflt string) string {
	switch s.K {
	case 2:
		return s.S
	case 3:
		return s.S + vlib.Pick(r, []string{"", "z"})
	case 4:
		if l := reSamples[s.S]; len(l) > 0 {
			return vlib.Pick(r, l)
		}
	}
	return dflt
}

func nearMiss(r *vlib.Rand, s string) string {
	switch r.Intn(5) {
	case 0:
		return strings.ToUpper(s)
	case 1:
		return strings.ToLower(s)
	case 2:
		if len(s) > 2 {
			return s[:len(s)-1]
		}
		return s + "x"
	case 3:
		return s + "x"
	}
	return s + "/"
}

func setKV(l [][2]string, k, v string) [][2]string {
	for i := range l {
		if l[i][0] == k {
			l[i][1] = v
			return l
		}
	}
	return append(l, [2]string{k, v})
}
func delKV(l [][2]string, k string) [][2]string {
	out := l[:0:0]
	for _, e := range l {
		if e[0] != k {
			out = append(out, e)
		}
	}
	return out
}

// genRequest: either random from the literal pools or built to satisfy one match block of the
// VirtualService, then possibly perturbed in one place (near miss).
func genRequest(r *vlib.Rand, rules []Rule, c Ctx) Request {
	return genRequestFor(r, rules, c, nil)
}

// genRequestFor: with target != nil the request is built to satisfy exactly that match block
// (no perturbation); otherwise as genRequest.
func genRequestFor(r *vlib.Rand, rules []Rule, c Ctx, target *Match) Request {
	q := Request{Path: vlib.Pick(r, gPaths), Method: vlib.Pick(r, gMethods), Authority: vlib.Pick(r, gAuths), Scheme: "http"}
	if c.TLS {
		q.Scheme = "https"
	}
	for _, n := range gHdrNames {
		if r.Chance(40) {
			q.Headers = append(q.Headers, [2]string{n, vlib.Pick(r, gHdrVals)})
		}
	}
	for _, n := range gQryNames {
		if r.Chance(30) {
			q.Query = append(q.Query, [2]string{n, vlib.Pick(r, gHdrVals)})
		}
	}
	var ms []Match
	for _, ru := range rules {
		ms = append(ms, ru.Matches...)
	}
	if target != nil {
		ms = []Match{*target}
	}
	if len(ms) > 0 && (target != nil || r.Chance(70)) {
		m := ms[r.Intn(len(ms))]
		if m.Uri != nil && m.Uri.K >= 2 {
			q.Path = satisfy(r, *m.Uri, q.Path)
			if m.ICase && r.Chance(50) {
				q.Path = strings.ToUpper(q.Path)
			}
		}
		for _, h := range m.Headers {
			q.Headers = setKV(q.Headers, h.Name, satisfy(r, h.M, "v1"))
		}
		for _, h := range m.Without {
			if r.Chance(70) {
				q.Headers = delKV(q.Headers, h.Name)
			} else {
				q.Headers = setKV(q.Headers, h.Name, nearMiss(r, satisfy(r, h.M, "v1")))
			}
		}
		for _, h := range m.Query {
			q.Query = setKV(q.Query, h.Name, satisfy(r, h.M, "v1"))
		}
		if m.Method != nil {
			q.Method = satisfy(r, *m.Method, q.Method)
		}
		if m.Authority != nil {
			q.Authority = satisfy(r, *m.Authority, q.Authority)
		}
		if m.Scheme != nil {
			q.Scheme = satisfy(r, *m.Scheme, q.Scheme)
		}
		if target == nil && r.Chance(45) { // near miss
			switch r.Intn(6) {
			case 0:
				q.Path = nearMiss(r, q.Path)
				if !strings.HasPrefix(q.Path, "/") {
					q.Path = "/" + q.Path
				}
			case 1:
				if len(q.Headers) > 0 {
					i := r.Intn(len(q.Headers))
					q.Headers[i][1] = nearMiss(r, q.Headers[i][1])
				}
			case 2:
				if len(q.Headers) > 0 {
					q.Headers = delKV(q.Headers, q.Headers[r.Intn(len(q.Headers))][0])
				}
			case 3:
				if len(m.Without) > 0 {
					h := m.Without[r.Intn(len(m.Without))]
					q.Headers = setKV(q.Headers, h.Name, satisfy(r, h.M, "v1"))
				}
			case 4:
				if len(q.Query) > 0 {
					i := r.Intn(len(q.Query))
					if r.Bool() {
						q.Query[i][1] = nearMiss(r, q.Query[i][1])
					} else {
						q.Query = delKV(q.Query, q.Query[i][0])
					}
				}
			case 5:
				q.Method = vlib.Pick(r, []string{"GET", "POST", "get", "PUT"})
			}
		}
	}
	if !strings.HasPrefix(q.Path, "/") {
		q.Path = "/" + q.Path
	}
	sort.Slice(q.Headers, func(i, j int) bool { return q.Headers[i][0] < q.Headers[j][0] })
	sort.Slice(q.Query, func(i, j int) bool { return q.Query[i][0] < q.Query[j][0] })
	return q
}

// acceptsEmpty: a withoutHeaders matcher that is not present-style and accepts the empty string.
func acceptsEmpty(s SM) bool {
	switch s.K {
	case 2:
		return s.S == ""
	case 3:
		return s.S == ""
	case 4:
		return s.S != "*" && reFull(s.S, "")
	}
	return false
}

const findingWithoutEmpty = "C12-withoutheaders-absent-header-treated-as-empty"

// findingApplies: the request lacks a header that some withoutHeaders matcher of the
// VirtualService would accept as "" (Envoy treat_missing_header_as_empty).
func findingApplies(rules []Rule, q Request) bool {
	have := map[string]bool{}
	for _, h := range q.Headers {
		have[h[0]] = true
	}
	for _, ru := range rules {
		for _, m := range ru.Matches {
			for _, h := range m.Without {
				if !have[h.Name] && acceptsEmpty(h.M) {
					return true
				}
			}
		}
	}
	return false
}

func ruleTags(rules []Rule, routes []*route.Route) []string {
	tags := map[string]bool{}
	nm := 0
	for _, ru := range rules {
		if len(ru.Matches) == 0 {
			tags["rule:no-match-block"] = true
		}
		tags[[]string{"action:route", "action:redirect", "action:direct"}[ru.Kind]] = true
		if ru.Kind == 0 && len(ru.Dests) > 1 {
			tags["action:weighted"] = true
		}
		for _, m := range ru.Matches {
			nm++
			if m.Uri != nil {
				tags["uri:"+[]string{"nil", "unset", "exact", "prefix", "regex"}[m.Uri.K]] = true
			}
			if m.ICase {
				tags["ignoreUriCase"] = true
			}
			if len(m.Headers) > 0 {
				tags["headers"] = true
			}
			if len(m.Without) > 0 {
				tags["withoutHeaders"] = true
			}
			if len(m.Query) > 0 {
				tags["queryParams"] = true
			}
			if m.Method != nil || m.Authority != nil || m.Scheme != nil {
				tags["pseudo-header"] = true
			}
			if m.Port != 0 {
				tags["match.port"] = true
			}
			if len(m.Gateways) > 0 {
				tags["gateways"] = true
			}
			if len(m.Labels) > 0 {
				tags["sourceLabels"] = true
			}
			if m.NS != "" {
				tags["sourceNamespace"] = true
			}
			for _, l := range [][]KV{m.Headers, m.Without, m.Query} {
				for _, h := range l {
					if h.M.K <= 1 || (h.M.K == 4 && h.M.S == "*") {
						tags["present-match"] = true
					}
				}
			}
		}
	}
	if len(routes) < nm {
		tags["routes-dropped(prefilter|truncation)"] = true
	}
	if len(routes) == 0 {
		tags["no-routes"] = true
	}
	for i, rt := range routes {
		if istio_route.IsCatchAllRoute(rt) {
			tags["catch-all"] = true
			if i < len(routes)-1 {
				tags["catch-all-not-last"] = true
			}
		}
	}
	out := []string{}
	for k := range tags {
		out = append(out, k)
	}
	sort.Strings(out)
	return out
}

// ---------------------------------------------------------------- fixed witnesses

func witnessCases() []struct {
	Name  string
	C     Ctx
	Rules []Rule
	Reqs  []Request
} {
	base := Ctx{Port: 80, NS: "ns", Gateways: []string{"mesh"}, Labels: [][2]string{{"app", "a"}},
		Services: []Svc{{"a.ns.svc.cluster.local", []int{80}}}}
	toA := []Dest{{Host: "a.ns.svc.cluster.local", Weight: 100}}
	toB := []Dest{{Host: "b.ns.svc.cluster.local", Weight: 100}}
	req := Request{Path: "/", Method: "GET", Authority: "a.example.com", Scheme: "http"}
	withHdr := req
	withHdr.Headers = [][2]string{{"x-a", "v1"}}
	return []struct {
		Name  string
		C     Ctx
		Rules []Rule
		Reqs  []Request
	}{
		// the C12_routes_preserved_refuted witness: withoutHeaders {x-a: exact ""}, request without x-a
		{"without-exact-empty", base, []Rule{
			{Matches: []Match{{Without: []KV{{"x-a", SM{K: 2, S: ""}}}}}, Dests: toA},
			{Dests: toB},
		}, []Request{req, withHdr}},
		{"without-regex-dotstar", base, []Rule{
			{Matches: []Match{{Without: []KV{{"x-a", SM{K: 4, S: ".*"}}}}}, Dests: toA},
			{Dests: toB},
		}, []Request{req, withHdr}},
		// truncation: the rule after a catch-all match block is dropped
		{"truncation", base, []Rule{
			{Matches: []Match{{Uri: &SM{K: 3, S: "/a"}}, {Uri: &SM{K: 3, S: "/"}}, {Uri: &SM{K: 2, S: "/b"}}}, Dests: toA},
			{Matches: []Match{{Uri: &SM{K: 2, S: "/b"}}}, Dests: toB},
		}, []Request{req, {Path: "/b", Method: "GET", Authority: "a.example.com", Scheme: "http"}}},
	}
}

// ---------------------------------------------------------------- TestGen

func TestGen(t *testing.T) {
	c := vlib.NewCollector("C12", "V.C12.Run")
	c.Rule = "A: generated VirtualService http rule lists (0-3 match blocks per rule; uri exact/prefix/regex/unset, ignoreUriCase, " +
		"headers, withoutHeaders, queryParams with exact/prefix/regex/nil/unset/'*' matchers, method, authority, scheme, port, gateways, " +
		"sourceLabels, sourceNamespace; weighted destinations with subsets/ports, redirect, directResponse) for sidecar and gateway " +
		"contexts through the real BuildHTTPRoutesForVirtualService; one or two cases per VirtualService with its 8 requests (those the known finding applies to are a case of their own); requests are built to satisfy " +
		"a match block and then perturbed in one place, or drawn from the literal pools. Non-trivial = the VirtualService has at least one " +
		"match block with a request condition and the request reaches some route or rule. " +
		"B/C are organised around a feature table (drawn first, recorded in every case sample under 'features' and as B:/C: tags). " +
		"B (sidecar): listener port 80 / 8080; outboundTrafficPolicy ALLOW_ANY / REGISTRY_ONLY; declared HTTP vs sniffed service ports; VirtualService " +
		"host forms exact-service / exact-non-registry / mixed-case / wildcard matching services / wildcard matching none, mixed in one host list in " +
		"every order; two VirtualServices naming one host; exact vs wildcard ownership; observed through the real BuildSidecarOutboundVirtualHosts " +
		"AND one real BuildHTTPRoutes call carrying the plain port route name together with sniffed host:port names (sorted, sometimes reversed); " +
		"authorities: service FQDNs, VirtualService hosts, wildcard instances, unknown hosts, the Kubernetes alt-domain family with and without port. " +
		"C (gateway): 1-3 Gateways with one or two servers each on one HTTP port (disjoint hosts), VirtualServices spanning servers / bound to several " +
		"Gateways and mesh, per-match gateways incl. mesh-only blocks (rules filtered per context), several VirtualServices per host; one request per " +
		"(host, rule) plus near misses; through the real BuildHTTPRoutes (router, http.80). Delegates are not generated. " +
		"D: 13-40 real routes of several VirtualServices concatenated (catch-alls in the middle) through the real SortVHostRoutes."
	seed := vlib.Seed()
	id := 0

	emit := func(cx Ctx, rules []Rule, reqs []Request, forceTag string) {
		// requests to which the known finding applies go into a case of their own (so that the
		// finding tag cannot mask a different failure on the other requests)
		var plain, tagged []Request
		for _, q := range reqs {
			if findingApplies(rules, q) {
				tagged = append(tagged, q)
			} else {
				plain = append(plain, q)
			}
		}
		groups := [][]Request{plain}
		if len(tagged) > 0 {
			groups = append(groups, tagged)
		}
		if !c.Wanted(id) && !(len(groups) > 1 && c.Wanted(id+1)) {
			id += len(groups)
			return
		}
		var routes []*route.Route
		if p, msg := vlib.Recover(func() { routes = runRoutes(cx, rules) }); p {
			c.Violate(vlib.Violation{ID: id, Kind: "panic", Detail: msg, Case: map[string]any{"ctx": cx, "rules": rules}})
			id += len(groups)
			return
		}
		// C12_sort_vhost_routes_identity against the real SortVHostRoutes
		sorted := istio_route.SortVHostRoutes(routes)
		same := len(sorted) == len(routes)
		for i := range routes {
			same = same && sorted[i] == routes[i]
		}
		if !same {
			c.Violate(vlib.Violation{ID: id, Kind: "oracle", Detail: "SortVHostRoutes reorders the routes of a single VirtualService",
				Case: map[string]any{"ctx": cx, "rules": rules}})
		}
		c.Hyp("SortVHostRoutes is the identity on one VirtualService's routes", 1)
		obs := vlib.ListOf(routes, routeTerm)
		rulesT := vlib.ListOf(rules, ruleTerm)
		cT := ctxTerm(cx)
		res := collectRegex(rules)
		tags := ruleTags(rules, routes)
		if forceTag != "" {
			tags = append(tags, forceTag)
		}
		hasCond := false
		for _, ru := range rules {
			for _, m := range ru.Matches {
				hasCond = hasCond || m.Uri != nil || len(m.Headers)+len(m.Without)+len(m.Query) > 0 || m.Method != nil || m.Authority != nil
			}
		}
		for gi, g := range groups {
			term := vlib.App("Routes", vlib.NI(id), cT, rulesT, obs, reTable(res, g), vlib.ListOf(g, reqTerm))
			if gi == 1 {
				c.FindingOf[id] = findingWithoutEmpty
			}
			c.Add(vlib.Case{ID: id, Term: term, Tags: tags, Trivial: !hasCond || len(routes) == 0 || len(g) == 0,
				Sample: map[string]any{"ctx": cx, "rules": rules, "requests": g, "routes": fmt.Sprint(len(routes))}})
			c.Hyp("request path starts with '/'", len(g))
			id++
		}
	}

	for _, w := range witnessCases() {
		emit(w.C, w.Rules, w.Reqs, "witness:"+w.Name)
	}

	nVS := vlib.Scale(180, 6000)
	nReq := 8
	for v := 0; v < nVS; v++ {
		r := vlib.NewRand(seed*1000003 + uint64(v)*7919 + 11)
		cx := genCtx(r)
		nr := 1 + r.Intn(4)
		rules := make([]Rule, 0, nr)
		for i := 0; i < nr; i++ {
			rules = append(rules, genRule(r, cx))
		}
		reqs := make([]Request, 0, nReq)
		for i := 0; i < nReq; i++ {
			reqs = append(reqs, genRequest(r, rules, cx))
		}
		emit(cx, rules, reqs, "")
	}

	id = genVhostCases(t, c, id, seed)
	id = genGatewayCases(t, c, id, seed)
	id = genSortCases(t, c, id, seed)

	if err := c.Flush(); err != nil {
		t.Fatal(err)
	}
}
