//go:build verif

package c12

import (
	"strconv"
	"strings"
	"testing"
	"time"

	route "github.com/envoyproxy/go-control-plane/envoy/config/route/v3"

	"istio.io/istio/pilot/pkg/model"
	"istio.io/istio/pilot/pkg/networking/core"
	"istio.io/istio/pilot/pkg/serviceregistry/provider"
	"istio.io/istio/pkg/config"
	"istio.io/istio/pkg/config/host"
	"istio.io/istio/pkg/config/protocol"
	"verif/harness/vlib"
)

// Part B: the REAL core.BuildSidecarOutboundVirtualHosts on a fake push context
// (core.NewConfigGenTest, as httproute_test.go does).

type VSpec struct {
	Hosts []string
	Rules []Rule
}
type Scenario struct {
	Port int
	Svcs []Svc
	VSs  []VSpec
}

var (
	bSvcPool = []Svc{
		{"a.ns.svc.cluster.local", []int{80}}, {"b.ns.svc.cluster.local", []int{80, 8080}},
		{"a.other.svc.cluster.local", []int{80}}, {"c.example.com", []int{8080}}, {"api.example.com", []int{80, 8080}},
		{"d.ns.svc.cluster.local", []int{8080}},
		// a namespace whose name has the proxy's namespace "ns" as a strict prefix
		{"a.ns-x.svc.cluster.local", []int{80}}, {"e.ns-x.svc.cluster.local", []int{80, 8080}},
	}
	bExtHosts = []string{"ext.example.org", "Ext2.Example.Org"}
)

func genScenario(r *vlib.Rand) Scenario {
	sc := Scenario{Port: vlib.Pick(r, []int{80, 80, 8080})}
	for _, s := range bSvcPool {
		if r.Chance(60) {
			sc.Svcs = append(sc.Svcs, s)
		}
	}
	if len(sc.Svcs) == 0 {
		sc.Svcs = append(sc.Svcs, bSvcPool[r.Intn(len(bSvcPool))])
	}
	nvs := r.Intn(4)
	for i := 0; i < nvs; i++ {
		v := VSpec{}
		nh := 1 + r.Intn(2)
		for j := 0; j < nh; j++ {
			var h string
			if r.Chance(75) {
				h = bSvcPool[r.Intn(len(bSvcPool))].Host
			} else {
				h = vlib.Pick(r, bExtHosts)
			}
			dup := false
			for _, x := range v.Hosts {
				dup = dup || strings.EqualFold(x, h)
			}
			if !dup {
				v.Hosts = append(v.Hosts, h)
			}
		}
		dst := func() []Dest {
			d := Dest{Host: bSvcPool[r.Intn(len(bSvcPool))].Host, Subset: vlib.Pick(r, gSubsets), Weight: 100}
			if r.Chance(30) {
				d.Port = uint32(vlib.Pick(r, []int{80, 8080}))
			}
			return []Dest{d}
		}
		if r.Chance(70) {
			m := Match{Uri: &SM{K: 3, S: "/x"}}
			if r.Chance(30) {
				m.Headers = []KV{{"x-a", SM{K: 2, S: "v1"}}}
			}
			v.Rules = append(v.Rules, Rule{Matches: []Match{m}, Dests: dst()})
		}
		switch r.Intn(3) {
		case 0:
			v.Rules = append(v.Rules, Rule{Dests: dst()})
		case 1:
			b := "no"
			v.Rules = append(v.Rules, Rule{Kind: 2, Status: 404, Body: &b})
		default:
			if len(v.Rules) == 0 {
				v.Rules = append(v.Rules, Rule{Matches: []Match{{Uri: &SM{K: 2, S: "/y"}}}, Dests: dst()})
			}
		}
		sc.VSs = append(sc.VSs, v)
	}
	return sc
}

var t0 = time.Date(2024, 1, 1, 0, 0, 0, 0, time.UTC)

func runVhosts(t *testing.T, sc Scenario) []*route.VirtualHost {
	var svcs []*model.Service
	for i, s := range sc.Svcs {
		svc := &model.Service{
			CreationTime: t0.Add(time.Duration(i) * time.Minute), Hostname: host.Name(s.Host),
			DefaultAddress: "10.0.0." + strconv.Itoa(10+i), Resolution: model.ClientSideLB,
			Attributes: model.ServiceAttributes{Name: strings.Split(s.Host, ".")[0], Namespace: "ns", ServiceRegistry: provider.External},
		}
		if strings.HasSuffix(s.Host, ".svc.cluster.local") {
			svc.Attributes.ServiceRegistry = provider.Kubernetes
			svc.Attributes.Namespace = strings.Split(s.Host, ".")[1]
		}
		for _, p := range s.Ports {
			svc.Ports = append(svc.Ports, &model.Port{Name: "http-" + strconv.Itoa(p), Port: p, Protocol: protocol.HTTP})
		}
		svcs = append(svcs, svc)
	}
	var cfgs []config.Config
	for i, v := range sc.VSs {
		c := vsConfig("vs"+strconv.Itoa(i), "ns", v.Hosts, v.Rules)
		c.CreationTimestamp = t0.Add(time.Duration(i) * time.Hour)
		cfgs = append(cfgs, c)
	}
	cg := core.NewConfigGenTest(t, core.TestOptions{Services: svcs, Configs: cfgs})
	proxy := cg.SetupProxy(&model.Proxy{ConfigNamespace: "ns", DNSDomain: "ns.svc.cluster.local"})
	vhosts, _, _ := core.BuildSidecarOutboundVirtualHosts(proxy, cg.PushContext(), strconv.Itoa(sc.Port), sc.Port, nil, model.DisabledCache{})
	return vhosts
}

func vhostTerm(v *route.VirtualHost) string {
	return rec("Build_vhost", "vh_name", vlib.Str(v.Name), "vh_domains", strsTerm(v.Domains), "vh_routes", vlib.ListOf(v.Routes, routeTerm))
}

func genVhostCases(t *testing.T, c *vlib.Collector, id int, seed uint64) int {
	n := vlib.Scale(30, 1500)
	for i := 0; i < n; i++ {
		r := vlib.NewRand(seed*2000003 + uint64(i)*104729 + 5)
		sc := genScenario(r)
		if !c.Wanted(id) {
			id++
			continue
		}
		var vhosts []*route.VirtualHost
		if p, msg := vlib.Recover(func() { vhosts = runVhosts(t, sc) }); p {
			c.Violate(vlib.Violation{ID: id, Kind: "panic", Detail: msg, Case: sc})
			id++
			continue
		}
		// requests: every service FQDN, every VirtualService host, their case variants, an unknown host
		auths := []string{"unknown.example.org"}
		for _, s := range bSvcPool {
			auths = append(auths, s.Host)
		}
		for _, v := range sc.VSs {
			auths = append(auths, v.Hosts...)
		}
		auths = append(auths, strings.ToUpper(sc.Svcs[0].Host))
		// the alt-domain family of every Kubernetes service of the pool: short name, name.ns,
		// name.ns.svc, absolute FQDN, with and without port
		for _, s := range bSvcPool {
			if !strings.HasSuffix(s.Host, ".svc.cluster.local") {
				continue
			}
			parts := strings.Split(s.Host, ".")
			fam := []string{parts[0], parts[0] + "." + parts[1], parts[0] + "." + parts[1] + ".svc", s.Host + "."}
			for _, f := range fam {
				if r.Chance(60) {
					auths = append(auths, f)
				}
				if r.Chance(25) {
					auths = append(auths, f+":"+strconv.Itoa(sc.Port))
				}
			}
		}
		seen := map[string]bool{}
		var reqs []Request
		for _, a := range auths {
			if seen[a] {
				continue
			}
			seen[a] = true
			for _, p := range []string{"/x/1", "/y"} {
				if p == "/y" && r.Chance(50) {
					continue
				}
				q := Request{Path: p, Method: "GET", Authority: a, Scheme: "http"}
				if r.Chance(50) {
					q.Headers = [][2]string{{"x-a", vlib.Pick(r, []string{"v1", "v2"})}}
				}
				reqs = append(reqs, q)
			}
		}
		cx := Ctx{Port: sc.Port, NS: "ns", Gateways: []string{"mesh"}}
		svcT := vlib.ListOf(sc.Svcs, func(s Svc) string { return vlib.Pair(vlib.Str(s.Host), vlib.ListOf(s.Ports, vlib.NI)) })
		vsT := vlib.ListOf(sc.VSs, func(v VSpec) string { return vlib.Pair(strsTerm(v.Hosts), vlib.ListOf(v.Rules, ruleTerm)) })
		term := vlib.App("VHosts", vlib.NI(id), ctxTerm(cx), svcT, vsT, vlib.ListOf(vhosts, vhostTerm), vlib.ListOf(reqs, reqTerm))
		tags := []string{"B:port-" + strconv.Itoa(sc.Port), "B:vs-" + strconv.Itoa(len(sc.VSs))}
		hostSeen := map[string]int{}
		for _, v := range sc.VSs {
			for _, h := range v.Hosts {
				hostSeen[strings.ToLower(h)]++
				if hostSeen[strings.ToLower(h)] == 2 {
					tags = append(tags, "B:two-vs-same-host")
				}
				if !strings.Contains(h, "svc.cluster.local") && !strings.HasSuffix(h, "example.com") {
					tags = append(tags, "B:non-registry-vs-host")
				}
			}
		}
		c.Add(vlib.Case{ID: id, Term: term, Tags: tags, Trivial: len(sc.VSs) == 0,
			Sample: map[string]any{"scenario": sc, "requests": reqs, "vhosts": len(vhosts)}})
		id++
	}
	return id
}
