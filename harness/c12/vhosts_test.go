//go:build verif

package c12

import (
	"sort"
	"strconv"
	"strings"
	"testing"
	"time"

	route "github.com/envoyproxy/go-control-plane/envoy/config/route/v3"

	meshconfig "istio.io/api/mesh/v1alpha1"
	"istio.io/istio/pilot/pkg/model"
	"istio.io/istio/pilot/pkg/networking/core"
	"istio.io/istio/pilot/pkg/serviceregistry/provider"
	"istio.io/istio/pkg/config"
	"istio.io/istio/pkg/config/host"
	"istio.io/istio/pkg/config/mesh"
	"istio.io/istio/pkg/config/protocol"
	"verif/harness/vlib"
)

// Part B: the REAL sidecar route generation on a fake push context (core.NewConfigGenTest, as
// httproute_test.go does): core.BuildSidecarOutboundVirtualHosts for the listener port, and ONE
// ConfigGeneratorImpl.BuildHTTPRoutes call with several route names (the plain port route and sniffed
// "host:port" routes of the same port) as an RDS request carries them.
//
// The scenario generator is organised around a feature table: the features are drawn first,
// the configuration is built to have them, and they are recorded in the case sample and tags.

type VSpec struct {
	Hosts []string
	Forms []string // per host: exact-svc, exact-nonreg, exact-nonreg-mixedcase, wild-matching, wild-nonmatching
	Rules []Rule
}
type SidecarFeatures struct {
	Port          int      // 80 / not 80
	RegistryOnly  bool     // outboundTrafficPolicy
	SniffedPorts  bool     // service ports without declared protocol (sniffed) instead of HTTP
	VSHostForms   []string // union of the host forms used by the VirtualServices
	MixedHostList bool     // some VirtualService lists a wildcard host and an exact host
	WildBeforeHit bool     // ... with a non-matching wildcard BEFORE the host that matches a service
	TwoVSOneHost  bool     // two VirtualServices name the same host
	ExactVsWild   bool     // a service is named exactly by one VirtualService and by a wildcard of another
	RouteNames    []string // route names requested together in one BuildHTTPRoutes call, in request order
}
type Scenario struct {
	Port     int
	Svcs     []Svc
	VSs      []VSpec
	Features SidecarFeatures
}

var (
	bSvcPool = []Svc{
		{"a.ns.svc.cluster.local", []int{80}}, {"b.ns.svc.cluster.local", []int{80, 8080}},
		{"a.other.svc.cluster.local", []int{80}}, {"c.example.com", []int{8080}}, {"api.example.com", []int{80, 8080}},
		{"d.ns.svc.cluster.local", []int{8080}},
		// a namespace whose name has the proxy's namespace "ns" as a strict prefix
		{"a.ns-x.svc.cluster.local", []int{80}}, {"e.ns-x.svc.cluster.local", []int{80, 8080}},
		// sorts before the plain port route names
		{"1api.example.com", []int{8080}},
	}
	bExtHosts  = []string{"ext.example.org", "Ext2.Example.Org"}
	bWildHosts = []string{"*.ns.svc.cluster.local", "*.svc.cluster.local", "*.example.com", "*.internal.example.com", "*.example.org"}
	bWildInst  = []string{"zzz.internal.example.com", "zzz.example.org", "zzz.example.com", "q.ns.svc.cluster.local"}
)

func wildMatches(pat, h string) bool { return strings.HasSuffix(h, pat[1:]) }

func svcOnPort(svcs []Svc, h string, port int) bool {
	for _, s := range svcs {
		if s.Host == h {
			for _, p := range s.Ports {
				if p == port {
					return true
				}
			}
		}
	}
	return false
}

func genScenario(r *vlib.Rand) Scenario {
	sc := Scenario{Port: vlib.Pick(r, []int{80, 8080, 8080})}
	f := SidecarFeatures{Port: sc.Port, RegistryOnly: r.Chance(30), SniffedPorts: r.Chance(40)}
	for _, s := range bSvcPool {
		if r.Chance(60) {
			sc.Svcs = append(sc.Svcs, s)
		}
	}
	if len(sc.Svcs) == 0 {
		sc.Svcs = append(sc.Svcs, bSvcPool[r.Intn(len(bSvcPool))])
	}
	matchesSome := func(pat string) bool {
		for _, s := range sc.Svcs {
			if wildMatches(pat, s.Host) && svcOnPort(sc.Svcs, s.Host, sc.Port) {
				return true
			}
		}
		return false
	}
	formOf := func(h string) string {
		switch {
		case strings.HasPrefix(h, "*"):
			if matchesSome(h) {
				return "wild-matching"
			}
			return "wild-nonmatching"
		case svcOnPort(sc.Svcs, strings.ToLower(h), sc.Port):
			return "exact-svc"
		case h != strings.ToLower(h):
			return "exact-nonreg-mixedcase"
		}
		return "exact-nonreg"
	}
	nvs := r.Intn(4)
	wantMixed := r.Chance(50) // feature: wildcard and exact hosts mixed in one VirtualService
	for i := 0; i < nvs; i++ {
		v := VSpec{}
		nh := 1 + r.Intn(3)
		for j := 0; j < nh; j++ {
			var h string
			switch k := r.Intn(10); {
			case k < 5:
				h = bSvcPool[r.Intn(len(bSvcPool))].Host
			case k < 7:
				h = vlib.Pick(r, bExtHosts)
			default:
				h = vlib.Pick(r, bWildHosts)
			}
			if wantMixed && i == 0 && j == 0 {
				h = vlib.Pick(r, bWildHosts)
			}
			if wantMixed && i == 0 && j == 1 {
				h = sc.Svcs[r.Intn(len(sc.Svcs))].Host
			}
			dup := false
			for _, x := range v.Hosts {
				dup = dup || strings.EqualFold(x, h)
			}
			if !dup {
				v.Hosts = append(v.Hosts, h)
			}
		}
		if r.Chance(40) { // host order is a feature of its own
			for a := range v.Hosts {
				b := a + r.Intn(len(v.Hosts)-a)
				v.Hosts[a], v.Hosts[b] = v.Hosts[b], v.Hosts[a]
			}
		}
		dst := func() []Dest {
			d := Dest{Host: bSvcPool[r.Intn(len(bSvcPool))].Host, Subset: vlib.Pick(r, gSubsets), Weight: 100}
			if r.Chance(30) {
				d.Port = uint32(vlib.Pick(r, []int{80, 8080}))
			}
			return []Dest{d}
		}
		if r.Chance(70) {
			m := Match{Uri: &SM{K: 3, S: "/x"}}
			if r.Chance(30) {
				m.Headers = []KV{{"x-a", SM{K: 2, S: "v1"}}}
			}
			v.Rules = append(v.Rules, Rule{Matches: []Match{m}, Dests: dst()})
		}
		switch r.Intn(3) {
		case 0:
			v.Rules = append(v.Rules, Rule{Dests: dst()})
		case 1:
			b := "no"
			v.Rules = append(v.Rules, Rule{Kind: 2, Status: 404, Body: &b})
		default:
			if len(v.Rules) == 0 {
				v.Rules = append(v.Rules, Rule{Matches: []Match{{Uri: &SM{K: 2, S: "/y"}}}, Dests: dst()})
			}
		}
		sc.VSs = append(sc.VSs, v)
	}
	// record what was drawn
	forms := map[string]bool{}
	seenHost := map[string]int{}
	for i := range sc.VSs {
		v := &sc.VSs[i]
		wild, exact := false, false
		missBefore := false
		for _, h := range v.Hosts {
			fm := formOf(h)
			v.Forms = append(v.Forms, fm)
			forms[fm] = true
			if strings.HasPrefix(h, "*") {
				wild = true
			} else {
				exact = true
			}
			if fm == "wild-nonmatching" {
				missBefore = true
			}
			if (fm == "exact-svc" || fm == "wild-matching") && missBefore {
				f.WildBeforeHit = true
			}
			seenHost[strings.ToLower(h)]++
			if seenHost[strings.ToLower(h)] == 2 {
				f.TwoVSOneHost = true
			}
		}
		f.MixedHostList = f.MixedHostList || (wild && exact)
	}
	for _, s := range sc.Svcs {
		ex, wi := -1, -1
		for i, v := range sc.VSs {
			for _, h := range v.Hosts {
				if strings.EqualFold(h, s.Host) && ex < 0 {
					ex = i
				}
				if strings.HasPrefix(h, "*") && wildMatches(h, s.Host) && wi < 0 {
					wi = i
				}
			}
		}
		if ex >= 0 && wi >= 0 && ex != wi {
			f.ExactVsWild = true
		}
	}
	for k := range forms {
		f.VSHostForms = append(f.VSHostForms, k)
	}
	sort.Strings(f.VSHostForms)
	// route names requested together: the plain port route and sniffed routes of services of this port
	names := []string{strconv.Itoa(sc.Port)}
	for _, s := range sc.Svcs {
		if svcOnPort(sc.Svcs, s.Host, sc.Port) && r.Chance(45) {
			names = append(names, s.Host+":"+strconv.Itoa(sc.Port))
		}
	}
	sort.Strings(names) // the order a sorted resource list gives ("1api...:8080" before "8080")
	if r.Chance(25) {
		for a, b := 0, len(names)-1; a < b; a, b = a+1, b-1 {
			names[a], names[b] = names[b], names[a]
		}
	}
	f.RouteNames = names
	sc.Features = f
	return sc
}

func (f SidecarFeatures) tags() []string {
	t := []string{"B:port-" + strconv.Itoa(f.Port)}
	for _, fm := range f.VSHostForms {
		t = append(t, "B:host-"+fm)
	}
	add := func(b bool, s string) {
		if b {
			t = append(t, s)
		}
	}
	add(f.RegistryOnly, "B:registry-only")
	add(!f.RegistryOnly, "B:allow-any")
	add(f.SniffedPorts, "B:sniffed-protocol")
	add(f.MixedHostList, "B:wild+exact-in-one-vs")
	add(f.WildBeforeHit, "B:nonmatching-wildcard-before-matching-host")
	add(f.TwoVSOneHost, "B:two-vs-same-host")
	add(f.ExactVsWild, "B:exact-vs-wildcard-owner")
	add(len(f.RouteNames) > 1, "B:sniffed+plain-route-names-together")
	add(len(f.RouteNames) > 1 && strings.Contains(f.RouteNames[0], ":"), "B:sniffed-name-requested-first")
	return t
}

var t0 = time.Date(2024, 1, 1, 0, 0, 0, 0, time.UTC)

type sidecarOut struct {
	VHosts []*route.VirtualHost              // BuildSidecarOutboundVirtualHosts
	RDS    map[string][]*route.VirtualHost   // per requested route name
}

func runSidecar(t *testing.T, sc Scenario) sidecarOut {
	var svcs []*model.Service
	proto := protocol.HTTP
	if sc.Features.SniffedPorts {
		proto = protocol.Unsupported
	}
	for i, s := range sc.Svcs {
		svc := &model.Service{
			CreationTime: t0.Add(time.Duration(i) * time.Minute), Hostname: host.Name(s.Host),
			DefaultAddress: "10.0.0." + strconv.Itoa(10+i), Resolution: model.ClientSideLB,
			Attributes: model.ServiceAttributes{Name: strings.Split(s.Host, ".")[0], Namespace: "ns", ServiceRegistry: provider.External},
		}
		if strings.HasSuffix(s.Host, ".svc.cluster.local") {
			svc.Attributes.ServiceRegistry = provider.Kubernetes
			svc.Attributes.Namespace = strings.Split(s.Host, ".")[1]
		}
		for _, p := range s.Ports {
			svc.Ports = append(svc.Ports, &model.Port{Name: "p-" + strconv.Itoa(p), Port: p, Protocol: proto})
		}
		svcs = append(svcs, svc)
	}
	var cfgs []config.Config
	for i, v := range sc.VSs {
		c := vsConfig("vs"+strconv.Itoa(i), "ns", v.Hosts, v.Rules)
		c.CreationTimestamp = t0.Add(time.Duration(i) * time.Hour)
		cfgs = append(cfgs, c)
	}
	m := mesh.DefaultMeshConfig()
	if sc.Features.RegistryOnly {
		m.OutboundTrafficPolicy = &meshconfig.MeshConfig_OutboundTrafficPolicy{Mode: meshconfig.MeshConfig_OutboundTrafficPolicy_REGISTRY_ONLY}
	}
	cg := core.NewConfigGenTest(t, core.TestOptions{Services: svcs, Configs: cfgs, MeshConfig: m})
	proxy := cg.SetupProxy(&model.Proxy{ConfigNamespace: "ns", DNSDomain: "ns.svc.cluster.local"})
	out := sidecarOut{RDS: map[string][]*route.VirtualHost{}}
	out.VHosts, _, _ = core.BuildSidecarOutboundVirtualHosts(proxy, cg.PushContext(), strconv.Itoa(sc.Port), sc.Port, nil, model.DisabledCache{})
	// one RDS request with all the names
	res, _ := cg.ConfigGen.BuildHTTPRoutes(proxy, &model.PushRequest{Push: cg.PushContext()}, sc.Features.RouteNames)
	for _, rsc := range res {
		rc := &route.RouteConfiguration{}
		if err := rsc.Resource.UnmarshalTo(rc); err != nil {
			panic(err)
		}
		out.RDS[rc.Name] = rc.VirtualHosts
	}
	return out
}

func vhostTerm(v *route.VirtualHost) string {
	return rec("Build_vhost", "vh_name", vlib.Str(v.Name), "vh_domains", strsTerm(v.Domains), "vh_routes", vlib.ListOf(v.Routes, routeTerm))
}

func genVhostCases(t *testing.T, c *vlib.Collector, id int, seed uint64) int {
	n := vlib.Scale(40, 1500)
	for i := 0; i < n; i++ {
		r := vlib.NewRand(seed*2000003 + uint64(i)*104729 + 5)
		sc := genScenario(r)
		ncases := 1 + len(sc.Features.RouteNames)
		wanted := false
		for k := 0; k < ncases; k++ {
			wanted = wanted || c.Wanted(id+k)
		}
		if !wanted {
			id += ncases
			continue
		}
		var out sidecarOut
		if p, msg := vlib.Recover(func() { out = runSidecar(t, sc) }); p {
			c.Violate(vlib.Violation{ID: id, Kind: "panic", Detail: msg, Case: sc})
			id += ncases
			continue
		}
		// requests: every service FQDN, every VirtualService host (wildcards instantiated), their case
		// variants, an unknown host, the alt-domain family of the Kubernetes services
		auths := []string{"unknown.example.org"}
		auths = append(auths, bWildInst...)
		for _, s := range bSvcPool {
			auths = append(auths, s.Host)
		}
		for _, v := range sc.VSs {
			for _, h := range v.Hosts {
				if strings.HasPrefix(h, "*") {
					auths = append(auths, "w"+h[1:])
				} else {
					auths = append(auths, h)
				}
			}
		}
		auths = append(auths, strings.ToUpper(sc.Svcs[0].Host))
		for _, s := range bSvcPool {
			if !strings.HasSuffix(s.Host, ".svc.cluster.local") {
				continue
			}
			parts := strings.Split(s.Host, ".")
			fam := []string{parts[0], parts[0] + "." + parts[1], parts[0] + "." + parts[1] + ".svc", s.Host + "."}
			for _, f := range fam {
				if r.Chance(50) {
					auths = append(auths, f)
				}
				if r.Chance(20) {
					auths = append(auths, f+":"+strconv.Itoa(sc.Port))
				}
			}
		}
		seen := map[string]bool{}
		var reqs []Request
		for _, a := range auths {
			if seen[a] {
				continue
			}
			seen[a] = true
			for _, p := range []string{"/x/1", "/y"} {
				if p == "/y" && r.Chance(50) {
					continue
				}
				q := Request{Path: p, Method: "GET", Authority: a, Scheme: "http"}
				if r.Chance(50) {
					q.Headers = [][2]string{{"x-a", vlib.Pick(r, []string{"v1", "v2"})}}
				}
				reqs = append(reqs, q)
			}
		}
		cx := Ctx{Port: sc.Port, NS: "ns", Gateways: []string{"mesh"}}
		cxT := ctxTerm(cx)
		svcT := vlib.ListOf(sc.Svcs, func(s Svc) string { return vlib.Pair(vlib.Str(s.Host), vlib.ListOf(s.Ports, vlib.NI)) })
		vsT := vlib.ListOf(sc.VSs, func(v VSpec) string { return vlib.Pair(strsTerm(v.Hosts), vlib.ListOf(v.Rules, ruleTerm)) })
		reqT := vlib.ListOf(reqs, reqTerm)
		tags := append(sc.Features.tags(), "B:vs-"+strconv.Itoa(len(sc.VSs)))
		fallback := "(Some (ADist [(Build_ckey 0%N \"\" \"PassthroughCluster\", 1%N)]))"
		if sc.Features.RegistryOnly {
			fallback = "(Some (ADirect 502%N None))"
		}
		emit := func(what string, vhosts []*route.VirtualHost, fb, force string, rq []Request, rqT string) {
			term := vlib.App("VHosts", vlib.NI(id), cxT, svcT, vsT, vlib.ListOf(vhosts, vhostTerm), fb, force, rqT)
			c.Add(vlib.Case{ID: id, Term: term, Tags: append(append([]string{}, tags...), "B:observe-"+what), Trivial: len(sc.VSs) == 0,
				Sample: map[string]any{"observe": what, "features": sc.Features, "scenario": sc, "requests": rq, "vhosts": len(vhosts)}})
			id++
		}
		// (1) the virtual hosts of the listener port
		emit("BuildSidecarOutboundVirtualHosts", out.VHosts, "None", "None", reqs, reqT)
		// (2) every route configuration of the one RDS request
		for _, name := range sc.Features.RouteNames {
			vh, ok := out.RDS[name]
			if !ok {
				c.Violate(vlib.Violation{ID: id, Kind: "oracle", Detail: "no RouteConfiguration for requested name " + name, Case: sc})
				id++
				continue
			}
			if strings.Contains(name, ":") {
				// sniffed route of one service: whatever the authority, the request is for that service
				few := reqs
				if len(few) > 12 {
					few = few[:12]
				}
				emit("rds-sniffed:"+name, vh, "None", "(Some "+vlib.Str(strings.Split(name, ":")[0])+")", few, vlib.ListOf(few, reqTerm))
			} else {
				emit("rds-port:"+name, vh, fallback, "None", reqs, reqT)
			}
		}
	}
	return id
}
