//go:build verif

package c11

import (
	"context"
	"fmt"
	"sort"
	"strings"
	"testing"

	core "github.com/envoyproxy/go-control-plane/envoy/config/core/v3"
	"google.golang.org/grpc/codes"
	"google.golang.org/grpc/status"

	"istio.io/istio/pilot/pkg/features"
	"istio.io/istio/pilot/pkg/model"
	"istio.io/istio/pilot/pkg/model/credentials"
	"istio.io/istio/pilot/pkg/xds"
	xdsfake "istio.io/istio/pilot/test/xds"
	"istio.io/istio/pkg/cluster"
	istiolog "istio.io/istio/pkg/log"
	"istio.io/istio/pkg/util/sets"
	"verif/harness/vlib"
)

// ---------------------------------------------------------------- vocabularies

var (
	clusterPool = []string{"c1", "c2"}
	nsPool      = []string{"a", "b", "istio-system"}
	saPool      = []string{"gw", "default"}
	namePool    = []string{"tls", "tls-cacert", "web", "ca-only", "web-cacert", "root"}
	schemes     = []string{"kubernetes://", "kubernetes-gateway://", "configmap://", "invalid://"}
	// near misses of the schemes and other things a client may send
	oddNames = []string{
		"", "default", "ROOTCA", "builtin://", "builtin://-cacert", "kubernetes:/tls", "Kubernetes://tls", "kubernetes//tls",
		"kubernetes://", "kubernetes:///tls", "kubernetes://a/", "kubernetes:///", "kubernetes://a//tls",
		"kubernetes-gateway://", "kubernetes-gateway://a", "kubernetes-gateway:///tls", "kubernetes-gateway://a/",
		"configmap://", "configmap://a", "configmap:///root", "configmap://a/", "invalid://", "invalid://a/tls",
		"file-cert:/etc/certs/cert.pem~/etc/certs/key.pem", "kubernetes-gateway:/a/tls", "kubernetes://../a/tls",
		" kubernetes://tls", "kubernetes://tls ", "kubernetes://a/tls/kubernetes/Secret/tls/a/c1/",
		"kubernetes://kubernetes-gateway://a/tls", "kubernetes-gateway://kubernetes://tls",
	}
)

// genName draws a resource name: mostly well-formed over the pools (so that it hits stored objects and
// other namespaces), sometimes with an extra path component or suffix, sometimes from the odd list.
func genName(r *vlib.Rand) string {
	if r.Chance(12) {
		return vlib.Pick(r, oddNames)
	}
	sch := schemes[[]int{0, 0, 0, 0, 1, 1, 1, 2, 2, 3}[r.Intn(10)]]
	name := vlib.Pick(r, namePool)
	if r.Chance(10) {
		name += "-cacert"
	}
	s := sch
	if sch != "kubernetes://" || r.Chance(45) {
		s += vlib.Pick(r, nsPool) + "/"
	}
	s += name
	// parsable-but-odd: extra path segments, so that the RAW text and the PARSED fields disagree (about the
	// -cacert suffix in particular: the parsed name is the second segment, the raw name ends with the last one)
	if r.Chance(14) {
		s += "/" + vlib.Pick(r, []string{"", "x", "tls", "a/b", "x-cacert", "-cacert", name + "-cacert", "/x-cacert", "x-cacert/"})
	}
	return s
}

func genWorld(r *vlib.Rand) *World {
	w := &World{Clusters: []string{"c1"}, ConfigCluster: "c1"}
	if r.Chance(50) {
		w.Clusters = []string{"c1", "c2"}
		if r.Chance(30) {
			w.ConfigCluster = "c2"
		}
	}
	if r.Chance(4) {
		w.ConfigCluster = "cfg-missing" // ForCluster(configCluster) fails
	}
	seen := map[string]bool{}
	n := 3 + r.Intn(8)
	for i := 0; i < n; i++ {
		s := Secret{Cluster: vlib.Pick(r, w.Clusters), Ns: vlib.Pick(r, nsPool), Name: vlib.Pick(r, namePool)}
		switch r.Intn(6) {
		case 0:
			s.CA = true
		case 1, 2:
			s.TLS, s.CA = true, true
		default:
			s.TLS = true
		}
		k := s.Cluster + "|" + s.Ns + "|" + s.Name
		if !seen[k] {
			seen[k] = true
			w.Secrets = append(w.Secrets, s)
		}
	}
	for i := r.Intn(3); i > 0; i-- {
		w.ConfigMaps = append(w.ConfigMaps, [2]string{vlib.Pick(r, nsPool), vlib.Pick(r, namePool)})
	}
	if r.Chance(12) {
		w.MeshPkp = 1 + r.Intn(2)
	}
	for _, c := range w.Clusters {
		for _, ns := range nsPool {
			for _, sa := range saPool {
				if r.Chance(45) {
					w.Authz = append(w.Authz, Authz{c, ns, sa})
				}
			}
		}
	}
	return w
}

func genProxy(r *vlib.Rand, w *World, names []string) *Proxy {
	p := &Proxy{Cluster: vlib.Pick(r, w.Clusters)}
	if r.Chance(5) {
		p.Cluster = "c9" // unknown to ForCluster
	}
	if !r.Chance(12) {
		p.Verified = &Ident{Td: "cluster.local", Ns: vlib.Pick(r, nsPool), Sa: vlib.Pick(r, saPool)}
	}
	// Metadata.ProxyConfig: usually sent without a provider, sometimes with one, sometimes not sent at all
	switch x := r.Intn(100); {
	case x < 60:
		p.Cfg = intp(0)
	case x < 82:
		p.Cfg = intp(1 + r.Intn(2))
	}
	if r.Chance(60) {
		refs := []string{}
		for _, n := range names {
			if r.Chance(35) {
				refs = append(refs, n)
			}
		}
		if r.Chance(30) {
			refs = append(refs, "kubernetes-gateway://"+vlib.Pick(r, nsPool)+"/"+vlib.Pick(r, namePool))
		}
		p.Refs = &refs
	}
	return p
}

func intp(k int) *int { return &k }

// effFmt is the provider toEnvoyTLSSecret will use for the proxy (own ProxyConfig, else the mesh default).
func effFmt(w *World, p *Proxy) int {
	if p.Cfg != nil {
		return *p.Cfg
	}
	return w.MeshPkp
}

func genCKey(r *vlib.Rand) CKey {
	k := CKey{CM: r.Chance(25), Name: vlib.Pick(r, namePool), Ns: vlib.Pick(r, nsPool)}
	if r.Chance(15) {
		k.Name += "-cacert"
	}
	return k
}

func genReq(r *vlib.Rand) Req {
	switch x := r.Intn(100); {
	case x < 4:
		return Req{Kind: 0}
	case x < 80:
		return Req{Kind: 1, Stores: !r.Chance(12)}
	default:
		q := Req{Kind: 2, Stores: !r.Chance(12), Noise: r.Chance(50)}
		for i := r.Intn(4); i > 0; i-- {
			q.Upd = append(q.Upd, genCKey(r))
		}
		return q
	}
}

func dedupSorted(xs []string) []string {
	m := map[string]bool{}
	out := []string{}
	for _, x := range xs {
		if !m[x] {
			m[x] = true
			out = append(out, x)
		}
	}
	sort.Strings(out)
	return out
}

// ---------------------------------------------------------------- running the real code

func runGenerate(gen *xds.SecretGen, o Op) ([]Entry, error) {
	wr := &model.WatchedResource{TypeUrl: "type.googleapis.com/envoy.extensions.transport_sockets.tls.v3.Secret", ResourceNames: sets.New(o.Names...)}
	res, _, err := gen.Generate(o.P.real(), wr, o.R.real())
	if err != nil {
		return nil, err
	}
	return decode(res)
}

func entriesTerm(es []Entry) string { return vlib.ListOf(es, entryTerm) }

type scenSample struct {
	World    *World
	Ops      []string
	Observed [][]Entry
	Fresh    [][]Entry
	Keys     [][]string
}

func TestGen(t *testing.T) {
	for _, s := range istiolog.Scopes() {
		s.SetOutputLevel(istiolog.NoneLevel)
	}
	c := vlib.NewCollector("C11", "V.C11.Run")
	c.Rule = "ident: first request of a stream (node id + metadata: namespace from ISTIO_META or the DNS domain, SA; SotW and delta) through the REAL DiscoveryServer.initConnection on a fake discovery server x credential identity lists (well-formed, foreign namespace/SA, malformed SPIFFE, nil list, empty list) ; observed = error class or the resulting proxy's ConfigNamespace/VerifiedIdentity, " +
		"identity check on and off; non-trivial = list non-nil and contains >=1 parsable identity. " +
		"parse: generated resource names (4 schemes x optional namespace x names, extra components, -cacert, near-miss and odd names) through credentials.ParseResourceName; non-trivial = parses. " +
		"filter: real parseResources + filterAuthorizedResources with a data-driven fake controller (Authorize outcome chosen per cluster/namespace/SA); non-trivial = >=1 resource denied and >=1 allowed. " +
		"scen: histories of 2-7 ops (Generate by 2-4 differently privileged proxies over a common pool of names, ClearAll, Clear(keys)) on one SecretGen with the real XdsCache, " +
		"each Generate repeated on a brand-new SecretGen (order-independence oracle); observable per response item: name, private key present, which stored object it came from; plus the key set of the real cache after every op; non-trivial = some response carries a private key and some proxy is denied a name another one received. " +
		"kauth: the real kube CredentialsController.Authorize on a fake client whose SubjectAccessReview reactor answers from a grant table that changes between calls; non-trivial = a (namespace, SA) is asked again after an RBAC change (cache path) or the history starts with an allowed identity followed by a denied one whose \"<ns>-<sa>\" concatenation is the same."
	seed := vlib.Seed()
	root := vlib.NewRand(seed*0x9e37 + 11)
	id := 0

	// ---- ident
	rI := root.Sub()
	goodOrBad := func(r *vlib.Rand) string {
		ns, sa := vlib.Pick(r, nsPool), vlib.Pick(r, saPool)
		switch x := r.Intn(100); {
		case x < 60:
			return "spiffe://cluster.local/ns/" + ns + "/sa/" + sa
		case x < 70:
			return "spiffe://other.td/ns/" + ns + "/sa/" + sa
		default:
			return vlib.Pick(r, []string{
				"", "spiffe://", "spiffe://cluster.local/ns/" + ns, "spiffe://cluster.local/ns/" + ns + "/sa/" + sa + "/x",
				"spiffe://cluster.local/nS/" + ns + "/sa/" + sa, "spiffe://cluster.local/ns/" + ns + "/SA/" + sa,
				"spiffe:/cluster.local/ns/" + ns + "/sa/" + sa, "SPIFFE://cluster.local/ns/" + ns + "/sa/" + sa,
				"cluster.local/ns/" + ns + "/sa/" + sa, "spiffe://cluster.local/ns//sa/", "spiffe://cluster.local/ns//sa/" + sa,
				"spiffe://cluster.local/ns/" + ns + "/sa/", "spiffe:///ns/" + ns + "/sa/" + sa, "spiffe://a/b/ns/" + ns + "/sa/" + sa,
				"spiffe://cluster.local/sa/" + sa + "/ns/" + ns, "https://accounts.google.com", ns + "/" + sa,
			})
		}
	}
	saved := features.EnableXDSIdentityCheck
	fds := xdsfake.NewFakeDiscoveryServer(t, xdsfake.FakeOptions{})
	fds.EnsureSynced(t)
	for i := 0; i < vlib.Scale(700, 6000); i++ {
		id++
		r := rI.Sub()
		if !c.Wanted(id) {
			continue
		}
		enable := !r.Chance(10)
		csa := vlib.Pick(r, saPool)
		if r.Chance(25) {
			csa = ""
		}
		// the claimed namespace: ISTIO_META namespace, else the leading label of the node id's DNS domain
		mns := vlib.Pick(r, nsPool)
		dns := vlib.Pick(r, nsPool) + ".svc.cluster.local"
		if r.Chance(30) {
			mns = ""
			if r.Chance(40) {
				dns = vlib.Pick(r, []string{"", "cluster", "a.", ".a", "a", "b.svc", "..", "istio-system"})
			}
		}
		var ids []string
		idsNil := r.Chance(8)
		parsable := 0
		if !idsNil {
			ids = []string{}
			for k := r.Intn(4); k > 0; k-- {
				s := goodOrBad(r)
				if strings.HasPrefix(s, "spiffe://") && strings.Count(s, "/") == 6 && strings.Contains(s, "/ns/") && strings.Contains(s, "/sa/") {
					parsable++
				}
				ids = append(ids, s)
			}
		}
		nodeID := "router~10.0.0.1~gw-1." + mns + "~" + dns
		if r.Chance(3) { // malformed node ids: wrong number of parts
			nodeID = vlib.Pick(r, []string{"router~10.0.0.1~gw-1.a", "router~10.0.0.1~gw-1.a~a.svc.cluster.local~x", "", "router"})
		}
		node := &core.Node{Id: nodeID, Metadata: model.NodeMetadata{Namespace: mns, ServiceAccount: csa}.ToStruct()}
		features.EnableXDSIdentityCheck = enable
		// the real connection setup on the fake discovery server: SotW and delta streams both go through initConnection
		var con *xds.Connection
		if i%2 == 0 {
			con = xds.VerifC05NewConnection(fds.Discovery, "", nil, &sotwStream{ctx: context.Background()}, nil)
		} else {
			con = xds.VerifC05NewConnection(fds.Discovery, "", nil, nil, &deltaStream{ctx: context.Background()})
		}
		var err error
		if pan, msg := vlib.Recover(func() { err = xds.VerifC05InitConnection(fds.Discovery, node, con, ids) }); pan {
			c.Violate(vlib.Violation{ID: id, Kind: "panic", Detail: msg, Case: map[string]any{"node": nodeID, "mns": mns, "csa": csa, "ids": ids}})
			continue
		}
		obs := "ConnDenied"
		cfgNs := ""
		tags := []string{"ident"}
		switch {
		case err == nil:
			p := con.Proxy()
			cfgNs = p.ConfigNamespace
			var v *Ident
			if p.VerifiedIdentity != nil {
				v = &Ident{p.VerifiedIdentity.TrustDomain, p.VerifiedIdentity.Namespace, p.VerifiedIdentity.ServiceAccount}
				tags = append(tags, "ident=verified")
			} else {
				tags = append(tags, "ident=accepted-unverified")
			}
			obs = vlib.App("ConnAccepted", S(cfgNs), identTerm(v))
			xds.VerifC05CloseConnection(fds.Discovery, con)
		case status.Code(err) == codes.PermissionDenied:
			tags = append(tags, "ident=denied")
		case status.Code(err) == codes.InvalidArgument:
			obs = "ConnInvalid"
			tags = append(tags, "ident=invalid-node")
		default:
			c.Violate(vlib.Violation{ID: id, Kind: "oracle", Detail: "initConnection failed unexpectedly: " + err.Error(),
				Case: map[string]any{"node": nodeID, "mns": mns, "csa": csa, "ids": ids}})
			continue
		}
		idsT := "None"
		if !idsNil {
			idsT = "(Some " + strList(ids) + ")"
		}
		c.Add(vlib.Case{ID: id, Term: vlib.App("Ident", vlib.NI(id), vlib.B(enable), S(nodeID), S(mns), S(csa), idsT, obs), Tags: tags,
			Sample:  map[string]any{"kind": "ident", "enable": enable, "node_id": nodeID, "meta_ns": mns, "config_ns": cfgNs, "csa": csa, "ids": ids, "nil": idsNil, "observed": obs},
			Trivial: idsNil || parsable == 0})
	}
	features.EnableXDSIdentityCheck = saved

	// ---- parse
	rP := root.Sub()
	for i := 0; i < vlib.Scale(700, 6000); i++ {
		id++
		r := rP.Sub()
		if !c.Wanted(id) {
			continue
		}
		rn := genName(r)
		if i < len(oddNames) {
			rn = oddNames[i]
		}
		pns, pcl, ccl := vlib.Pick(r, nsPool), vlib.Pick(r, clusterPool), vlib.Pick(r, clusterPool)
		sr, err := credentials.ParseResourceName(rn, pns, cluster.ID(pcl), cluster.ID(ccl))
		obs := "None"
		tags := []string{"parse"}
		if err == nil {
			obs = "(Some " + sresTerm(sr.ResourceType, sr.Name, sr.Namespace, sr.ResourceName, string(sr.Cluster)) + ")"
			tags = append(tags, "parse="+sr.ResourceType)
			if sr.ResourceType == "kubernetes" && sr.Namespace != pns {
				tags = append(tags, "parse=explicit-foreign-namespace")
			}
		} else {
			tags = append(tags, "parse=error")
		}
		c.Add(vlib.Case{ID: id, Term: vlib.App("Parse", vlib.NI(id), S(rn), S(pns), S(pcl), S(ccl), obs), Tags: tags,
			Sample: map[string]any{"kind": "parse", "name": rn, "proxy_ns": pns, "observed": obs}, Trivial: err != nil})
	}

	// private-key-provider hashes as the real code computes them
	probeGen, _, _ := newSecretGen(&World{Clusters: []string{"c1"}, ConfigCluster: "c1"})
	pkpHashes = [3]string{pkpHash(probeGen, intp(0)), pkpHash(probeGen, intp(1)), pkpHash(probeGen, intp(2))}
	if pkpHashes[0] != "" || pkpHash(probeGen, nil) != "" || pkpHashes[1] == "" || pkpHashes[2] == "" || pkpHashes[1] == pkpHashes[2] ||
		strings.Contains(pkpHashes[1]+pkpHashes[2], "/") {
		t.Fatalf("unexpected private key provider hashes %q", pkpHashes)
	}

	// ---- filter
	rF := root.Sub()
	for i := 0; i < vlib.Scale(300, 4000); i++ {
		id++
		r := rF.Sub()
		if !c.Wanted(id) {
			continue
		}
		w := genWorld(r)
		names := []string{}
		for k := 1 + r.Intn(7); k > 0; k-- {
			names = append(names, genName(r))
		}
		names = dedupSorted(names)
		p := genProxy(r, w, names)
		if p.Verified == nil {
			p.Verified = &Ident{"cluster.local", vlib.Pick(r, nsPool), vlib.Pick(r, saPool)}
		}
		if p.Cluster == "c9" {
			p.Cluster = w.Clusters[0]
		}
		gen, _, mc := newSecretGen(w)
		ctl := mc.ctls[p.Cluster]
		var parsed, passed []xds.VerifC11Parsed
		if pan, msg := vlib.Recover(func() {
			parsed = xds.VerifC11ParseResources(gen, names, p.real())
			passed = xds.VerifC11FilterAuthorized(gen, names, p.real(), ctl)
		}); pan {
			c.Violate(vlib.Violation{ID: id, Kind: "panic", Detail: msg, Case: map[string]any{"names": names, "proxy": p}})
			continue
		}
		if ctl.authCalls > 1 {
			c.Violate(vlib.Violation{ID: id, Kind: "oracle", Detail: fmt.Sprintf("Authorize called %d times for one filter pass", ctl.authCalls)})
		}
		st := func(x xds.VerifC11Parsed) string {
			return sresTerm(x.ResourceType, x.Name, x.Namespace, x.ResourceName, x.Cluster)
		}
		beginCase()
		term := endCase(vlib.App("Filter", vlib.NI(id), w.term(), p.term(), strList(names),
			vlib.ListOf(parsed, func(x xds.VerifC11Parsed) string { return vlib.Pair(st(x), S(x.CacheKey)) }),
			vlib.ListOf(passed, st)))
		tags := []string{"filter"}
		for _, x := range passed {
			tags = append(tags, "filter-allowed="+x.ResourceType)
		}
		if len(passed) < len(parsed) {
			tags = append(tags, "filter=some-denied")
		}
		c.Add(vlib.Case{ID: id, Term: term, Tags: tags,
			Sample:  map[string]any{"kind": "filter", "world": w, "proxy": p, "names": names, "passed": passed},
			Trivial: len(passed) == 0 || len(passed) == len(parsed)})
	}

	// ---- scenarios on a shared cache
	// execScen runs one history against a SecretGen with the real XdsCache and records the case
	execScen := func(id int, w *World, ops []Op, extraTags ...string) {
		gen, cache, _ := newSecretGen(w)
		var observed, fresh [][]Entry
		var keysets [][]string
		var failure string
		if pan, msg := vlib.Recover(func() {
			for _, o := range ops {
				switch o.Kind {
				case 0:
					es, err := runGenerate(gen, o)
					if err != nil {
						failure = err.Error()
						return
					}
					observed = append(observed, es)
					g2, _, _ := newSecretGen(w)
					fs, err := runGenerate(g2, o)
					if err != nil {
						failure = err.Error()
						return
					}
					fresh = append(fresh, fs)
				case 1:
					cache.ClearAll()
				case 2:
					ks := sets.New[model.ConfigKey]()
					for _, k := range o.Keys {
						ks.Insert(k.real())
					}
					cache.Clear(ks)
				}
				ks := []string{}
				for _, k := range cache.Keys(model.SDSType) {
					ks = append(ks, k.(string))
				}
				sort.Strings(ks)
				keysets = append(keysets, ks)
			}
		}); pan {
			c.Violate(vlib.Violation{ID: id, Kind: "panic", Detail: msg, Case: map[string]any{"world": w, "ops": ops}})
			return
		}
		if failure != "" {
			c.Violate(vlib.Violation{ID: id, Kind: "oracle", Detail: "Generate/decoding failed: " + failure, Case: map[string]any{"world": w, "ops": ops}})
			return
		}
		opPlain := make([]string, len(ops)) // readable rendering for the evidence / replay
		for j, o := range ops {
			opPlain[j] = o.term()
		}
		beginCase()
		opTerms := make([]string, len(ops))
		for j, o := range ops {
			opTerms[j] = o.term()
		}
		lists := func(xs [][]Entry) string {
			return vlib.ListOf(xs, func(es []Entry) string { return memo(entriesTerm(es)) })
		}
		term := endCase(vlib.App("Scen", vlib.NI(id), w.term(), vlib.List(opTerms), lists(observed), lists(fresh),
			vlib.ListOf(keysets, func(ks []string) string { return memo(strList(ks)) })))
		tags := append([]string{"scen", fmt.Sprintf("scen-ops=%d", len(ops))}, extraTags...)
		// the shape of the former finding (fixed by 31f7dc3): a mesh-default provider, one requester that
		// sends no ProxyConfig and one that sends a ProxyConfig without provider
		sawDefault, sawExplicitNone := false, false
		for _, o := range ops {
			if o.Kind != 0 || o.P.Verified == nil {
				continue
			}
			if o.P.Cfg == nil {
				sawDefault = true
			} else if *o.P.Cfg == 0 {
				sawExplicitNone = true
			}
		}
		if w.MeshPkp != 0 && sawDefault && sawExplicitNone {
			tags = append(tags, "scen=mesh-default-provider-vs-explicit-none")
		}
		anyKey, denied := false, false
		got := map[string]bool{}
		gi := 0
		for _, o := range ops {
			switch o.Kind {
			case 1:
				tags = append(tags, "op=clearall")
				continue
			case 2:
				tags = append(tags, "op=clear")
				continue
			}
			es := observed[gi]
			gi++
			tags = append(tags, fmt.Sprintf("req=%d", o.R.Kind))
			if o.P.Verified == nil {
				tags = append(tags, "proxy=unauthenticated")
			}
			have := map[string]bool{}
			for _, e := range es {
				have[e.Name] = true
				if e.TLS {
					anyKey = true
					got[e.Name] = true
					tags = append(tags, "item=key")
				} else {
					tags = append(tags, "item=ca")
				}
			}
			for _, n := range o.Names {
				if !have[n] && got[n] {
					denied = true
				}
			}
		}
		if denied {
			tags = append(tags, "scen=denied-after-other-received")
		}
		c.Add(vlib.Case{ID: id, Term: term, Tags: tags,
			Sample:  scenSample{World: w, Ops: opPlain, Observed: observed, Fresh: fresh, Keys: keysets},
			Trivial: !(anyKey && denied)})
	}

	// reproducers of the fixed finding C11-pkp-format-follows-first-requester, both orders and both providers:
	// ordinary cases now, a recurrence is a VIOLATION
	for i := 0; i < 4; i++ {
		id++
		if !c.Wanted(id) {
			continue
		}
		w := &World{Clusters: []string{"c1"}, ConfigCluster: "c1", Secrets: []Secret{{"c1", "a", "tls", true, false}},
			Authz: []Authz{{"c1", "a", "gw"}}, MeshPkp: 1 + i/2}
		noCfg := &Proxy{Verified: &Ident{"cluster.local", "a", "gw"}, Cluster: "c1"}
		plain := &Proxy{Verified: &Ident{"cluster.local", "a", "gw"}, Cluster: "c1", Cfg: intp(0)}
		order := []*Proxy{noCfg, plain}
		if i%2 == 1 {
			order = []*Proxy{plain, noCfg}
		}
		ops := []Op{}
		for _, p := range order {
			ops = append(ops, Op{Kind: 0, P: p, Names: []string{"kubernetes://tls"}, R: Req{Kind: 1, Stores: true}})
		}
		execScen(id, w, ops, "scen=fixed-finding-witness")
	}

	rS := root.Sub()
	for i := 0; i < vlib.Scale(520, 7000); i++ {
		id++
		r := rS.Sub()
		if !c.Wanted(id) {
			continue
		}
		w := genWorld(r)
		pool := []string{}
		for k := 1 + r.Intn(3); k > 0; k-- {
			pool = append(pool, genName(r))
		}
		// names that point at stored objects, so that private keys actually flow
		for k := 1 + r.Intn(4); k > 0 && len(w.Secrets) > 0; k-- {
			s := vlib.Pick(r, w.Secrets)
			switch r.Intn(7) {
			case 0, 1:
				pool = append(pool, "kubernetes://"+s.Name)
			case 2, 3:
				pool = append(pool, "kubernetes://"+s.Ns+"/"+s.Name)
			case 4:
				// three segments: parsed name = the stored secret, raw text ends in -cacert (or the reverse)
				pool = append(pool, vlib.Pick(r, []string{
					"kubernetes://" + s.Ns + "/" + s.Name + "/x-cacert",
					"kubernetes://" + s.Ns + "/" + s.Name + "/" + s.Name + "-cacert",
					"kubernetes://" + s.Ns + "/" + s.Name + "//-cacert",
					"kubernetes://" + s.Ns + "/" + s.Name + "-cacert/x",
					"kubernetes-gateway://" + s.Ns + "/" + s.Name + "/x-cacert",
				}))
			default:
				pool = append(pool, "kubernetes-gateway://"+s.Ns+"/"+s.Name)
			}
		}
		pool = dedupSorted(pool)
		proxies := []*Proxy{}
		// an anchor proxy living where a stored secret lives, usually authorised; then proxies that differ
		// from it in exactly one privilege-relevant respect (service account, namespace, references,
		// authentication, cluster), then random ones
		if len(w.Secrets) > 0 {
			s := vlib.Pick(r, w.Secrets)
			a := &Proxy{Verified: &Ident{"cluster.local", s.Ns, vlib.Pick(r, saPool)}, Cluster: s.Cluster, Cfg: intp(0)}
			if r.Chance(15) {
				a.Cfg = nil
			}
			if r.Chance(85) {
				w.Authz = append(w.Authz, Authz{s.Cluster, s.Ns, a.Verified.Sa})
			}
			if r.Chance(40) {
				refs := []string{}
				for _, n := range pool {
					if strings.HasPrefix(n, "kubernetes-gateway://") && r.Chance(70) {
						refs = append(refs, n)
					}
				}
				a.Refs = &refs
			}
			proxies = append(proxies, a)
			tw := *a
			v := *a.Verified
			tw.Verified = &v
			switch r.Intn(6) {
			case 0, 1:
				if v.Sa == saPool[0] {
					v.Sa = saPool[1]
				} else {
					v.Sa = saPool[0]
				}
			case 2, 3:
				for v.Ns == a.Verified.Ns {
					v.Ns = vlib.Pick(r, nsPool)
				}
			case 4:
				tw.Verified = nil
			default:
				tw.Refs = nil
				tw.Cluster = vlib.Pick(r, w.Clusters)
			}
			proxies = append(proxies, &tw)
		}
		for k := 1 + r.Intn(2); k > 0; k-- {
			proxies = append(proxies, genProxy(r, w, pool))
		}
		ops := []Op{}
		for k := 2 + r.Intn(6); k > 0; k-- {
			switch x := r.Intn(100); {
			case x < 6:
				ops = append(ops, Op{Kind: 1})
			case x < 14:
				o := Op{Kind: 2}
				for j := 1 + r.Intn(2); j > 0; j-- {
					o.Keys = append(o.Keys, genCKey(r))
				}
				ops = append(ops, o)
			default:
				o := Op{Kind: 0, P: vlib.Pick(r, proxies), R: genReq(r)}
				for _, n := range pool {
					if r.Chance(80) {
						o.Names = append(o.Names, n)
					}
				}
				if o.Names == nil {
					o.Names = []string{}
				}
				ops = append(ops, o)
			}
		}
		execScen(id, w, ops)
	}

	// ---- the real kube CredentialsController.Authorize against a fake SubjectAccessReview backend
	rK := root.Sub()
	// namespaces / service accounts whose concatenations collide across "-" (team-a + gw = team + a-gw,
	// istio + istio-ingressgateway = istio-istio + ingressgateway, a + -gw ...) and SA variants with ":" and "/";
	// namespaces stay colon-free (premise of C11_kube_cache_key_injective)
	kNs := []string{"team-a", "team", "istio", "istio-istio", "a", "a-"}
	kSa := []string{"gw", "a-gw", "istio-ingressgateway", "ingressgateway", "-gw", "b:gw", "a/gw", ""}
	type who struct{ ns, sa string }
	collide := [][2]who{
		{{"team-a", "gw"}, {"team", "a-gw"}},
		{{"istio", "istio-ingressgateway"}, {"istio-istio", "ingressgateway"}},
		{{"a-", "gw"}, {"a", "-gw"}},
		{{"team", "a-gw"}, {"team-a", "gw"}},
	}
	genGrants := func(r *vlib.Rand) []Grant {
		gs := []Grant{}
		for _, ns := range kNs {
			for _, sa := range kSa {
				if r.Chance(35) {
					gs = append(gs, Grant{ns, sa})
				}
			}
		}
		return gs
	}
	grantsTerm := func(gs []Grant) string {
		return vlib.ListOf(gs, func(g Grant) string { return vlib.Pair(S(g.Ns), S(g.Sa)) })
	}
	for i := 0; i < vlib.Scale(120, 1000); i++ {
		id++
		r := rK.Sub()
		if !c.Wanted(id) {
			continue
		}
		b := &sarBackend{grants: genGrants(r)}
		// half of the histories start with a colliding pair: the RBAC-allowed identity asks first, then the
		// denied one whose "<ns>-<sa>" reads the same
		var directed []who
		if r.Chance(50) {
			pr := vlib.Pick(r, collide)
			gs := []Grant{{pr[0].ns, pr[0].sa}}
			for _, g := range b.grants {
				if !(g.Ns == pr[1].ns && g.Sa == pr[1].sa) {
					gs = append(gs, g)
				}
			}
			b.grants = gs
			directed = []who{pr[0], pr[1]}
		}
		startedDirected := len(directed) > 0
		initial := b.grants
		ctl, _ := newKubeController(b)
		opTerms := []string{}
		obs := []bool{}
		calls, flips := 0, 0
		seen := map[string]bool{}
		repeatAfterChange := false
		changed := false
		if pan, msg := vlib.Recover(func() {
			for k := 4 + r.Intn(9); k > 0; k-- {
				if len(directed) == 0 && r.Chance(20) {
					b.grants = genGrants(r)
					opTerms = append(opTerms, vlib.App("KSet", grantsTerm(b.grants)))
					flips++
					changed = true
					continue
				}
				sa, ns := vlib.Pick(r, kSa), vlib.Pick(r, kNs)
				if len(directed) > 0 {
					sa, ns = directed[0].sa, directed[0].ns
					directed = directed[1:]
				}
				if changed && seen[ns+"|"+sa] {
					repeatAfterChange = true
				}
				seen[ns+"|"+sa] = true
				err := ctl.Authorize(sa, ns)
				calls++
				obs = append(obs, err == nil)
				opTerms = append(opTerms, vlib.App("KCall", S(sa), S(ns)))
			}
		}); pan {
			c.Violate(vlib.Violation{ID: id, Kind: "panic", Detail: msg})
			continue
		}
		if len(b.odd) > 0 {
			c.Violate(vlib.Violation{ID: id, Kind: "oracle", Detail: "SubjectAccessReview with unexpected attributes: " + b.odd[0]})
		}
		tags := []string{"kauth"}
		if startedDirected {
			tags = append(tags, "kauth=colliding-pair-first")
		}
		for _, o := range obs {
			if o {
				tags = append(tags, "kauth=allowed")
			} else {
				tags = append(tags, "kauth=denied")
			}
		}
		if repeatAfterChange {
			tags = append(tags, "kauth=repeat-after-rbac-change")
		}
		c.Add(vlib.Case{ID: id, Term: vlib.App("KAuth", vlib.NI(id), grantsTerm(initial), vlib.List(opTerms), vlib.ListOf(obs, vlib.B)), Tags: tags,
			Sample:  map[string]any{"kind": "kauth", "grants": initial, "ops": opTerms, "observed": obs, "reviews": b.reviews},
			Trivial: !(repeatAfterChange || startedDirected)})
	}

	if err := c.Flush(); err != nil {
		t.Fatal(err)
	}
}
