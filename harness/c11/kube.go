//go:build verif

package c11

import (
	"fmt"

	authorizationv1 "k8s.io/api/authorization/v1"
	"k8s.io/apimachinery/pkg/runtime"
	"k8s.io/client-go/kubernetes/fake"
	k8stesting "k8s.io/client-go/testing"

	kubecreds "istio.io/istio/pilot/pkg/credentials/kube"
	"istio.io/istio/pkg/kube"
)

// Grant = a (namespace, service account) pair whose RBAC allows "list secrets" in that namespace.
type Grant struct{ Ns, Sa string }

// sarBackend is the fake SubjectAccessReview backend: allowed iff the review asks exactly
// "may user system:serviceaccount:<ns>:<sa> list secrets in <ns>" for a granted pair.
type sarBackend struct {
	grants  []Grant
	reviews int
	odd     []string // reviews whose attributes are not the expected shape
}

func (b *sarBackend) react(action k8stesting.Action) (bool, runtime.Object, error) {
	a := action.(k8stesting.CreateAction).GetObject().(*authorizationv1.SubjectAccessReview)
	b.reviews++
	ra := a.Spec.ResourceAttributes
	allowed := false
	if ra == nil || ra.Verb != "list" || ra.Resource != "secrets" || ra.Group != "" || ra.Name != "" || ra.Subresource != "" {
		b.odd = append(b.odd, fmt.Sprintf("%+v", a.Spec))
	} else {
		for _, g := range b.grants {
			if a.Spec.User == "system:serviceaccount:"+g.Ns+":"+g.Sa && ra.Namespace == g.Ns {
				allowed = true
			}
		}
	}
	return true, &authorizationv1.SubjectAccessReview{Status: authorizationv1.SubjectAccessReviewStatus{Allowed: allowed, Reason: "fake rbac"}}, nil
}

// newKubeController builds the real CredentialsController on a fake kube client with the SAR reactor.
func newKubeController(b *sarBackend) (*kubecreds.CredentialsController, kube.Client) {
	client := kube.NewFakeClient()
	client.Kube().(*fake.Clientset).Fake.PrependReactor("create", "subjectaccessreviews", b.react)
	return kubecreds.NewCredentialsController(client, nil, true), client
}
