//go:build verif

package c11

import (
	"context"
	"errors"

	discovery "github.com/envoyproxy/go-control-plane/envoy/service/discovery/v3"
	"google.golang.org/grpc"
)

// fake gRPC streams for connections that are only initialised (nothing is received or pushed)
type sotwStream struct {
	grpc.ServerStream
	ctx context.Context
}

func (f *sotwStream) Send(*discovery.DiscoveryResponse) error    { return nil }
func (f *sotwStream) Recv() (*discovery.DiscoveryRequest, error) { return nil, errors.New("no recv") }
func (f *sotwStream) Context() context.Context                   { return f.ctx }

type deltaStream struct {
	grpc.ServerStream
	ctx context.Context
}

func (f *deltaStream) Send(*discovery.DeltaDiscoveryResponse) error { return nil }
func (f *deltaStream) Recv() (*discovery.DeltaDiscoveryRequest, error) {
	return nil, errors.New("no recv")
}
func (f *deltaStream) Context() context.Context { return f.ctx }
