//go:build verif

// Package c11: correspondence harness for property C11 (config and secrets are released only to the
// identity entitled to them).  world.go = the data-driven fake secrets backend, proxies, Gallina printers
// and the decoder of envoy tls Secrets.
package c11

import (
	"fmt"
	"sort"
	"strings"
	"time"

	cryptomb "github.com/envoyproxy/go-control-plane/contrib/envoy/extensions/private_key_providers/cryptomb/v3alpha"
	qat "github.com/envoyproxy/go-control-plane/contrib/envoy/extensions/private_key_providers/qat/v3alpha"
	envoytls "github.com/envoyproxy/go-control-plane/envoy/extensions/transport_sockets/tls/v3"
	discovery "github.com/envoyproxy/go-control-plane/envoy/service/discovery/v3"
	"google.golang.org/protobuf/types/known/durationpb"

	meshconfig "istio.io/api/mesh/v1alpha1"
	credscontroller "istio.io/istio/pilot/pkg/credentials"
	"istio.io/istio/pilot/pkg/model"
	"istio.io/istio/pilot/pkg/xds"
	"istio.io/istio/pkg/cluster"
	"istio.io/istio/pkg/config/mesh"
	"istio.io/istio/pkg/config/schema/kind"
	"istio.io/istio/pkg/spiffe"
	"istio.io/istio/pkg/util/sets"
	"verif/harness/vlib"
)

// ---------------------------------------------------------------- world = content of the fake backend

type Secret struct {
	Cluster, Ns, Name string
	TLS, CA           bool
}

type Authz struct{ Cluster, Ns, Sa string }

type World struct {
	Clusters      []string
	ConfigCluster string
	Secrets       []Secret
	ConfigMaps    [][2]string // ns, name
	Authz         []Authz
	MeshPkp       int // meshConfig.DefaultConfig.PrivateKeyProvider: 0 none, 1 cryptomb, 2 qat
}

func (w *World) find(cl, ns, name string) *Secret {
	for i := range w.Secrets {
		s := &w.Secrets[i]
		if s.Cluster == cl && s.Ns == ns && s.Name == name {
			return s
		}
	}
	return nil
}

// fakeCtl is the credscontroller.Controller of one cluster.  Its answers are a pure function of the
// World; certificate/key bytes name the object they came from ("KEY|cluster|ns|name").
type fakeCtl struct {
	w         *World
	cl        string
	authCalls int
}

var _ credscontroller.Controller = &fakeCtl{}

func mark(kind, cl, ns, name string) []byte { return []byte(kind + "|" + cl + "|" + ns + "|" + name) }

func (f *fakeCtl) GetCertInfo(name, ns string) (*credscontroller.CertInfo, error) {
	s := f.w.find(f.cl, ns, name)
	if s == nil || !s.TLS {
		return nil, fmt.Errorf("secret %v/%v not found", ns, name)
	}
	return &credscontroller.CertInfo{Cert: mark("CERT", f.cl, ns, name), Key: mark("KEY", f.cl, ns, name)}, nil
}

func (f *fakeCtl) GetCaCert(name, ns string) (*credscontroller.CertInfo, error) {
	s := f.w.find(f.cl, ns, name)
	if s == nil {
		name = strings.TrimSuffix(name, "-cacert")
		s = f.w.find(f.cl, ns, name)
	}
	if s == nil || !s.CA {
		return nil, fmt.Errorf("secret %v/%v not found", ns, name)
	}
	return &credscontroller.CertInfo{Cert: mark("CA", f.cl, ns, name)}, nil
}

func (f *fakeCtl) GetConfigMapCaCert(name, ns string) (*credscontroller.CertInfo, error) {
	stripped := strings.TrimSuffix(name, "-cacert")
	if f.cl != f.w.ConfigCluster {
		return nil, fmt.Errorf("configmap access not enabled for remote clusters")
	}
	for _, cm := range f.w.ConfigMaps {
		if cm[0] == ns && cm[1] == stripped {
			return &credscontroller.CertInfo{Cert: mark("CA", f.cl, ns, stripped)}, nil
		}
	}
	return nil, fmt.Errorf("configmap %v/%v not found", ns, stripped)
}

func (f *fakeCtl) GetDockerCredential(name, ns string) ([]byte, error) {
	return nil, fmt.Errorf("not modelled")
}

func (f *fakeCtl) Authorize(serviceAccount, namespace string) error {
	f.authCalls++
	for _, a := range f.w.Authz {
		if a.Cluster == f.cl && a.Ns == namespace && a.Sa == serviceAccount {
			return nil
		}
	}
	return fmt.Errorf("%s/%s is not authorized to read secrets", serviceAccount, namespace)
}

type fakeMC struct {
	w    *World
	ctls map[string]*fakeCtl
}

var _ credscontroller.MulticlusterController = &fakeMC{}

func newFakeMC(w *World) *fakeMC {
	m := &fakeMC{w: w, ctls: map[string]*fakeCtl{}}
	for _, c := range w.Clusters {
		m.ctls[c] = &fakeCtl{w: w, cl: c}
	}
	return m
}

func (m *fakeMC) ForCluster(c cluster.ID) (credscontroller.Controller, error) {
	if ctl, ok := m.ctls[string(c)]; ok {
		return ctl, nil
	}
	return nil, fmt.Errorf("cluster %v not found", c)
}
func (m *fakeMC) AddSecretHandler(func(k kind.Kind, name, namespace string)) {}

func pkpConfig(k int) *meshconfig.PrivateKeyProvider {
	switch k {
	case 1:
		return &meshconfig.PrivateKeyProvider{Provider: &meshconfig.PrivateKeyProvider_Cryptomb{Cryptomb: &meshconfig.PrivateKeyProvider_CryptoMb{
			PollDelay: &durationpb.Duration{Nanos: 10000}}}}
	case 2:
		return &meshconfig.PrivateKeyProvider{Provider: &meshconfig.PrivateKeyProvider_Qat{Qat: &meshconfig.PrivateKeyProvider_QAT{
			PollDelay: &durationpb.Duration{Nanos: 20000}}}}
	}
	return nil
}

func newSecretGen(w *World) (*xds.SecretGen, model.XdsCache, *fakeMC) {
	mc := newFakeMC(w)
	cache := model.NewXdsCache()
	mcfg := mesh.DefaultMeshConfig()
	mcfg.DefaultConfig.PrivateKeyProvider = pkpConfig(w.MeshPkp)
	return xds.NewSecretGen(mc, cache, cluster.ID(w.ConfigCluster), mcfg), cache, mc
}

// ---------------------------------------------------------------- proxies

type Ident struct{ Td, Ns, Sa string }

type Proxy struct {
	Verified *Ident
	Cluster  string
	Cfg      *int      // Metadata.ProxyConfig: nil = not sent; else its private key provider: 0 none, 1 cryptomb, 2 qat
	Refs     *[]string // nil = no MergedGateway
}

func (p *Proxy) real() *model.Proxy {
	mp := &model.Proxy{
		ID:       "p",
		Type:     model.Router,
		Metadata: &model.NodeMetadata{ClusterID: cluster.ID(p.Cluster)},
	}
	if p.Verified != nil {
		mp.VerifiedIdentity = &spiffe.Identity{TrustDomain: p.Verified.Td, Namespace: p.Verified.Ns, ServiceAccount: p.Verified.Sa}
		mp.ConfigNamespace = p.Verified.Ns
	}
	if p.Cfg != nil {
		mp.Metadata.ProxyConfig = &model.NodeMetaProxyConfig{PrivateKeyProvider: pkpConfig(*p.Cfg)}
	}
	if p.Refs != nil {
		mp.MergedGateway = &model.MergedGateway{VerifiedCertificateReferences: sets.New(*p.Refs...)}
	}
	return mp
}

// pkpHash asks the real parseResources for the cache-key suffix of a proxy's private-key-provider
// configuration (an xxhash of the proto text; the model treats it as an opaque "/"-free token).
func pkpHash(gen *xds.SecretGen, cfg *int) string {
	p := Proxy{Verified: &Ident{"td", "probe", "probe"}, Cluster: "probe", Cfg: cfg}
	rs := xds.VerifC11ParseResources(gen, []string{"kubernetes://probe"}, p.real())
	k := rs[0].CacheKey
	return k[strings.LastIndex(k, "/")+1:]
}

// ---------------------------------------------------------------- requests and ops

type CKey struct {
	CM       bool
	Name, Ns string
}

type Req struct {
	Kind   int // 0 nil, 1 forced, 2 incremental
	Stores bool
	Upd    []CKey
	Noise  bool // incremental: also carries a key of an unrelated kind
}

func (r Req) real() *model.PushRequest {
	if r.Kind == 0 {
		return nil
	}
	pr := &model.PushRequest{Forced: r.Kind == 1}
	if r.Stores {
		pr.Start = time.Now()
	}
	if r.Kind == 2 {
		pr.ConfigsUpdated = sets.New[model.ConfigKey]()
		for _, k := range r.Upd {
			pr.ConfigsUpdated.Insert(k.real())
		}
		if r.Noise {
			pr.ConfigsUpdated.Insert(model.ConfigKey{Kind: kind.VirtualService, Name: "tls", Namespace: "a"})
		}
	}
	return pr
}

func (k CKey) real() model.ConfigKey {
	kd := kind.Secret
	if k.CM {
		kd = kind.ConfigMap
	}
	return model.ConfigKey{Kind: kd, Name: k.Name, Namespace: k.Ns}
}

type Op struct {
	Kind  int // 0 generate, 1 clear all, 2 clear keys
	P     *Proxy
	Names []string
	R     Req
	Keys  []CKey
}

// ---------------------------------------------------------------- observation

type Entry struct {
	Name string
	TLS  bool // carries private key material
	Fmt  int  // where the key sits: 0 inline, 1 cryptomb provider, 2 qat provider
	Src  [3]string
}

func parseMark(b []byte, want string) ([3]string, error) {
	parts := strings.Split(string(b), "|")
	if len(parts) != 4 || parts[0] != want {
		return [3]string{}, fmt.Errorf("unexpected %s bytes %q", want, string(b))
	}
	return [3]string{parts[1], parts[2], parts[3]}, nil
}

// decode turns the resources of an SDS response into entries, sorted by name.  Private key material is
// looked for in every place toEnvoyTLSSecret may put it (inline, cryptomb, qat).
func decode(rs model.Resources) ([]Entry, error) {
	out := []Entry{}
	for _, r := range rs {
		out2, err := decodeOne(r)
		if err != nil {
			return nil, err
		}
		out = append(out, out2)
	}
	sort.SliceStable(out, func(i, j int) bool { return out[i].Name < out[j].Name })
	return out, nil
}

func decodeOne(r *discovery.Resource) (Entry, error) {
	sec := &envoytls.Secret{}
	if err := r.Resource.UnmarshalTo(sec); err != nil {
		return Entry{}, err
	}
	if sec.Name != r.Name {
		return Entry{}, fmt.Errorf("resource name %q != secret name %q", r.Name, sec.Name)
	}
	e := Entry{Name: r.Name}
	if vc := sec.GetValidationContext(); vc != nil {
		src, err := parseMark(vc.GetTrustedCa().GetInlineBytes(), "CA")
		if err != nil {
			return e, err
		}
		e.Src = src
		return e, nil
	}
	tc := sec.GetTlsCertificate()
	if tc == nil {
		return e, fmt.Errorf("secret %q has neither validation context nor tls certificate", r.Name)
	}
	var key []byte
	if pk := tc.GetPrivateKey(); pk != nil {
		key = pk.GetInlineBytes()
	} else if pkp := tc.GetPrivateKeyProvider(); pkp != nil {
		switch pkp.ProviderName {
		case "cryptomb":
			m := &cryptomb.CryptoMbPrivateKeyMethodConfig{}
			if err := pkp.GetTypedConfig().UnmarshalTo(m); err != nil {
				return e, err
			}
			key = m.GetPrivateKey().GetInlineBytes()
			e.Fmt = 1
		case "qat":
			m := &qat.QatPrivateKeyMethodConfig{}
			if err := pkp.GetTypedConfig().UnmarshalTo(m); err != nil {
				return e, err
			}
			key = m.GetPrivateKey().GetInlineBytes()
			e.Fmt = 2
		default:
			return e, fmt.Errorf("unknown private key provider %q", pkp.ProviderName)
		}
	}
	if len(key) == 0 {
		// a tls_certificate without key material: report the certificate's origin as public data
		src, err := parseMark(tc.GetCertificateChain().GetInlineBytes(), "CERT")
		if err != nil {
			return e, err
		}
		e.Src = src
		return e, nil
	}
	src, err := parseMark(key, "KEY")
	if err != nil {
		return e, err
	}
	csrc, err := parseMark(tc.GetCertificateChain().GetInlineBytes(), "CERT")
	if err != nil {
		return e, err
	}
	if csrc != src {
		return e, fmt.Errorf("certificate of %v with key of %v", csrc, src)
	}
	e.TLS, e.Src = true, src
	return e, nil
}

// ---------------------------------------------------------------- Gallina printers (positional constructors)

// pkpHashes[k] = the cache-key suffix the real parseResources computes for provider kind k
// (xxhash of the proto text; the model treats the two non-empty ones as opaque "/"-free tokens).
var pkpHashes [3]string

var pkpNames = [3]string{"PNone", "PCryptomb", "PQat"}

// binder shortens case terms: every distinct string literal (and every repeated sub-term handed to
// memo) of one case is bound once with `let` and referred to by a variable afterwards.
type binder struct {
	defs []string
	idx  map[string]string
}

var cur *binder

func beginCase() { cur = &binder{idx: map[string]string{}} }

// endCase wraps body into the accumulated lets.
func endCase(body string) string {
	b := cur
	cur = nil
	if b == nil || len(b.defs) == 0 {
		return body
	}
	return "(" + strings.Join(b.defs, " ") + " " + body + ")"
}

func (b *binder) bind(key, term string) string {
	if v, ok := b.idx[key]; ok {
		return v
	}
	v := fmt.Sprintf("v%d", len(b.defs))
	b.idx[key] = v
	b.defs = append(b.defs, "let "+v+" := "+term+" in")
	return v
}

// S prints a string (through the current case's binder if there is one).
func S(s string) string {
	if cur == nil {
		return vlib.Str(s)
	}
	return cur.bind("s:"+s, vlib.Str(s))
}

// memo binds a composite sub-term that is likely to repeat within the case.
func memo(term string) string {
	if cur == nil || len(term) < 12 {
		return term
	}
	return cur.bind("t:"+term, term)
}

func strList(xs []string) string { return vlib.ListOf(xs, S) }

func (w *World) term() string {
	return vlib.App("Build_world",
		strList(w.Clusters), S(w.ConfigCluster),
		vlib.ListOf(w.Secrets, func(s Secret) string {
			return vlib.App("Build_secret", S(s.Cluster), S(s.Ns), S(s.Name), vlib.B(s.TLS), vlib.B(s.CA))
		}),
		vlib.ListOf(w.ConfigMaps, func(c [2]string) string { return vlib.Pair(S(c[0]), S(c[1])) }),
		vlib.ListOf(w.Authz, func(a Authz) string { return "(" + S(a.Cluster) + ", " + S(a.Ns) + ", " + S(a.Sa) + ")" }),
		pkpNames[w.MeshPkp], S(pkpHashes[1]), S(pkpHashes[2]))
}

func identTerm(i *Ident) string {
	if i == nil {
		return "None"
	}
	return "(Some " + vlib.App("Build_identity", S(i.Td), S(i.Ns), S(i.Sa)) + ")"
}

func (p *Proxy) term() string {
	refs := "None"
	if p.Refs != nil {
		refs = "(Some " + strList(*p.Refs) + ")"
	}
	cfg := "None"
	if p.Cfg != nil {
		cfg = "(Some " + pkpNames[*p.Cfg] + ")"
	}
	return memo(vlib.App("Build_proxy", identTerm(p.Verified), S(p.Cluster), cfg, refs))
}

func ckeyTerm(k CKey) string { return vlib.App("Build_ckey", vlib.B(k.CM), S(k.Name), S(k.Ns)) }

func (r Req) term() string {
	switch r.Kind {
	case 0:
		return "RNil"
	case 1:
		return vlib.App("RForced", vlib.B(r.Stores))
	}
	return vlib.App("RUpd", vlib.B(r.Stores), vlib.ListOf(r.Upd, ckeyTerm))
}

func (o Op) term() string {
	switch o.Kind {
	case 0:
		return vlib.App("OGen", o.P.term(), strList(o.Names), o.R.term())
	case 1:
		return "OClearAll"
	}
	return vlib.App("OClear", vlib.ListOf(o.Keys, ckeyTerm))
}

func srcTerm(s [3]string) string { return memo("(" + S(s[0]) + ", " + S(s[1]) + ", " + S(s[2]) + ")") }

func entryTerm(e Entry) string {
	if e.TLS {
		return vlib.Pair(S(e.Name), vlib.App("CTls", srcTerm(e.Src), pkpNames[e.Fmt]))
	}
	return vlib.Pair(S(e.Name), vlib.App("CCa", srcTerm(e.Src)))
}

var rtypeNames = map[string]string{"kubernetes": "TKube", "configmap": "TConfigMap", "kubernetes-gateway": "TGateway", "invalid": "TInvalid"}

func sresTerm(t, name, ns, rn, cl string) string {
	ty, ok := rtypeNames[t]
	if !ok {
		ty = "TInvalid" // with a name that the model never produces, so the mismatch is visible
		name = "?unknown-type:" + t
	}
	return vlib.App("Build_sres", ty, S(name), S(ns), S(rn), S(cl))
}
