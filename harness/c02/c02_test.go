//go:build verif

// Correspondence harness for C02: drives the REAL PushRequest.Merge/CopyMerge, PushQueue, debounce and
// doSendPushes from /repo and prints what it observed as Gallina terms for coq/C02/Run.v.
package c02

import (
	"context"
	"errors"
	"fmt"
	"reflect"
	"sort"
	"sync"
	"testing"
	"time"

	core "github.com/envoyproxy/go-control-plane/envoy/config/core/v3"
	discovery "github.com/envoyproxy/go-control-plane/envoy/service/discovery/v3"
	"go.uber.org/atomic"

	"istio.io/istio/pilot/pkg/model"
	"istio.io/istio/pilot/pkg/util/protoconv"
	pxds "istio.io/istio/pilot/pkg/xds"
	"istio.io/istio/pkg/config/schema/kind"
	"istio.io/istio/pkg/util/sets"
	"verif/harness/vlib"
)

// ---------------------------------------------------------------- interning

// config keys: bit i <-> cfgKeys[i]; bits 0..2 are kind.Endpoints (eds_mask = 7)
var cfgKeys = []model.ConfigKey{
	{Kind: kind.Endpoints, Name: "e0", Namespace: "ns1"},
	{Kind: kind.Endpoints, Name: "e1", Namespace: "ns1"},
	{Kind: kind.Endpoints, Name: "e0", Namespace: "ns2"},
	{Kind: kind.VirtualService, Name: "vs", Namespace: "ns1"},
	{Kind: kind.DestinationRule, Name: "dr", Namespace: "ns1"},
	{Kind: kind.ServiceEntry, Name: "se.example.com", Namespace: "ns2"},
	{Kind: kind.Address, Name: "ns1/10.0.0.1", Namespace: "ns1"},
	{Kind: kind.Secret, Name: "s", Namespace: "istio-system"},
}

const edsMask = 7

var addrKeys = []string{"ns1/10.0.0.1", "ns1/10.0.0.2", "cluster0//Pod/ns/a", "", "x"}
var wpKeys = []model.WaypointReference{
	{Namespace: "ns1", Hostname: "wp.ns1.svc.cluster.local"},
	{Network: "n1", Address: "10.1.1.1"},
	{Namespace: "ns2", Hostname: "wp.ns2.svc.cluster.local"},
	{},
}

// reasons: id 0 must be model.UnknownTrigger (Model.unknown_reason)
var reasonKeys = []model.TriggerReason{
	model.UnknownTrigger, model.EndpointUpdate, model.ConfigUpdate, model.ServiceUpdate,
	model.ProxyUpdate, model.GlobalUpdate, model.SecretTrigger, model.TriggerReason("custom"),
}

var pushCtxs = []*model.PushContext{{}, {}, {}, {}, {}}

func init() {
	for i, p := range pushCtxs {
		p.PushVersion = fmt.Sprintf("v%d", i)
	}
}

func indexOf[T comparable](xs []T, x T) int {
	for i, y := range xs {
		if x == y {
			return i
		}
	}
	panic(fmt.Sprintf("c02 harness: value %v outside the interned universe", x))
}

func setBits[T comparable](univ []T, s sets.Set[T]) uint64 {
	var b uint64
	for k := range s {
		b |= 1 << uint(indexOf(univ, k))
	}
	return b
}

func mkSet[T comparable](univ []T, bits uint64) sets.Set[T] {
	s := sets.New[T]()
	for i := range univ {
		if bits&(1<<uint(i)) != 0 {
			s.Insert(univ[i])
		}
	}
	return s
}

// ---------------------------------------------------------------- deep values

type kv struct{ K, V uint64 }

// val is the deep value of a PushRequest (Model.req).
type val struct {
	Cfg, Addr, Wp                   uint64
	CfgNil, AddrNil, WpNil, ReasNil bool
	Reason                          []kv
	Push                            int // -1 = nil
	Start                           int64
	Forced                          bool
}

func valueOf(r *model.PushRequest) val {
	v := val{
		Cfg: setBits(cfgKeys, r.ConfigsUpdated), CfgNil: r.ConfigsUpdated == nil,
		Addr: setBits(addrKeys, r.AddressesUpdated), AddrNil: r.AddressesUpdated == nil,
		Wp: setBits(wpKeys, r.WaypointsUpdated), WpNil: r.WaypointsUpdated == nil,
		ReasNil: r.Reason == nil, Push: -1, Start: r.Start.Unix(), Forced: r.Forced,
	}
	for k, c := range r.Reason {
		v.Reason = append(v.Reason, kv{uint64(indexOf(reasonKeys, k)), uint64(c)})
	}
	sort.Slice(v.Reason, func(i, j int) bool { return v.Reason[i].K < v.Reason[j].K })
	if r.Push != nil {
		v.Push = indexOf(pushCtxs, r.Push)
	}
	return v
}

func oset(isNil bool, b uint64) string { return vlib.Opt(!isNil, vlib.N(b)) }

func (v val) term() string {
	reason := "None"
	if !v.ReasNil {
		reason = "(Some " + vlib.ListOf(v.Reason, func(p kv) string { return vlib.Pair(vlib.N(p.K), vlib.N(p.V)) }) + ")"
	}
	return vlib.App("mkReq", oset(v.CfgNil, v.Cfg), oset(v.AddrNil, v.Addr), oset(v.WpNil, v.Wp), reason,
		vlib.Opt(v.Push >= 0, vlib.NI(v.Push)), vlib.N(uint64(v.Start)), vlib.B(v.Forced))
}

func optReqTerm(r *model.PushRequest) string {
	if r == nil {
		return "None"
	}
	return "(Some " + valueOf(r).term() + ")"
}

func (v val) eq(w val) bool { return reflect.DeepEqual(v, w) }

func (v val) reasonCount() uint64 {
	var n uint64
	for _, p := range v.Reason {
		n += p.V
	}
	return n
}

// ---------------------------------------------------------------- request generator (free-standing requests)

type genOpts struct {
	onePerReason bool // exactly one reason count (or none): used by debounce so that Reason.Count() = #events
	alwaysPush   bool // Push is always set (what every real Enqueue caller does)
	edsBias      bool
}

func genReq(r *vlib.Rand, o genOpts) *model.PushRequest {
	pr := &model.PushRequest{Start: time.Unix(int64(1+r.Intn(50)), 0), Forced: r.Chance(25)}
	switch r.Intn(10) {
	case 0: // nil
	case 1:
		pr.ConfigsUpdated = sets.New[model.ConfigKey]()
	default:
		b := r.U64() & 0xff
		if o.edsBias && r.Chance(50) {
			b &= edsMask
		}
		if r.Chance(40) {
			b &= 1 << uint(r.Intn(8))
		}
		pr.ConfigsUpdated = mkSet(cfgKeys, b)
	}
	switch r.Intn(6) {
	case 0, 1, 2:
	case 3:
		pr.AddressesUpdated = sets.New[string]()
	default:
		pr.AddressesUpdated = mkSet(addrKeys, r.U64()&0x1f)
	}
	switch r.Intn(6) {
	case 0, 1, 2, 3:
	case 4:
		pr.WaypointsUpdated = sets.New[model.WaypointReference]()
	default:
		pr.WaypointsUpdated = mkSet(wpKeys, r.U64()&0xf)
	}
	switch {
	case o.onePerReason:
		switch r.Intn(6) {
		case 0:
		case 1:
			pr.Reason = model.ReasonStats{}
		default:
			pr.Reason = model.NewReasonStats(reasonKeys[r.Intn(len(reasonKeys))])
		}
	default:
		switch r.Intn(6) {
		case 0:
		case 1:
			pr.Reason = model.ReasonStats{}
		default:
			pr.Reason = model.ReasonStats{}
			for i, n := 0, 1+r.Intn(3); i < n; i++ {
				pr.Reason[reasonKeys[r.Intn(len(reasonKeys))]] += 1 + r.Intn(3)
			}
		}
	}
	if o.alwaysPush || r.Chance(60) {
		pr.Push = pushCtxs[r.Intn(len(pushCtxs))]
	}
	return pr
}

func clone(pr *model.PushRequest) *model.PushRequest {
	c := *pr
	if pr.ConfigsUpdated != nil {
		c.ConfigsUpdated = pr.ConfigsUpdated.Copy()
	}
	if pr.AddressesUpdated != nil {
		c.AddressesUpdated = pr.AddressesUpdated.Copy()
	}
	if pr.WaypointsUpdated != nil {
		c.WaypointsUpdated = pr.WaypointsUpdated.Copy()
	}
	if pr.Reason != nil {
		c.Reason = model.ReasonStats{}
		for k, v := range pr.Reason {
			c.Reason[k] = v
		}
	}
	return &c
}

// ---------------------------------------------------------------- heap cases (Merge / CopyMerge with sharing)

func mapPtr(m any) uintptr {
	v := reflect.ValueOf(m)
	if v.IsNil() {
		return 0
	}
	return v.Pointer()
}

type canon struct{ seen []uintptr }

func (c *canon) id(p uintptr) string {
	if p == 0 {
		return "None"
	}
	for i, q := range c.seen {
		if p == q {
			return "(Some " + vlib.NI(i) + ")"
		}
	}
	c.seen = append(c.seen, p)
	return "(Some " + vlib.NI(len(c.seen)-1) + ")"
}

// viewOf prints Run.view of the cells: deep values + canonical map identities.
func viewOf(cells []*model.PushRequest) string {
	var ss, rs canon
	out := make([]string, len(cells))
	for i, c := range cells {
		ids := []string{ss.id(mapPtr(c.ConfigsUpdated)), ss.id(mapPtr(c.AddressesUpdated)), ss.id(mapPtr(c.WaypointsUpdated)), rs.id(mapPtr(c.Reason))}
		out[i] = vlib.Pair(valueOf(c).term(), vlib.List(ids))
	}
	return vlib.List(out)
}

func optNat(i int) string {
	if i < 0 {
		return "None"
	}
	return "(Some " + vlib.Nat(i) + ")"
}

// genHeap builds cells that may share maps; returns the cells and the Model.heap term.
func genHeap(r *vlib.Rand, n int, alwaysPush bool) ([]*model.PushRequest, string) {
	var cfgMaps []sets.Set[model.ConfigKey]
	var addrMaps []sets.Set[string]
	var wpMaps []sets.Set[model.WaypointReference]
	var reasonMaps []model.ReasonStats
	var setStore []uint64  // model hsets, one global numbering
	var cfgIdx, addrIdx, wpIdx []int
	var rmapStore [][]kv
	cells := make([]*model.PushRequest, n)
	terms := make([]string, n)
	share := r.Intn(100) < 45
	for i := 0; i < n; i++ {
		pr := &model.PushRequest{Start: time.Unix(int64(1+r.Intn(50)), 0), Forced: r.Chance(30)}
		if alwaysPush || r.Chance(60) {
			pr.Push = pushCtxs[r.Intn(len(pushCtxs))]
		}
		ci, ai, wi, ri := -1, -1, -1, -1
		// cfg
		switch k := r.Intn(10); {
		case k < 2:
		case share && len(cfgMaps) > 0 && k < 5:
			j := r.Intn(len(cfgMaps))
			pr.ConfigsUpdated, ci = cfgMaps[j], cfgIdx[j]
		default:
			b := r.U64() & 0xff
			if k == 9 {
				b = 0
			}
			m := mkSet(cfgKeys, b)
			cfgMaps, cfgIdx, setStore = append(cfgMaps, m), append(cfgIdx, len(setStore)), append(setStore, b)
			pr.ConfigsUpdated, ci = m, len(setStore)-1
		}
		switch k := r.Intn(10); {
		case k < 4:
		case share && len(addrMaps) > 0 && k < 6:
			j := r.Intn(len(addrMaps))
			pr.AddressesUpdated, ai = addrMaps[j], addrIdx[j]
		default:
			b := r.U64() & 0x1f
			if k == 9 {
				b = 0
			}
			m := mkSet(addrKeys, b)
			addrMaps, addrIdx, setStore = append(addrMaps, m), append(addrIdx, len(setStore)), append(setStore, b)
			pr.AddressesUpdated, ai = m, len(setStore)-1
		}
		switch k := r.Intn(10); {
		case k < 5:
		case share && len(wpMaps) > 0 && k < 7:
			j := r.Intn(len(wpMaps))
			pr.WaypointsUpdated, wi = wpMaps[j], wpIdx[j]
		default:
			b := r.U64() & 0xf
			if k == 9 {
				b = 0
			}
			m := mkSet(wpKeys, b)
			wpMaps, wpIdx, setStore = append(wpMaps, m), append(wpIdx, len(setStore)), append(setStore, b)
			pr.WaypointsUpdated, wi = m, len(setStore)-1
		}
		switch k := r.Intn(10); {
		case k < 2:
		case share && len(reasonMaps) > 0 && k < 5:
			j := r.Intn(len(reasonMaps))
			pr.Reason, ri = reasonMaps[j], j
		default:
			m := model.ReasonStats{}
			if k != 9 {
				for x, c := 0, 1+r.Intn(3); x < c; x++ {
					m[reasonKeys[r.Intn(len(reasonKeys))]] += 1 + r.Intn(3)
				}
			}
			reasonMaps = append(reasonMaps, m)
			pr.Reason, ri = m, len(reasonMaps)-1
			rmapStore = append(rmapStore, valueOf(&model.PushRequest{Reason: m}).Reason)
		}
		cells[i] = pr
		pi := -1
		if pr.Push != nil {
			pi = indexOf(pushCtxs, pr.Push)
		}
		terms[i] = vlib.App("mkCell", optNat(ci), optNat(ai), optNat(wi), optNat(ri),
			vlib.Opt(pi >= 0, vlib.NI(pi)), vlib.N(uint64(pr.Start.Unix())), vlib.B(pr.Forced))
	}
	h := vlib.App("mkHeap", vlib.List(terms), vlib.ListOf(setStore, vlib.N),
		vlib.ListOf(rmapStore, func(m []kv) string {
			return vlib.ListOf(m, func(p kv) string { return vlib.Pair(vlib.N(p.K), vlib.N(p.V)) })
		}))
	return cells, h
}

func heapCases(c *vlib.Collector, r *vlib.Rand, id *int, count int) {
	for n := 0; n < count; n++ {
		*id++
		rr := r.Sub()
		if !c.Wanted(*id) {
			continue
		}
		alwaysPush := n%4 != 0 // 1 in 4 cases also explores requests without a snapshot
		cells, h0 := genHeap(rr, 2+rr.Intn(3), alwaysPush)
		v0 := viewOf(cells)
		tags := []string{"heap"}
		var steps []string
		for k, nops := 0, 1+rr.Intn(3); k < nops; k++ {
			pick := func() int {
				if rr.Chance(8) {
					return -1
				}
				return rr.Intn(len(cells))
			}
			a, b := pick(), pick()
			get := func(i int) *model.PushRequest {
				if i < 0 {
					return nil
				}
				return cells[i]
			}
			var res *model.PushRequest
			var op string
			if rr.Bool() {
				op = "HMerge"
				res = get(a).Merge(get(b))
				tags = append(tags, "merge")
			} else {
				op = "HCopyMerge"
				if a >= 0 && b >= 0 && cells[a].Push != nil && cells[b].Push == nil {
					tags = append(tags, "copymerge-later-without-snapshot")
				}
				res = get(a).CopyMerge(get(b))
				tags = append(tags, "copymerge")
			}
			if a < 0 || b < 0 {
				tags = append(tags, "nil-operand")
			} else if a == b {
				tags = append(tags, "self-merge")
			}
			ri := -1
			if res != nil {
				for i, p := range cells {
					if p == res {
						ri = i
					}
				}
				if ri < 0 {
					cells = append(cells, res)
					ri = len(cells) - 1
				}
			}
			steps = append(steps, "("+vlib.App(op, optNat(a), optNat(b))+", "+optNat(ri)+", "+viewOf(cells)+")")
		}
		c.Add(vlib.Case{ID: *id, Term: vlib.App("CHeap", vlib.NI(*id), h0, v0, vlib.List(steps)), Tags: tags,
			Sample: map[string]any{"kind": "heap", "heap": h0, "steps": steps}})
	}
}

// ---------------------------------------------------------------- queue cases

func queueCases(c *vlib.Collector, r *vlib.Rand, id *int, count int) {
	for n := 0; n < count; n++ {
		*id++
		rr := r.Sub()
		if !c.Wanted(*id) {
			continue
		}
		alwaysPush := n%5 != 0
		nconn := 1 + rr.Intn(4)
		conns := make([]*pxds.Connection, nconn)
		cidx := map[*pxds.Connection]int{}
		for i := range conns {
			conns[i] = pxds.VerifNewConnection(fmt.Sprintf("c%d", i), nil, nil)
			cidx[conns[i]] = i
		}
		pool := make([]*model.PushRequest, 2+rr.Intn(4))
		snap := make([]val, len(pool))
		for i := range pool {
			pool[i] = genReq(rr, genOpts{alwaysPush: alwaysPush})
			snap[i] = valueOf(pool[i])
		}
		q := pxds.NewPushQueue()
		var trace []string
		tags := map[string]bool{"queue": true}
		inflight := map[int]bool{}
		type handed struct {
			r *model.PushRequest
			v val
		}
		var delivered []handed
		shut := false
		lastPush := map[int]int{} // conn -> push of the last accepted request
		deq := func() {
			con, req, sd := q.Dequeue()
			if sd {
				trace = append(trace, "ODeq DShutdown")
				tags["deq-shutdown"] = true
				return
			}
			i := cidx[con]
			trace = append(trace, "ODeq "+vlib.App("DItem", vlib.NI(i), optReqTerm(req)))
			if req != nil {
				delivered = append(delivered, handed{req, valueOf(req)})
			}
			if inflight[i] {
				tags["deq-while-inflight"] = true
			}
			inflight[i] = true
		}
		done := func(i int) {
			q.MarkDone(conns[i])
			delete(inflight, i)
			trace = append(trace, "ODone "+vlib.NI(i))
		}
		nops := 4 + rr.Intn(vlib.Scale(24, 60))
		for k := 0; k < nops; k++ {
			switch x := rr.Intn(100); {
			case x < 50:
				i, p := rr.Intn(nconn), rr.Intn(len(pool))
				if rr.Chance(30) { // StartPush: the same request for every connection
					for j := range conns {
						trace = append(trace, "OEnq "+vlib.NI(j)+" "+valueOf(pool[p]).term())
						q.Enqueue(conns[j], pool[p])
						if !shut {
							if lp, ok := lastPush[j]; ok && lp >= 0 && pool[p].Push == nil {
								tags["enq-later-without-snapshot"] = true
							}
							lastPush[j] = valueOf(pool[p]).Push
						}
					}
					tags["enq-all"] = true
					break
				}
				trace = append(trace, "OEnq "+vlib.NI(i)+" "+valueOf(pool[p]).term())
				if inflight[i] {
					tags["enq-while-inflight"] = true
				}
				q.Enqueue(conns[i], pool[p])
				if !shut {
					if lp, ok := lastPush[i]; ok && lp >= 0 && pool[p].Push == nil {
						tags["enq-later-without-snapshot"] = true
					}
					lastPush[i] = valueOf(pool[p]).Push
				}
			case x < 72:
				if q.Pending() > 0 || shut {
					deq()
				}
			case x < 90:
				if len(inflight) > 0 {
					ks := make([]int, 0, len(inflight))
					for i := range inflight {
						ks = append(ks, i)
					}
					sort.Ints(ks)
					done(ks[rr.Intn(len(ks))])
				} else if rr.Chance(20) {
					done(rr.Intn(nconn)) // MarkDone of a connection that is not in flight
					tags["done-not-inflight"] = true
				}
			case x < 97:
				trace = append(trace, "OPending "+vlib.NI(q.Pending()))
			default:
				if k > nops/2 {
					q.ShutDown()
					shut = true
					trace = append(trace, "OShut")
					tags["shutdown"] = true
				}
			}
		}
		// drain
		for i := 0; i < nconn; i++ {
			if inflight[i] {
				done(i)
			}
		}
		for q.Pending() > 0 {
			con, req, _ := q.Dequeue()
			i := cidx[con]
			trace = append(trace, "ODeq "+vlib.App("DItem", vlib.NI(i), optReqTerm(req)))
			if req != nil {
				delivered = append(delivered, handed{req, valueOf(req)})
			}
			inflight[i] = true
			done(i)
		}
		trace = append(trace, "OPending "+vlib.NI(q.Pending()))
		intact := true
		for i := range pool {
			if !valueOf(pool[i]).eq(snap[i]) {
				intact = false
			}
		}
		for _, d := range delivered {
			if !valueOf(d.r).eq(d.v) {
				intact = false
			}
		}
		tl := make([]string, 0, len(tags))
		for t := range tags {
			tl = append(tl, t)
		}
		sort.Strings(tl)
		for i := range trace {
			trace[i] = "(" + trace[i] + ")"
		}
		c.Add(vlib.Case{ID: *id, Term: vlib.App("CQueue", vlib.NI(*id), vlib.List(trace), vlib.B(intact)), Tags: tl,
			Sample: map[string]any{"kind": "queue", "trace": trace, "intact": intact}, Trivial: !tags["enq-while-inflight"] && !tags["enq-all"]})
	}
}

// ---------------------------------------------------------------- debounce cases

// waitFor is how long the harness waits for something the implementation owes (a push, an event, a
// counter value).  On a healthy tree nothing ever times out, so the first wait is generous; once one
// wait has expired (an update was lost: already a violation) the remaining cases use a short limit so
// that a broken tree is reported in seconds per case instead of minutes.
var timeouts atomic.Int32

func waitFor() time.Duration {
	if timeouts.Load() > 0 {
		return 2 * time.Second
	}
	return 30 * time.Second
}

func expired() { timeouts.Add(1) }

type dbCall struct {
	v    val
	size uint64
}

type dbResult struct {
	id       int
	term     string
	tags     []string
	sample   any
	violated string
}

// runDebounce drives one scripted scenario against the real debounce loop.  Nothing below depends on
// timing for its verdict: groups are read off the observed pushes; timers only decide how events are grouped.
func runDebounce(id int, rr *vlib.Rand) dbResult {
	edsDebounce := rr.Chance(60)
	after := time.Duration(4+rr.Intn(8)) * time.Millisecond
	max := 10 * time.Second
	maxScenario := rr.Chance(20)
	if maxScenario {
		after = 12 * time.Millisecond
		max = 40 * time.Millisecond
	}
	ch := make(chan *model.PushRequest) // unbuffered: a completed send has been received by the loop
	stop := make(chan struct{})
	var updateSent atomic.Int64
	calls := make(chan dbCall, 64)
	release := make(chan struct{})
	var mu sync.Mutex
	bypass := map[*model.PushRequest]int{}
	type now struct {
		idx int
		v   val
	}
	var nows []now
	var running atomic.Int32
	var overlap atomic.Bool
	pushFn := func(req *model.PushRequest) {
		mu.Lock()
		idx, isBypass := bypass[req]
		if isBypass {
			nows = append(nows, now{idx, valueOf(req)})
			delete(bypass, req)
		}
		mu.Unlock()
		if isBypass {
			return
		}
		if running.Add(1) > 1 {
			overlap.Store(true)
		}
		v := valueOf(req)
		calls <- dbCall{v, v.reasonCount()}
		<-release
		running.Add(-1)
	}
	go pxds.VerifDebounce(ch, stop, after, max, edsDebounce, pushFn, &updateSent)

	var evTerms []string
	var pushes []dbCall
	tags := map[string]bool{"debounce": true}
	if maxScenario {
		tags["max-scenario"] = true
	}
	if !edsDebounce {
		tags["eds-bypass-enabled"] = true
	}
	sentDeb, pushedDeb, total := uint64(0), uint64(0), 0
	inflight := false
	violated := ""
	send := func() {
		ev := genReq(rr, genOpts{onePerReason: true, edsBias: true})
		v := valueOf(ev)
		evTerms = append(evTerms, v.term())
		isBypass := !edsDebounce && !v.CfgNil && v.Cfg != 0 && v.Cfg&^edsMask == 0
		if isBypass {
			mu.Lock()
			bypass[ev] = total
			mu.Unlock()
			tags["bypassed-event"] = true
		} else {
			sentDeb++
			if inflight {
				tags["event-during-push"] = true
			}
		}
		if len(ev.Reason) == 0 {
			tags["reason-unset"] = true
		}
		total++
		ch <- ev
	}
	outstanding := 0 // recorded pushFn calls not yet released (more than one only if pushes overlap)
	record := func(cl dbCall) {
		if inflight {
			tags["observed-overlap"] = true
		}
		if pushedDeb+cl.size < sentDeb {
			tags["split-burst"] = true
		}
		pushes = append(pushes, cl)
		pushedDeb += cl.size
		inflight = true
		outstanding++
	}
	poll := func() {
		select {
		case cl := <-calls:
			record(cl)
		default:
		}
	}
	await := func() bool {
		if inflight {
			return true
		}
		select {
		case cl := <-calls:
			record(cl)
			return true
		case <-time.After(waitFor()):
			expired()
			violated = fmt.Sprintf("no push arrived although %d debounced events are outstanding", sentDeb-pushedDeb)
			return false
		}
	}
	rel := func() {
		for ; outstanding > 0; outstanding-- {
			release <- struct{}{}
		}
		inflight = false
	}
	nphases := 1 + rr.Intn(4)
phases:
	for p := 0; p < nphases; p++ {
		switch k := rr.Intn(10); {
		case maxScenario && p == 0:
			// events keep arriving faster than DebounceAfter for longer than debounceMax
			for i := 0; i < 14; i++ {
				send()
				poll()
				time.Sleep(after / 3) // pacing only
			}
		case k < 5: // burst, idle or not
			for i, n := 0, 1+rr.Intn(5); i < n; i++ {
				send()
				poll()
			}
		case k < 8: // burst while a push is running, then let it finish
			if sentDeb == pushedDeb && !inflight {
				send()
			}
			if sentDeb > pushedDeb || inflight {
				if !await() {
					break phases
				}
				for i, n := 0, 1+rr.Intn(4); i < n; i++ {
					send()
				}
				rel()
			}
		default: // let everything settle
			for sentDeb > pushedDeb || inflight {
				if !await() {
					break phases
				}
				rel()
			}
		}
	}
	for violated == "" && (sentDeb > pushedDeb || inflight) {
		if !await() {
			break
		}
		rel()
	}
	// every event must end up counted in updateSent
	deadline := time.Now().Add(waitFor())
	for violated == "" && updateSent.Load() < int64(total) && time.Now().Before(deadline) {
		time.Sleep(200 * time.Microsecond)
	}
	committed := updateSent.Load()
	if committed < int64(total) {
		expired()
	}
	close(stop)
	// a stray push (only possible if the implementation pushes something twice) must not block forever
	go func() {
		for {
			select {
			case <-calls:
			case release <- struct{}{}:
			case <-time.After(2 * time.Second):
				return
			}
		}
	}()
	mu.Lock()
	sort.Slice(nows, func(i, j int) bool { return nows[i].idx < nows[j].idx })
	nowTerms := make([]string, len(nows))
	for i, n := range nows {
		nowTerms[i] = vlib.Pair(vlib.NI(n.idx), n.v.term())
	}
	mu.Unlock()
	pushTerms := make([]string, len(pushes))
	for i, p := range pushes {
		pushTerms[i] = vlib.Pair(p.v.term(), vlib.N(p.size))
		if p.size > 1 {
			tags["merged"] = true
		}
	}
	ob := vlib.App("mkDobs", vlib.List(pushTerms), vlib.List(nowTerms), vlib.B(overlap.Load()), vlib.N(uint64(committed)))
	o := vlib.App("mkDopts", vlib.B(edsDebounce), vlib.NI(edsMask))
	tl := make([]string, 0, len(tags))
	for t := range tags {
		tl = append(tl, t)
	}
	sort.Strings(tl)
	return dbResult{id: id, term: vlib.App("CDebounce", vlib.NI(id), o, vlib.List(evTerms), ob), tags: tl, violated: violated,
		sample: map[string]any{"kind": "debounce", "eds_debounce": edsDebounce, "events": evTerms, "pushes": pushTerms, "bypassed": nowTerms, "committed": committed}}
}

func debounceCases(c *vlib.Collector, r *vlib.Rand, id *int, count int) {
	type job struct {
		id int
		rr *vlib.Rand
	}
	var jobs []job
	for n := 0; n < count; n++ {
		*id++
		rr := r.Sub()
		if c.Wanted(*id) {
			jobs = append(jobs, job{*id, rr})
		}
	}
	results := make([]dbResult, len(jobs))
	var wg sync.WaitGroup
	sem := make(chan struct{}, 12)
	for i, j := range jobs {
		wg.Add(1)
		sem <- struct{}{}
		go func(i int, j job) {
			defer wg.Done()
			defer func() { <-sem }()
			results[i] = runDebounce(j.id, j.rr)
		}(i, j)
	}
	wg.Wait()
	for _, res := range results {
		if res.violated != "" {
			c.Violate(vlib.Violation{ID: res.id, Kind: "lost-update", Detail: res.violated, Case: res.sample})
		}
		triv := true
		for _, t := range res.tags {
			if t == "merged" || t == "event-during-push" || t == "bypassed-event" {
				triv = false
			}
		}
		c.Add(vlib.Case{ID: res.id, Term: res.term, Tags: res.tags, Sample: res.sample, Trivial: triv})
	}
}

// ---------------------------------------------------------------- sender cases (doSendPushes)

type fakeStream struct {
	pxds.DiscoveryStream
	ctx    context.Context
	failAt int // the failAt-th Send of the current push fails
	sent   int // responses sent in the current push
}

func (f *fakeStream) Context() context.Context { return f.ctx }

// Send counts the responses of the current push and fails on the failAt-th one (0 = never fails).
func (f *fakeStream) Send(*discovery.DiscoveryResponse) error {
	if f.failAt > 0 && f.sent+1 == f.failAt {
		return errors.New("transport is closing")
	}
	f.sent++
	return nil
}

// senderGen is the generator behind the real Connection.Push of the sender scenarios: one resource per type.
type senderGen struct{}

func (senderGen) Generate(*model.Proxy, *model.WatchedResource, *model.PushRequest) (model.Resources, model.XdsLogDetails, error) {
	return model.Resources{&discovery.Resource{Name: "r", Resource: protoconv.MessageToAny(&core.Node{Id: "r"})}}, model.DefaultXdsLogDetails, nil
}

var senderTypes = []string{"type.googleapis.com/verif.c02.A", "type.googleapis.com/verif.c02.B", "type.googleapis.com/verif.c02.C"}

var senderServer = &pxds.DiscoveryServer{
	Generators: map[string]model.XdsResourceGenerator{senderTypes[0]: senderGen{}, senderTypes[1]: senderGen{}, senderTypes[2]: senderGen{}},
	ProxyNeedsPush: func(_ *model.Proxy, req *model.PushRequest) (*model.PushRequest, bool) {
		return req, true
	},
}

type fakeDelta struct {
	pxds.DeltaDiscoveryStream
	ctx context.Context
}

func (f *fakeDelta) Context() context.Context { return f.ctx }

func runSender(id int, rr *vlib.Rand) dbResult {
	const (
		idle = iota
		waiting
		out
		handedSt
	)
	nc := 2 + rr.Intn(3)
	capN := 1 + rr.Intn(3)
	type client struct {
		con    *pxds.Connection
		cancel context.CancelFunc
		state  int
		closed bool
		merged bool // an Enqueue arrived while out/handed
		ev     any
		stream *fakeStream // non-nil: the harness plays the Stream loop and calls the REAL Connection.Push
		ntypes int
	}
	cl := make([]*client, nc)
	for i := range cl {
		ctx, cancel := context.WithCancel(context.Background())
		var con *pxds.Connection
		var st *fakeStream
		nt := 0
		if rr.Chance(25) {
			// delta client: StreamDeltas runs pushConnectionDelta + done() inline, which cannot be called
			// from outside; the harness calls the event's done itself
			con = pxds.VerifNewConnection(fmt.Sprintf("d%d", i), nil, &fakeDelta{ctx: ctx})
		} else {
			st = &fakeStream{ctx: ctx}
			nt = 1 + rr.Intn(len(senderTypes))
			wr := map[string]*model.WatchedResource{}
			for _, tp := range senderTypes[:nt] {
				wr[tp] = &model.WatchedResource{TypeUrl: tp}
			}
			proxy := &model.Proxy{ID: fmt.Sprintf("s%d", i), Type: model.SidecarProxy, Metadata: &model.NodeMetadata{}, WatchedResources: wr}
			con = pxds.VerifNewPushConnection(fmt.Sprintf("s%d", i), st, senderServer, proxy)
		}
		cl[i] = &client{con: con, cancel: cancel, stream: st, ntypes: nt}
	}
	q := pxds.NewPushQueue()
	sem := make(chan struct{}, capN)
	stop := make(chan struct{})
	exitedCh := make(chan struct{})
	go func() {
		pxds.VerifDoSendPushes(stop, sem, q)
		close(exitedCh)
	}()
	var trace []string
	tags := map[string]bool{"sender": true}
	violated := ""
	var fifo []int
	inuse := 0
	stopped := false
	add := func(s string) { trace = append(trace, "("+s+")") }
	// advance mirrors what the sender loop is certain to do next: it takes a token as soon as one is
	// free (tokens = events out + the loop's own), then dequeues as soon as the queue is non-empty
	holding := false
	advance := func() {
		for {
			if !holding {
				if stopped || inuse >= capN {
					return
				}
				add("SO SAcquire")
				holding = true
			}
			if len(fifo) == 0 {
				return
			}
			i := fifo[0]
			fifo = fifo[1:]
			add("SO STake")
			holding = false
			if cl[i].closed || stopped {
				add("SO (SDrop " + vlib.NI(i) + ")")
				tags["drop-on-park"] = true
				cl[i].state = idle
				continue
			}
			cl[i].state = out
			inuse++
		}
	}
	advance()
	enq := func(i int) {
		r := genReq(rr, genOpts{alwaysPush: true})
		r.ConfigsUpdated = mkSet(cfgKeys, uint64(1+rr.Intn(edsMask))) // endpoint-only: pushConnection skips computeProxyState
		add("SO (SEnq " + vlib.NI(i) + " " + valueOf(r).term() + ")")
		q.Enqueue(cl[i].con, r)
		switch cl[i].state {
		case idle:
			cl[i].state = waiting
			fifo = append(fifo, i)
		case waiting:
			tags["enq-merge-pending"] = true
		case handedSt:
			cl[i].merged = true
			tags["enq-during-push"] = true
		}
		advance()
	}
	// finish is the rest of the Stream loop iteration for a received event: Connection.Push (real for SotW
	// clients, with the stream failing on the k-th response now and then); an error ends the stream.
	finish := func(i int) {
		c := cl[i]
		failed := false
		if c.stream != nil {
			c.stream.sent, c.stream.failAt = 0, 0
			if c.closed {
				c.stream.failAt = 1 // a cancelled stream cannot send
			} else if rr.Chance(35) {
				c.stream.failAt = 1 + rr.Intn(c.ntypes)
			}
			err := c.con.Push(c.ev)
			want := c.ntypes
			if c.stream.failAt > 0 {
				want = c.stream.failAt - 1
				tags[fmt.Sprintf("send-failed-at-response-%d", c.stream.failAt)] = true
			}
			if (err != nil) != (c.stream.failAt > 0) || c.stream.sent != want {
				violated = fmt.Sprintf("client %d: Connection.Push returned err=%v after %d responses, expected failure=%v after %d", i, err, c.stream.sent, c.stream.failAt > 0, want)
			}
			failed = err != nil
			tags["real-connection-push"] = true
		} else {
			pxds.VerifEventDone(c.ev)
		}
		if failed {
			// pkg/xds Stream returns the error, the gRPC handler returns, the stream context is cancelled
			c.cancel()
			c.closed = true
			add("SO (SClientFail " + vlib.NI(i) + ")")
			tags["send-failed-mid-push"] = true
		} else {
			add("SO (SClientDone " + vlib.NI(i) + ")")
		}
		inuse--
		c.state = idle
		if c.merged {
			c.merged = false
			c.state = waiting
			fifo = append(fifo, i)
		}
		advance()
	}
	steps := 6 + rr.Intn(vlib.Scale(20, 50))
	for k := 0; k < steps && violated == ""; k++ {
		i := rr.Intn(nc)
		c := cl[i]
		switch x := rr.Intn(100); {
		case x < 40:
			if c.closed || stopped {
				break
			}
			if c.state == idle || c.state == handedSt || (c.state == waiting && inuse == capN) {
				enq(i)
			}
		case x < 65:
			if c.state == out && !c.closed {
				select {
				case ev := <-c.con.PushCh():
					c.ev = ev
					c.state = handedSt
					add("SOHand " + vlib.NI(i) + " " + optReqTerm(pxds.VerifEventRequest(ev)))
				case <-time.After(waitFor()):
					expired()
					violated = fmt.Sprintf("client %d never received its push event", i)
				}
			}
		case x < 85:
			if c.state == handedSt {
				finish(i)
			}
		case x < 95:
			if c.closed {
				break
			}
			if c.state == out || c.state == handedSt || c.state == idle || (c.state == waiting && inuse == capN) {
				c.cancel()
				c.closed = true
				add("SO (SClose " + vlib.NI(i) + ")")
				tags["client-closed"] = true
				if c.state == out {
					add("SO (SDrop " + vlib.NI(i) + ")")
					tags["closed-while-parked"] = true
					c.state = idle
					inuse--
					advance()
				}
			}
		default:
			// stop only when the loop is known to sit in Dequeue and no re-queue can follow
			ok := !stopped && len(fifo) == 0 && inuse < capN && k > steps/2
			for _, o := range cl {
				if o.merged {
					ok = false
				}
			}
			if ok {
				close(stop)
				stopped = true
				add("SO SStop")
				tags["stopped"] = true
				for j, o := range cl {
					if o.state == out {
						add("SO (SDrop " + vlib.NI(j) + ")")
						o.state = idle
						inuse--
					}
				}
			}
		}
	}
	// drain: every surviving client receives and completes everything that is still owed to it
	for guard := 0; violated == "" && guard < 1000; guard++ {
		progressed := false
		for i, c := range cl {
			switch {
			case c.state == out && !c.closed:
				select {
				case ev := <-c.con.PushCh():
					c.ev = ev
					c.state = handedSt
					add("SOHand " + vlib.NI(i) + " " + optReqTerm(pxds.VerifEventRequest(ev)))
				case <-time.After(waitFor()):
					expired()
					violated = fmt.Sprintf("client %d never received its push event (drain)", i)
				}
				progressed = true
			case c.state == handedSt:
				finish(i)
				progressed = true
			}
		}
		if !progressed {
			break
		}
	}
	add("SO SShutQueue")
	if holding {
		add("SO STake")
	}
	q.ShutDown()
	exited := false
	select {
	case <-exitedCh:
		exited = true
	case <-time.After(waitFor()):
		expired()
		violated = "sender loop did not exit after ShutDown"
	}
	// parked goroutines of closed clients release their token asynchronously
	deadline := time.Now().Add(waitFor())
	for len(sem) > 1 && time.Now().Before(deadline) {
		time.Sleep(200 * time.Microsecond)
	}
	final := len(sem)
	if final > 1 {
		expired()
	}
	if !stopped {
		close(stop)
	}
	for _, c := range cl {
		c.cancel()
	}
	tl := make([]string, 0, len(tags))
	for t := range tags {
		tl = append(tl, t)
	}
	sort.Strings(tl)
	return dbResult{id: id, term: vlib.App("CSender", vlib.NI(id), vlib.Nat(capN), vlib.List(trace), vlib.NI(final), vlib.B(exited)),
		tags: tl, violated: violated, sample: map[string]any{"kind": "sender", "cap": capN, "trace": trace, "final_tokens": final}}
}

func senderCases(c *vlib.Collector, r *vlib.Rand, id *int, count int) {
	for n := 0; n < count; n++ {
		*id++
		rr := r.Sub()
		if !c.Wanted(*id) {
			continue
		}
		res := runSender(*id, rr)
		if res.violated != "" {
			c.Violate(vlib.Violation{ID: res.id, Kind: "lost-update", Detail: res.violated, Case: res.sample})
		}
		triv := true
		for _, t := range res.tags {
			if t == "enq-during-push" || t == "closed-while-parked" || t == "drop-on-park" || t == "send-failed-mid-push" {
				triv = false
			}
		}
		c.Add(vlib.Case{ID: res.id, Term: res.term, Tags: res.tags, Sample: res.sample, Trivial: triv})
	}
}

// ---------------------------------------------------------------- fixed witnesses

// witnessCases: regression inputs of the repaired defect (CopyMerge used to drop the earlier push context when the
// later request had none); they must simply pass, a recurrence is a VIOLATION.
func witnessCases(c *vlib.Collector, id *int) {
	*id++
	if c.Wanted(*id) {
		a := &model.PushRequest{Push: pushCtxs[1], Start: time.Unix(1, 0)}
		b := &model.PushRequest{Start: time.Unix(2, 0)}
		cells := []*model.PushRequest{a, b}
		h0 := "(mkHeap [mkCell None None None None (Some 1%N) 1%N false; mkCell None None None None None 2%N false] [] [])"
		v0 := viewOf(cells)
		res := a.CopyMerge(b)
		cells = append(cells, res)
		step := "(HCopyMerge (Some 0%nat) (Some 1%nat), (Some 2%nat), " + viewOf(cells) + ")"
		c.Add(vlib.Case{ID: *id, Term: vlib.App("CHeap", vlib.NI(*id), h0, v0, vlib.List([]string{step})),
			Tags: []string{"heap", "regression-copymerge-snapshot"}, Sample: map[string]any{"kind": "witness", "step": step}})
	}
	*id++
	if c.Wanted(*id) {
		con := pxds.VerifNewConnection("w", nil, nil)
		q := pxds.NewPushQueue()
		a := &model.PushRequest{Push: pushCtxs[1], Start: time.Unix(1, 0)}
		b := &model.PushRequest{Start: time.Unix(2, 0)}
		q.Enqueue(con, a)
		q.Enqueue(con, b)
		_, got, _ := q.Dequeue()
		q.MarkDone(con)
		trace := []string{"(OEnq 0%N " + valueOf(a).term() + ")", "(OEnq 0%N " + valueOf(b).term() + ")",
			"(ODeq (DItem 0%N " + optReqTerm(got) + "))", "(ODone 0%N)"}
		c.Add(vlib.Case{ID: *id, Term: vlib.App("CQueue", vlib.NI(*id), vlib.List(trace), "true"),
			Tags: []string{"queue", "regression-copymerge-snapshot"}, Sample: map[string]any{"kind": "witness", "trace": trace}})
	}
}

// ---------------------------------------------------------------- entry point

func TestGen(t *testing.T) {
	c := vlib.NewCollector("C02", "V.C02.Run")
	c.Rule = "heap: 2-4 PushRequests with randomly shared/nil/empty maps, 1-3 real Merge/CopyMerge calls, full deep view + map identities after every call; " +
		"queue: random Enqueue/Dequeue/MarkDone/Pending/ShutDown over 1-4 connections with requests shared between connections, drained at the end (non-trivial = an Enqueue hit a connection in flight or one request went to all connections); " +
		"debounce: the real loop through the export shim with an unbuffered channel and a blocking pushFn, phase-scripted bursts (idle / during a running push / beyond debounceMax), groups read off the observed pushes (non-trivial = a merge, an event during a push or an EDS bypass happened); " +
		"sender: the real doSendPushes; the harness plays the pkg/xds Stream loop of every SotW client: it receives the Event from PushCh and calls the REAL Connection.Push (pushConnection -> pushXds -> stream.Send) on a stream whose Send fails on the k-th response now and then (the stream then ends, as gRPC does); stream contexts are also cancelled while events are parked; semaphore capacity 1-3 (non-trivial = enqueue during a push, close while parked, send failure mid-push)."
	seed := vlib.Seed()
	r := vlib.NewRand(seed*0x9e3779b9 + 0xc02)
	id := 0
	witnessCases(c, &id)
	heapCases(c, r.Sub(), &id, vlib.Scale(600, 12000))
	queueCases(c, r.Sub(), &id, vlib.Scale(250, 5000))
	debounceCases(c, r.Sub(), &id, vlib.Scale(120, 1500))
	senderCases(c, r.Sub(), &id, vlib.Scale(80, 1500))
	if err := c.Flush(); err != nil {
		t.Fatal(err)
	}
	t.Logf("C02: %d cases", c.Len())
}
