//go:build verif

package c14

// Directed (admission-valid) world scenarios that make collisions likely:
//   gateway scenario — several Gateways/servers per port, TLS modes, Service port -> targetPort translation on the
//                      router, VirtualServices with tls / tcp / http routes;
//   sniff scenario   — an auto-protocol (sniffed) service with a VIP next to HTTP services on the same port number,
//                      hosts starting with a digit (their "host:port" route name sorts before the plain port route);
//   envoyfilter scenario — a VirtualService with two hosts and named routes (virtual hosts share one route slice) and
//                      EnvoyFilters covering applyTo x operation with matches that select one of several siblings.

import (
	"fmt"
	"strings"

	"istio.io/istio/pilot/pkg/model"
	"istio.io/istio/pkg/config/protocol"
	"verif/harness/vlib"
)

// ---------------------------------------------------------------- gateway scenario

type srvTemplate struct {
	proto string
	mode  string // tls mode ("" = none)
	ports []int
}

var srvTemplates = []srvTemplate{
	{"TLS", "PASSTHROUGH", []int{443, 8443}},
	{"TLS", "PASSTHROUGH", []int{443, 8443}},
	{"TLS", "AUTO_PASSTHROUGH", []int{443, 8443, 15443}},
	{"HTTPS", "SIMPLE", []int{443, 8443}},
	{"HTTPS", "PASSTHROUGH", []int{443, 8443}},
	{"HTTP", "", []int{80, 8080}},
	{"HTTP2", "", []int{80, 8080}},
	{"TCP", "", []int{9000, 8080, 8443}},
}

var gwHostSets = [][]string{{"*.example.com"}, {"a.example.com"}, {"b.example.com"}, {"a.example.com", "b.example.com"}, {"*"},
	{"ns1/a.example.com"}, {"*.example.com", "c.other.org"}}

func writeServer(b *strings.Builder, name string, port int, t srvTemplate, hosts []string, r *vlib.Rand) {
	fmt.Fprintf(b, "  - port:\n      number: %d\n      name: %s\n      protocol: %s\n    hosts:\n", port, name, t.proto)
	for _, h := range hosts {
		fmt.Fprintf(b, "    - \"%s\"\n", h)
	}
	switch t.mode {
	case "SIMPLE":
		fmt.Fprintf(b, "    tls:\n      mode: SIMPLE\n      credentialName: cred%d\n", r.Intn(2))
	case "":
		if t.proto == "HTTP" && r.Chance(10) {
			b.WriteString("    tls:\n      httpsRedirect: true\n")
		}
	default:
		fmt.Fprintf(b, "    tls:\n      mode: %s\n", t.mode)
	}
}

func genGatewayScenario(r *vlib.Rand, w *world) {
	w.features = append(w.features, "scenario-gateway")
	if r.Chance(70) {
		w.translate = true
		w.features = append(w.features, "gw-port-translation")
	}
	// backends
	w.add("apiVersion: networking.istio.io/v1\nkind: ServiceEntry\nmetadata:\n  name: backend-a\n  namespace: ns1\nspec:\n  hosts:\n  - a.example.com\n"+
		"  ports:\n  - number: 443\n    name: tls\n    protocol: TLS\n  - number: 80\n    name: http\n    protocol: HTTP\n  - number: 9000\n    name: tcp\n    protocol: TCP\n"+
		"  resolution: DNS\n", "se")
	w.add("apiVersion: networking.istio.io/v1\nkind: ServiceEntry\nmetadata:\n  name: backend-b\n  namespace: ns1\nspec:\n  hosts:\n  - b.example.com\n"+
		"  ports:\n  - number: 443\n    name: tls\n    protocol: TLS\n  - number: 8080\n    name: http\n    protocol: HTTP\n"+
		"  resolution: STATIC\n  endpoints:\n  - address: 10.20.9.1\n", "se")
	nGw := 1 + r.Intn(2)
	var gws []string
	for g := 0; g < nGw; g++ {
		var b strings.Builder
		name := fmt.Sprintf("sgw%d", g)
		gws = append(gws, "istio-system/"+name)
		fmt.Fprintf(&b, "apiVersion: networking.istio.io/v1\nkind: Gateway\nmetadata:\n  name: %s\n  namespace: istio-system\nspec:\n  selector:\n    istio: ingressgateway\n  servers:\n", name)
		k := 0
		if g == 0 && r.Chance(45) {
			// two passthrough servers that declare different ports (one of them the Service port) with
			// overlapping but non-identical host lists
			t := srvTemplates[0]
			hs := [][]string{{"*.example.com"}, {"a.example.com"}, {"a.example.com", "b.example.com"}, {"*"}}
			i := r.Intn(len(hs))
			j := (i + 1 + r.Intn(len(hs)-1)) % len(hs)
			writeServer(&b, "tls-svc", 443, t, hs[i], r)
			writeServer(&b, "tls-direct", 8443, t, hs[j], r)
			k = 2
			w.features = append(w.features, "gw-passthrough-pair")
			if !w.translate && r.Chance(80) {
				w.translate = true
				w.features = append(w.features, "gw-port-translation")
			}
			// a tls route (no port predicate) whose SNI both servers cover
			w.add("apiVersion: networking.istio.io/v1\nkind: VirtualService\nmetadata:\n  name: svs-pair\n  namespace: ns1\nspec:\n  hosts:\n  - a.example.com\n"+
				"  gateways:\n  - istio-system/sgw0\n  tls:\n  - match:\n    - sniHosts:\n      - a.example.com\n    route:\n    - destination:\n        host: a.example.com\n"+
				"        port:\n          number: 443\n", "vs", "vs-tls-route")
		}
		for n := 1 + r.Intn(3); k < n+1 && k < 4; k++ {
			t := vlib.Pick(r, srvTemplates)
			hs := vlib.Pick(r, gwHostSets)
			if strings.Contains(hs[0], "/") {
				w.features = append(w.features, "gw-ns-qualified-host")
			}
			w.features = append(w.features, "gw-server:"+t.proto+"/"+t.mode)
			writeServer(&b, fmt.Sprintf("p%d-%s", k, strings.ToLower(t.proto)), vlib.Pick(r, t.ports), t, hs, r)
		}
		w.add(b.String(), "gw")
	}
	for v, n := 0, 1+r.Intn(3); v < n; v++ {
		var b strings.Builder
		h := vlib.Pick(r, []string{"a.example.com", "b.example.com", "a.example.com"})
		fmt.Fprintf(&b, "apiVersion: networking.istio.io/v1\nkind: VirtualService\nmetadata:\n  name: svs%d\n  namespace: %s\nspec:\n  hosts:\n  - %s\n  gateways:\n  - %s\n",
			v, vlib.Pick(r, []string{"ns1", "istio-system"}), h, vlib.Pick(r, gws))
		if r.Chance(25) {
			b.WriteString("  - mesh\n")
		}
		switch r.Intn(5) {
		case 0, 1:
			fmt.Fprintf(&b, "  tls:\n  - match:\n    - sniHosts:\n      - %s\n", h)
			if r.Chance(25) {
				fmt.Fprintf(&b, "      port: %d\n", vlib.Pick(r, []int{443, 8443}))
			}
			fmt.Fprintf(&b, "    route:\n    - destination:\n        host: %s\n        port:\n          number: 443\n", h)
			w.features = append(w.features, "vs-tls-route")
		case 2:
			b.WriteString("  tcp:\n  - ")
			if r.Chance(50) {
				fmt.Fprintf(&b, "match:\n    - port: %d\n    ", vlib.Pick(r, []int{9000, 8080, 8443}))
			}
			b.WriteString("route:\n    - destination:\n        host: a.example.com\n        port:\n          number: 9000\n")
			w.features = append(w.features, "vs-tcp-route")
		default:
			fmt.Fprintf(&b, "  http:\n  - name: r0\n    route:\n    - destination:\n        host: %s\n        port:\n          number: %d\n", "a.example.com", 80)
		}
		w.add(b.String(), "vs")
	}
}

// routerServiceTargets is the standard istio-ingressgateway Service layout: 443 -> 8443, 80 -> 8080.
func routerServiceTargets() []model.ServiceTarget {
	svc := &model.Service{Hostname: "istio-ingressgateway.istio-system.svc.cluster.local",
		Attributes: model.ServiceAttributes{Name: "istio-ingressgateway", Namespace: "istio-system"}}
	return []model.ServiceTarget{
		{Service: svc, Port: model.ServiceInstancePort{ServicePort: &model.Port{Name: "tls", Port: 443, Protocol: protocol.TLS}, TargetPort: 8443}},
		{Service: svc, Port: model.ServiceInstancePort{ServicePort: &model.Port{Name: "http", Port: 80, Protocol: protocol.HTTP}, TargetPort: 8080}},
	}
}

// ---------------------------------------------------------------- sniff scenario

func genSniffScenario(r *vlib.Rand, w *world) {
	w.features = append(w.features, "scenario-sniff")
	port := vlib.Pick(r, []int{8080, 8080, 80, 9090})
	hosts := []string{"3scale.example.com", "0day.example.com", "a.example.com", "7.example.com", "b2.example.com"}
	n := 1 + r.Intn(2)
	for i := 0; i < n; i++ {
		h := hosts[(r.Intn(len(hosts))+i)%len(hosts)]
		var b strings.Builder
		fmt.Fprintf(&b, "apiVersion: networking.istio.io/v1\nkind: ServiceEntry\nmetadata:\n  name: sniff%d\n  namespace: ns1\nspec:\n  hosts:\n  - %s\n", i, h)
		if r.Chance(85) {
			fmt.Fprintf(&b, "  addresses:\n  - 10.3.0.%d\n", 5+i)
			w.features = append(w.features, "sniffed-vip")
		}
		fmt.Fprintf(&b, "  ports:\n  - number: %d\n    name: auto-%d\n", port, port) // no protocol: sniffed
		if r.Chance(30) {
			fmt.Fprintf(&b, "  - number: %d\n    name: http-x\n    protocol: HTTP\n", port+1)
		}
		fmt.Fprintf(&b, "  resolution: %s\n", vlib.Pick(r, []string{"DNS", "NONE", "STATIC"}))
		if strings.HasSuffix(b.String(), "STATIC\n") {
			fmt.Fprintf(&b, "  endpoints:\n  - address: 10.21.0.%d\n", i+1)
		}
		w.add(b.String(), "se")
		w.sniffed = append(w.sniffed, fmt.Sprintf("%s:%d", h, port))
		if h[0] >= '0' && h[0] <= '9' {
			w.features = append(w.features, "sniffed-digit-host")
		}
	}
	for i, m := 0, 1+r.Intn(2); i < m; i++ {
		var b strings.Builder
		fmt.Fprintf(&b, "apiVersion: networking.istio.io/v1\nkind: ServiceEntry\nmetadata:\n  name: plain%d\n  namespace: ns1\nspec:\n  hosts:\n  - plain%d.example.com\n", i, i)
		if r.Chance(40) {
			fmt.Fprintf(&b, "  addresses:\n  - 10.3.1.%d\n", 5+i)
		}
		fmt.Fprintf(&b, "  ports:\n  - number: %d\n    name: http\n    protocol: %s\n  resolution: DNS\n", port, vlib.Pick(r, []string{"HTTP", "HTTP", "GRPC", "HTTP2"}))
		w.add(b.String(), "se")
	}
	if r.Chance(40) {
		// a VirtualService on the plain host (named routes)
		w.add(fmt.Sprintf("apiVersion: networking.istio.io/v1\nkind: VirtualService\nmetadata:\n  name: plainvs\n  namespace: ns1\nspec:\n  hosts:\n  - plain0.example.com\n"+
			"  http:\n  - name: only\n    route:\n    - destination:\n        host: plain0.example.com\n        port:\n          number: %d\n", port), "vs")
	}
}

// ---------------------------------------------------------------- envoyfilter scenario

// efPatch is one configPatches entry (YAML, indented for the list) with a label applyTo/operation.
type efPatch struct {
	label string
	yaml  string
}

func efPatches(port int) []efPatch {
	vhA := fmt.Sprintf("a.example.com:%d", port)
	vhB := fmt.Sprintf("b.example.com:%d", port)
	p := func(label, body string) efPatch { return efPatch{label, body} }
	rcMatch := func(vh, rt string) string {
		s := "    match:\n      context: SIDECAR_OUTBOUND\n      routeConfiguration:\n"
		if vh != "" {
			s += "        vhost:\n          name: \"" + vh + "\"\n"
			if rt != "" {
				s += "          route:\n            name: " + rt + "\n"
			}
		}
		return s
	}
	lMatch := fmt.Sprintf("    match:\n      context: SIDECAR_OUTBOUND\n      listener:\n        portNumber: %d\n", port)
	hcm := "envoy.filters.network.http_connection_manager"
	return []efPatch{
		p("HTTP_ROUTE/REMOVE", "  - applyTo: HTTP_ROUTE\n"+rcMatch(vhA, "canary")+"    patch:\n      operation: REMOVE\n"),
		p("HTTP_ROUTE/REMOVE", "  - applyTo: HTTP_ROUTE\n"+rcMatch(vhB, "stable")+"    patch:\n      operation: REMOVE\n"),
		p("HTTP_ROUTE/MERGE", "  - applyTo: HTTP_ROUTE\n"+rcMatch(vhA, "stable")+"    patch:\n      operation: MERGE\n      value:\n        route:\n          timeout: 7s\n"),
		p("HTTP_ROUTE/MERGE", "  - applyTo: HTTP_ROUTE\n"+rcMatch(vhB, "canary")+"    patch:\n      operation: MERGE\n      value:\n        decorator:\n          operation: patched\n"),
		p("HTTP_ROUTE/INSERT_FIRST", "  - applyTo: HTTP_ROUTE\n"+rcMatch(vhA, "")+"    patch:\n      operation: INSERT_FIRST\n      value:\n        name: injected\n        match:\n          prefix: /injected\n        direct_response:\n          status: 204\n"),
		p("HTTP_ROUTE/INSERT_AFTER", "  - applyTo: HTTP_ROUTE\n"+rcMatch(vhB, "canary")+"    patch:\n      operation: INSERT_AFTER\n      value:\n        name: after-canary\n        match:\n          prefix: /after\n        direct_response:\n          status: 204\n"),
		p("VIRTUAL_HOST/REMOVE", "  - applyTo: VIRTUAL_HOST\n"+rcMatch(vhB, "")+"    patch:\n      operation: REMOVE\n"),
		p("VIRTUAL_HOST/MERGE", "  - applyTo: VIRTUAL_HOST\n"+rcMatch(vhA, "")+"    patch:\n      operation: MERGE\n      value:\n        include_request_attempt_count: true\n"),
		p("VIRTUAL_HOST/ADD", "  - applyTo: VIRTUAL_HOST\n"+rcMatch("", "")+"    patch:\n      operation: ADD\n      value:\n        name: extra-vhost\n        domains:\n        - extra.only.example\n"),
		p("ROUTE_CONFIGURATION/MERGE", "  - applyTo: ROUTE_CONFIGURATION\n"+rcMatch("", "")+"    patch:\n      operation: MERGE\n      value:\n        most_specific_header_mutations_wins: true\n"),
		p("LISTENER/MERGE", "  - applyTo: LISTENER\n"+lMatch+"    patch:\n      operation: MERGE\n      value:\n        per_connection_buffer_limit_bytes: 12345\n"),
		p("LISTENER/ADD", "  - applyTo: LISTENER\n    match:\n      context: SIDECAR_OUTBOUND\n    patch:\n      operation: ADD\n      value:\n        name: extra-listener\n        address:\n          socket_address:\n            address: 127.0.0.1\n            port_value: 19999\n        filter_chains:\n        - filters:\n          - name: envoy.filters.network.tcp_proxy\n            typed_config:\n              \"@type\": type.googleapis.com/envoy.extensions.filters.network.tcp_proxy.v3.TcpProxy\n              stat_prefix: extra\n              cluster: BlackHoleCluster\n"),
		p("LISTENER/REMOVE", "  - applyTo: LISTENER\n    match:\n      context: SIDECAR_OUTBOUND\n      listener:\n        portNumber: 9191\n    patch:\n      operation: REMOVE\n"),
		p("FILTER_CHAIN/MERGE", "  - applyTo: FILTER_CHAIN\n"+lMatch+"    patch:\n      operation: MERGE\n      value:\n        transport_socket_connect_timeout: 9s\n"),
		p("FILTER_CHAIN/REMOVE", "  - applyTo: FILTER_CHAIN\n    match:\n      context: SIDECAR_OUTBOUND\n      listener:\n        portNumber: 9191\n        filterChain:\n          sni: nothing.example\n    patch:\n      operation: REMOVE\n"),
		p("NETWORK_FILTER/MERGE", "  - applyTo: NETWORK_FILTER\n"+lMatch+"        filterChain:\n          filter:\n            name: "+hcm+"\n    patch:\n      operation: MERGE\n      value:\n        name: "+hcm+"\n        typed_config:\n          \"@type\": type.googleapis.com/envoy.extensions.filters.network.http_connection_manager.v3.HttpConnectionManager\n          max_request_headers_kb: 77\n"),
		p("NETWORK_FILTER/INSERT_BEFORE", "  - applyTo: NETWORK_FILTER\n"+lMatch+"        filterChain:\n          filter:\n            name: "+hcm+"\n    patch:\n      operation: INSERT_BEFORE\n      value:\n        name: envoy.filters.network.connection_limit\n        typed_config:\n          \"@type\": type.googleapis.com/envoy.extensions.filters.network.connection_limit.v3.ConnectionLimit\n          stat_prefix: cl\n          max_connections: 1000\n"),
		p("HTTP_FILTER/INSERT_BEFORE", "  - applyTo: HTTP_FILTER\n"+lMatch+"        filterChain:\n          filter:\n            name: "+hcm+"\n            subFilter:\n              name: envoy.filters.http.router\n    patch:\n      operation: INSERT_BEFORE\n      value:\n        name: envoy.filters.http.buffer\n        typed_config:\n          \"@type\": type.googleapis.com/envoy.extensions.filters.http.buffer.v3.Buffer\n          max_request_bytes: 4096\n"),
		p("HTTP_FILTER/INSERT_FIRST", "  - applyTo: HTTP_FILTER\n    match:\n      context: SIDECAR_OUTBOUND\n      listener:\n        filterChain:\n          filter:\n            name: "+hcm+"\n    patch:\n      operation: INSERT_FIRST\n      value:\n        name: envoy.filters.http.buffer\n        typed_config:\n          \"@type\": type.googleapis.com/envoy.extensions.filters.http.buffer.v3.Buffer\n          max_request_bytes: 8192\n"),
		p("HTTP_FILTER/REMOVE", "  - applyTo: HTTP_FILTER\n"+lMatch+"        filterChain:\n          filter:\n            name: "+hcm+"\n            subFilter:\n              name: envoy.filters.http.fault\n    patch:\n      operation: REMOVE\n"),
		p("HTTP_FILTER/MERGE", "  - applyTo: HTTP_FILTER\n"+lMatch+"        filterChain:\n          filter:\n            name: "+hcm+"\n            subFilter:\n              name: envoy.filters.http.cors\n    patch:\n      operation: MERGE\n      value:\n        name: envoy.filters.http.cors\n"),
		p("CLUSTER/MERGE", fmt.Sprintf("  - applyTo: CLUSTER\n    match:\n      context: SIDECAR_OUTBOUND\n      cluster:\n        service: a.example.com\n        portNumber: %d\n    patch:\n      operation: MERGE\n      value:\n        connect_timeout: 3s\n", port)),
		p("CLUSTER/REMOVE", fmt.Sprintf("  - applyTo: CLUSTER\n    match:\n      context: SIDECAR_OUTBOUND\n      cluster:\n        service: b.example.com\n        portNumber: %d\n    patch:\n      operation: REMOVE\n", port)),
		p("CLUSTER/ADD", "  - applyTo: CLUSTER\n    patch:\n      operation: ADD\n      value:\n        name: extra-cluster\n        connect_timeout: 1s\n        type: STATIC\n"),
	}
}

func genEnvoyFilterScenario(r *vlib.Rand, w *world) {
	w.features = append(w.features, "scenario-envoyfilter")
	port := vlib.Pick(r, []int{80, 80, 8080})
	for _, h := range []string{"a", "b"} {
		w.add(fmt.Sprintf("apiVersion: networking.istio.io/v1\nkind: ServiceEntry\nmetadata:\n  name: ef-%s\n  namespace: ns1\nspec:\n  hosts:\n  - %s.example.com\n"+
			"  ports:\n  - number: %d\n    name: http\n    protocol: HTTP\n  resolution: DNS\n", h, h, port), "se")
	}
	// two hosts, named routes: both virtual hosts are built from the same route slice
	w.add(fmt.Sprintf("apiVersion: networking.istio.io/v1\nkind: VirtualService\nmetadata:\n  name: web\n  namespace: ns1\nspec:\n  hosts:\n  - a.example.com\n  - b.example.com\n"+
		"  http:\n  - name: canary\n    match:\n    - uri:\n        prefix: /canary\n    route:\n    - destination:\n        host: a.example.com\n        port:\n          number: %d\n"+
		"  - name: stable\n    route:\n    - destination:\n        host: b.example.com\n        port:\n          number: %d\n", port, port), "vs", "vs-two-hosts-named-routes")
	pool := efPatches(port)
	nEF := 1 + r.Intn(2)
	for e := 0; e < nEF; e++ {
		var b strings.Builder
		fmt.Fprintf(&b, "apiVersion: networking.istio.io/v1alpha3\nkind: EnvoyFilter\nmetadata:\n  name: sef%d\n  namespace: %s\nspec:\n  configPatches:\n", e,
			vlib.Pick(r, []string{"istio-system", "ns1"}))
		var picks []efPatch
		if e == 0 {
			picks = append(picks, pool[r.Intn(8)]) // always one patch that selects one of the sibling virtual hosts / routes
		}
		for k, n := 0, 1+r.Intn(3); k < n; k++ {
			picks = append(picks, vlib.Pick(r, pool))
		}
		for _, p := range picks {
			if strings.HasSuffix(p.label, "/ADD") {
				// an object may be ADDed once per world (adding the same name twice is a user error, not a generator defect)
				if w.hasFeature("ef:" + p.label) {
					continue
				}
			}
			b.WriteString(p.yaml)
			w.features = append(w.features, "ef:"+p.label)
		}
		w.add(b.String(), "ef")
	}
}
